(** Facts about [real_path] / [resolve_loop] (Backup/BackupFS.v, the model of
    resolvePathWithInfo in fs_utils.go) over the concrete OS filesystem
    [osfs] and the kernel path walk [resolve] of Fs/FsModel.v.  Property C16.
    See Props/C16.v for the property-level statements and what is excluded.
    Parts A-J treat absolute names; part K lifts the exclusion of relative
    names (D20): the loop invariant is generalised to candidates that are
    relative to the working directory (the root), possibly with leading "..",
    and become absolute when an absolute link target is met. *)
From stdpp Require Import gmap.
From BFS Require Import Backup.Triggers Fs.FsSpec.
From BFS Require Import Proofs.PathFacts Proofs.C19Facts Proofs.FsFacts.
Local Open Scope nat_scope.

(* ------------------------------------------------------------------ *)
(** * A. Paths: [split_sep], [norm], [join2], [dir] on key paths *)

(** a component of a key: non-empty, not ".", not "..", no separator *)
Definition pg (c : str) : Prop := good_comp c /\ c <> s_dotdot.

Lemma pg_plain : forall c, pg c -> plain_comp c.
Proof.
  intros c [Hg Hd]. split.
  - apply good_comp_not_trivial. exact Hg.
  - apply str_eqb_neq. exact Hd.
Qed.

Lemma Forall_pg_plain : forall k, Forall pg k -> Forall plain_comp k.
Proof. intros k H. eapply List.Forall_impl; [|exact H]. exact pg_plain. Qed.

Lemma Forall_pg_good : forall k, Forall pg k -> Forall good_comp k /\ ~ In s_dotdot k.
Proof.
  intros k H. split.
  - eapply List.Forall_impl; [|exact H]. intros c Hc. exact (proj1 Hc).
  - intro Hin. rewrite List.Forall_forall in H. exact (proj2 (H _ Hin) eq_refl).
Qed.

Lemma Forall_pg_of_good : forall k, Forall good_comp k -> ~ In s_dotdot k -> Forall pg k.
Proof.
  intros k Hg Hnd. apply List.Forall_forall. intros c Hc. split.
  - rewrite List.Forall_forall in Hg. exact (Hg c Hc).
  - intro E. subst c. exact (Hnd Hc).
Qed.

Lemma comps_abs_pg : forall p, is_abs p = true -> Forall pg (comps p).
Proof.
  intros p Ha. apply Forall_pg_of_good; [apply comps_good | apply abs_comps_no_dotdot; exact Ha].
Qed.

Lemma kpath_pg_abs_cleaned : forall k, Forall pg k -> abs_cleaned (kpath k).
Proof. intros k H. destruct (Forall_pg_good k H). apply kpath_abs_cleaned; assumption. Qed.

Lemma comps_kpath_pg : forall k, Forall pg k -> comps (kpath k) = k.
Proof. intros k H. destruct (Forall_pg_good k H). apply comps_kpath; assumption. Qed.

Lemma split_sep_app_sep : forall a b, split_sep (a ++ sep :: b) = split_sep a ++ split_sep b.
Proof.
  induction a as [|x a IH]; intro b.
  - reflexivity.
  - change ((x :: a) ++ sep :: b) with (x :: (a ++ sep :: b)).
    cbn [split_sep]. rewrite IH. destruct (N.eqb x sep); [reflexivity|].
    pose proof (split_sep_nonnil a) as Hn.
    destruct (split_sep a) as [|h t]; [contradiction Hn; reflexivity | reflexivity].
Qed.

Lemma norm_app : forall r a b stk, norm r (a ++ b) stk = norm r b (rev (norm r a stk)).
Proof.
  intros r a. induction a as [|c a IH]; intros b stk.
  - cbn [app norm]. rewrite rev_involutive. reflexivity.
  - change ((c :: a) ++ b) with (c :: (a ++ b)). rewrite !norm_cons.
    destruct (str_eqb c [] || str_eqb c s_dot); [apply IH|].
    destruct (str_eqb c s_dotdot).
    + destruct stk as [|t stk'].
      * destruct r; apply IH.
      * destruct (str_eqb t s_dotdot); apply IH.
    + apply IH.
Qed.

Lemma norm_pg : forall r cs stk, Forall pg cs -> norm r cs stk = rev stk ++ cs.
Proof.
  intros r cs. induction cs as [|c cs IH]; intros stk H.
  - cbn [norm]. rewrite app_nil_r. reflexivity.
  - inversion H as [|c' cs' Hc Hcs]; subst c' cs'.
    pose proof (pg_plain c Hc) as [Ht Hd]. unfold trivial_comp in Ht.
    rewrite norm_cons, Ht, Hd. rewrite (IH _ Hcs). cbn [rev]. rewrite <- app_assoc. reflexivity.
Qed.

Lemma norm_length : forall r cs stk, length (norm r cs stk) <= length cs + length stk.
Proof.
  intros r cs. induction cs as [|c cs IH]; intro stk.
  - cbn [norm]. rewrite rev_length. simpl. lia.
  - rewrite norm_cons. cbn [length].
    destruct (str_eqb c [] || str_eqb c s_dot); [specialize (IH stk); lia|].
    destruct (str_eqb c s_dotdot).
    + destruct stk as [|t stk'].
      * destruct r; [specialize (IH []) | specialize (IH [c])]; simpl in *; lia.
      * destruct (str_eqb t s_dotdot);
          [specialize (IH (c :: t :: stk')) | specialize (IH stk')]; simpl in *; lia.
    + specialize (IH (c :: stk)). simpl in *. lia.
Qed.

Lemma norm_rooted_pg : forall cs stk,
  Forall nosep cs -> Forall pg stk -> Forall pg (norm true cs stk).
Proof.
  intros cs stk Hns Hstk.
  destruct (Forall_pg_good stk Hstk) as [Hg Hnd].
  pose proof (norm_ok true cs stk Hns (stk_ok_true_of_good stk Hg Hnd)) as Hok.
  apply Forall_pg_of_good.
  - apply stk_ok_good in Hok. apply List.Forall_forall. intros c Hc.
    rewrite List.Forall_forall in Hok. apply Hok. apply -> in_rev. exact Hc.
  - intro Hin. apply (stk_ok_rooted_no_dotdot _ Hok). apply -> in_rev. exact Hin.
Qed.

Lemma Forall_rev_iff : forall (A : Type) (P : A -> Prop) l, Forall P (rev l) <-> Forall P l.
Proof.
  intros A P l. rewrite !List.Forall_forall. split; intros H x Hx; apply H.
  - apply -> in_rev. exact Hx.
  - apply in_rev. exact Hx.
Qed.

Lemma join_sep_app : forall a b,
  a <> [] -> b <> [] -> join_sep (a ++ b) = join_sep a ++ sep :: join_sep b.
Proof.
  induction a as [|x a IH]; intros b Ha Hb.
  - contradiction Ha. reflexivity.
  - destruct a as [|y a].
    + cbn [app]. rewrite join_sep_cons by exact Hb. reflexivity.
    + change ((x :: y :: a) ++ b) with (x :: ((y :: a) ++ b)).
      rewrite join_sep_cons by (cbn; discriminate).
      rewrite IH by (discriminate || exact Hb).
      rewrite (join_sep_cons x (y :: a)) by discriminate.
      rewrite <- app_assoc. reflexivity.
Qed.

Lemma kpath_app : forall K pre,
  K <> [] -> pre <> [] -> kpath (K ++ pre) = kpath K ++ sep :: join_sep pre.
Proof.
  intros K pre HK Hpre. unfold kpath. rewrite !render_abs.
  rewrite join_sep_app by assumption. reflexivity.
Qed.

Lemma kpath_nonempty : forall k, kpath k <> [].
Proof. intro k. unfold kpath. rewrite render_abs. discriminate. Qed.

Lemma is_abs_kpath : forall k, is_abs (kpath k) = true.
Proof. intro k. unfold kpath. rewrite render_abs. reflexivity. Qed.

Lemma trim_kpath : forall K pre,
  K <> [] -> pre <> [] ->
  trim_prefix (kpath (K ++ pre)) (kpath K) = sep :: join_sep pre.
Proof. intros K pre HK Hpre. rewrite kpath_app by assumption. apply trim_prefix_app. Qed.

Lemma is_abs_app : forall a b, is_abs a = true -> is_abs (a ++ b) = true.
Proof. intros [|x a] b H; [discriminate H | exact H]. Qed.

(** [filepath.Join(l, "/" + rest)] for an absolute [l] *)
Lemma join2_abs_tail : forall l pre,
  is_abs l = true -> Forall pg pre -> pre <> [] ->
  join2 l (sep :: join_sep pre) = kpath (comps l ++ pre).
Proof.
  intros l pre Ha Hpg Hne.
  assert (El : join2 l (sep :: join_sep pre) = clean (l ++ sep :: sep :: join_sep pre)).
  { destruct l; [discriminate Ha | reflexivity]. }
  rewrite El. unfold clean, comps. rewrite (is_abs_app _ _ Ha).
  rewrite split_sep_app_sep.
  change (split_sep (sep :: join_sep pre)) with ([] :: split_sep (join_sep pre)).
  rewrite split_join; [| exact Hne |].
  2:{ apply Forall_good_nosep. exact (proj1 (Forall_pg_good _ Hpg)). }
  rewrite norm_app. rewrite norm_cons.
  change (str_eqb [] [] || str_eqb [] s_dot) with true. cbv iota.
  rewrite norm_pg by exact Hpg. rewrite rev_involutive.
  unfold comps. rewrite Ha. reflexivity.
Qed.

(** [filepath.Dir] of a non-root key path *)
Lemma dir_kpath_snoc : forall k c, Forall pg k -> pg c -> dir (kpath (k ++ [c])) = kpath k.
Proof.
  intros k c Hk Hc.
  assert (Hkc : Forall pg (k ++ [c])) by (apply Forall_app; split; [exact Hk | constructor; [exact Hc | constructor]]).
  pose proof (kpath_pg_abs_cleaned _ Hkc) as Hac.
  pose proof (comps_kpath_pg _ Hkc) as Ec.
  unfold dir. rewrite (upto_last_sep_abs_cleaned _ Hac).
  2:{ rewrite Ec. intro E. apply app_eq_nil in E. destruct E as [_ E]. discriminate E. }
  rewrite Ec, removelast_last.
  unfold clean, comps. cbn [is_abs]. rewrite eqb_sep_sep.
  change (split_sep (sep :: join_sep (k ++ [[]]))) with ([] :: split_sep (join_sep (k ++ [[]]))).
  rewrite split_join.
  - rewrite norm_cons. change (str_eqb [] [] || str_eqb [] s_dot) with true. cbv iota.
    rewrite norm_app. rewrite (norm_pg true k [] Hk). cbn [rev app].
    rewrite norm_cons. change (str_eqb [] [] || str_eqb [] s_dot) with true. cbv iota.
    cbn [norm]. rewrite rev_involutive. reflexivity.
  - intro E. apply app_eq_nil in E. destruct E as [_ E]. discriminate E.
  - apply Forall_app. split.
    + apply Forall_good_nosep. exact (proj1 (Forall_pg_good _ Hk)).
    + constructor; [apply nosep_nil | constructor].
Qed.

(** the key that [toAbsSymlink target (link at k/c)] denotes lexically *)
Definition lexkey (k : key) (t : str) : key :=
  norm true (split_sep t) (if is_abs t then [] else rev k).

Lemma to_abs_symlink_key : forall k c t,
  Forall pg k -> pg c ->
  is_abs (to_abs_symlink t (kpath (k ++ [c]))) = true /\
  comps (to_abs_symlink t (kpath (k ++ [c]))) = lexkey k t.
Proof.
  intros k c t Hk Hc. unfold to_abs_symlink, lexkey.
  destruct (is_abs t) eqn:Ha.
  - split; [exact Ha|]. unfold comps. rewrite Ha. reflexivity.
  - rewrite (dir_kpath_snoc k c Hk Hc).
    assert (E : join2 (kpath k) t = clean (kpath k ++ sep :: t)).
    { pose proof (kpath_nonempty k) as Hn. unfold join2.
      destruct (kpath k); [contradiction Hn; reflexivity | reflexivity]. }
    rewrite E. split.
    + unfold clean. apply is_abs_render. apply comps_good.
    + unfold clean. rewrite comps_render by apply comps_normal.
      unfold comps at 1. rewrite (is_abs_app _ _ (is_abs_kpath k)).
      rewrite split_sep_app_sep, norm_app.
      change (norm true (split_sep (kpath k)) []) with (norm (is_abs (kpath k)) (split_sep (kpath k)) []) .
      fold (comps (kpath k)). rewrite (comps_kpath_pg k Hk). reflexivity.
Qed.

Lemma lexkey_pg : forall k t, Forall pg k -> Forall pg (lexkey k t).
Proof.
  intros k t Hk. unfold lexkey. apply norm_rooted_pg; [apply split_sep_nosep|].
  destruct (is_abs t); [constructor | apply Forall_rev_iff; exact Hk].
Qed.

Lemma lexkey_length : forall k t, length (lexkey k t) <= length k + length (split_sep t).
Proof.
  intros k t. unfold lexkey.
  pose proof (norm_length true (split_sep t) (if is_abs t then [] else rev k)) as H.
  destruct (is_abs t); cbn [length] in H; [lia | rewrite rev_length in H; lia].
Qed.

(* ------------------------------------------------------------------ *)
(** * B. The kernel walk, budget-free *)

(** a walk result that is not an artefact of the fuel / the 40-hop budget *)
Definition definite (r : wres) : Prop := r <> WErr EFUEL /\ r <> WErr ELOOP.

(** more fuel and fewer hops already used do not change a definite result *)
Lemma walk_mono : forall F f h cur cs fl r F' h',
  walk F f h cur cs fl = r -> definite r -> F <= F' -> h' <= h ->
  walk F' f h' cur cs fl = r.
Proof.
  induction F as [|F IH]; intros f h cur cs fl r F' h' Hw Hdef HF Hh.
  - cbn [walk] in Hw. subst r. destruct Hdef as [X _]. contradiction X. reflexivity.
  - destruct F' as [|F']; [lia|]. rewrite walk_S in Hw. rewrite walk_S.
    destruct cs as [|c rest]; [exact Hw|].
    destruct (trivial_comp c); [eapply IH; eauto; lia|].
    destruct (str_eqb c s_dotdot); [eapply IH; eauto; lia|].
    destruct (f !! (cur ++ [c])) as [[m|m d|m t]|]; [eapply IH; eauto; lia | exact Hw | | exact Hw].
    destruct ((match rest with [] => true | _ => false end) && negb fl); [exact Hw|].
    destruct (Nat.leb 40 h) eqn:E.
    + subst r. destruct Hdef as [_ X]. contradiction X. reflexivity.
    + assert (E' : Nat.leb 40 h' = false).
      { apply Nat.leb_gt. apply Nat.leb_gt in E. lia. }
      rewrite E'. eapply IH; eauto; lia.
Qed.

Definition walks (f : fs) (cur : key) (cs : list str) (fl : bool) (r : wres) : Prop :=
  exists F h, walk F f h cur cs fl = r /\ definite r.

Lemma walks_fun : forall f cur cs fl r1 r2,
  walks f cur cs fl r1 -> walks f cur cs fl r2 -> r1 = r2.
Proof.
  intros f cur cs fl r1 r2 (F1 & h1 & E1 & D1) (F2 & h2 & E2 & D2).
  pose proof (walk_mono _ _ _ _ _ _ _ (Nat.max F1 F2) 0 E1 D1 (Nat.le_max_l _ _) (Nat.le_0_l _)) as A.
  pose proof (walk_mono _ _ _ _ _ _ _ (Nat.max F1 F2) 0 E2 D2 (Nat.le_max_r _ _) (Nat.le_0_l _)) as B.
  congruence.
Qed.

Lemma walks_definite : forall f cur cs fl r, walks f cur cs fl r -> definite r.
Proof. intros f cur cs fl r (F & h & _ & D). exact D. Qed.

Lemma not_definite_fuel : ~ definite (WErr EFUEL).
Proof. intros [X _]. apply X. reflexivity. Qed.

Lemma walks_trivial : forall f cur c Y fl r,
  trivial_comp c = true -> (walks f cur (c :: Y) fl r <-> walks f cur Y fl r).
Proof.
  intros f cur c Y fl r Ht. split; intros (F & h & E & D).
  - destruct F as [|F]; [cbn [walk] in E; subst r; contradiction (not_definite_fuel D)|].
    rewrite (walk_trivial _ _ _ _ _ _ _ Ht) in E. exists F, h. split; assumption.
  - exists (S F), h. rewrite (walk_trivial _ _ _ _ _ _ _ Ht). split; assumption.
Qed.

Lemma walks_dotdot : forall f cur Y fl r,
  walks f cur (s_dotdot :: Y) fl r <-> walks f (parent_key cur) Y fl r.
Proof.
  intros f cur Y fl r. split; intros (F & h & E & D).
  - destruct F as [|F]; [cbn [walk] in E; subst r; contradiction (not_definite_fuel D)|].
    rewrite walk_S in E. exists F, h. split; assumption.
  - exists (S F), h. rewrite walk_S. split; assumption.
Qed.

Lemma walks_dir_step : forall (f : fs) cur c Y fl r m,
  plain_comp c -> f !! (cur ++ [c]) = Some (Dir m) ->
  (walks f cur (c :: Y) fl r <-> walks f (cur ++ [c]) Y fl r).
Proof.
  intros f cur c Y fl r m Hp Hm. split; intros (F & h & E & D).
  - destruct F as [|F]; [cbn [walk] in E; subst r; contradiction (not_definite_fuel D)|].
    rewrite (walk_plain_dir _ _ _ _ _ _ _ m Hp Hm) in E. exists F, h. split; assumption.
  - exists (S F), h. rewrite (walk_plain_dir _ _ _ _ _ _ _ m Hp Hm). split; assumption.
Qed.

Lemma walks_dirs : forall (f : fs) ds cur Y fl r,
  Forall plain_comp ds ->
  (forall pre post, ds = pre ++ post -> pre <> [] -> is_dir_at f (cur ++ pre)) ->
  (walks f cur (ds ++ Y) fl r <-> walks f (cur ++ ds) Y fl r).
Proof.
  intros f ds. induction ds as [|c ds IH]; intros cur Y fl r Hpl Hd.
  - rewrite app_nil_r. reflexivity.
  - inversion Hpl as [|c' ds' Hc Hds]; subst c' ds'.
    destruct (Hd [c] ds eq_refl ltac:(discriminate)) as [m Hm].
    change ((c :: ds) ++ Y) with (c :: (ds ++ Y)).
    rewrite (walks_dir_step f cur c _ fl r m Hc Hm).
    replace (cur ++ c :: ds) with ((cur ++ [c]) ++ ds) by (rewrite <- app_assoc; reflexivity).
    apply IH; [exact Hds|].
    intros pre post E Hne. rewrite <- app_assoc. apply (Hd (c :: pre) post).
    + rewrite E. reflexivity.
    + discriminate.
Qed.

(** every prefix of [k], [k] included, is a directory *)
Definition dirkey (f : fs) (k : key) : Prop := forall pre post, k = pre ++ post -> is_dir_at f pre.

Lemma walks_dirkey : forall (f : fs) k Y fl r,
  Forall plain_comp k -> dirkey f k ->
  (walks f [] (k ++ Y) fl r <-> walks f k Y fl r).
Proof.
  intros f k Y fl r Hpl Hd.
  apply (walks_dirs f k [] Y fl r Hpl). intros pre post E _. exact (Hd pre post E).
Qed.

Lemma walks_link : forall (f : fs) cur c X fl r m t,
  plain_comp c -> f !! (cur ++ [c]) = Some (Link m t) -> (X <> [] \/ fl = true) ->
  walks f cur (c :: X) fl r ->
  walks f (if is_abs t then [] else cur) (split_sep t ++ X) fl r.
Proof.
  intros f cur c X fl r m t [Ht Hdd] Hm Hx (F & h & E & D).
  destruct F as [|F]; [cbn [walk] in E; subst r; contradiction (not_definite_fuel D)|].
  rewrite walk_S in E. norm_keys. rewrite Ht, Hdd, Hm in E.
  assert (Eb : (match X with [] => true | _ => false end) && negb fl = false).
  { destruct Hx as [Hx|Hx]; [destruct X; [contradiction Hx; reflexivity | reflexivity]|].
    subst fl. apply andb_false_r. }
  rewrite Eb in E. destruct (Nat.leb 40 h).
  - subst r. destruct D as [_ X0]. contradiction X0. reflexivity.
  - exists F, (S h). split; assumption.
Qed.

Fixpoint upn (n : nat) (k : key) : key :=
  match n with O => k | S n' => upn n' (removelast k) end.

Lemma walks_ups : forall f n cur Y fl r,
  walks f cur (repeat s_dotdot n ++ Y) fl r -> walks f (upn n cur) Y fl r.
Proof.
  intros f n. induction n as [|n IH]; intros cur Y fl r H.
  - exact H.
  - cbn [repeat app] in H. apply walks_dotdot in H. cbn [upn]. apply IH. exact H.
Qed.

Lemma dirkey_removelast : forall f k, dirkey f k -> dirkey f (removelast k).
Proof.
  intros f k Hd pre post E. destruct k as [|x k'] using rev_ind.
  - cbn in E. symmetry in E. apply app_eq_nil in E. destruct E as [E _]. subst pre. apply (Hd [] []). reflexivity.
  - rewrite removelast_last in E. apply (Hd pre (post ++ [x])). rewrite E, app_assoc. reflexivity.
Qed.

Lemma dirkey_upn : forall f n k, dirkey f k -> dirkey f (upn n k).
Proof.
  intros f n. induction n as [|n IH]; intros k Hd; [exact Hd|].
  cbn [upn]. apply IH. apply dirkey_removelast. exact Hd.
Qed.

Lemma removelast_Forall : forall (A : Type) (P : A -> Prop) l, Forall P l -> Forall P (removelast l).
Proof.
  intros A P l H. destruct l as [|x l'] using rev_ind; [exact H|].
  rewrite removelast_last. apply Forall_app in H. exact (proj1 H).
Qed.

Lemma upn_Forall : forall (P : str -> Prop) n k, Forall P k -> Forall P (upn n k).
Proof.
  intros P n. induction n as [|n IH]; intros k H; [exact H|].
  cbn [upn]. apply IH. apply removelast_Forall. exact H.
Qed.

Lemma norm_ups : forall n k pl,
  Forall pg k -> Forall pg pl ->
  norm true (repeat s_dotdot n ++ pl) (rev k) = upn n k ++ pl.
Proof.
  induction n as [|n IH]; intros k pl Hk Hpl.
  - cbn [repeat app upn]. rewrite norm_pg by exact Hpl. rewrite rev_involutive. reflexivity.
  - cbn [repeat upn]. change ((s_dotdot :: repeat s_dotdot n) ++ pl) with (s_dotdot :: (repeat s_dotdot n ++ pl)).
    rewrite norm_cons.
    change (str_eqb s_dotdot [] || str_eqb s_dotdot s_dot) with false. cbv iota.
    rewrite str_eqb_refl.
    destruct k as [|x k'] using rev_ind.
    + cbn [rev removelast]. apply (IH [] pl); [constructor | exact Hpl].
    + rewrite rev_unit, removelast_last.
      apply Forall_app in Hk. destruct Hk as [Hk' Hx].
      inversion Hx as [|x' l' [_ Hxd] _]; subst x' l'.
      apply str_eqb_neq in Hxd. rewrite Hxd. apply IH; assumption.
Qed.

(** a relative normal form is a run of ".." followed by plain components *)
Lemma dotdot_run : forall cs,
  (forall l1 l2, cs = l1 ++ s_dotdot :: l2 -> Forall (eq s_dotdot) l1) ->
  exists n pl, cs = repeat s_dotdot n ++ pl /\ ~ In s_dotdot pl.
Proof.
  induction cs as [|c cs IH]; intro H.
  - exists 0, []. split; [reflexivity | intros []].
  - destruct (str_eq_dec c s_dotdot) as [E|E].
    + subst c. destruct IH as (n & pl & E1 & E2).
      { intros l1 l2 E. specialize (H (s_dotdot :: l1) l2). rewrite E in H.
        specialize (H eq_refl). inversion H; assumption. }
      exists (S n), pl. split; [rewrite E1; reflexivity | exact E2].
    + exists 0, (c :: cs). split; [reflexivity|]. intro Hin.
      apply in_split in Hin. destruct Hin as (l1 & l2 & El).
      pose proof (H l1 l2 El) as Hall. destruct l1 as [|y l1].
      * cbn in El. injection El as Ec _. contradiction.
      * cbn in El. injection El as Ec _. subst y. apply E. symmetry. exact (Forall_inv Hall).
Qed.

Lemma normal_rel_shape : forall cs,
  normal false cs -> exists n pl, cs = repeat s_dotdot n ++ pl /\ Forall pg pl.
Proof.
  intros cs Hn. destruct (dotdot_run cs) as (n & pl & E & Hnd).
  - intros l1 l2 E. rewrite E in Hn. exact (proj2 (normal_dotdot_leading _ _ _ Hn)).
  - exists n, pl. split; [exact E|]. apply Forall_pg_of_good; [|exact Hnd].
    pose proof (normal_good _ _ Hn) as Hg. rewrite E in Hg. apply Forall_app in Hg. exact (proj2 Hg).
Qed.

(** the kernel's walk through a symlink whose target is lexically clean, met
    below link-free directories, is the walk of the lexically joined path *)
Lemma walks_link_lexical : forall (f : fs) k c X fl r m t,
  Forall pg k -> dirkey f k -> pg c ->
  f !! (k ++ [c]) = Some (Link m t) -> clean t = t ->
  (X <> [] \/ fl = true) ->
  walks f [] (k ++ c :: X) fl r ->
  walks f [] (lexkey k t ++ X) fl r.
Proof.
  intros f k c X fl r m t Hk Hd Hc Hm Hcl Hx Hw.
  apply (walks_dirkey f k _ fl r (Forall_pg_plain k Hk) Hd) in Hw.
  apply (walks_link f k c X fl r m t (pg_plain c Hc) Hm Hx) in Hw.
  unfold lexkey. destruct (is_abs t) eqn:Ha.
  - assert (Hac : abs_cleaned t) by (split; [exact Hcl | exact Ha]).
    rewrite (abs_cleaned_split_gen t Hac) in *.
    change (([] :: match comps t with [] => [[]] | _ :: _ => comps t end) ++ X)
      with ([] :: (match comps t with [] => [[]] | _ :: _ => comps t end ++ X)) in Hw.
    apply walks_trivial in Hw; [|reflexivity].
    rewrite norm_cons. change (str_eqb [] [] || str_eqb [] s_dot) with true. cbv iota.
    pose proof (comps_abs_pg t Ha) as Hpg.
    destruct (comps t) as [|c0 cs0] eqn:Ec.
    + change ([[]] ++ X) with ([] :: X) in Hw. apply walks_trivial in Hw; [|reflexivity].
      exact Hw.
    + rewrite norm_pg by exact Hpg. exact Hw.
  - pose proof (cleaned_eq t Hcl) as Et. rewrite Ha in Et.
    pose proof (comps_normal t) as Hn. rewrite Ha in Hn.
    destruct (comps t) as [|c0 cs0] eqn:Ec.
    + cbn [render] in Et. rewrite Et in *.
      change (split_sep s_dot ++ X) with (s_dot :: X) in Hw.
      apply walks_trivial in Hw; [|reflexivity].
      change (norm true (split_sep s_dot) (rev k)) with (rev (rev k)). rewrite rev_involutive.
      apply (walks_dirkey f k _ fl r (Forall_pg_plain k Hk) Hd). exact Hw.
    + rewrite render_rel_cons in Et.
      assert (Es : split_sep t = c0 :: cs0).
      { rewrite Et. apply split_join; [discriminate|].
        apply Forall_good_nosep. rewrite <- Ec. apply comps_good. }
      rewrite Es in *.
      destruct (normal_rel_shape _ Hn) as (n & pl & Esh & Hpl).
      rewrite Esh in *. rewrite <- app_assoc in Hw.
      apply walks_ups in Hw.
      rewrite (norm_ups n k pl Hk Hpl). rewrite <- app_assoc.
      apply (walks_dirkey f (upn n k) _ fl r).
      * apply Forall_pg_plain. apply upn_Forall. exact Hk.
      * apply dirkey_upn. exact Hd.
      * exact Hw.
Qed.

(* ------------------------------------------------------------------ *)
(** * C. [resolve_loop] over [osfs] is a pure function of the filesystem state *)

Fixpoint rloop (s : fstate) (acc : list str) (g : str -> str) (final : str)
  : res (str * option finfo) :=
  match acc with
  | [] => Err EOther
  | q :: rest =>
      let p := g q in
      match fs_lstat s p with
      | Err e => if is_not_found e then Ok (g final, None) else Err e
      | Ok fi =>
          match fi_kind fi with
          | KLink =>
              match fs_readlink s p with
              | Err e => Err e
              | Ok linked =>
                  let l := to_abs_symlink linked p in
                  match rest with
                  | [] => Ok (p, Some fi)
                  | _ => rloop s rest (fun x => join2 l (trim_prefix (g x) p)) final
                  end
              end
          | _ => match rest with [] => Ok (p, Some fi) | _ => rloop s rest g final end
          end
      end
  end.

Definition res_to_m {A} (r : res A) (w : world) : mres A * world :=
  (match r with Ok a => MOk a | Err e => MErr e end, w).

Lemma resolve_loop_osfs : forall acc g final w,
  resolve_loop osfs acc g final w = res_to_m (rloop (w_st w) acc g final) w.
Proof.
  induction acc as [|q rest IH]; intros g final w.
  - reflexivity.
  - cbn [resolve_loop rloop]. cbn [a_lstat a_readlink osfs].
    unfold bind at 1. unfold try_, fs_get.
    destruct (fs_lstat (w_st w) (g q)) as [fi|e]; cbn [lift_res ret fail].
    + destruct (fi_kind fi).
      * destruct rest; [reflexivity | apply IH].
      * destruct rest; [reflexivity | apply IH].
      * unfold bind at 1.
        destruct (fs_readlink (w_st w) (g q)) as [t|e]; cbn [lift_res ret fail]; [|reflexivity].
        destruct rest; [reflexivity | apply IH].
    + destruct (is_not_found e); reflexivity.
Qed.

(** [real_path] as a pure function *)
Definition rpath (s : fstate) (n : str) : res str :=
  match rloop s (cands (clean n)) (fun x => x) (clean n) with
  | Ok a => Ok (fst a)
  | Err e => Err e
  end.

Lemma real_path_osfs : forall n w, real_path osfs n w = res_to_m (rpath (w_st w) n) w.
Proof.
  intros n w. unfold real_path, resolve_path_with_info, rpath.
  pose proof (cleaned_nonempty _ (cleaned_clean n)) as Hne.
  destruct (clean n) as [|x cn] eqn:E; [contradiction Hne; reflexivity|].
  unfold bind. rewrite resolve_loop_osfs. unfold res_to_m.
  destruct (rloop (w_st w) (cands (x :: cn)) (fun x0 => x0) (x :: cn)); reflexivity.
Qed.

(** T1 (a): resolution is read-only and never halts *)
Lemma real_path_readonly : forall n w,
  snd (real_path osfs n w) = w /\ fst (real_path osfs n w) <> MHalt.
Proof.
  intros n w. rewrite real_path_osfs. unfold res_to_m. split; [reflexivity|].
  cbn [fst]. destruct (rpath (w_st w) n); discriminate.
Qed.

(** ** the D17 trigger of Backup/Triggers.v, as a function of the state *)

Definition lstat_is_link (s : fstate) (a : str) : bool :=
  match fs_lstat s a with
  | Ok fi => match fi_kind fi with KLink => true | _ => false end
  | Err _ => false
  end.

Fixpoint through_link (s : fstate) (acc : list str) (g : str -> str) : bool :=
  match acc with
  | [] => false
  | q :: rest =>
      let p := g q in
      match fs_lstat s p with
      | Err _ => false
      | Ok fi =>
          match fi_kind fi with
          | KLink =>
              match fs_readlink s p with
              | Err _ => false
              | Ok linked =>
                  let l := to_abs_symlink linked p in
                  match rest with
                  | [] => false
                  | _ => existsb (lstat_is_link s) (cands l)
                         || through_link s rest (fun x => join2 l (trim_prefix (g x) p))
                  end
              end
          | _ => through_link s rest g
          end
      end
  end.

Lemma existsb_ext' : forall (A : Type) (p1 p2 : A -> bool) l,
  (forall a, p1 a = p2 a) -> existsb p1 l = existsb p2 l.
Proof.
  intros A p1 p2 l H. induction l as [|x l IH]; [reflexivity|].
  cbn [existsb]. rewrite H, IH. reflexivity.
Qed.

Lemma query_fs_get : forall (A : Type) (g : fstate -> res A) w,
  query (fs_get g) w = match g (w_st w) with Ok a => Some a | Err _ => None end.
Proof. intros A g w. unfold query, fs_get. destruct (g (w_st w)); reflexivity. Qed.

(** a configuration whose base filesystem is the plain OS filesystem *)
Definition plain_cfg (q : str) : config := mkConfig None [] q.

Lemma is_link_at_osfs : forall q a w, is_link_at (plain_cfg q) a w = lstat_is_link (w_st w) a.
Proof.
  intros q a w. unfold is_link_at, lstat_is_link. cbn [plain_cfg cfg_base_unspied c_prefix c_hidden a_lstat osfs].
  rewrite query_fs_get. destruct (fs_lstat (w_st w) a); reflexivity.
Qed.

Lemma resolve_through_link_osfs : forall q acc g w,
  resolve_through_link (plain_cfg q) acc g w = through_link (w_st w) acc g.
Proof.
  intros q acc. induction acc as [|x rest IH]; intros g w.
  - reflexivity.
  - cbn [resolve_through_link through_link].
    cbn [plain_cfg cfg_base_unspied c_prefix c_hidden a_lstat a_readlink osfs].
    rewrite !query_fs_get.
    destruct (fs_lstat (w_st w) (g x)) as [fi|e]; [|reflexivity].
    destruct (fi_kind fi); [apply IH | apply IH |].
    destruct (fs_readlink (w_st w) (g x)) as [t|e]; [|reflexivity].
    destruct rest as [|y rest']; [reflexivity|].
    rewrite IH. f_equal. apply existsb_ext'. intro a. apply (is_link_at_osfs q a w).
Qed.

(* ------------------------------------------------------------------ *)
(** * D. The invariant of the resolution loop *)

(** no prefix of [k], [k] included, is a symlink *)
Definition NL (f : fs) (k : key) : Prop := forall pre post, k = pre ++ post -> not_link_at f pre.

(** K2 excluded: every stored link target is lexically clean *)
Definition targets_clean (f : fs) : Prop := forall k m t, f !! k = Some (Link m t) -> clean t = t.

Definition node_cost (n : node) : nat :=
  match n with Link _ t => length (split_sep t) | _ => 0 end.

(** a size bound on the tree relative to the constant part of the walk
    budget: key depth + components of a link target + components of the name.
    It was a hypothesis of the C16 theorems while [resolve] ran with the
    constant budget [walk_fuel]; with the budget [walk_fuel + length p] no
    theorem needs it any more ([size_okb] is still evaluated in the necessity
    examples below). *)
Definition size_ok (f : fs) (N : nat) : Prop :=
  forall k n, f !! k = Some n -> length k + node_cost n + N + 3 < walk_fuel.

Lemma snoc_split : forall (A : Type) (k pre post : list A) c,
  k ++ [c] = pre ++ post ->
  (post = [] /\ pre = k ++ [c]) \/ (exists post', post = post' ++ [c] /\ k = pre ++ post').
Proof.
  intros A k pre post c E. destruct post as [|y post'] using rev_ind.
  - left. rewrite app_nil_r in E. split; [reflexivity | symmetry; exact E].
  - right. rewrite app_assoc in E. apply app_inj_tail in E. destruct E as [E1 E2].
    subst y. exists post'. split; [reflexivity | exact E1].
Qed.

Lemma NL_snoc : forall f k c, NL f k -> not_link_at f (k ++ [c]) -> NL f (k ++ [c]).
Proof.
  intros f k c Hk Hc pre post E. destruct (snoc_split _ _ _ _ _ E) as [[_ E1]|(post' & _ & E1)].
  - subst pre. exact Hc.
  - exact (Hk pre post' E1).
Qed.

Lemma nolinkpar_of_NL : forall f k c,
  Forall pg k -> pg c -> NL f k -> nolinkpar f (kpath (k ++ [c])).
Proof.
  intros f k c Hk Hc Hnl.
  assert (Hkc : Forall pg (k ++ [c])) by (apply Forall_app; split; [exact Hk | constructor; [exact Hc | constructor]]).
  split; [apply kpath_pg_abs_cleaned; exact Hkc|].
  rewrite (comps_kpath_pg _ Hkc). apply Forall_kprefixes. intros pre r Hr E.
  destruct (snoc_split _ _ _ _ _ E) as [[E0 _]|(post' & _ & E1)]; [contradiction|].
  exact (Hnl pre post' E1).
Qed.

Lemma dirkey_of_present : forall (f : fs) k c n,
  wf f -> f !! (k ++ [c]) = Some n -> dirkey f k.
Proof.
  intros f k c n Hwf Hn pre post E. subst k. rewrite <- app_assoc in Hn.
  apply (wf_prefix_dir f pre (post ++ [c]) n Hwf); [|exact Hn].
  intro E. apply app_eq_nil in E. destruct E as [_ E]. discriminate E.
Qed.

Lemma absent_below : forall (f : fs) K ext, wf f -> f !! K = None -> f !! (K ++ ext) = None.
Proof.
  intros f K ext Hwf Hn. destruct ext as [|x ext]; [rewrite app_nil_r; exact Hn|].
  destruct (f !! (K ++ x :: ext)) as [n|] eqn:E; [|reflexivity].
  destruct (wf_prefix_dir f K (x :: ext) n Hwf ltac:(discriminate) E) as [m Hm].
  norm_keys. rewrite Hn in Hm. discriminate Hm.
Qed.

Lemma existsb_false_In : forall (A : Type) (p : A -> bool) l a,
  existsb p l = false -> In a l -> p a = false.
Proof.
  intros A p l a H Hin. destruct (p a) eqn:E; [|reflexivity].
  assert (Ht : existsb p l = true) by (apply existsb_exists; exists a; split; assumption).
  rewrite H in Ht. discriminate Ht.
Qed.

Lemma Forall2_map_r' : forall (A B C : Type) (P : A -> C -> Prop) (h : B -> C) l l',
  Forall2 P l (map h l') -> Forall2 (fun x y => P x (h y)) l l'.
Proof.
  intros A B C P h l. induction l as [|x l IH]; intros l' H.
  - destruct l'; [constructor | inversion H].
  - destruct l' as [|y l']; [inversion H|]. cbn [map] in H.
    inversion H as [|a b la lb Hxy Hrest]; subst. constructor; [exact Hxy | apply IH; exact Hrest].
Qed.

Lemma Forall2_impl_In_r : forall (A B : Type) (P Q : A -> B -> Prop) l l',
  (forall x y, In y l' -> P x y -> Q x y) -> Forall2 P l l' -> Forall2 Q l l'.
Proof.
  intros A B P Q l l' H HF. induction HF as [|x y l l' Hxy HF IH]; [constructor|].
  constructor.
  - apply H; [left; reflexivity | exact Hxy].
  - apply IH. intros a b Hb. apply H. right. exact Hb.
Qed.

(** single steps of the two loops, on an abstract candidate *)
Lemma lstat_is_link_ok : forall s p fi,
  fs_lstat s p = Ok fi ->
  lstat_is_link s p = match fi_kind fi with KLink => true | _ => false end.
Proof. intros s p fi H. unfold lstat_is_link. rewrite H. reflexivity. Qed.

Lemma rloop_step_notfound : forall s q rest g final e,
  fs_lstat s (g q) = Err e -> is_not_found e = true ->
  rloop s (q :: rest) g final = Ok (g final, None).
Proof. intros s q rest g final e H1 H2. cbn [rloop]. rewrite H1, H2. reflexivity. Qed.

Lemma rloop_step_plain : forall s q rest g final fi,
  fs_lstat s (g q) = Ok fi -> fi_kind fi <> KLink ->
  rloop s (q :: rest) g final =
    match rest with [] => Ok (g q, Some fi) | _ => rloop s rest g final end.
Proof.
  intros s q rest g final fi H1 H2. cbn [rloop]. rewrite H1.
  destruct (fi_kind fi); [reflexivity | reflexivity | contradiction H2; reflexivity].
Qed.

Lemma rloop_step_link : forall s q rest g final fi t,
  fs_lstat s (g q) = Ok fi -> fi_kind fi = KLink -> fs_readlink s (g q) = Ok t ->
  rloop s (q :: rest) g final =
    match rest with
    | [] => Ok (g q, Some fi)
    | _ => rloop s rest (fun x => join2 (to_abs_symlink t (g q)) (trim_prefix (g x) (g q))) final
    end.
Proof. intros s q rest g final fi t H1 H2 H3. cbn [rloop]. rewrite H1, H2, H3. reflexivity. Qed.

Lemma through_link_step_plain : forall s q rest g fi,
  fs_lstat s (g q) = Ok fi -> fi_kind fi <> KLink ->
  through_link s (q :: rest) g = through_link s rest g.
Proof.
  intros s q rest g fi H1 H2. cbn [through_link]. rewrite H1.
  destruct (fi_kind fi); [reflexivity | reflexivity | contradiction H2; reflexivity].
Qed.

Lemma through_link_step_link : forall s q q1 rest g fi t,
  fs_lstat s (g q) = Ok fi -> fi_kind fi = KLink -> fs_readlink s (g q) = Ok t ->
  through_link s (q :: q1 :: rest) g =
    existsb (lstat_is_link s) (cands (to_abs_symlink t (g q)))
    || through_link s (q1 :: rest) (fun x => join2 (to_abs_symlink t (g q)) (trim_prefix (g x) (g q))).
Proof. intros s q q1 rest g fi t H1 H2 H3. cbn [through_link]. rewrite H1, H2, H3. reflexivity. Qed.

(** [Lstat] / [Readlink] of a key path below link-free parents *)
Lemma lstat_key : forall s k c,
  wf (st_fs s) -> Forall pg k -> pg c -> NL (st_fs s) k ->
  match st_fs s !! (k ++ [c]) with
  | Some n => fs_lstat s (kpath (k ++ [c])) = Ok (info_of (base (kpath (k ++ [c]))) n) /\
              (forall m t, n = Link m t -> fs_readlink s (kpath (k ++ [c])) = Ok t)
  | None => exists e, fs_lstat s (kpath (k ++ [c])) = Err e /\ is_not_found e = true
  end.
Proof.
  intros s k c Hwf Hk Hc Hnl.
  assert (Hkc : Forall pg (k ++ [c])) by (apply Forall_app; split; [exact Hk | constructor; [exact Hc | constructor]]).
  pose proof (nolinkpar_of_NL (st_fs s) k c Hk Hc Hnl) as Hnlp.
  pose proof (comps_kpath_pg _ Hkc) as Ec.
  pose proof (fs_lstat_nolinkpar s (kpath (k ++ [c])) Hwf Hnlp) as HL.
  rewrite Ec in HL.
  destruct (st_fs s !! (k ++ [c])) as [n|] eqn:El; [|exact HL].
  split; [exact HL|]. intros m t En. subst n.
  assert (El' : st_fs s !! comps (kpath (k ++ [c])) = Some (Link m t)) by (rewrite Ec; exact El).
  pose proof (fs_lstat_nolinkpar_present (st_fs s) _ _ Hwf Hnlp El') as Hdirect.
  exact (fs_readlink_direct s _ m t Hdirect El').
Qed.

Section Loop.
  Variable s : fstate.
  Notation f := (st_fs s).
  Hypothesis Hwf : wf f.
  Hypothesis Htc : targets_clean f.
  Variable final : str.

  Lemma NL_root : NL f [].
  Proof.
    intros pre post E. symmetry in E. apply app_eq_nil in E. destruct E as [E _]. subst pre.
    destruct Hwf as [[m Hm] _]. intros m' t E. norm_keys. rewrite Hm in E. discriminate E.
  Qed.

  (** what [Lstat] says about the parents of a key path, read back as [NL] *)
  Lemma NL_of_lstat : forall lk,
    Forall pg lk ->
    (forall pre post, lk = pre ++ post -> lstat_is_link s (kpath pre) = false) ->
    NL f lk.
  Proof.
    induction lk as [|x lk' IH] using rev_ind; intros Hpg Hls.
    - exact NL_root.
    - apply Forall_app in Hpg. destruct Hpg as [Hpg' Hx].
      inversion Hx as [|x' l' Hxp _]; subst x' l'.
      assert (Hnl' : NL f lk').
      { apply IH; [exact Hpg' |].
        intros pre post E. apply (Hls pre (post ++ [x])). rewrite E, app_assoc. reflexivity. }
      apply NL_snoc; [exact Hnl'|].
      pose proof (lstat_key s lk' x Hwf Hpg' Hxp Hnl') as HL.
      pose proof (Hls (lk' ++ [x]) [] ltac:(rewrite app_nil_r; reflexivity)) as Hl.
      remember (kpath (lk' ++ [x])) as p eqn:Ep.
      intros m t E. norm_keys. rewrite E in HL. destruct HL as [HL _].
      rewrite (lstat_is_link_ok s p _ HL) in Hl. discriminate Hl.
  Qed.

  (** the prefix [pre] of the name, walked from the root after [k], is
      equivalent under the kernel walk to the key [k1] in every context that
      makes the kernel follow its last component *)
  Definition transfers (k pre k1 : key) : Prop :=
    forall X fl r, (X <> [] \/ fl = true) ->
      walks f [] (k ++ pre ++ X) fl r -> walks f [] (k1 ++ X) fl r.

  Definition post (k : key) (rest : list str) (rp : str) : Prop :=
    exists d rest' k',
      rest = d ++ rest' /\ rest' <> [] /\ rp = kpath (k' ++ rest') /\
      Forall pg k' /\ NL f k' /\
      (length rest' = 1 \/ f !! (k' ++ firstn 1 rest') = None) /\
      transfers k d k' /\
      (* every consumed component existed below the resolution of what precedes it *)
      (forall d1 x d2, d = d1 ++ x :: d2 ->
         exists k1, Forall pg k1 /\ NL f k1 /\ f !! (k1 ++ [x]) <> None /\ transfers k d1 k1).

  Lemma transfers_refl : forall k, transfers k [] k.
  Proof. intros k X fl r _ H. exact H. Qed.

  Lemma post_stop : forall k rest,
    rest <> [] -> Forall pg k -> NL f k ->
    (length rest = 1 \/ f !! (k ++ firstn 1 rest) = None) ->
    post k rest (kpath (k ++ rest)).
  Proof.
    intros k rest Hne Hk Hnl Hstop. exists [], rest, k.
    repeat split; try assumption.
    - apply transfers_refl.
    - intros d1 x d2 E. destruct d1; discriminate E.
  Qed.

  Lemma transfers_cons_plain : forall k c d1 k1,
    transfers (k ++ [c]) d1 k1 -> transfers k (c :: d1) k1.
  Proof.
    intros k c d1 k1 Htr X fl r HX H. apply (Htr X fl r HX). rewrite <- app_assoc. exact H.
  Qed.

  Lemma transfers_cons_link : forall k c d1 k1 m t,
    Forall pg k -> pg c -> f !! (k ++ [c]) = Some (Link m t) ->
    transfers (lexkey k t) d1 k1 -> transfers k (c :: d1) k1.
  Proof.
    intros k c d1 k1 m t Hk Hc Hm Htr X fl r HX H. apply (Htr X fl r HX).
    apply (walks_link_lexical f k c (d1 ++ X) fl r m t Hk
             (dirkey_of_present f k c _ Hwf Hm) Hc Hm (Htc _ _ _ Hm)).
    - destruct HX as [HX|HX]; [left | right; exact HX].
      intro E0. apply app_eq_nil in E0. destruct E0 as [_ E0]. contradiction.
    - exact H.
  Qed.

  Lemma post_cons_gen : forall k kn c rest1 rp,
    Forall pg k -> NL f k -> f !! (k ++ [c]) <> None ->
    (forall d1 k1, transfers kn d1 k1 -> transfers k (c :: d1) k1) ->
    post kn rest1 rp -> post k (c :: rest1) rp.
  Proof.
    intros k kn c rest1 rp Hk Hnl Hpres Hlift
      (d & rest' & k' & E & Hne & Erp & Hk' & Hnl' & Hstop & Htr & Hmid).
    exists (c :: d), rest', k'. repeat split; try assumption.
    - rewrite E. reflexivity.
    - apply Hlift. exact Htr.
    - intros d1 x d2 Ed. destruct d1 as [|y d1'].
      + cbn [app] in Ed. injection Ed as Ex _. subst x.
        exists k. repeat split; try assumption. apply transfers_refl.
      + cbn [app] in Ed. injection Ed as Ey Ed. subst y.
        destruct (Hmid d1' x d2 Ed) as (k1 & Hk1 & Hnl1 & Hp1 & Htr1).
        exists k1. repeat split; try assumption. apply Hlift. exact Htr1.
  Qed.

  Lemma post_cons_plain : forall k c rest1 rp,
    Forall pg k -> NL f k -> f !! (k ++ [c]) <> None ->
    post (k ++ [c]) rest1 rp -> post k (c :: rest1) rp.
  Proof.
    intros k c rest1 rp Hk Hnl Hpres. apply post_cons_gen; try assumption.
    intros d1 k1. apply transfers_cons_plain.
  Qed.

  Lemma post_cons_link : forall k c rest1 rp m t,
    Forall pg k -> NL f k -> pg c -> f !! (k ++ [c]) = Some (Link m t) ->
    post (lexkey k t) rest1 rp -> post k (c :: rest1) rp.
  Proof.
    intros k c rest1 rp m t Hk Hnl Hc Hm. apply post_cons_gen; try assumption.
    - norm_keys. rewrite Hm. discriminate.
    - intros d1 k1. apply (transfers_cons_link k c d1 k1 m t Hk Hc Hm).
  Qed.

  Lemma cands_abs_cleaned : forall l,
    cleaned l -> is_abs l = true ->
    cands l = kpath [] :: map kpath (prefixes_from [] (comps l)).
  Proof. intros l Hc Ha. rewrite (cands_chain l Hc). unfold chain. rewrite Ha. reflexivity. Qed.

  Lemma to_abs_symlink_cleaned : forall t p, (is_abs t = true -> clean t = t) -> cleaned (to_abs_symlink t p).
  Proof.
    intros t p H. unfold to_abs_symlink. destruct (is_abs t) eqn:Ha; [exact (H eq_refl)|].
    pose proof (cleaned_nonempty _ (cleaned_clean (upto_last_sep p))) as Hn.
    unfold join2, dir. destruct (clean (upto_last_sep p)); [contradiction Hn; reflexivity|].
    apply cleaned_clean.
  Qed.

  Lemma rloop_inv : forall rest k acc g,
    rest <> [] -> Forall pg rest ->
    Forall pg k -> NL f k ->
    Forall2 (fun x pre => g x = kpath (k ++ pre)) acc (prefixes_from [] rest) ->
    g final = kpath (k ++ rest) ->
    through_link s acc g = false ->
    exists rp o, rloop s acc g final = Ok (rp, o) /\ post k rest rp.
  Proof.
    induction rest as [|c rest1 IH]; intros k acc g Hne Hrest Hk Hnl Hacc Hfin Htl.
    - contradiction Hne. reflexivity.
    - inversion Hrest as [|c' r' Hc Hrest1]; subst c' r'.
      rewrite prefixes_from_nil_cons in Hacc.
      inversion Hacc as [|q pre0 acc1 pres Hq Hacc1]; subst.
      apply Forall2_map_r' in Hacc1.
      assert (Hkc : Forall pg (k ++ [c])) by (apply Forall_app; split; [exact Hk | constructor; [exact Hc | constructor]]).
      pose proof (lstat_key s k c Hwf Hk Hc Hnl) as HL.
      assert (Hacc1' : Forall2 (fun x pre => g x = kpath ((k ++ [c]) ++ pre)) acc1 (prefixes_from [] rest1)).
      { eapply Forall2_impl_In_r; [|exact Hacc1]. intros x y _ E. cbv beta in E.
        rewrite E, <- app_assoc. reflexivity. }
      assert (Hfin1 : g final = kpath ((k ++ [c]) ++ rest1)) by (rewrite Hfin, <- app_assoc; reflexivity).
      assert (Hknil : k ++ [c] <> []) by (intro E0; apply app_eq_nil in E0; destruct E0 as [_ E0]; discriminate E0).
      destruct (f !! (k ++ [c])) as [n|] eqn:El.
      + (* the candidate exists *)
        destruct HL as [HL Hrl].
        assert (Hlast : rest1 = [] -> acc1 = [] /\ post k [c] (kpath (k ++ [c]))).
        { intro E. subst rest1. inversion Hacc1; subst. split; [reflexivity|].
          apply post_stop; try assumption; try discriminate. left. reflexivity. }
        assert (Hstep : forall g',
                  not_link_at f (k ++ [c]) -> rest1 <> [] ->
                  Forall2 (fun x pre => g' x = kpath ((k ++ [c]) ++ pre)) acc1 (prefixes_from [] rest1) ->
                  g' final = kpath ((k ++ [c]) ++ rest1) ->
                  through_link s acc1 g' = false ->
                  exists rp o, rloop s acc1 g' final = Ok (rp, o) /\ post k (c :: rest1) rp).
        { intros g' Hnlc Hne1 Hacc' Hfin' Htl'.
          destruct (IH (k ++ [c]) acc1 g' Hne1 Hrest1 Hkc
                      (NL_snoc f k c Hnl Hnlc)
                      Hacc' Hfin' Htl') as (rp & o & Er & Hp).
          exists rp, o. split; [exact Er|]. apply post_cons_plain; try assumption.
          norm_keys. rewrite El. discriminate. }
        remember (kpath (k ++ [c])) as p eqn:Ep.
        rewrite <- Hq in HL, Hrl.
        destruct (match n with Link _ _ => true | _ => false end) eqn:Ekind.
        * (* a symlink *)
          destruct n as [m|m dt|m t]; cbn in Ekind; try discriminate Ekind.
          specialize (Hrl m t eq_refl).
          rewrite (rloop_step_link s q acc1 g final _ t HL eq_refl Hrl).
          destruct rest1 as [|c1 rest2].
          -- destruct (Hlast eq_refl) as [E Hp]. subst acc1. rewrite Hq. eexists _, _. split; [reflexivity | exact Hp].
          -- destruct acc1 as [|q1 acc2]; [inversion Hacc1|].
             rewrite (through_link_step_link s q q1 acc2 g _ t HL eq_refl Hrl) in Htl.
             apply orb_false_elim in Htl. destruct Htl as [Hex Htl].
             rewrite Hq in *. clear HL Hrl.
             destruct (to_abs_symlink_key k c t Hk Hc) as [Habs Ecomps].
             rewrite <- Ep in Habs, Ecomps.
             pose proof (lexkey_pg k t Hk) as Hlk.
             pose proof (to_abs_symlink_cleaned t p (fun _ => Htc _ _ _ El)) as Hcl.
             assert (Hnllk : NL f (lexkey k t)).
             { apply NL_of_lstat; [exact Hlk |].
               intros pre post E. apply (existsb_false_In _ _ _ _ Hex).
               rewrite (cands_abs_cleaned _ Hcl Habs), Ecomps.
               destruct pre as [|x pre']; [left; reflexivity|]. right.
               apply in_map. apply in_prefixes. split; [discriminate|]. exists post. exact E. }
             assert (Hg' : forall x pre, pre <> [] -> Forall pg pre ->
                       g x = kpath ((k ++ [c]) ++ pre) ->
                       join2 (to_abs_symlink t p) (trim_prefix (g x) p) = kpath (lexkey k t ++ pre)).
             { intros x pre Hpne Hppg E. rewrite E, Ep.
               rewrite (trim_kpath _ _ Hknil Hpne). rewrite <- Ep.
               rewrite (join2_abs_tail _ pre Habs Hppg Hpne). rewrite Ecomps. reflexivity. }
             destruct (IH (lexkey k t) (q1 :: acc2)
                         (fun x => join2 (to_abs_symlink t p) (trim_prefix (g x) p))
                         ltac:(discriminate) Hrest1 Hlk
                         Hnllk) as (rp & o & Er & Hp).
             ++ eapply Forall2_impl_In_r; [|exact Hacc1']. intros x y Hy E.
                apply in_prefixes in Hy. destruct Hy as [Hyne [l2 El2]].
                apply Hg'; [exact Hyne | | exact E].
                rewrite El2 in Hrest1. apply Forall_app in Hrest1. exact (proj1 Hrest1).
             ++ apply Hg'; [discriminate | exact Hrest1 | exact Hfin1].
             ++ exact Htl.
             ++ exists rp, o. split; [exact Er|].
                apply (post_cons_link k c _ rp m t Hk Hnl Hc El Hp).
        * (* a directory or a regular file *)
          assert (Hnk : fi_kind (info_of (base (g q)) n) <> KLink).
          { destruct n; cbn in Ekind; try discriminate Ekind; cbn; discriminate. }
          assert (Hnlc : not_link_at f (k ++ [c])).
          { intros m' t' E. norm_keys. rewrite El in E. injection E as E. subst n. cbn in Ekind. discriminate Ekind. }
          rewrite (rloop_step_plain s q acc1 g final _ HL Hnk).
          destruct rest1 as [|c1 rest2].
          -- destruct (Hlast eq_refl) as [E Hp]. subst acc1. rewrite Hq. eexists _, _. split; [reflexivity | exact Hp].
          -- destruct acc1 as [|q1 acc2]; [inversion Hacc1|].
             rewrite (through_link_step_plain s q _ g _ HL Hnk) in Htl.
             apply (Hstep g); try assumption. discriminate.
      + (* the candidate is missing: lexical tail *)
        destruct HL as (e & HLe & Hnf). rewrite <- Hq in HLe.
        rewrite (rloop_step_notfound s q acc1 g final e HLe Hnf). rewrite Hfin.
        eexists _, _. split; [reflexivity|].
        apply post_stop; try assumption. right. exact El.
  Qed.
End Loop.

(* ------------------------------------------------------------------ *)
(** * E. [resolve] versus [walks]; walks below link-free keys *)

Lemma definite_found : forall k n, definite (WFound k n).
Proof. intros k n. split; discriminate. Qed.

Lemma resolve_walks : forall (f : fs) p fl,
  abs_cleaned p -> definite (resolve f p fl) ->
  walks f [] (comps p) fl (resolve f p fl).
Proof.
  intros f p fl Hac Hdef.
  pose proof (abs_cleaned_nonempty p Hac) as Hne.
  pose proof (abs_cleaned_split_gen p Hac) as Hs.
  assert (Hw : walks f [] (split_sep p) fl (resolve f p fl)).
  { exists (walk_fuel + length p), 0. split; [|exact Hdef].
    unfold resolve. destruct p; [contradiction Hne; reflexivity | reflexivity]. }
  rewrite Hs in Hw. apply walks_trivial in Hw; [|reflexivity].
  destruct (comps p) as [|c cs]; [|exact Hw].
  apply walks_trivial in Hw; [exact Hw | reflexivity].
Qed.

Lemma not_found_definite : forall e, is_not_found e = true -> definite (WErr e).
Proof. intros e H. split; intro E; injection E as E; subst e; discriminate H. Qed.

Lemma resolve_nolinkpar_definite : forall (f : fs) p,
  wf f -> nolinkpar f p -> definite (resolve f p false).
Proof.
  intros f p Hwf Hnlp.
  destruct (direct_decidable f p (proj1 Hnlp)) as [Hd|Hnd].
  - rewrite (resolve_direct f p false Hd (or_introl eq_refl)).
    destruct (f !! comps p); [apply definite_found|].
    destruct (comps p); split; discriminate.
  - destruct (resolve_nolinkpar_notfound f p false Hwf Hnlp Hnd) as (e & E & He).
    rewrite E. apply not_found_definite. exact He.
Qed.

Lemma walks_resolve_nolinkpar : forall (f : fs) p r,
  wf f -> nolinkpar f p ->
  walks f [] (comps p) false r -> resolve f p false = r.
Proof.
  intros f p r Hwf Hnlp Hw.
  pose proof (resolve_walks f p false (proj1 Hnlp) (resolve_nolinkpar_definite f p Hwf Hnlp)) as Hw'.
  exact (walks_fun _ _ _ _ _ _ Hw' Hw).
Qed.

Lemma walk_nolink_found : forall (f : fs) cs F h cur fl kk n,
  Forall plain_comp cs ->
  (forall pre post, cs = pre ++ post -> pre <> [] -> not_link_at f (cur ++ pre)) ->
  walk F f h cur cs fl = WFound kk n -> kk = cur ++ cs.
Proof.
  intros f cs. induction cs as [|c cs IH]; intros F h cur fl kk n Hpl Hnl Hw.
  - destruct F as [|F]; [discriminate Hw|]. rewrite walk_nil in Hw. norm_keys.
    destruct (f !! cur); [|discriminate Hw]. injection Hw as E _. rewrite app_nil_r. symmetry. exact E.
  - destruct F as [|F]; [discriminate Hw|].
    inversion Hpl as [|c' cs' [Ht Hdd] Hpl']; subst c' cs'.
    rewrite walk_S, Ht, Hdd in Hw. norm_keys.
    destruct (f !! (cur ++ [c])) as [[m|m d|m t]|] eqn:El.
    + replace (cur ++ c :: cs) with ((cur ++ [c]) ++ cs) by (rewrite <- app_assoc; reflexivity).
      apply (IH F h (cur ++ [c]) fl kk n Hpl'); [|exact Hw].
      intros pre post E Hne. rewrite <- app_assoc. apply (Hnl (c :: pre) post); [rewrite E; reflexivity | discriminate].
    + destruct cs; [|discriminate Hw]. injection Hw as E _. symmetry. exact E.
    + exfalso. apply (Hnl [c] cs eq_refl ltac:(discriminate) m t). exact El.
    + revert Hw. destruct (forallb _ _); intro Hw; discriminate Hw.
Qed.

Lemma walk_nolink_absent : forall (f : fs) cs F h cur c Y fl kk n,
  Forall plain_comp cs -> plain_comp c ->
  (forall pre post, cs = pre ++ post -> pre <> [] -> not_link_at f (cur ++ pre)) ->
  f !! (cur ++ cs ++ [c]) = None ->
  walk F f h cur (cs ++ c :: Y) fl <> WFound kk n.
Proof.
  intros f cs. induction cs as [|x cs IH]; intros F h cur c Y fl kk n Hpl Hc Hnl Habs Hw.
  - destruct F as [|F]; [discriminate Hw|]. destruct Hc as [Ht Hdd].
    cbn [app] in *. rewrite walk_S, Ht, Hdd in Hw. norm_keys. rewrite Habs in Hw.
    revert Hw. destruct (forallb _ _); intro Hw; discriminate Hw.
  - destruct F as [|F]; [discriminate Hw|].
    inversion Hpl as [|x' cs' [Ht Hdd] Hpl']; subst x' cs'.
    change ((x :: cs) ++ c :: Y) with (x :: (cs ++ c :: Y)) in Hw.
    rewrite walk_S, Ht, Hdd in Hw. norm_keys.
    destruct (f !! (cur ++ [x])) as [[m|m d|m t]|] eqn:El.
    + apply (IH F h (cur ++ [x]) c Y fl kk n Hpl' Hc); [| |exact Hw].
      * intros pre post E Hne. rewrite <- app_assoc. apply (Hnl (x :: pre) post); [rewrite E; reflexivity | discriminate].
      * rewrite <- app_assoc. exact Habs.
    + destruct cs; discriminate Hw.
    + apply (Hnl [x] cs eq_refl ltac:(discriminate) m t). exact El.
    + revert Hw. destruct (forallb _ _); intro Hw; discriminate Hw.
Qed.

Lemma NL_nolinks_from_root : forall f k,
  NL f k -> forall pre post, k = pre ++ post -> pre <> [] -> not_link_at f ([] ++ pre).
Proof. intros f k H pre post E _. exact (H pre post E). Qed.

(* ------------------------------------------------------------------ *)
(** * F. [real_path] on an absolute name *)

Lemma is_abs_clean : forall n, is_abs (clean n) = is_abs n.
Proof. intro n. unfold clean. apply is_abs_render. apply comps_good. Qed.

Lemma comps_clean : forall n, comps (clean n) = comps n.
Proof. intro n. unfold clean. apply comps_render. apply comps_normal. Qed.

Lemma clean_abs_kpath : forall n, is_abs n = true -> clean n = kpath (comps n).
Proof. intros n Ha. unfold clean, kpath. rewrite Ha. reflexivity. Qed.

Lemma Forall2_map_same : forall (A B : Type) (h : B -> A) (l : list B),
  Forall2 (fun x y => x = h y) (map h l) l.
Proof. intros A B h l. induction l as [|y l IH]; cbn [map]; constructor; [reflexivity | exact IH]. Qed.

Lemma lstat_root : forall s, wf (st_fs s) ->
  exists fi, fs_lstat s (kpath []) = Ok fi /\ fi_kind fi = KDir.
Proof.
  intros s [[m Hm] _].
  assert (Hd : direct (st_fs s) (kpath [])).
  { split; [apply kpath_pg_abs_cleaned; constructor|]. change (comps (kpath [])) with (@nil str). constructor. }
  rewrite (fs_lstat_direct s _ Hd). change (comps (kpath [])) with (@nil str).
  norm_keys. rewrite Hm. eexists. split; reflexivity.
Qed.

Lemma cands_kpath : forall cs, Forall pg cs ->
  cands (kpath cs) = kpath [] :: map kpath (prefixes_from [] cs).
Proof.
  intros cs Hpg. unfold kpath at 1. rewrite cands_render by exact (proj1 (Forall_pg_good _ Hpg)).
  reflexivity.
Qed.

Lemma nil_dec : forall (A : Type) (l : list A), sumbool (l = nil) (l <> nil).
Proof. intros A [|x l]; [left; reflexivity | right; discriminate]. Qed.

(** ** consequences of the loop's postcondition [post], for any name whose
    components (read from the root) are [cs]: used for absolute names below
    and for relative names in part K *)
Section PostFacts.
  Variable s : fstate.
  Notation f := (st_fs s).
  Hypothesis Hwf : wf f.
  Variable cs : list str.
  Hypothesis Hcs : Forall pg cs.
  Variable rp : str.
  Hypothesis Hpost : post s [] cs rp.

  Lemma post_parts : forall d rest' k',
    cs = d ++ rest' -> Forall pg k' -> Forall pg (k' ++ rest') /\ Forall pg rest' /\ Forall pg d.
  Proof.
    intros d rest' k' E Hk'. pose proof Hcs as H. rewrite E in H.
    apply Forall_app in H. destruct H as [Hd Hr]. repeat split; try assumption.
    apply Forall_app. split; assumption.
  Qed.

  (** the result is absolute, cleaned, without a symlink among its proper ancestors *)
  Lemma post_nolinkpar : nolinkpar f rp.
  Proof.
    destruct Hpost as (d & rest' & k' & E & Hne & Erp & Hk' & Hnl' & Hstop & Htr & Hmid).
    cbn [app] in E.
    destruct (post_parts d rest' k' E Hk') as (Hall & Hr' & Hd).
    subst rp. split; [apply kpath_pg_abs_cleaned; exact Hall|].
    rewrite (comps_kpath_pg _ Hall). apply Forall_kprefixes. intros pre r Hr E2.
    apply app_eq_app in E2. destruct E2 as [l [[E3 E4]|[E3 E4]]].
    + exact (Hnl' pre l E3).
    + destruct l as [|x l].
      * rewrite app_nil_r in E3. subst pre. apply (Hnl' k' []). rewrite app_nil_r. reflexivity.
      * destruct Hstop as [Hone|Habsent].
        -- exfalso. rewrite E4 in Hone. cbn [length] in Hone. rewrite app_length in Hone.
           destruct r; [contradiction Hr; reflexivity | cbn [length] in Hone; lia].
        -- rewrite E4 in Habsent. change (firstn 1 ((x :: l) ++ r)) with [x] in Habsent.
           subst pre. intros m t El.
           pose proof (absent_below f _ l Hwf Habsent) as Hab.
           rewrite <- app_assoc in Hab. cbn [app] in Hab.
           norm_keys. rewrite El in Hab. discriminate Hab.
  Qed.

  (** [rp] names the entry the kernel walk of [cs] from the root names *)
  Lemma post_same_entry : forall r,
    walks f [] cs false r -> resolve f rp false = r.
  Proof.
    intros r Hw. pose proof post_nolinkpar as Hnlp.
    destruct Hpost as (d & rest' & k' & E & Hne & Erp & Hk' & Hnl' & Hstop & Htr & Hmid).
    cbn [app] in E.
    destruct (post_parts d rest' k' E Hk') as (Hall & Hr' & Hd).
    rewrite E in Hw.
    apply (Htr rest' false _ (or_introl Hne)) in Hw.
    apply (walks_resolve_nolinkpar f rp _ Hwf Hnlp).
    rewrite Erp, (comps_kpath_pg _ Hall). exact Hw.
  Qed.

  (** the final component is not resolved *)
  Lemma post_final_unresolved : forall dcs b kd m,
    cs = dcs ++ [b] ->
    resolve f (kpath dcs) true = WFound kd (Dir m) ->
    rp = kpath (kd ++ [b]).
  Proof.
    intros dcs b kd m Ecs Hres.
    destruct Hpost as (d & rest' & k' & E & Hne & Erp & Hk' & Hnl' & Hstop & Htr & Hmid).
    cbn [app] in E.
    destruct (post_parts d rest' k' E Hk') as (Hall & Hr' & Hd).
    assert (Hdcs : Forall pg dcs).
    { pose proof Hcs as H. rewrite Ecs in H. apply Forall_app in H. exact (proj1 H). }
    assert (Hw : walks f [] dcs true (WFound kd (Dir m))).
    { pose proof (resolve_walks f (kpath dcs) true (kpath_pg_abs_cleaned _ Hdcs)) as H.
      rewrite Hres, (comps_kpath_pg _ Hdcs) in H. apply H. apply definite_found. }
    destruct (Nat.eq_dec (length rest') 1) as [Hone|Hnone].
    - destruct rest' as [|c [|c2 r2]]; try discriminate Hone.
      rewrite E in Ecs. apply app_inj_tail in Ecs. destruct Ecs as [Ed Ec]. subst d c.
      pose proof (Htr [] true (WFound kd (Dir m)) (or_intror eq_refl)) as Ht. rewrite !app_nil_r in Ht. cbn [app] in Ht.
      apply Ht in Hw. destruct Hw as (F & h & Hw & _).
      apply walk_nolink_found in Hw.
      + cbn [app] in Hw. subst kd. exact Erp.
      + apply Forall_pg_plain. exact Hk'.
      + intros pre post E0 _. exact (Hnl' pre post E0).
    - exfalso. destruct Hstop as [Hone|Habsent]; [contradiction|].
      destruct rest' as [|c more]; [contradiction Hne; reflexivity|].
      destruct more as [|x more'] using rev_ind; [contradiction Hnone; reflexivity|]. clear IHmore'.
      cbn [firstn app] in Habsent.
      assert (Edcs : dcs = d ++ c :: more' /\ b = x).
      { apply app_inj_tail. rewrite <- Ecs, E. rewrite <- app_assoc. reflexivity. }
      destruct Edcs as [Edcs Ex]. subst dcs.
      assert (Hx : c :: more' <> []) by (intro Hx; discriminate Hx).
      pose proof (Htr (c :: more') true (WFound kd (Dir m)) (or_introl Hx)) as Ht.
      change ([] ++ (d ++ c :: more') ++ c :: more') with ((d ++ c :: more') ++ c :: more') in Ht.
      apply Ht in Hw. destruct Hw as (F & h & Hw & _).
      inversion Hr' as [|c' r' Hc _]; subst c' r'.
      apply (walk_nolink_absent f k' F h [] c more' true kd (Dir m)
               (Forall_pg_plain _ Hk') (pg_plain _ Hc)); [| exact Habsent | exact Hw].
      intros pre post E0 _. exact (Hnl' pre post E0).
  Qed.

  (** the shape of the result *)
  Lemma post_lexical_tail :
    exists done tail k',
      cs = done ++ tail /\ tail <> [] /\ rp = kpath (k' ++ tail) /\
      NL f k' /\
      (length tail = 1 \/ f !! (k' ++ firstn 1 tail) = None) /\
      (forall X fl r, (X <> [] \/ fl = true) ->
         walks f [] (done ++ X) fl r -> walks f [] (k' ++ X) fl r).
  Proof.
    destruct Hpost as (d & rest' & k' & E & Hne & Erp & Hk' & Hnl' & Hstop & Htr & Hmid).
    exists d, rest', k'. repeat split; assumption.
  Qed.

  (** once an ancestor is missing, the rest of the name is appended lexically *)
  Lemma post_missing_tail : forall done c tail kd m,
    cs = done ++ c :: tail ->
    resolve f (kpath done) true = WFound kd (Dir m) ->
    f !! (kd ++ [c]) = None ->
    rp = kpath (kd ++ c :: tail).
  Proof.
    intros done c tail kd m Ecs Hres Habsent.
    destruct Hpost as (d & rest' & k' & E & Hne & Erp & Hk' & Hnl' & Hstop & Htr & Hmid).
    cbn [app] in E.
    destruct (post_parts d rest' k' E Hk') as (Hall & Hr' & Hd).
    assert (Hdone : Forall pg done).
    { pose proof Hcs as H. rewrite Ecs in H. apply Forall_app in H. exact (proj1 H). }
    assert (Hw : walks f [] done true (WFound kd (Dir m))).
    { pose proof (resolve_walks f (kpath done) true (kpath_pg_abs_cleaned _ Hdone)) as H.
      rewrite Hres, (comps_kpath_pg _ Hdone) in H. apply H. apply definite_found. }
    assert (Hkey : forall k1, Forall pg k1 -> NL f k1 -> transfers s [] done k1 -> k1 = kd).
    { intros k1 Hk1 Hnl1 Htr1.
      pose proof (Htr1 [] true (WFound kd (Dir m)) (or_intror eq_refl)) as Ht.
      rewrite !app_nil_r in Ht. cbn [app] in Ht. apply Ht in Hw.
      destruct Hw as (F & h & Hw & _). apply walk_nolink_found in Hw.
      - cbn [app] in Hw. symmetry. exact Hw.
      - apply Forall_pg_plain. exact Hk1.
      - intros pre post E0 _. exact (Hnl1 pre post E0). }
    rewrite Ecs in E. symmetry in E. apply app_eq_app in E. destruct E as [l [[E1 E2]|[E1 E2]]].
    - destruct l as [|y l'].
      + rewrite app_nil_r in E1. subst d. cbn [app] in E2. subst rest'.
        rewrite (Hkey k' Hk' Hnl' Htr) in Erp. exact Erp.
      + exfalso. cbn [app] in E2. injection E2 as Ey E2. subst y.
        destruct (Hmid done c l' E1) as (k1 & Hk1 & Hnl1 & Hp1 & Htr1).
        rewrite (Hkey k1 Hk1 Hnl1 Htr1) in Hp1. exact (Hp1 Habsent).
    - destruct l as [|y l'].
      + rewrite app_nil_r in E1. subst d. cbn [app] in E2. subst rest'.
        rewrite (Hkey k' Hk' Hnl' Htr) in Erp. exact Erp.
      + exfalso. subst rest' done.
        destruct Hstop as [Hone|Habs'].
        { cbn [app length] in Hone. rewrite app_length in Hone. cbn [length] in Hone. lia. }
        change (firstn 1 ((y :: l') ++ c :: tail)) with [y] in Habs'.
        assert (Hx : y :: l' <> []) by (intro Hx; discriminate Hx).
        pose proof (Htr (y :: l') true (WFound kd (Dir m)) (or_introl Hx)) as Ht.
        cbn [app] in Ht. apply Ht in Hw. destruct Hw as (F & h & Hw & _).
        inversion Hr' as [|y' r' Hy _]; subst y' r'.
        apply (walk_nolink_absent f k' F h [] y l' true kd (Dir m)
                 (Forall_pg_plain _ Hk') (pg_plain _ Hy)); [| exact Habs' | exact Hw].
        intros pre post E0 _. exact (Hnl' pre post E0).
  Qed.
End PostFacts.

Section RealPath.
  Variable s : fstate.
  Notation f := (st_fs s).
  Variable n : str.
  Hypothesis Hwf : wf f.
  Hypothesis Habs : is_abs n = true.

  Lemma comps_name_pg : Forall pg (comps n).
  Proof. apply comps_abs_pg. exact Habs. Qed.

  Lemma rpath_root : comps n = [] -> rpath s n = Ok (kpath []).
  Proof.
    intro E. unfold rpath. rewrite (clean_abs_kpath n Habs), E.
    destruct (lstat_root s Hwf) as (fi & HL & Hk).
    change (cands (kpath [])) with [kpath []].
    rewrite (rloop_step_plain s (kpath []) [] (fun x => x) (kpath []) fi HL) by (rewrite Hk; discriminate).
    reflexivity.
  Qed.

  (** the loop after the root candidate *)
  Lemma rpath_unfold : comps n <> [] ->
    rpath s n = match rloop s (map kpath (prefixes_from [] (comps n))) (fun x => x) (kpath (comps n)) with
                | Ok a => Ok (fst a) | Err e => Err e end /\
    through_link s (cands (clean n)) (fun x => x) =
    through_link s (map kpath (prefixes_from [] (comps n))) (fun x => x).
  Proof.
    intro Hne. unfold rpath. rewrite (clean_abs_kpath n Habs).
    rewrite (cands_kpath _ comps_name_pg).
    destruct (lstat_root s Hwf) as (fi & HL & Hk).
    assert (Hnk : fi_kind fi <> KLink) by (rewrite Hk; discriminate).
    rewrite (rloop_step_plain s (kpath []) _ (fun x => x) _ fi HL Hnk).
    rewrite (through_link_step_plain s (kpath []) _ (fun x => x) fi HL Hnk).
    destruct (comps n) as [|c cs] eqn:E; [contradiction Hne; reflexivity|].
    rewrite prefixes_from_nil_cons. cbn [map]. split; reflexivity.
  Qed.

  Hypothesis Htc : targets_clean f.
  Hypothesis Htl : through_link s (cands (clean n)) (fun x => x) = false.

  Lemma rpath_post : comps n <> [] ->
    exists rp, rpath s n = Ok rp /\ post s [] (comps n) rp.
  Proof.
    intro Hne. destruct (rpath_unfold Hne) as [Er Et]. rewrite Et in Htl.
    destruct (rloop_inv s Hwf Htc (kpath (comps n))
                (comps n) [] (map kpath (prefixes_from [] (comps n))) (fun x => x)
                Hne comps_name_pg (Forall_nil _) (NL_root s Hwf)) as (rp & o & E & Hp).
    - apply Forall2_map_same.
    - reflexivity.
    - exact Htl.
    - exists rp. rewrite Er, E. split; [reflexivity | exact Hp].
  Qed.

  (** T1 (b): under the exclusions resolution succeeds *)
  Lemma rpath_total : exists rp, rpath s n = Ok rp.
  Proof.
    destruct (nil_dec _ (comps n)) as [E|E].
    - exists (kpath []). apply rpath_root. exact E.
    - destruct (rpath_post E) as (rp & Er & _). exists rp. exact Er.
  Qed.

  Variable rp : str.
  Hypothesis Hrp : rpath s n = Ok rp.

  Lemma post_of_result : comps n <> [] -> post s [] (comps n) rp.
  Proof.
    intro Hne. destruct (rpath_post Hne) as (rp' & Er & Hp). rewrite Hrp in Er.
    injection Er as Er. subst rp'. exact Hp.
  Qed.

  (** T2 (a): the result is absolute, cleaned, without a symlink among its proper ancestors *)
  Lemma rpath_nolinkpar : nolinkpar f rp.
  Proof.
    destruct (nil_dec _ (comps n)) as [Ecs|Hne0].
    - pose proof Hrp as Hrp'. rewrite (rpath_root Ecs) in Hrp'. injection Hrp' as E. subst rp.
      split; [apply kpath_pg_abs_cleaned; constructor|].
      change (comps (kpath [])) with (@nil str). constructor.
    - exact (post_nolinkpar s Hwf (comps n) comps_name_pg rp (post_of_result Hne0)).
  Qed.

  (** T2 (b): [rp] names the entry the caller's name names under OS semantics
      (final component not followed), whenever the kernel's answer for the
      caller's name is not an artefact of the hop / fuel budgets *)
  Lemma rpath_same_entry :
    definite (resolve f (clean n) false) ->
    resolve f rp false = resolve f (clean n) false.
  Proof.
    intro Hdef.
    destruct (nil_dec _ (comps n)) as [Ecs|Hne0].
    - pose proof Hrp as Hrp'. rewrite (rpath_root Ecs) in Hrp'. injection Hrp' as E. subst rp.
      rewrite (clean_abs_kpath n Habs), Ecs. reflexivity.
    - assert (Hacn : abs_cleaned (clean n)).
      { split; [apply cleaned_clean | rewrite is_abs_clean; exact Habs]. }
      pose proof (resolve_walks f (clean n) false Hacn Hdef) as Hw.
      rewrite comps_clean in Hw.
      exact (post_same_entry s Hwf (comps n) comps_name_pg rp (post_of_result Hne0) _ Hw).
  Qed.

  (** T2 (c): the final component is not resolved *)
  Lemma rpath_final_unresolved : forall dcs b kd m,
    comps n = dcs ++ [b] ->
    resolve f (kpath dcs) true = WFound kd (Dir m) ->
    rp = kpath (kd ++ [b]).
  Proof.
    intros dcs b kd m Ecs Hres.
    assert (Hne0 : comps n <> []) by (rewrite Ecs; intro E0; apply app_eq_nil in E0; destruct E0 as [_ E0]; discriminate E0).
    exact (post_final_unresolved s (comps n) comps_name_pg rp (post_of_result Hne0) dcs b kd m Ecs Hres).
  Qed.

  (** T2 (d): the shape of the result: a resolved prefix key, equivalent under
      the kernel walk to the consumed prefix of the name, followed by the rest
      of the name verbatim; the rest is the final component alone, or begins at
      a component that does not exist below the resolved prefix *)
  Lemma rpath_lexical_tail : comps n <> [] ->
    exists done tail k',
      comps n = done ++ tail /\ tail <> [] /\ rp = kpath (k' ++ tail) /\
      NL f k' /\
      (length tail = 1 \/ f !! (k' ++ firstn 1 tail) = None) /\
      (forall X fl r, (X <> [] \/ fl = true) ->
         walks f [] (done ++ X) fl r -> walks f [] (k' ++ X) fl r).
  Proof.
    intro Hne0. exact (post_lexical_tail s (comps n) rp (post_of_result Hne0)).
  Qed.
  (** T2 (d'), in the caller's terms: once an ancestor is missing, the rest
      of the name is appended lexically to the resolved directory *)
  Lemma rpath_missing_tail : forall done c tail kd m,
    comps n = done ++ c :: tail ->
    resolve f (kpath done) true = WFound kd (Dir m) ->
    f !! (kd ++ [c]) = None ->
    rp = kpath (kd ++ c :: tail).
  Proof.
    intros done c tail kd m Ecs Hres Habsent.
    assert (Hne0 : comps n <> []) by (rewrite Ecs; intro E0; apply app_eq_nil in E0; destruct E0 as [_ E0]; discriminate E0).
    exact (post_missing_tail s (comps n) comps_name_pg rp (post_of_result Hne0) done c tail kd m Ecs Hres Habsent).
  Qed.
End RealPath.

(* ------------------------------------------------------------------ *)
(** * G. T3: resolved names are fixpoints *)

Lemma rloop_fix : forall s rest k acc,
  wf (st_fs s) ->
  rest <> [] -> Forall pg rest -> Forall pg k -> NL (st_fs s) k ->
  (forall pre post, rest = pre ++ post -> pre <> [] -> post <> [] -> not_link_at (st_fs s) (k ++ pre)) ->
  Forall2 (fun x pre => x = kpath (k ++ pre)) acc (prefixes_from [] rest) ->
  exists o, rloop s acc (fun x => x) (kpath (k ++ rest)) = Ok (kpath (k ++ rest), o).
Proof.
  intros s rest. induction rest as [|c rest1 IH]; intros k acc Hwf Hne Hrest Hk Hnl Hmid Hacc.
  - contradiction Hne. reflexivity.
  - inversion Hrest as [|c' r' Hc Hrest1]; subst c' r'.
    rewrite prefixes_from_nil_cons in Hacc.
    inversion Hacc as [|q pre0 acc1 pres Hq Hacc1]; subst.
    apply Forall2_map_r' in Hacc1.
    pose proof (lstat_key s k c Hwf Hk Hc Hnl) as HL.
    set (g := fun x : str => x) in *.
    assert (Hq : g (kpath (k ++ [c])) = kpath (k ++ [c])) by reflexivity.
    remember (kpath (k ++ [c])) as p eqn:Ep.
    destruct (st_fs s !! (k ++ [c])) as [n|] eqn:El.
    + destruct HL as [HL Hrl]. rewrite <- Hq in HL, Hrl.
      destruct rest1 as [|c1 rest2].
      * inversion Hacc1; subst acc1.
        destruct (match n with Link _ _ => true | _ => false end) eqn:Ekind.
        -- destruct n as [m|m dt|m t]; cbn in Ekind; try discriminate Ekind.
           specialize (Hrl m t eq_refl).
           rewrite (rloop_step_link s p [] g _ _ t HL eq_refl Hrl). rewrite Hq, <- Ep. eexists. reflexivity.
        -- assert (Hnk : fi_kind (info_of (base (g p)) n) <> KLink).
           { destruct n; cbn in Ekind; try discriminate Ekind; cbn; discriminate. }
           rewrite (rloop_step_plain s p [] g _ _ HL Hnk). rewrite Hq, <- Ep. eexists. reflexivity.
      * destruct acc1 as [|q1 acc2]; [inversion Hacc1|].
        assert (Hnlc : not_link_at (st_fs s) (k ++ [c])).
        { apply (Hmid [c] (c1 :: rest2) eq_refl); discriminate. }
        assert (Hnk : fi_kind (info_of (base (g p)) n) <> KLink).
        { destruct n as [m|m dt|m t]; cbn; try discriminate. exfalso. exact (Hnlc m t El). }
        rewrite (rloop_step_plain s p _ g _ _ HL Hnk).
        replace (k ++ c :: c1 :: rest2) with ((k ++ [c]) ++ c1 :: rest2) by (rewrite <- app_assoc; reflexivity).
        apply IH; try assumption.
        -- discriminate.
        -- apply Forall_app. split; [exact Hk | constructor; [exact Hc | constructor]].
        -- apply NL_snoc; assumption.
        -- intros pre post E Hpre Hpost. rewrite <- app_assoc. apply (Hmid (c :: pre) post); [rewrite E; reflexivity | discriminate | exact Hpost].
        -- eapply Forall2_impl_In_r; [|exact Hacc1]. intros x y _ E. cbv beta in E.
           rewrite E, <- app_assoc. reflexivity.
    + destruct HL as (e & HLe & Hnf). rewrite <- Hq in HLe.
      rewrite (rloop_step_notfound s p acc1 g _ e HLe Hnf). eexists. reflexivity.
Qed.

Lemma rpath_fix : forall s p,
  wf (st_fs s) -> nolinkpar (st_fs s) p ->
  rpath s p = Ok p.
Proof.
  intros s p Hwf [Hac Hnl]. pose proof Hac as [Hcl Habs].
  destruct (nil_dec _ (comps p)) as [E|Hne].
  - rewrite (rpath_root s p Hwf Habs E). f_equal. symmetry. apply abs_cleaned_root; assumption.
  - destruct (rpath_unfold s p Hwf Habs Hne) as [Er _]. rewrite Er.
    destruct (rloop_fix s (comps p) [] (map kpath (prefixes_from [] (comps p))) Hwf Hne
                (comps_abs_pg p Habs) (Forall_nil _) (NL_root s Hwf)) as [o Eo].
    + intros pre post E _ Hpost. cbn [app].
      exact (proj1 (Forall_kprefixes _ _) Hnl pre post Hpost E).
    + apply Forall2_map_same.
    + cbn [app] in Eo. rewrite Eo. cbn [fst]. f_equal. apply kpath_comps. exact Hac.
Qed.

(* ------------------------------------------------------------------ *)
(** * H. Boolean side conditions *)

(** K2 of Backup/Triggers.v ([TrUncleanLinkTarget] in [link_flags]) *)
Definition unclean_target (w : world) : bool :=
  existsb (fun kv => match snd kv with Link _ t => negb (str_eqb (clean t) t) | _ => false end)
          (dump_fs w).

Lemma In_entries : forall (f : fs) k n, In (k, n) (entries f) <-> f !! k = Some n.
Proof.
  intros f k n. unfold entries. change (gmap_to_list f) with (map_to_list f).
  rewrite <- elem_of_list_In. apply elem_of_map_to_list.
Qed.

Lemma targets_clean_of_flag : forall w,
  unclean_target w = false -> targets_clean (st_fs (w_st w)).
Proof.
  intros w H k m t Hl.
  pose proof (existsb_false_In _ _ _ (k, Link m t) H) as Hf.
  unfold dump_fs in Hf. specialize (Hf (proj2 (In_entries _ _ _) Hl)). cbn [snd] in Hf.
  apply negb_false_iff in Hf. apply str_eqb_eq. exact Hf.
Qed.

Lemma existsb_filter : forall (A : Type) (p q : A -> bool) l,
  (forall a, p a = true -> q a = true) -> existsb p (List.filter q l) = existsb p l.
Proof.
  intros A p q l H. induction l as [|x l IH]; [reflexivity|].
  cbn [List.filter existsb]. destruct (q x) eqn:Eq.
  - cbn [existsb]. rewrite IH. reflexivity.
  - rewrite IH. destruct (p x) eqn:Ep; [|reflexivity]. rewrite (H x Ep) in Eq. discriminate Eq.
Qed.

Lemma unclean_target_flag : forall cfg w,
  unclean_target w = true <-> In TrUncleanLinkTarget (link_flags cfg w).
Proof.
  intros cfg w. unfold link_flags, unclean_target.
  rewrite existsb_filter.
  2:{ intros [k [m|m d|m t]] H; cbn [snd] in *; try discriminate H; reflexivity. }
  destruct (existsb _ (dump_fs w)) eqn:E.
  - split; [intros _; left; reflexivity | reflexivity].
  - split; [discriminate|]. cbn [app]. intro H.
    destruct (existsb _ (List.filter _ (dump_fs w))); [|contradiction H].
    destruct H as [H|[]]. discriminate H.
Qed.

Definition size_okb (f : fs) (N : nat) : bool :=
  forallb (fun kv => Nat.ltb (length (fst kv) + node_cost (snd kv) + N + 3) walk_fuel) (entries f).

Lemma size_okb_ok : forall f N, size_okb f N = true -> size_ok f N.
Proof.
  intros f N H k n Hl. unfold size_okb in H. rewrite forallb_forall in H.
  specialize (H (k, n) (proj2 (In_entries _ _ _) Hl)). cbn [fst snd] in H.
  apply Nat.ltb_lt. exact H.
Qed.

Definition is_dirb (f : fs) (k : key) : bool :=
  match f !! k with Some (Dir _) => true | _ => false end.

Definition wfb (f : fs) : bool :=
  is_dirb f [] &&
  forallb (fun kv => match fst kv with [] => true | _ => is_dirb f (removelast (fst kv)) end) (entries f).

Lemma is_dirb_ok : forall f k, is_dirb f k = true -> is_dir_at f k.
Proof.
  intros f k H. unfold is_dirb in H. unfold is_dir_at.
  destruct (f !! k) as [[m|m d|m t]|]; try discriminate H. exists m. reflexivity.
Qed.

Lemma wfb_ok : forall f, wfb f = true -> wf f.
Proof.
  intros f H. unfold wfb in H. apply andb_true_iff in H. destruct H as [H1 H2]. split.
  - apply is_dirb_ok. exact H1.
  - intros k n Hl Hne. rewrite forallb_forall in H2.
    specialize (H2 (k, n) (proj2 (In_entries _ _ _) Hl)). cbn [fst] in H2.
    destruct k; [contradiction Hne; reflexivity|]. apply is_dirb_ok. exact H2.
Qed.

(* ------------------------------------------------------------------ *)
(** * I. The statements about [real_path osfs] on worlds *)

Lemma real_path_ok_iff : forall n w rp,
  fst (real_path osfs n w) = MOk rp <-> rpath (w_st w) n = Ok rp.
Proof.
  intros n w rp. rewrite real_path_osfs. unfold res_to_m. cbn [fst].
  destruct (rpath (w_st w) n); split; intro H; try discriminate H; injection H as H; subst; reflexivity.
Qed.

(** the hypotheses of T2: a well-formed tree (of any size), and the
    recorded deviations D20 (relative name), D17 (link through link) and K2
    (unclean link target) excluded by their trigger predicates *)
Record c16_hyps (q n : str) (w : world) : Prop := {
  h_wf : wf (st_fs (w_st w));
  h_abs : is_abs (clean n) = true;
  h_d17 : resolve_through_link (plain_cfg q) (cands (clean n)) (fun x => x) w = false;
  h_k2 : unclean_target w = false }.

Definition c16_hypsb (q n : str) (w : world) : bool :=
  wfb (st_fs (w_st w)) &&
  is_abs (clean n) && negb (resolve_through_link (plain_cfg q) (cands (clean n)) (fun x => x) w) &&
  negb (unclean_target w).

Lemma c16_hypsb_ok : forall q n w, c16_hypsb q n w = true -> c16_hyps q n w.
Proof.
  intros q n w H. unfold c16_hypsb in H.
  apply andb_true_iff in H. destruct H as [H H5].
  apply andb_true_iff in H. destruct H as [H H4].
  apply andb_true_iff in H. destruct H as [H1 H3].
  constructor.
  - apply wfb_ok. exact H1.
  - exact H3.
  - apply negb_true_iff. exact H4.
  - apply negb_true_iff. exact H5.
Qed.

Section Statements.
  Variables (q n : str) (w : world).
  Hypothesis H : c16_hyps q n w.
  Notation f := (st_fs (w_st w)).

  Let Habs : is_abs n = true.
  Proof. rewrite <- is_abs_clean. exact (h_abs _ _ _ H). Qed.
  Let Htc : targets_clean f := targets_clean_of_flag w (h_k2 _ _ _ H).
  Let Htl : through_link (w_st w) (cands (clean n)) (fun x => x) = false.
  Proof. rewrite <- (resolve_through_link_osfs q). exact (h_d17 _ _ _ H). Qed.

  Theorem real_path_succeeds : exists rp, real_path osfs n w = (MOk rp, w).
  Proof.
    destruct (rpath_total (w_st w) n (h_wf _ _ _ H) Habs Htc Htl) as [rp E].
    exists rp. rewrite real_path_osfs, E. reflexivity.
  Qed.

  Variable rp : str.
  Hypothesis Hrp : fst (real_path osfs n w) = MOk rp.
  Let Hrp' : rpath (w_st w) n = Ok rp := proj1 (real_path_ok_iff n w rp) Hrp.

  Theorem real_path_nolinkpar : nolinkpar f rp.
  Proof. exact (rpath_nolinkpar (w_st w) n (h_wf _ _ _ H) Habs Htc Htl rp Hrp'). Qed.

  Theorem real_path_same_entry :
    definite (resolve f (clean n) false) ->
    resolve f rp false = resolve f (clean n) false.
  Proof. exact (rpath_same_entry (w_st w) n (h_wf _ _ _ H) Habs Htc Htl rp Hrp'). Qed.

  Theorem real_path_final_unresolved : forall dcs b kd m,
    comps n = dcs ++ [b] ->
    resolve f (kpath dcs) true = WFound kd (Dir m) ->
    rp = kpath (kd ++ [b]).
  Proof. exact (rpath_final_unresolved (w_st w) n (h_wf _ _ _ H) Habs Htc Htl rp Hrp'). Qed.

  Theorem real_path_lexical_tail : comps n <> [] ->
    exists done tail k',
      comps n = done ++ tail /\ tail <> [] /\ rp = kpath (k' ++ tail) /\
      NL f k' /\
      (length tail = 1 \/ f !! (k' ++ firstn 1 tail) = None) /\
      (forall X fl r, (X <> [] \/ fl = true) ->
         walks f [] (done ++ X) fl r -> walks f [] (k' ++ X) fl r).
  Proof. exact (rpath_lexical_tail (w_st w) n (h_wf _ _ _ H) Habs Htc Htl rp Hrp'). Qed.
  Theorem real_path_missing_tail : forall done c tail kd m,
    comps n = done ++ c :: tail ->
    resolve f (kpath done) true = WFound kd (Dir m) ->
    f !! (kd ++ [c]) = None ->
    rp = kpath (kd ++ c :: tail).
  Proof. exact (rpath_missing_tail (w_st w) n (h_wf _ _ _ H) Habs Htc Htl rp Hrp'). Qed.
End Statements.

(** T3 on worlds *)
Theorem real_path_fixpoint : forall p w,
  wf (st_fs (w_st w)) -> nolinkpar (st_fs (w_st w)) p ->
  real_path osfs p w = (MOk p, w).
Proof.
  intros p w Hwf Hnlp. rewrite real_path_osfs, (rpath_fix (w_st w) p Hwf Hnlp). reflexivity.
Qed.

(** idempotence: the result of a resolution resolves to itself *)
Theorem real_path_idempotent : forall q n w rp,
  c16_hyps q n w -> fst (real_path osfs n w) = MOk rp ->
  real_path osfs rp w = (MOk rp, w).
Proof.
  intros q n w rp H Hrp. apply real_path_fixpoint.
  - exact (h_wf _ _ _ H).
  - exact (real_path_nolinkpar q n w H rp Hrp).
Qed.

(* ------------------------------------------------------------------ *)
(** * J. T1 (c): no exhaustion of the model's fuel, without any exclusion
    of deviations (absolute names, well-formed tree) *)

(** every link target has at most [T] separator-delimited pieces *)
Definition links_bounded (f : fs) (T : nat) : Prop :=
  forall k m t, f !! k = Some (Link m t) -> length (split_sep t) <= T.

Lemma walk_no_efuel : forall F (f : fs) h cur cs fl T,
  links_bounded f T -> h <= 40 -> length cs + (40 - h) * T + 1 <= F ->
  walk F f h cur cs fl <> WErr EFUEL.
Proof.
  induction F as [|F IH]; intros f h cur cs fl T HT Hh HF.
  - revert HF. generalize ((40 - h) * T). intros M HF. lia.
  - rewrite walk_S. destruct cs as [|c rest].
    + destruct (f !! cur); discriminate.
    + cbn [length] in HF.
      assert (HF' : length rest + (40 - h) * T + 1 <= F).
      { revert HF. generalize ((40 - h) * T). intros M HF. lia. }
      destruct (trivial_comp c); [exact (IH f h cur rest fl T HT Hh HF')|].
      destruct (str_eqb c s_dotdot); [exact (IH f h _ rest fl T HT Hh HF')|].
      destruct (f !! (cur ++ [c])) as [[m|m d|m t]|] eqn:El.
      * exact (IH f h _ rest fl T HT Hh HF').
      * destruct rest; discriminate.
      * destruct ((match rest with [] => true | _ => false end) && negb fl); [discriminate|].
        destruct (Nat.leb 40 h) eqn:E40; [discriminate|].
        apply Nat.leb_gt in E40.
        apply (IH f (S h) _ _ fl T HT); [lia|].
        pose proof (HT _ _ _ El) as Ht. rewrite app_length.
        assert (E : (40 - h) * T = T + (40 - S h) * T).
        { replace (40 - h) with (S (40 - S h)) by lia. reflexivity. }
        rewrite E in HF'. revert HF'. generalize ((40 - S h) * T). intros M HF'. lia.
      * destruct (forallb trivial_comp rest); discriminate.
Qed.

Lemma walk_found_lookup : forall F (f : fs) h cur cs fl k n,
  walk F f h cur cs fl = WFound k n -> f !! k = Some n.
Proof.
  induction F as [|F IH]; intros f h cur cs fl k n Hw; [discriminate Hw|].
  rewrite walk_S in Hw. destruct cs as [|c rest].
  - norm_keys. destruct (f !! cur) eqn:E; [|discriminate Hw]. injection Hw as E1 E2. subst. exact E.
  - destruct (trivial_comp c); [exact (IH _ _ _ _ _ _ _ Hw)|].
    destruct (str_eqb c s_dotdot); [exact (IH _ _ _ _ _ _ _ Hw)|].
    norm_keys. destruct (f !! (cur ++ [c])) as [[m|m d|m t]|] eqn:El.
    + exact (IH _ _ _ _ _ _ _ Hw).
    + destruct rest; [|discriminate Hw]. injection Hw as E1 E2. subst. exact El.
    + destruct ((match rest with [] => true | _ => false end) && negb fl).
      * injection Hw as E1 E2. subst. exact El.
      * destruct (Nat.leb 40 h); [discriminate Hw | exact (IH _ _ _ _ _ _ _ Hw)].
    + revert Hw. destruct (forallb _ _); intro Hw; discriminate Hw.
Qed.

(** the budget [walk_fuel + length p] of [resolve] pays for the pieces of the
    name; what remains to be paid are the (at most 40) link targets spliced in *)
Lemma resolve_no_efuel : forall (f : fs) p fl T,
  links_bounded f T -> 40 * T + 2 <= walk_fuel ->
  resolve f p fl <> WErr EFUEL.
Proof.
  intros f p fl T HT Hb. unfold resolve. destruct p as [|x p']; [discriminate|].
  apply (walk_no_efuel _ f 0 [] _ fl T HT); [lia|].
  pose proof (split_sep_length_le (x :: p')) as Hs.
  replace (40 - 0) with 40 by lia. lia.
Qed.

Lemma resolve_key_no_efuel : forall (f : fs) KK T,
  links_bounded f T -> Forall pg KK -> 40 * T + 2 <= walk_fuel ->
  resolve f (kpath KK) false <> WErr EFUEL.
Proof. intros f KK T HT _ Hb. exact (resolve_no_efuel f _ false T HT Hb). Qed.

Lemma fs_lstat_efuel : forall s p, fs_lstat s p = Err EFUEL -> resolve (st_fs s) p false = WErr EFUEL.
Proof.
  intros s p H. unfold fs_lstat in H. destruct (resolve (st_fs s) p false); try discriminate H.
  injection H as H. subst. reflexivity.
Qed.

Lemma fs_readlink_efuel : forall s p, fs_readlink s p = Err EFUEL -> resolve (st_fs s) p false = WErr EFUEL.
Proof.
  intros s p H. unfold fs_readlink in H. destruct (resolve (st_fs s) p false) as [k [m|m d|m t]| |e]; try discriminate H.
  injection H as H. subst. reflexivity.
Qed.

Lemma fs_readlink_ok_lookup : forall s p t,
  fs_readlink s p = Ok t -> exists k m, st_fs s !! k = Some (Link m t).
Proof.
  intros s p t H. unfold fs_readlink in H.
  destruct (resolve (st_fs s) p false) as [k [m|m d|m t']| |e] eqn:E; try discriminate H.
  injection H as H. subst t'. exists k, m.
  unfold resolve in E. destruct p; [discriminate E|]. exact (walk_found_lookup _ _ _ _ _ _ _ _ E).
Qed.

Lemma rloop_no_efuel : forall s T final rest K acc g,
  links_bounded (st_fs s) T ->
  rest <> [] -> Forall pg rest -> Forall pg K ->
  Forall2 (fun x pre => g x = kpath (K ++ pre)) acc (prefixes_from [] rest) ->
  g final = kpath (K ++ rest) ->
  40 * T + 2 <= walk_fuel ->
  rloop s acc g final <> Err EFUEL.
Proof.
  intros s T final rest. induction rest as [|c rest1 IH]; intros K acc g HT Hne Hrest HK Hacc Hfin Hb.
  - contradiction Hne. reflexivity.
  - inversion Hrest as [|c' r' Hc Hrest1]; subst c' r'.
    rewrite prefixes_from_nil_cons in Hacc.
    inversion Hacc as [|q pre0 acc1 pres Hq Hacc1]; subst.
    apply Forall2_map_r' in Hacc1.
    assert (HKc : Forall pg (K ++ [c])) by (apply Forall_app; split; [exact HK | constructor; [exact Hc | constructor]]).
    assert (Hknil : K ++ [c] <> []) by (intro E0; apply app_eq_nil in E0; destruct E0 as [_ E0]; discriminate E0).
    assert (Hres : resolve (st_fs s) (kpath (K ++ [c])) false <> WErr EFUEL).
    { exact (resolve_key_no_efuel _ _ T HT HKc Hb). }
    assert (Hacc1' : Forall2 (fun x pre => g x = kpath ((K ++ [c]) ++ pre)) acc1 (prefixes_from [] rest1)).
    { eapply Forall2_impl_In_r; [|exact Hacc1]. intros x y _ E. cbv beta in E.
      rewrite E, <- app_assoc. reflexivity. }
    assert (Hfin1 : g final = kpath ((K ++ [c]) ++ rest1)) by (rewrite Hfin, <- app_assoc; reflexivity).
    remember (kpath (K ++ [c])) as p eqn:Ep. rewrite <- Hq in Hres.
    destruct (fs_lstat s (g q)) as [fi|e] eqn:HL.
    + destruct (match fi_kind fi with KLink => true | _ => false end) eqn:Ek.
      * assert (Hk : fi_kind fi = KLink) by (destruct (fi_kind fi); try discriminate Ek; reflexivity).
        destruct (fs_readlink s (g q)) as [t|e] eqn:Hrl.
        -- rewrite (rloop_step_link s q acc1 g final fi t HL Hk Hrl).
           destruct rest1 as [|c1 rest2]; [inversion Hacc1; subst; discriminate|].
           destruct acc1 as [|q1 acc2]; [inversion Hacc1|].
           rewrite Hq.
           destruct (to_abs_symlink_key K c t HK Hc) as [Habs Ecomps]. rewrite <- Ep in Habs, Ecomps.
           apply (IH (lexkey K t)); try assumption.
           ++ discriminate.
           ++ apply lexkey_pg. exact HK.
           ++ eapply Forall2_impl_In_r; [|exact Hacc1']. intros x y Hy E.
              apply in_prefixes in Hy. destruct Hy as [Hyne [l2 El2]].
              rewrite E, Ep. rewrite (trim_kpath _ _ Hknil Hyne). rewrite <- Ep.
              rewrite (join2_abs_tail _ y Habs); [rewrite Ecomps; reflexivity | | exact Hyne].
              rewrite El2 in Hrest1. apply Forall_app in Hrest1. exact (proj1 Hrest1).
           ++ assert (Hne1 : c1 :: rest2 <> []) by (intro Hx; discriminate Hx).
              rewrite Hfin1, Ep. rewrite (trim_kpath _ _ Hknil Hne1). rewrite <- Ep.
              rewrite (join2_abs_tail _ _ Habs Hrest1 Hne1). rewrite Ecomps. reflexivity.
        -- cbn [rloop]. rewrite HL, Hk, Hrl. intro E. injection E as E. subst e.
           apply Hres. apply fs_readlink_efuel. exact Hrl.
      * assert (Hk : fi_kind fi <> KLink) by (intro E; rewrite E in Ek; discriminate Ek).
        rewrite (rloop_step_plain s q acc1 g final fi HL Hk).
        destruct rest1 as [|c1 rest2]; [inversion Hacc1; subst; discriminate|].
        destruct acc1 as [|q1 acc2]; [inversion Hacc1|].
        apply (IH (K ++ [c])); try assumption.
        discriminate.
    + cbn [rloop]. rewrite HL. destruct (is_not_found e) eqn:Enf; [discriminate|].
      intro E. injection E as E. subst e. apply Hres. apply fs_lstat_efuel. exact HL.
Qed.

Lemma rpath_no_efuel : forall s n T,
  wf (st_fs s) -> is_abs n = true -> links_bounded (st_fs s) T ->
  40 * T + 2 <= walk_fuel ->
  rpath s n <> Err EFUEL.
Proof.
  intros s n T Hwf Habs HT Hb.
  destruct (nil_dec _ (comps n)) as [E|Hne].
  - rewrite (rpath_root s n Hwf Habs E). discriminate.
  - destruct (rpath_unfold s n Hwf Habs Hne) as [Er _]. rewrite Er.
    pose proof (rloop_no_efuel s T (kpath (comps n)) (comps n) []
                  (map kpath (prefixes_from [] (comps n))) (fun x => x) HT Hne
                  (comps_abs_pg n Habs) (Forall_nil _) (Forall2_map_same _ _ _ _) eq_refl
                  Hb) as H.
    destruct (rloop s _ _ _) as [a|e]; [discriminate|]. intro E. injection E as E. subst e. apply H. reflexivity.
Qed.

Definition links_boundedb (f : fs) (T : nat) : bool :=
  forallb (fun kv => match snd kv with Link _ t => Nat.leb (length (split_sep t)) T | _ => true end)
          (entries f).

Lemma links_boundedb_ok : forall f T, links_boundedb f T = true -> links_bounded f T.
Proof.
  intros f T H k m t Hl. unfold links_boundedb in H. rewrite forallb_forall in H.
  specialize (H (k, Link m t) (proj2 (In_entries _ _ _) Hl)). cbn [snd] in H.
  apply Nat.leb_le. exact H.
Qed.

(** T1 (c) on worlds: whatever the symlink topology (cycles, dangling links,
    links through links, unclean targets), resolving an absolute name - of any
    length - in a well-formed tree whose link targets have at most [T] pieces
    does not exhaust the model's fuel when 40*T + 2 <= 4096 (the budget of
    [resolve] grows with the name; only the at most 40 spliced link targets
    have to be paid from the constant part) *)
Theorem real_path_no_efuel : forall n w T,
  wf (st_fs (w_st w)) -> is_abs n = true -> links_bounded (st_fs (w_st w)) T ->
  40 * T + 2 <= walk_fuel ->
  fst (real_path osfs n w) <> MErr EFUEL.
Proof.
  intros n w T Hwf Habs HT Hb. rewrite real_path_osfs. unfold res_to_m. cbn [fst].
  pose proof (rpath_no_efuel (w_st w) n T Hwf Habs HT Hb) as H.
  destruct (rpath (w_st w) n) as [a|e]; [discriminate|]. intro E. injection E as E. subst e. apply H. reflexivity.
Qed.

(** T2 (b) with the fuel side of [definite] discharged by the bound on the
    link targets:
    only the kernel's 40-hop limit remains as a side condition *)
Theorem real_path_same_entry_bounded : forall q n w T rp,
  c16_hyps q n w -> links_bounded (st_fs (w_st w)) T ->
  40 * T + 2 <= walk_fuel ->
  fst (real_path osfs n w) = MOk rp ->
  resolve (st_fs (w_st w)) (clean n) false <> WErr ELOOP ->
  resolve (st_fs (w_st w)) rp false = resolve (st_fs (w_st w)) (clean n) false.
Proof.
  intros q n w T rp H HT Hb Hrp Hloop.
  apply (real_path_same_entry q n w H rp Hrp). split; [|exact Hloop].
  assert (Habs : is_abs n = true) by (rewrite <- is_abs_clean; exact (h_abs _ _ _ H)).
  rewrite (clean_abs_kpath n Habs).
  apply (resolve_key_no_efuel _ _ T HT (comps_abs_pg n Habs) Hb).
Qed.

(** the exclusions in terms of the trigger list of Backup/Triggers.v for the
    operation [RealPath n] on a configuration over the plain OS filesystem:
    no recorded finding applies *)
Lemma triggers_nil_hyps : forall q n w,
  triggers (plain_cfg q) (ORealPath n) w = [] ->
  is_abs (clean n) = true /\
  resolve_through_link (plain_cfg q) (cands (clean n)) (fun x => x) w = false /\
  unclean_target w = false.
Proof.
  intros q n w H. unfold triggers in H. cbn [follows_final op_paths existsb app] in H.
  remember (link_flags (plain_cfg q) w) as lf eqn:Elf.
  repeat (apply app_eq_nil in H; let H' := fresh "Hpart" in destruct H as [H' H]).
  split; [|split].
  - destruct (is_abs (clean n)); [reflexivity|].
    match goal with Hx : (if negb false || false then _ else _) = [] |- _ => discriminate Hx end.
  - destruct (resolve_through_link (plain_cfg q) (cands (clean n)) (fun x => x) w); [|reflexivity].
    match goal with Hx : (if _ || true || false then [TrLinkThroughLink] else _) = [] |- _ =>
      rewrite orb_true_r in Hx; discriminate Hx end.
  - destruct (unclean_target w) eqn:E; [|reflexivity].
    apply (unclean_target_flag (plain_cfg q)) in E. rewrite <- Elf, H in E. contradiction E.
Qed.

Lemma c16_hyps_of_triggers : forall q n w,
  wf (st_fs (w_st w)) ->
  triggers (plain_cfg q) (ORealPath n) w = [] -> c16_hyps q n w.
Proof.
  intros q n w Hwf Ht. destruct (triggers_nil_hyps q n w Ht) as (H1 & H2 & H3).
  constructor; assumption.
Qed.

(* ------------------------------------------------------------------ *)
(** * K. Relative names (D20 lifted) *)

(** a run of [j] leading ".." components *)
Local Notation dds j := (repeat s_dotdot j).

Lemma rev_dds : forall j, rev (dds j) = dds j.
Proof.
  induction j as [|j IH]; [reflexivity|]. cbn [repeat rev]. rewrite IH. symmetry. apply repeat_cons.
Qed.

Lemma Forall_eq_dds : forall j, Forall (eq s_dotdot) (dds j).
Proof. induction j as [|j IH]; cbn [repeat]; constructor; [reflexivity | exact IH]. Qed.

Lemma Forall_good_dds_pg : forall j K, Forall pg K -> Forall good_comp (dds j ++ K).
Proof.
  intros j K HK. apply Forall_app. split.
  - eapply List.Forall_impl; [|apply Forall_eq_dds]. intros c E. subst c. exact good_comp_dotdot.
  - exact (proj1 (Forall_pg_good K HK)).
Qed.

Lemma dds_app_nonnil : forall j K, K <> [] -> dds j ++ K <> [].
Proof. intros j K HK E. apply app_eq_nil in E. exact (HK (proj2 E)). Qed.

Lemma normal_dds_pg : forall j K, Forall pg K -> normal false (dds j ++ K).
Proof.
  intros j K HK. unfold normal. rewrite rev_app_distr, rev_dds.
  apply Forall_rev_iff in HK. induction HK as [|c stk Hc Hstk IH].
  - cbn [app]. apply stk_ok_all_dd. apply Forall_eq_dds.
  - cbn [app]. apply so_push; [exact (proj1 Hc) | exact (proj2 Hc) | exact IH].
Qed.

Lemma comps_rel_render : forall j K, Forall pg K -> comps (render false (dds j ++ K)) = dds j ++ K.
Proof. intros j K HK. apply comps_render. apply normal_dds_pg. exact HK. Qed.

Lemma cleaned_rel_render : forall j K, Forall pg K -> cleaned (render false (dds j ++ K)).
Proof. intros j K HK. apply cleaned_render. apply normal_dds_pg. exact HK. Qed.

Lemma is_abs_rel_render : forall j K, Forall pg K -> is_abs (render false (dds j ++ K)) = false.
Proof. intros j K HK. apply is_abs_render. apply Forall_good_dds_pg. exact HK. Qed.

Lemma rel_render_nonempty : forall j K, Forall pg K -> render false (dds j ++ K) <> [].
Proof. intros j K HK. apply cleaned_nonempty. apply cleaned_rel_render. exact HK. Qed.

Lemma norm_false_dds : forall j cs i, norm false (dds j ++ cs) (dds i) = norm false cs (dds (i + j)).
Proof.
  induction j as [|j IH]; intros cs i.
  - rewrite Nat.add_0_r. reflexivity.
  - cbn [repeat app]. rewrite norm_cons.
    change (str_eqb s_dotdot [] || str_eqb s_dotdot s_dot) with false. cbv iota. rewrite str_eqb_refl.
    destruct i as [|i].
    + cbn [repeat]. change [s_dotdot] with (dds 1). rewrite IH. reflexivity.
    + cbn [repeat]. rewrite str_eqb_refl.
      change (s_dotdot :: s_dotdot :: dds i) with (dds (S (S i))). rewrite IH.
      f_equal. f_equal. lia.
Qed.

Lemma norm_true_dds : forall j cs, norm true (dds j ++ cs) [] = norm true cs [].
Proof.
  induction j as [|j IH]; intro cs; [reflexivity|].
  cbn [repeat app]. rewrite norm_cons.
  change (str_eqb s_dotdot [] || str_eqb s_dotdot s_dot) with false. cbv iota. rewrite str_eqb_refl.
  apply IH.
Qed.

(** normalising a relative path on top of a stack [dds j ++ K] (reversed):
    the leading ".." run can only grow, the rest is the rooted normalisation *)
Lemma norm_rel_rooted : forall cs stk j,
  Forall nosep cs -> Forall pg stk ->
  exists j', norm false cs (stk ++ dds j) = dds j' ++ norm true cs stk.
Proof.
  induction cs as [|c cs IH]; intros stk j Hns Hstk.
  - exists j. cbn [norm]. rewrite rev_app_distr, rev_dds. reflexivity.
  - inversion Hns as [|c' cs' Hc Hcs]; subst c' cs'. rewrite !norm_cons.
    destruct (str_eqb c [] || str_eqb c s_dot) eqn:Et; [apply IH; assumption|].
    apply orb_false_elim in Et. destruct Et as [Et1 Et2].
    destruct (str_eqb c s_dotdot) eqn:Ed.
    + apply str_eqb_eq in Ed. subst c. destruct stk as [|t stk'].
      * cbn [app]. destruct j as [|j].
        -- cbn [repeat]. exact (IH [] 1 Hcs Hstk).
        -- cbn [repeat]. rewrite str_eqb_refl. exact (IH [] (S (S j)) Hcs Hstk).
      * cbn [app]. inversion Hstk as [|t' s' Ht Hstk']; subst t' s'.
        destruct Ht as [_ Ht]. apply str_eqb_neq in Ht. rewrite Ht.
        exact (IH stk' j Hcs Hstk').
    + apply (IH (c :: stk) j Hcs). constructor; [|exact Hstk].
      apply str_eqb_neq in Et1, Et2, Ed. split; [|exact Ed]. repeat split; assumption.
Qed.

(** the string of a key in one of the two modes of the loop: absolute, or
    relative to the working directory (the root) with [j] leading ".." *)
Definition rk (md : option nat) (K : key) : str :=
  match md with None => kpath K | Some j => render false (dds j ++ K) end.

Lemma rk_nonempty : forall md K, Forall pg K -> rk md K <> [].
Proof. intros [j|] K HK; [apply rel_render_nonempty; exact HK | apply kpath_nonempty]. Qed.

Lemma rk_cleaned : forall md K, Forall pg K -> cleaned (rk md K).
Proof.
  intros [j|] K HK; [apply cleaned_rel_render; exact HK|].
  exact (proj1 (kpath_pg_abs_cleaned K HK)).
Qed.

Lemma rk_app : forall md K pre,
  K <> [] -> pre <> [] -> rk md (K ++ pre) = rk md K ++ sep :: join_sep pre.
Proof.
  intros [j|] K pre HK Hpre; [|apply kpath_app; assumption].
  cbn [rk]. rewrite app_assoc.
  rewrite !render_rel_nonnil.
  - apply join_sep_app; [apply dds_app_nonnil; exact HK | exact Hpre].
  - apply dds_app_nonnil. exact HK.
  - intro E. apply app_eq_nil in E. exact (Hpre (proj2 E)).
Qed.

Lemma trim_rk : forall md K pre,
  K <> [] -> pre <> [] -> trim_prefix (rk md (K ++ pre)) (rk md K) = sep :: join_sep pre.
Proof. intros md K pre HK Hpre. rewrite rk_app by assumption. apply trim_prefix_app. Qed.

(** ** the kernel walk of a relative path starts at the root, where ".." stays *)

Lemma walk_dds_root : forall j F f h cs fl,
  walk (j + F) f h [] (dds j ++ cs) fl = walk F f h [] cs fl.
Proof.
  induction j as [|j IH]; intros F f h cs fl; [reflexivity|].
  cbn [repeat app plus]. rewrite walk_S.
  change (trivial_comp s_dotdot) with false. cbv iota. rewrite str_eqb_refl.
  change (parent_key []) with (@nil str). apply IH.
Qed.

Lemma join_sep_dds_length : forall j K, j + length (join_sep K) <= length (join_sep (dds j ++ K)).
Proof.
  induction j as [|j IH]; intro K; [reflexivity|].
  cbn [repeat app]. destruct (dds j ++ K) as [|x r] eqn:E.
  - apply app_eq_nil in E. destruct E as [E1 E2]. subst K. destruct j; [|discriminate E1].
    cbn. lia.
  - rewrite join_sep_cons by discriminate. rewrite <- E. specialize (IH K).
    rewrite app_length. cbn [length]. unfold s_dotdot at 1. cbn [length]. lia.
Qed.

Lemma resolve_kpath_eq : forall f K fl,
  Forall pg K -> K <> [] ->
  resolve f (kpath K) fl = walk (walk_fuel + length (join_sep K)) f 0 [] K fl.
Proof.
  intros f K fl HK Hne. unfold kpath. rewrite render_abs. unfold resolve.
  change (split_sep (sep :: join_sep K)) with ([] :: split_sep (join_sep K)).
  cbn [length]. rewrite Nat.add_succ_r. rewrite walk_trivial by reflexivity.
  rewrite split_join; [reflexivity | exact Hne |].
  apply Forall_good_nosep. exact (proj1 (Forall_pg_good K HK)).
Qed.

Lemma resolve_rel_eq : forall f j K fl,
  Forall pg K -> K <> [] ->
  resolve f (render false (dds j ++ K)) fl =
    walk (walk_fuel + length (join_sep (dds j ++ K)) - j) f 0 [] K fl.
Proof.
  intros f j K fl HK Hne.
  pose proof (rel_render_nonempty j K HK) as Hn.
  rewrite render_rel_nonnil in * by (apply dds_app_nonnil; exact Hne).
  unfold resolve. destruct (join_sep (dds j ++ K)) as [|x p] eqn:E; [contradiction Hn; reflexivity|].
  rewrite <- E. rewrite split_join.
  - pose proof (join_sep_dds_length j K) as Hl.
    replace (walk_fuel + length (join_sep (dds j ++ K)))
      with (j + (walk_fuel + length (join_sep (dds j ++ K)) - j)) at 1 by lia.
    apply walk_dds_root.
  - apply dds_app_nonnil. exact Hne.
  - apply Forall_good_nosep. apply Forall_good_dds_pg. exact HK.
Qed.

(** a relative path names what the absolute path of the same key names *)
Lemma resolve_rk : forall f md K fl,
  Forall pg K -> K <> [] -> definite (resolve f (kpath K) fl) ->
  resolve f (rk md K) fl = resolve f (kpath K) fl.
Proof.
  intros f [j|] K fl HK Hne Hdef; [|reflexivity].
  cbn [rk]. rewrite (resolve_rel_eq f j K fl HK Hne).
  rewrite (resolve_kpath_eq f K fl HK Hne) in *.
  pose proof (join_sep_dds_length j K) as Hl.
  eapply walk_mono; [reflexivity | exact Hdef | lia | lia].
Qed.

Lemma resolve_rk_walks : forall f md K fl,
  Forall pg K -> K <> [] -> definite (resolve f (rk md K) fl) ->
  walks f [] K fl (resolve f (rk md K) fl).
Proof.
  intros f [j|] K fl HK Hne Hdef; cbn [rk] in *.
  - rewrite (resolve_rel_eq f j K fl HK Hne) in *. eexists _, 0. split; [reflexivity | exact Hdef].
  - rewrite (resolve_kpath_eq f K fl HK Hne) in *. eexists _, 0. split; [reflexivity | exact Hdef].
Qed.

Lemma fs_lstat_of_found : forall s p k n,
  resolve (st_fs s) p false = WFound k n -> fs_lstat s p = Ok (info_of (base p) n).
Proof. intros s p k n E. unfold fs_lstat. rewrite E. reflexivity. Qed.

Lemma fs_readlink_of_found : forall s p k m t,
  resolve (st_fs s) p false = WFound k (Link m t) -> fs_readlink s p = Ok t.
Proof. intros s p k m t E. unfold fs_readlink. rewrite E. reflexivity. Qed.

Lemma fs_lstat_err_transfer : forall s p p' e,
  resolve (st_fs s) p false = resolve (st_fs s) p' false ->
  fs_lstat s p' = Err e -> fs_lstat s p = Err e.
Proof.
  intros s p p' e E. unfold fs_lstat. rewrite E.
  generalize (resolve (st_fs s) p' false). intros r H.
  destruct r; [discriminate H | exact H | exact H].
Qed.

(** [Lstat] / [Readlink] of a key below link-free parents, in either mode *)
Lemma lstat_key_g : forall s md k c,
  wf (st_fs s) -> Forall pg k -> pg c -> NL (st_fs s) k ->
  match st_fs s !! (k ++ [c]) with
  | Some n => (exists fi, fs_lstat s (rk md (k ++ [c])) = Ok fi /\ fi_kind fi = node_kind n) /\
              (forall m t, n = Link m t -> fs_readlink s (rk md (k ++ [c])) = Ok t)
  | None => exists e, fs_lstat s (rk md (k ++ [c])) = Err e /\ is_not_found e = true
  end.
Proof.
  intros s md k c Hwf Hk Hc Hnl.
  assert (Hkc : Forall pg (k ++ [c])) by (apply Forall_app; split; [exact Hk | constructor; [exact Hc | constructor]]).
  assert (Hknil : k ++ [c] <> []) by (intro E0; apply app_eq_nil in E0; destruct E0 as [_ E0]; discriminate E0).
  pose proof (nolinkpar_of_NL (st_fs s) k c Hk Hc Hnl) as Hnlp.
  pose proof (comps_kpath_pg _ Hkc) as Ec.
  pose proof (resolve_rk (st_fs s) md _ false Hkc Hknil
                (resolve_nolinkpar_definite _ _ Hwf Hnlp)) as Er.
  pose proof (lstat_key s k c Hwf Hk Hc Hnl) as HL.
  destruct (st_fs s !! (k ++ [c])) as [n|] eqn:El.
  - assert (El' : st_fs s !! comps (kpath (k ++ [c])) = Some n) by (rewrite Ec; exact El).
    pose proof (fs_lstat_nolinkpar_present (st_fs s) _ _ Hwf Hnlp El') as Hdirect.
    pose proof (resolve_direct_found_nofollow _ _ _ Hdirect El') as Hres.
    rewrite <- Er in Hres. split.
    + eexists. split; [exact (fs_lstat_of_found s _ _ _ Hres) | reflexivity].
    + intros m t En. subst n. exact (fs_readlink_of_found s _ _ _ _ Hres).
  - destruct HL as (e & HLe & Hnf). exists e. split; [|exact Hnf].
    exact (fs_lstat_err_transfer s _ _ e Er HLe).
Qed.

(** ** [toAbsSymlink] and [filepath.Join] in either mode *)

Lemma is_abs_app_ne : forall a b, a <> [] -> is_abs (a ++ b) = is_abs a.
Proof. intros [|x a] b H; [contradiction H; reflexivity | reflexivity]. Qed.

Lemma dir_rel_snoc : forall cs c,
  normal false cs -> pg c -> dir (render false (cs ++ [c])) = render false cs.
Proof.
  intros cs c Hn Hc. pose proof (normal_good _ _ Hn) as Hg.
  assert (Hns : nosep c) by exact (good_comp_nosep c (proj1 Hc)).
  destruct cs as [|x cs'].
  - cbn [app render join_sep]. unfold dir. rewrite (upto_last_sep_nosep c Hns). reflexivity.
  - remember (x :: cs') as cs eqn:Ecs.
    assert (Hne : cs <> []) by (rewrite Ecs; discriminate).
    rewrite render_rel_nonnil by (intro E; apply app_eq_nil in E; exact (Hne (proj1 E))).
    rewrite (render_rel_nonnil cs Hne).
    rewrite (join_sep_snoc cs c Hne). unfold dir. rewrite (upto_last_sep_app_sep _ c Hns).
    assert (Ha : is_abs (join_sep cs ++ [sep]) = false).
    { rewrite is_abs_app_ne by (apply join_sep_nonempty; assumption). apply is_abs_join; assumption. }
    unfold clean, comps. rewrite Ha.
    rewrite (split_sep_app_sep (join_sep cs) []).
    rewrite split_join by (try exact Hne; apply Forall_good_nosep; exact Hg).
    change (split_sep []) with [@nil N].
    rewrite norm_app. rewrite (norm_normal false cs Hn).
    rewrite norm_cons. change (str_eqb [] [] || str_eqb [] s_dot) with true. cbv iota.
    cbn [norm]. rewrite rev_involutive. apply render_rel_nonnil. exact Hne.
Qed.

(** [l] is the string of the key [K] in mode [md]; an absolute one need not
    be clean (an unclean absolute link target is kept verbatim) *)
Definition repr (md : option nat) (K : key) (l : str) : Prop :=
  match md with
  | None => is_abs l = true /\ comps l = K
  | Some j => l = render false (dds j ++ K)
  end.

Lemma tas_repr : forall md k c t,
  Forall pg k -> pg c ->
  exists md', repr md' (lexkey k t) (to_abs_symlink t (rk md (k ++ [c]))).
Proof.
  intros md k c t Hk Hc. destruct md as [j|].
  2:{ exists None. exact (to_abs_symlink_key k c t Hk Hc). }
  unfold to_abs_symlink, lexkey. destruct (is_abs t) eqn:Ha.
  - exists None. split; [exact Ha|]. unfold comps. rewrite Ha. reflexivity.
  - cbn [rk]. rewrite app_assoc.
    rewrite (dir_rel_snoc _ c (normal_dds_pg j k Hk) Hc).
    pose proof (rel_render_nonempty j k Hk) as Hdn.
    pose proof (is_abs_rel_render j k Hk) as Hda.
    pose proof (comps_rel_render j k Hk) as Hdc.
    remember (render false (dds j ++ k)) as d eqn:Ed.
    assert (E : join2 d t = clean (d ++ sep :: t)).
    { unfold join2. destruct d; [contradiction Hdn; reflexivity | reflexivity]. }
    rewrite E.
    destruct (norm_rel_rooted (split_sep t) (rev k) j (split_sep_nosep t)
                (proj2 (Forall_rev_iff _ pg k) Hk)) as [j' Ej].
    exists (Some j'). cbn [repr]. unfold clean.
    rewrite (is_abs_app_ne d _ Hdn), Hda. f_equal.
    unfold comps. rewrite (is_abs_app_ne d _ Hdn), Hda.
    rewrite split_sep_app_sep, norm_app.
    assert (Ed' : norm false (split_sep d) [] = dds j ++ k).
    { rewrite <- Hdc. unfold comps. rewrite Hda. reflexivity. }
    rewrite Ed'. rewrite rev_app_distr, rev_dds. exact Ej.
Qed.

Lemma join2_repr_tail : forall md K l pre,
  repr md K l -> Forall pg K -> Forall pg pre -> pre <> [] ->
  join2 l (sep :: join_sep pre) = rk md (K ++ pre).
Proof.
  intros [j|] K l pre Hr HK Hpre Hne; cbn [repr] in Hr.
  - subst l. cbn [rk].
    pose proof (rel_render_nonempty j K HK) as Hdn.
    pose proof (is_abs_rel_render j K HK) as Hda.
    pose proof (comps_rel_render j K HK) as Hdc.
    remember (render false (dds j ++ K)) as d eqn:Ed.
    assert (E : join2 d (sep :: join_sep pre) = clean (d ++ sep :: sep :: join_sep pre)).
    { unfold join2. destruct d; [contradiction Hdn; reflexivity | reflexivity]. }
    rewrite E. unfold clean. rewrite (is_abs_app_ne d _ Hdn), Hda. f_equal.
    unfold comps. rewrite (is_abs_app_ne d _ Hdn), Hda.
    rewrite split_sep_app_sep.
    change (split_sep (sep :: join_sep pre)) with ([] :: split_sep (join_sep pre)).
    rewrite split_join; [| exact Hne |].
    2:{ apply Forall_good_nosep. exact (proj1 (Forall_pg_good _ Hpre)). }
    rewrite norm_app.
    assert (Ed' : norm false (split_sep d) [] = dds j ++ K).
    { rewrite <- Hdc. unfold comps. rewrite Hda. reflexivity. }
    rewrite Ed'. rewrite norm_cons.
    change (str_eqb [] [] || str_eqb [] s_dot) with true. cbv iota.
    rewrite norm_pg by exact Hpre. rewrite rev_involutive. rewrite app_assoc. reflexivity.
  - destruct Hr as [Ha Ec]. cbn [rk]. rewrite (join2_abs_tail l pre Ha Hpre Hne), Ec. reflexivity.
Qed.

Lemma In_cands_rk : forall md K pre post,
  Forall pg K -> K = pre ++ post -> pre <> [] -> In (rk md pre) (cands (rk md K)).
Proof.
  intros [j|] K pre post HK E Hne.
  - cbn [rk]. rewrite (cands_render false _ (Forall_good_dds_pg j K HK)).
    assert (HKne : K <> []) by (rewrite E; intro E0; apply app_eq_nil in E0; exact (Hne (proj1 E0))).
    rewrite pchain_rel by (apply dds_app_nonnil; exact HKne).
    apply in_map. apply in_prefixes. split; [apply dds_app_nonnil; exact Hne|].
    exists post. rewrite E, app_assoc. reflexivity.
  - cbn [rk]. rewrite (cands_kpath K HK). right. apply in_map. apply in_prefixes.
    split; [exact Hne|]. exists post. exact E.
Qed.

Lemma NL_of_lstat_g : forall s md lk,
  wf (st_fs s) -> Forall pg lk ->
  (forall pre post, lk = pre ++ post -> pre <> [] -> lstat_is_link s (rk md pre) = false) ->
  NL (st_fs s) lk.
Proof.
  intros s md lk Hwf. induction lk as [|x lk' IH] using rev_ind; intros Hpg Hls.
  - exact (NL_root s Hwf).
  - apply Forall_app in Hpg. destruct Hpg as [Hpg' Hx].
    inversion Hx as [|x' l' Hxp _]; subst x' l'.
    assert (Hnl' : NL (st_fs s) lk').
    { apply IH; [exact Hpg' |].
      intros pre post E Hne. apply (Hls pre (post ++ [x])); [|exact Hne]. rewrite E, app_assoc. reflexivity. }
    apply NL_snoc; [exact Hnl'|].
    pose proof (lstat_key_g s md lk' x Hwf Hpg' Hxp Hnl') as HL.
    assert (Hl : lstat_is_link s (rk md (lk' ++ [x])) = false).
    { apply (Hls (lk' ++ [x]) []); [rewrite app_nil_r; reflexivity|].
      intro E0. apply app_eq_nil in E0. destruct E0 as [_ E0]. discriminate E0. }
    intros m t E. norm_keys. rewrite E in HL. destruct HL as [(fi & HL & Hkind) _].
    rewrite (lstat_is_link_ok s _ _ HL), Hkind in Hl. discriminate Hl.
Qed.

(** ** the invariant of the resolution loop, in either mode.  The mode of the
    not yet visited candidates is [md]; it changes to absolute when an
    absolute link target is met, and a relative target that climbs above the
    working directory adds leading ".." (which the kernel clamps at the root) *)
Section LoopG.
  Variable s : fstate.
  Notation f := (st_fs s).
  Hypothesis Hwf : wf f.
  Hypothesis Htc : targets_clean f.
  Variable final : str.

  Lemma rloop_inv_g : forall rest k md acc g,
    rest <> [] -> Forall pg rest ->
    Forall pg k -> NL f k ->
    Forall2 (fun x pre => g x = rk md (k ++ pre)) acc (prefixes_from [] rest) ->
    g final = rk md (k ++ rest) ->
    through_link s acc g = false ->
    exists md' K o, rloop s acc g final = Ok (rk md' K, o) /\
                    Forall pg K /\ K <> [] /\ post s k rest (kpath K).
  Proof.
    induction rest as [|c rest1 IH]; intros k md acc g Hne Hrest Hk Hnl Hacc Hfin Htl.
    - contradiction Hne. reflexivity.
    - inversion Hrest as [|c' r' Hc Hrest1]; subst c' r'.
      rewrite prefixes_from_nil_cons in Hacc.
      inversion Hacc as [|q pre0 acc1 pres Hq Hacc1]; subst.
      apply Forall2_map_r' in Hacc1.
      assert (Hkc : Forall pg (k ++ [c])) by (apply Forall_app; split; [exact Hk | constructor; [exact Hc | constructor]]).
      assert (Hkall : Forall pg (k ++ c :: rest1)) by (apply Forall_app; split; [exact Hk | exact Hrest]).
      pose proof (lstat_key_g s md k c Hwf Hk Hc Hnl) as HL.
      assert (Hacc1' : Forall2 (fun x pre => g x = rk md ((k ++ [c]) ++ pre)) acc1 (prefixes_from [] rest1)).
      { eapply Forall2_impl_In_r; [|exact Hacc1]. intros x y _ E. cbv beta in E.
        rewrite E, <- app_assoc. reflexivity. }
      assert (Hfin1 : g final = rk md ((k ++ [c]) ++ rest1)) by (rewrite Hfin, <- app_assoc; reflexivity).
      assert (Hknil : k ++ [c] <> []) by (intro E0; apply app_eq_nil in E0; destruct E0 as [_ E0]; discriminate E0).
      assert (Hkallnil : k ++ c :: rest1 <> []) by (intro E0; apply app_eq_nil in E0; destruct E0 as [_ E0]; discriminate E0).
      destruct (f !! (k ++ [c])) as [n|] eqn:El.
      + (* the candidate exists *)
        destruct HL as [(fi & HL & Hkind) Hrl].
        assert (Hlast : rest1 = [] -> acc1 = [] /\ post s k [c] (kpath (k ++ [c]))).
        { intro E. subst rest1. inversion Hacc1; subst. split; [reflexivity|].
          apply post_stop; try assumption; try discriminate. left. reflexivity. }
        rewrite <- Hq in HL, Hrl.
        destruct (match n with Link _ _ => true | _ => false end) eqn:Ekind.
        * (* a symlink *)
          destruct n as [m|m dt|m t]; cbn in Ekind; try discriminate Ekind.
          specialize (Hrl m t eq_refl). cbn [node_kind] in Hkind.
          rewrite (rloop_step_link s q acc1 g final _ t HL Hkind Hrl).
          destruct rest1 as [|c1 rest2].
          -- destruct (Hlast eq_refl) as [E Hp]. subst acc1. rewrite Hq.
             exists md, (k ++ [c]). eexists. split; [reflexivity|]. split; [exact Hkc|]. split; [exact Hknil | exact Hp].
          -- destruct acc1 as [|q1 acc2]; [inversion Hacc1|].
             rewrite (through_link_step_link s q q1 acc2 g _ t HL Hkind Hrl) in Htl.
             apply orb_false_elim in Htl. destruct Htl as [Hex Htl].
             rewrite Hq in *. clear HL Hrl.
             destruct (tas_repr md k c t Hk Hc) as [md' Hrepr].
             pose proof (lexkey_pg k t Hk) as Hlk.
             remember (to_abs_symlink t (rk md (k ++ [c]))) as l eqn:El_.
             assert (Elrk : l = rk md' (lexkey k t)).
             { destruct md' as [j'|]; cbn [repr] in Hrepr; [exact Hrepr|].
               destruct Hrepr as [Ha Ecomps]. cbn [rk]. rewrite <- Ecomps. symmetry.
               apply kpath_comps. split; [|exact Ha]. rewrite El_.
               apply to_abs_symlink_cleaned. intros _. exact (Htc _ _ _ El). }
             assert (Hnllk : NL f (lexkey k t)).
             { apply (NL_of_lstat_g s md' _ Hwf Hlk).
               intros pre post E Hpne. apply (existsb_false_In _ _ _ _ Hex).
               rewrite Elrk. exact (In_cands_rk md' _ pre post Hlk E Hpne). }
             assert (Hg' : forall x pre, pre <> [] -> Forall pg pre ->
                       g x = rk md ((k ++ [c]) ++ pre) ->
                       join2 l (trim_prefix (g x) (rk md (k ++ [c]))) = rk md' (lexkey k t ++ pre)).
             { intros x pre Hpne Hppg E. rewrite E.
               rewrite (trim_rk md _ _ Hknil Hpne).
               exact (join2_repr_tail md' _ l pre Hrepr Hlk Hppg Hpne). }
             destruct (IH (lexkey k t) md' (q1 :: acc2)
                         (fun x => join2 l (trim_prefix (g x) (rk md (k ++ [c]))))
                         ltac:(discriminate) Hrest1 Hlk
                         Hnllk) as (md2 & K & o & Er & HK & HKne & Hp).
             ++ eapply Forall2_impl_In_r; [|exact Hacc1']. intros x y Hy E.
                apply in_prefixes in Hy. destruct Hy as [Hyne [l2 El2]].
                apply Hg'; [exact Hyne | | exact E].
                rewrite El2 in Hrest1. apply Forall_app in Hrest1. exact (proj1 Hrest1).
             ++ apply Hg'; [discriminate | exact Hrest1 | exact Hfin1].
             ++ exact Htl.
             ++ exists md2, K, o. split; [exact Er|]. split; [exact HK|]. split; [exact HKne|].
                apply (post_cons_link s Hwf Htc k c _ _ m t Hk Hnl Hc El Hp).
        * (* a directory or a regular file *)
          assert (Hnk : fi_kind fi <> KLink).
          { rewrite Hkind. destruct n; cbn in Ekind; try discriminate Ekind; cbn; discriminate. }
          assert (Hnlc : not_link_at f (k ++ [c])).
          { intros m' t' E. norm_keys. rewrite El in E. injection E as E. subst n. cbn in Ekind. discriminate Ekind. }
          rewrite (rloop_step_plain s q acc1 g final _ HL Hnk).
          destruct rest1 as [|c1 rest2].
          -- destruct (Hlast eq_refl) as [E Hp]. subst acc1. rewrite Hq.
             exists md, (k ++ [c]). eexists. split; [reflexivity|]. split; [exact Hkc|]. split; [exact Hknil | exact Hp].
          -- destruct acc1 as [|q1 acc2]; [inversion Hacc1|].
             rewrite (through_link_step_plain s q _ g _ HL Hnk) in Htl.
             destruct (IH (k ++ [c]) md (q1 :: acc2) g ltac:(discriminate) Hrest1 Hkc
                         (NL_snoc f k c Hnl Hnlc) Hacc1' Hfin1 Htl)
               as (md2 & K & o & Er & HK & HKne & Hp).
             exists md2, K, o. split; [exact Er|]. split; [exact HK|]. split; [exact HKne|].
             apply post_cons_plain; try assumption. norm_keys. rewrite El. discriminate.
      + (* the candidate is missing: lexical tail *)
        destruct HL as (e & HLe & Hnf). rewrite <- Hq in HLe.
        rewrite (rloop_step_notfound s q acc1 g final e HLe Hnf). rewrite Hfin.
        exists md, (k ++ c :: rest1). eexists. split; [reflexivity|]. split; [exact Hkall|]. split; [exact Hkallnil|].
        apply post_stop; try assumption. right. exact El.
  Qed.
End LoopG.

Lemma rloop_no_efuel_g : forall s T final rest K md acc g,
  links_bounded (st_fs s) T ->
  rest <> [] -> Forall pg rest -> Forall pg K ->
  Forall2 (fun x pre => g x = rk md (K ++ pre)) acc (prefixes_from [] rest) ->
  g final = rk md (K ++ rest) ->
  40 * T + 2 <= walk_fuel ->
  rloop s acc g final <> Err EFUEL.
Proof.
  intros s T final rest. induction rest as [|c rest1 IH]; intros K md acc g HT Hne Hrest HK Hacc Hfin Hb.
  - contradiction Hne. reflexivity.
  - inversion Hrest as [|c' r' Hc Hrest1]; subst c' r'.
    rewrite prefixes_from_nil_cons in Hacc.
    inversion Hacc as [|q pre0 acc1 pres Hq Hacc1]; subst.
    apply Forall2_map_r' in Hacc1.
    assert (HKc : Forall pg (K ++ [c])) by (apply Forall_app; split; [exact HK | constructor; [exact Hc | constructor]]).
    assert (Hknil : K ++ [c] <> []) by (intro E0; apply app_eq_nil in E0; destruct E0 as [_ E0]; discriminate E0).
    assert (Hres : resolve (st_fs s) (rk md (K ++ [c])) false <> WErr EFUEL).
    { exact (resolve_no_efuel _ _ false T HT Hb). }
    assert (Hacc1' : Forall2 (fun x pre => g x = rk md ((K ++ [c]) ++ pre)) acc1 (prefixes_from [] rest1)).
    { eapply Forall2_impl_In_r; [|exact Hacc1]. intros x y _ E. cbv beta in E.
      rewrite E, <- app_assoc. reflexivity. }
    assert (Hfin1 : g final = rk md ((K ++ [c]) ++ rest1)) by (rewrite Hfin, <- app_assoc; reflexivity).
    rewrite <- Hq in Hres.
    destruct (fs_lstat s (g q)) as [fi|e] eqn:HL.
    + destruct (match fi_kind fi with KLink => true | _ => false end) eqn:Ek.
      * assert (Hk : fi_kind fi = KLink) by (destruct (fi_kind fi); try discriminate Ek; reflexivity).
        destruct (fs_readlink s (g q)) as [t|e] eqn:Hrl.
        -- rewrite (rloop_step_link s q acc1 g final fi t HL Hk Hrl).
           destruct rest1 as [|c1 rest2]; [inversion Hacc1; subst; discriminate|].
           destruct acc1 as [|q1 acc2]; [inversion Hacc1|].
           rewrite Hq.
           destruct (tas_repr md K c t HK Hc) as [md' Hrepr].
           pose proof (lexkey_pg K t HK) as Hlk.
           apply (IH (lexkey K t) md'); try assumption.
           ++ discriminate.
           ++ eapply Forall2_impl_In_r; [|exact Hacc1']. intros x y Hy E.
              apply in_prefixes in Hy. destruct Hy as [Hyne [l2 El2]].
              rewrite E. rewrite (trim_rk md _ _ Hknil Hyne).
              apply (join2_repr_tail md' _ _ y Hrepr Hlk); [|exact Hyne].
              rewrite El2 in Hrest1. apply Forall_app in Hrest1. exact (proj1 Hrest1).
           ++ assert (Hne1 : c1 :: rest2 <> []) by (intro Hx; discriminate Hx).
              rewrite Hfin1. rewrite (trim_rk md _ _ Hknil Hne1).
              exact (join2_repr_tail md' _ _ _ Hrepr Hlk Hrest1 Hne1).
        -- cbn [rloop]. rewrite HL, Hk, Hrl. intro E. injection E as E. subst e.
           apply Hres. apply fs_readlink_efuel. exact Hrl.
      * assert (Hk : fi_kind fi <> KLink) by (intro E; rewrite E in Ek; discriminate Ek).
        rewrite (rloop_step_plain s q acc1 g final fi HL Hk).
        destruct rest1 as [|c1 rest2]; [inversion Hacc1; subst; discriminate|].
        destruct acc1 as [|q1 acc2]; [inversion Hacc1|].
        apply (IH (K ++ [c]) md); try assumption.
        discriminate.
    + cbn [rloop]. rewrite HL. destruct (is_not_found e) eqn:Enf; [discriminate|].
      intro E. injection E as E. subst e. apply Hres. apply fs_lstat_efuel. exact HL.
Qed.

(** ** [real_path] on a relative name *)

(** the components of [n] read from the working directory, which is the root
    (leading ".." are clamped there) *)
Definition rcomps (n : str) : list str := comps (sep :: n).

Lemma rcomps_eq : forall n, rcomps n = norm true (split_sep n) [].
Proof.
  intro n. unfold rcomps, comps. cbn [is_abs]. rewrite eqb_sep_sep.
  change (split_sep (sep :: n)) with ([] :: split_sep n). rewrite norm_cons.
  change (str_eqb [] [] || str_eqb [] s_dot) with true. reflexivity.
Qed.

Lemma rcomps_pg : forall n, Forall pg (rcomps n).
Proof. intro n. apply comps_abs_pg. cbn [is_abs]. apply eqb_sep_sep. Qed.

Lemma rcomps_abs : forall n, is_abs n = true -> rcomps n = comps n.
Proof. intros n H. rewrite rcomps_eq. unfold comps. rewrite H. reflexivity. Qed.

Lemma rel_comps_shape : forall n, is_abs n = false -> exists j0, comps n = dds j0 ++ rcomps n.
Proof.
  intros n H. unfold comps. rewrite H.
  destruct (norm_rel_rooted (split_sep n) [] 0 (split_sep_nosep n) (Forall_nil _)) as [j E].
  exists j. rewrite rcomps_eq. exact E.
Qed.

Lemma clean_sep_abs : forall p, abs_cleaned p -> clean (sep :: p) = p.
Proof.
  intros p Hac. unfold clean. fold (rcomps p). rewrite (rcomps_abs p (proj2 Hac)).
  cbn [is_abs]. rewrite eqb_sep_sep. apply (kpath_comps p Hac).
Qed.

(** a result string in either mode, read from the root, is the path of its key *)
Lemma clean_sep_rk : forall md K, Forall pg K -> clean (sep :: rk md K) = kpath K.
Proof.
  intros md K HK. unfold clean. fold (rcomps (rk md K)). cbn [is_abs]. rewrite eqb_sep_sep.
  unfold kpath. f_equal. rewrite rcomps_eq. destruct md as [j|]; cbn [rk].
  - destruct (nil_dec _ (dds j ++ K)) as [E|Hne].
    + rewrite E. apply app_eq_nil in E. destruct E as [_ E]. subst K. reflexivity.
    + rewrite render_rel_nonnil by exact Hne.
      rewrite split_join; [| exact Hne | apply Forall_good_nosep; apply Forall_good_dds_pg; exact HK].
      rewrite norm_true_dds. apply (norm_pg true K [] HK).
  - unfold kpath. rewrite render_abs.
    change (split_sep (sep :: join_sep K)) with ([] :: split_sep (join_sep K)).
    rewrite norm_cons. change (str_eqb [] [] || str_eqb [] s_dot) with true. cbv iota.
    destruct (nil_dec _ K) as [E|Hne]; [subst K; reflexivity|].
    rewrite split_join; [| exact Hne | apply Forall_good_nosep; exact (proj1 (Forall_pg_good K HK))].
    apply (norm_pg true K [] HK).
Qed.

Lemma prefixes_from_app2 : forall (A : Type) (a b acc : list A),
  prefixes_from acc (a ++ b) = prefixes_from acc a ++ prefixes_from (acc ++ a) b.
Proof.
  intros A a. induction a as [|x a IH]; intros b acc; cbn [app prefixes_from].
  - rewrite app_nil_r. reflexivity.
  - f_equal. rewrite IH. rewrite <- app_assoc. reflexivity.
Qed.

(** candidates that are directories are passed over *)
Lemma rloop_skip : forall s A B g final,
  (forall x, In x A -> exists fi, fs_lstat s (g x) = Ok fi /\ fi_kind fi <> KLink) ->
  B <> [] ->
  rloop s (A ++ B) g final = rloop s B g final /\
  through_link s (A ++ B) g = through_link s B g.
Proof.
  intros s A B g final. induction A as [|a A IH]; intros HA HB.
  - split; reflexivity.
  - destruct (HA a (or_introl eq_refl)) as (fi & HL & Hk). cbn [app].
    rewrite (rloop_step_plain s a (A ++ B) g final fi HL Hk).
    rewrite (through_link_step_plain s a (A ++ B) g fi HL Hk).
    destruct (IH (fun x Hx => HA x (or_intror Hx)) HB) as [E1 E2].
    split; [|exact E2].
    destruct (A ++ B) as [|y r] eqn:E; [|exact E1].
    apply app_eq_nil in E. contradiction (HB (proj2 E)).
Qed.

(** "." and "..", "../..", ... are the root directory *)
Lemma lstat_dds : forall s i, wf (st_fs s) ->
  exists fi, fs_lstat s (render false (dds i)) = Ok fi /\ fi_kind fi = KDir.
Proof.
  intros s i [[m Hm] _].
  assert (Hres : resolve (st_fs s) (render false (dds i)) false = WFound [] (Dir m)).
  { pose proof walk_fuel_eq as Hf. destruct i as [|i].
    - cbn [repeat render]. unfold resolve. change (split_sep s_dot) with [s_dot].
      change (length s_dot) with 1. rewrite Nat.add_1_r. rewrite walk_trivial by reflexivity.
      destruct walk_fuel as [|F]; [discriminate Hf|]. rewrite walk_nil. norm_keys. rewrite Hm. reflexivity.
    - assert (Hne : dds (S i) <> []) by (cbn [repeat]; discriminate).
      assert (Hg : Forall good_comp (dds (S i))).
      { pose proof (Forall_good_dds_pg (S i) [] (Forall_nil _)) as H. rewrite app_nil_r in H. exact H. }
      rewrite render_rel_nonnil by exact Hne. unfold resolve.
      pose proof (join_sep_nonempty _ Hg Hne) as Hjn.
      destruct (join_sep (dds (S i))) as [|x p] eqn:E; [contradiction Hjn; reflexivity|].
      rewrite <- E. rewrite split_join by (try exact Hne; apply Forall_good_nosep; exact Hg).
      pose proof (join_sep_dds_length (S i) []) as Hl. rewrite app_nil_r in Hl.
      change (length (join_sep [])) with 0 in Hl.
      replace (walk_fuel + length (join_sep (dds (S i))))
        with (S i + S (walk_fuel + length (join_sep (dds (S i))) - S i - 1)) by lia.
      rewrite <- (app_nil_r (dds (S i))) at 2. rewrite walk_dds_root.
      rewrite walk_nil. norm_keys. rewrite Hm. reflexivity. }
  eexists. split; [exact (fs_lstat_of_found s _ _ _ Hres) | reflexivity].
Qed.

Lemma dds_prefix_lstat : forall s j x,
  wf (st_fs s) -> In x (map (render false) (prefixes_from [] (dds j))) ->
  exists fi, fs_lstat s x = Ok fi /\ fi_kind fi <> KLink.
Proof.
  intros s j x Hwf Hin. apply in_map_iff in Hin. destruct Hin as (y & Ex & Hy).
  apply in_prefixes in Hy. destruct Hy as [_ [l2 E]].
  apply repeat_eq_app in E. destruct E as [E _]. rewrite <- E in Ex. subst x.
  destruct (lstat_dds s (length y) Hwf) as (fi & HL & Hk).
  exists fi. split; [exact HL | rewrite Hk; discriminate].
Qed.

Section RelPath.
  Variable s : fstate.
  Notation f := (st_fs s).
  Variable n : str.
  Hypothesis Hwf : wf f.
  Hypothesis Hrel : is_abs n = false.
  Variable j0 : nat.
  Hypothesis Hshape : comps n = dds j0 ++ rcomps n.

  Lemma clean_rel_rk : clean n = rk (Some j0) (rcomps n).
  Proof. unfold clean. rewrite Hrel, Hshape. reflexivity. Qed.

  (** the name consists of "." / ".." only: it is its own result *)
  Lemma rpath_rel_nocomps : rcomps n = [] -> rpath s n = Ok (clean n).
  Proof.
    intro E. unfold rpath. rewrite clean_rel_rk, E. cbn [rk]. rewrite app_nil_r.
    assert (Hg : Forall good_comp (dds j0)).
    { pose proof (Forall_good_dds_pg j0 [] (Forall_nil _)) as H. rewrite app_nil_r in H. exact H. }
    rewrite (cands_render false _ Hg).
    destruct j0 as [|j].
    - cbn [repeat pchain render].
      destruct (lstat_dds s 0 Hwf) as (fi & HL & Hk). cbn [repeat render] in HL.
      rewrite (rloop_step_plain s s_dot [] (fun x => x) s_dot fi HL) by (rewrite Hk; discriminate).
      reflexivity.
    - rewrite pchain_rel by (cbn [repeat]; discriminate).
      replace (dds (S j)) with (dds j ++ [s_dotdot]) by (symmetry; apply repeat_cons).
      rewrite prefixes_from_app2, map_app. cbn [app prefixes_from map].
      destruct (rloop_skip s (map (render false) (prefixes_from [] (dds j)))
                  [render false (dds j ++ [s_dotdot])] (fun x => x)
                  (render false (dds j ++ [s_dotdot]))
                  (fun x Hx => dds_prefix_lstat s j x Hwf Hx) ltac:(discriminate)) as [Er _].
      rewrite Er.
      destruct (lstat_dds s (S j) Hwf) as (fi & HL & Hk).
      replace (dds (S j)) with (dds j ++ [s_dotdot]) in HL by (symmetry; apply repeat_cons).
      rewrite (rloop_step_plain s _ [] (fun x => x) _ fi HL) by (rewrite Hk; discriminate).
      reflexivity.
  Qed.

  (** the loop after the leading ".." candidates *)
  Lemma rpath_rel_unfold : rcomps n <> [] ->
    rpath s n = match rloop s (map (rk (Some j0)) (prefixes_from [] (rcomps n))) (fun x => x)
                        (rk (Some j0) (rcomps n)) with
                | Ok a => Ok (fst a) | Err e => Err e end /\
    through_link s (cands (clean n)) (fun x => x) =
    through_link s (map (rk (Some j0)) (prefixes_from [] (rcomps n))) (fun x => x).
  Proof.
    intro Hne. unfold rpath. rewrite clean_rel_rk.
    assert (Ec : cands (rk (Some j0) (rcomps n)) =
                 map (render false) (prefixes_from [] (dds j0)) ++
                 map (rk (Some j0)) (prefixes_from [] (rcomps n))).
    { cbn [rk]. rewrite (cands_render false _ (Forall_good_dds_pg j0 _ (rcomps_pg n))).
      rewrite pchain_rel by (apply dds_app_nonnil; exact Hne).
      rewrite prefixes_from_app2, map_app. cbn [app].
      rewrite (prefixes_from_app _ (rcomps n) (dds j0)), map_map. reflexivity. }
    rewrite Ec.
    assert (HB : map (rk (Some j0)) (prefixes_from [] (rcomps n)) <> []).
    { destruct (rcomps n) as [|c cs]; [contradiction Hne; reflexivity|].
      rewrite prefixes_from_nil_cons. discriminate. }
    destruct (rloop_skip s _ _ (fun x => x) (rk (Some j0) (rcomps n))
                (fun x Hx => dds_prefix_lstat s j0 x Hwf Hx) HB) as [Er Et].
    rewrite Er, Et. split; reflexivity.
  Qed.

  Hypothesis Htc : targets_clean f.
  Hypothesis Htl : through_link s (cands (clean n)) (fun x => x) = false.

  Lemma rpath_rel_post : rcomps n <> [] ->
    exists md K, rpath s n = Ok (rk md K) /\ Forall pg K /\ K <> [] /\
                 post s [] (rcomps n) (kpath K).
  Proof.
    intro Hne. destruct (rpath_rel_unfold Hne) as [Er Et]. rewrite Et in Htl.
    destruct (rloop_inv_g s Hwf Htc (rk (Some j0) (rcomps n))
                (rcomps n) [] (Some j0) (map (rk (Some j0)) (prefixes_from [] (rcomps n))) (fun x => x)
                Hne (rcomps_pg n) (Forall_nil _) (NL_root s Hwf))
      as (md & K & o & E & HK & HKne & Hp).
    - apply Forall2_map_same.
    - reflexivity.
    - exact Htl.
    - exists md, K. rewrite Er, E. repeat split; assumption.
  Qed.

  Lemma rpath_rel_total : exists rp, rpath s n = Ok rp.
  Proof.
    destruct (nil_dec _ (rcomps n)) as [E|E].
    - eexists. apply rpath_rel_nocomps. exact E.
    - destruct (rpath_rel_post E) as (md & K & Er & _). eexists. exact Er.
  Qed.

  Variable rp : str.
  Hypothesis Hrp : rpath s n = Ok rp.

  Lemma rel_result : rcomps n <> [] ->
    exists md K, rp = rk md K /\ Forall pg K /\ K <> [] /\ post s [] (rcomps n) (kpath K).
  Proof.
    intro Hne. destruct (rpath_rel_post Hne) as (md & K & Er & H). rewrite Hrp in Er.
    injection Er as Er. exists md, K. split; [exact Er | exact H].
  Qed.

  Lemma rel_result_nocomps : rcomps n = [] -> rp = rk (Some j0) [].
  Proof.
    intro E. pose proof (rpath_rel_nocomps E) as Er. rewrite Hrp in Er. injection Er as Er.
    rewrite Er, clean_rel_rk, E. reflexivity.
  Qed.

  (** the result is cleaned; read from the root it is absolute, cleaned and
      has no symlink among its proper ancestors *)
  Lemma rpath_rel_nolinkpar : cleaned rp /\ nolinkpar f (clean (sep :: rp)).
  Proof.
    destruct (nil_dec _ (rcomps n)) as [E|Hne].
    - rewrite (rel_result_nocomps E). split; [apply rk_cleaned; constructor|].
      rewrite (clean_sep_rk _ [] (Forall_nil _)).
      split; [apply kpath_pg_abs_cleaned; constructor|].
      change (comps (kpath [])) with (@nil str). constructor.
    - destruct (rel_result Hne) as (md & K & Erp & HK & HKne & Hp). subst rp.
      split; [apply rk_cleaned; exact HK|].
      rewrite (clean_sep_rk md K HK).
      exact (post_nolinkpar s Hwf (rcomps n) (rcomps_pg n) _ Hp).
  Qed.

  (** the result names the entry the caller's name names under OS semantics *)
  Lemma rpath_rel_same_entry :
    definite (resolve f (clean n) false) ->
    resolve f rp false = resolve f (clean n) false.
  Proof.
    intro Hdef. destruct (nil_dec _ (rcomps n)) as [E|Hne].
    - rewrite (rel_result_nocomps E), clean_rel_rk, E. reflexivity.
    - destruct (rel_result Hne) as (md & K & Erp & HK & HKne & Hp). subst rp.
      rewrite clean_rel_rk in *.
      pose proof (resolve_rk_walks f (Some j0) _ false (rcomps_pg n) Hne Hdef) as Hw.
      pose proof (post_same_entry s Hwf (rcomps n) (rcomps_pg n) _ Hp _ Hw) as Hs.
      rewrite <- Hs. apply resolve_rk; try assumption. rewrite Hs. exact Hdef.
  Qed.

  Lemma rpath_rel_final_unresolved : forall dcs b kd m,
    rcomps n = dcs ++ [b] ->
    resolve f (kpath dcs) true = WFound kd (Dir m) ->
    clean (sep :: rp) = kpath (kd ++ [b]).
  Proof.
    intros dcs b kd m Ecs Hres.
    assert (Hne : rcomps n <> []) by (rewrite Ecs; intro E0; apply app_eq_nil in E0; destruct E0 as [_ E0]; discriminate E0).
    destruct (rel_result Hne) as (md & K & Erp & HK & HKne & Hp). subst rp.
    rewrite (clean_sep_rk md K HK).
    exact (post_final_unresolved s (rcomps n) (rcomps_pg n) _ Hp dcs b kd m Ecs Hres).
  Qed.

  Lemma rpath_rel_missing_tail : forall done c tail kd m,
    rcomps n = done ++ c :: tail ->
    resolve f (kpath done) true = WFound kd (Dir m) ->
    f !! (kd ++ [c]) = None ->
    clean (sep :: rp) = kpath (kd ++ c :: tail).
  Proof.
    intros done c tail kd m Ecs Hres Habsent.
    assert (Hne : rcomps n <> []) by (rewrite Ecs; intro E0; apply app_eq_nil in E0; destruct E0 as [_ E0]; discriminate E0).
    destruct (rel_result Hne) as (md & K & Erp & HK & HKne & Hp). subst rp.
    rewrite (clean_sep_rk md K HK).
    exact (post_missing_tail s (rcomps n) (rcomps_pg n) _ Hp done c tail kd m Ecs Hres Habsent).
  Qed.

  Lemma rpath_rel_lexical_tail : rcomps n <> [] ->
    exists done tail k',
      rcomps n = done ++ tail /\ tail <> [] /\ clean (sep :: rp) = kpath (k' ++ tail) /\
      NL f k' /\
      (length tail = 1 \/ f !! (k' ++ firstn 1 tail) = None) /\
      (forall X fl r, (X <> [] \/ fl = true) ->
         walks f [] (done ++ X) fl r -> walks f [] (k' ++ X) fl r).
  Proof.
    intro Hne. destruct (rel_result Hne) as (md & K & Erp & HK & HKne & Hp). subst rp.
    rewrite (clean_sep_rk md K HK).
    exact (post_lexical_tail s (rcomps n) _ Hp).
  Qed.
End RelPath.

Lemma rpath_rel_no_efuel : forall s n T,
  wf (st_fs s) -> is_abs n = false -> links_bounded (st_fs s) T ->
  40 * T + 2 <= walk_fuel ->
  rpath s n <> Err EFUEL.
Proof.
  intros s n T Hwf Hrel HT Hb.
  destruct (rel_comps_shape n Hrel) as [j0 Hs].
  destruct (nil_dec _ (rcomps n)) as [E|Hne].
  - rewrite (rpath_rel_nocomps s n Hwf Hrel j0 Hs E). discriminate.
  - destruct (rpath_rel_unfold s n Hwf Hrel j0 Hs Hne) as [Er _]. rewrite Er.
    pose proof (rloop_no_efuel_g s T (rk (Some j0) (rcomps n)) (rcomps n) [] (Some j0)
                  (map (rk (Some j0)) (prefixes_from [] (rcomps n))) (fun x => x) HT Hne
                  (rcomps_pg n) (Forall_nil _) (Forall2_map_same _ _ _ _) eq_refl
                  Hb) as H.
    destruct (rloop s _ _ _) as [a|e]; [discriminate|]. intro E. injection E as E. subst e. apply H. reflexivity.
Qed.

(** ** the statements on worlds, for every name (absolute or relative) *)

(** T1 (c) without the absoluteness hypothesis *)
Theorem real_path_any_no_efuel : forall n w T,
  wf (st_fs (w_st w)) -> links_bounded (st_fs (w_st w)) T ->
  40 * T + 2 <= walk_fuel ->
  fst (real_path osfs n w) <> MErr EFUEL.
Proof.
  intros n w T Hwf HT Hb. destruct (is_abs n) eqn:Ha.
  - exact (real_path_no_efuel n w T Hwf Ha HT Hb).
  - rewrite real_path_osfs. unfold res_to_m. cbn [fst].
    pose proof (rpath_rel_no_efuel (w_st w) n T Hwf Ha HT Hb) as H.
    destruct (rpath (w_st w) n) as [a|e]; [discriminate|]. intro E. injection E as E. subst e. apply H. reflexivity.
Qed.

(** the hypotheses of T2 without the exclusion of D20 *)
Record c16_rel_hyps (q n : str) (w : world) : Prop := {
  hr_wf : wf (st_fs (w_st w));
  hr_d17 : resolve_through_link (plain_cfg q) (cands (clean n)) (fun x => x) w = false;
  hr_k2 : unclean_target w = false }.

Definition c16_rel_hypsb (q n : str) (w : world) : bool :=
  wfb (st_fs (w_st w)) &&
  negb (resolve_through_link (plain_cfg q) (cands (clean n)) (fun x => x) w) &&
  negb (unclean_target w).

Lemma c16_rel_hypsb_ok : forall q n w, c16_rel_hypsb q n w = true -> c16_rel_hyps q n w.
Proof.
  intros q n w H. unfold c16_rel_hypsb in H.
  apply andb_true_iff in H. destruct H as [H H3].
  apply andb_true_iff in H. destruct H as [H1 H2].
  constructor.
  - apply wfb_ok. exact H1.
  - apply negb_true_iff. exact H2.
  - apply negb_true_iff. exact H3.
Qed.

Lemma c16_rel_hyps_of_abs : forall q n w, c16_hyps q n w -> c16_rel_hyps q n w.
Proof. intros q n w [H1 _ H3 H4]. constructor; assumption. Qed.

Lemma c16_hyps_of_rel : forall q n w, c16_rel_hyps q n w -> is_abs n = true -> c16_hyps q n w.
Proof.
  intros q n w [H1 H2 H3] Ha. constructor; try assumption. rewrite is_abs_clean. exact Ha.
Qed.

Section StatementsAny.
  Variables (q n : str) (w : world).
  Hypothesis H : c16_rel_hyps q n w.
  Notation f := (st_fs (w_st w)).

  Let Hwf : wf f := hr_wf _ _ _ H.
  Let Htc : targets_clean f := targets_clean_of_flag w (hr_k2 _ _ _ H).
  Let Htl : through_link (w_st w) (cands (clean n)) (fun x => x) = false.
  Proof. rewrite <- (resolve_through_link_osfs q). exact (hr_d17 _ _ _ H). Qed.

  Theorem real_path_any_succeeds : exists rp, real_path osfs n w = (MOk rp, w).
  Proof.
    destruct (is_abs n) eqn:Ha.
    - exact (real_path_succeeds q n w (c16_hyps_of_rel q n w H Ha)).
    - destruct (rel_comps_shape n Ha) as [j0 Hs].
      destruct (rpath_rel_total (w_st w) n Hwf Ha j0 Hs Htc Htl) as [rp E].
      exists rp. rewrite real_path_osfs, E. reflexivity.
  Qed.

  Variable rp : str.
  Hypothesis Hrp : fst (real_path osfs n w) = MOk rp.
  Let Hrp' : rpath (w_st w) n = Ok rp := proj1 (real_path_ok_iff n w rp) Hrp.

  (** the result is cleaned and, read from the working directory (the root),
      has no symlink among its proper ancestors *)
  Theorem real_path_any_nolinkpar : cleaned rp /\ nolinkpar f (clean (sep :: rp)).
  Proof.
    destruct (is_abs n) eqn:Ha.
    - pose proof (real_path_nolinkpar q n w (c16_hyps_of_rel q n w H Ha) rp Hrp) as Hn.
      rewrite (clean_sep_abs rp (proj1 Hn)). split; [exact (proj1 (proj1 Hn)) | exact Hn].
    - destruct (rel_comps_shape n Ha) as [j0 Hs].
      exact (rpath_rel_nolinkpar (w_st w) n Hwf Ha j0 Hs Htc Htl rp Hrp').
  Qed.

  Theorem real_path_any_same_entry :
    definite (resolve f (clean n) false) ->
    resolve f rp false = resolve f (clean n) false.
  Proof.
    destruct (is_abs n) eqn:Ha.
    - exact (real_path_same_entry q n w (c16_hyps_of_rel q n w H Ha) rp Hrp).
    - destruct (rel_comps_shape n Ha) as [j0 Hs].
      exact (rpath_rel_same_entry (w_st w) n Hwf Ha j0 Hs Htc Htl rp Hrp').
  Qed.

  Theorem real_path_any_same_entry_bounded : forall T,
    links_bounded f T -> 40 * T + 2 <= walk_fuel ->
    resolve f (clean n) false <> WErr ELOOP ->
    resolve f rp false = resolve f (clean n) false.
  Proof.
    intros T HT Hb Hloop. apply real_path_any_same_entry. split; [|exact Hloop].
    exact (resolve_no_efuel f _ false T HT Hb).
  Qed.

  Theorem real_path_any_final_unresolved : forall dcs b kd m,
    rcomps n = dcs ++ [b] ->
    resolve f (kpath dcs) true = WFound kd (Dir m) ->
    clean (sep :: rp) = kpath (kd ++ [b]).
  Proof.
    destruct (is_abs n) eqn:Ha.
    - intros dcs b kd m Ecs Hres. rewrite (rcomps_abs n Ha) in Ecs.
      pose proof (c16_hyps_of_rel q n w H Ha) as H'.
      rewrite (clean_sep_abs rp (proj1 (real_path_nolinkpar q n w H' rp Hrp))).
      exact (real_path_final_unresolved q n w H' rp Hrp dcs b kd m Ecs Hres).
    - destruct (rel_comps_shape n Ha) as [j0 Hs].
      exact (rpath_rel_final_unresolved (w_st w) n Hwf Ha j0 Hs Htc Htl rp Hrp').
  Qed.

  Theorem real_path_any_missing_tail : forall done c tail kd m,
    rcomps n = done ++ c :: tail ->
    resolve f (kpath done) true = WFound kd (Dir m) ->
    f !! (kd ++ [c]) = None ->
    clean (sep :: rp) = kpath (kd ++ c :: tail).
  Proof.
    destruct (is_abs n) eqn:Ha.
    - intros done c tail kd m Ecs Hres Habsent. rewrite (rcomps_abs n Ha) in Ecs.
      pose proof (c16_hyps_of_rel q n w H Ha) as H'.
      rewrite (clean_sep_abs rp (proj1 (real_path_nolinkpar q n w H' rp Hrp))).
      exact (real_path_missing_tail q n w H' rp Hrp done c tail kd m Ecs Hres Habsent).
    - destruct (rel_comps_shape n Ha) as [j0 Hs].
      exact (rpath_rel_missing_tail (w_st w) n Hwf Ha j0 Hs Htc Htl rp Hrp').
  Qed.

  Theorem real_path_any_lexical_tail : rcomps n <> [] ->
    exists done tail k',
      rcomps n = done ++ tail /\ tail <> [] /\ clean (sep :: rp) = kpath (k' ++ tail) /\
      NL f k' /\
      (length tail = 1 \/ f !! (k' ++ firstn 1 tail) = None) /\
      (forall X fl r, (X <> [] \/ fl = true) ->
         walks f [] (done ++ X) fl r -> walks f [] (k' ++ X) fl r).
  Proof.
    destruct (is_abs n) eqn:Ha.
    - intro Hne. rewrite (rcomps_abs n Ha) in *.
      pose proof (c16_hyps_of_rel q n w H Ha) as H'.
      rewrite (clean_sep_abs rp (proj1 (real_path_nolinkpar q n w H' rp Hrp))).
      exact (real_path_lexical_tail q n w H' rp Hrp Hne).
    - destruct (rel_comps_shape n Ha) as [j0 Hs].
      exact (rpath_rel_lexical_tail (w_st w) n Hwf Ha j0 Hs Htc Htl rp Hrp').
  Qed.
End StatementsAny.

(** T2 (b) for every name, with the hypotheses spelled out *)
Theorem real_path_relative_same_entry : forall q n w rp,
  wf (st_fs (w_st w)) ->
  resolve_through_link (plain_cfg q) (cands (clean n)) (fun x => x) w = false ->
  unclean_target w = false ->
  fst (real_path osfs n w) = MOk rp ->
  definite (resolve (st_fs (w_st w)) (clean n) false) ->
  resolve (st_fs (w_st w)) rp false = resolve (st_fs (w_st w)) (clean n) false.
Proof.
  intros q n w rp H1 H2 H3.
  exact (real_path_any_same_entry q n w (Build_c16_rel_hyps q n w H1 H2 H3) rp).
Qed.

(** the exclusions in terms of the trigger list: no recorded finding other
    than D20 (relative name) applies *)
Lemma c16_rel_hyps_of_triggers : forall q n w,
  wf (st_fs (w_st w)) ->
  (forall t, In t (triggers (plain_cfg q) (ORealPath n) w) -> t = TrRelativeName) ->
  c16_rel_hyps q n w.
Proof.
  intros q n w Hwf H. constructor; [exact Hwf | |].
  - destruct (resolve_through_link (plain_cfg q) (cands (clean n)) (fun x => x) w) eqn:E; [|reflexivity].
    assert (Hin : In TrLinkThroughLink (triggers (plain_cfg q) (ORealPath n) w)).
    { unfold triggers. cbn [follows_final op_paths existsb]. rewrite E, orb_true_r.
      apply in_or_app; right. apply in_or_app; right. apply in_or_app; left. left. reflexivity. }
    specialize (H _ Hin). discriminate H.
  - destruct (unclean_target w) eqn:E; [|reflexivity].
    apply (unclean_target_flag (plain_cfg q)) in E.
    assert (Hin : In TrUncleanLinkTarget (triggers (plain_cfg q) (ORealPath n) w)).
    { unfold triggers. remember (link_flags (plain_cfg q) w) as lf eqn:Elf.
      repeat (apply in_or_app; right). exact E. }
    specialize (H _ Hin). discriminate H.
Qed.

(** ** fixpoints and idempotence for every name *)

Lemma rloop_fix_g : forall s md rest k acc,
  wf (st_fs s) ->
  rest <> [] -> Forall pg rest -> Forall pg k -> NL (st_fs s) k ->
  (forall pre post, rest = pre ++ post -> pre <> [] -> post <> [] -> not_link_at (st_fs s) (k ++ pre)) ->
  Forall2 (fun x pre => x = rk md (k ++ pre)) acc (prefixes_from [] rest) ->
  exists o, rloop s acc (fun x => x) (rk md (k ++ rest)) = Ok (rk md (k ++ rest), o).
Proof.
  intros s md rest. induction rest as [|c rest1 IH]; intros k acc Hwf Hne Hrest Hk Hnl Hmid Hacc.
  - contradiction Hne. reflexivity.
  - inversion Hrest as [|c' r' Hc Hrest1]; subst c' r'.
    rewrite prefixes_from_nil_cons in Hacc.
    inversion Hacc as [|q pre0 acc1 pres Hq Hacc1]; subst.
    apply Forall2_map_r' in Hacc1.
    pose proof (lstat_key_g s md k c Hwf Hk Hc Hnl) as HL.
    set (g := fun x : str => x) in *.
    assert (Hq : g (rk md (k ++ [c])) = rk md (k ++ [c])) by reflexivity.
    remember (rk md (k ++ [c])) as p eqn:Ep.
    destruct (st_fs s !! (k ++ [c])) as [n|] eqn:El.
    + destruct HL as [(fi & HL & Hkind) Hrl]. rewrite <- Hq in HL, Hrl.
      destruct rest1 as [|c1 rest2].
      * inversion Hacc1; subst acc1.
        destruct (match n with Link _ _ => true | _ => false end) eqn:Ekind.
        -- destruct n as [m|m dt|m t]; cbn in Ekind; try discriminate Ekind.
           specialize (Hrl m t eq_refl). cbn [node_kind] in Hkind.
           rewrite (rloop_step_link s p [] g _ _ t HL Hkind Hrl). rewrite Hq, <- Ep. eexists. reflexivity.
        -- assert (Hnk : fi_kind fi <> KLink).
           { rewrite Hkind. destruct n; cbn in Ekind; try discriminate Ekind; cbn; discriminate. }
           rewrite (rloop_step_plain s p [] g _ _ HL Hnk). rewrite Hq, <- Ep. eexists. reflexivity.
      * destruct acc1 as [|q1 acc2]; [inversion Hacc1|].
        assert (Hnlc : not_link_at (st_fs s) (k ++ [c])).
        { apply (Hmid [c] (c1 :: rest2) eq_refl); discriminate. }
        assert (Hnk : fi_kind fi <> KLink).
        { rewrite Hkind. destruct n as [m|m dt|m t]; cbn; try discriminate. exfalso. exact (Hnlc m t El). }
        rewrite (rloop_step_plain s p _ g _ _ HL Hnk).
        replace (k ++ c :: c1 :: rest2) with ((k ++ [c]) ++ c1 :: rest2) by (rewrite <- app_assoc; reflexivity).
        apply IH; try assumption.
        -- discriminate.
        -- apply Forall_app. split; [exact Hk | constructor; [exact Hc | constructor]].
        -- apply NL_snoc; assumption.
        -- intros pre post E Hpre Hpost. rewrite <- app_assoc. apply (Hmid (c :: pre) post); [rewrite E; reflexivity | discriminate | exact Hpost].
        -- eapply Forall2_impl_In_r; [|exact Hacc1]. intros x y _ E. cbv beta in E.
           rewrite E, <- app_assoc. reflexivity.
    + destruct HL as (e & HLe & Hnf). rewrite <- Hq in HLe.
      rewrite (rloop_step_notfound s p acc1 g _ e HLe Hnf). eexists. reflexivity.
Qed.

Lemma rcomps_rk : forall md K, Forall pg K -> rcomps (rk md K) = K.
Proof.
  intros md K HK. pose proof (clean_sep_rk md K HK) as E.
  unfold rcomps. rewrite <- (comps_clean (sep :: rk md K)), E. apply comps_kpath_pg. exact HK.
Qed.

(** a relative string without a symlink among the ancestors of its key is a fixpoint *)
Lemma rpath_fix_rel : forall s j K,
  wf (st_fs s) -> Forall pg K -> nolinkpar (st_fs s) (kpath K) ->
  rpath s (rk (Some j) K) = Ok (rk (Some j) K).
Proof.
  intros s j K Hwf HK [_ Hnl]. rewrite (comps_kpath_pg K HK) in Hnl.
  set (n := rk (Some j) K).
  assert (Hrel : is_abs n = false) by exact (is_abs_rel_render j K HK).
  assert (Hrc : rcomps n = K) by exact (rcomps_rk (Some j) K HK).
  assert (Hs : comps n = dds j ++ rcomps n) by (rewrite Hrc; exact (comps_rel_render j K HK)).
  assert (Hcl : clean n = n) by exact (cleaned_rel_render j K HK).
  destruct (nil_dec _ K) as [E|Hne].
  - rewrite (rpath_rel_nocomps s n Hwf Hrel j Hs); [rewrite Hcl; reflexivity | rewrite Hrc; exact E].
  - destruct (rpath_rel_unfold s n Hwf Hrel j Hs) as [Er _]; [rewrite Hrc; exact Hne|].
    rewrite Er, Hrc.
    destruct (rloop_fix_g s (Some j) K [] (map (rk (Some j)) (prefixes_from [] K)) Hwf Hne
                HK (Forall_nil _) (NL_root s Hwf)) as [o Eo].
    + intros pre post E _ Hpost. cbn [app].
      exact (proj1 (Forall_kprefixes _ _) Hnl pre post Hpost E).
    + apply Forall2_map_same.
    + cbn [app] in Eo. rewrite Eo. reflexivity.
Qed.

(** T3 for every name: a cleaned name which, read from the working directory
    (the root), has no symlink among its proper ancestors resolves to itself *)
Theorem real_path_any_fixpoint : forall p w,
  wf (st_fs (w_st w)) -> cleaned p -> nolinkpar (st_fs (w_st w)) (clean (sep :: p)) ->
  real_path osfs p w = (MOk p, w).
Proof.
  intros p w Hwf Hcl Hnlp. destruct (is_abs p) eqn:Ha.
  - rewrite (clean_sep_abs p (conj Hcl Ha)) in Hnlp. exact (real_path_fixpoint p w Hwf Hnlp).
  - pose proof (cleaned_eq p Hcl) as Ep. rewrite Ha in Ep.
    pose proof (comps_normal p) as Hn. rewrite Ha in Hn.
    destruct (normal_rel_shape _ Hn) as (j & K & Esh & HK).
    rewrite Esh in Ep. change (render false (dds j ++ K)) with (rk (Some j) K) in Ep.
    rewrite Ep in *. rewrite (clean_sep_rk (Some j) K HK) in Hnlp.
    rewrite real_path_osfs, (rpath_fix_rel (w_st w) j K Hwf HK Hnlp). reflexivity.
Qed.

Theorem real_path_any_idempotent : forall q n w rp,
  c16_rel_hyps q n w -> fst (real_path osfs n w) = MOk rp ->
  real_path osfs rp w = (MOk rp, w).
Proof.
  intros q n w rp H Hrp.
  destruct (real_path_any_nolinkpar q n w H rp Hrp) as [Hcl Hnlp].
  exact (real_path_any_fixpoint rp w (hr_wf _ _ _ H) Hcl Hnlp).
Qed.

(* ------------------------------------------------------------------ *)
(** * L. T4: the hypotheses are satisfiable, and each exclusion is necessary *)

Local Open Scope N_scope.

Definition xq : str := [47;98;107].                       (* "/bk": the (irrelevant) backup prefix *)
Definition xD (w : world) (p : str) : world := init_dir w p 493 0 0 1.
Definition xF (w : world) (p : str) : world := init_file w p 420 0 0 1 [104].
Definition xL (w : world) (p t : str) : world := init_link w p 0 0 1 t.

(** { /d/, /d/e/, /d/e/f, /a -> /d, /d/r -> e }, name "/a/r/f": an absolute
    link and a relative link, both in parent positions *)
Definition w_sat : world :=
  xL (xL (xF (xD (xD init_world [47;100]) [47;100;47;101]) [47;100;47;101;47;102])
         [47;97] [47;100]) [47;100;47;114] [101].
Definition n_sat : str := [47;97;47;114;47;102].
Definition rp_sat : str := [47;100;47;101;47;102].         (* "/d/e/f" *)

Example sat_hyps : c16_hypsb xq n_sat w_sat = true.
Proof. vm_compute. reflexivity. Qed.

Example sat_result : fst (real_path osfs n_sat w_sat) = MOk rp_sat /\ rp_sat <> clean n_sat.
Proof. split; [vm_compute; reflexivity | intro H; vm_compute in H; discriminate H]. Qed.

Example sat_conclusions :
  nolinkpar (st_fs (w_st w_sat)) rp_sat /\
  resolve (st_fs (w_st w_sat)) rp_sat false = resolve (st_fs (w_st w_sat)) (clean n_sat) false /\
  real_path osfs rp_sat w_sat = (MOk rp_sat, w_sat).
Proof.
  pose proof (c16_hypsb_ok _ _ _ sat_hyps) as H. split; [|split].
  - exact (real_path_nolinkpar xq n_sat w_sat H rp_sat (proj1 sat_result)).
  - apply (real_path_same_entry xq n_sat w_sat H rp_sat (proj1 sat_result)).
    vm_compute. split; discriminate.
  - exact (real_path_idempotent xq n_sat w_sat rp_sat H (proj1 sat_result)).
Qed.

(** D17 is necessary.  { /d/, /d/c/, /d/c/x, /b -> /d, /a -> /b/c }, name
    "/a/x": the target of /a runs through the link /b; the result "/b/c/x"
    keeps the symlink /b among its parents *)
Definition w_d17 : world :=
  xL (xL (xF (xD (xD init_world [47;100]) [47;100;47;99]) [47;100;47;99;47;120])
         [47;98] [47;100]) [47;97] [47;98;47;99].
Definition n_d17 : str := [47;97;47;120].
Definition rp_d17 : str := [47;98;47;99;47;120].

Example d17_necessary :
  wfb (st_fs (w_st w_d17)) = true /\ size_okb (st_fs (w_st w_d17)) (length (comps n_d17)) = true /\
  is_abs (clean n_d17) = true /\ unclean_target w_d17 = false /\
  resolve_through_link (plain_cfg xq) (cands (clean n_d17)) (fun x => x) w_d17 = true /\
  fst (real_path osfs n_d17 w_d17) = MOk rp_d17 /\
  ~ nolinkpar (st_fs (w_st w_d17)) rp_d17.
Proof.
  repeat (split; [vm_compute; reflexivity|]).
  intros [_ Hf]. rewrite List.Forall_forall in Hf.
  assert (Hin : In [[98]] (kprefixes (comps rp_d17))) by (vm_compute; right; left; reflexivity).
  eapply (Hf _ Hin). vm_compute. reflexivity.
Qed.

(** K2 is necessary.  { /d/, /d/y, /l -> /x/../d }, name "/l/y": the kernel
    fails with ENOENT (there is no /x), the lexical join yields "/d/y" *)
Definition w_k2 : world :=
  xL (xF (xD init_world [47;100]) [47;100;47;121]) [47;108] [47;120;47;46;46;47;100].
Definition n_k2 : str := [47;108;47;121].
Definition rp_k2 : str := [47;100;47;121].

Example k2_necessary :
  wfb (st_fs (w_st w_k2)) = true /\ size_okb (st_fs (w_st w_k2)) (length (comps n_k2)) = true /\
  is_abs (clean n_k2) = true /\
  resolve_through_link (plain_cfg xq) (cands (clean n_k2)) (fun x => x) w_k2 = false /\
  unclean_target w_k2 = true /\
  fst (real_path osfs n_k2 w_k2) = MOk rp_k2 /\
  resolve (st_fs (w_st w_k2)) (clean n_k2) false = WErr ENOENT /\
  exists m c, resolve (st_fs (w_st w_k2)) rp_k2 false = WFound [[100];[121]] (File m c).
Proof.
  repeat (split; [vm_compute; reflexivity|]).
  eexists _, _. vm_compute. reflexivity.
Qed.

(** D20 is necessary.  { /d/, /d/y, /r -> d }, name "r/y": the result "d/y"
    is not absolute *)
Definition w_d20 : world := xL (xF (xD init_world [47;100]) [47;100;47;121]) [47;114] [100].
Definition n_d20 : str := [114;47;121].
Definition rp_d20 : str := [100;47;121].

Example d20_necessary :
  wfb (st_fs (w_st w_d20)) = true /\ size_okb (st_fs (w_st w_d20)) (length (comps n_d20)) = true /\
  resolve_through_link (plain_cfg xq) (cands (clean n_d20)) (fun x => x) w_d20 = false /\
  unclean_target w_d20 = false /\
  is_abs (clean n_d20) = false /\
  fst (real_path osfs n_d20 w_d20) = MOk rp_d20 /\
  ~ nolinkpar (st_fs (w_st w_d20)) rp_d20.
Proof.
  repeat (split; [vm_compute; reflexivity|]).
  intros [[_ Ha] _]. vm_compute in Ha. discriminate Ha.
Qed.

(** FINDING (not covered by a trigger of Backup/Triggers.v): more than 40
    symlinks on the way.  { /d/, /d/x, /d/l -> /d }, name "/d/l/l/.../l/x" with
    41 times "/l": every hypothesis of T2 holds, the kernel answers ELOOP for
    the caller's name, BackupFS operates on the existing file "/d/x".  This is
    why T2 (b) carries the hypothesis [definite]. *)
Definition w_loop : world := xL (xF (xD init_world [47;100]) [47;100;47;120]) [47;100;47;108] [47;100].
Definition n_loop : str := [47;100] ++ concat (repeat [47;108] 41) ++ [47;120].
Definition rp_loop : str := [47;100;47;120].

Example eloop_finding :
  c16_hypsb xq n_loop w_loop = true /\
  fst (real_path osfs n_loop w_loop) = MOk rp_loop /\
  resolve (st_fs (w_st w_loop)) (clean n_loop) false = WErr ELOOP /\
  exists m c, resolve (st_fs (w_st w_loop)) rp_loop false = WFound [[100];[120]] (File m c).
Proof.
  repeat (split; [vm_compute; reflexivity|]).
  eexists _, _. vm_compute. reflexivity.
Qed.

(** K3 (a relative target climbing above the root) and K4 (a dangling link
    in a parent position) need not be excluded for C16 over the plain OS
    filesystem: worlds flagged by them satisfy the hypotheses of T2.
    { /d/, /d/x, /d/c -> ../../d }, name "/d/c/x";  { /g -> /n }, name "/g/x" *)
Definition w_k3 : world := xL (xF (xD init_world [47;100]) [47;100;47;120]) [47;100;47;99] [46;46;47;46;46;47;100].
Definition n_k3 : str := [47;100;47;99;47;120].
Definition w_k4 : world := xL init_world [47;103] [47;110].
Definition n_k4 : str := [47;103;47;120].

Example k3_not_needed :
  In TrClimbingLink (link_flags (plain_cfg xq) w_k3) /\ c16_hypsb xq n_k3 w_k3 = true /\
  fst (real_path osfs n_k3 w_k3) = MOk [47;100;47;120] /\
  resolve (st_fs (w_st w_k3)) [47;100;47;120] false = resolve (st_fs (w_st w_k3)) (clean n_k3) false.
Proof.
  split; [vm_compute; left; reflexivity|].
  split; [vm_compute; reflexivity|]. split; vm_compute; reflexivity.
Qed.

Example k4_not_needed :
  dangling_parent (plain_cfg xq) n_k4 w_k4 = true /\ c16_hypsb xq n_k4 w_k4 = true /\
  fst (real_path osfs n_k4 w_k4) = MOk [47;110;47;120] /\
  resolve (st_fs (w_st w_k4)) [47;110;47;120] false = resolve (st_fs (w_st w_k4)) (clean n_k4) false.
Proof.
  split; [vm_compute; reflexivity|].
  split; [vm_compute; reflexivity|]. split; vm_compute; reflexivity.
Qed.

(** relative names: the hypotheses without D20 are satisfiable, and the
    theorems apply.  { /d/, /d/x, /l -> ../d, /d/m -> ../../../d }, name
    "l/m/x": both targets climb above the working directory (K3); the result
    "../../../d/x" is relative, with leading ".." that the kernel clamps *)
Definition w_rel : world :=
  xL (xL (xF (xD init_world [47;100]) [47;100;47;120]) [47;108] [46;46;47;100])
     [47;100;47;109] [46;46;47;46;46;47;46;46;47;100].
Definition n_rel : str := [108;47;109;47;120].
Definition rp_rel : str := [46;46;47;46;46;47;46;46;47;100;47;120].

Example rel_sat :
  c16_rel_hypsb xq n_rel w_rel = true /\ is_abs (clean n_rel) = false /\
  fst (real_path osfs n_rel w_rel) = MOk rp_rel /\
  (cleaned rp_rel /\ nolinkpar (st_fs (w_st w_rel)) (clean (sep :: rp_rel))) /\
  resolve (st_fs (w_st w_rel)) rp_rel false = resolve (st_fs (w_st w_rel)) (clean n_rel) false.
Proof.
  assert (Hh : c16_rel_hypsb xq n_rel w_rel = true) by (vm_compute; reflexivity).
  assert (Hr : fst (real_path osfs n_rel w_rel) = MOk rp_rel) by (vm_compute; reflexivity).
  pose proof (c16_rel_hypsb_ok _ _ _ Hh) as H.
  split; [exact Hh|]. split; [vm_compute; reflexivity|]. split; [exact Hr|]. split.
  - exact (real_path_any_nolinkpar xq n_rel w_rel H rp_rel Hr).
  - apply (real_path_any_same_entry xq n_rel w_rel H rp_rel Hr). vm_compute. split; discriminate.
Qed.

(** the tree of [sat_hyps] with the relative name "../a/r/f": a leading "..",
    then the absolute link /a: from there on the candidates are absolute, and
    so is the result "/d/e/f" *)
Definition n_rel2 : str := [46;46;47;97;47;114;47;102].

Example rel_sat_abs_link :
  c16_rel_hypsb xq n_rel2 w_sat = true /\ is_abs (clean n_rel2) = false /\
  fst (real_path osfs n_rel2 w_sat) = MOk rp_sat /\
  resolve (st_fs (w_st w_sat)) rp_sat false = resolve (st_fs (w_st w_sat)) (clean n_rel2) false.
Proof.
  assert (Hh : c16_rel_hypsb xq n_rel2 w_sat = true) by (vm_compute; reflexivity).
  assert (Hr : fst (real_path osfs n_rel2 w_sat) = MOk rp_sat) by (vm_compute; reflexivity).
  pose proof (c16_rel_hypsb_ok _ _ _ Hh) as H.
  split; [exact Hh|]. split; [vm_compute; reflexivity|]. split; [exact Hr|].
  apply (real_path_any_same_entry xq n_rel2 w_sat H rp_sat Hr). vm_compute. split; discriminate.
Qed.

(** the D20 example again: its relative result "d/y" names the caller's
    entry, and read from the root it has no symlink among its ancestors *)
Example d20_covered :
  c16_rel_hypsb xq n_d20 w_d20 = true /\
  fst (real_path osfs n_d20 w_d20) = MOk rp_d20 /\
  nolinkpar (st_fs (w_st w_d20)) (clean (sep :: rp_d20)) /\
  resolve (st_fs (w_st w_d20)) rp_d20 false = resolve (st_fs (w_st w_d20)) (clean n_d20) false.
Proof.
  assert (Hh : c16_rel_hypsb xq n_d20 w_d20 = true) by (vm_compute; reflexivity).
  assert (Hr : fst (real_path osfs n_d20 w_d20) = MOk rp_d20) by (vm_compute; reflexivity).
  pose proof (c16_rel_hypsb_ok _ _ _ Hh) as H.
  split; [exact Hh|]. split; [exact Hr|]. split.
  - exact (proj2 (real_path_any_nolinkpar xq n_d20 w_d20 H rp_d20 Hr)).
  - apply (real_path_any_same_entry xq n_d20 w_d20 H rp_d20 Hr). vm_compute. split; discriminate.
Qed.
