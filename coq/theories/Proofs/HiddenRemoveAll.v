(** The EFFECT of [HiddenFS.RemoveAll] on the concrete model
    [a_removeall (hiddenfs hs0 osfs) name] (Layers/Api.v, [hidden_removeall]).

    Setting: [hs := hidden_norm hs0] with every path of [hs0] absolute; the
    tree [f] is well formed ([wf]) with good keys ([keys_good]); [name] is an
    absolute cleaned path that exists in [f] (hence is [direct]: no symlink on
    the way), is lexically not hidden, and every entry at/below it lies less
    than [tree_fuel] levels below it.  Symlinks may occur anywhere in the
    subtree (also below hidden paths): the walk never follows them, they are
    removed like files.

    Result ([hidden_removeall_effect]): the call returns [MOk tt] and for every
    key [k] of the resulting tree [f']:
    - [k] at/below a hidden path (lexically):        [f' !! k = f !! k];
    - [k] not at/below [comps name]:                 [f' !! k = f !! k], except
      that the parent directory of [name] may have a new mtime;
    - [k] at/below [comps name], not hidden, a proper (lexical) ancestor of a
      hidden path and a directory in [f]:            still that directory
      (same permissions and owner; the mtime may change);
    - every other [k] at/below [comps name]:         [f' !! k = None].

    Also: [hidden_removeall_missing] (missing name: nil, unchanged world, fix
    D8), [hidden_removeall_hidden] (hidden name: ErrHiddenNotExist, unchanged
    world), [hidden_removeall_effect_spied] (through [spy] on a quiet world),
    [hidden_removeall_effect_b] (every side condition as a computation,
    [tree_okb]), the corollaries [removeall_effect_plain] / [_remaining] /
    [_chain], and examples by [vm_compute] ([RemoveAllExamples]).

    Note that "ancestor of a hidden path" is lexical: the chain of directories
    towards a hidden path that does not exist is kept too
    ([RemoveAllExamples.removeall_missing_hidden_keeps_chain]).

    Structure: A. keys, hidden keys; B. the monad on explicit worlds;
    C. the relation [rel] between the tree before and after a walk, its
    composition; D. the walk ([walk_spec], by induction on the fuel);
    E. the deepest-first removal ([removal_spec]); F. the theorems;
    G. decidable side conditions, examples.

    Imports only the model, Proofs/PathFacts, PrefixFacts, C19Facts (sorting),
    FsFacts, HiddenFacts; nothing of Spec/ or the BackupFS proofs. *)
From stdpp Require Import gmap.
From BFS Require Import Fs.FsSpec Layers.Api Layers.LayerSpec.
From BFS Require Import Proofs.PathFacts Proofs.PrefixFacts Proofs.C19Facts.
From BFS Require Import Proofs.FsFacts Proofs.HiddenFacts.
From BFS Require Import Backup.History.
Local Open Scope nat_scope.

(* ------------------------------------------------------------------ *)
(** * A. Keys *)

Definition good_key (k : key) : Prop := Forall good_comp k /\ ~ In s_dotdot k.

(** every key of the tree consists of proper path elements *)
Definition keys_good (f : fs) : Prop := forall k n, f !! k = Some n -> good_key k.

(** [k] is [a] or lies below it *)
Definition under (a k : key) : Prop := exists r, k = a ++ r.

Lemma under_refl : forall a, under a a.
Proof. intro a. exists []. symmetry. apply app_nil_r. Qed.

Lemma under_app : forall a r, under a (a ++ r).
Proof. intros a r. exists r. reflexivity. Qed.

Lemma under_trans : forall a b c, under a b -> under b c -> under a c.
Proof. intros a b c [r1 E1] [r2 E2]. subst. exists (r1 ++ r2). symmetry. apply app_assoc. Qed.

Lemma under_dec : forall a k, under a k \/ ~ under a k.
Proof.
  intros a k. destruct (key_prefixb a k) eqn:E.
  - left. apply key_prefixb_iff. exact E.
  - right. intro H. apply key_prefixb_iff in H. congruence.
Qed.

Lemma good_key_app : forall a b, good_key (a ++ b) <-> good_key a /\ good_key b.
Proof.
  intros a b. unfold good_key. rewrite List.Forall_app. split.
  - intros [[Ha Hb] Hn]. split; split; try assumption; intro H; apply Hn; apply in_or_app; auto.
  - intros [[Ha Hna] [Hb Hnb]]. split; [split; assumption|].
    intro H. apply in_app_or in H. destruct H; contradiction.
Qed.

Lemma good_key_nil : good_key [].
Proof. split; [constructor | intros []]. Qed.

Lemma good_key_comps : forall p, is_abs p = true -> good_key (comps p).
Proof. intros p Ha. split; [apply comps_good | apply abs_comps_no_dotdot; exact Ha]. Qed.

Lemma kpath_ac : forall k, good_key k -> abs_cleaned (kpath k).
Proof. intros k [H1 H2]. apply kpath_abs_cleaned; assumption. Qed.

Lemma comps_kp : forall k, good_key k -> comps (kpath k) = k.
Proof. intros k [H1 H2]. apply comps_kpath; assumption. Qed.

Lemma kpath_inj : forall a b, good_key a -> good_key b -> kpath a = kpath b -> a = b.
Proof.
  intros a b Ha Hb E. rewrite <- (comps_kp a Ha), <- (comps_kp b Hb), E. reflexivity.
Qed.

(** the path of a child *)
Lemma join2_kpath : forall k c,
  good_key k -> good_key [c] -> join2 (kpath k) c = kpath (k ++ [c]).
Proof.
  intros k c Hk Hc.
  pose proof (kpath_ac k Hk) as Hac.
  pose proof (abs_cleaned_nonempty _ Hac) as Hne.
  destruct Hc as [Hg Hnd]. inversion Hg as [|c' l' [Hc1 [Hc2 Hc3]] _]; subst.
  assert (Hc4 : c <> s_dotdot) by (intro E; apply Hnd; left; exact E).
  assert (Ec : comps (join2 (kpath k) c) = k ++ [c]).
  { rewrite (join2_eq _ c Hne), comps_clean, (comps_app_sep _ c Hne), (proj2 Hac).
    rewrite (split_sep_nosep_id c Hc3), norm_cons.
    assert (E1 : str_eqb c [] || str_eqb c s_dot = false).
    { apply orb_false_iff. split; apply str_eqb_neq; assumption. }
    assert (E2 : str_eqb c s_dotdot = false) by (apply str_eqb_neq; exact Hc4).
    rewrite E1, E2. simpl. rewrite rev_involutive. rewrite (comps_kp k Hk). reflexivity. }
  rewrite (cleaned_eq _ (cleaned_join2 (kpath k) c Hne)), (is_abs_join2 _ c Hne), (proj2 Hac).
  rewrite Ec. reflexivity.
Qed.

Lemma removelast_snoc : forall (A : Type) (k : list A) c, removelast (k ++ [c]) = k.
Proof. intros A k c. apply removelast_last. Qed.

Lemma under_removelast : forall a k, under a k -> k <> a -> under a (removelast k).
Proof.
  intros a k [r E] Hne. subst k. destruct (exists_last (l := r)) as [r' [x Er]].
  - intro E. subst r. apply Hne. apply app_nil_r.
  - subst r. rewrite app_assoc, removelast_last. apply under_app.
Qed.

Lemma under_snoc_neq : forall a c c' k, under (a ++ [c]) k -> under (a ++ [c']) k -> c = c'.
Proof.
  intros a c c' k [r1 E1] [r2 E2]. subst k. rewrite <- !app_assoc in E2.
  apply app_inv_head in E2. simpl in E2. congruence.
Qed.

Lemma not_under_snoc_self : forall a c, ~ under (a ++ [c]) a.
Proof.
  intros a c [r E]. apply (f_equal (@length str)) in E. rewrite !app_length in E. simpl in E. lia.
Qed.

(** a prefix of [a ++ r] is a prefix of [a] or a proper extension of [a] *)
Lemma prefix_app_cases : forall (h a r : key),
  under h (a ++ r) -> under h a \/ exists r', r' <> [] /\ h = a ++ r'.
Proof.
  induction h as [|x h IH]; intros a r [t E].
  - left. exists a. reflexivity.
  - destruct a as [|y a].
    + right. exists (x :: h). split; [discriminate | reflexivity].
    + simpl in E. injection E as Exy E. subst y.
      destruct (IH a r (ex_intro _ t E)) as [[t' Et]|[r' [Hr' Er']]].
      * left. exists t'. simpl. rewrite Et. reflexivity.
      * right. exists r'. split; [exact Hr'|]. simpl. rewrite Er'. reflexivity.
Qed.

(* ------------------------------------------------------------------ *)
(** * A.2 Hidden keys *)

Definition khidb (hs : list str) (k : key) : bool :=
  existsb (fun h => key_prefixb (comps h) k) hs.
Definition kancb (hs : list str) (k : key) : bool :=
  existsb (fun h => key_prefixb k (comps h) && negb (key_eqb k (comps h))) hs.

(** [k] is the key of a hidden path or lies below one (lexically) *)
Definition hidden_key (hs : list str) (k : key) : Prop :=
  exists h, In h hs /\ under (comps h) k.
(** [k] is a proper ancestor of the key of a hidden path (lexically) *)
Definition anc_key (hs : list str) (k : key) : Prop :=
  exists h r, In h hs /\ r <> [] /\ comps h = k ++ r.

Lemma khidb_iff : forall hs k, khidb hs k = true <-> hidden_key hs k.
Proof.
  intros hs k. unfold khidb, hidden_key. rewrite existsb_exists.
  split; intros [h [Hi H]]; exists h; (split; [exact Hi|]); apply key_prefixb_iff; exact H.
Qed.

Lemma kancb_iff : forall hs k, kancb hs k = true <-> anc_key hs k.
Proof.
  intros hs k. unfold kancb, anc_key. rewrite existsb_exists. split.
  - intros [h [Hi H]]. apply andb_true_iff in H. destruct H as [H1 H2].
    apply key_prefixb_iff in H1. destruct H1 as [r Er].
    apply negb_true_iff, key_eqb_neq in H2.
    exists h, r. split; [exact Hi|]. split; [|exact Er].
    intro E. subst r. apply H2. rewrite Er. symmetry. apply app_nil_r.
  - intros [h [r [Hi [Hr Er]]]]. exists h. split; [exact Hi|].
    apply andb_true_iff. split.
    + apply key_prefixb_iff. exists r. exact Er.
    + apply negb_true_iff, key_eqb_neq. intro E. rewrite <- E in Er.
      rewrite <- (app_nil_r k) in Er at 1. apply app_inv_head in Er. apply Hr. symmetry. exact Er.
Qed.

Lemma khidb_under : forall hs a k, khidb hs a = true -> under a k -> khidb hs k = true.
Proof.
  intros hs a k H Hu. apply khidb_iff in H. apply khidb_iff.
  destruct H as [h [Hi H]]. exists h. split; [exact Hi|]. eapply under_trans; eassumption.
Qed.

(** below a key that is neither hidden nor an ancestor of a hidden path
    nothing is hidden, and nothing is an ancestor of a hidden path *)
Lemma clear_below : forall hs a r,
  khidb hs a = false -> kancb hs a = false ->
  khidb hs (a ++ r) = false /\ kancb hs (a ++ r) = false.
Proof.
  intros hs a r Hh Ha. split.
  - destruct (khidb hs (a ++ r)) eqn:E; [|reflexivity]. exfalso.
    apply khidb_iff in E. destruct E as [h [Hi Hu]].
    destruct (prefix_app_cases _ _ _ Hu) as [Hu'|[r' [Hr' Er']]].
    + assert (khidb hs a = true) by (apply khidb_iff; exists h; split; assumption). congruence.
    + assert (kancb hs a = true) by (apply kancb_iff; exists h, r'; repeat split; assumption). congruence.
  - destruct (kancb hs (a ++ r)) eqn:E; [|reflexivity]. exfalso.
    apply kancb_iff in E. destruct E as [h [r' [Hi [Hr' Er']]]].
    assert (kancb hs a = true).
    { apply kancb_iff. exists h, (r ++ r'). split; [exact Hi|]. split.
      - intro E. apply app_eq_nil in E. destruct E as [_ E]. contradiction.
      - rewrite Er'. symmetry. apply app_assoc. }
    congruence.
Qed.

Section Hidden.
  Variable hs : list str.
  Hypothesis Hhs : Forall abs_cleaned hs.

  Lemma hs_cleaned : Forall cleaned hs.
  Proof. eapply List.Forall_impl; [|exact Hhs]. intros h [H _]. exact H. Qed.

  Lemma hs_comparable : forall k, good_key k -> comparable hs (kpath k).
  Proof.
    intros k Hk. pose proof (kpath_ac k Hk) as [Hc Ha]. unfold comparable.
    rewrite Hc. split.
    - unfold plain. rewrite (comps_kp k Hk). exact (proj2 Hk).
    - eapply List.Forall_impl; [|exact Hhs]. intros h [Hch Hah]. split.
      + rewrite Hah, Ha. reflexivity.
      + apply abs_comps_no_dotdot. exact Hah.
  Qed.

  Lemma below_iff : forall k, good_key k -> below hs (kpath k) <-> hidden_key hs k.
  Proof.
    intros k Hk. pose proof (kpath_ac k Hk) as [Hc Ha]. unfold below, hidden_key, within.
    rewrite Hc, (comps_kp k Hk). split.
    - intros [h [Hi [_ [rest [E _]]]]]. exists h. split; [exact Hi|]. exists rest. exact E.
    - intros [h [Hi [rest E]]]. exists h. split; [exact Hi|]. split.
      + rewrite List.Forall_forall in Hhs. rewrite (proj2 (Hhs h Hi)), Ha. reflexivity.
      + exists rest. split; [exact E|]. intro Hd. apply (proj2 Hk). rewrite E.
        apply in_or_app. right. exact Hd.
  Qed.

  Lemma above_iff : forall k, good_key k -> above_hidden hs (kpath k) <-> anc_key hs k.
  Proof.
    intros k Hk. pose proof (kpath_ac k Hk) as [Hc Ha]. unfold above_hidden, anc_key, within.
    rewrite Hc, (comps_kp k Hk). split.
    - intros [h [Hi [[_ [rest [E _]]] Hne]]]. exists h, rest. split; [exact Hi|]. split; [|exact E].
      intro Er. subst rest. rewrite app_nil_r in E. apply Hne.
      rewrite List.Forall_forall in Hhs. rewrite <- (kpath_comps h (Hhs h Hi)), E. reflexivity.
    - intros [h [rest [Hi [Hr E]]]]. exists h. split; [exact Hi|].
      rewrite List.Forall_forall in Hhs. pose proof (Hhs h Hi) as Hh. split; [split|].
      + rewrite (proj2 Hh), Ha. reflexivity.
      + exists rest. split; [exact E|]. intro Hd.
        apply (abs_comps_no_dotdot h (proj2 Hh)). rewrite E. apply in_or_app. right. exact Hd.
      + intro Eh. subst h. rewrite (comps_kp k Hk) in E.
        rewrite <- (app_nil_r k) in E at 1. apply app_inv_head in E. apply Hr. symmetry. exact E.
  Qed.

  Lemma is_hidden_kpath : forall k, good_key k -> is_hidden (kpath k) hs = Some (khidb hs k).
  Proof.
    intros k Hk.
    destruct (is_hidden_bool hs (kpath k) hs_cleaned (hs_comparable k Hk)) as [b [Hb Hbw]].
    rewrite Hb. f_equal. rewrite (below_iff k Hk), <- khidb_iff in Hbw.
    destruct b, (khidb hs k); try reflexivity.
    - symmetry. apply Hbw. reflexivity.
    - apply Hbw. reflexivity.
  Qed.

  Lemma is_parent_kpath : forall k, good_key k ->
    is_parent_of_hidden (kpath k) hs = Some (kancb hs k).
  Proof.
    intros k Hk.
    destruct (is_parent_bool hs (kpath k) hs_cleaned (hs_comparable k Hk)) as [b [Hb Hbw]].
    rewrite Hb. f_equal. rewrite (above_iff k Hk), <- kancb_iff in Hbw.
    destruct b, (kancb hs k); try reflexivity.
    - symmetry. apply Hbw. reflexivity.
    - apply Hbw. reflexivity.
  Qed.
End Hidden.

(* ------------------------------------------------------------------ *)
(** * B. The calls of [osfs] and of the layer's own methods on explicit worlds *)

(** the world [w0] with the filesystem state replaced *)
Definition setst (w0 : world) (s : fstate) : world :=
  mkWorld s (w_trace w0) (w_ticks w0) (w_crash w0) (w_faults w0) (w_infos w0).

Lemma setst_self : forall w, setst w (w_st w) = w.
Proof. intros [s tr ti cr fa inf]. reflexivity. Qed.

Lemma os_lstat_run : forall p w0 s,
  a_lstat osfs p (setst w0 s) =
    (match fs_lstat s p with Ok fi => MOk fi | Err e => MErr e end, setst w0 s).
Proof.
  intros p w0 s. cbn [a_lstat osfs]. unfold fs_get, setst, lift_res. cbn [w_st].
  destruct (fs_lstat s p); reflexivity.
Qed.

Lemma os_remove_run : forall p w0 s,
  a_remove osfs p (setst w0 s) =
    (match fst (fs_remove s p) with Ok _ => MOk tt | Err e => MErr e end,
     setst w0 (snd (fs_remove s p))).
Proof.
  intros p w0 s. cbn [a_remove osfs]. unfold fs_upd, setst, lift_res. cbn [w_st].
  destruct (fs_remove s p) as [[[]|e] s']; reflexivity.
Qed.

Lemma os_read_dir_names_run : forall p w0 s m,
  direct (st_fs s) p -> st_fs s !! comps p = Some (Dir m) ->
  read_dir_names osfs p (setst w0 s) =
    (MOk (sort_strings (child_names (st_fs s) (comps p))), setst w0 s).
Proof.
  intros p w0 s m Hd Hm. unfold read_dir_names.
  cbn [a_open osfs]. unfold os_openfile, bind at 1 2. unfold fs_upd. cbn [setst w_st].
  rewrite (fs_open_direct_rdonly_dir s p 0%N m Hd Hm). cbn [lift_res ret].
  unfold bind, try_, hreaddirnames, spy_h, hclose, ret, fs_get, lift_res. cbn.
  reflexivity.
Qed.

Section Self.
  Variable hs : list str.
  Let L := hidden_layer hs.
  Let self := layered_with L osfs null_api.

  Lemma self_lstat_run : forall p w,
    is_hidden p hs = Some false -> a_lstat self p w = a_lstat osfs p w.
  Proof.
    intros p w Hh. unfold self, layered_with, L.
    cbn [a_lstat hidden_layer l_call hiddenfs_call c_meth c_a c_aux l_info].
    rewrite Hh. cbn [with_outcome]. unfold dispatch_info. cbn [c_meth c_a].
    unfold bind, ret. destruct (a_lstat osfs p w) as [[fi|e|] w1]; reflexivity.
  Qed.

  Lemma self_remove_run : forall p w,
    is_hidden p hs = Some false -> a_remove self p w = a_remove osfs p w.
  Proof.
    intros p w Hh. unfold self, layered_with, L.
    cbn [a_remove hidden_layer l_call hiddenfs_call c_meth c_a c_aux].
    rewrite Hh. reflexivity.
  Qed.

  Lemma removeall_unfold' : forall name,
    a_removeall (layered L osfs) name =
    match is_hidden name hs with
    | None => fail (ELayer EHiddenCheck)
    | Some true => fail (ELayer EHiddenNotExist)
    | Some false => hidden_removeall hs osfs self name
    end.
  Proof.
    intro name. unfold layered, layered_with, self, L.
    cbn [a_removeall hidden_layer l_call l_multi hiddenfs_call c_meth c_a c_aux].
    destruct (is_hidden name hs) as [[|]|]; reflexivity.
  Qed.
End Self.

(* ------------------------------------------------------------------ *)
(** * C. The tree before and after a walk *)

Lemma onode_eqv_refl : forall o, onode_eqv o o.
Proof.
  intros [[m|m c|m t]|]; simpl; try reflexivity. repeat split.
Qed.

Lemma onode_eqv_trans : forall a b c, onode_eqv a b -> onode_eqv b c -> onode_eqv a c.
Proof.
  intros [[ma|ma ca|ma ta]|] [[mb|mb cb|mb tb]|] [[mc|mc cc|mc tc]|]; simpl;
    try tauto; try congruence; try discriminate.
  intros (H1 & H2 & H3) (H4 & H5 & H6). repeat split; congruence.
Qed.

Lemma onode_eqv_eq : forall a b, a = b -> onode_eqv a b.
Proof. intros a b E. subst b. apply onode_eqv_refl. Qed.

Lemma onode_eqv_none_l : forall b, onode_eqv None b -> b = None.
Proof. intros [b|]; simpl; [intros []|reflexivity]. Qed.

Lemma onode_eqv_dir_l : forall m b,
  onode_eqv (Some (Dir m)) b -> exists m', b = Some (Dir m') /\ meta_eq_nomt m m'.
Proof.
  intros m [[m'|m' c|m' t]|]; simpl; intro H; try discriminate H; try contradiction.
  exists m'. split; [reflexivity | exact H].
Qed.

Lemma onode_eqv_is_dir : forall (f g : fs) k,
  onode_eqv (f !! k) (g !! k) -> is_dir_at f k -> is_dir_at g k.
Proof.
  intros f g k H [m Hm]. rewrite Hm in H. apply onode_eqv_dir_l in H.
  destruct H as [m' [E _]]. exists m'. exact E.
Qed.

Lemma meta_eq_nomt_trans : forall a b c, meta_eq_nomt a b -> meta_eq_nomt b c -> meta_eq_nomt a c.
Proof. intros a b c (H1 & H2 & H3) (H4 & H5 & H6). repeat split; congruence. Qed.

(** what is kept of a not-hidden entry in the processed region: a directory
    stays (up to its mtime), everything else is gone *)
Definition kept_dir (o o' : option node) : Prop :=
  match o with
  | Some (Dir m) => exists m', o' = Some (Dir m') /\ meta_eq_nomt m m'
  | _ => o' = None
  end.

Section Rel.
  Variable hs : list str.

  (** [g'] results from [g] by a walk over the region [U] whose removals
      touched (the mtime of) directories in [T] outside [U] *)
  Definition rel (U T : key -> Prop) (g g' : fs) : Prop :=
    forall k,
      (khidb hs k = true -> g' !! k = g !! k) /\
      (khidb hs k = false -> U k -> kept_dir (g !! k) (g' !! k)) /\
      (~ U k -> onode_eqv (g !! k) (g' !! k)) /\
      (~ U k -> ~ T k -> g' !! k = g !! k).

  Lemma rel_refl_hidden : forall (U T : key -> Prop) g,
    (forall k, U k -> khidb hs k = true) -> rel U T g g.
  Proof.
    intros U T g HU k. split; [reflexivity|]. split.
    - intros Hh Hu. rewrite (HU k Hu) in Hh. discriminate Hh.
    - split; [intros _; apply onode_eqv_refl | reflexivity].
  Qed.

  Lemma kept_dir_eqv : forall a b c, kept_dir a b -> onode_eqv b c -> kept_dir a c.
  Proof.
    intros a b c Hk He. unfold kept_dir in *. destruct a as [[m|m d|m t]|].
    - destruct Hk as [m' [E Hm]]. subst b. apply onode_eqv_dir_l in He.
      destruct He as [m'' [E Hm']]. exists m''. split; [exact E|]. eapply meta_eq_nomt_trans; eassumption.
    - subst b. apply onode_eqv_none_l. exact He.
    - subst b. apply onode_eqv_none_l. exact He.
    - subst b. apply onode_eqv_none_l. exact He.
  Qed.

  Lemma eqv_kept_dir : forall a b c, onode_eqv a b -> kept_dir b c -> kept_dir a c.
  Proof.
    intros a b c He Hk. unfold kept_dir in *.
    destruct a as [[m|m d|m t]|]; destruct b as [[m'|m' d'|m' t']|]; simpl in He;
      try contradiction; try discriminate He; try exact Hk.
    destruct Hk as [m'' [E Hm]]. exists m''. split; [exact E|]. eapply meta_eq_nomt_trans; eassumption.
  Qed.

  Lemma kept_dir_trans : forall a b c, kept_dir a b -> kept_dir b c -> kept_dir a c.
  Proof.
    intros a b c H1 H2. unfold kept_dir in *. destruct a as [[m|m d|m t]|].
    - destruct H1 as [m' [E Hm]]. subst b. destruct H2 as [m'' [E Hm']].
      exists m''. split; [exact E|]. eapply meta_eq_nomt_trans; eassumption.
    - subst b. exact H2.
    - subst b. exact H2.
    - subst b. exact H2.
  Qed.

  Lemma rel_comp : forall (U1 U2 T : key -> Prop) g g1 g2,
    (forall k, U1 k \/ ~ U1 k) -> (forall k, U2 k \/ ~ U2 k) ->
    rel U1 T g g1 -> rel U2 T g1 g2 -> rel (fun k => U1 k \/ U2 k) T g g2.
  Proof.
    intros U1 U2 T g g1 g2 D1 D2 R1 R2 k.
    destruct (R1 k) as (A1 & B1 & C1 & E1). destruct (R2 k) as (A2 & B2 & C2 & E2).
    split; [|split; [|split]].
    - intro Hh. rewrite (A2 Hh). apply A1. exact Hh.
    - intros Hh Hu. destruct (D2 k) as [Hu2|Hn2].
      + destruct (D1 k) as [Hu1|Hn1].
        * eapply kept_dir_trans; [apply B1; assumption | apply B2; assumption].
        * eapply eqv_kept_dir; [apply C1; exact Hn1 | apply B2; assumption].
      + destruct Hu as [Hu1|Hu2]; [|contradiction].
        eapply kept_dir_eqv; [apply B1; assumption | apply C2; exact Hn2].
    - intro Hn. eapply onode_eqv_trans; [apply C1 | apply C2]; tauto.
    - intros Hn Ht. rewrite E2 by tauto. apply E1; tauto.
  Qed.

  Lemma rel_weaken : forall (U U' T T' : key -> Prop) g g',
    rel U T g g' ->
    (forall k, U k -> U' k) ->
    (forall k, T k -> U' k \/ T' k) ->
    (forall k, U' k -> ~ U k -> khidb hs k = false -> kept_dir (g !! k) (g' !! k)) ->
    (forall k, U k \/ ~ U k) ->
    rel U' T' g g'.
  Proof.
    intros U U' T T' g g' R HU HT Hnew D k. destruct (R k) as (A & B & C & E).
    split; [exact A|]. split; [|split].
    - intros Hh Hu'. destruct (D k) as [Hu|Hn]; [apply B; assumption | apply Hnew; assumption].
    - intro Hn. apply C. intro Hu. apply Hn. apply HU. exact Hu.
    - intros Hn Ht. apply E.
      + intro Hu. apply Hn. apply HU. exact Hu.
      + intro Hk. destruct (HT k Hk); contradiction.
  Qed.
End Rel.

(* ------------------------------------------------------------------ *)
(** * D.1 Directory listings *)

Lemma entries_In' : forall (f : fs) k n, In (k, n) (entries f) <-> f !! k = Some n.
Proof.
  intros f k n. unfold entries. change (gmap_to_list f) with (map_to_list f).
  rewrite <- elem_of_list_In. apply elem_of_map_to_list.
Qed.

Lemma NoDup_map_inj_on : forall (A B : Type) (f : A -> B) (l : list A),
  (forall x y, In x l -> In y l -> f x = f y -> x = y) -> NoDup l -> NoDup (map f l).
Proof.
  intros A B f l Hinj Hnd. induction Hnd as [|x l Hnin Hnd IH]; simpl.
  - constructor.
  - constructor.
    + intro Hin. apply in_map_iff in Hin. destruct Hin as [y [E Hy]].
      apply Hnin. rewrite (Hinj x y); [exact Hy | left; reflexivity | right; exact Hy | symmetry; exact E].
    + apply IH. intros a b Ha Hb. apply Hinj; right; assumption.
Qed.

Lemma NoDup_app_intro : forall (A : Type) (l1 l2 : list A),
  NoDup l1 -> NoDup l2 -> (forall x, In x l1 -> In x l2 -> False) -> NoDup (l1 ++ l2).
Proof.
  intros A l1 l2 H1 H2 Hd. induction H1 as [|x l1 Hnin H1 IH]; simpl.
  - exact H2.
  - constructor.
    + intro Hin. apply in_app_or in Hin. destruct Hin as [Hin|Hin]; [contradiction|].
      apply (Hd x); [left; reflexivity | exact Hin].
    + apply IH. intros y Hy1 Hy2. apply (Hd y); [right; exact Hy1 | exact Hy2].
Qed.

Definition is_child (k k' : key) : bool := key_prefixb k k' && Nat.eqb (length k') (S (length k)).

Lemma is_child_iff : forall k k', is_child k k' = true <-> exists c, k' = k ++ [c].
Proof.
  intros k k'. unfold is_child. rewrite andb_true_iff, key_prefixb_iff, Nat.eqb_eq. split.
  - intros [[r E] Hl]. subst k'. rewrite app_length in Hl.
    destruct r as [|c [|d r]]; simpl in Hl; try lia. exists c. reflexivity.
  - intros [c E]. subst k'. split; [exists [c]; reflexivity | rewrite app_length; simpl; lia].
Qed.

Lemma child_names_map : forall (f : fs) k,
  child_names f k =
    map (fun k' : key => last k' []) (List.filter (is_child k) (map fst (entries f))).
Proof.
  intros f k. unfold child_names. induction (entries f) as [|kv l IH]; simpl.
  - reflexivity.
  - fold (is_child k (fst kv)). destruct (is_child k (fst kv)); simpl; rewrite IH; reflexivity.
Qed.

Lemma child_names_In' : forall (f : fs) k c,
  In c (child_names f k) <-> exists n, f !! (k ++ [c]) = Some n.
Proof.
  intros f k c. rewrite child_names_map, in_map_iff. split.
  - intros [k' [E Hin]]. apply filter_In in Hin. destruct Hin as [Hin Hc].
    apply is_child_iff in Hc. destruct Hc as [c' Ec]. subst k'. rewrite last_last in E. subst c'.
    apply in_map_iff in Hin. destruct Hin as [[k0 n] [E Hin]]. simpl in E. subst k0.
    exists n. apply entries_In'. exact Hin.
  - intros [n Hn]. exists (k ++ [c]). split; [apply last_last|].
    apply filter_In. split.
    + apply in_map_iff. exists (k ++ [c], n). split; [reflexivity | apply entries_In'; exact Hn].
    + apply is_child_iff. exists c. reflexivity.
Qed.

Lemma child_names_NoDup : forall (f : fs) k, NoDup (child_names f k).
Proof.
  intros f k. rewrite child_names_map. apply NoDup_map_inj_on.
  - intros x y Hx Hy E. apply filter_In in Hx, Hy.
    destruct Hx as [_ Hx], Hy as [_ Hy]. apply is_child_iff in Hx, Hy.
    destruct Hx as [c Ec], Hy as [d Ed]. subst x y. rewrite !last_last in E. subst d. reflexivity.
  - apply List.NoDup_filter. unfold entries. change (gmap_to_list f) with (map_to_list f).
    apply NoDup_ListNoDup. exact (NoDup_fst_map_to_list f).
Qed.

Lemma sort_strings_In : forall x l, In x (sort_strings l) <-> In x l.
Proof.
  intros x l. unfold sort_strings. split; apply Permutation_in;
    [apply isort_perm | apply Permutation_sym; apply isort_perm].
Qed.

Lemma sort_strings_NoDup : forall l, NoDup l -> NoDup (sort_strings l).
Proof.
  intros l H. unfold sort_strings. eapply Permutation_NoDup; [|exact H].
  apply Permutation_sym. apply isort_perm.
Qed.

(* ------------------------------------------------------------------ *)
(** * D.2 Removing one entry *)

Lemma bind_ok : forall (A B : Type) (m : M A) (f : A -> M B) w a w',
  m w = (MOk a, w') -> bind m f w = f a w'.
Proof. intros A B m f w a w' H. unfold bind. rewrite H. reflexivity. Qed.

Lemma under_removelast_self : forall k : key, under (removelast k) k.
Proof.
  intro k. destruct k as [|x k]; [apply under_refl|].
  exists [last (x :: k) []]. apply app_removelast_last. discriminate.
Qed.

Section RemoveEntry.
  Variables (g : fs) (k : key) (t : mtime).
  Let g' := touch_dir (base.delete k g) (removelast k) t.

  Lemma rm_lookup_self : g' !! k = None.
  Proof. unfold g'. apply touch_dir_lookup_None. apply lookup_delete. Qed.

  Lemma rm_lookup_other : forall k', k' <> k -> k' <> removelast k -> g' !! k' = g !! k'.
  Proof.
    intros k' H1 H2. unfold g'. rewrite touch_dir_lookup_ne by exact H2.
    apply lookup_delete_ne. congruence.
  Qed.

  Lemma rm_lookup_eqv : forall k', k' <> k -> onode_eqv (g !! k') (g' !! k').
  Proof.
    intros k' H1. destruct (decide (k' = removelast k)) as [E|E].
    - unfold g'. rewrite E, touch_dir_lookup_eq. rewrite lookup_delete_ne by congruence.
      rewrite <- E. destruct (g !! k') as [[m|m c|m l]|]; simpl; try reflexivity. repeat split.
    - rewrite (rm_lookup_other k' H1 E). apply onode_eqv_refl.
  Qed.
End RemoveEntry.

Lemma rel_remove_entry : forall hs (g : fs) k t,
  khidb hs k = false ->
  (forall r, r <> [] -> g !! (k ++ r) = None) ->
  (match g !! k with Some (Dir _) => False | _ => True end) ->
  rel hs (under k) (eq (removelast k)) g (touch_dir (base.delete k g) (removelast k) t).
Proof.
  intros hs g k t Hh Hsub Hnd k'. split; [|split; [|split]].
  - intro Hk'. apply rm_lookup_other.
    + intro E. subst k'. congruence.
    + intro E. subst k'. rewrite (khidb_under hs _ k Hk' (under_removelast_self k)) in Hh. discriminate Hh.
  - intros _ [r E]. subst k'. destruct r as [|x r].
    + rewrite app_nil_r. rewrite rm_lookup_self.
      destruct (g !! k) as [[m|m c|m l]|]; simpl; try reflexivity. contradiction.
    + assert (E0 : g !! (k ++ x :: r) = None) by (apply Hsub; discriminate).
      norm_keys. rewrite E0. simpl.
      apply onode_eqv_none_l. rewrite <- E0.
      apply rm_lookup_eqv. intro E. rewrite <- (app_nil_r k) in E at 2.
      apply app_inv_head in E. discriminate E.
  - intro Hn. apply rm_lookup_eqv. intro E. subst k'. apply Hn. apply under_refl.
  - intros Hn Ht. apply rm_lookup_other; [|congruence].
    intro E. subst k'. apply Hn. apply under_refl.
Qed.

(* ------------------------------------------------------------------ *)
(** * D.3 The walk *)

(** every proper ancestor of [kp] is a directory *)
Definition pre_ok (g : fs) (kp : key) : Prop :=
  forall pre r, r <> [] -> kp = pre ++ r -> is_dir_at g pre.

(** the subtree at [kp]: parents are directories, keys are good, less than
    [F] levels *)
Definition sub_ok (g : fs) (kp : key) (F : nat) : Prop :=
  (forall r n, r <> [] -> g !! (kp ++ r) = Some n -> is_dir_at g (removelast (kp ++ r))) /\
  (forall r n, g !! (kp ++ r) = Some n -> good_key (kp ++ r)) /\
  (forall r n, g !! (kp ++ r) = Some n -> length r < F).

Lemma direct_kpath : forall g k, good_key k -> pre_ok g k -> direct g (kpath k).
Proof.
  intros g k Hk Hp. split; [apply kpath_ac; exact Hk|].
  rewrite (comps_kp k Hk). apply Forall_kprefixes. intros pre r Hr E. exact (Hp pre r Hr E).
Qed.

Lemma pre_ok_child : forall g kp c, pre_ok g kp -> is_dir_at g kp -> pre_ok g (kp ++ [c]).
Proof.
  intros g kp c Hp Hd pre r Hr E.
  destruct (exists_last Hr) as [r' [x Er]]. subst r. rewrite app_assoc in E.
  apply app_inj_tail in E. destruct E as [E _]. destruct r' as [|y r'].
  - rewrite app_nil_r in E. subst pre. exact Hd.
  - apply (Hp pre (y :: r')); [discriminate | exact E].
Qed.

(** below a missing or non-directory entry there is nothing *)
Lemma sub_ok_below_nondir : forall g kp F,
  sub_ok g kp F -> ~ is_dir_at g kp -> forall r, r <> [] -> g !! (kp ++ r) = None.
Proof.
  intros g kp F [Hb _] Hnd r. induction r as [|x r IH] using rev_ind; intro Hr.
  - contradiction Hr. reflexivity.
  - destruct (g !! (kp ++ r ++ [x])) as [n|] eqn:E; [|reflexivity]. exfalso.
    assert (Hd : is_dir_at g (removelast (kp ++ r ++ [x]))).
    { apply (Hb (r ++ [x]) n); [|exact E]. intro F0. apply app_eq_nil in F0. destruct F0 as [_ F0]. discriminate F0. }
    rewrite app_assoc, removelast_last in Hd. destruct r as [|y r].
    + rewrite app_nil_r in Hd. contradiction.
    + destruct Hd as [m Hm]. assert (E0 : g !! (kp ++ y :: r) = None) by (apply IH; discriminate).
      norm_keys. rewrite E0 in Hm. discriminate Hm.
Qed.

Lemma sub_ok_child : forall g kp F c,
  sub_ok g kp (S F) -> sub_ok g (kp ++ [c]) F.
Proof.
  intros g kp F c (Hb & Hc & Hd). split; [|split].
  - intros r n Hr E. rewrite <- app_assoc in *. apply (Hb _ n); [|exact E]. discriminate.
  - intros r n E. rewrite <- app_assoc in *. exact (Hc _ n E).
  - intros r n E. rewrite <- app_assoc in E. apply Hd in E. simpl in E. lia.
Qed.

Lemma sub_ok_transport : forall g g1 k F,
  sub_ok g k F -> (forall r, g1 !! (k ++ r) = g !! (k ++ r)) -> sub_ok g1 k F.
Proof.
  intros g g1 k F (Hb & Hc & Hd) Heq. split; [|split].
  - intros r n Hr E. rewrite Heq in E. destruct (Hb r n Hr E) as [m Hm].
    exists m. destruct (exists_last Hr) as [r' [x Er]]. subst r.
    rewrite app_assoc, removelast_last in *. rewrite Heq. exact Hm.
  - intros r n E. rewrite Heq in E. exact (Hc r n E).
  - intros r n E. rewrite Heq in E. exact (Hd r n E).
Qed.

Lemma exists_child_dec : forall names (kp k : key),
  (exists c, In c names /\ under (kp ++ [c]) k) \/ ~ (exists c, In c names /\ under (kp ++ [c]) k).
Proof.
  induction names as [|c names IH]; intros kp k.
  - right. intros [c [[] _]].
  - destruct (under_dec (kp ++ [c]) k) as [H|H].
    + left. exists c. split; [left; reflexivity | exact H].
    + destruct (IH kp k) as [[c' [Hi Hu]]|Hn].
      * left. exists c'. split; [right; exact Hi | exact Hu].
      * right. intros [c' [[E|Hi] Hu]]; [subst c'; contradiction|].
        apply Hn. exists c'. split; assumption.
Qed.

Lemma is_dir_info_of : forall x n, is_dir_info (info_of x n) = is_dir n.
Proof. intros x [m|m c|m t]; reflexivity. Qed.

Section Walk.
  Variable hs : list str.
  Hypothesis Hhs : Forall abs_cleaned hs.
  Let self := layered_with (hidden_layer hs) osfs null_api.
  Let fn := hidden_walk_fn hs self.

  Lemma fn_hidden : forall k acc info w,
    good_key k -> khidb hs k = true -> fn acc (kpath k) info w = (MOk acc, w).
  Proof.
    intros k acc info w Hk Hh. unfold fn, hidden_walk_fn.
    rewrite (is_hidden_kpath hs Hhs k Hk), Hh. reflexivity.
  Qed.

  Lemma fn_dir : forall k acc info w,
    good_key k -> khidb hs k = false -> is_dir_info info = true ->
    fn acc (kpath k) info w = (MOk (acc ++ [kpath k]), w).
  Proof.
    intros k acc info w Hk Hh Hi. unfold fn, hidden_walk_fn.
    rewrite (is_hidden_kpath hs Hhs k Hk), Hh, Hi. reflexivity.
  Qed.

  Lemma fn_file : forall k acc info w0 g clk n,
    good_key k -> khidb hs k = false -> is_dir_info info = false ->
    pre_ok g k -> g !! k = Some n -> is_dir n = false ->
    fn acc (kpath k) info (setst w0 (mkFstate g clk)) =
      (MOk acc, setst w0 (mkFstate (touch_dir (base.delete k g) (removelast k) (Now clk)) (N.succ clk))).
  Proof.
    intros k acc info w0 g clk n Hk Hh Hi Hp Hn Hnd. unfold fn, hidden_walk_fn.
    rewrite (is_hidden_kpath hs Hhs k Hk), Hh, Hi.
    unfold bind. fold self.
    rewrite (self_remove_run hs (kpath k) _ (eq_trans (is_hidden_kpath hs Hhs k Hk) (f_equal Some Hh))).
    rewrite os_remove_run.
    rewrite (fs_remove_direct_nondir (mkFstate g clk) (kpath k) n).
    - cbn [fst snd]. rewrite (comps_kp k Hk). reflexivity.
    - apply direct_kpath; assumption.
    - rewrite (comps_kp k Hk). exact Hn.
    - exact Hnd.
  Qed.

  Lemma lstat_key_run : forall k g clk n w0,
    good_key k -> pre_ok g k -> g !! k = Some n ->
    a_lstat osfs (kpath k) (setst w0 (mkFstate g clk)) =
      (MOk (info_of (base (kpath k)) n), setst w0 (mkFstate g clk)).
  Proof.
    intros k g clk n w0 Hk Hp Hn. rewrite os_lstat_run.
    rewrite (fs_lstat_direct (mkFstate g clk) (kpath k) (direct_kpath g k Hk Hp)).
    cbn [st_fs]. rewrite (comps_kp k Hk). norm_keys. rewrite Hn. reflexivity.
  Qed.

  Lemma read_dir_key_run : forall k g clk m w0,
    good_key k -> pre_ok g k -> g !! k = Some (Dir m) ->
    read_dir_names osfs (kpath k) (setst w0 (mkFstate g clk)) =
      (MOk (sort_strings (child_names g k)), setst w0 (mkFstate g clk)).
  Proof.
    intros k g clk m w0 Hk Hp Hm.
    rewrite (os_read_dir_names_run (kpath k) w0 (mkFstate g clk) m).
    - cbn [st_fs]. rewrite (comps_kp k Hk). reflexivity.
    - apply direct_kpath; assumption.
    - cbn [st_fs]. rewrite (comps_kp k Hk). exact Hm.
  Qed.

  Definition walk_post (kp : key) (g g' : fs) (DK : list key) : Prop :=
    rel hs (under kp) (eq (removelast kp)) g g' /\
    NoDup DK /\
    (forall k, In k DK <-> under kp k /\ khidb hs k = false /\ is_dir_at g k).

  Definition walk_spec_at (F : nat) : Prop :=
    forall kp g clk n info acc w0,
      good_key kp -> pre_ok g kp -> g !! kp = Some n -> is_dir_info info = is_dir n ->
      sub_ok g kp F ->
      exists g' clk' DK,
        walk_fold F osfs (kpath kp) info fn acc (setst w0 (mkFstate g clk))
          = (MOk (acc ++ map kpath DK), setst w0 (mkFstate g' clk')) /\
        walk_post kp g g' DK.

  Definition in_children (names : list str) (kp k : key) : Prop :=
    exists c, In c names /\ under (kp ++ [c]) k.

  Lemma children_spec : forall F, walk_spec_at F ->
    forall names kp g clk acc w0,
      NoDup names -> good_key kp -> pre_ok g kp -> is_dir_at g kp ->
      (forall c, In c names -> exists n, g !! (kp ++ [c]) = Some n /\ sub_ok g (kp ++ [c]) F) ->
      exists g' clk' DK,
        mfold (fun a name =>
                 fi <- a_lstat osfs (join2 (kpath kp) name) ;;
                 walk_fold F osfs (join2 (kpath kp) name) fi fn a) names acc
              (setst w0 (mkFstate g clk))
          = (MOk (acc ++ map kpath DK), setst w0 (mkFstate g' clk')) /\
        rel hs (in_children names kp) (eq kp) g g' /\
        NoDup DK /\
        (forall k, In k DK <-> in_children names kp k /\ khidb hs k = false /\ is_dir_at g k).
  Proof.
    intros F IHF. induction names as [|c names IH]; intros kp g clk acc w0 Hnd Hk Hp Hd Hch.
    - exists g, clk, []. cbn [mfold map]. rewrite app_nil_r. split; [reflexivity|]. split; [|split].
      + apply rel_refl_hidden. intros k [c [[] _]].
      + constructor.
      + intro k. split; [intros [] | intros [[c [[] _]] _]].
    - inversion Hnd as [|c' l' Hnin Hnd']; subst.
      destruct (Hch c (or_introl eq_refl)) as [n [Hn Hsub]].
      assert (Hkc : good_key (kp ++ [c])).
      { destruct Hsub as (_ & Hg & _). specialize (Hg [] n). rewrite app_nil_r in Hg. exact (Hg Hn). }
      assert (Hc1 : good_key [c]) by (apply good_key_app in Hkc; exact (proj2 Hkc)).
      pose proof (pre_ok_child g kp c Hp Hd) as Hpc.
      destruct (IHF (kp ++ [c]) g clk n (info_of (base (kpath (kp ++ [c]))) n) acc w0
                  Hkc Hpc Hn (is_dir_info_of _ n) Hsub)
        as (g1 & clk1 & DK1 & Hrun1 & Hrel1 & Hnd1 & Hin1).
      rewrite removelast_snoc in Hrel1.
      (* the state after the first child still satisfies the hypotheses for the others *)
      assert (Heq1 : forall c' r, c' <> c -> g1 !! ((kp ++ [c']) ++ r) = g !! ((kp ++ [c']) ++ r)).
      { intros c' r Hne. destruct (Hrel1 ((kp ++ [c']) ++ r)) as (_ & _ & _ & E). apply E.
        - intro Hu. apply Hne. symmetry. eapply under_snoc_neq; [exact Hu | apply under_app].
        - intro E0. apply (not_under_snoc_self kp c'). exists r. exact E0. }
      assert (Hout1 : forall k, ~ under (kp ++ [c]) k -> onode_eqv (g !! k) (g1 !! k)).
      { intros k Hn0. destruct (Hrel1 k) as (_ & _ & E & _). apply E. exact Hn0. }
      assert (Hd1 : is_dir_at g1 kp).
      { eapply onode_eqv_is_dir; [|exact Hd]. apply Hout1. apply not_under_snoc_self. }
      assert (Hp1 : pre_ok g1 kp).
      { intros pre r Hr E. eapply onode_eqv_is_dir; [|exact (Hp pre r Hr E)]. apply Hout1.
        intros [r' E']. subst kp. rewrite <- !app_assoc in E'.
        rewrite <- (app_nil_r pre) in E' at 1. apply app_inv_head in E'.
        destruct r; [contradiction Hr; reflexivity | discriminate E']. }
      assert (Hch1 : forall c', In c' names ->
                exists n', g1 !! (kp ++ [c']) = Some n' /\ sub_ok g1 (kp ++ [c']) F).
      { intros c' Hi. assert (Hne : c' <> c) by (intro E; subst c'; contradiction).
        destruct (Hch c' (or_intror Hi)) as [n' [Hn' Hsub']]. exists n'. split.
        - pose proof (Heq1 c' [] Hne) as E. rewrite !app_nil_r in E. rewrite E. exact Hn'.
        - eapply sub_ok_transport; [exact Hsub'|]. intro r. apply Heq1. exact Hne. }
      destruct (IH kp g1 clk1 (acc ++ map kpath DK1) w0 Hnd' Hk Hp1 Hd1 Hch1)
        as (g2 & clk2 & DK2 & Hrun2 & Hrel2 & Hnd2 & Hin2).
      exists g2, clk2, (DK1 ++ DK2). split; [|split; [|split]].
      + cbn [mfold].
        assert (Hstep : (fi <- a_lstat osfs (join2 (kpath kp) c) ;;
                         walk_fold F osfs (join2 (kpath kp) c) fi fn acc)
                          (setst w0 (mkFstate g clk))
                        = (MOk (acc ++ map kpath DK1), setst w0 (mkFstate g1 clk1))).
        { rewrite (join2_kpath kp c Hk Hc1).
          rewrite (bind_ok _ _ _ _ _ _ _ (lstat_key_run (kp ++ [c]) g clk n w0 Hkc Hpc Hn)).
          exact Hrun1. }
        rewrite (bind_ok _ _ _ _ _ _ _ Hstep). rewrite Hrun2.
        rewrite map_app, app_assoc. reflexivity.
      + assert (R : rel hs (fun k => under (kp ++ [c]) k \/ in_children names kp k) (eq kp) g g2).
        { apply (rel_comp hs _ _ _ g g1 g2); [apply under_dec | apply exists_child_dec | exact Hrel1 | exact Hrel2]. }
        intro k. destruct (R k) as (A & B & C & E).
        assert (Hiff : in_children (c :: names) kp k <-> under (kp ++ [c]) k \/ in_children names kp k).
        { unfold in_children. split.
          - intros [c' [[E0|Hi] Hu]]; [subst c'; left; exact Hu | right; exists c'; split; assumption].
          - intros [Hu|[c' [Hi Hu]]]; [exists c; split; [left; reflexivity | exact Hu]
                                      | exists c'; split; [right; exact Hi | exact Hu]]. }
        split; [exact A|]. split; [|split].
        * intros Hh Hu. apply B; [exact Hh | apply Hiff; exact Hu].
        * intro Hn0. apply C. intro Hu. apply Hn0. apply Hiff. exact Hu.
        * intros Hn0 Ht. apply E; [|exact Ht]. intro Hu. apply Hn0. apply Hiff. exact Hu.
      + apply NoDup_app_intro; [exact Hnd1 | exact Hnd2 |].
        intros k H1 H2.
        apply Hin1 in H1. apply Hin2 in H2.
        destruct H1 as [Hu1 _]. destruct H2 as [[c' [Hi Hu2]] _].
        apply Hnin. rewrite (under_snoc_neq kp c c' k Hu1 Hu2). exact Hi.
      + intro k. rewrite in_app_iff, Hin1, Hin2. split.
        * intros [(Hu & Hh & Hdk)|([c' [Hi Hu]] & Hh & Hdk)].
          -- split; [exists c; split; [left; reflexivity | exact Hu]|]. split; assumption.
          -- split; [exists c'; split; [right; exact Hi | exact Hu]|]. split; [exact Hh|].
             destruct Hu as [r Er]. subst k.
             assert (Hne : c' <> c) by (intro E; subst c'; contradiction).
             destruct Hdk as [m Hm]. exists m. pose proof (Heq1 c' r Hne) as E1.
             norm_keys. rewrite <- E1. exact Hm.
        * intros ([c' [[E|Hi] Hu]] & Hh & Hdk).
          -- subst c'. left. split; [exact Hu|]. split; assumption.
          -- right. split; [exists c'; split; assumption|]. split; [exact Hh|].
             destruct Hu as [r Er]. subst k.
             assert (Hne : c' <> c) by (intro E; subst c'; contradiction).
             destruct Hdk as [m Hm]. exists m. pose proof (Heq1 c' r Hne) as E1.
             norm_keys. rewrite E1. exact Hm.
  Qed.

  Lemma walk_fold_S : forall (A : Type) F b p info (f : A -> str -> finfo -> M A) acc,
    walk_fold (S F) b p info f acc =
      (acc1 <- f acc p info ;;
       if is_dir_info info then
         names <- read_dir_names b p ;;
         mfold (fun a name =>
                  fi <- a_lstat b (join2 p name) ;;
                  walk_fold F b (join2 p name) fi f a) names acc1
       else ret acc1).
  Proof. reflexivity. Qed.

  (** the listing of a directory and the subtrees of its entries *)
  Lemma children_of_dir : forall g kp F m,
    g !! kp = Some (Dir m) -> sub_ok g kp (S F) ->
    let names := sort_strings (child_names g kp) in
    NoDup names /\
    (forall c, In c names -> exists n, g !! (kp ++ [c]) = Some n /\ sub_ok g (kp ++ [c]) F) /\
    (forall k, under kp k -> k <> kp -> ~ in_children names kp k -> g !! k = None).
  Proof.
    intros g kp F m Hm Hsub names. split; [|split].
    - apply sort_strings_NoDup. apply child_names_NoDup.
    - intros c Hc. apply sort_strings_In, child_names_In' in Hc. destruct Hc as [n Hn].
      exists n. split; [exact Hn | apply sub_ok_child; exact Hsub].
    - intros k [r E] Hne Hnc. subst k. destruct r as [|c r].
      + contradiction Hne. apply app_nil_r.
      + destruct (g !! (kp ++ [c])) as [n|] eqn:Ec.
        * exfalso. apply Hnc. exists c. split.
          -- apply sort_strings_In, child_names_In'. exists n. exact Ec.
          -- exists r. rewrite <- app_assoc. reflexivity.
        * destruct r as [|d r]; [exact Ec|].
          change (kp ++ c :: d :: r) with (kp ++ [c] ++ d :: r). rewrite app_assoc.
          apply (sub_ok_below_nondir g (kp ++ [c]) F (sub_ok_child g kp F c Hsub)).
          -- intros [m' Hm']. norm_keys. rewrite Ec in Hm'. discriminate Hm'.
          -- discriminate.
  Qed.

  Theorem walk_spec : forall F, walk_spec_at F.
  Proof.
    induction F as [|F IHF]; intros kp g clk n info acc w0 Hk Hp Hn Hi Hsub.
    - exfalso. destruct Hsub as (_ & _ & Hd). specialize (Hd [] n). rewrite app_nil_r in Hd.
      specialize (Hd Hn). simpl in Hd. lia.
    - rewrite walk_fold_S.
      destruct n as [m|m c|m t].
      + (* a directory *)
        simpl in Hi.
        destruct (children_of_dir g kp F m Hn Hsub) as (Hnd & Hch & Hrest).
        set (names := sort_strings (child_names g kp)) in *.
        assert (Hd : is_dir_at g kp) by (exists m; exact Hn).
        destruct (khidb hs kp) eqn:Hh.
        * (* hidden: traversed, nothing happens *)
          rewrite (bind_ok _ _ _ _ _ _ _ (fn_hidden kp acc info _ Hk Hh)). rewrite Hi.
          rewrite (bind_ok _ _ _ _ _ _ _ (read_dir_key_run kp g clk m w0 Hk Hp Hn)).
          destruct (children_spec F IHF names kp g clk acc w0 Hnd Hk Hp Hd Hch)
            as (g' & clk' & DK & Hrun & Hrel & HndK & HinK).
          exists g', clk', DK. split; [exact Hrun|]. split; [|split; [exact HndK|]].
          -- apply (rel_weaken hs (in_children names kp) (under kp) (eq kp) (eq (removelast kp)) g g' Hrel).
             ++ intros k [c [_ Hu]]. eapply under_trans; [|exact Hu]. apply under_app.
             ++ intros k E. subst k. left. apply under_refl.
             ++ intros k Hu _ Hhk. rewrite (khidb_under hs kp k Hh Hu) in Hhk. discriminate Hhk.
             ++ apply exists_child_dec.
          -- intro k. rewrite HinK. split.
             ++ intros ([c [_ Hu]] & Hhk & Hdk). split; [|split; assumption].
                eapply under_trans; [|exact Hu]. apply under_app.
             ++ intros (Hu & Hhk & Hdk). rewrite (khidb_under hs kp k Hh Hu) in Hhk. discriminate Hhk.
        * (* not hidden: collected *)
          rewrite (bind_ok _ _ _ _ _ _ _ (fn_dir kp acc info _ Hk Hh Hi)). rewrite Hi.
          rewrite (bind_ok _ _ _ _ _ _ _ (read_dir_key_run kp g clk m w0 Hk Hp Hn)).
          destruct (children_spec F IHF names kp g clk (acc ++ [kpath kp]) w0 Hnd Hk Hp Hd Hch)
            as (g' & clk' & DK & Hrun & Hrel & HndK & HinK).
          exists g', clk', (kp :: DK). split; [|split; [|split]].
          -- rewrite <- app_assoc in Hrun. exact Hrun.
          -- apply (rel_weaken hs (in_children names kp) (under kp) (eq kp) (eq (removelast kp)) g g' Hrel).
             ++ intros k [c [_ Hu]]. eapply under_trans; [|exact Hu]. apply under_app.
             ++ intros k E. subst k. left. apply under_refl.
             ++ intros k Hu Hnc _. destruct (Hrel k) as (_ & _ & C & _).
                destruct (list_eq_dec str_eq_dec k kp) as [E|Hne].
                ** subst k. eapply eqv_kept_dir; [apply onode_eqv_refl|].
                   specialize (C Hnc). norm_keys. rewrite Hn in *. simpl.
                   apply onode_eqv_dir_l in C. exact C.
                ** pose proof (Hrest k Hu Hne Hnc) as E0. specialize (C Hnc).
                   norm_keys. rewrite E0 in *. simpl. apply onode_eqv_none_l. exact C.
             ++ apply exists_child_dec.
          -- constructor; [|exact HndK]. intro Hin. apply HinK in Hin.
             destruct Hin as [[c [_ Hu]] _]. exact (not_under_snoc_self kp c Hu).
          -- intro k. cbn [In]. rewrite HinK. split.
             ++ intros [E|([c [_ Hu]] & Hhk & Hdk)].
                ** subst k. split; [apply under_refl|]. split; assumption.
                ** split; [|split; assumption]. eapply under_trans; [|exact Hu]. apply under_app.
             ++ intros (Hu & Hhk & Hdk).
                destruct (list_eq_dec str_eq_dec k kp) as [E|Hne]; [left; symmetry; exact E|].
                right. split; [|split; assumption].
                destruct (exists_child_dec names kp k) as [Hc|Hnc]; [exact Hc|].
                exfalso. destruct Hdk as [m' Hm']. rewrite (Hrest k Hu Hne Hnc) in Hm'. discriminate Hm'.
      + (* a file *)
        simpl in Hi.
        assert (Hbelow : forall r, r <> [] -> g !! (kp ++ r) = None).
        { apply (sub_ok_below_nondir g kp (S F) Hsub). intros [m' Hm']. norm_keys. rewrite Hn in Hm'. discriminate Hm'. }
        destruct (khidb hs kp) eqn:Hh.
        * rewrite (bind_ok _ _ _ _ _ _ _ (fn_hidden kp acc info _ Hk Hh)). rewrite Hi.
          exists g, clk, []. cbn [map]. rewrite app_nil_r. split; [reflexivity|]. split; [|split].
          -- apply rel_refl_hidden. intros k Hu. exact (khidb_under hs kp k Hh Hu).
          -- constructor.
          -- intro k. split; [intros []|]. intros (Hu & Hhk & _).
             rewrite (khidb_under hs kp k Hh Hu) in Hhk. discriminate Hhk.
        * rewrite (bind_ok _ _ _ _ _ _ _ (fn_file kp acc info w0 g clk (File m c) Hk Hh Hi Hp Hn eq_refl)). rewrite Hi.
          eexists _, _, []. cbn [map]. rewrite app_nil_r. split; [reflexivity|]. split; [|split].
          -- apply rel_remove_entry; [exact Hh | exact Hbelow |]. norm_keys. rewrite Hn. exact I.
          -- constructor.
          -- intro k. split; [intros []|]. intros ([r E] & _ & [m' Hm']). subst k.
             destruct r as [|x r].
             ++ rewrite app_nil_r in Hm'. norm_keys. rewrite Hn in Hm'. discriminate Hm'.
             ++ rewrite Hbelow in Hm' by discriminate. discriminate Hm'.
      + (* a symlink: removed like a file, never followed *)
        simpl in Hi.
        assert (Hbelow : forall r, r <> [] -> g !! (kp ++ r) = None).
        { apply (sub_ok_below_nondir g kp (S F) Hsub). intros [m' Hm']. norm_keys. rewrite Hn in Hm'. discriminate Hm'. }
        destruct (khidb hs kp) eqn:Hh.
        * rewrite (bind_ok _ _ _ _ _ _ _ (fn_hidden kp acc info _ Hk Hh)). rewrite Hi.
          exists g, clk, []. cbn [map]. rewrite app_nil_r. split; [reflexivity|]. split; [|split].
          -- apply rel_refl_hidden. intros k Hu. exact (khidb_under hs kp k Hh Hu).
          -- constructor.
          -- intro k. split; [intros []|]. intros (Hu & Hhk & _).
             rewrite (khidb_under hs kp k Hh Hu) in Hhk. discriminate Hhk.
        * rewrite (bind_ok _ _ _ _ _ _ _ (fn_file kp acc info w0 g clk (Link m t) Hk Hh Hi Hp Hn eq_refl)). rewrite Hi.
          eexists _, _, []. cbn [map]. rewrite app_nil_r. split; [reflexivity|]. split; [|split].
          -- apply rel_remove_entry; [exact Hh | exact Hbelow |]. norm_keys. rewrite Hn. exact I.
          -- constructor.
          -- intro k. split; [intros []|]. intros ([r E] & _ & [m' Hm']). subst k.
             destruct r as [|x r].
             ++ rewrite app_nil_r in Hm'. norm_keys. rewrite Hn in Hm'. discriminate Hm'.
             ++ rewrite Hbelow in Hm' by discriminate. discriminate Hm'.
  Qed.
End Walk.

(* ------------------------------------------------------------------ *)
(** * E. Removing the collected directories, deepest first *)

(** [g2] results from [g1] by removing the (then empty) directories [R] *)
Definition rel2 (R : key -> Prop) (g1 g2 : fs) : Prop :=
  forall k,
    (R k -> g2 !! k = None) /\
    (~ R k -> onode_eqv (g1 !! k) (g2 !! k)) /\
    (~ R k -> (forall k', R k' -> k <> removelast k') -> g2 !! k = g1 !! k).

Lemma rel2_iff : forall (R R' : key -> Prop) g1 g2,
  (forall k, R k <-> R' k) -> rel2 R g1 g2 -> rel2 R' g1 g2.
Proof.
  intros R R' g1 g2 H H2 k. destruct (H2 k) as (A & B & C). split; [|split].
  - intro Hr. apply A. apply H. exact Hr.
  - intro Hn. apply B. intro Hr. apply Hn. apply H. exact Hr.
  - intros Hn Hp. apply C.
    + intro Hr. apply Hn. apply H. exact Hr.
    + intros k' Hr. apply Hp. apply H. exact Hr.
Qed.

Lemma rel2_refl : forall (R : key -> Prop) g, (forall k, ~ R k) -> rel2 R g g.
Proof.
  intros R g Hn k. split; [|split].
  - intro Hr. destruct (Hn k Hr).
  - intros _. apply onode_eqv_refl.
  - reflexivity.
Qed.

Lemma sub_ok_sub : forall g kp F r1, sub_ok g kp F -> sub_ok g (kp ++ r1) F.
Proof.
  intros g kp F r1 (Hb & Hc & Hd). split; [|split].
  - intros r n Hr E. rewrite <- app_assoc in *. apply (Hb _ n); [|exact E].
    intro E0. apply app_eq_nil in E0. destruct E0 as [_ E0]. contradiction.
  - intros r n E. rewrite <- app_assoc in *. exact (Hc _ n E).
  - intros r n E. rewrite <- app_assoc in E. apply Hd in E. rewrite app_length in E. lia.
Qed.

Lemma sub_prefix_dir : forall g kp F r1 r2 n,
  sub_ok g kp F -> r2 <> [] -> g !! (kp ++ r1 ++ r2) = Some n -> is_dir_at g (kp ++ r1).
Proof.
  intros g kp F r1 r2 n Hsub Hr Hn.
  destruct (is_dir_at_decidable g (kp ++ r1)) as [H|H]; [exact H|]. exfalso.
  pose proof (sub_ok_below_nondir g (kp ++ r1) F (sub_ok_sub g kp F r1 Hsub) H r2 Hr) as E.
  rewrite <- app_assoc in E. norm_keys. rewrite E in Hn. discriminate Hn.
Qed.

Section Removal.
  Variable hs : list str.
  Hypothesis Hhs : Forall abs_cleaned hs.

  Definition rm_step (d : str) : M unit :=
    match is_parent_of_hidden d hs with
    | None => fail (ELayer EHiddenCheck)
    | Some true => ret tt
    | Some false => a_remove osfs d
    end.

  Variable g1 : fs.
  Variable LK : list key.
  Hypothesis Hnd : NoDup LK.
  Hypothesis H1 : forall k, In k LK ->
    good_key k /\ is_dir_at g1 k /\ pre_ok g1 k /\ (k <> [] \/ kancb hs k = true).
  Hypothesis H2 : forall k r, In k LK -> kancb hs k = false -> r <> [] ->
    g1 !! (k ++ r) <> None -> In (k ++ r) LK /\ kancb hs (k ++ r) = false.
  Hypothesis H3 : forall pre x post, LK = pre ++ x :: post ->
    forall r, r <> [] -> ~ In (x ++ r) post.

  Let Rof (pre : list key) (k : key) : Prop := In k pre /\ kancb hs k = false.

  Lemma Rof_dec : forall pre k, Rof pre k \/ ~ Rof pre k.
  Proof.
    intros pre k. unfold Rof.
    destruct (in_dec (list_eq_dec str_eq_dec) k pre) as [Hi|Hi]; [|right; tauto].
    destruct (kancb hs k); [right; intros [_ E]; discriminate E | left; tauto].
  Qed.

  Lemma removal_spec : forall post pre g2 clk w0,
    LK = pre ++ post -> rel2 (Rof pre) g1 g2 ->
    exists g3 clk',
      miter rm_step (map kpath post) (setst w0 (mkFstate g2 clk))
        = (MOk tt, setst w0 (mkFstate g3 clk')) /\
      rel2 (Rof LK) g1 g3.
  Proof.
    induction post as [|x post IH]; intros pre g2 clk w0 E R2.
    - exists g2, clk. split; [reflexivity|]. rewrite app_nil_r in E. subst pre. exact R2.
    - assert (Hx : In x LK) by (rewrite E; apply in_or_app; right; left; reflexivity).
      destruct (H1 x Hx) as (Hgx & Hdx & Hpx & Hnx).
      assert (E' : LK = (pre ++ [x]) ++ post) by (rewrite <- app_assoc; exact E).
      assert (Hxpre : ~ In x pre).
      { intro Hi. rewrite E in Hnd. apply NoDup_remove_2 in Hnd. apply Hnd. apply in_or_app. left. exact Hi. }
      cbn [map miter]. unfold rm_step at 1. rewrite (is_parent_kpath hs Hhs x Hgx).
      destruct (kancb hs x) eqn:Ha.
      + (* an ancestor of a hidden path: left alone *)
        unfold bind, ret. apply (IH (pre ++ [x]) g2 clk w0 E').
        eapply rel2_iff; [|exact R2]. intro k. unfold Rof. rewrite in_app_iff. split.
        * intros [Hi Hk]. split; [left; exact Hi | exact Hk].
        * intros [[Hi|[Ex|[]]] Hk]; [split; assumption|]. subst k. congruence.
      + (* removed: it is empty by now *)
        assert (Hnr : forall p, under p x -> ~ Rof pre p).
        { intros p [r Er] [Hi _]. destruct r as [|y r].
          - rewrite app_nil_r in Er. subst p. contradiction.
          - apply in_split in Hi. destruct Hi as [a [b Eab]]. subst pre.
            rewrite <- app_assoc in E. simpl in E.
            apply (H3 a p (b ++ x :: post) E (y :: r)); [discriminate|].
            rewrite <- Er. apply in_or_app. right. left. reflexivity. }
        assert (Hp2 : pre_ok g2 x).
        { intros p r Hr Er. destruct (R2 p) as (_ & B & _).
          eapply onode_eqv_is_dir; [apply B | exact (Hpx p r Hr Er)].
          apply Hnr. exists r. exact Er. }
        destruct Hdx as [m Hm].
        assert (Hm2 : exists m2, g2 !! x = Some (Dir m2)).
        { destruct (R2 x) as (_ & B & _). specialize (B (Hnr x (under_refl x))).
          norm_keys. rewrite Hm in B. apply onode_eqv_dir_l in B. destruct B as [m2 [B _]]. exists m2. exact B. }
        destruct Hm2 as [m2 Hm2].
        assert (Hne : x <> []) by (destruct Hnx as [Hnx|Hnx]; [exact Hnx | congruence]).
        assert (Hempty : has_children g2 x = false).
        { apply has_children_false_iff. intros r Hr.
          destruct (Rof_dec pre (x ++ r)) as [Hrr|Hrr].
          - destruct (R2 (x ++ r)) as (A & _). exact (A Hrr).
          - destruct (R2 (x ++ r)) as (_ & B & _). specialize (B Hrr).
            norm_keys. destruct (g1 !! (x ++ r)) as [n1|] eqn:E1.
            + exfalso. assert (Hn1 : g1 !! (x ++ r) <> None) by (rewrite E1; discriminate).
              destruct (H2 x r Hx Ha Hr Hn1) as [Hi Hk].
              rewrite E in Hi. apply in_app_or in Hi. destruct Hi as [Hi|[Hi|Hi]].
              * apply Hrr. split; assumption.
              * rewrite <- (app_nil_r x) in Hi at 1. apply app_inv_head in Hi. apply Hr. symmetry. exact Hi.
              * exact (H3 pre x post E r Hr Hi).
            + apply onode_eqv_none_l. exact B. }
        assert (Hrun : a_remove osfs (kpath x) (setst w0 (mkFstate g2 clk)) =
                 (MOk tt, setst w0 (mkFstate (touch_dir (base.delete x g2) (removelast x) (Now clk))
                                             (N.succ clk)))).
        { rewrite os_remove_run. rewrite (fs_remove_direct_emptydir (mkFstate g2 clk) (kpath x) m2).
          - cbn [fst snd]. rewrite (comps_kp x Hgx). reflexivity.
          - apply direct_kpath; assumption.
          - cbn [st_fs]. rewrite (comps_kp x Hgx). exact Hm2.
          - rewrite (comps_kp x Hgx). exact Hne.
          - cbn [st_fs]. rewrite (comps_kp x Hgx). exact Hempty. }
        rewrite (bind_ok _ _ _ _ _ _ _ Hrun).
        apply (IH (pre ++ [x]) _ _ w0 E').
        intro k. destruct (R2 k) as (A & B & C). split; [|split].
        * intros [Hi Hk]. apply in_app_or in Hi. destruct Hi as [Hi|[Ex|[]]].
          -- destruct (list_eq_dec str_eq_dec k x) as [Ekx|Nkx]; [subst k; apply rm_lookup_self|].
             apply onode_eqv_none_l. rewrite <- (A (conj Hi Hk)). apply rm_lookup_eqv. exact Nkx.
          -- subst k. apply rm_lookup_self.
        * intro Hn.
          assert (Nkx : k <> x).
          { intro Ex. subst k. apply Hn. split; [apply in_or_app; right; left; reflexivity | exact Ha]. }
          assert (Hn' : ~ Rof pre k).
          { intros [Hi Hk]. apply Hn. split; [apply in_or_app; left; exact Hi | exact Hk]. }
          eapply onode_eqv_trans; [exact (B Hn') | apply rm_lookup_eqv; exact Nkx].
        * intros Hn Hpar.
          assert (Nkx : k <> x).
          { intro Ex. subst k. apply Hn. split; [apply in_or_app; right; left; reflexivity | exact Ha]. }
          assert (Hn' : ~ Rof pre k).
          { intros [Hi Hk]. apply Hn. split; [apply in_or_app; left; exact Hi | exact Hk]. }
          rewrite rm_lookup_other; [|exact Nkx|].
          -- apply C; [exact Hn'|]. intros k' [Hi Hk]. apply Hpar.
             split; [apply in_or_app; left; exact Hi | exact Hk].
          -- apply Hpar. split; [apply in_or_app; right; left; reflexivity | exact Ha].
  Qed.
End Removal.

(* ------------------------------------------------------------------ *)
(** * F. The effect of [HiddenFS.RemoveAll] *)

(** The tree [f'] after [RemoveAll] at the key [kn] of a not-hidden name,
    given the tree [f] before. *)
Definition removeall_effect (hs : list str) (kn : key) (f f' : fs) : Prop :=
  forall k,
    (* hidden entries: untouched *)
    (hidden_key hs k -> f' !! k = f !! k) /\
    (* outside the removed tree: untouched but for the mtime of its parent directory *)
    (~ under kn k -> onode_eqv (f !! k) (f' !! k) /\ (k <> removelast kn -> f' !! k = f !! k)) /\
    (* the directories (lexically) leading to a hidden path: kept *)
    (under kn k -> ~ hidden_key hs k -> anc_key hs k ->
     forall m, f !! k = Some (Dir m) -> exists m', f' !! k = Some (Dir m') /\ meta_eq_nomt m m') /\
    (* everything else: removed *)
    (under kn k -> ~ hidden_key hs k -> (~ anc_key hs k \/ ~ is_dir_at f k) -> f' !! k = None).

Lemma try_ok : forall (A : Type) (m : M A) w a w', m w = (MOk a, w') -> try_ m w = (MOk (Ok a), w').
Proof. intros A m w a w' H. unfold try_. rewrite H. reflexivity. Qed.

Lemma try_err : forall (A : Type) (m : M A) w e w', m w = (MErr e, w') -> try_ m w = (MOk (Err e), w').
Proof. intros A m w e w' H. unfold try_. rewrite H. reflexivity. Qed.

Lemma hidden_norm_abs_cleaned : forall hs0,
  Forall (fun h => is_abs h = true) hs0 -> Forall abs_cleaned (hidden_norm hs0).
Proof.
  intros hs0 H. apply List.Forall_forall. intros x Hx. unfold hidden_norm, sort_most in Hx.
  apply (Permutation_in _ (isort_perm most _)) in Hx. apply in_map_iff in Hx.
  destruct Hx as [y [E Hy]]. subst x. rewrite List.Forall_forall in H. split.
  - apply cleaned_clean.
  - rewrite is_abs_clean. apply H. exact Hy.
Qed.

Section Final.
  Variable hs : list str.
  Hypothesis Hhs : Forall abs_cleaned hs.

  Lemma removal_after_walk : forall g kn F g1 DK clk w0,
    good_key kn -> pre_ok g kn -> sub_ok g kn F -> khidb hs kn = false ->
    (kn <> [] \/ kancb hs kn = true) ->
    walk_post hs kn g g1 DK ->
    exists g3 clk',
      miter (rm_step hs) (sort_most (map kpath DK)) (setst w0 (mkFstate g1 clk))
        = (MOk tt, setst w0 (mkFstate g3 clk')) /\
      rel2 (fun k => In k DK /\ kancb hs k = false) g1 g3.
  Proof.
    intros g kn F g1 DK clk w0 Hk Hp Hsub Hh Hroot (Hrel & HndK & HinK).
    assert (Hgood : forall k, In k DK -> good_key k).
    { intros k Hi. apply HinK in Hi. destruct Hi as ([r E] & _ & [m Hm]). subst k.
      destruct Hsub as (_ & Hc & _). exact (Hc r _ Hm). }
    assert (HndP : NoDup (map kpath DK)).
    { apply NoDup_map_inj_on; [|exact HndK]. intros a b Ha Hb. apply kpath_inj; apply Hgood; assumption. }
    destruct (sort_most_ok (map kpath DK) HndP) as [Hperm Hsorted].
    destruct (Permutation_map_inv kpath _ Hperm) as [LK [ELK HpermK]].
    assert (HinLK : forall k, In k LK <-> In k DK).
    { intro k. split; apply Permutation_in; [apply Permutation_sym|]; exact HpermK. }
    assert (Hkept : forall k, under kn k -> khidb hs k = false -> is_dir_at g k -> is_dir_at g1 k).
    { intros k Hu Hhk [m Hm]. destruct (Hrel k) as (_ & B & _). specialize (B Hhk Hu).
      norm_keys. rewrite Hm in B. destruct B as [m' [B _]]. exists m'. exact B. }
    rewrite ELK.
    destruct (removal_spec hs Hhs g1 LK) with (post := LK) (pre := @nil key) (g2 := g1) (clk := clk) (w0 := w0)
      as (g3 & clk' & Hrun & Hrel2).
    - eapply Permutation_NoDup; [exact HpermK | exact HndK].
    - (* H1 *)
      intros k Hi. apply HinLK in Hi. pose proof (Hgood k Hi) as Hgk.
      apply HinK in Hi. destruct Hi as (Hu & Hhk & Hdk).
      split; [exact Hgk|]. split; [exact (Hkept k Hu Hhk Hdk)|]. split.
      + intros p r Hr Er. destruct Hu as [t Et].
        assert (Hup : under p (kn ++ t)) by (exists r; congruence).
        destruct (prefix_app_cases p kn t Hup) as [[t' Et']|[t' [Ht' Et']]].
        * destruct t' as [|y t'].
          -- rewrite app_nil_r in Et'. subst p. apply (Hkept kn (under_refl kn) Hh).
             destruct t as [|z t].
             ++ rewrite app_nil_r in Et. subst k. exact Hdk.
             ++ destruct Hdk as [m Hm]. subst k. rewrite <- (app_nil_r kn).
                apply (sub_prefix_dir g kn F [] (z :: t) (Dir m) Hsub); [discriminate | exact Hm].
          -- destruct (Hrel p) as (_ & _ & C & _). eapply onode_eqv_is_dir; [apply C|].
             ++ intros [t'' Et'']. subst kn. rewrite <- app_assoc in Et''.
                rewrite <- (app_nil_r p) in Et'' at 1. apply app_inv_head in Et''. discriminate Et''.
             ++ apply (Hp p (y :: t')); [discriminate | exact Et'].
        * subst p. subst k. rewrite <- app_assoc in Er. apply app_inv_head in Er. subst t.
          apply Hkept; [apply under_app| |].
          -- destruct (khidb hs (kn ++ t')) eqn:E; [|reflexivity].
             rewrite app_assoc in Hhk.
             rewrite (khidb_under hs _ _ E (under_app _ r)) in Hhk. discriminate Hhk.
          -- destruct Hdk as [m Hm].
             exact (sub_prefix_dir g kn F t' r (Dir m) Hsub Hr Hm).
      + destruct k as [|y k]; [|left; discriminate]. right.
        destruct Hu as [t Et]. symmetry in Et. apply app_eq_nil in Et. destruct Et as [Et _]. subst kn.
        destruct Hroot as [Hroot|Hroot]; [contradiction Hroot; reflexivity | exact Hroot].
    - (* H2 *)
      intros k r Hi Ha Hr Hex. apply HinLK in Hi. apply HinK in Hi. destruct Hi as (Hu & Hhk & Hdk).
      destruct (clear_below hs k r Hhk Ha) as [Hh' Ha']. split; [|exact Ha'].
      apply HinLK. apply HinK.
      assert (Hu' : under kn (k ++ r)) by (eapply under_trans; [exact Hu | apply under_app]).
      split; [exact Hu'|]. split; [exact Hh'|].
      destruct (Hrel (k ++ r)) as (_ & B & _). specialize (B Hh' Hu'). unfold kept_dir in B.
      norm_keys. destruct (g !! (k ++ r)) as [[m|m c|m t]|] eqn:E; try (exfalso; apply Hex; exact B).
      exists m. exact E.
    - (* H3 *)
      intros pre x post E r Hr Hi.
      apply in_split in Hi. destruct Hi as [p1 [p2 Ep]]. subst post.
      assert (Hb : before (kpath x) (kpath (x ++ r)) (sort_most (map kpath DK))).
      { exists (map kpath pre), (map kpath p1), (map kpath p2). rewrite ELK, E.
        rewrite map_app. cbn [map]. rewrite map_app. reflexivity. }
      pose proof (sorted_before most _ _ _ Hsorted Hb) as Hm.
      assert (Hgxr : good_key (x ++ r)).
      { apply Hgood. apply HinLK. rewrite E. apply in_or_app. right. right.
        apply in_or_app. right. left. reflexivity. }
      unfold most in Hm. unfold kpath in Hm.
      rewrite (render_less true x r (proj1 Hgxr) Hr (or_introl eq_refl)) in Hm. discriminate Hm.
    - reflexivity.
    - apply rel2_refl. intros k [[] _].
    - exists g3, clk'. split; [exact Hrun|].
      eapply rel2_iff; [|exact Hrel2]. intro k. cbv beta. rewrite HinLK. reflexivity.
  Qed.

  Lemma final_class : forall g kn g1 DK g3,
    walk_post hs kn g g1 DK ->
    rel2 (fun k => In k DK /\ kancb hs k = false) g1 g3 ->
    removeall_effect hs kn g g3.
  Proof.
    intros g kn g1 DK g3 (Hrel & HndK & HinK) Hrel2 k.
    destruct (Hrel k) as (A & B & C & E). destruct (Hrel2 k) as (A2 & B2 & C2).
    assert (HR : forall k', In k' DK /\ kancb hs k' = false -> under kn k' /\ khidb hs k' = false).
    { intros k' [Hi _]. apply HinK in Hi. tauto. }
    split; [|split; [|split]].
    - intro Hhk. apply khidb_iff in Hhk. rewrite <- (A Hhk). apply C2.
      + intros [Hi _]. apply HinK in Hi. destruct Hi as (_ & Hf & _). congruence.
      + intros k' Hr' Ek. destruct (HR k' Hr') as [_ Hf].
        subst k. rewrite (khidb_under hs _ k' Hhk (under_removelast_self k')) in Hf. discriminate Hf.
    - intro Hn.
      assert (HnR : ~ (In k DK /\ kancb hs k = false)).
      { intro Hr. destruct (HR k Hr) as [Hu _]. contradiction. }
      split.
      + eapply onode_eqv_trans; [apply C; exact Hn | apply B2; exact HnR].
      + intro Hne. rewrite <- (E Hn (fun E0 => Hne (eq_sym E0))). apply C2; [exact HnR|].
        intros k' Hr' Ek. destruct (HR k' Hr') as [Hu' _].
        destruct (list_eq_dec str_eq_dec k' kn) as [E0|N0].
        * subst k'. contradiction.
        * apply Hn. subst k. apply under_removelast; assumption.
    - intros Hu Hnh Hanc m Hm.
      assert (Hhk : khidb hs k = false).
      { destruct (khidb hs k) eqn:E0; [|reflexivity]. apply khidb_iff in E0. contradiction. }
      apply kancb_iff in Hanc.
      specialize (B Hhk Hu). norm_keys. rewrite Hm in B. destruct B as [m1 [E1 Hm1]].
      assert (HnR : ~ (In k DK /\ kancb hs k = false)) by (intros [_ E0]; congruence).
      specialize (B2 HnR). rewrite E1 in B2. apply onode_eqv_dir_l in B2.
      destruct B2 as [m2 [E2 Hm2]]. exists m2. split; [exact E2|]. eapply meta_eq_nomt_trans; eassumption.
    - intros Hu Hnh Hor.
      assert (Hhk : khidb hs k = false).
      { destruct (khidb hs k) eqn:E0; [|reflexivity]. apply khidb_iff in E0. contradiction. }
      specialize (B Hhk Hu).
      destruct (is_dir_at_decidable g k) as [Hd|Hd].
      + destruct Hor as [Hna|Hnd]; [|contradiction].
        apply A2. split; [apply HinK; tauto|].
        destruct (kancb hs k) eqn:E0; [|reflexivity]. apply kancb_iff in E0. contradiction.
      + assert (E1 : g1 !! k = None).
        { unfold kept_dir in B. norm_keys. destruct (g !! k) as [[m|m c|m t]|] eqn:E0; try exact B.
          exfalso. apply Hd. exists m. exact E0. }
        apply onode_eqv_none_l. rewrite <- E1. apply B2.
        intros [Hi _]. apply HinK in Hi. destruct Hi as (_ & _ & Hd'). contradiction.
  Qed.
End Final.

(** ** The theorems *)

Lemma name_not_hidden : forall hs name,
  Forall abs_cleaned hs -> abs_cleaned name -> ~ hidden_key hs (comps name) ->
  is_hidden name hs = Some false.
Proof.
  intros hs name Hhs Hac Hnh.
  rewrite <- (kpath_comps name Hac).
  rewrite (is_hidden_kpath hs Hhs _ (good_key_comps name (proj2 Hac))). f_equal.
  destruct (khidb hs (comps name)) eqn:E; [|reflexivity]. apply khidb_iff in E. contradiction.
Qed.

Lemma name_hidden : forall hs name,
  Forall abs_cleaned hs -> abs_cleaned name -> hidden_key hs (comps name) ->
  is_hidden name hs = Some true.
Proof.
  intros hs name Hhs Hac Hh.
  rewrite <- (kpath_comps name Hac).
  rewrite (is_hidden_kpath hs Hhs _ (good_key_comps name (proj2 Hac))). f_equal.
  apply khidb_iff. exact Hh.
Qed.

(** the subtree of an existing entry of a well-formed tree *)
Lemma wf_sub_ok : forall (f : fs) kn F,
  wf f -> keys_good f ->
  (forall k n, under kn k -> f !! k = Some n -> length k < length kn + F) ->
  pre_ok f kn -> sub_ok f kn F.
Proof.
  intros f kn F [_ Hpar] Hg Hdepth _. split; [|split].
  - intros r n Hr E. apply (Hpar _ n E). intro E0. apply app_eq_nil in E0. destruct E0 as [_ E0]. contradiction.
  - intros r n E. exact (Hg _ n E).
  - intros r n E. pose proof (Hdepth _ n (under_app kn r) E) as H. rewrite app_length in H. lia.
Qed.

Lemma hidden_removeall_effect_st : forall hs0 name w g clk n,
  Forall (fun h => is_abs h = true) hs0 ->
  wf g -> keys_good g ->
  abs_cleaned name -> g !! comps name = Some n ->
  ~ hidden_key (hidden_norm hs0) (comps name) ->
  (comps name <> [] \/ anc_key (hidden_norm hs0) (comps name)) ->
  (forall k n', under (comps name) k -> g !! k = Some n' ->
                length k < length (comps name) + tree_fuel) ->
  exists s',
    a_removeall (hiddenfs hs0 osfs) name (setst w (mkFstate g clk)) = (MOk tt, setst w s') /\
    removeall_effect (hidden_norm hs0) (comps name) g (st_fs s').
Proof.
  intros hs0 name w g clk n Habs Hwf Hgood Hac Hn Hnh Hroot Hdepth.
  pose proof (hidden_norm_abs_cleaned hs0 Habs) as Hhs.
  set (hs := hidden_norm hs0) in *.
  set (kn := comps name) in *.
  assert (Hk : good_key kn) by (apply good_key_comps; exact (proj2 Hac)).
  assert (Hname : name = kpath kn) by (symmetry; apply kpath_comps; exact Hac).
  assert (Hp : pre_ok g kn).
  { intros pre r Hr E. rewrite E in Hn. exact (wf_prefix_dir g pre r n Hwf Hr Hn). }
  pose proof (wf_sub_ok g kn tree_fuel Hwf Hgood Hdepth Hp) as Hsub.
  assert (Hh : khidb hs kn = false).
  { destruct (khidb hs kn) eqn:E; [|reflexivity]. apply khidb_iff in E. contradiction. }
  assert (Hroot' : kn <> [] \/ kancb hs kn = true).
  { destruct Hroot as [H|H]; [left; exact H | right; apply kancb_iff; exact H]. }
  pose proof (name_not_hidden hs name Hhs Hac Hnh) as Hhid.
  unfold hiddenfs. fold hs. rewrite removeall_unfold'. rewrite Hhid.
  unfold hidden_removeall.
  set (self := layered_with (hidden_layer hs) osfs null_api).
  assert (Hlst : a_lstat osfs name (setst w (mkFstate g clk)) =
                 (MOk (info_of (base name) n), setst w (mkFstate g clk))).
  { rewrite Hname. apply lstat_key_run; assumption. }
  assert (Hlst' : a_lstat self name (setst w (mkFstate g clk)) =
                  (MOk (info_of (base name) n), setst w (mkFstate g clk))).
  { unfold self. rewrite (self_lstat_run hs name _ Hhid). exact Hlst. }
  rewrite (bind_ok _ _ _ _ _ _ _ (try_ok _ _ _ _ _ Hlst')).
  rewrite is_dir_info_of.
  destruct (is_dir n) eqn:Edir; cbn [negb].
  - (* a directory: walk, then remove the collected directories *)
    destruct (walk_spec hs Hhs tree_fuel kn g clk n (info_of (base name) n) [] w
                Hk Hp Hn (is_dir_info_of _ n) Hsub)
      as (g1 & clk1 & DK & Hrun & Hpost).
    rewrite <- Hname in Hrun. fold self in Hrun. cbn [app] in Hrun.
    assert (Hwalk : walk_m osfs name (hidden_walk_fn hs self) [] (setst w (mkFstate g clk)) =
                    (MOk (map kpath DK), setst w (mkFstate g1 clk1))).
    { unfold walk_m. rewrite (bind_ok _ _ _ _ _ _ _ Hlst). exact Hrun. }
    rewrite (bind_ok _ _ _ _ _ _ _ Hwalk).
    destruct (removal_after_walk hs Hhs g kn tree_fuel g1 DK clk1 w Hk Hp Hsub Hh Hroot' Hpost)
      as (g3 & clk3 & Hrun3 & Hrel2).
    exists (mkFstate g3 clk3). split; [exact Hrun3|]. cbn [st_fs].
    exact (final_class hs g kn g1 DK g3 Hpost Hrel2).
  - (* a file or a symlink: removed *)
    assert (Hnd : match g !! kn with Some (Dir _) => False | _ => True end).
    { norm_keys. rewrite Hn. destruct n; [discriminate Edir | exact I | exact I]. }
    assert (Hbelow : forall r, r <> [] -> g !! (kn ++ r) = None).
    { apply (sub_ok_below_nondir g kn tree_fuel Hsub). intros [m Hm]. norm_keys. rewrite Hn in Hm.
      injection Hm as Hm. subst n. discriminate Edir. }
    unfold self. rewrite (self_remove_run hs name _ Hhid). rewrite os_remove_run.
    rewrite (fs_remove_direct_nondir (mkFstate g clk) name n).
    + cbn [fst snd]. eexists. split; [reflexivity|]. rewrite remove_entry_fs. cbn [st_fs st_clock].
      fold kn. apply (final_class hs g kn (touch_dir (base.delete kn g) (removelast kn) (Now clk)) []).
      * split; [apply rel_remove_entry; assumption|]. split; [constructor|].
        intro k. split; [intros []|]. intros ([r E] & _ & [m Hm]). subst k. destruct r as [|x r].
        -- rewrite app_nil_r in Hm. norm_keys. rewrite Hn in Hm. injection Hm as Hm. subst n. discriminate Edir.
        -- rewrite Hbelow in Hm by discriminate. discriminate Hm.
      * apply rel2_refl. intros k [[] _].
    + rewrite Hname. apply direct_kpath; assumption.
    + exact Hn.
    + exact Edir.
Qed.

(** [RemoveAll] of an existing, not hidden name *)
Theorem hidden_removeall_effect : forall hs0 name w n,
  Forall (fun h => is_abs h = true) hs0 ->
  wf (st_fs (w_st w)) -> keys_good (st_fs (w_st w)) ->
  abs_cleaned name -> st_fs (w_st w) !! comps name = Some n ->
  ~ hidden_key (hidden_norm hs0) (comps name) ->
  (comps name <> [] \/ anc_key (hidden_norm hs0) (comps name)) ->
  (forall k n', under (comps name) k -> st_fs (w_st w) !! k = Some n' ->
                length k < length (comps name) + tree_fuel) ->
  exists s',
    a_removeall (hiddenfs hs0 osfs) name w = (MOk tt, setst w s') /\
    removeall_effect (hidden_norm hs0) (comps name) (st_fs (w_st w)) (st_fs s').
Proof.
  intros hs0 name [[g clk] tr ti cr fa inf] n. cbn [w_st st_fs].
  exact (hidden_removeall_effect_st hs0 name (mkWorld (mkFstate g clk) tr ti cr fa inf) g clk n).
Qed.

(** [RemoveAll] of a missing name: nothing to do (fix D8) *)
Theorem hidden_removeall_missing : forall hs0 name w,
  Forall (fun h => is_abs h = true) hs0 ->
  direct (st_fs (w_st w)) name -> st_fs (w_st w) !! comps name = None ->
  ~ hidden_key (hidden_norm hs0) (comps name) ->
  a_removeall (hiddenfs hs0 osfs) name w = (MOk tt, w).
Proof.
  intros hs0 name w Habs Hd Hn Hnh.
  pose proof (hidden_norm_abs_cleaned hs0 Habs) as Hhs.
  pose proof (name_not_hidden _ name Hhs (proj1 Hd) Hnh) as Hhid.
  unfold hiddenfs. rewrite removeall_unfold'. rewrite Hhid. unfold hidden_removeall.
  assert (Hlst : a_lstat (layered_with (hidden_layer (hidden_norm hs0)) osfs null_api) name w =
                 (MErr ENOENT, w)).
  { rewrite (self_lstat_run _ name _ Hhid). cbn [a_lstat osfs]. unfold fs_get.
    rewrite (fs_lstat_direct (w_st w) name Hd). norm_keys. rewrite Hn. reflexivity. }
  rewrite (bind_ok _ _ _ _ _ _ _ (try_err _ _ _ _ _ Hlst)). reflexivity.
Qed.

(** [RemoveAll] of a hidden name: "not found", nothing happens *)
Theorem hidden_removeall_hidden : forall hs0 name w,
  Forall (fun h => is_abs h = true) hs0 ->
  abs_cleaned name -> hidden_key (hidden_norm hs0) (comps name) ->
  a_removeall (hiddenfs hs0 osfs) name w = (MErr (ELayer EHiddenNotExist), w).
Proof.
  intros hs0 name w Habs Hac Hh.
  pose proof (hidden_norm_abs_cleaned hs0 Habs) as Hhs.
  unfold hiddenfs. rewrite removeall_unfold'. rewrite (name_hidden _ name Hhs Hac Hh). reflexivity.
Qed.

(** Nothing hidden at or below [name], and [name] not above a hidden path:
    the whole tree at [name] goes, like [os.RemoveAll] *)
Corollary removeall_effect_plain : forall hs kn f f',
  removeall_effect hs kn f f' -> ~ hidden_key hs kn -> ~ anc_key hs kn ->
  forall k, under kn k -> f' !! k = None.
Proof.
  intros hs kn f f' He Hnh Hna k [r E]. subst k.
  assert (Hh : khidb hs kn = false).
  { destruct (khidb hs kn) eqn:E; [|reflexivity]. apply khidb_iff in E. contradiction. }
  assert (Ha : kancb hs kn = false).
  { destruct (kancb hs kn) eqn:E; [|reflexivity]. apply kancb_iff in E. contradiction. }
  destruct (clear_below hs kn r Hh Ha) as [Hh' Ha'].
  destruct (He (kn ++ r)) as (_ & _ & _ & D). apply D.
  - apply under_app.
  - intro H. apply khidb_iff in H. congruence.
  - left. intro H. apply kancb_iff in H. congruence.
Qed.

(** what remains at/below [name]: hidden entries and directories leading to
    a hidden path, nothing else *)
Corollary removeall_effect_remaining : forall hs kn f f',
  removeall_effect hs kn f f' ->
  forall k n', under kn k -> f' !! k = Some n' ->
  hidden_key hs k \/ (anc_key hs k /\ is_dir_at f k /\ is_dir_at f' k).
Proof.
  intros hs kn f f' He k n' Hu Hn'.
  destruct (He k) as (_ & _ & C & D).
  destruct (khidb hs k) eqn:Eh; [left; apply khidb_iff; exact Eh|]. right.
  assert (Hnh : ~ hidden_key hs k) by (intro H; apply khidb_iff in H; congruence).
  destruct (kancb hs k) eqn:Ea.
  - apply kancb_iff in Ea. destruct (is_dir_at_decidable f k) as [Hd|Hd].
    + split; [exact Ea|]. split; [exact Hd|]. destruct Hd as [m Hm].
      destruct (C Hu Hnh Ea m Hm) as [m' [E _]]. exists m'. exact E.
    + rewrite (D Hu Hnh (or_intror Hd)) in Hn'. discriminate Hn'.
  - assert (Hna : ~ anc_key hs k) by (intro H; apply kancb_iff in H; congruence).
    rewrite (D Hu Hnh (or_introl Hna)) in Hn'. discriminate Hn'.
Qed.

(** an existing hidden entry stays reachable: it is untouched and every
    directory leading to it is still a directory *)
Corollary removeall_effect_chain : forall hs kn f f' h n,
  removeall_effect hs kn f f' -> wf f ->
  In h hs -> f !! comps h = Some n -> ~ hidden_key hs kn ->
  f' !! comps h = Some n /\
  forall pre r, r <> [] -> comps h = pre ++ r -> is_dir_at f' pre.
Proof.
  intros hs kn f f' h n He Hwf Hi Hn Hnk. split.
  - destruct (He (comps h)) as (A & _).
    assert (E : f' !! comps h = f !! comps h) by (apply A; exists h; split; [exact Hi | apply under_refl]).
    norm_keys. rewrite E. exact Hn.
  - intros pre r Hr E.
    assert (Hd : is_dir_at f pre) by (rewrite E in Hn; exact (wf_prefix_dir f pre r n Hwf Hr Hn)).
    destruct (He pre) as (A & B & C & _).
    destruct (khidb hs pre) eqn:Eh.
    + apply khidb_iff in Eh. destruct Hd as [m Hm]. exists m. rewrite (A Eh). exact Hm.
    + assert (Hnh : ~ hidden_key hs pre) by (intro H; apply khidb_iff in H; congruence).
      destruct (under_dec kn pre) as [Hu|Hu].
      * destruct Hd as [m Hm].
        destruct (C Hu Hnh (ex_intro _ h (ex_intro _ r (conj Hi (conj Hr E)))) m Hm) as [m' [E' _]].
        exists m'. exact E'.
      * eapply onode_eqv_is_dir; [exact (proj1 (B Hu)) | exact Hd].
Qed.

(** the same call through the spy layer ([spy t (hiddenfs hs0 osfs)]) on a
    quiet world: one tick, one trace entry, the same effect *)
Theorem hidden_removeall_effect_spied : forall t hs0 name w n,
  Forall (fun h => is_abs h = true) hs0 ->
  wf (st_fs (w_st w)) -> keys_good (st_fs (w_st w)) ->
  abs_cleaned name -> st_fs (w_st w) !! comps name = Some n ->
  ~ hidden_key (hidden_norm hs0) (comps name) ->
  (comps name <> [] \/ anc_key (hidden_norm hs0) (comps name)) ->
  (forall k n', under (comps name) k -> st_fs (w_st w) !! k = Some n' ->
                length k < length (comps name) + tree_fuel) ->
  w_crash w = None -> w_faults w = [] ->
  exists s',
    a_removeall (spy t (hiddenfs hs0 osfs)) name w =
      (MOk tt, mkWorld s' (mkTcall t (PM MRemoveAll) name [] None :: w_trace w)
                       (N.succ (w_ticks w)) None [] (w_infos w)) /\
    removeall_effect (hidden_norm hs0) (comps name) (st_fs (w_st w)) (st_fs s').
Proof.
  intros t hs0 name [[g clk] tr ti cr fa inf] n Habs Hwf Hgood Hac Hn Hnh Hroot Hdepth Hcr Hfa.
  cbn [w_st st_fs w_crash w_faults w_trace w_ticks w_infos] in *. subst cr fa.
  destruct (hidden_removeall_effect_st hs0 name
              (mkWorld (mkFstate g clk) tr (N.succ ti) None [] inf) g clk n
              Habs Hwf Hgood Hac Hn Hnh Hroot Hdepth) as (s' & Hrun & Heff).
  exists s'. split; [|exact Heff].
  cbn [a_removeall spy]. unfold spied. cbn [w_crash w_st w_trace w_ticks w_faults w_infos].
  unfold faulted. cbn [w_faults existsb].
  unfold setst in Hrun. cbn [w_trace w_ticks w_crash w_faults w_infos] in Hrun.
  rewrite Hrun. reflexivity.
Qed.

(* ------------------------------------------------------------------ *)
(** * G. The side conditions, decidably; examples *)

Definition good_compb (c : str) : bool :=
  negb (str_eqb c []) && negb (str_eqb c s_dot) && negb (str_eqb c s_dotdot)
  && negb (existsb (N.eqb sep) c).

Lemma good_compb_sound : forall c, good_compb c = true -> good_comp c /\ c <> s_dotdot.
Proof.
  intros c H. unfold good_compb in H. repeat (apply andb_true_iff in H; destruct H as [H ?]).
  repeat match goal with H : negb _ = true |- _ => apply negb_true_iff in H end.
  split; [split; [|split]|]; try (apply str_eqb_neq; assumption).
  intro Hin. match goal with H : existsb _ _ = false |- _ => rename H into He end.
  assert (existsb (N.eqb sep) c = true); [|congruence].
  apply existsb_exists. exists sep. split; [exact Hin | apply N.eqb_refl].
Qed.

(** [f] is well formed with good keys, and the tree at [kn] is less than [F]
    levels deep *)
Definition tree_okb (f : fs) (kn : key) (F : nat) : bool :=
  match f !! [] with Some (Dir _) => true | _ => false end &&
  forallb (fun kv : key * node =>
             let k := fst kv in
             forallb good_compb k &&
             match k with
             | [] => true
             | _ => match f !! removelast k with Some (Dir _) => true | _ => false end
             end &&
             (negb (key_prefixb kn k) || Nat.ltb (length k) (length kn + F)))
          (entries f).

Lemma tree_okb_sound : forall (f : fs) kn F,
  tree_okb f kn F = true ->
  wf f /\ keys_good f /\
  (forall k n, under kn k -> f !! k = Some n -> length k < length kn + F).
Proof.
  intros f kn F H. unfold tree_okb in H. apply andb_true_iff in H. destruct H as [Hroot Hall].
  rewrite forallb_forall in Hall.
  assert (Hent : forall k n, f !! k = Some n ->
            forallb good_compb k = true /\
            (k <> [] -> is_dir_at f (removelast k)) /\
            (under kn k -> length k < length kn + F)).
  { intros k n Hn. apply entries_In' in Hn. specialize (Hall _ Hn). cbn [fst] in Hall.
    apply andb_true_iff in Hall. destruct Hall as [Hall H3].
    apply andb_true_iff in Hall. destruct Hall as [H1 H2].
    split; [exact H1|]. split.
    - intro Hne. destruct k as [|x k]; [contradiction Hne; reflexivity|].
      destruct (f !! removelast (x :: k)) as [[m|m c|m t]|] eqn:E; try discriminate H2.
      exists m. exact E.
    - intro Hu. apply key_prefixb_iff in Hu. rewrite Hu in H3. simpl in H3.
      apply Nat.ltb_lt in H3. exact H3. }
  split; [|split].
  - split.
    + destruct (f !! []) as [[m|m c|m t]|] eqn:E; try discriminate Hroot. exists m. exact E.
    + intros k n Hn Hne. destruct (Hent k n Hn) as (_ & H2 & _). exact (H2 Hne).
  - intros k n Hn. destruct (Hent k n Hn) as (H1 & _ & _).
    rewrite forallb_forall in H1. split.
    + apply List.Forall_forall. intros c Hc. exact (proj1 (good_compb_sound c (H1 c Hc))).
    + intro Hin. exact (proj2 (good_compb_sound _ (H1 _ Hin)) eq_refl).
  - intros k n Hu Hn. destruct (Hent k n Hn) as (_ & _ & H3). exact (H3 Hu).
Qed.

Lemma abs_cleanedb_sound : forall p, cleanedb p && is_abs p = true -> abs_cleaned p.
Proof.
  intros p H. apply andb_true_iff in H. destruct H as [H1 H2].
  split; [apply cleanedb_iff; exact H1 | exact H2].
Qed.

(** [hidden_removeall_effect] with every side condition as a computation *)
Theorem hidden_removeall_effect_b : forall hs0 name w,
  forallb is_abs hs0 = true ->
  cleanedb name && is_abs name = true ->
  tree_okb (st_fs (w_st w)) (comps name) tree_fuel = true ->
  (match st_fs (w_st w) !! comps name with Some _ => true | None => false end) = true ->
  khidb (hidden_norm hs0) (comps name) = false ->
  (negb (key_eqb (comps name) []) || kancb (hidden_norm hs0) (comps name)) = true ->
  exists s',
    a_removeall (hiddenfs hs0 osfs) name w = (MOk tt, setst w s') /\
    removeall_effect (hidden_norm hs0) (comps name) (st_fs (w_st w)) (st_fs s').
Proof.
  intros hs0 name w Habs Hac Hok Hex Hh Hroot.
  destruct (tree_okb_sound _ _ _ Hok) as (Hwf & Hgood & Hdepth).
  destruct (st_fs (w_st w) !! comps name) as [n|] eqn:Hn; [|discriminate Hex].
  apply (hidden_removeall_effect hs0 name w n).
  - apply List.Forall_forall. rewrite forallb_forall in Habs. exact Habs.
  - exact Hwf.
  - exact Hgood.
  - apply abs_cleanedb_sound. exact Hac.
  - exact Hn.
  - intro H. apply khidb_iff in H. congruence.
  - apply orb_true_iff in Hroot. destruct Hroot as [H|H].
    + left. apply negb_true_iff, key_eqb_neq in H. exact H.
    + right. apply kancb_iff. exact H.
  - exact Hdepth.
Qed.

(** the vocabulary of the theorems against the checks of the model *)
Lemma hidden_key_vocabulary : forall hs k,
  Forall abs_cleaned hs -> good_key k ->
  is_hidden (kpath k) hs = Some (khidb hs k) /\ (khidb hs k = true <-> hidden_key hs k) /\
  is_parent_of_hidden (kpath k) hs = Some (kancb hs k) /\ (kancb hs k = true <-> anc_key hs k).
Proof.
  intros hs k Hhs Hk.
  exact (conj (is_hidden_kpath hs Hhs k Hk)
          (conj (khidb_iff hs k) (conj (is_parent_kpath hs Hhs k Hk) (kancb_iff hs k)))).
Qed.

(** ** Examples (non-vacuity; the resulting trees) *)
Module RemoveAllExamples.
  Definition p_root : str := [47]%N.                          (* "/" *)
  Definition p_a : str := [47;97]%N.                          (* "/a" *)
  Definition p_ad : str := [47;97;47;100]%N.                  (* "/a/d" *)
  Definition p_adg : str := [47;97;47;100;47;103]%N.          (* "/a/d/g" *)
  Definition p_af : str := [47;97;47;102]%N.                  (* "/a/f" *)
  Definition p_ah : str := [47;97;47;104]%N.                  (* "/a/h" *)
  Definition p_ahs : str := [47;97;47;104;47;115]%N.          (* "/a/h/s" *)
  Definition p_ahsx : str := [47;97;47;104;47;115;47;120]%N.  (* "/a/h/s/x" *)
  Definition p_ahy : str := [47;97;47;104;47;121]%N.          (* "/a/h/y" *)
  Definition p_al : str := [47;97;47;108]%N.                  (* "/a/l" *)
  Definition p_z : str := [47;122]%N.                         (* "/z" *)
  Definition p_ab : str := [47;97;47;98]%N.                   (* "/a/b" *)
  Definition p_abc : str := [47;97;47;98;47;99]%N.            (* "/a/b/c" *)

  (** { /, /a/, /a/d/ (0750 3:4), /a/d/g, /a/f, /a/h/ (0700 5:6), /a/h/s/, /a/h/s/x,
        /a/h/y, /a/l -> /a/h/s, /z };  hidden: /a/h/s *)
  Definition wA : world :=
    init_file (init_link (init_file (init_file (init_dir (init_dir (init_file (init_file (init_dir (init_dir
      (init_dir init_world p_root 493 0 0 1) p_a 493 0 0 2) p_ad 488 3 4 3) p_adg 420 0 0 4 [7%N])
      p_af 420 0 0 5 [104;105]%N) p_ah 448 5 6 6) p_ahs 493 0 0 7) p_ahsx 384 0 0 8 [1;2]%N)
      p_ahy 420 0 0 9 [3%N]) p_al 0 0 10 p_ahs) p_z 420 0 0 11 [9%N].

  (** the hypotheses of the effect theorem hold on [wA] for [RemoveAll "/a"] with
      the hidden path "/a/h/s": the theorem applies *)
  Example removeall_effect_applies :
    exists s',
      a_removeall (hiddenfs [p_ahs] osfs) p_a wA = (MOk tt, setst wA s') /\
      removeall_effect (hidden_norm [p_ahs]) (comps p_a) (st_fs (w_st wA)) (st_fs s').
  Proof. apply hidden_removeall_effect_b; vm_compute; reflexivity. Qed.

  (** and this is the tree it leaves: the hidden directory with its content,
      the two directories leading to it (new mtimes, mode and owner kept), and
      what lies outside "/a"; the symlink to the hidden directory was removed,
      not followed *)
  Example removeall_effect_run :
    let '(r, w') := a_removeall (hiddenfs [p_ahs] osfs) p_a wA in
    r = MOk tt /\
    dump_fs w' =
      [([], Dir (mkMeta 493 0 0 (Preset 1)));
       ([[97]; [104]; [115]], Dir (mkMeta 493 0 0 (Preset 7)));
       ([[97]], Dir (mkMeta 493 0 0 (Now 4)));
       ([[97]; [104]], Dir (mkMeta 448 5 6 (Now 2)));
       ([[97]; [104]; [115]; [120]], File (mkMeta 384 0 0 (Preset 8)) [1; 2]);
       ([[122]], File (mkMeta 420 0 0 (Preset 11)) [9])]%N.
  Proof. vm_compute. split; reflexivity. Qed.

  (** { /, /a/, /a/b/, /a/f }; hidden: /a/b/c, which does not exist *)
  Definition wB : world :=
    init_file (init_dir (init_dir (init_dir init_world p_root 493 0 0 1) p_a 493 0 0 2) p_ab 493 0 0 3)
      p_af 420 0 0 4 [1%N].

  (** Observation: the directories that lexically lead to a hidden path are
      kept also when the hidden path itself does not exist; the call returns
      nil.  (The theorem says so: the third clause of [removeall_effect] asks
      for a lexical ancestor, not for an existing hidden entry.)  Without the
      hidden path the same call removes "/a" altogether. *)
  Example removeall_missing_hidden_keeps_chain :
    (exists s',
       a_removeall (hiddenfs [p_abc] osfs) p_a wB = (MOk tt, setst wB s') /\
       removeall_effect (hidden_norm [p_abc]) (comps p_a) (st_fs (w_st wB)) (st_fs s')) /\
    (let '(r, w') := a_removeall (hiddenfs [p_abc] osfs) p_a wB in
     r = MOk tt /\
     dump_fs w' = [([], Dir (mkMeta 493 0 0 (Preset 1)));
                   ([[97]], Dir (mkMeta 493 0 0 (Now 0)));
                   ([[97]; [98]], Dir (mkMeta 493 0 0 (Preset 3)))]%N) /\
    (let '(r, w') := a_removeall (hiddenfs [] osfs) p_a wB in
     r = MOk tt /\ dump_fs w' = [([], Dir (mkMeta 493 0 0 (Now 2)))]%N).
  Proof.
    split; [|split].
    - apply hidden_removeall_effect_b; vm_compute; reflexivity.
    - vm_compute. split; reflexivity.
    - vm_compute. split; reflexivity.
  Qed.

  (** degenerate cases on [wA]: a missing name, a hidden name *)
  Example removeall_missing_and_hidden :
    a_removeall (hiddenfs [p_ahs] osfs) p_ab wA = (MOk tt, wA) /\
    a_removeall (hiddenfs [p_ahs] osfs) p_ahsx wA = (MErr (ELayer EHiddenNotExist), wA).
  Proof. vm_compute. split; reflexivity. Qed.
End RemoveAllExamples.
