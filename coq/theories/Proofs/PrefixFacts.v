(** Proofs for C05 / C14 / C18: PrefixFS confinement and re-rooting,
    VolumeFS identity.  Reuses [Proofs/PathFacts.v]. *)
From BFS Require Import Base.Bytes Path.GoPath Path.PathSpec Layers.Call Layers.LayerSpec.
From BFS Require Import Proofs.PathFacts.
Local Open Scope nat_scope.

(* ------------------------------------------------------------------ *)
(** * Lists and strings *)

Lemma skipn_length_app : forall (A : Type) (l1 l2 : list A),
  skipn (length l1) (l1 ++ l2) = l2.
Proof.
  intros A l1 l2. induction l1 as [|x l1 IH]; simpl; [reflexivity | exact IH].
Qed.

Lemma is_abs_app : forall p q, p <> [] -> is_abs (p ++ q) = is_abs p.
Proof. intros [|c p] q H; [contradiction H; reflexivity | reflexivity]. Qed.

Lemma has_prefix_sep : forall p, has_prefix p [sep] = is_abs p.
Proof. intros [|c [|d p]]; simpl; try reflexivity; apply andb_true_r. Qed.

(** [split_sep] over a separator, without any side condition. *)
Lemma split_sep_app2 : forall a b,
  split_sep (a ++ sep :: b) = split_sep a ++ split_sep b.
Proof.
  induction a as [|c a IH]; intro b.
  - reflexivity.
  - change ((c :: a) ++ sep :: b) with (c :: (a ++ sep :: b)).
    simpl split_sep. rewrite IH. destruct (N.eqb c sep).
    + reflexivity.
    + pose proof (split_sep_nonnil a) as Hnn.
      destruct (split_sep a) as [|h t]; [contradiction Hnn; reflexivity | reflexivity].
Qed.

Lemma join_sep_app : forall l1 l2,
  l1 <> [] -> l2 <> [] -> join_sep (l1 ++ l2) = join_sep l1 ++ sep :: join_sep l2.
Proof.
  induction l1 as [|c l1 IH]; intros l2 H1 H2; [contradiction H1; reflexivity|].
  destruct l1 as [|c2 l1].
  - simpl app. apply join_sep_cons. exact H2.
  - change ((c :: c2 :: l1) ++ l2) with (c :: ((c2 :: l1) ++ l2)).
    rewrite join_sep_cons by (simpl; discriminate).
    rewrite IH by (assumption || discriminate).
    rewrite (join_sep_cons c (c2 :: l1)) by discriminate.
    rewrite <- app_assoc. reflexivity.
Qed.

(* ------------------------------------------------------------------ *)
(** * [norm], [comps], [clean], [join2] *)

Lemma norm_app : forall rooted l1 l2 stk,
  norm rooted (l1 ++ l2) stk = norm rooted l2 (rev (norm rooted l1 stk)).
Proof.
  intros rooted l1 l2. induction l1 as [|c r IH]; intro stk.
  - simpl. rewrite rev_involutive. reflexivity.
  - change ((c :: r) ++ l2) with (c :: (r ++ l2)). rewrite !norm_cons.
    destruct (str_eqb c [] || str_eqb c s_dot); [apply IH|].
    destruct (str_eqb c s_dotdot).
    + destruct stk as [|t stk'].
      * destruct rooted; apply IH.
      * destruct (str_eqb t s_dotdot); apply IH.
    + apply IH.
Qed.

Lemma norm_split_render : forall rooted a cs stk,
  Forall good_comp cs ->
  norm rooted (split_sep (render a cs)) stk = norm rooted cs stk.
Proof.
  intros rooted a cs stk Hg. destruct cs as [|c cs].
  - destruct a; reflexivity.
  - destruct a.
    + rewrite render_abs.
      change (split_sep (sep :: join_sep (c :: cs)))
        with ([] :: split_sep (join_sep (c :: cs))).
      rewrite split_join; [| discriminate | apply Forall_good_nosep; exact Hg].
      reflexivity.
    + rewrite render_rel_cons.
      rewrite split_join; [reflexivity | discriminate | apply Forall_good_nosep; exact Hg].
Qed.

Lemma comps_app_sep : forall a b, a <> [] ->
  comps (a ++ sep :: b) = norm (is_abs a) (split_sep b) (rev (comps a)).
Proof.
  intros a b Ha. unfold comps.
  rewrite (is_abs_app a _ Ha), split_sep_app2, norm_app. reflexivity.
Qed.

Lemma comps_clean : forall p, comps (clean p) = comps p.
Proof. intro p. unfold clean. apply comps_render. apply comps_normal. Qed.

Lemma is_abs_clean : forall p, is_abs (clean p) = is_abs p.
Proof. intro p. unfold clean. apply is_abs_render. apply comps_good. Qed.

Lemma join2_eq : forall a b, a <> [] -> join2 a b = clean (a ++ sep :: b).
Proof.
  intros a b Ha. destruct a as [|c a]; [contradiction Ha; reflexivity|].
  destruct b; reflexivity.
Qed.

Lemma comps_join2 : forall pfx n, pfx <> [] ->
  comps (join2 pfx (clean n)) = norm (is_abs pfx) (comps n) (rev (comps pfx)).
Proof.
  intros pfx n Hne. rewrite (join2_eq _ _ Hne), comps_clean, (comps_app_sep _ _ Hne).
  unfold clean. apply norm_split_render. apply comps_good.
Qed.

Lemma is_abs_join2 : forall pfx y, pfx <> [] -> is_abs (join2 pfx y) = is_abs pfx.
Proof.
  intros pfx y Hne. rewrite (join2_eq _ _ Hne), is_abs_clean. apply is_abs_app. exact Hne.
Qed.

Lemma cleaned_join2 : forall pfx y, pfx <> [] -> cleaned (join2 pfx y).
Proof. intros pfx y Hne. rewrite (join2_eq _ _ Hne). apply cleaned_clean. Qed.

Lemma stk_ok_true_intro : forall stk,
  Forall good_comp stk -> ~ In s_dotdot stk -> stk_ok true stk.
Proof.
  intros stk Hg. induction Hg as [|c stk Hc Hstk IH]; intro Hnin.
  - constructor.
  - apply so_push.
    + exact Hc.
    + intro E. apply Hnin. left. exact E.
    + apply IH. intro F. apply Hnin. right. exact F.
Qed.

Lemma normal_true_intro : forall cs,
  Forall good_comp cs -> ~ In s_dotdot cs -> normal true cs.
Proof.
  intros cs Hg Hnin. unfold normal. apply stk_ok_true_intro.
  - apply Forall_rev. exact Hg.
  - intro F. apply Hnin. apply in_rev. exact F.
Qed.

Lemma normal_true_app : forall l1 l2,
  normal true l1 -> normal true l2 -> normal true (l1 ++ l2).
Proof.
  intros l1 l2 H1 H2. apply normal_true_intro.
  - apply Forall_app. split; eapply normal_good; eassumption.
  - intro F. apply in_app_or in F. destruct F as [F|F].
    + exact (normal_rooted_no_dotdot _ H1 F).
    + exact (normal_rooted_no_dotdot _ H2 F).
Qed.

(* ------------------------------------------------------------------ *)
(** * [render] as a string *)

Lemma render_inj : forall a b cp cq,
  normal a cp -> normal b cq -> render a cp = render b cq -> a = b /\ cp = cq.
Proof.
  intros a b cp cq Hp Hq E. split.
  - pose proof (f_equal is_abs E) as H.
    rewrite (is_abs_render a cp (normal_good _ _ Hp)) in H.
    rewrite (is_abs_render b cq (normal_good _ _ Hq)) in H. exact H.
  - pose proof (f_equal comps E) as H.
    rewrite (comps_render _ _ Hp), (comps_render _ _ Hq) in H. exact H.
Qed.

Lemma render_nonempty : forall a cs, Forall good_comp cs -> render a cs <> [].
Proof.
  intros a cs Hg. destruct a.
  - rewrite render_abs. discriminate.
  - destruct cs as [|c cs].
    + discriminate.
    + rewrite render_rel_cons. apply join_sep_nonempty; [exact Hg | discriminate].
Qed.

Lemma render_app : forall b cq rest,
  cq <> [] -> rest <> [] ->
  render b (cq ++ rest) = (render b cq ++ [sep]) ++ join_sep rest.
Proof.
  intros b cq rest Hq Hr.
  assert (Hne : cq ++ rest <> []).
  { intro E. apply app_eq_nil in E. destruct E as [E _]. contradiction. }
  destruct b.
  - rewrite !render_abs. rewrite (join_sep_app _ _ Hq Hr).
    simpl. rewrite <- app_assoc. reflexivity.
  - rewrite (render_rel_nonnil _ Hne), (render_rel_nonnil _ Hq).
    rewrite (join_sep_app _ _ Hq Hr). rewrite <- app_assoc. reflexivity.
Qed.

Lemma render_prefix_inv : forall b cp cq x,
  Forall good_comp cq -> cq <> [] ->
  render b cp = (render b cq ++ [sep]) ++ x ->
  cp <> [] /\ join_sep cp = join_sep cq ++ sep :: x.
Proof.
  intros b cp cq x Hgq Hq E. destruct b.
  - rewrite !render_abs in E. simpl in E. injection E as E.
    rewrite <- app_assoc in E. simpl in E. split; [|exact E].
    intro F. subst cp. simpl in E. symmetry in E.
    apply app_eq_nil in E. destruct E as [_ E]. discriminate E.
  - rewrite (render_rel_nonnil _ Hq) in E.
    rewrite <- app_assoc in E. simpl in E.
    destruct cp as [|c cp].
    + exfalso. pose proof (join_sep_nonempty _ Hgq Hq) as Hn.
      apply (f_equal (@length _)) in E. rewrite app_length in E. simpl in E.
      apply neq_nil_length in Hn. lia.
    + split; [discriminate | exact E].
Qed.

(* ------------------------------------------------------------------ *)
(** * [climbs] and [ends_with_sep] *)

Lemma climbs_join : forall r, Forall nosep r -> r <> [] ->
  (climbs (join_sep r) = true <-> exists t, r = s_dotdot :: t).
Proof.
  intros r Hns Hne. unfold climbs. rewrite orb_true_iff, str_eqb_eq, has_prefix_iff. split.
  - intros [E | [x E]].
    + exists []. rewrite <- (split_join r Hne Hns), E. reflexivity.
    + exists (split_sep x). rewrite <- (split_join r Hne Hns), E.
      change ((s_dotdot ++ [sep]) ++ x) with (s_dotdot ++ sep :: x).
      rewrite split_sep_app2. reflexivity.
  - intros [t E]. subst r. destruct t as [|c t].
    + left. reflexivity.
    + right. exists (join_sep (c :: t)). reflexivity.
Qed.

Lemma normal_dotdot_head : forall rooted k r,
  normal rooted (k ++ r) -> In s_dotdot r -> exists t, r = s_dotdot :: t.
Proof.
  intros rooted k r Hn Hin. apply in_split in Hin. destruct Hin as [r1 [r2 E]]. subst r.
  rewrite app_assoc in Hn. apply normal_dotdot_leading in Hn. destruct Hn as [_ Hall].
  apply Forall_app in Hall. destruct Hall as [_ H1].
  destruct r1 as [|x r1].
  - exists r2. reflexivity.
  - inversion H1 as [|x' r1' Hx Hr]; subst. exists (r1 ++ s_dotdot :: r2). reflexivity.
Qed.

Lemma climb_rest : forall rooted k r,
  normal rooted (k ++ r) -> r <> [] ->
  (negb (climbs (join_sep r)) = true <-> ~ In s_dotdot r).
Proof.
  intros rooted k r Hn Hne.
  assert (Hns : Forall nosep r).
  { apply Forall_good_nosep. pose proof (normal_good _ _ Hn) as Hg.
    apply Forall_app in Hg. apply Hg. }
  rewrite negb_true_iff. split.
  - intros Hc Hin. destruct (normal_dotdot_head _ _ _ Hn Hin) as [t E].
    assert (Ht : climbs (join_sep r) = true).
    { apply climbs_join; [exact Hns | exact Hne | exists t; exact E]. }
    congruence.
  - intro Hnin. destruct (climbs (join_sep r)) eqn:E; [|reflexivity].
    apply climbs_join in E; [|exact Hns|exact Hne]. destruct E as [t E].
    exfalso. apply Hnin. subst r. left. reflexivity.
Qed.

Lemma ends_with_sep_inv : forall p, ends_with_sep p = true -> exists s, p = s ++ [sep].
Proof.
  intros p H. unfold ends_with_sep in H. destruct (rev p) as [|c l] eqn:E; [discriminate H|].
  apply N.eqb_eq in H. subst c. exists (rev l).
  rewrite <- (rev_involutive p), E. reflexivity.
Qed.

Lemma ends_with_sep_join : forall cs,
  Forall good_comp cs -> cs <> [] -> ends_with_sep (join_sep cs) = false.
Proof.
  intros cs Hg Hne. destruct (ends_with_sep (join_sep cs)) eqn:E; [|reflexivity].
  apply ends_with_sep_inv in E. destruct E as [s E].
  pose proof (split_join cs Hne (Forall_good_nosep _ Hg)) as S.
  rewrite E in S. rewrite split_sep_app2 in S. simpl (split_sep []) in S.
  exfalso. rewrite <- S in Hg. apply Forall_app in Hg. destruct Hg as [_ Hg].
  inversion Hg as [|x l Hx Hl]; subst. destruct Hx as [Hx _]. apply Hx. reflexivity.
Qed.

Lemma ends_with_sep_cons : forall c s, s <> [] -> ends_with_sep (c :: s) = ends_with_sep s.
Proof.
  intros c s Hne. unfold ends_with_sep. simpl rev.
  destruct (rev s) as [|d l] eqn:E.
  - exfalso. apply Hne. rewrite <- (rev_involutive s), E. reflexivity.
  - reflexivity.
Qed.

Lemma ends_with_sep_render : forall b cq,
  Forall good_comp cq -> ends_with_sep (render b cq) = true -> b = true /\ cq = [].
Proof.
  intros b cq Hg H. destruct cq as [|c cq].
  - destruct b; [split; reflexivity | vm_compute in H; discriminate H].
  - exfalso. assert (Hne : c :: cq <> []) by discriminate. destruct b.
    + rewrite render_abs in H.
      rewrite ends_with_sep_cons in H by (apply join_sep_nonempty; assumption).
      rewrite (ends_with_sep_join _ Hg Hne) in H. discriminate H.
    + rewrite render_rel_cons in H.
      rewrite (ends_with_sep_join _ Hg Hne) in H. discriminate H.
Qed.

(* ------------------------------------------------------------------ *)
(** * C05: [has_path_prefix] is component-wise containment *)

Lemma hpp_render : forall a b cp cq,
  normal a cp -> normal b cq ->
  (has_path_prefix (render a cp) (render b cq) = true <->
   a = b /\ exists rest, cp = cq ++ rest /\ ~ In s_dotdot rest).
Proof.
  intros a b cp cq Hp Hq.
  pose proof (normal_good _ _ Hp) as Hgp. pose proof (normal_good _ _ Hq) as Hgq.
  unfold has_path_prefix.
  destruct (str_eqb_spec (render a cp) (render b cq)) as [Eq|Nq].
  { apply render_inj in Eq; [|assumption..]. destruct Eq as [Eab Ecp]. subst.
    split; [intros _|reflexivity]. split; [reflexivity|].
    exists []. split; [rewrite app_nil_r; reflexivity | intro F; exact F]. }
  destruct (str_eqb_spec (render b cq) s_dot) as [Ed|Nd].
  { change s_dot with (render false []) in Ed.
    apply render_inj in Ed; [|exact Hq|apply normal_nil]. destruct Ed as [Eb Ecq]. subst b cq.
    rewrite (is_abs_render a cp Hgp). destruct a.
    - split; [intro H; discriminate H | intros [H _]; discriminate H].
    - assert (Hne : cp <> []). { intro E. subst cp. apply Nq. reflexivity. }
      rewrite (render_rel_nonnil _ Hne).
      rewrite (climb_rest false [] cp Hp Hne). split.
      + intro H. split; [reflexivity|]. exists cp. split; [reflexivity | exact H].
      + intros [_ [rest [E H]]]. simpl in E. subst rest. exact H. }
  destruct (ends_with_sep (render b cq)) eqn:Ee.
  { apply ends_with_sep_render in Ee; [|exact Hgq]. destruct Ee as [Eb Ecq]. subst b cq.
    change (render true []) with [sep]. rewrite has_prefix_sep.
    rewrite (is_abs_render a cp Hgp). destruct a.
    - assert (Hne : cp <> []). { intro E. subst cp. apply Nq. reflexivity. }
      rewrite render_abs. change (skipn (length [sep]) (sep :: join_sep cp)) with (join_sep cp).
      rewrite (climb_rest true [] cp Hp Hne). split.
      + intro H. split; [reflexivity|]. exists cp. split; [reflexivity | exact H].
      + intros [_ [rest [E H]]]. simpl in E. subst rest. exact H.
    - split; [intro H; discriminate H | intros [H _]; discriminate H]. }
  assert (Hqne : cq <> []).
  { intro E. subst cq. destruct b.
    - vm_compute in Ee. discriminate Ee.
    - apply Nd. reflexivity. }
  destruct (has_prefix (render a cp) (render b cq ++ [sep])) eqn:Eh.
  - apply has_prefix_iff in Eh. destruct Eh as [x Ex].
    assert (Eab : a = b).
    { pose proof (f_equal is_abs Ex) as H. rewrite <- app_assoc in H.
      rewrite (is_abs_app _ _ (render_nonempty b cq Hgq)) in H.
      rewrite (is_abs_render a cp Hgp), (is_abs_render b cq Hgq) in H. exact H. }
    subst a.
    replace (S (length (render b cq))) with (length (render b cq ++ [sep]))
      by (rewrite app_length; simpl; lia).
    rewrite Ex, skipn_length_app.
    destruct (render_prefix_inv b cp cq x Hgq Hqne Ex) as [Hpne Ej].
    assert (Ecp : cp = cq ++ split_sep x).
    { rewrite <- (split_join cp Hpne (Forall_good_nosep _ Hgp)), Ej, split_sep_app2.
      rewrite (split_join cq Hqne (Forall_good_nosep _ Hgq)). reflexivity. }
    rewrite <- (join_split x). rewrite Ecp in Hp.
    rewrite (climb_rest b cq (split_sep x) Hp (split_sep_nonnil x)). split.
    + intro H. split; [reflexivity|]. exists (split_sep x). split; [exact Ecp | exact H].
    + intros [_ [rest [E H]]]. rewrite Ecp in E. apply app_inv_head in E. subst rest. exact H.
  - split; [intro H; discriminate H|]. intros [Eab [rest [E H]]]. subst a cp. exfalso.
    assert (Hrne : rest <> []).
    { intro F. subst rest. apply Nq. rewrite app_nil_r. reflexivity. }
    rewrite (render_app b cq rest Hqne Hrne) in Eh. rewrite has_prefix_app in Eh.
    discriminate Eh.
Qed.

Lemma has_path_prefix_iff :
  forall p pfx, cleaned p -> cleaned pfx -> (has_path_prefix p pfx = true <-> within pfx p).
Proof.
  intros p pfx Hp Hq. unfold within.
  rewrite (cleaned_eq p Hp) at 1. rewrite (cleaned_eq pfx Hq) at 1.
  rewrite (hpp_render _ _ _ _ (comps_normal p) (comps_normal pfx)).
  split; intros [E H]; (split; [symmetry; exact E | exact H]).
Qed.

Lemma prefix_path_some : forall pfx name r,
  prefix_path pfx name = Some r ->
  r = join2 pfx (clean name) /\ has_path_prefix r pfx = true.
Proof.
  intros pfx name r H. unfold prefix_path in H.
  destruct (has_path_prefix (join2 pfx (clean name)) pfx) eqn:E; [|discriminate H].
  injection H as H. subst r. split; [reflexivity | exact E].
Qed.

Lemma prefix_path_within :
  forall pfx name r, cleaned pfx -> prefix_path pfx name = Some r -> within pfx r /\ cleaned r.
Proof.
  intros pfx name r Hq H. apply prefix_path_some in H. destruct H as [Er Hh].
  assert (Hc : cleaned r).
  { subst r. apply cleaned_join2. apply cleaned_nonempty. exact Hq. }
  split; [|exact Hc]. apply has_path_prefix_iff; assumption.
Qed.

Lemma prefixfs_calls_confined :
  forall pfx c, cleaned pfx ->
  match prefixfs_call pfx c with
  | Fwd c' => Forall (fun p => within pfx p /\ cleaned p) (path_args c') /\ c_meth c' = c_meth c
  | Rej e => e = EPERM
  | Multi => False
  end.
Proof.
  intros pfx [m a b aux] Hq. unfold prefixfs_call.
  destruct m; simpl;
    try (destruct (prefix_path pfx a) as [a'|] eqn:Ea; [|reflexivity];
         split; [|reflexivity]; constructor; [|constructor];
         eapply prefix_path_within; eassumption).
  - (* MRename *)
    destruct (prefix_path pfx a) as [a'|] eqn:Ea; [|reflexivity].
    destruct (prefix_path pfx b) as [b'|] eqn:Eb; [|reflexivity].
    split; [|reflexivity]. unfold path_args. simpl.
    constructor; [eapply prefix_path_within; eassumption|].
    constructor; [eapply prefix_path_within; eassumption|]. constructor.
  - (* MSymlink *)
    destruct (prefix_path pfx b) as [b'|] eqn:Eb; [|reflexivity].
    destruct (is_abs a).
    + destruct (prefix_path pfx a) as [a'|] eqn:Ea; [|reflexivity].
      split; [|reflexivity]. unfold path_args. simpl.
      constructor; [eapply prefix_path_within; eassumption|]. constructor.
    + destruct (has_path_prefix (join2 (dir b') a) pfx); [|reflexivity].
      split; [|reflexivity]. unfold path_args. simpl.
      constructor; [eapply prefix_path_within; eassumption|]. constructor.
Qed.

Lemma dir_nonempty : forall p, dir p <> [].
Proof. intro p. unfold dir. apply cleaned_nonempty. apply cleaned_clean. Qed.

Lemma prefixfs_symlink_target_within :
  forall pfx c c', cleaned pfx -> c_meth c = MSymlink ->
  (is_abs pfx = true \/ is_abs (c_a c) = false) ->
  prefixfs_call pfx c = Fwd c' -> within pfx (link_effective_target c').
Proof.
  intros pfx [m a b aux] c' Hq Hm Habs H. simpl in Hm, Habs. subst m.
  unfold prefixfs_call in H. simpl in H.
  destruct (prefix_path pfx b) as [b'|] eqn:Eb; [|discriminate H].
  unfold link_effective_target, to_abs_symlink.
  destruct (is_abs a) eqn:Ea.
  - destruct Habs as [Habs|Habs]; [|discriminate Habs].
    destruct (prefix_path pfx a) as [a'|] eqn:Ea'; [|discriminate H].
    injection H as H. subst c'. simpl.
    destruct (prefix_path_within _ _ _ Hq Ea') as [Hw _].
    destruct Hw as [Hab Hr]. rewrite <- Hab, Habs. split; [exact Hab | exact Hr].
  - destruct (has_path_prefix (join2 (dir b') a) pfx) eqn:Eh; [|discriminate H].
    injection H as H. subst c'. simpl. rewrite Ea.
    apply has_path_prefix_iff; [|exact Hq|exact Eh].
    apply cleaned_join2. apply dir_nonempty.
Qed.

(* ------------------------------------------------------------------ *)
(** * C14 *)

Lemma prefix_path_eq :
  forall pfx n, cleaned pfx -> within pfx (join2 pfx (clean n)) ->
  prefix_path pfx n = Some (join2 pfx (clean n)).
Proof.
  intros pfx n Hq Hw. unfold prefix_path.
  assert (Hc : cleaned (join2 pfx (clean n))).
  { apply cleaned_join2. apply cleaned_nonempty. exact Hq. }
  apply (has_path_prefix_iff _ _ Hc Hq) in Hw. rewrite Hw. reflexivity.
Qed.

Lemma comps_join2_abs : forall pfx n,
  cleaned pfx -> is_abs pfx = true -> is_abs n = true ->
  comps (join2 pfx (clean n)) = comps pfx ++ comps n.
Proof.
  intros pfx n Hq Ha Hn.
  rewrite (comps_join2 _ _ (cleaned_nonempty _ Hq)). rewrite Ha.
  rewrite norm_normal_id.
  - rewrite rev_involutive. reflexivity.
  - rewrite <- rev_app_distr. fold (normal true (comps pfx ++ comps n)).
    apply normal_true_app.
    + rewrite <- Ha. apply comps_normal.
    + rewrite <- Hn. apply comps_normal.
Qed.

Lemma within_join2_abs : forall pfx n,
  cleaned pfx -> is_abs pfx = true -> is_abs n = true ->
  within pfx (join2 pfx (clean n)).
Proof.
  intros pfx n Hq Ha Hn. split.
  - rewrite (is_abs_join2 _ _ (cleaned_nonempty _ Hq)). reflexivity.
  - exists (comps n). split; [apply comps_join2_abs; assumption|].
    apply normal_rooted_no_dotdot. rewrite <- Hn. apply comps_normal.
Qed.

Lemma prefix_path_abs_total :
  forall pfx n, cleaned pfx -> is_abs pfx = true -> is_abs n = true ->
  prefix_path pfx n = Some (join2 pfx (clean n)).
Proof.
  intros pfx n Hq Ha Hn. apply prefix_path_eq; [exact Hq|].
  apply within_join2_abs; assumption.
Qed.

Lemma prefixfs_refines_single :
  forall pfx m n aux, cleaned pfx -> two_paths m = false ->
  within pfx (join2 pfx (clean n)) ->
  prefixfs_call pfx (mkCall m n [] aux) = Fwd (mkCall m (join2 pfx (clean n)) [] aux).
Proof.
  intros pfx m n aux Hq Hm Hw. unfold prefixfs_call.
  destruct m; try discriminate Hm; simpl; rewrite (prefix_path_eq _ _ Hq Hw); reflexivity.
Qed.

Lemma prefixfs_refines_rename :
  forall pfx a b aux, cleaned pfx ->
  within pfx (join2 pfx (clean a)) -> within pfx (join2 pfx (clean b)) ->
  prefixfs_call pfx (mkCall MRename a b aux) =
  Fwd (mkCall MRename (join2 pfx (clean a)) (join2 pfx (clean b)) aux).
Proof.
  intros pfx a b aux Hq Ha Hb. unfold prefixfs_call. simpl.
  rewrite (prefix_path_eq _ _ Hq Ha), (prefix_path_eq _ _ Hq Hb). reflexivity.
Qed.

Lemma abs_not_dot : forall p, is_abs p = true -> str_eqb p s_dot = false.
Proof.
  intros p Ha. apply str_eqb_neq. intro E. subst p. vm_compute in Ha. discriminate Ha.
Qed.

Lemma trim_prefix_self : forall p, trim_prefix p p = [].
Proof.
  intro p. pose proof (trim_prefix_app p []) as H. rewrite app_nil_r in H. exact H.
Qed.

(** Trimming an absolute cleaned prefix off an absolute cleaned path below it
    leaves the remaining components, rendered as an absolute path. *)
Lemma trim_inside : forall pfx c rest,
  cleaned pfx -> is_abs pfx = true -> cleaned c -> is_abs c = true ->
  comps c = comps pfx ++ rest ->
  trim_path_prefix c pfx = render true rest.
Proof.
  intros pfx c rest Hq Ha Hc Hca E.
  assert (Hgr : Forall good_comp rest).
  { pose proof (comps_good c) as Hg. rewrite E in Hg. apply Forall_app in Hg. apply Hg. }
  unfold trim_path_prefix. rewrite (abs_not_dot _ Ha).
  rewrite (cleaned_eq c Hc), (cleaned_eq pfx Hq), Ha, Hca, E.
  destruct (comps pfx) as [|q cq] eqn:Eq.
  - simpl app. change (render true []) with [sep].
    rewrite render_abs. change (sep :: join_sep rest) with ([sep] ++ join_sep rest).
    rewrite trim_prefix_app.
    assert (Hr : is_abs (join_sep rest) = false).
    { destruct rest as [|r0 rest]; [reflexivity|]. apply is_abs_join; [exact Hgr | discriminate]. }
    rewrite Hr. reflexivity.
  - destruct rest as [|r0 rest].
    + rewrite app_nil_r. rewrite trim_prefix_self. reflexivity.
    + rewrite render_app by discriminate. rewrite <- app_assoc.
      rewrite trim_prefix_app. simpl app. simpl is_abs. reflexivity.
Qed.

(** [prefixfs_file_name_spec] as stated in Props/C14.v (without
    [is_abs a' = true]) is FALSE: pfx = "/a", a' = "a/b", rest = ["b"].
    This is the statement with the missing hypothesis. *)
Lemma prefixfs_file_name_spec_abs :
  forall pfx a' rest, cleaned pfx -> is_abs pfx = true -> cleaned a' -> is_abs a' = true ->
  comps a' = comps pfx ++ rest ->
  prefixfs_file_name pfx a' = render true rest.
Proof.
  intros pfx a' rest Hq Ha Hc Hca E.
  unfold prefixfs_file_name, prefix_file_reported_name.
  destruct (str_eqb_spec a' pfx) as [Eq|Nq].
  - subst a'. rewrite <- (app_nil_r (comps pfx)) in E at 1.
    apply app_inv_head in E. subst rest. reflexivity.
  - assert (Hne : str_eqb pfx [] = false).
    { apply str_eqb_neq. apply cleaned_nonempty. exact Hq. }
    rewrite Hne. simpl negb. simpl andb.
    assert (Hw : within pfx a').
    { split; [congruence|]. exists rest. split; [exact E|].
      intro F. apply (normal_rooted_no_dotdot (comps a')).
      - rewrite <- Hca. apply comps_normal.
      - rewrite E. apply in_or_app. right. exact F. }
    apply (has_path_prefix_iff _ _ Hc Hq) in Hw. rewrite Hw.
    rewrite (trim_inside _ _ _ Hq Ha Hc Hca E). reflexivity.
Qed.

(** Machine-checked refutation of the statement of [C14_file_name] as it
    stands in Props/C14.v: prefix "/a", a' = "a/b" (relative), rest = ["b"]. *)
Lemma prefixfs_file_name_spec_as_stated_is_false :
  ~ (forall pfx a' rest, cleaned pfx -> is_abs pfx = true -> cleaned a' ->
     comps a' = comps pfx ++ rest ->
     prefixfs_file_name pfx a' = render true rest).
Proof.
  intro H.
  specialize (H [sep; 97%N] [97%N; sep; 98%N] [[98%N]]).
  assert (E : prefixfs_file_name [sep; 97%N] [97%N; sep; 98%N] = render true [[98%N]]).
  { apply H; vm_compute; reflexivity. }
  vm_compute in E. discriminate E.
Qed.

Lemma take_until_sep_nosep : forall r, nosep (take_until_sep r).
Proof.
  induction r as [|c r IH]; simpl.
  - apply nosep_nil.
  - destruct (N.eqb_spec c sep) as [E|E]; [apply nosep_nil|].
    apply nosep_cons. split; assumption.
Qed.

Lemma is_abs_nosep : forall s, nosep s -> is_abs s = false.
Proof.
  intros [|c s] H; [reflexivity|]. apply nosep_cons in H. destruct H as [H _].
  simpl. apply N.eqb_neq. exact H.
Qed.

Lemma base_abs_root : forall p, is_abs (base p) = true -> base p = s_root.
Proof.
  intros p H. unfold base in *. destruct p as [|c p]; [vm_compute in H; discriminate H|].
  destruct (strip_trailing_sep_rev (rev (c :: p))) as [|d r]; [reflexivity|].
  rewrite is_abs_nosep in H; [discriminate H|].
  intro F. apply in_rev in F. exact (take_until_sep_nosep _ F).
Qed.

Lemma prefixfs_info_name_spec :
  forall pfx a', cleaned pfx -> is_abs pfx = true -> cleaned a' -> within pfx a' ->
  prefixfs_info_name pfx a' = if str_eqb a' pfx then s_root else base a'.
Proof.
  intros pfx a' Hq Ha Hc Hw.
  unfold prefixfs_info_name, prefix_info_reported_name.
  destruct (str_eqb a' pfx); [reflexivity|].
  destruct (is_abs (base a')) eqn:Eb.
  - apply base_abs_root in Eb. rewrite Eb.
    destruct (has_path_prefix s_root pfx) eqn:Eh.
    + apply has_path_prefix_iff in Eh; [|vm_compute; reflexivity|exact Hq].
      destruct Eh as [_ [rest [E _]]]. change (comps s_root) with (@nil str) in E.
      symmetry in E. apply app_eq_nil in E. destruct E as [E _].
      apply (cleaned_comps_nil_abs pfx Hq Ha) in E. subst pfx. vm_compute. reflexivity.
    + rewrite andb_false_r. reflexivity.
  - rewrite andb_false_r. simpl. reflexivity.
Qed.

Lemma prefixfs_readlink_inside :
  forall pfx linked rest, cleaned pfx -> is_abs pfx = true -> is_abs linked = true ->
  comps (clean linked) = comps pfx ++ rest ->
  prefixfs_readlink_result pfx linked = render true rest.
Proof.
  intros pfx linked rest Hq Ha Hl E. unfold prefixfs_readlink_result.
  pose proof (cleaned_clean linked) as Hc.
  assert (Hca : is_abs (clean linked) = true) by (rewrite is_abs_clean; exact Hl).
  assert (Hw : within pfx (clean linked)).
  { split; [congruence|]. exists rest. split; [exact E|].
    intro F. apply (normal_rooted_no_dotdot (comps (clean linked))).
    - rewrite <- Hca. apply comps_normal.
    - rewrite E. apply in_or_app. right. exact F. }
  apply (has_path_prefix_iff _ _ Hc Hq) in Hw. rewrite Hw, Hca. simpl.
  apply trim_inside; assumption.
Qed.

Lemma prefixfs_readlink_relative :
  forall pfx linked, is_abs linked = false -> prefixfs_readlink_result pfx linked = clean linked.
Proof.
  intros pfx linked Hl. unfold prefixfs_readlink_result.
  rewrite is_abs_clean, Hl. reflexivity.
Qed.

Lemma prefixfs_symlink_readlink :
  forall pfx t n aux c', cleaned pfx -> is_abs pfx = true ->
  prefixfs_call pfx (mkCall MSymlink t n aux) = Fwd c' ->
  prefixfs_readlink_result pfx (c_a c') = clean t.
Proof.
  intros pfx t n aux c' Hq Ha H. unfold prefixfs_call in H. simpl in H.
  destruct (prefix_path pfx n) as [n'|] eqn:En; [|discriminate H].
  destruct (is_abs t) eqn:Et.
  - destruct (prefix_path pfx t) as [t'|] eqn:Et'; [|discriminate H].
    injection H as H. subst c'. simpl.
    apply prefix_path_some in Et'. destruct Et' as [Et' _]. subst t'.
    pose proof (cleaned_nonempty _ Hq) as Hne.
    rewrite (prefixfs_readlink_inside pfx _ (comps t) Hq Ha).
    + unfold clean. rewrite Et. reflexivity.
    + rewrite (is_abs_join2 _ _ Hne). exact Ha.
    + rewrite (cleaned_join2 pfx (clean t) Hne). apply comps_join2_abs; assumption.
  - destruct (has_path_prefix (join2 (dir n') t) pfx); [|discriminate H].
    injection H as H. subst c'. simpl. apply prefixfs_readlink_relative. exact Et.
Qed.

(* ------------------------------------------------------------------ *)
(** * C18: VolumeFS *)

Lemma volumefs_identity : forall c, volumefs_call c = Fwd (vol_clean_call c).
Proof.
  intro c. unfold volumefs_call, vol_clean_call. destruct (c_meth c); reflexivity.
Qed.

Lemma volumefs_identity_cleaned :
  forall m a aux, two_paths m = false -> cleaned a ->
  volumefs_call (mkCall m a [] aux) = Fwd (mkCall m a [] aux).
Proof.
  intros m a aux Hm Hc. unfold volumefs_call. unfold cleaned in Hc.
  destruct m; try discriminate Hm; simpl; rewrite Hc; reflexivity.
Qed.

Lemma vol_clean_call_idem : forall c, vol_clean_call (vol_clean_call c) = vol_clean_call c.
Proof.
  intros [m a b aux]. unfold vol_clean_call.
  destruct m; simpl; rewrite ?clean_idem; try reflexivity.
  destruct (is_abs a) eqn:Ea.
  - rewrite is_abs_clean, Ea, clean_idem. reflexivity.
  - rewrite Ea. reflexivity.
Qed.

Lemma volumefs_readlink_spec :
  forall l, volumefs_readlink_result l = clean l /\ cleaned (clean l).
Proof. intro l. split; [reflexivity | apply cleaned_clean]. Qed.
