(** Facts for C04: the backup location is sealed off behind HiddenFS.

    Everything is proved for an ARBITRARY underlying filesystem [b : fsapi]
    (and an arbitrary backup filesystem), with or without the spy layer.
    "A method is not invoked" is expressed by running the same computation
    over a restricted filesystem whose removed methods stop the computation
    ([s_halt], never caught) and proving the two runs equal (pointwise, [meq]).

    Part 0  monad congruence lemmas (pointwise equality of computations).
    Part 1  (S1) API-level lifting of the lexical HiddenFS theorem: every
            method of [layered (hidden_layer hs) b] (= [hiddenfs hs0 b] with
            [hs = hidden_norm hs0]) on a name the check classifies as hidden
            ([hid]) fails with the hidden error and leaves the world
            untouched; handles are hiddenFiles; listings filter.
    Part 2  restricted filesystems ([s_ro], [s_guard], [s_trap], [wrap]) and
            congruence of the BackupFS machinery ([real_path], [try_backup] ...).
    Part 2/3 (S2, S3) BackupFS over a HiddenFS base: an operation whose
            *resolved* name is hidden fails, invokes no mutating method of the
            underlying filesystem, and invokes the backup filesystem on shown
            names only; [try_backup] never hands a hidden name to the backup
            filesystem and, on a hidden name, never reaches its copy stage.
    Part 4  HiddenFS.RemoveAll issues, on the underlying filesystem, nothing
            but reads and Remove of shown names.
    Part 5  the universal seal: no operation of BackupFS ever invokes a method
            of either underlying filesystem on a hidden name; Rollback and
            ForceBackup invoke no mutating method of [b] on a hidden name.
    Part 6  the lexical statements ([comparable], [below]) used by Props/C04.v.
    Part 7  non-vacuity examples on concrete trees.

    Lexical throughout: "hidden" is what [is_hidden] says about the name that
    HiddenFS is handed (for BackupFS's mutating operations: the resolved
    name).  Reaching the location through a symlink or a physical ".." that
    the resolution does not see is the recorded finding D9. *)
From stdpp Require Import gmap.
From BFS Require Import Layers.Call Layers.LayerSpec Layers.HiddenList.
From BFS Require Import Proofs.PathFacts Proofs.HiddenFacts Proofs.HiddenListFacts.
From BFS Require Import Backup.History.

Local Open Scope N_scope.

(* ------------------------------------------------------------------ *)
(** * Part 0: pointwise equality of computations *)

Definition meq {A} (m1 m2 : M A) : Prop := forall w, m1 w = m2 w.

Lemma meq_refl {A} (m : M A) : meq m m.
Proof. intro w. reflexivity. Qed.

Lemma bind_ext {A B} (m1 m2 : M A) (f1 f2 : A -> M B) :
  meq m1 m2 -> (forall a, meq (f1 a) (f2 a)) -> meq (bind m1 f1) (bind m2 f2).
Proof.
  intros Hm Hf w. unfold bind. rewrite (Hm w).
  destruct (m2 w) as [[a|e|] w']; [apply Hf|reflexivity|reflexivity].
Qed.

Lemma try_ext {A} (m1 m2 : M A) : meq m1 m2 -> meq (try_ m1) (try_ m2).
Proof. intros Hm w. unfold try_. rewrite (Hm w). reflexivity. Qed.

Lemma spied_ext {A} t m p p2 (o1 o2 : M A) : meq o1 o2 -> meq (spied t m p p2 o1) (spied t m p p2 o2).
Proof.
  intros Ho w. unfold spied.
  destruct (w_crash w) as [k|]; [destruct (N.leb k (w_ticks w)); [reflexivity|]|];
    (destruct (faulted _ t m p); [reflexivity|]); rewrite Ho; reflexivity.
Qed.

Lemma miter_ext {A} (f1 f2 : A -> M unit) (l : list A) :
  (forall x, In x l -> meq (f1 x) (f2 x)) -> meq (miter f1 l) (miter f2 l).
Proof.
  induction l as [|x r IH]; intros Hf; simpl; [apply meq_refl|].
  apply bind_ext; [apply Hf; left; reflexivity|].
  intros _. apply IH. intros y Hy. apply Hf. right. exact Hy.
Qed.

Lemma mfold_ext {A B} (f1 f2 : B -> A -> M B) (l : list A) :
  (forall b x, In x l -> meq (f1 b x) (f2 b x)) -> forall b, meq (mfold f1 l b) (mfold f2 l b).
Proof.
  induction l as [|x r IH]; intros Hf b; simpl; [apply meq_refl|].
  apply bind_ext; [apply Hf; left; reflexivity|].
  intros b'. apply IH. intros b0 y Hy. apply Hf. right. exact Hy.
Qed.

(** results of a spied call *)
Lemma spied_not_ok {A} t m p p2 (o : M A) :
  (forall w a w', o w <> (MOk a, w')) -> forall w a w', spied t m p p2 o w <> (MOk a, w').
Proof.
  intros Ho w a w'. unfold spied.
  destruct (w_crash w) as [k|]; [destruct (N.leb k (w_ticks w)); [discriminate|]|];
    (destruct (faulted _ t m p); [discriminate|]);
    match goal with |- context [o ?x] => destruct (o x) as [[a0|e|] w2] eqn:E end;
    try discriminate; exfalso; eapply Ho; exact E.
Qed.

Lemma spied_ok_inv {A} t m p p2 (o : M A) w a w' :
  spied t m p p2 o w = (MOk a, w') ->
  exists w1 w2, o w1 = (MOk a, w2).
Proof.
  unfold spied.
  destruct (w_crash w) as [k|]; [destruct (N.leb k (w_ticks w)); [discriminate|]|];
    (destruct (faulted _ t m p); [discriminate|]);
    match goal with |- context [o ?x] => destruct (o x) as [[a0|e|] w2] eqn:E end;
    try discriminate; intro Hq; inversion Hq; subst; eauto.
Qed.

(* ------------------------------------------------------------------ *)
(** * Part 1: the API of HiddenFS on hidden names (S1) *)

Lemma isort_In lt x l : In x (isort lt l) -> In x l.
Proof.
  induction l as [|y r IH]; simpl; [tauto|].
  assert (Hins : forall z s, In z (insert lt y s) -> z = y \/ In z s).
  { intros z s. induction s as [|u s IHs]; simpl.
    - intros [E|[]]; left; symmetry; exact E.
    - destruct (lt y u); simpl.
      + intros [E|[E|Hi]]; [left; symmetry; exact E|right; left; exact E|right; right; exact Hi].
      + intros [E|Hi]; [right; left; exact E|]. destruct (IHs Hi) as [E|Hi']; [left; exact E|right; right; exact Hi']. }
  intro Hi. destruct (Hins _ _ Hi) as [E|Hi']; [left; symmetry; exact E|right; apply IH; exact Hi'].
Qed.

Lemma In_isort lt x l : In x l -> In x (isort lt l).
Proof.
  assert (Hins : forall y z s, z = y \/ In z s -> In z (insert lt y s)).
  { intros y z s. induction s as [|u s IHs]; simpl.
    - intros [E|[]]; left; symmetry; exact E.
    - destruct (lt y u); simpl.
      + intros [E|[E|Hi]]; [left; symmetry; exact E|right; left; exact E|right; right; exact Hi].
      + intros [E|[E|Hi]]; [right; apply IHs; left; exact E|left; exact E|right; apply IHs; right; exact Hi]. }
  induction l as [|y r IH]; simpl; [tauto|].
  intros [E|Hi]; apply Hins; [left; symmetry; exact E|right; apply IH; exact Hi].
Qed.

(** what [NewHiddenFS] stores is a list of cleaned paths *)
Lemma hidden_norm_cleaned hs0 : Forall cleaned (hidden_norm hs0).
Proof.
  apply Forall_forall. intros x Hx. unfold hidden_norm, sort_most in Hx.
  apply isort_In in Hx. apply in_map_iff in Hx. destruct Hx as [y [E _]]. subst x.
  apply cleaned_clean.
Qed.

Lemma hidden_norm_below hs0 n :
  below (hidden_norm hs0) n <-> exists h, In h hs0 /\ within (clean h) (clean n).
Proof.
  unfold below, hidden_norm, sort_most. split.
  - intros [h [Hi Hw]]. apply isort_In in Hi. apply in_map_iff in Hi.
    destruct Hi as [y [E Hy]]. subst h. exists y. split; assumption.
  - intros [h [Hi Hw]]. exists (clean h). split; [|exact Hw].
    apply In_isort. apply in_map. exact Hi.
Qed.

Lemma hidden_norm_single q : cleaned q -> hidden_norm [q] = [q].
Proof. intro Hq. unfold hidden_norm. simpl. rewrite Hq. reflexivity. Qed.

Lemma hiddenfs_single q b : cleaned q -> hiddenfs [q] b = layered (hidden_layer [q]) b.
Proof. intro Hq. unfold hiddenfs. rewrite hidden_norm_single by exact Hq. reflexivity. Qed.

(** [hid hs n]: the HiddenFS check classifies [n] as hidden.  By C06 this is
    the case for every spelling of a name lexically at/below a hidden path. *)
Definition hid (hs : list str) (n : str) : Prop := is_hidden n hs = Some true.

Lemma below_hid hs n : Forall cleaned hs -> comparable hs n -> below hs n -> hid hs n.
Proof. apply is_hidden_below. Qed.

Lemma o_creat_has fl perm : has_o_create [Z.of_N fl; Z.of_N perm] = o_creat fl.
Proof. unfold has_o_create, o_creat. exact (Z.testbit_of_N fl 6). Qed.

Definition hfail {A} (e : errclass) : M A := fail (ELayer e).

Section HiddenApi.
  Variable hs : list str.
  Variable b : fsapi.
  Let H := layered (hidden_layer hs) b.

  Ltac hid_solve Hh :=
    intros Hh w; unfold H, layered, layered_with, hid in *;
    cbn [a_lstat a_stat a_readlink a_open a_openfile a_create a_mkdir a_mkdirall a_remove
         a_removeall a_rename a_chmod a_chown a_lchown a_chtimes a_symlink
         hidden_layer l_call hiddenfs_call c_meth c_a c_b c_aux];
    rewrite ?Hh; reflexivity.

  Lemma hid_lstat n : hid hs n -> meq (a_lstat H n) (hfail EHiddenNotExist).
  Proof. hid_solve Hh. Qed.
  Lemma hid_stat n : hid hs n -> meq (a_stat H n) (hfail EHiddenNotExist).
  Proof. hid_solve Hh. Qed.
  Lemma hid_readlink n : hid hs n -> meq (a_readlink H n) (hfail EHiddenNotExist).
  Proof. hid_solve Hh. Qed.
  Lemma hid_open n : hid hs n -> meq (a_open H n) (hfail EHiddenNotExist).
  Proof. hid_solve Hh. Qed.
  Lemma hid_openfile n fl perm : hid hs n ->
    meq (a_openfile H n fl perm)
        (hfail (if has_o_create [Z.of_N fl; Z.of_N perm] then EHiddenPerm else EHiddenNotExist)).
  Proof. hid_solve Hh. Qed.
  Lemma hid_create n : hid hs n -> meq (a_create H n) (hfail EHiddenPerm).
  Proof. hid_solve Hh. Qed.
  Lemma hid_mkdir n perm : hid hs n -> meq (a_mkdir H n perm) (hfail EHiddenPerm).
  Proof. hid_solve Hh. Qed.
  Lemma hid_mkdirall n perm : hid hs n -> meq (a_mkdirall H n perm) (hfail EHiddenPerm).
  Proof. hid_solve Hh. Qed.
  Lemma hid_remove n : hid hs n -> meq (a_remove H n) (hfail EHiddenNotExist).
  Proof. hid_solve Hh. Qed.
  Lemma hid_removeall n : hid hs n -> meq (a_removeall H n) (hfail EHiddenNotExist).
  Proof. hid_solve Hh. Qed.
  Lemma hid_chmod n m : hid hs n -> meq (a_chmod H n m) (hfail EHiddenNotExist).
  Proof. hid_solve Hh. Qed.
  Lemma hid_chown n u g : hid hs n -> meq (a_chown H n u g) (hfail EHiddenNotExist).
  Proof. hid_solve Hh. Qed.
  Lemma hid_lchown n u g : hid hs n -> meq (a_lchown H n u g) (hfail EHiddenNotExist).
  Proof. hid_solve Hh. Qed.
  Lemma hid_chtimes n t : hid hs n -> meq (a_chtimes H n t) (hfail EHiddenNotExist).
  Proof. hid_solve Hh. Qed.
  Lemma hid_rename_old o n : hid hs o -> meq (a_rename H o n) (hfail EHiddenNotExist).
  Proof. hid_solve Hh. Qed.
End HiddenApi.

(** the error of a rejected Rename / Symlink: ErrHiddenNotExist for a hidden
    old name, ErrHiddenPermission otherwise ("hidden check failed" when the
    check itself fails, D10) *)
Definition rename_err (hs : list str) (o n : str) : errclass :=
  match is_hidden o hs with
  | Some true => EHiddenNotExist
  | Some false => EHiddenPerm
  | None => EHiddenCheck
  end.
Definition symlink_err (hs : list str) (t l : str) : errclass :=
  match is_hidden (to_abs_symlink t l) hs with
  | Some _ => EHiddenPerm
  | None => EHiddenCheck
  end.

Section HiddenApi2.
  Variable hs : list str.
  Variable b : fsapi.
  Let H := layered (hidden_layer hs) b.

  (** Rename with a hidden old or new name, Symlink at a hidden location or
      with a hidden (lexical, absolute) target: the call transformer rejects *)
  Lemma rename_rej o n : hid hs o \/ hid hs n ->
    hiddenfs_call hs (mkCall MRename o n []) = Rej (rename_err hs o n).
  Proof.
    unfold hid, hiddenfs_call, rename_err. cbn [c_meth c_a c_b].
    intros [Ho|Hn].
    - rewrite Ho. reflexivity.
    - destruct (is_hidden o hs) as [[|]|]; try reflexivity. rewrite Hn. reflexivity.
  Qed.

  Lemma symlink_rej t l : hid hs l \/ hid hs (to_abs_symlink t l) ->
    hiddenfs_call hs (mkCall MSymlink t l []) = Rej (symlink_err hs t l).
  Proof.
    unfold hid, hiddenfs_call, symlink_err. cbn [c_meth c_a c_b].
    intros [Hl|Ht].
    - destruct (is_hidden (to_abs_symlink t l) hs) as [[|]|]; try reflexivity. rewrite Hl. reflexivity.
    - rewrite Ht. reflexivity.
  Qed.

  Lemma rej_rename o n e : hiddenfs_call hs (mkCall MRename o n []) = Rej e -> meq (a_rename H o n) (hfail e).
  Proof.
    intros He w. unfold H, layered, layered_with. cbn [a_rename hidden_layer l_call].
    rewrite He. reflexivity.
  Qed.

  Lemma hid_rename o n : hid hs o \/ hid hs n -> meq (a_rename H o n) (hfail (rename_err hs o n)).
  Proof. intros Hor. apply rej_rename. apply rename_rej. exact Hor. Qed.

  Lemma hid_symlink t l : hid hs l \/ hid hs (to_abs_symlink t l) ->
    meq (a_symlink H t l) (hfail (symlink_err hs t l)).
  Proof.
    intros Hor w. unfold H, layered, layered_with. cbn [a_symlink hidden_layer l_call].
    rewrite (symlink_rej t l Hor). reflexivity.
  Qed.

  (** every handle obtained through HiddenFS is a hiddenFile carrying the name
      it was opened with and the hidden list *)
  Lemma open_handle_hidden n w h w' :
    a_open H n w = (MOk h, w') -> fh_hidden h = Some (n, hs).
  Proof.
    unfold H, layered, layered_with. cbn [a_open hidden_layer l_call l_handle].
    destruct (hiddenfs_call hs _) as [c'|e|]; cbn [with_outcome]; [|discriminate|discriminate].
    unfold bind. destruct (dispatch_handle b c' w) as [[h0|e|] w0]; try discriminate.
    unfold ret. intro E. inversion E. reflexivity.
  Qed.
  Lemma openfile_handle_hidden n fl perm w h w' :
    a_openfile H n fl perm w = (MOk h, w') -> fh_hidden h = Some (n, hs).
  Proof.
    unfold H, layered, layered_with. cbn [a_openfile hidden_layer l_call l_handle].
    destruct (hiddenfs_call hs _) as [c'|e|]; cbn [with_outcome]; [|discriminate|discriminate].
    unfold bind. destruct (dispatch_handle b c' w) as [[h0|e|] w0]; try discriminate.
    unfold ret. intro E. inversion E. reflexivity.
  Qed.
  Lemma create_handle_hidden n w h w' :
    a_create H n w = (MOk h, w') -> fh_hidden h = Some (n, hs).
  Proof.
    unfold H, layered, layered_with. cbn [a_create hidden_layer l_call l_handle].
    destruct (hiddenfs_call hs _) as [c'|e|]; cbn [with_outcome]; [|discriminate|discriminate].
    unfold bind. destruct (dispatch_handle b c' w) as [[h0|e|] w0]; try discriminate.
    unfold ret. intro E. inversion E. reflexivity.
  Qed.
End HiddenApi2.

(** the filter of a hiddenFile keeps exactly the entries the check classifies
    as not hidden, in order *)
Lemma filter_visible_spec dirp hs names vis :
  filter_visible dirp hs names = Some vis ->
  vis = filter (fun e => match is_hidden (join2 dirp e) hs with Some false => true | _ => false end) names /\
  (forall e, In e names -> is_hidden (join2 dirp e) hs <> None).
Proof.
  revert vis. induction names as [|n r IH]; simpl; intros vis Hf.
  - inversion Hf. split; [reflexivity|]. intros e [].
  - destruct (is_hidden (join2 dirp n) hs) as [hb|] eqn:Eh; [|discriminate].
    destruct (filter_visible dirp hs r) as [r'|]; [|discriminate].
    destruct (IH r' eq_refl) as [IH1 IH2]. inversion Hf. subst vis. split.
    + destruct hb; rewrite IH1; reflexivity.
    + intros e [E|Hi]; [subst e; rewrite Eh; discriminate|apply IH2; exact Hi].
Qed.

(** A listing ([Readdirnames(-1)], the form Walk and the harness use) through
    a hiddenFile for directory [dirp]: whatever the underlying directory
    contains, whether the handle is spied or not, a successful listing
    contains no entry that the check classifies as hidden. *)
Lemma hreaddirnames_hidden h dirp hs w l w' :
  fh_hidden h = Some (dirp, hs) ->
  hreaddirnames h w = (MOk l, w') ->
  forall e, In e l -> is_hidden (join2 dirp e) hs = Some false.
Proof.
  intros Hh Hr.
  assert (Hcore : forall w l w',
    (names <- fs_get (fun s => fs_readdirnames s (fh h)) ;;
     match fh_hidden h with
     | None => ret names
     | Some (dirp, hs) =>
         match fst (hidden_list dirp hs (-1) names) with
         | LOk l | LEof l => ret l
         | LErr => fail (ELayer EHiddenCheck)
         end
     end) w = (MOk l, w') ->
    forall e, In e l -> is_hidden (join2 dirp e) hs = Some false).
  { clear w l w' Hr. intros w l w'. rewrite Hh. unfold bind.
    destruct (fs_get _ w) as [[names|e|] w0]; try discriminate.
    unfold hidden_list. change ((-1 <=? 0)%Z) with true. cbv iota.
    unfold take. change ((-1 <=? 0)%Z) with true. cbv iota beta.
    destruct (filter_visible dirp hs names) as [vis|] eqn:Ef; cbn [fst]; [|discriminate].
    unfold ret. intro E. inversion E. subst l w0.
    apply filter_visible_spec in Ef. destruct Ef as [Ev _]. subst vis.
    intros e He. apply filter_In in He. destruct He as [_ Hm].
    destruct (is_hidden (join2 dirp e) hs) as [[|]|]; try discriminate. reflexivity. }
  unfold hreaddirnames, spy_h in Hr.
  destruct (fh_spy h) as [[t p]|].
  - apply spied_ok_inv in Hr. destruct Hr as [w1 [w2 Hr]]. eapply Hcore. exact Hr.
  - eapply Hcore. exact Hr.
Qed.

(** ... and it contains every entry that is classified as not hidden (so the
    listing is exactly the C11 [visible] list of the underlying listing) *)
Lemma hreaddirnames_unspied_exact h dirp hs w l w' :
  fh_hidden h = Some (dirp, hs) -> fh_spy h = None ->
  hreaddirnames h w = (MOk l, w') ->
  exists names, fs_readdirnames (w_st w) (fh h) = Ok names /\ w' = w /\
    l = filter (fun e => match is_hidden (join2 dirp e) hs with Some false => true | _ => false end) names.
Proof.
  intros Hh Hs. unfold hreaddirnames, spy_h. rewrite Hs, Hh. unfold bind, fs_get.
  destruct (fs_readdirnames (w_st w) (fh h)) as [names|e]; cbn [lift_res]; [|discriminate].
  unfold ret at 1.
  unfold hidden_list. change ((-1 <=? 0)%Z) with true. cbv iota.
  unfold take. change ((-1 <=? 0)%Z) with true. cbv iota beta.
  destruct (filter_visible dirp hs names) as [vis|] eqn:Ef; cbn [fst]; [|discriminate].
  unfold ret. intro E. inversion E. subst.
  exists names. split; [reflexivity|]. split; [reflexivity|].
  apply filter_visible_spec in Ef. tauto.
Qed.

(* ------------------------------------------------------------------ *)
(** * Part 2: restricted filesystems, used to say "this method is not invoked" *)

(** Stops the whole computation, like a crash point: never caught by [try_],
    so a computation that is *equal* to the same computation over a restricted
    filesystem has not invoked any of the removed methods. *)
Definition s_halt {A} : M A := fun w => (MHalt, w).

(** [b] without its mutating methods: Lstat, Stat, Readlink, Open and
    OpenFile(O_RDONLY) are kept, everything else halts. *)
Definition s_ro (b : fsapi) : fsapi := {|
  a_lstat := a_lstat b; a_stat := a_stat b; a_readlink := a_readlink b; a_open := a_open b;
  a_openfile p fl perm := if N.eqb fl 0 then a_openfile b p fl perm else s_halt;
  a_create _ := s_halt; a_mkdir _ _ := s_halt; a_mkdirall _ _ := s_halt;
  a_remove _ := s_halt; a_removeall _ := s_halt; a_rename _ _ := s_halt;
  a_chmod _ _ := s_halt; a_chown _ _ _ := s_halt; a_lchown _ _ _ := s_halt;
  a_chtimes _ _ := s_halt; a_symlink _ _ := s_halt |}.

(** every method halts *)
Definition s_trap : fsapi := {|
  a_lstat _ := s_halt; a_stat _ := s_halt; a_readlink _ := s_halt; a_open _ := s_halt;
  a_openfile _ _ _ := s_halt;
  a_create _ := s_halt; a_mkdir _ _ := s_halt; a_mkdirall _ _ := s_halt;
  a_remove _ := s_halt; a_removeall _ := s_halt; a_rename _ _ := s_halt;
  a_chmod _ _ := s_halt; a_chown _ _ _ := s_halt; a_lchown _ _ _ := s_halt;
  a_chtimes _ _ := s_halt; a_symlink _ _ := s_halt |}.

(** [a] restricted to the names accepted by [ok] (for Rename both names, for
    Symlink the location): any method on another name halts *)
Definition s_guard (ok : str -> bool) (a : fsapi) : fsapi := {|
  a_lstat p := if ok p then a_lstat a p else s_halt;
  a_stat p := if ok p then a_stat a p else s_halt;
  a_readlink p := if ok p then a_readlink a p else s_halt;
  a_open p := if ok p then a_open a p else s_halt;
  a_openfile p fl perm := if ok p then a_openfile a p fl perm else s_halt;
  a_create p := if ok p then a_create a p else s_halt;
  a_mkdir p perm := if ok p then a_mkdir a p perm else s_halt;
  a_mkdirall p perm := if ok p then a_mkdirall a p perm else s_halt;
  a_remove p := if ok p then a_remove a p else s_halt;
  a_removeall p := if ok p then a_removeall a p else s_halt;
  a_rename o n := if ok o && ok n then a_rename a o n else s_halt;
  a_chmod p m := if ok p then a_chmod a p m else s_halt;
  a_chown p u g := if ok p then a_chown a p u g else s_halt;
  a_lchown p u g := if ok p then a_lchown a p u g else s_halt;
  a_chtimes p t := if ok p then a_chtimes a p t else s_halt;
  a_symlink t p := if ok p then a_symlink a t p else s_halt |}.

(** the names the HiddenFS check lets through *)
Definition shown (hs : list str) (p : str) : bool :=
  match is_hidden p hs with Some false => true | _ => false end.

(** with or without the spy layer of the checks *)
Definition wrap (sp : option fstag) (a : fsapi) : fsapi :=
  match sp with Some t => spy t a | None => a end.

(** agreement of two filesystems on the methods BackupFS uses for reading *)
Definition agree_read (a1 a2 : fsapi) : Prop :=
  (forall p, meq (a_lstat a1 p) (a_lstat a2 p)) /\
  (forall p, meq (a_readlink a1 p) (a_readlink a2 p)) /\
  (forall p, meq (a_open a1 p) (a_open a2 p)).

(** agreement of two filesystems on every single-name method at name [x]
    (for Symlink: as the location) *)
Definition agree_at (a1 a2 : fsapi) (x : str) : Prop :=
  meq (a_lstat a1 x) (a_lstat a2 x) /\
  (forall fl perm, meq (a_openfile a1 x fl perm) (a_openfile a2 x fl perm)) /\
  (forall perm, meq (a_mkdirall a1 x perm) (a_mkdirall a2 x perm)) /\
  meq (a_remove a1 x) (a_remove a2 x) /\
  (forall m, meq (a_chmod a1 x m) (a_chmod a2 x m)) /\
  (forall u g, meq (a_chown a1 x u g) (a_chown a2 x u g)) /\
  (forall u g, meq (a_lchown a1 x u g) (a_lchown a2 x u g)) /\
  (forall t, meq (a_chtimes a1 x t) (a_chtimes a2 x t)) /\
  (forall t, meq (a_symlink a1 t x) (a_symlink a2 t x)).

Lemma agree_at_refl a x : agree_at a a x.
Proof. repeat split; intros; apply meq_refl. Qed.

Lemma guard_agree_at ok a x : ok x = true -> agree_at (s_guard ok a) a x.
Proof.
  intro Hx. unfold agree_at, s_guard; cbn. rewrite Hx.
  repeat split; intros; apply meq_refl.
Qed.

Lemma agree_read_refl a : agree_read a a.
Proof. repeat split; intros; apply meq_refl. Qed.

Lemma agree_read_wrap sp a1 a2 : agree_read a1 a2 -> agree_read (wrap sp a1) (wrap sp a2).
Proof.
  intros (Hl & Hr & Ho). destruct sp as [t|]; [|repeat split; assumption].
  unfold wrap, spy; cbn. repeat split; intros p; apply spied_ext; auto.
  apply bind_ext; [apply Ho|intro; apply meq_refl].
Qed.

Lemma agree_read_hidden_ro hs b :
  agree_read (layered (hidden_layer hs) (s_ro b)) (layered (hidden_layer hs) b).
Proof.
  unfold layered, layered_with. repeat split; intros p w;
    cbn [a_lstat a_readlink a_open hidden_layer l_call l_info l_link l_handle];
    destruct (hiddenfs_call hs _) as [c'|e|] eqn:Ec; cbn [with_outcome]; try reflexivity.
  (* remaining: open, forwarded as OpenFile(O_RDONLY) *)
  unfold hiddenfs_call in Ec. cbn [c_meth c_a] in Ec.
  destruct (is_hidden p hs) as [[|]|]; try discriminate. inversion Ec. reflexivity.
Qed.

Lemma bind_ext_post {A B} (m1 m2 : M A) (f1 f2 : A -> M B) :
  meq m1 m2 -> (forall a w w', m2 w = (MOk a, w') -> f1 a w' = f2 a w') ->
  meq (bind m1 f1) (bind m2 f2).
Proof.
  intros Hm Hf w. unfold bind. rewrite (Hm w).
  destruct (m2 w) as [[a|e|] w'] eqn:E; [eapply Hf; exact E|reflexivity|reflexivity].
Qed.

Lemma wrap_other_ext (m1 m2 : M unit) : meq m1 m2 -> meq (wrap_other m1) (wrap_other m2).
Proof. intro Hm. unfold wrap_other. apply bind_ext; [apply try_ext; exact Hm|intro; apply meq_refl]. Qed.

Lemma ignore_permission_ext (m1 m2 : M unit) :
  meq m1 m2 -> meq (ignore_permission m1) (ignore_permission m2).
Proof. intro Hm. unfold ignore_permission. apply bind_ext; [apply try_ext; exact Hm|intro; apply meq_refl]. Qed.

Lemma if_ext {A} (c : bool) (m1 m2 n1 n2 : M A) :
  meq m1 m2 -> meq n1 n2 -> meq (if c then m1 else n1) (if c then m2 else n2).
Proof. intros; destruct c; assumption. Qed.

(** * Congruence of the BackupFS machinery *)
Section Cong.
  Variables base1 base2 bk1 bk2 : fsapi.
  Hypothesis Hread : agree_read base1 base2.

  Lemma resolve_loop_ext : forall acc f final,
    meq (resolve_loop base1 acc f final) (resolve_loop base2 acc f final).
  Proof.
    destruct Hread as (Hl & Hr & _).
    induction acc as [|q rest IH]; intros f final; cbn [resolve_loop]; [apply meq_refl|].
    apply bind_ext; [apply try_ext; apply Hl|].
    intros [fi|e]; [|apply meq_refl].
    destruct (fi_kind fi).
    - destruct rest; [apply meq_refl|apply IH].
    - destruct rest; [apply meq_refl|apply IH].
    - apply bind_ext; [apply Hr|]. intro linked. destruct rest; [apply meq_refl|apply IH].
  Qed.

  Lemma real_path_ext n : meq (real_path base1 n) (real_path base2 n).
  Proof.
    unfold real_path, resolve_path_with_info.
    apply bind_ext; [|intro; apply meq_refl].
    destruct (clean n); [apply meq_refl|apply resolve_loop_ext].
  Qed.

  Lemma backup_required_ext p : meq (backup_required base1 p) (backup_required base2 p).
  Proof.
    destruct Hread as (Hl & _ & _). unfold backup_required.
    apply bind_ext; [apply meq_refl|]. intros [info|]; [apply meq_refl|].
    apply bind_ext; [apply try_ext; apply Hl|]. intro; apply meq_refl.
  Qed.

  (** [needs = true] only after a successful Lstat on the base *)
  Lemma backup_required_needs p w fi w' :
    backup_required base2 p w = (MOk (Some fi, true), w') ->
    exists w0 w1, a_lstat base2 p w0 = (MOk fi, w1).
  Proof.
    unfold backup_required, already_seen, get_infos, bind, ret, try_.
    destruct (w_infos w !! p) as [info|]; [intro E; inversion E|].
    destruct (a_lstat base2 p w) as [[fi0|e|] w0] eqn:El; try discriminate.
    - intro E. inversion E. subst. eauto.
    - destruct (is_not_found e); [|discriminate].
      unfold set_info_if_new, get_infos, bind, put_infos.
      destruct (w_infos w0 !! p); intro E; inversion E.
  Qed.

  Lemma chown_to_ext from name : agree_at bk1 bk2 name -> meq (chown_to bk1 from name) (chown_to bk2 from name).
  Proof.
    intros (Hl & _ & _ & _ & _ & Hc & _). unfold chown_to.
    apply bind_ext; [apply Hl|]. intro old. apply if_ext; [apply Hc|apply meq_refl].
  Qed.

  Lemma copy_dir_ext name info : agree_at bk1 bk2 name -> meq (copy_dir bk1 name info) (copy_dir bk2 name info).
  Proof.
    intros Ha. pose proof (chown_to_ext info name Ha) as Hch.
    destruct Ha as (Hl & _ & Hmk & _ & Hcm & _ & _ & Hct & _). unfold copy_dir.
    apply wrap_other_ext. apply if_ext; [apply meq_refl|]. apply if_ext; [apply meq_refl|].
    apply bind_ext; [apply Hmk|]. intros _.
    apply bind_ext; [apply Hl|]. intros nfi.
    apply bind_ext; [apply if_ext; [apply Hcm|apply meq_refl]|]. intros _.
    apply bind_ext; [apply if_ext; [apply ignore_permission_ext; apply Hct|apply meq_refl]|]. intros _.
    apply ignore_permission_ext. exact Hch.
  Qed.

  Lemma write_file_ext name perm src : agree_at bk1 bk2 name ->
    meq (write_file bk1 name perm src) (write_file bk2 name perm src).
  Proof.
    intros (_ & Ho & _). unfold write_file. apply bind_ext; [apply Ho|]. intro; apply meq_refl.
  Qed.

  Lemma copy_file_ext name info src : agree_at bk1 bk2 name ->
    meq (copy_file bk1 name info src) (copy_file bk2 name info src).
  Proof.
    intros Ha. pose proof (chown_to_ext info name Ha) as Hch.
    pose proof (write_file_ext name (perm9 info) src Ha) as Hw.
    destruct Ha as (Hl & _ & _ & _ & Hcm & _ & _ & Hct & _). unfold copy_file.
    apply wrap_other_ext. destruct (fi_kind info); try apply meq_refl.
    apply bind_ext; [apply Hw|]. intros _.
    apply bind_ext; [apply ignore_permission_ext; exact Hch|]. intros _.
    apply bind_ext; [apply Hl|]. intros nfi.
    apply bind_ext; [apply if_ext; [apply Hcm|apply meq_refl]|]. intros _.
    apply if_ext; [apply ignore_permission_ext; apply Hct|apply meq_refl].
  Qed.

  Lemma copy_symlink_ext name info : agree_at bk1 bk2 name ->
    meq (copy_symlink base1 bk1 name info) (copy_symlink base2 bk2 name info).
  Proof.
    destruct Hread as (_ & Hr & _).
    intros (_ & _ & _ & _ & _ & _ & Hlc & _ & Hs). unfold copy_symlink.
    apply wrap_other_ext. destruct (fi_kind info); try apply meq_refl.
    apply bind_ext; [apply Hr|]. intros pointsAt.
    apply bind_ext; [apply Hs|]. intros _.
    apply ignore_permission_ext. apply Hlc.
  Qed.

  (** the names on which the two backup filesystems are known to agree *)
  Variable okp : str -> Prop.
  Hypothesis Hbk : forall x, okp x -> agree_at bk1 bk2 x.
  (** a successful Lstat on the base is only possible on such a name *)
  Hypothesis Hls : forall x w fi w', a_lstat base2 x w = (MOk fi, w') -> okp x.

  Lemma backup_dirs_ext d : meq (backup_dirs base1 bk1 d) (backup_dirs base2 bk2 d).
  Proof.
    unfold backup_dirs. apply miter_ext. intros sub _.
    apply bind_ext_post; [apply backup_required_ext|].
    intros [[fi|] [|]] w w' Hreq; try reflexivity.
    apply backup_required_needs in Hreq. destruct Hreq as (w0 & w1 & Hl).
    apply Hls in Hl. apply Hbk in Hl. clear w0 w1. revert w'.
    apply bind_ext; [apply try_ext; apply copy_dir_ext; exact Hl|].
    intros [u|e]; [apply meq_refl|].
    apply bind_ext; [apply try_ext; apply Hl|]. intro; apply meq_refl.
  Qed.

  Lemma try_backup_ext p : meq (try_backup base1 bk1 p) (try_backup base2 bk2 p).
  Proof.
    unfold try_backup.
    apply bind_ext_post; [apply backup_required_ext|].
    intros [info needs] w w' Hreq.
    assert (Hfact : forall fi, info = Some fi -> needs = true -> agree_at bk1 bk2 p).
    { intros fi -> ->. apply backup_required_needs in Hreq. destruct Hreq as (w0 & w1 & Hl).
      apply Hls in Hl. apply Hbk in Hl. exact Hl. }
    clear Hreq. revert w'.
    apply bind_ext; [apply backup_dirs_ext|]. intros _.
    destruct needs; cbn [negb]; [|apply meq_refl].
    destruct info as [fi|]; [|apply meq_refl].
    pose proof (Hfact fi eq_refl eq_refl) as Hl.
    destruct Hread as (_ & _ & Hop).
    destruct (fi_kind fi); [apply meq_refl| |].
    - apply bind_ext; [apply Hop|]. intro sf.
      apply bind_ext; [apply try_ext; apply copy_file_ext; exact Hl|].
      intros [u|e]; [apply meq_refl|].
      apply bind_ext; [apply try_ext; apply Hl|]. intro; apply meq_refl.
    - apply bind_ext; [apply try_ext; apply copy_symlink_ext; exact Hl|].
      intros [u|e]; [apply meq_refl|].
      apply bind_ext; [apply try_ext; apply Hl|]. intro; apply meq_refl.
  Qed.
End Cong.

(* ------------------------------------------------------------------ *)
(** * Part 2/3: BackupFS over a HiddenFS base *)

Definition rejects {A} (m : M A) : Prop := forall w a w', m w <> (MOk a, w').

(** the common shape of the mutating operations of BackupFS *)
Definition guarded_op {A} (base backup : fsapi) (fin : str -> M A) (n : str) : M A :=
  rn <- real_path base n ;; try_backup base backup rn ;;; fin rn.

Lemma bind_ret_tt (m : M unit) : meq (m ;;; ret tt) m.
Proof. intro w. unfold bind, ret. destruct (m w) as [[[]|e|] w']; reflexivity. Qed.

(** [m_restr] is the operation over the restricted filesystems, [m] the
    operation itself: they coincide (so none of the removed methods was
    invoked) and the operation does not succeed *)
Definition sealed_run {A} (m_restr m : M A) (w : world) : Prop :=
  m_restr w = m w /\ forall a w', m w <> (MOk a, w').

(** the single-name mutating operations of BackupFS on name [n] in world [w]:
    [base_r], [backup_r] are the restricted filesystems *)
Definition ops_sealed (base_r backup_r base backup : fsapi) (n : str) (w : world) : Prop :=
  sealed_run (b_create base_r backup_r n) (b_create base backup n) w /\
  (forall perm, sealed_run (b_mkdir base_r backup_r n perm) (b_mkdir base backup n perm) w) /\
  (forall perm, sealed_run (b_mkdirall base_r backup_r n perm) (b_mkdirall base backup n perm) w) /\
  (forall fl perm, fl <> 0 ->
     sealed_run (b_openfile base_r backup_r n fl perm) (b_openfile base backup n fl perm) w) /\
  sealed_run (b_remove base_r backup_r n) (b_remove base backup n) w /\
  (forall m, sealed_run (b_chmod base_r backup_r n m) (b_chmod base backup n m) w) /\
  (forall u g, sealed_run (b_chown base_r backup_r n u g) (b_chown base backup n u g) w) /\
  (forall u g, sealed_run (b_lchown base_r backup_r n u g) (b_lchown base backup n u g) w) /\
  (forall t, sealed_run (b_chtimes base_r backup_r n t) (b_chtimes base backup n t) w) /\
  (forall t, sealed_run (b_symlink base_r backup_r t n) (b_symlink base backup t n) w).

(** "[try_backup] first; if it gets through, continue with [k]" *)
Definition after_tb {A} (base backup : fsapi) (rn : str) (w1 : world)
           (k : world -> mres A * world) : mres A * world :=
  match try_backup base backup rn w1 with
  | (MOk _, w2) => k w2
  | (MErr e, w2) => (MErr e, w2)
  | (MHalt, w2) => (MHalt, w2)
  end.

(** the result of the single-name mutating operations on [n], resolved to the
    hidden [rn] in [w1]: the error of [try_backup] if it fails, else the
    hidden error of the method, in the world [try_backup] left *)
Definition ops_error (hs : list str) (base backup : fsapi) (n : str) (w : world) (rn : str) (w1 : world) : Prop :=
  let fails {A} (m : M A) (e : errclass) :=
    m w = after_tb base backup rn w1 (fun w2 => (MErr (ELayer e), w2)) in
  fails (b_create base backup n) EHiddenPerm /\
  (forall perm, fails (b_mkdir base backup n perm) EHiddenPerm) /\
  (forall perm, fails (b_mkdirall base backup n perm) EHiddenPerm) /\
  (forall fl perm, fl <> 0 -> fails (b_openfile base backup n fl perm)
     (if o_creat fl then EHiddenPerm else EHiddenNotExist)) /\
  fails (b_remove base backup n) EHiddenNotExist /\
  (forall m, fails (b_chmod base backup n m) EHiddenNotExist) /\
  (forall u g, fails (b_chown base backup n u g) EHiddenNotExist) /\
  (forall u g, fails (b_lchown base backup n u g) EHiddenNotExist) /\
  (forall t, fails (b_chtimes base backup n t) EHiddenNotExist) /\
  (forall t, fails (b_symlink base backup t n) (symlink_err hs t rn)).

Section Sealed.
  Variable hs : list str.
  Variables b backup : fsapi.
  Variable sp : option fstag.

  Let base := wrap sp (layered (hidden_layer hs) b).
  Let base_ro := wrap sp (layered (hidden_layer hs) (s_ro b)).
  Let backup_g := s_guard (shown hs) backup.

  Lemma sealed_agree_read : agree_read base_ro base.
  Proof. apply agree_read_wrap. apply agree_read_hidden_ro. Qed.

  (** Lstat through HiddenFS succeeds on shown names only *)
  Lemma lstat_ok_shown x w fi w' : a_lstat base x w = (MOk fi, w') -> shown hs x = true.
  Proof.
    assert (Hcore : forall w fi w',
      a_lstat (layered (hidden_layer hs) b) x w = (MOk fi, w') -> shown hs x = true).
    { clear w fi w'. intros w fi w'. unfold layered, layered_with, shown.
      cbn [a_lstat hidden_layer l_call hiddenfs_call c_meth c_a].
      destruct (is_hidden x hs) as [[|]|]; cbn [with_outcome]; try discriminate. reflexivity. }
    unfold base, wrap. destruct sp as [t|]; [|apply Hcore].
    unfold spy; cbn [a_lstat]. intro E. apply spied_ok_inv in E.
    destruct E as (w1 & w2 & E). eapply Hcore. exact E.
  Qed.

  Lemma hid_not_shown x : hid hs x -> shown hs x = true -> False.
  Proof. unfold hid, shown. intros ->. discriminate. Qed.

  (** (S2/S3) for EVERY name [p]: [try_backup] invokes no mutating method of
      the filesystem under HiddenFS, and hands only shown (non-hidden) names
      to the backup filesystem *)
  Lemma try_backup_sealed p : meq (try_backup base_ro backup_g p) (try_backup base backup p).
  Proof.
    apply (try_backup_ext base_ro base backup_g backup sealed_agree_read (fun x => shown hs x = true)).
    - intros x Hx. apply guard_agree_at. exact Hx.
    - apply lstat_ok_shown.
  Qed.

  Lemma try_backup_guard p : meq (try_backup base backup_g p) (try_backup base backup p).
  Proof.
    apply (try_backup_ext base base backup_g backup (agree_read_refl base) (fun x => shown hs x = true)).
    - intros x Hx. apply guard_agree_at. exact Hx.
    - apply lstat_ok_shown.
  Qed.

  Lemma real_path_sealed n : meq (real_path base_ro n) (real_path base n).
  Proof. apply real_path_ext. apply sealed_agree_read. Qed.

  (** on a hidden name [try_backup] never reaches its copy stage: it is the
      bookkeeping lookup followed by the backup of the ancestor directories *)
  Definition dir_path_of (p : str) (info : option finfo) : str :=
    match info with
    | Some fi => if is_dir_info fi then p else dir p
    | None => dir p
    end.

  Lemma try_backup_hidden rn : hid hs rn ->
    meq (try_backup base backup rn)
        (r <- backup_required base rn ;; backup_dirs base backup (dir_path_of rn (fst r))).
  Proof.
    intro Hh. unfold try_backup.
    apply bind_ext_post; [apply meq_refl|].
    intros [info needs] w w' Hreq. cbn [fst].
    destruct needs.
    - exfalso. destruct info as [fi|].
      + apply backup_required_needs in Hreq. destruct Hreq as (w0 & w1 & Hl).
        apply lstat_ok_shown in Hl. exact (hid_not_shown rn Hh Hl).
      + revert Hreq. unfold backup_required, already_seen, get_infos, bind, ret, try_.
        destruct (w_infos w !! rn); [intro E; inversion E|].
        destruct (a_lstat base rn w) as [[fi0|e|] w0]; try discriminate.
        destruct (is_not_found e); [|discriminate].
        unfold set_info_if_new, get_infos, bind, put_infos.
        destruct (w_infos w0 !! rn); intro E; inversion E.
    - cbn [negb]. unfold dir_path_of. apply bind_ret_tt.
  Qed.

  (** ... and without the spy layer, on a hidden name that is not yet in
      [baseInfos]: the name is recorded as "did not exist" and the ancestor
      directories are backed up *)
  Lemma try_backup_hidden_unspied rn w : sp = None -> hid hs rn -> w_infos w !! rn = None ->
    try_backup base backup rn w =
    (set_info_if_new rn None ;;; backup_dirs base backup (dir rn)) w.
  Proof.
    intros Hsp Hh Hi. rewrite (try_backup_hidden rn Hh w).
    assert (Hl : a_lstat base rn w = (MErr (ELayer EHiddenNotExist), w)).
    { unfold base, wrap. rewrite Hsp. apply hid_lstat. exact Hh. }
    assert (Hreq : backup_required base rn w =
                   (x <- set_info_if_new rn None ;; ret (None, false)) w).
    { unfold backup_required, already_seen, get_infos. unfold bind at 1 2. unfold ret at 1.
      rewrite Hi. unfold bind at 1. unfold try_. rewrite Hl. reflexivity. }
    unfold bind at 1. rewrite Hreq. unfold bind.
    destruct (set_info_if_new rn None w) as [[[]|e|] w0]; reflexivity.
  Qed.

  (** the final call of an operation on a hidden resolved name: rejected
      whatever is below HiddenFS *)
  Definition fin_sealed {A} (f : fsapi -> M A) : Prop := meq (f base_ro) (f base) /\ rejects (f base).

  Ltac fin_tac H1 H2 :=
    unfold fin_sealed, base_ro, base, wrap; destruct sp as [t|]; cbn [spy a_create a_openfile a_mkdir a_mkdirall
      a_remove a_removeall a_rename a_chmod a_chown a_lchown a_chtimes a_symlink a_lstat a_stat a_readlink a_open];
    (split;
     [ match goal with |- meq (spied _ _ _ _ _) _ => apply spied_ext | _ => idtac end;
       match goal with |- meq (bind _ _) _ => apply bind_ext; [|intro; apply meq_refl] | _ => idtac end;
       intro w; rewrite H1, H2; reflexivity
     | unfold rejects; lazymatch goal with |- context [spied] => apply spied_not_ok | _ => idtac end;
       intros w a w'; unfold bind; rewrite H2; discriminate ]).

  Lemma fin_create rn : hid hs rn -> fin_sealed (fun a => a_create a rn).
  Proof. intro Hh. pose proof (hid_create hs (s_ro b) rn Hh) as H1. pose proof (hid_create hs b rn Hh) as H2.
         fin_tac H1 H2. Qed.
  Lemma fin_openfile rn fl perm : hid hs rn -> fin_sealed (fun a => a_openfile a rn fl perm).
  Proof. intro Hh. pose proof (hid_openfile hs (s_ro b) rn fl perm Hh) as H1.
         pose proof (hid_openfile hs b rn fl perm Hh) as H2. fin_tac H1 H2. Qed.
  Lemma fin_open rn : hid hs rn -> fin_sealed (fun a => a_open a rn).
  Proof. intro Hh. pose proof (hid_open hs (s_ro b) rn Hh) as H1. pose proof (hid_open hs b rn Hh) as H2.
         fin_tac H1 H2. Qed.
  Lemma fin_mkdir rn perm : hid hs rn -> fin_sealed (fun a => a_mkdir a rn perm).
  Proof. intro Hh. pose proof (hid_mkdir hs (s_ro b) rn perm Hh) as H1. pose proof (hid_mkdir hs b rn perm Hh) as H2.
         fin_tac H1 H2. Qed.
  Lemma fin_mkdirall rn perm : hid hs rn -> fin_sealed (fun a => a_mkdirall a rn perm).
  Proof. intro Hh. pose proof (hid_mkdirall hs (s_ro b) rn perm Hh) as H1. pose proof (hid_mkdirall hs b rn perm Hh) as H2.
         fin_tac H1 H2. Qed.
  Lemma fin_remove rn : hid hs rn -> fin_sealed (fun a => a_remove a rn).
  Proof. intro Hh. pose proof (hid_remove hs (s_ro b) rn Hh) as H1. pose proof (hid_remove hs b rn Hh) as H2.
         fin_tac H1 H2. Qed.
  Lemma fin_chmod rn m : hid hs rn -> fin_sealed (fun a => a_chmod a rn m).
  Proof. intro Hh. pose proof (hid_chmod hs (s_ro b) rn m Hh) as H1. pose proof (hid_chmod hs b rn m Hh) as H2.
         fin_tac H1 H2. Qed.
  Lemma fin_chown rn u g : hid hs rn -> fin_sealed (fun a => a_chown a rn u g).
  Proof. intro Hh. pose proof (hid_chown hs (s_ro b) rn u g Hh) as H1. pose proof (hid_chown hs b rn u g Hh) as H2.
         fin_tac H1 H2. Qed.
  Lemma fin_lchown rn u g : hid hs rn -> fin_sealed (fun a => a_lchown a rn u g).
  Proof. intro Hh. pose proof (hid_lchown hs (s_ro b) rn u g Hh) as H1. pose proof (hid_lchown hs b rn u g Hh) as H2.
         fin_tac H1 H2. Qed.
  Lemma fin_chtimes rn t0 : hid hs rn -> fin_sealed (fun a => a_chtimes a rn t0).
  Proof. intro Hh. pose proof (hid_chtimes hs (s_ro b) rn t0 Hh) as H1. pose proof (hid_chtimes hs b rn t0 Hh) as H2.
         fin_tac H1 H2. Qed.
  Lemma fin_lstat rn : hid hs rn -> fin_sealed (fun a => a_lstat a rn).
  Proof. intro Hh. pose proof (hid_lstat hs (s_ro b) rn Hh) as H1. pose proof (hid_lstat hs b rn Hh) as H2.
         fin_tac H1 H2. Qed.
  Lemma fin_stat rn : hid hs rn -> fin_sealed (fun a => a_stat a rn).
  Proof. intro Hh. pose proof (hid_stat hs (s_ro b) rn Hh) as H1. pose proof (hid_stat hs b rn Hh) as H2.
         fin_tac H1 H2. Qed.
  Lemma fin_readlink rn : hid hs rn -> fin_sealed (fun a => a_readlink a rn).
  Proof. intro Hh. pose proof (hid_readlink hs (s_ro b) rn Hh) as H1. pose proof (hid_readlink hs b rn Hh) as H2.
         fin_tac H1 H2. Qed.
  Lemma fin_rename_rej o n e : hiddenfs_call hs (mkCall MRename o n []) = Rej e ->
    fin_sealed (fun a => a_rename a o n).
  Proof. intro Hr. pose proof (rej_rename hs (s_ro b) o n e Hr) as H1. pose proof (rej_rename hs b o n e Hr) as H2.
         fin_tac H1 H2. Qed.
  Lemma fin_rename o n : hid hs o \/ hid hs n -> fin_sealed (fun a => a_rename a o n).
  Proof. intro Hor. exact (fin_rename_rej o n _ (rename_rej hs o n Hor)). Qed.
  Lemma fin_symlink t0 l : hid hs l \/ hid hs (to_abs_symlink t0 l) -> fin_sealed (fun a => a_symlink a t0 l).
  Proof. intro Hor. pose proof (hid_symlink hs (s_ro b) t0 l Hor) as H1. pose proof (hid_symlink hs b t0 l Hor) as H2.
         fin_tac H1 H2. Qed.
  Lemma guarded_op_sealed {A} (f : fsapi -> str -> M A) n w rn w1 :
    real_path base n w = (MOk rn, w1) -> fin_sealed (fun a => f a rn) ->
    sealed_run (guarded_op base_ro backup_g (f base_ro) n) (guarded_op base backup (f base) n) w /\
    guarded_op base backup (f base) n w = after_tb base backup rn w1 (f base rn).
  Proof.
    intros Hrp [Hf Hrej].
    assert (Hshape : guarded_op base backup (f base) n w = after_tb base backup rn w1 (f base rn)).
    { unfold guarded_op, after_tb. unfold bind at 1. rewrite Hrp. unfold bind.
      destruct (try_backup base backup rn w1) as [[u|e|] w2]; reflexivity. }
    split; [|exact Hshape]. split.
    - rewrite Hshape. unfold guarded_op, after_tb. unfold bind at 1.
      rewrite (real_path_sealed n w), Hrp. unfold bind. rewrite (try_backup_sealed rn w1).
      destruct (try_backup base backup rn w1) as [[u|e|] w2]; try reflexivity. apply Hf.
    - rewrite Hshape. unfold after_tb. intros a w'.
      destruct (try_backup base backup rn w1) as [[u|e|] w2]; try discriminate. apply Hrej.
  Qed.

  (** (S2) every mutating operation of BackupFS whose resolved name is hidden *)
  Theorem backupfs_sealed n w rn w1 :
    real_path base n w = (MOk rn, w1) -> hid hs rn ->
    ops_sealed base_ro backup_g base backup n w.
  Proof.
    intros Hrp Hh. unfold ops_sealed. repeat split_and.
    - exact (proj1 (guarded_op_sealed (fun a x => a_create a x) n w rn w1 Hrp (fin_create rn Hh))).
    - intro perm. exact (proj1 (guarded_op_sealed (fun a x => a_mkdir a x perm) n w rn w1 Hrp (fin_mkdir rn perm Hh))).
    - intro perm. exact (proj1 (guarded_op_sealed (fun a x => a_mkdirall a x perm) n w rn w1 Hrp (fin_mkdirall rn perm Hh))).
    - intros fl perm Hfl. unfold b_openfile. apply N.eqb_neq in Hfl. rewrite Hfl.
      exact (proj1 (guarded_op_sealed (fun a x => a_openfile a x fl perm) n w rn w1 Hrp (fin_openfile rn fl perm Hh))).
    - exact (proj1 (guarded_op_sealed (fun a x => a_remove a x) n w rn w1 Hrp (fin_remove rn Hh))).
    - intro m. exact (proj1 (guarded_op_sealed (fun a x => a_chmod a x m) n w rn w1 Hrp (fin_chmod rn m Hh))).
    - intros u g. exact (proj1 (guarded_op_sealed (fun a x => a_chown a x u g) n w rn w1 Hrp (fin_chown rn u g Hh))).
    - intros u g. exact (proj1 (guarded_op_sealed (fun a x => a_lchown a x u g) n w rn w1 Hrp (fin_lchown rn u g Hh))).
    - intro t. exact (proj1 (guarded_op_sealed (fun a x => a_chtimes a x t) n w rn w1 Hrp (fin_chtimes rn t Hh))).
    - intro t. exact (proj1 (guarded_op_sealed (fun a x => a_symlink a t x) n w rn w1 Hrp
                               (fin_symlink t rn (or_introl Hh)))).
  Qed.

  (** Symlink whose lexical absolute target is hidden (the location is not) *)
  Theorem backupfs_sealed_symlink_target t n w rn w1 :
    real_path base n w = (MOk rn, w1) -> hid hs (to_abs_symlink t rn) ->
    sealed_run (b_symlink base_ro backup_g t n) (b_symlink base backup t n) w.
  Proof.
    intros Hrp Hh.
    exact (proj1 (guarded_op_sealed (fun a x => a_symlink a t x) n w rn w1 Hrp (fin_symlink t rn (or_intror Hh)))).
  Qed.

  (** Rename whose resolved names HiddenFS rejects: from or onto a hidden name,
      or of an ancestor of a hidden path *)
  Theorem backupfs_sealed_rename_rej o n w ro w1 rn w2 er :
    real_path base o w = (MOk ro, w1) -> real_path base n w1 = (MOk rn, w2) ->
    hiddenfs_call hs (mkCall MRename ro rn []) = Rej er ->
    sealed_run (b_rename base_ro backup_g o n) (b_rename base backup o n) w.
  Proof.
    intros Hro Hrn Hor. destruct (fin_rename_rej ro rn er Hor) as [Hf Hrej].
    assert (Hshape : b_rename base backup o n w =
      after_tb base backup rn w2 (fun w3 => after_tb base backup ro w3 (a_rename base ro rn))).
    { unfold b_rename, after_tb. unfold bind at 1. rewrite Hro. unfold bind at 1. rewrite Hrn.
      unfold bind. destruct (try_backup base backup rn w2) as [[u|e|] w3]; reflexivity. }
    split.
    - rewrite Hshape. unfold b_rename, after_tb. unfold bind at 1.
      rewrite (real_path_sealed o w), Hro. unfold bind at 1. rewrite (real_path_sealed n w1), Hrn.
      unfold bind. rewrite (try_backup_sealed rn w2).
      destruct (try_backup base backup rn w2) as [[u|e|] w3]; try reflexivity.
      rewrite (try_backup_sealed ro w3).
      destruct (try_backup base backup ro w3) as [[u'|e|] w4]; try reflexivity. apply Hf.
    - rewrite Hshape. unfold after_tb. intros a w'.
      destruct (try_backup base backup rn w2) as [[u|e|] w3]; try discriminate.
      destruct (try_backup base backup ro w3) as [[u'|e|] w4]; try discriminate. apply Hrej.
  Qed.

  Theorem backupfs_sealed_rename o n w ro w1 rn w2 :
    real_path base o w = (MOk ro, w1) -> real_path base n w1 = (MOk rn, w2) ->
    hid hs ro \/ hid hs rn ->
    sealed_run (b_rename base_ro backup_g o n) (b_rename base backup o n) w.
  Proof.
    intros Hro Hrn Hor.
    exact (backupfs_sealed_rename_rej o n w ro w1 rn w2 _ Hro Hrn (rename_rej hs ro rn Hor)).
  Qed.

  (** RemoveAll of a hidden resolved name: Lstat through HiddenFS reports
      "not found", BackupFS.RemoveAll takes that as "nothing to do": neither
      filesystem is touched (no method of the backup filesystem is invoked at
      all); without the spy layer the result is success *)
  Theorem backupfs_sealed_removeall n w rn w1 :
    real_path base n w = (MOk rn, w1) -> hid hs rn ->
    b_removeall base_ro s_trap n w = b_removeall base backup n w /\
    (sp = None -> b_removeall base backup n w = (MOk tt, w1)).
  Proof.
    intros Hrp Hh. destruct (fin_lstat rn Hh) as [Hf Hrej]. split.
    - assert (HL : forall ba bk, real_path ba n w = (MOk rn, w1) -> rejects (a_lstat ba rn) ->
        b_removeall ba bk n w =
        match a_lstat ba rn w1 with
        | (MOk fi, w2) => (MHalt, w2)
        | (MErr e, w2) => (if is_not_found e then ret tt else fail e) w2
        | (MHalt, w2) => (MHalt, w2)
        end).
      { intros ba bk Hr Hj. unfold b_removeall. unfold bind at 1. rewrite Hr. unfold bind at 1, try_.
        destruct (a_lstat ba rn w1) as [[fi|e|] w2] eqn:El; try reflexivity.
        exfalso. exact (Hj _ _ _ El). }
      rewrite (HL base_ro s_trap), (HL base backup); try assumption.
      + rewrite (Hf w1). reflexivity.
      + rewrite (real_path_sealed n w). exact Hrp.
      + intros w0 a w'. rewrite (Hf w0). apply Hrej.
    - intro Hsp. unfold b_removeall. unfold bind at 1. rewrite Hrp. unfold bind at 1. unfold try_.
      assert (Hl : a_lstat base rn w1 = (MErr (ELayer EHiddenNotExist), w1)).
      { unfold base, wrap. rewrite Hsp. apply hid_lstat. exact Hh. }
      rewrite Hl. reflexivity.
  Qed.

  (** the error, without the spy layer: whenever [try_backup] gets through, the
      result is the hidden error of the method and the world is the one
      [try_backup] left *)
  Theorem backupfs_sealed_error n w rn w1 :
    sp = None -> real_path base n w = (MOk rn, w1) -> hid hs rn ->
    ops_error hs base backup n w rn w1.
  Proof.
    intros Hsp Hrp Hh. unfold ops_error.
    assert (Hgen : forall A (f : fsapi -> str -> M A) e,
      meq (f base rn) (hfail e) ->
      guarded_op base backup (f base) n w = after_tb base backup rn w1 (fun w2 => (MErr (ELayer e), w2))).
    { intros A f e Hf. unfold guarded_op, after_tb. unfold bind at 1. rewrite Hrp. unfold bind.
      destruct (try_backup base backup rn w1) as [[u|e0|] w2]; try reflexivity. apply Hf. }
    assert (Hb : base = layered (hidden_layer hs) b) by (unfold base, wrap; rewrite Hsp; reflexivity).
    repeat split_and; intros.
    - apply (Hgen _ (fun a x => a_create a x)). rewrite Hb. apply hid_create; exact Hh.
    - apply (Hgen _ (fun a x => a_mkdir a x perm)). rewrite Hb. apply hid_mkdir; exact Hh.
    - apply (Hgen _ (fun a x => a_mkdirall a x perm)). rewrite Hb. apply hid_mkdirall; exact Hh.
    - unfold b_openfile. match goal with Hfl : fl <> 0 |- _ => apply N.eqb_neq in Hfl; rewrite Hfl end.
      rewrite <- (o_creat_has fl perm).
      apply (Hgen _ (fun a x => a_openfile a x fl perm)). rewrite Hb. apply hid_openfile; exact Hh.
    - apply (Hgen _ (fun a x => a_remove a x)). rewrite Hb. apply hid_remove; exact Hh.
    - apply (Hgen _ (fun a x => a_chmod a x m)). rewrite Hb. apply hid_chmod; exact Hh.
    - apply (Hgen _ (fun a x => a_chown a x u g)). rewrite Hb. apply hid_chown; exact Hh.
    - apply (Hgen _ (fun a x => a_lchown a x u g)). rewrite Hb. apply hid_lchown; exact Hh.
    - apply (Hgen _ (fun a x => a_chtimes a x t)). rewrite Hb. apply hid_chtimes; exact Hh.
    - apply (Hgen _ (fun a x => a_symlink a t x)). rewrite Hb. apply hid_symlink. left; exact Hh.
  Qed.
End Sealed.

(* ------------------------------------------------------------------ *)
(** * Part 4: HiddenFS.RemoveAll of a non-hidden name (an ancestor of the
    hidden location, say) *)

(** [b] restricted to what HiddenFS.RemoveAll may do: read (Lstat, Stat,
    Readlink, Open, OpenFile(O_RDONLY)) and Remove of shown names *)
Definition s_rm (hs : list str) (b : fsapi) : fsapi := {|
  a_lstat := a_lstat b; a_stat := a_stat b; a_readlink := a_readlink b; a_open := a_open b;
  a_openfile p fl perm := if N.eqb fl 0 then a_openfile b p fl perm else s_halt;
  a_create _ := s_halt; a_mkdir _ _ := s_halt; a_mkdirall _ _ := s_halt;
  a_remove p := if shown hs p then a_remove b p else s_halt;
  a_removeall _ := s_halt; a_rename _ _ := s_halt;
  a_chmod _ _ := s_halt; a_chown _ _ _ := s_halt; a_lchown _ _ _ := s_halt;
  a_chtimes _ _ := s_halt; a_symlink _ _ := s_halt |}.

Lemma read_dir_names_ext b1 b2 d :
  (forall p, meq (a_open b1 p) (a_open b2 p)) -> meq (read_dir_names b1 d) (read_dir_names b2 d).
Proof. intro Ho. unfold read_dir_names. apply bind_ext; [apply Ho|]. intro; apply meq_refl. Qed.

Lemma walk_fold_ext {A} b1 b2 (fn1 fn2 : A -> str -> finfo -> M A) :
  (forall p, meq (a_lstat b1 p) (a_lstat b2 p)) ->
  (forall p, meq (a_open b1 p) (a_open b2 p)) ->
  (forall acc p fi, meq (fn1 acc p fi) (fn2 acc p fi)) ->
  forall fuel path info acc,
  meq (walk_fold fuel b1 path info fn1 acc) (walk_fold fuel b2 path info fn2 acc).
Proof.
  intros Hl Ho Hfn. induction fuel as [|fuel IH]; intros path info acc; cbn [walk_fold]; [apply meq_refl|].
  apply bind_ext; [apply Hfn|]. intro acc1.
  destruct (is_dir_info info); [|apply meq_refl].
  apply bind_ext; [apply read_dir_names_ext; exact Ho|]. intro names.
  apply mfold_ext. intros a name _.
  apply bind_ext; [apply Hl|]. intro fi. apply IH.
Qed.

Lemma mfold_inv {A B} (P : B -> Prop) (f : B -> A -> M B) :
  (forall acc x w acc' w', P acc -> f acc x w = (MOk acc', w') -> P acc') ->
  forall l acc w acc' w', P acc -> mfold f l acc w = (MOk acc', w') -> P acc'.
Proof.
  intros Hf. induction l as [|x r IH]; intros acc w acc' w' Hp; cbn [mfold].
  - unfold ret. intro E. inversion E. subst. exact Hp.
  - unfold bind. destruct (f acc x w) as [[b'|e|] w1] eqn:Ef; try discriminate.
    intro E. eapply IH; [|exact E]. eapply Hf; [exact Hp|exact Ef].
Qed.

Lemma walk_fold_inv {A} (P : A -> Prop) b (fn : A -> str -> finfo -> M A) :
  (forall acc path info w acc' w', P acc -> fn acc path info w = (MOk acc', w') -> P acc') ->
  forall fuel path info acc w acc' w',
  P acc -> walk_fold fuel b path info fn acc w = (MOk acc', w') -> P acc'.
Proof.
  intros Hfn. induction fuel as [|fuel IH]; intros path info acc w acc' w' Hp; cbn [walk_fold].
  - discriminate.
  - unfold bind at 1. destruct (fn acc path info w) as [[acc1|e|] w1] eqn:Ef; try discriminate.
    pose proof (Hfn _ _ _ _ _ _ Hp Ef) as Hp1.
    destruct (is_dir_info info).
    + unfold bind at 1. destruct (read_dir_names b path w1) as [[names|e|] w2]; try discriminate.
      apply mfold_inv; [|exact Hp1].
      intros a x w0 a' w0' Ha. unfold bind.
      destruct (a_lstat b (join2 path x) w0) as [[fi|e|] w3]; try discriminate.
      apply IH. exact Ha.
    + unfold ret. intro E. inversion E. subst. exact Hp1.
Qed.

Section RemoveAll.
  Variable hs : list str.
  Variables b G : fsapi.
  Let L := hidden_layer hs.
  (** [G] reads like [b] and removes shown names like [b] *)
  Hypothesis HGl : forall p, meq (a_lstat G p) (a_lstat b p).
  Hypothesis HGo : forall p, meq (a_open G p) (a_open b p).
  Hypothesis HGr : forall p, shown hs p = true -> meq (a_remove G p) (a_remove b p).

  Lemma rm_self_remove s1 s2 p : meq (a_remove (layered_with L G s1) p) (a_remove (layered_with L b s2) p).
  Proof.
    intro w. unfold layered_with, L. cbn [a_remove hidden_layer l_call hiddenfs_call c_meth c_a c_aux].
    destruct (is_hidden p hs) as [[|]|] eqn:Eh; cbn [with_outcome]; try reflexivity.
    unfold dispatch_unit. cbn [c_meth c_a]. apply HGr. unfold shown. rewrite Eh. reflexivity.
  Qed.

  Lemma rm_self_lstat s1 s2 p : meq (a_lstat (layered_with L G s1) p) (a_lstat (layered_with L b s2) p).
  Proof.
    unfold layered_with, L. cbn [a_lstat hidden_layer l_call hiddenfs_call c_meth c_a c_aux].
    destruct (is_hidden p hs) as [[|]|]; cbn [with_outcome]; try apply meq_refl.
    unfold dispatch_info. cbn [c_meth c_a].
    apply bind_ext; [apply HGl|intro; apply meq_refl].
  Qed.

  Lemma hidden_walk_fn_ext s1 s2 acc p fi :
    meq (hidden_walk_fn hs (layered_with L G s1) acc p fi) (hidden_walk_fn hs (layered_with L b s2) acc p fi).
  Proof.
    unfold hidden_walk_fn. destruct (is_hidden p hs) as [[|]|]; try apply meq_refl.
    destruct (is_dir_info fi); [apply meq_refl|].
    apply bind_ext; [apply rm_self_remove|]. intro; apply meq_refl.
  Qed.

  Lemma hidden_walk_fn_inv self acc path info w acc' w' :
    Forall (fun d => shown hs d = true) acc ->
    hidden_walk_fn hs self acc path info w = (MOk acc', w') ->
    Forall (fun d => shown hs d = true) acc'.
  Proof.
    intro Hp. unfold hidden_walk_fn, shown in *.
    destruct (is_hidden path hs) as [[|]|] eqn:Eh.
    - unfold ret. intro E. inversion E. subst. exact Hp.
    - destruct (is_dir_info info).
      + unfold ret. intro E. inversion E. subst. apply Forall_app. split; [exact Hp|].
        constructor; [rewrite Eh; reflexivity|constructor].
      + unfold bind, ret. destruct (a_remove self path w) as [[u|e|] w1]; try discriminate.
        intro E. inversion E. subst. exact Hp.
    - discriminate.
  Qed.

  Lemma removeall_unfold X s name :
    a_removeall (layered_with (hidden_layer hs) X s) name =
    match is_hidden name hs with
    | None => fail (ELayer EHiddenCheck)
    | Some true => fail (ELayer EHiddenNotExist)
    | Some false => hidden_removeall hs X s name
    end.
  Proof.
    unfold layered_with. cbn [a_removeall hidden_layer l_call l_multi hiddenfs_call c_meth c_a c_aux].
    destruct (is_hidden name hs) as [[|]|]; reflexivity.
  Qed.

  Theorem hidden_removeall_footprint_gen name :
    meq (a_removeall (layered L G) name) (a_removeall (layered L b) name).
  Proof.
    unfold layered. intro w. rewrite !removeall_unfold. revert w.
    destruct (is_hidden name hs) as [[|]|]; try apply meq_refl.
    unfold hidden_removeall.
    apply bind_ext; [apply try_ext; apply rm_self_lstat|].
    intros [fi|e]; [|apply meq_refl].
    destruct (is_dir_info fi); cbn [negb]; [|apply rm_self_remove].
    apply bind_ext_post.
    - unfold walk_m. apply bind_ext; [apply HGl|]. intro info.
      apply walk_fold_ext; [apply HGl|apply HGo|].
      intros acc p fi0. apply hidden_walk_fn_ext.
    - intros dirs w w' Hwalk.
      assert (Hd : Forall (fun d => shown hs d = true) dirs).
      { revert Hwalk. unfold walk_m, bind.
        destruct (a_lstat b name w) as [[info|e|] w1]; try discriminate.
        apply walk_fold_inv; [|constructor].
        intros acc path info0 w0 acc' w0'. apply hidden_walk_fn_inv. }
      clear Hwalk. revert w'. apply miter_ext. intros d Hin.
      unfold sort_most in Hin. apply isort_In in Hin.
      rewrite Forall_forall in Hd. specialize (Hd d Hin).
      destruct (is_parent_of_hidden d hs) as [[|]|]; try apply meq_refl.
      apply HGr. exact Hd.
  Qed.
End RemoveAll.

(** HiddenFS.RemoveAll, on any name and over any filesystem: nothing but
    reads and Remove of shown (non-hidden) names reaches the underlying
    filesystem - in particular no RemoveAll, no Rename *)
Theorem hidden_removeall_footprint hs b name :
  meq (a_removeall (layered (hidden_layer hs) (s_rm hs b)) name)
      (a_removeall (layered (hidden_layer hs) b) name).
Proof.
  apply hidden_removeall_footprint_gen; try (intros p w; reflexivity).
  intros p Hp w. cbn [s_rm a_remove]. rewrite Hp. reflexivity.
Qed.

(* ------------------------------------------------------------------ *)
(** * Part 5: the universal seal - no method of either underlying filesystem
    is ever invoked on a hidden name, whatever the operation and its argument *)

(** agreement on every method that BackupFS invokes on its base (that is all
    of them except RemoveAll, which only Rollback uses) *)
Record agree_ops (a1 a2 : fsapi) : Prop := {
  ag_lstat : forall p, meq (a_lstat a1 p) (a_lstat a2 p);
  ag_stat : forall p, meq (a_stat a1 p) (a_stat a2 p);
  ag_readlink : forall p, meq (a_readlink a1 p) (a_readlink a2 p);
  ag_open : forall p, meq (a_open a1 p) (a_open a2 p);
  ag_openfile : forall p fl perm, meq (a_openfile a1 p fl perm) (a_openfile a2 p fl perm);
  ag_create : forall p, meq (a_create a1 p) (a_create a2 p);
  ag_mkdir : forall p perm, meq (a_mkdir a1 p perm) (a_mkdir a2 p perm);
  ag_mkdirall : forall p perm, meq (a_mkdirall a1 p perm) (a_mkdirall a2 p perm);
  ag_remove : forall p, meq (a_remove a1 p) (a_remove a2 p);
  ag_rename : forall o n, meq (a_rename a1 o n) (a_rename a2 o n);
  ag_chmod : forall p m, meq (a_chmod a1 p m) (a_chmod a2 p m);
  ag_chown : forall p u g, meq (a_chown a1 p u g) (a_chown a2 p u g);
  ag_lchown : forall p u g, meq (a_lchown a1 p u g) (a_lchown a2 p u g);
  ag_chtimes : forall p t, meq (a_chtimes a1 p t) (a_chtimes a2 p t);
  ag_symlink : forall t p, meq (a_symlink a1 t p) (a_symlink a2 t p) }.

Lemma agree_ops_read a1 a2 : agree_ops a1 a2 -> agree_read a1 a2.
Proof. intros [? ? ? ? ? ? ? ? ? ? ? ? ? ? ?]. repeat split; assumption. Qed.

Lemma agree_ops_wrap sp a1 a2 : agree_ops a1 a2 -> agree_ops (wrap sp a1) (wrap sp a2).
Proof.
  intros Ha. destruct sp as [t|]; [|exact Ha]. destruct Ha.
  unfold wrap, spy. constructor; cbn; intros; apply spied_ext; auto;
    (apply bind_ext; [auto|intro; apply meq_refl]).
Qed.

(** HiddenFS forwards shown names only *)
Lemma agree_ops_hidden_guard hs b :
  agree_ops (layered (hidden_layer hs) (s_guard (shown hs) b)) (layered (hidden_layer hs) b).
Proof.
  unfold layered, layered_with.
  constructor; intros; intro w;
    cbn [a_lstat a_stat a_readlink a_open a_openfile a_create a_mkdir a_mkdirall a_remove
         a_rename a_chmod a_chown a_lchown a_chtimes a_symlink
         hidden_layer l_call l_info l_link l_handle hiddenfs_call c_meth c_a c_b c_aux].
  all: try (destruct (is_hidden p hs) as [[|]|] eqn:E1; cbn [with_outcome]; try reflexivity;
            unfold dispatch_unit, dispatch_info, dispatch_handle;
            cbn [c_meth c_a c_b s_guard a_lstat a_stat a_readlink a_open a_openfile a_create a_mkdir
                 a_mkdirall a_remove a_chmod a_chown a_lchown a_chtimes];
            unfold shown; rewrite E1; reflexivity).
  - (* rename *)
    destruct (is_hidden o hs) as [[|]|] eqn:E1; cbn [with_outcome]; try reflexivity.
    destruct (is_hidden n hs) as [[|]|] eqn:E2; cbn [with_outcome]; try reflexivity.
    destruct (is_parent_of_hidden o hs) as [[|]|]; cbn [with_outcome]; try reflexivity.
    unfold dispatch_unit. cbn [c_meth c_a c_b s_guard a_rename]. unfold shown. rewrite E1, E2. reflexivity.
  - (* symlink *)
    destruct (is_hidden (to_abs_symlink t p) hs) as [[|]|]; cbn [with_outcome]; try reflexivity.
    destruct (is_hidden p hs) as [[|]|] eqn:E2; cbn [with_outcome]; try reflexivity.
    unfold dispatch_unit. cbn [c_meth c_a c_b s_guard a_symlink]. unfold shown. rewrite E2. reflexivity.
Qed.

(** every operation of BackupFS (Rollback, ForceBackup aside) as a relation
    between two (base, backup) pairs *)
Definition ops_agree (base1 bk1 base2 bk2 : fsapi) : Prop :=
  (forall n, meq (b_create base1 bk1 n) (b_create base2 bk2 n)) /\
  (forall n perm, meq (b_mkdir base1 bk1 n perm) (b_mkdir base2 bk2 n perm)) /\
  (forall n perm, meq (b_mkdirall base1 bk1 n perm) (b_mkdirall base2 bk2 n perm)) /\
  (forall n fl perm, meq (b_openfile base1 bk1 n fl perm) (b_openfile base2 bk2 n fl perm)) /\
  (forall n, meq (b_remove base1 bk1 n) (b_remove base2 bk2 n)) /\
  (forall n, meq (b_removeall base1 bk1 n) (b_removeall base2 bk2 n)) /\
  (forall o n, meq (b_rename base1 bk1 o n) (b_rename base2 bk2 o n)) /\
  (forall t n, meq (b_symlink base1 bk1 t n) (b_symlink base2 bk2 t n)) /\
  (forall n m, meq (b_chmod base1 bk1 n m) (b_chmod base2 bk2 n m)) /\
  (forall n u g, meq (b_chown base1 bk1 n u g) (b_chown base2 bk2 n u g)) /\
  (forall n u g, meq (b_lchown base1 bk1 n u g) (b_lchown base2 bk2 n u g)) /\
  (forall n t, meq (b_chtimes base1 bk1 n t) (b_chtimes base2 bk2 n t)) /\
  (forall n, meq (b_lstat base1 n) (b_lstat base2 n)) /\
  (forall n, meq (b_stat base1 n) (b_stat base2 n)) /\
  (forall n, meq (b_readlink base1 n) (b_readlink base2 n)) /\
  (forall n, meq (b_open base1 bk1 n) (b_open base2 bk2 n)).

Section Universal.
  Variables base1 base2 bk1 bk2 : fsapi.
  Hypothesis Hops : agree_ops base1 base2.
  Variable okp : str -> Prop.
  Hypothesis Hbk : forall x, okp x -> agree_at bk1 bk2 x.
  Hypothesis Hls : forall x w fi w', a_lstat base2 x w = (MOk fi, w') -> okp x.

  Let Hread := agree_ops_read base1 base2 Hops.

  Lemma guarded_op_ext {A} (f1 f2 : str -> M A) n :
    (forall rn, meq (f1 rn) (f2 rn)) ->
    meq (guarded_op base1 bk1 f1 n) (guarded_op base2 bk2 f2 n).
  Proof.
    intro Hf. unfold guarded_op.
    apply bind_ext; [apply real_path_ext; exact Hread|]. intro rn.
    apply bind_ext; [apply (try_backup_ext _ _ _ _ Hread okp Hbk Hls)|]. intros _. apply Hf.
  Qed.

  Lemma b_remove_ext n : meq (b_remove base1 bk1 n) (b_remove base2 bk2 n).
  Proof. apply (guarded_op_ext (a_remove base1) (a_remove base2)). apply Hops. Qed.

  Lemma b_removeall_ext n : meq (b_removeall base1 bk1 n) (b_removeall base2 bk2 n).
  Proof.
    unfold b_removeall.
    apply bind_ext; [apply real_path_ext; exact Hread|]. intro rn.
    apply bind_ext; [apply try_ext; apply Hops|]. intros [fi|e]; [|apply meq_refl].
    destruct (is_dir_info fi); cbn [negb]; [|apply b_remove_ext].
    apply bind_ext.
    - unfold walk_m. apply bind_ext; [apply Hops|]. intro info.
      apply walk_fold_ext; [apply Hops|apply Hops|].
      intros acc p fi0. destruct (is_dir_info fi0); [apply meq_refl|].
      apply bind_ext; [apply b_remove_ext|]. intro; apply meq_refl.
    - intro dirs. apply miter_ext. intros d _. apply b_remove_ext.
  Qed.

  Theorem ops_agree_ext : ops_agree base1 bk1 base2 bk2.
  Proof.
    unfold ops_agree. repeat split_and; intros.
    - apply (guarded_op_ext (a_create base1) (a_create base2)). apply Hops.
    - apply (guarded_op_ext (fun x => a_mkdir base1 x perm) (fun x => a_mkdir base2 x perm)). intro; apply Hops.
    - apply (guarded_op_ext (fun x => a_mkdirall base1 x perm) (fun x => a_mkdirall base2 x perm)). intro; apply Hops.
    - unfold b_openfile. destruct (N.eqb fl 0); [apply Hops|].
      apply (guarded_op_ext (fun x => a_openfile base1 x fl perm) (fun x => a_openfile base2 x fl perm)). intro; apply Hops.
    - apply b_remove_ext.
    - apply b_removeall_ext.
    - unfold b_rename.
      apply bind_ext; [apply real_path_ext; exact Hread|]. intro ro.
      apply bind_ext; [apply real_path_ext; exact Hread|]. intro rn.
      apply bind_ext; [apply (try_backup_ext _ _ _ _ Hread okp Hbk Hls)|]. intros _.
      apply bind_ext; [apply (try_backup_ext _ _ _ _ Hread okp Hbk Hls)|]. intros _.
      apply Hops.
    - apply (guarded_op_ext (a_symlink base1 t) (a_symlink base2 t)). intro; apply Hops.
    - apply (guarded_op_ext (fun x => a_chmod base1 x m) (fun x => a_chmod base2 x m)). intro; apply Hops.
    - apply (guarded_op_ext (fun x => a_chown base1 x u g) (fun x => a_chown base2 x u g)). intro; apply Hops.
    - apply (guarded_op_ext (fun x => a_lchown base1 x u g) (fun x => a_lchown base2 x u g)). intro; apply Hops.
    - apply (guarded_op_ext (fun x => a_chtimes base1 x t) (fun x => a_chtimes base2 x t)). intro; apply Hops.
    - apply Hops.
    - apply Hops.
    - apply Hops.
    - unfold b_open, b_openfile. cbn [N.eqb]. apply Hops.
  Qed.
End Universal.

(** For every operation, every argument, every world, every underlying
    filesystem [b] and backup filesystem [backup], spied or not: running over
    [b] and [backup] restricted to the names the HiddenFS check lets through
    makes no difference - no method of [b] and no method of [backup] is ever
    invoked on a name the check classifies as hidden (or cannot classify). *)
Theorem universal_seal hs b backup sp :
  ops_agree (wrap sp (layered (hidden_layer hs) (s_guard (shown hs) b))) (s_guard (shown hs) backup)
            (wrap sp (layered (hidden_layer hs) b)) backup.
Proof.
  apply (ops_agree_ext _ _ _ _ (agree_ops_wrap sp _ _ (agree_ops_hidden_guard hs b))
                       (fun x => shown hs x = true)).
  - intros x Hx. apply guard_agree_at. exact Hx.
  - apply lstat_ok_shown.
Qed.

(** ** Rollback and ForceBackup: no *mutating* method of the filesystem under
    HiddenFS is invoked on a hidden name.  (HiddenFS.RemoveAll, which
    Rollback uses, walks the underlying tree including the hidden part - it
    reads there, it does not modify; see Part 4.) *)

(** [b] with its mutating methods restricted to the names accepted by [ok];
    reading (Lstat, Stat, Readlink, Open, OpenFile(O_RDONLY)) is unrestricted *)
Definition s_mguard (ok : str -> bool) (b : fsapi) : fsapi := {|
  a_lstat := a_lstat b; a_stat := a_stat b; a_readlink := a_readlink b; a_open := a_open b;
  a_openfile p fl perm := if N.eqb fl 0 then a_openfile b p fl perm
                          else if ok p then a_openfile b p fl perm else s_halt;
  a_create p := if ok p then a_create b p else s_halt;
  a_mkdir p perm := if ok p then a_mkdir b p perm else s_halt;
  a_mkdirall p perm := if ok p then a_mkdirall b p perm else s_halt;
  a_remove p := if ok p then a_remove b p else s_halt;
  a_removeall p := if ok p then a_removeall b p else s_halt;
  a_rename o n := if ok o && ok n then a_rename b o n else s_halt;
  a_chmod p m := if ok p then a_chmod b p m else s_halt;
  a_chown p u g := if ok p then a_chown b p u g else s_halt;
  a_lchown p u g := if ok p then a_lchown b p u g else s_halt;
  a_chtimes p t := if ok p then a_chtimes b p t else s_halt;
  a_symlink t p := if ok p then a_symlink b t p else s_halt |}.

Lemma agree_ops_hidden_mguard hs b :
  agree_ops (layered (hidden_layer hs) (s_mguard (shown hs) b)) (layered (hidden_layer hs) b).
Proof.
  unfold layered, layered_with.
  constructor; intros; intro w;
    cbn [a_lstat a_stat a_readlink a_open a_openfile a_create a_mkdir a_mkdirall a_remove
         a_rename a_chmod a_chown a_lchown a_chtimes a_symlink
         hidden_layer l_call l_info l_link l_handle hiddenfs_call c_meth c_a c_b c_aux].
  all: try (destruct (is_hidden p hs) as [[|]|] eqn:E1; cbn [with_outcome]; try reflexivity;
            unfold dispatch_unit, dispatch_info, dispatch_handle;
            cbn [c_meth c_a c_b s_mguard a_lstat a_stat a_readlink a_open a_openfile a_create a_mkdir
                 a_mkdirall a_remove a_chmod a_chown a_lchown a_chtimes];
            unfold shown; rewrite ?E1;
            try match goal with |- context [N.eqb ?x 0] => destruct (N.eqb x 0) end; reflexivity).
  - (* rename *)
    destruct (is_hidden o hs) as [[|]|] eqn:E1; cbn [with_outcome]; try reflexivity.
    destruct (is_hidden n hs) as [[|]|] eqn:E2; cbn [with_outcome]; try reflexivity.
    destruct (is_parent_of_hidden o hs) as [[|]|]; cbn [with_outcome]; try reflexivity.
    unfold dispatch_unit. cbn [c_meth c_a c_b s_mguard a_rename]. unfold shown. rewrite E1, E2. reflexivity.
  - (* symlink *)
    destruct (is_hidden (to_abs_symlink t p) hs) as [[|]|]; cbn [with_outcome]; try reflexivity.
    destruct (is_hidden p hs) as [[|]|] eqn:E2; cbn [with_outcome]; try reflexivity.
    unfold dispatch_unit. cbn [c_meth c_a c_b s_mguard a_symlink]. unfold shown. rewrite E2. reflexivity.
Qed.

Lemma removeall_hidden_mguard hs b name :
  meq (a_removeall (layered (hidden_layer hs) (s_mguard (shown hs) b)) name)
      (a_removeall (layered (hidden_layer hs) b) name).
Proof.
  apply hidden_removeall_footprint_gen; try (intros p w; reflexivity).
  intros p Hp w. cbn [s_mguard a_remove]. rewrite Hp. reflexivity.
Qed.

Lemma agree_ops_at a1 a2 x : agree_ops a1 a2 -> agree_at a1 a2 x.
Proof. intros []. unfold agree_at. repeat split; intros; auto. Qed.

Lemma collect_errs_ext {A} (f1 f2 : A -> M unit) l :
  (forall x, meq (f1 x) (f2 x)) -> meq (collect_errs f1 l) (collect_errs f2 l).
Proof.
  intro Hf. induction l as [|x r IH]; cbn [collect_errs]; [apply meq_refl|].
  apply bind_ext; [apply try_ext; apply Hf|]. intro e.
  apply bind_ext; [apply IH|]. intro; apply meq_refl.
Qed.

Lemma lexists_ext a1 a2 p : meq (a_lstat a1 p) (a_lstat a2 p) -> meq (lexists a1 p) (lexists a2 p).
Proof. intro Hl. unfold lexists. apply bind_ext; [apply try_ext; exact Hl|]. intro; apply meq_refl. Qed.

Section RollbackCong.
  Variables base1 base2 backup : fsapi.
  Hypothesis Hops : agree_ops base1 base2.
  Hypothesis Hrma : forall p, meq (a_removeall base1 p) (a_removeall base2 p).

  Lemma remove_if_symlink_ext name : meq (remove_if_symlink base1 name) (remove_if_symlink base2 name).
  Proof.
    unfold remove_if_symlink. apply bind_ext; [apply try_ext; apply Hops|].
    intros [fi|e]; [|apply meq_refl].
    destruct (fi_kind fi); try apply meq_refl. apply Hops.
  Qed.

  Lemma restore_file_ext name info : meq (restore_file base1 backup name info) (restore_file base2 backup name info).
  Proof.
    unfold restore_file. apply bind_ext; [apply meq_refl|]. intros [f|e]; [|apply meq_refl].
    apply bind_ext; [apply meq_refl|]. intros [fi|e]; [|apply meq_refl].
    apply bind_ext.
    - destruct (fi_kind fi); try apply meq_refl; apply try_ext; apply Hrma.
    - intros [u|e]; [|apply meq_refl].
      apply bind_ext; [apply try_ext; apply remove_if_symlink_ext|].
      intros [u2|e]; [|apply meq_refl].
      apply bind_ext; [|intro; apply meq_refl].
      apply try_ext. apply copy_file_ext. apply agree_ops_at. exact Hops.
  Qed.

  Lemma restore_symlink_ext name info :
    meq (restore_symlink base1 backup name info) (restore_symlink base2 backup name info).
  Proof.
    unfold restore_symlink. apply bind_ext; [apply meq_refl|]. intro ex.
    destruct (negb ex); [apply meq_refl|].
    apply bind_ext; [apply lexists_ext; apply Hops|]. intro ex2.
    apply bind_ext; [destruct ex2; [apply Hrma|apply meq_refl]|]. intros _.
    apply (copy_symlink_ext backup backup base1 base2 (agree_read_refl backup)).
    apply agree_ops_at. exact Hops.
  Qed.

  Lemma b_rollback_ext : meq (b_rollback base1 backup) (b_rollback base2 backup).
  Proof.
    unfold b_rollback. apply bind_ext; [apply meq_refl|]. intro infos.
    apply bind_ext.
    - apply mfold_ext. intros [[[[errs rm] ds] fs] ls] p _.
      destruct (infos !! p) as [[fi|]|]; try apply meq_refl.
      apply bind_ext; [apply try_ext; apply lexists_ext; apply Hops|]. intro; apply meq_refl.
    - intros [[[[errs0 rm] ds] fs] ls].
      apply bind_ext; [apply collect_errs_ext; intro; apply Hops|]. intro e1.
      apply bind_ext.
      { apply collect_errs_ext. intro x. destruct (info_of_key infos x); [|apply meq_refl].
        apply bind_ext; [apply remove_if_symlink_ext|]. intros _.
        apply copy_dir_ext. apply agree_ops_at. exact Hops. }
      intro e2. apply bind_ext.
      { apply collect_errs_ext. intro x. destruct (info_of_key infos x); [|apply meq_refl].
        apply restore_file_ext. }
      intro e3. apply bind_ext.
      { apply collect_errs_ext. intro x. destruct (info_of_key infos x); [|apply meq_refl].
        apply restore_symlink_ext. }
      intro e4. apply meq_refl.
  Qed.

  Lemma b_force_backup_ext n : meq (b_force_backup base1 backup n) (b_force_backup base2 backup n).
  Proof.
    unfold b_force_backup.
    apply bind_ext; [apply real_path_ext; apply agree_ops_read; exact Hops|]. intro rn.
    apply bind_ext; [apply meq_refl|]. intro prev.
    apply bind_ext; [apply meq_refl|]. intros _.
    apply bind_ext; [|intro; apply meq_refl]. apply try_ext.
    apply (try_backup_ext base1 base2 backup backup (agree_ops_read _ _ Hops) (fun _ => True)).
    - intros x _. apply agree_at_refl.
    - intros; exact I.
  Qed.
End RollbackCong.

(** Rollback and ForceBackup, over any [b] and [backup], spied or not: no
    mutating method of [b] is invoked on a hidden name *)
Theorem rollback_seal hs b backup sp :
  let base_g := wrap sp (layered (hidden_layer hs) (s_mguard (shown hs) b)) in
  let base := wrap sp (layered (hidden_layer hs) b) in
  meq (b_rollback base_g backup) (b_rollback base backup) /\
  (forall n, meq (b_force_backup base_g backup n) (b_force_backup base backup n)).
Proof.
  intros base_g base.
  assert (Hops : agree_ops base_g base) by (apply agree_ops_wrap; apply agree_ops_hidden_mguard).
  assert (Hrma : forall p, meq (a_removeall base_g p) (a_removeall base p)).
  { intro p. unfold base_g, base, wrap. destruct sp as [t|]; [|apply removeall_hidden_mguard].
    unfold spy; cbn [a_removeall]. apply spied_ext. apply removeall_hidden_mguard. }
  split; [apply b_rollback_ext; assumption|intro n; apply b_force_backup_ext; assumption].
Qed.

(* ------------------------------------------------------------------ *)
(** * Part 6: lexical statements (used by Props/C04.v) *)

(** (S1) every single-name method of [hiddenfs hs0 b], on every spelling of a
    name at/below a hidden path: the hidden error, world unchanged *)
Theorem api_sealed : forall hs0 b n,
  let hs := hidden_norm hs0 in
  let H := hiddenfs hs0 b in
  comparable hs n -> below hs n ->
  (forall w, a_lstat H n w = (MErr (ELayer EHiddenNotExist), w)) /\
  (forall w, a_stat H n w = (MErr (ELayer EHiddenNotExist), w)) /\
  (forall w, a_readlink H n w = (MErr (ELayer EHiddenNotExist), w)) /\
  (forall w, a_open H n w = (MErr (ELayer EHiddenNotExist), w)) /\
  (forall fl perm w, a_openfile H n fl perm w =
     (MErr (ELayer (if o_creat fl then EHiddenPerm else EHiddenNotExist)), w)) /\
  (forall w, a_create H n w = (MErr (ELayer EHiddenPerm), w)) /\
  (forall perm w, a_mkdir H n perm w = (MErr (ELayer EHiddenPerm), w)) /\
  (forall perm w, a_mkdirall H n perm w = (MErr (ELayer EHiddenPerm), w)) /\
  (forall w, a_remove H n w = (MErr (ELayer EHiddenNotExist), w)) /\
  (forall w, a_removeall H n w = (MErr (ELayer EHiddenNotExist), w)) /\
  (forall m w, a_chmod H n m w = (MErr (ELayer EHiddenNotExist), w)) /\
  (forall u g w, a_chown H n u g w = (MErr (ELayer EHiddenNotExist), w)) /\
  (forall u g w, a_lchown H n u g w = (MErr (ELayer EHiddenNotExist), w)) /\
  (forall t w, a_chtimes H n t w = (MErr (ELayer EHiddenNotExist), w)).
Proof.
  intros hs0 b n hs H Hc Hb.
  pose proof (below_hid hs n (hidden_norm_cleaned hs0) Hc Hb) as Hh.
  unfold H, hiddenfs. fold hs. repeat split_and; intros.
  - apply hid_lstat; exact Hh.
  - apply hid_stat; exact Hh.
  - apply hid_readlink; exact Hh.
  - apply hid_open; exact Hh.
  - rewrite <- (o_creat_has fl perm). apply hid_openfile; exact Hh.
  - apply hid_create; exact Hh.
  - apply hid_mkdir; exact Hh.
  - apply hid_mkdirall; exact Hh.
  - apply hid_remove; exact Hh.
  - apply hid_removeall; exact Hh.
  - apply hid_chmod; exact Hh.
  - apply hid_chown; exact Hh.
  - apply hid_lchown; exact Hh.
  - apply hid_chtimes; exact Hh.
Qed.

Theorem api_sealed_rename : forall hs0 b o n,
  let hs := hidden_norm hs0 in
  let H := hiddenfs hs0 b in
  comparable hs o -> comparable hs n ->
  (below hs o -> forall w, a_rename H o n w = (MErr (ELayer EHiddenNotExist), w)) /\
  (~ below hs o -> below hs n -> forall w, a_rename H o n w = (MErr (ELayer EHiddenPerm), w)).
Proof.
  intros hs0 b o n hs H Hco Hcn.
  pose proof (hidden_norm_cleaned hs0) as Hcl. fold hs in Hcl.
  unfold H, hiddenfs. fold hs. split.
  - intros Hb w. pose proof (below_hid hs o Hcl Hco Hb) as Hh.
    rewrite (hid_rename hs b o n (or_introl Hh) w). unfold rename_err. rewrite Hh. reflexivity.
  - intros Hnb Hb w. pose proof (below_hid hs n Hcl Hcn Hb) as Hh.
    rewrite (hid_rename hs b o n (or_intror Hh) w). unfold rename_err.
    rewrite (is_hidden_not_below hs o Hcl Hco Hnb). reflexivity.
Qed.

Theorem api_sealed_symlink : forall hs0 b t l,
  let hs := hidden_norm hs0 in
  let H := hiddenfs hs0 b in
  comparable hs l -> comparable hs (to_abs_symlink t l) ->
  below hs l \/ below hs (to_abs_symlink t l) ->
  forall w, a_symlink H t l w = (MErr (ELayer EHiddenPerm), w).
Proof.
  intros hs0 b t l hs H Hcl Hct Hor w.
  pose proof (hidden_norm_cleaned hs0) as Hcln. fold hs in Hcln.
  unfold H, hiddenfs. fold hs.
  assert (Hor' : hid hs l \/ hid hs (to_abs_symlink t l)).
  { destruct Hor as [Hb|Hb]; [left|right]; apply below_hid; assumption. }
  rewrite (hid_symlink hs b t l Hor' w). unfold symlink_err.
  destruct (is_hidden_bool hs _ Hcln Hct) as [bb [Hbb _]]. rewrite Hbb. reflexivity.
Qed.

(** handles opened through (spied or unspied) HiddenFS are hiddenFiles *)
Lemma wrap_open_hidden sp hs b n w h w' :
  a_open (wrap sp (layered (hidden_layer hs) b)) n w = (MOk h, w') -> fh_hidden h = Some (n, hs).
Proof.
  destruct sp as [t|]; unfold wrap; [|apply open_handle_hidden].
  unfold spy; cbn [a_open]. intro E. apply spied_ok_inv in E. destruct E as (w1 & w2 & E).
  revert E. unfold bind.
  destruct (a_open (layered (hidden_layer hs) b) n w1) as [[h0|e|] w3] eqn:Eo; try discriminate.
  unfold ret. intro E. inversion E. subst. unfold spy_handle; cbn [fh_hidden].
  eapply open_handle_hidden. exact Eo.
Qed.

Lemma wrap_openfile_hidden sp hs b n fl perm w h w' :
  a_openfile (wrap sp (layered (hidden_layer hs) b)) n fl perm w = (MOk h, w') -> fh_hidden h = Some (n, hs).
Proof.
  destruct sp as [t|]; unfold wrap; [|apply openfile_handle_hidden].
  unfold spy; cbn [a_openfile]. intro E. apply spied_ok_inv in E. destruct E as (w1 & w2 & E).
  revert E. unfold bind.
  destruct (a_openfile (layered (hidden_layer hs) b) n fl perm w1) as [[h0|e|] w3] eqn:Eo; try discriminate.
  unfold ret. intro E. inversion E. subst. unfold spy_handle; cbn [fh_hidden].
  eapply openfile_handle_hidden. exact Eo.
Qed.

(** (S1, listings) whatever directory [d] is opened through HiddenFS (directly,
    or through BackupFS.Open / OpenFile(O_RDONLY), which forward to the base),
    and whatever the underlying directory contains: a successful listing shows
    no entry [e] such that [d/e] is at/below a hidden path *)
Theorem listing_sealed : forall hs0 b sp d fl perm w0 h w1 w l w',
  let hs := hidden_norm hs0 in
  let base := wrap sp (hiddenfs hs0 b) in
  (a_open base d w0 = (MOk h, w1) \/ a_openfile base d fl perm w0 = (MOk h, w1)) ->
  hreaddirnames h w = (MOk l, w') ->
  forall e, In e l -> comparable hs (join2 d e) -> ~ below hs (join2 d e).
Proof.
  intros hs0 b sp d fl perm w0 h w1 w l w' hs base Hopen Hls e He Hc Hb.
  assert (Hh : fh_hidden h = Some (d, hs)).
  { unfold base, hiddenfs in Hopen. fold hs in Hopen.
    destruct Hopen as [Ho|Ho]; [eapply wrap_open_hidden|eapply wrap_openfile_hidden]; exact Ho. }
  pose proof (hreaddirnames_hidden h d hs w l w' Hh Hls e He) as Hf.
  pose proof (below_hid hs _ (hidden_norm_cleaned hs0) Hc Hb) as Ht.
  unfold hid in Ht. rewrite Ht in Hf. discriminate.
Qed.

(** the listing of an unspied hiddenFile is exactly the C11 [visible] list of
    the underlying listing *)
Theorem listing_exact : forall hs0 b d w0 h w1 w l w',
  let hs := hidden_norm hs0 in
  a_open (hiddenfs hs0 b) d w0 = (MOk h, w1) -> fh_spy h = None ->
  hreaddirnames h w = (MOk l, w') ->
  exists names, fs_readdirnames (w_st w) (fh h) = Ok names /\ w' = w /\
    l = filter (fun e => match is_hidden (join2 d e) hs with Some false => true | _ => false end) names.
Proof.
  intros hs0 b d w0 h w1 w l w' hs Ho Hs Hl.
  apply (hreaddirnames_unspied_exact h d hs w l w'); try assumption.
  eapply open_handle_hidden. exact Ho.
Qed.

(** (S2) lexical form, for [hiddenfs hs0 b] with or without the spy layer *)
Theorem backupfs_sealed_lex : forall hs0 b backup sp n w rn w1,
  let hs := hidden_norm hs0 in
  let base := wrap sp (hiddenfs hs0 b) in
  let base_ro := wrap sp (hiddenfs hs0 (s_ro b)) in
  let backup_g := s_guard (shown hs) backup in
  real_path base n w = (MOk rn, w1) -> comparable hs rn -> below hs rn ->
  ops_sealed base_ro backup_g base backup n w.
Proof.
  intros hs0 b backup sp n w rn w1 hs base base_ro backup_g Hrp Hc Hb.
  exact (backupfs_sealed hs b backup sp n w rn w1 Hrp (below_hid hs rn (hidden_norm_cleaned hs0) Hc Hb)).
Qed.

Theorem backupfs_sealed_error_lex : forall hs0 b backup n w rn w1,
  let hs := hidden_norm hs0 in
  let base := hiddenfs hs0 b in
  real_path base n w = (MOk rn, w1) -> comparable hs rn -> below hs rn ->
  ops_error hs base backup n w rn w1.
Proof.
  intros hs0 b backup n w rn w1 hs base Hrp Hc Hb.
  exact (backupfs_sealed_error hs b backup None n w rn w1 eq_refl Hrp
           (below_hid hs rn (hidden_norm_cleaned hs0) Hc Hb)).
Qed.

Theorem backupfs_sealed_rename_lex : forall hs0 b backup sp o n w ro w1 rn w2,
  let hs := hidden_norm hs0 in
  let base := wrap sp (hiddenfs hs0 b) in
  let base_ro := wrap sp (hiddenfs hs0 (s_ro b)) in
  let backup_g := s_guard (shown hs) backup in
  real_path base o w = (MOk ro, w1) -> real_path base n w1 = (MOk rn, w2) ->
  (comparable hs ro /\ below hs ro) \/ (comparable hs rn /\ below hs rn) ->
  sealed_run (b_rename base_ro backup_g o n) (b_rename base backup o n) w.
Proof.
  intros hs0 b backup sp o n w ro w1 rn w2 hs base base_ro backup_g Hro Hrn Hor.
  apply (backupfs_sealed_rename hs b backup sp o n w ro w1 rn w2 Hro Hrn).
  destruct Hor as [[Hc Hb]|[Hc Hb]]; [left|right]; apply below_hid; try assumption;
    apply hidden_norm_cleaned.
Qed.

(** Rename of a (resolved) ancestor of a hidden path: rejected as well, the
    location cannot be moved away with its parent *)
Theorem backupfs_sealed_rename_ancestor_lex : forall hs0 b backup sp o n w ro w1 rn w2,
  let hs := hidden_norm hs0 in
  let base := wrap sp (hiddenfs hs0 b) in
  let base_ro := wrap sp (hiddenfs hs0 (s_ro b)) in
  let backup_g := s_guard (shown hs) backup in
  real_path base o w = (MOk ro, w1) -> real_path base n w1 = (MOk rn, w2) ->
  comparable hs ro -> comparable hs rn -> above_hidden hs ro ->
  sealed_run (b_rename base_ro backup_g o n) (b_rename base backup o n) w.
Proof.
  intros hs0 b backup sp o n w ro w1 rn w2 hs base base_ro backup_g Hro Hrn Hco Hcn Hab.
  destruct (hiddenfs_rename_ancestor_rejected hs ro rn [] (hidden_norm_cleaned hs0) Hco Hcn Hab) as [e He].
  exact (backupfs_sealed_rename_rej hs b backup sp o n w ro w1 rn w2 e Hro Hrn He).
Qed.

Theorem backupfs_sealed_symlink_target_lex : forall hs0 b backup sp t n w rn w1,
  let hs := hidden_norm hs0 in
  let base := wrap sp (hiddenfs hs0 b) in
  let base_ro := wrap sp (hiddenfs hs0 (s_ro b)) in
  let backup_g := s_guard (shown hs) backup in
  real_path base n w = (MOk rn, w1) ->
  comparable hs (to_abs_symlink t rn) -> below hs (to_abs_symlink t rn) ->
  sealed_run (b_symlink base_ro backup_g t n) (b_symlink base backup t n) w.
Proof.
  intros hs0 b backup sp t n w rn w1 hs base base_ro backup_g Hrp Hc Hb.
  exact (backupfs_sealed_symlink_target hs b backup sp t n w rn w1 Hrp
           (below_hid hs _ (hidden_norm_cleaned hs0) Hc Hb)).
Qed.

Theorem backupfs_sealed_removeall_lex : forall hs0 b backup sp n w rn w1,
  let hs := hidden_norm hs0 in
  let base := wrap sp (hiddenfs hs0 b) in
  let base_ro := wrap sp (hiddenfs hs0 (s_ro b)) in
  real_path base n w = (MOk rn, w1) -> comparable hs rn -> below hs rn ->
  b_removeall base_ro s_trap n w = b_removeall base backup n w /\
  (sp = None -> b_removeall base backup n w = (MOk tt, w1)).
Proof.
  intros hs0 b backup sp n w rn w1 hs base base_ro Hrp Hc Hb.
  exact (backupfs_sealed_removeall hs b backup sp n w rn w1 Hrp
           (below_hid hs rn (hidden_norm_cleaned hs0) Hc Hb)).
Qed.

(** (S3) *)
Theorem try_backup_never_hidden : forall hs0 b backup sp p w,
  let hs := hidden_norm hs0 in
  let base := wrap sp (hiddenfs hs0 b) in
  try_backup base (s_guard (shown hs) backup) p w = try_backup base backup p w.
Proof. intros hs0 b backup sp p w hs base. exact (try_backup_guard hs b backup sp p w). Qed.

Theorem try_backup_hidden_lex : forall hs0 b backup sp rn w,
  let hs := hidden_norm hs0 in
  let base := wrap sp (hiddenfs hs0 b) in
  comparable hs rn -> below hs rn ->
  try_backup base backup rn w =
  (r <- backup_required base rn ;;
   backup_dirs base backup (match fst r with
                            | Some fi => if is_dir_info fi then rn else dir rn
                            | None => dir rn
                            end)) w.
Proof.
  intros hs0 b backup sp rn w hs base Hc Hb.
  exact (try_backup_hidden hs b backup sp rn (below_hid hs rn (hidden_norm_cleaned hs0) Hc Hb) w).
Qed.

Theorem try_backup_hidden_unspied_lex : forall hs0 b backup rn w,
  let hs := hidden_norm hs0 in
  let base := hiddenfs hs0 b in
  comparable hs rn -> below hs rn -> w_infos w !! rn = None ->
  try_backup base backup rn w = (set_info_if_new rn None ;;; backup_dirs base backup (dir rn)) w.
Proof.
  intros hs0 b backup rn w hs base Hc Hb Hi.
  exact (try_backup_hidden_unspied hs b backup None rn w eq_refl
           (below_hid hs rn (hidden_norm_cleaned hs0) Hc Hb) Hi).
Qed.

(** the universal seal for [hiddenfs hs0 b] *)
Theorem universal_seal_hiddenfs : forall hs0 b backup sp,
  let hs := hidden_norm hs0 in
  ops_agree (wrap sp (hiddenfs hs0 (s_guard (shown hs) b))) (s_guard (shown hs) backup)
            (wrap sp (hiddenfs hs0 b)) backup.
Proof. intros hs0 b backup sp hs. exact (universal_seal hs b backup sp). Qed.

Theorem rollback_seal_hiddenfs : forall hs0 b backup sp,
  let hs := hidden_norm hs0 in
  let base_g := wrap sp (hiddenfs hs0 (s_mguard (shown hs) b)) in
  let base := wrap sp (hiddenfs hs0 b) in
  (forall w, b_rollback base_g backup w = b_rollback base backup w) /\
  (forall n w, b_force_backup base_g backup n w = b_force_backup base backup n w).
Proof. intros hs0 b backup sp hs base_g base. exact (rollback_seal hs b backup sp). Qed.

(** HiddenFS.RemoveAll for [hiddenfs hs0 b] *)
Theorem hiddenfs_removeall_footprint : forall hs0 b name w,
  let hs := hidden_norm hs0 in
  a_removeall (hiddenfs hs0 (s_rm hs b)) name w = a_removeall (hiddenfs hs0 b) name w.
Proof. intros hs0 b name w hs. exact (hidden_removeall_footprint hs b name w). Qed.

(** the documented layering [mkConfig None [q] q] (New / NewWithFS on Linux,
    README): base = spy (HiddenFS [q] OS), backup = spy (PrefixFS q OS) *)
Theorem documented_sealed : forall q n w rn w1,
  cleaned q ->
  let c := mkConfig None [q] q in
  let base_ro := spy TBase (hiddenfs [q] (s_ro osfs)) in
  let backup_g := s_guard (shown [q]) (cfg_backup c) in
  real_path (cfg_base c) n w = (MOk rn, w1) -> comparable [q] rn -> below [q] rn ->
  ops_sealed base_ro backup_g (cfg_base c) (cfg_backup c) n w.
Proof.
  intros q n w rn w1 Hq c base_ro backup_g Hrp Hc Hb.
  pose proof (backupfs_sealed_lex [q] osfs (cfg_backup c) (Some TBase) n w rn w1) as Hm.
  cbv zeta in Hm. rewrite (hidden_norm_single q Hq) in Hm. exact (Hm Hrp Hc Hb).
Qed.

Theorem documented_universal : forall q,
  cleaned q ->
  let c := mkConfig None [q] q in
  ops_agree (spy TBase (hiddenfs [q] (s_guard (shown [q]) osfs))) (s_guard (shown [q]) (cfg_backup c))
            (cfg_base c) (cfg_backup c).
Proof.
  intros q Hq c.
  pose proof (universal_seal_hiddenfs [q] osfs (cfg_backup c) (Some TBase)) as Hm.
  cbv zeta in Hm. rewrite (hidden_norm_single q Hq) in Hm. exact Hm.
Qed.

(* ------------------------------------------------------------------ *)
(** * Part 7: non-vacuity on concrete trees (documented layering) *)

Module SealedExamples.
  Definition p_root : str := [47].                       (* "/" *)
  Definition p_bk : str := [47;98;107].                  (* "/bk" *)
  Definition p_bkx : str := [47;98;107;47;120].          (* "/bk/x" *)
  Definition p_bkn : str := [47;98;107;47;110].          (* "/bk/n" *)
  Definition p_f : str := [47;102].                      (* "/f" *)
  Definition p_d : str := [47;100].                      (* "/d" *)
  Definition p_dg : str := [47;100;47;103].              (* "/d/g" *)
  Definition p_y : str := [47;121].                      (* "/y" *)
  Definition p_l : str := [47;108].                      (* "/l" *)
  Definition p_lx : str := [47;108;47;120].              (* "/l/x" *)

  (** { /, /bk/, /bk/x = [1;2], /f = "hi", /d/, /d/g = [7] }, location /bk *)
  Definition w4 : world :=
    init_file (init_dir (init_file (init_file (init_dir (init_dir init_world p_root 493 0 0 1) p_bk 493 0 0 2)
       p_bkx 420 0 0 3 [1;2]) p_f 420 0 0 4 [104;105]) p_d 493 0 0 5) p_dg 420 0 0 6 [7].
  Definition c4 : config := mkConfig None [p_bk] p_bk.

  Definition ops4 : list op :=
    [OCreate p_bkx [9]; OMkdir p_bkn 493; OMkdirAll p_bkn 493; OOpenWrite p_bkx 1 420 [9];
     ORemove p_bk; ORemoveAll p_bk; ORename p_bk p_y; OSymlink p_f p_bkn; OSymlink p_bkx p_l;
     OChmod p_bkx 511; OChown p_bkx 1 1; OLchown p_bkx 1 1; OChtimes p_bkx 77;
     OStat p_bk; OLstat p_bkx; OReadlink p_bkx; ORead p_bkx; OReaddir p_bk; OReaddir p_root].

  Definition hp := MErr (A:=obs) (ELayer EHiddenPerm).
  Definition hn := MErr (A:=obs) (ELayer EHiddenNotExist).

  (** every operation on the location or below it is rejected (RemoveAll:
      "nothing to remove"), the listing of "/" does not show "bk", and the
      filesystem is exactly what it was *)
  Example sealed_history :
    let '(rs, w') := run_history c4 ops4 w4 in
    rs = [hp; hp; hp; hn; hn; MOk ObUnit; hn; hp; hp; hn; hn; hn; hn; hn; hn; hn; hn; hn;
          MOk (ObNames [[100]; [102]])] /\
    dump_fs w' = dump_fs w4.
  Proof. vm_compute. split; reflexivity. Qed.

  (** BackupFS.RemoveAll("/"): everything outside the location is removed
      (and backed up), the location and its content are spared (so the final
      Remove("/") fails, here with EBUSY); Rollback then restores every file
      outside and leaves the location's own content as it was *)
  Example removeall_root_spares_location :
    let '(rs, w') := run_history c4 [ORemoveAll p_root] w4 in
    rs = [MErr EBUSY] /\
    st_fs (w_st w') !! [[102]] = None /\ st_fs (w_st w') !! [[100]] = None /\
    st_fs (w_st w') !! [[100];[103]] = None /\
    st_fs (w_st w') !! [[98;107];[120]] = st_fs (w_st w4) !! [[98;107];[120]] /\
    is_Some (st_fs (w_st w') !! [[98;107]]).
  Proof. vm_compute. repeat split; try reflexivity. eexists; reflexivity. Qed.

  Example removeall_root_then_rollback :
    let '(rs, w') := run_history c4 [ORemoveAll p_root; ORollback] w4 in
    rs = [MErr EBUSY; MOk ObUnit] /\
    map fst (dump_fs w') = map fst (dump_fs w4) /\
    st_fs (w_st w') !! [[102]] = st_fs (w_st w4) !! [[102]] /\
    st_fs (w_st w') !! [[100];[103]] = st_fs (w_st w4) !! [[100];[103]] /\
    st_fs (w_st w') !! [[98;107];[120]] = st_fs (w_st w4) !! [[98;107];[120]].
  Proof. vm_compute. repeat split; reflexivity. Qed.

  (** HiddenFS.RemoveAll("/") itself: the location and its content survive *)
  Example hiddenfs_removeall_root :
    let '(r, w') := a_removeall (hiddenfs [p_bk] osfs) p_root w4 in
    r = MOk tt /\
    map fst (dump_fs w') = [[]; [[98;107];[120]]; [[98;107]]] /\
    st_fs (w_st w') !! [[98;107];[120]] = st_fs (w_st w4) !! [[98;107];[120]] /\
    st_fs (w_st w') !! [[98;107]] = st_fs (w_st w4) !! [[98;107]].
  Proof. vm_compute. repeat split; reflexivity. Qed.

  (** a location that is not directly below the root: "/a/bk" *)
  Definition p_a : str := [47;97].
  Definition p_b : str := [47;98].
  Definition p_abk : str := [47;97;47;98;107].
  Definition p_abkx : str := [47;97;47;98;107;47;120].
  Definition p_af : str := [47;97;47;102].
  (** { /, /a/, /a/bk/, /a/bk/x = [1;2], /a/f = "hi" } *)
  Definition w5 : world :=
    init_file (init_file (init_dir (init_dir (init_dir init_world p_root 493 0 0 1) p_a 493 0 0 2) p_abk 493 0 0 3)
       p_abkx 420 0 0 4 [1;2]) p_af 420 0 0 5 [104;105].
  Definition c5 : config := mkConfig None [p_abk] p_abk.

  (** what "unchanged" cannot mean: the rejected Create("/a/bk/x") has made
      BackupFS back up the (not hidden) ancestor directory "/a" - the store
      now contains the directory /a/bk/a; the hidden file itself is intact.
      Rollback removes that directory again. *)
  Example rejected_op_backs_up_ancestors :
    let '(rs, w') := run_history c5 [OCreate p_abkx [9]] w5 in
    rs = [hp] /\
    st_fs (w_st w5) !! [[97];[98;107];[97]] = None /\
    is_Some (st_fs (w_st w') !! [[97];[98;107];[97]]) /\
    st_fs (w_st w') !! [[97];[98;107];[120]] = st_fs (w_st w5) !! [[97];[98;107];[120]] /\
    (let '(rs2, w'') := run_history c5 [OCreate p_abkx [9]; ORollback] w5 in
     rs2 = [hp; MOk ObUnit] /\ map fst (dump_fs w'') = map fst (dump_fs w5)).
  Proof. vm_compute. repeat split; try reflexivity. eexists; reflexivity. Qed.

  (** Rename of the parent directory of the location: rejected, nothing moves;
      RemoveAll of the parent: the sibling file goes, the location stays (so
      removing "/a" itself fails with ENOTEMPTY); Rollback restores the file *)
  Example rename_parent_rejected :
    let '(rs, w') := run_history c5 [ORename p_a p_b; ORollback] w5 in
    rs = [hp; MOk ObUnit] /\ map fst (dump_fs w') = map fst (dump_fs w5) /\
    st_fs (w_st w') !! [[97];[102]] = st_fs (w_st w5) !! [[97];[102]] /\
    st_fs (w_st w') !! [[97];[98;107];[120]] = st_fs (w_st w5) !! [[97];[98;107];[120]].
  Proof. vm_compute. repeat split; reflexivity. Qed.

  Example removeall_parent_then_rollback :
    (let '(rs, w') := run_history c5 [ORemoveAll p_a] w5 in
     rs = [MErr ENOTEMPTY] /\ st_fs (w_st w') !! [[97];[102]] = None /\
     st_fs (w_st w') !! [[97];[98;107];[120]] = st_fs (w_st w5) !! [[97];[98;107];[120]]) /\
    (let '(rs, w') := run_history c5 [ORemoveAll p_a; ORollback] w5 in
     rs = [MErr ENOTEMPTY; MOk ObUnit] /\ map fst (dump_fs w') = map fst (dump_fs w5) /\
     st_fs (w_st w') !! [[97];[102]] = st_fs (w_st w5) !! [[97];[102]] /\
     st_fs (w_st w') !! [[97];[98;107];[120]] = st_fs (w_st w5) !! [[97];[98;107];[120]]).
  Proof. vm_compute. repeat split; reflexivity. Qed.

  (** The caveat (recorded finding D9): the theorems are about the name
      HiddenFS is handed.  With a symlink /l -> /bk in the tree, the read-only
      operations of BackupFS (forwarded unresolved) show the hidden file
      through it; the mutating ones resolve the name first and are rejected. *)
  Definition w6 : world :=
    init_link (init_file (init_file (init_dir (init_dir init_world p_root 493 0 0 1) p_bk 493 0 0 2)
       p_bkx 420 0 0 3 [1;2]) p_f 420 0 0 4 [104;105]) p_l 0 0 5 p_bk.
  Example resolved_name_caveat_D9 :
    let '(rs, w') := run_history c4 [ORead p_lx; OReaddir p_l; ORealPath p_lx; OCreate p_lx [9]] w6 in
    rs = [MOk (ObData [1;2]); MOk (ObNames [[120]]); MOk (ObStr p_bkx); hp] /\
    dump_fs w' = dump_fs w6.
  Proof. vm_compute. split; reflexivity. Qed.

  (** the hypotheses of the general theorems hold here *)
  Example hypotheses_hold :
    cleaned p_bk /\ comparable [p_bk] p_bkx /\ below [p_bk] p_bkx /\ hid [p_bk] p_bkx /\
    real_path (cfg_base c4) p_bkx w4 = (MOk p_bkx, snd (real_path (cfg_base c4) p_bkx w4)).
  Proof.
    split; [vm_compute; reflexivity|].
    split; [split; [intro F; vm_compute in F; intuition discriminate|
                    constructor; [split; [reflexivity|intro F; vm_compute in F; intuition discriminate]|constructor]]|].
    split.
    - exists p_bk. split; [left; reflexivity|]. split; [reflexivity|].
      exists [[120]]. split; [vm_compute; reflexivity|]. intro F; vm_compute in F; intuition discriminate.
    - split; vm_compute; reflexivity.
  Qed.
End SealedExamples.
