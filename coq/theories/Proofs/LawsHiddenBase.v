(** Foundations for the laws of the DOCUMENTED layering (Spec/ViewHidden.v):

    - 1. paths: the lexical HiddenFS checks on absolute cleaned names
      ([shownb], [hid_h], [anc_h]), the world path of the location;
    - 2. the view [VpH]: lookup, well-formedness, bridging predicates,
      "filtering commutes with an update at a shown path";
    - 3. footprints: which keys of the world a call of [the_api tag pfx]
      on a resolved view path may change (its own key and the key of its
      parent), and the frames that follow for the views [Vp (pa ++ h)] (base
      calls on shown names) and [VpH pa h] (calls of the backup filesystem). *)
From stdpp Require Import gmap.
From BFS Require Import Spec.CopySpecs Spec.ViewOsfs Spec.ViewHidden.
From BFS Require Import Proofs.LawsOsfsBase Proofs.LawsOsfsA Proofs.LawsOsfsB Proofs.LawsOsfs.
From BFS Require Import Proofs.HiddenFacts Proofs.SealedFacts Proofs.BackupCopy.
Local Open Scope nat_scope.

(* ------------------------------------------------------------------ *)
(** * 1. Paths *)

Lemma abs_cleaned_clean (p : str) : abs_cleaned p -> clean p = p.
Proof. intros [H _]. exact H. Qed.

Lemma abs_cleaned_plain (p : str) : abs_cleaned p -> plain p.
Proof. intros [_ Ha]. unfold plain. apply abs_comps_no_dotdot. exact Ha. Qed.

Section Paths.
  Variable h : str.
  Hypothesis Hh : hidden_ok h.

  Let Hhac : abs_cleaned h := proj1 Hh.

  Lemma hnorm : hidden_norm [h] = [h].
  Proof. apply hidden_norm_single. exact (proj1 Hhac). Qed.

  Lemma hs_cleaned : Forall cleaned [h].
  Proof. constructor; [exact (proj1 Hhac) | constructor]. Qed.

  Lemma comparable_ac (p : str) : abs_cleaned p -> comparable [h] p.
  Proof.
    intros Hac. split.
    - rewrite (abs_cleaned_clean p Hac). exact (abs_cleaned_plain p Hac).
    - constructor; [| constructor]. split.
      + rewrite (abs_cleaned_clean p Hac), (proj2 Hhac), (proj2 Hac). reflexivity.
      + exact (abs_cleaned_plain h Hhac).
  Qed.

  (** at or below the location, for an absolute cleaned name: component-wise *)
  Lemma below_shownb (p : str) : abs_cleaned p -> (below [h] p <-> shownb h p = false).
  Proof.
    intros Hac. unfold below, shownb, within. rewrite (abs_cleaned_clean p Hac).
    rewrite negb_false_iff, key_prefixb_iff. split.
    - intros (h' & [<- | []] & _ & rest & E & _). exists rest. exact E.
    - intros [rest E]. exists h. split; [left; reflexivity |]. split.
      + rewrite (proj2 Hhac), (proj2 Hac). reflexivity.
      + exists rest. split; [exact E |]. intros Hin.
        apply (abs_comps_no_dotdot p (proj2 Hac)). rewrite E. apply in_or_app. right. exact Hin.
  Qed.

  Lemma hid_shownb (p : str) : abs_cleaned p -> (hid_h h p <-> shownb h p = false).
  Proof. intros Hac. unfold hid_h. rewrite hnorm. apply below_shownb. exact Hac. Qed.

  Lemma not_hid_shownb (p : str) : abs_cleaned p -> (~ hid_h h p <-> shownb h p = true).
  Proof.
    intros Hac. rewrite (hid_shownb p Hac). destruct (shownb h p); split; intros H; try reflexivity;
      try discriminate; try (intros D; discriminate D). contradiction H. reflexivity.
  Qed.

  (** the HiddenFS check on an absolute cleaned name *)
  Lemma is_hidden_ac (p : str) : abs_cleaned p -> is_hidden p [h] = Some (negb (shownb h p)).
  Proof.
    intros Hac. destruct (shownb h p) eqn:E; cbn [negb].
    - apply (is_hidden_not_below [h] p hs_cleaned (comparable_ac p Hac)).
      intros Hb. apply (below_shownb p Hac) in Hb. congruence.
    - apply (is_hidden_below [h] p hs_cleaned (comparable_ac p Hac)).
      apply (below_shownb p Hac). exact E.
  Qed.

  Lemma shownb_self : shownb h h = false.
  Proof. unfold shownb. rewrite key_prefixb_refl. reflexivity. Qed.

  Lemma shownb_root : shownb h s_root = true.
  Proof.
    unfold shownb. rewrite comps_root. destruct (comps h) eqn:E; [| reflexivity].
    exfalso. apply (proj2 Hh). apply (abs_cleaned_comps_nil h Hhac). exact E.
  Qed.

  (** what lies above a shown name is shown *)
  Lemma shownb_prefix (p q : str) :
    shownb h p = true -> key_prefixb (comps q) (comps p) = true -> shownb h q = true.
  Proof.
    unfold shownb. rewrite !negb_true_iff. intros Hp Hq.
    apply key_prefixb_false_iff. intros [r Er].
    apply key_prefixb_iff in Hq. destruct Hq as [r' Er'].
    apply key_prefixb_false_iff in Hp. apply Hp. exists (r ++ r'). rewrite Er', Er, app_assoc. reflexivity.
  Qed.

  Lemma comps_ancestor (p a : str) : abs_cleaned p -> In a (ancestors p) ->
    abs_cleaned a /\ exists r, r <> [] /\ comps p = comps a ++ r.
  Proof.
    intros Hac Hin. split; [exact (ancestors_abs_cleaned p a Hac Hin) |].
    apply (ancestors_In p a Hac) in Hin. destruct Hin as (k' & Hk' & ->).
    pose proof (kprefixes_good _ _ (good_key_comps p (proj2 Hac)) Hk') as Hg.
    rewrite (comps_kpath_good k' Hg). apply kprefixes_In in Hk'. destruct Hk' as (r & Hr & E).
    exists r. split; [exact Hr | exact E].
  Qed.

  Lemma shownb_ancestor (p a : str) :
    abs_cleaned p -> shownb h p = true -> In a (ancestors p) -> shownb h a = true.
  Proof.
    intros Hac Hs Hin. destruct (comps_ancestor p a Hac Hin) as (_ & r & _ & E).
    apply (shownb_prefix p a Hs). rewrite E. apply key_prefixb_app.
  Qed.

  Lemma shownb_cands (p q : str) :
    abs_cleaned p -> shownb h p = true -> In q (cands p) -> shownb h q = true.
  Proof.
    intros Hac Hs Hin. rewrite (cands_last p (proj1 Hac)) in Hin. apply in_app_or in Hin.
    destruct Hin as [Hin | [<- | []]]; [exact (shownb_ancestor p q Hac Hs Hin) | exact Hs].
  Qed.

  (** the proper ancestors of the location *)
  Lemma anc_spec (p : str) : anc_h h p -> abs_cleaned p /\ shownb h p = true /\ p <> h /\
                                          exists r, r <> [] /\ comps h = comps p ++ r.
  Proof.
    intros Hin. unfold anc_h in Hin. destruct (comps_ancestor h p Hhac Hin) as (Hac & r & Hr & E).
    split; [exact Hac |]. split; [| split; [| exists r; split; assumption]].
    - unfold shownb. apply negb_true_iff. apply key_prefixb_false_iff. intros [r' E'].
      rewrite E' in E. rewrite <- app_assoc in E. rewrite <- (app_nil_r (comps h)) in E at 1.
      apply app_inv_head in E. symmetry in E. apply app_eq_nil in E. destruct E as [_ E]. exact (Hr E).
    - intros ->. exact (ancestors_not_self h (proj1 Hhac) Hin).
  Qed.

  Lemma anc_of_comps (p : str) (r : list str) :
    abs_cleaned p -> r <> [] -> comps h = comps p ++ r -> anc_h h p.
  Proof.
    intros Hac Hr E. unfold anc_h. apply (ancestors_In h p Hhac). exists (comps p). split.
    - apply kprefixes_In. exists r. split; [exact Hr | exact E].
    - symmetry. apply kpath_comps. exact Hac.
  Qed.

  Lemma anc_dec (p : str) : anc_h h p \/ ~ anc_h h p.
  Proof. unfold anc_h. destruct (in_dec str_eq_dec p (ancestors h)); [left | right]; assumption. Qed.

  (** [isParentOfHiddenDir] on an absolute cleaned name *)
  Lemma above_anc (p : str) : abs_cleaned p -> (above_hidden [h] p <-> anc_h h p).
  Proof.
    intros Hac. unfold above_hidden. rewrite (abs_cleaned_clean p Hac). split.
    - intros (h' & [<- | []] & (_ & rest & E & _) & Hne).
      apply (anc_of_comps p rest Hac); [| exact E]. intros ->. rewrite app_nil_r in E.
      apply Hne. apply abs_cleaned_comps_inj; [exact Hac | exact Hhac | symmetry; exact E].
    - intros Ha. destruct (anc_spec p Ha) as (_ & _ & Hne & r & _ & E).
      exists h. split; [left; reflexivity |]. split; [| exact Hne]. split.
      + rewrite (proj2 Hhac), (proj2 Hac). reflexivity.
      + exists r. split; [exact E |]. intros Hin.
        apply (abs_comps_no_dotdot h (proj2 Hhac)). rewrite E. apply in_or_app. right. exact Hin.
  Qed.

  Lemma is_parent_anc (p : str) : abs_cleaned p -> anc_h h p -> is_parent_of_hidden p [h] = Some true.
  Proof.
    intros Hac Ha. apply (is_parent_above [h] p hs_cleaned (comparable_ac p Hac)).
    apply (above_anc p Hac). exact Ha.
  Qed.

  Lemma is_parent_not_anc (p : str) : abs_cleaned p -> ~ anc_h h p -> is_parent_of_hidden p [h] = Some false.
  Proof.
    intros Hac Ha. apply (is_parent_not_above [h] p hs_cleaned (comparable_ac p Hac)).
    intros Hab. apply Ha. apply (above_anc p Hac). exact Hab.
  Qed.

  (** a shown name that is not a proper ancestor of the location has nothing of
      the location below it *)
  Lemma shown_not_anc_incomparable (p : str) :
    abs_cleaned p -> shownb h p = true -> ~ anc_h h p -> key_prefixb (comps p) (comps h) = false.
  Proof.
    intros Hac Hs Hna. apply key_prefixb_false_iff. intros [r E].
    destruct r as [| c r].
    - rewrite app_nil_r in E. unfold shownb in Hs. rewrite E, key_prefixb_refl in Hs. discriminate Hs.
    - apply Hna. apply (anc_of_comps p (c :: r) Hac); [discriminate | exact E].
  Qed.
End Paths.

(** ** the world path of the location *)
Section Location.
  Variables pa h : str.
  Hypothesis Ha : prefix_ok pa.
  Hypothesis Hh : hidden_ok h.

  Lemma pk_wpath : pk_h pa h = wpath pa h.
  Proof. unfold pk_h. symmetry. apply wpath_app; [exact Ha | exact (proj1 Hh) | exact (proj2 Hh)]. Qed.

  Lemma kp_pk : kp (pk_h pa h) = wkey pa h.
  Proof. unfold kp. rewrite pk_wpath. apply comps_wpath; [exact Ha | exact (proj2 (proj1 Hh))]. Qed.

  Lemma pk_ok : prefix_ok (pk_h pa h).
  Proof.
    split.
    - rewrite pk_wpath. apply wpath_abs_cleaned; [exact Ha | exact (proj2 (proj1 Hh))].
    - intros E. pose proof kp_pk as K. unfold kp in K. rewrite E, comps_root in K.
      symmetry in K. exact (wkey_nonnil pa h Ha K).
  Qed.

  (** a world key of the base lies at or below the location iff its view path is hidden *)
  Lemma below_pk_wkey (p : str) :
    key_prefixb (kp (pk_h pa h)) (wkey pa p) = negb (shownb h p).
  Proof.
    rewrite kp_pk. unfold wkey, shownb. rewrite negb_involutive.
    destruct (key_prefixb (comps h) (comps p)) eqn:E.
    - apply key_prefixb_iff in E. destruct E as [r E]. rewrite E, app_assoc. apply key_prefixb_app.
    - apply key_prefixb_false_iff. intros [r Er]. rewrite <- app_assoc in Er. apply app_inv_head in Er.
      apply key_prefixb_false_iff in E. apply E. exists r. exact Er.
  Qed.

  (** the keys at or below the location are keys of the base *)
  Lemma below_pk_below_pa (k : key) :
    key_prefixb (kp (pk_h pa h)) k = true -> key_prefixb (kp pa) k = true.
  Proof.
    rewrite kp_pk. intros H. apply key_prefixb_iff in H. destruct H as [r ->].
    unfold wkey. rewrite <- app_assoc. apply key_prefixb_app.
  Qed.

  Lemma kp_pa_not_below_pk : key_prefixb (kp (pk_h pa h)) (kp pa) = false.
  Proof.
    rewrite <- (wkey_root pa), below_pk_wkey, (shownb_root h Hh). reflexivity.
  Qed.
End Location.
