(** Foundation lemmas for proving [api_laws] of the concrete layered model
    [the_api tag pfx = spy tag (prefixfs pfx osfs)] with respect to the view
    [Vp pfx] (Spec/ViewOsfs.v).

    Contents:
    - 0. small list / key facts;
    - A. reflection of [world_okb];
    - B. view paths and world paths ([wkey], [wpath], [prefix_path], reported
      names, [ancestors], [vparent]);
    - C. the view: lookup, bridging predicates, [swf], frames
      ([same_outside], [Vp_frame], [view_insert], [view_eqv_except], ...),
      preservation of [world_okb];
    - D. unfolding the API: [spied] on quiet worlds, [fs_get]/[fs_upd], the
      world [after] a call, every method of [the_api], handle operations;
    - E. primitives on a path whose parents do not resolve ([unresolvable]);
    - F. one-step equations [run_*] for [the_api] on a quiet world, as a
      [match] on [st_fs (w_st w) !! wkey pfx p] ([fin], [finmap]);
    - G. [Rename] of an entry without children ([fs_rename_direct_leaf],
      [moved_leaf], [run_rename_leaf]);
    - H. writing through an arbitrary handle; I. reading handles, read-only
      handles, directory listings ([child_names_In], [join2_child]);
    - Z. worked examples: nine laws, with exactly the hypotheses of the
      corresponding [api_laws] fields.

    Walk budget: [resolve f q] runs the walk with the budget
    [walk_fuel + length q], which always suffices for a path whose parents
    are not symlinks; the lemmas of Proofs/FsFacts.v about [direct] /
    [nolinkpar] paths, and hence the lemmas here, carry no budget hypothesis.

    Typing remark: [st_fs s !! wkey pfx p] is elaborated here at the key type
    [key], in Proofs/FsFacts.v at [list str]; [rewrite]/[destruct] with a
    hand-written lookup may not match the goal syntactically.  Use
    [norm_keys] before such rewrites, and [dlook pfx p as pat (eqn:H)] to
    destruct the lookup at [wkey pfx p] that occurs in the goal.  Names of the
    Coq list library shadow std++ here: use [List.Forall_forall],
    [base.NoDup], [list.NoDup_cons]. *)
From stdpp Require Import gmap.
From BFS Require Export Layers.LayerSpec Spec.ViewOsfs Proofs.PrefixFacts Proofs.C19Facts.
Local Open Scope nat_scope.

(* ------------------------------------------------------------------ *)
(** * 0. Small list / key facts *)

Lemma In_elem_of : forall (A : Type) (x : A) (l : list A), In x l <-> x ∈ l.
Proof. intros A x l. symmetry. apply elem_of_list_In. Qed.

Lemma entries_In : forall (f : fs) k n, In (k, n) (entries f) <-> f !! k = Some n.
Proof.
  intros f k n. unfold entries. change (gmap_to_list f) with (map_to_list f).
  rewrite In_elem_of. apply elem_of_map_to_list.
Qed.

Lemma good_key_nil : good_key [].
Proof. split; [constructor | intros []]. Qed.

Lemma good_key_app : forall a b, good_key (a ++ b) <-> good_key a /\ good_key b.
Proof.
  intros a b. unfold good_key. rewrite List.Forall_app. split.
  - intros [[Ha Hb] Hn]. split; split; try assumption; intro H; apply Hn; apply in_or_app; auto.
  - intros [[Ha Hna] [Hb Hnb]]. split; [split; assumption|].
    intro H. apply in_app_or in H. destruct H; auto.
Qed.

Lemma good_key_comps : forall p, is_abs p = true -> good_key (comps p).
Proof.
  intros p Ha. split; [apply comps_good | apply abs_comps_no_dotdot; exact Ha].
Qed.

Lemma good_key_removelast : forall k, good_key k -> good_key (removelast k).
Proof.
  intros k Hk. destruct (list_eq_dec str_eq_dec k []) as [E|E].
  - subst k. exact Hk.
  - rewrite <- (removelast_last_snoc _ k [] E) in Hk. apply good_key_app in Hk. tauto.
Qed.

Lemma kpath_good_abs_cleaned : forall k, good_key k -> abs_cleaned (kpath k).
Proof. intros k [H1 H2]. apply kpath_abs_cleaned; assumption. Qed.

Lemma comps_kpath_good : forall k, good_key k -> comps (kpath k) = k.
Proof. intros k [H1 H2]. apply comps_kpath; assumption. Qed.

Lemma kpath_inj_good : forall k k', good_key k -> good_key k' -> kpath k = kpath k' -> k = k'.
Proof.
  intros k k' Hk Hk' E. rewrite <- (comps_kpath_good k Hk), <- (comps_kpath_good k' Hk').
  rewrite E. reflexivity.
Qed.

Lemma abs_cleaned_comps_inj : forall p q,
  abs_cleaned p -> abs_cleaned q -> comps p = comps q -> p = q.
Proof.
  intros p q Hp Hq E. rewrite <- (kpath_comps p Hp), <- (kpath_comps q Hq), E. reflexivity.
Qed.

Lemma abs_cleaned_root_ac : abs_cleaned s_root.
Proof. split; vm_compute; reflexivity. Qed.

Lemma comps_root : comps s_root = [].
Proof. reflexivity. Qed.

Lemma abs_cleaned_comps_nil : forall p, abs_cleaned p -> (comps p = [] <-> p = s_root).
Proof. intros p [Hc Ha]. apply cleaned_comps_nil_abs; assumption. Qed.

Lemma key_prefixb_false_iff : forall a b, key_prefixb a b = false <-> ~ exists r, b = a ++ r.
Proof.
  intros a b. rewrite <- key_prefixb_iff. destruct (key_prefixb a b); split; intro H; try reflexivity.
  - discriminate H.
  - exfalso. apply H. reflexivity.
  - intro H'. discriminate H'.
Qed.

(** two prefixes of the same list are comparable *)
Lemma app_eq_app_prefix : forall (A : Type) (a b r s : list A),
  a ++ r = b ++ s -> (exists x, b = a ++ x) \/ (exists x, a = b ++ x).
Proof.
  intros A a. induction a as [|x a IH]; intros b r s E.
  - left. exists b. reflexivity.
  - destruct b as [|y b].
    + right. exists (x :: a). reflexivity.
    + simpl in E. injection E as Exy E. subst y.
      destruct (IH b r s E) as [[z Hz]|[z Hz]].
      * left. exists z. simpl. rewrite Hz. reflexivity.
      * right. exists z. simpl. rewrite Hz. reflexivity.
Qed.

Lemma kprefixes_app : forall a b,
  kprefixes (a ++ b) = kprefixes a ++ map (app a) (kprefixes b).
Proof.
  induction a as [|c a IH]; intros b.
  - simpl. rewrite map_id. reflexivity.
  - simpl. rewrite IH, map_app, map_map. reflexivity.
Qed.

Lemma removelast_app_ne : forall (A : Type) (a b : list A),
  b <> [] -> removelast (a ++ b) = a ++ removelast b.
Proof. intros A a b Hb. apply removelast_app. exact Hb. Qed.

Lemma last_app_ne : forall (A : Type) (a b : list A) d,
  b <> [] -> last (a ++ b) d = last b d.
Proof.
  intros A a b d Hb. induction a as [|x a IH]; [reflexivity|].
  simpl. destruct (a ++ b) eqn:E.
  - apply app_eq_nil in E. destruct E as [_ E]. contradiction.
  - exact IH.
Qed.

(* ------------------------------------------------------------------ *)
(** * A. Reflection of the boolean world check *)

Lemma good_compb_spec : forall c, good_compb c = true <-> good_comp c /\ c <> s_dotdot.
Proof.
  intros c. unfold good_compb, good_comp, nosep.
  rewrite !andb_true_iff, !negb_true_iff, !str_eqb_neq.
  assert (Hex : existsb (N.eqb sep) c = false <-> ~ In sep c).
  { split.
    - intros H Hin. assert (E : existsb (N.eqb sep) c = true).
      { apply existsb_exists. exists sep. split; [exact Hin | apply N.eqb_refl]. }
      rewrite E in H. discriminate H.
    - intros H. destruct (existsb (N.eqb sep) c) eqn:E; [|reflexivity].
      apply existsb_exists in E. destruct E as [x [Hin Hx]]. apply N.eqb_eq in Hx. subst x.
      contradiction. }
  rewrite Hex. tauto.
Qed.

Lemma forallb_good_compb_spec : forall k, forallb good_compb k = true <-> good_key k.
Proof.
  intros k. rewrite forallb_forall. unfold good_key. rewrite List.Forall_forall. split.
  - intros H. split.
    + intros c Hc. apply (proj1 (good_compb_spec c) (H c Hc)).
    + intros Hin. apply (proj2 (proj1 (good_compb_spec _) (H _ Hin))). reflexivity.
  - intros [H1 H2] c Hc. apply good_compb_spec. split; [exact (H1 c Hc)|].
    intro E. subst c. contradiction.
Qed.

Lemma is_dirb_spec : forall (f : fs) k, is_dirb f k = true <-> is_dir_at f k.
Proof.
  intros f k. unfold is_dirb, is_dir_at. destruct (f !! k) as [[m|m c|m t]|]; split; intro H.
  all: try discriminate H; try reflexivity.
  all: try (exists m; reflexivity).
  all: destruct H as [m' H]; discriminate H.
Qed.

Lemma entry_okb_spec : forall (f : fs) k n,
  entry_okb f (k, n) = true <->
  good_key k /\ (k <> [] -> is_dir_at f (removelast k)) /\ perm12 n.
Proof.
  intros f k n. unfold entry_okb, perm12. simpl fst. simpl snd.
  rewrite !andb_true_iff, forallb_good_compb_spec, N.eqb_eq.
  assert (Hp : (match k with [] => true | _ => is_dirb f (removelast k) end) = true <->
               (k <> [] -> is_dir_at f (removelast k))).
  { destruct k as [|c k'].
    - split; [intros _ H; contradiction | reflexivity].
    - rewrite is_dirb_spec. split; [intros H _; exact H | intros H; apply H; discriminate]. }
  rewrite Hp. tauto.
Qed.

(** A1 *)
Lemma world_okb_spec : forall pfx (f : fs),
  world_okb pfx f = true <->
  wf f /\ keys_good f /\ (forall k n, f !! k = Some n -> perm12 n) /\ is_dir_at f (kp pfx).
Proof.
  intros pfx f. unfold world_okb. rewrite !andb_true_iff, !is_dirb_spec, forallb_forall.
  unfold wf, keys_good. split.
  - intros [[Hroot Hkp] Hall].
    assert (H : forall k n, f !! k = Some n ->
              good_key k /\ (k <> [] -> is_dir_at f (removelast k)) /\ perm12 n).
    { intros k n Hk. apply entry_okb_spec. apply Hall. apply entries_In. exact Hk. }
    split; [split; [exact Hroot|] | split; [| split; [| exact Hkp]]].
    + intros k n Hk Hne. exact (proj1 (proj2 (H k n Hk)) Hne).
    + intros k n Hk. exact (proj1 (H k n Hk)).
    + intros k n Hk. exact (proj2 (proj2 (H k n Hk))).
  - intros [[Hroot Hpar] [Hgood [Hperm Hkp]]]. split; [split; assumption|].
    intros [k n] Hin. apply entries_In in Hin. apply entry_okb_spec.
    split; [exact (Hgood k n Hin) | split; [exact (Hpar k n Hin) | exact (Hperm k n Hin)]].
Qed.

Lemma world_okb_wf : forall pfx f, world_okb pfx f = true -> wf f.
Proof. intros pfx f H. apply world_okb_spec in H. tauto. Qed.

Lemma world_okb_keys_good : forall pfx f, world_okb pfx f = true -> keys_good f.
Proof. intros pfx f H. apply world_okb_spec in H. tauto. Qed.

Lemma world_okb_perm12 : forall pfx (f : fs) k n,
  world_okb pfx f = true -> f !! k = Some n -> perm12 n.
Proof. intros pfx f k n H. apply world_okb_spec in H. destruct H as (_ & _ & H & _). apply H. Qed.

Lemma world_okb_prefix_dir : forall pfx f, world_okb pfx f = true -> is_dir_at f (kp pfx).
Proof. intros pfx f H. apply world_okb_spec in H. tauto. Qed.

(** the checks other than "the prefix directory exists" do not depend on the prefix *)
Lemma world_okb_other : forall pa pb f,
  world_okb pa f = true -> is_dir_at f (kp pb) -> world_okb pb f = true.
Proof.
  intros pa pb f H Hd. apply world_okb_spec in H. apply world_okb_spec.
  destruct H as (H1 & H2 & H3 & _). split; [exact H1 | split; [exact H2 | split; [exact H3 | exact Hd]]].
Qed.

(** A2 *)
Lemma wf_dir_direct : forall f p, wf f -> abs_cleaned p -> is_dir_at f (comps p) -> direct f p.
Proof. intros f p Hwf Hac [m Hm]. exact (wf_present_direct f p (Dir m) Hwf Hac Hm). Qed.

Lemma world_okb_direct_prefix : forall pfx f,
  prefix_ok pfx -> world_okb pfx f = true -> direct f pfx.
Proof.
  intros pfx f [Hac _] H. apply wf_dir_direct; [exact (world_okb_wf _ _ H) | exact Hac |].
  exact (world_okb_prefix_dir _ _ H).
Qed.

Lemma wf_prefix_dirs : forall (f : fs) k, wf f -> is_dir_at f k -> Forall (is_dir_at f) (kprefixes k).
Proof.
  intros f k Hwf [m Hm]. apply Forall_kprefixes. intros pre r Hr E. subst k.
  exact (wf_prefix_dir f pre r (Dir m) Hwf Hr Hm).
Qed.

Lemma is_dir_not_link : forall (f : fs) k, is_dir_at f k -> not_link_at f k.
Proof. intros f k [m Hm] m' t H. rewrite Hm in H. discriminate H. Qed.

(* ------------------------------------------------------------------ *)
(** * B. View paths and world paths *)

Lemma prefix_ok_abs_cleaned : forall pfx, prefix_ok pfx -> abs_cleaned pfx.
Proof. intros pfx [H _]. exact H. Qed.

Lemma prefix_ok_cleaned : forall pfx, prefix_ok pfx -> clean pfx = pfx.
Proof. intros pfx [[H _] _]. exact H. Qed.

Lemma prefix_ok_is_abs : forall pfx, prefix_ok pfx -> is_abs pfx = true.
Proof. intros pfx [[_ H] _]. exact H. Qed.

Lemma prefix_ok_nonempty : forall pfx, prefix_ok pfx -> pfx <> [].
Proof. intros pfx [H _]. apply abs_cleaned_nonempty. exact H. Qed.

Lemma kp_good : forall pfx, prefix_ok pfx -> good_key (kp pfx).
Proof. intros pfx H. apply good_key_comps. apply prefix_ok_is_abs. exact H. Qed.

Lemma kp_nonnil : forall pfx, prefix_ok pfx -> kp pfx <> [].
Proof.
  intros pfx [Hac Hne] E. apply Hne. apply (abs_cleaned_comps_nil pfx Hac). exact E.
Qed.

Lemma kpath_kp : forall pfx, prefix_ok pfx -> kpath (kp pfx) = pfx.
Proof. intros pfx [Hac _]. apply kpath_comps. exact Hac. Qed.

Lemma wkey_root : forall pfx, wkey pfx s_root = kp pfx.
Proof. intros pfx. unfold wkey. rewrite comps_root. apply app_nil_r. Qed.

Lemma wkey_good : forall pfx p, prefix_ok pfx -> is_abs p = true -> good_key (wkey pfx p).
Proof.
  intros pfx p Hp Ha. apply good_key_app. split; [apply kp_good; exact Hp | apply good_key_comps; exact Ha].
Qed.

Lemma wkey_prefix : forall pfx p, key_prefixb (kp pfx) (wkey pfx p) = true.
Proof. intros pfx p. apply key_prefixb_app. Qed.

Lemma wkey_skipn : forall pfx p, skipn (length (kp pfx)) (wkey pfx p) = comps p.
Proof. intros pfx p. apply skipn_length_app. Qed.

Lemma wkey_inj : forall pfx p q,
  abs_cleaned p -> abs_cleaned q -> wkey pfx p = wkey pfx q -> p = q.
Proof.
  intros pfx p q Hp Hq E. apply app_inv_head in E. apply abs_cleaned_comps_inj; assumption.
Qed.

Lemma wkey_nonnil : forall pfx p, prefix_ok pfx -> wkey pfx p <> [].
Proof.
  intros pfx p Hp E. apply app_eq_nil in E. destruct E as [E _]. exact (kp_nonnil pfx Hp E).
Qed.

Lemma wkey_eq_kp_iff : forall pfx p, abs_cleaned p -> (wkey pfx p = kp pfx <-> p = s_root).
Proof.
  intros pfx p Hac. unfold wkey. split.
  - intros E. rewrite <- (app_nil_r (kp pfx)) in E at 2. apply app_inv_head in E.
    apply (abs_cleaned_comps_nil p Hac). exact E.
  - intros E. subst p. rewrite comps_root. apply app_nil_r.
Qed.

(** parent and last component of the world key of a non-root view path *)
Lemma wkey_removelast : forall pfx p,
  comps p <> [] -> removelast (wkey pfx p) = kp pfx ++ removelast (comps p).
Proof. intros pfx p H. apply removelast_app. exact H. Qed.

Lemma wkey_last : forall pfx p d, comps p <> [] -> last (wkey pfx p) d = last (comps p) d.
Proof. intros pfx p d H. apply last_app_ne. exact H. Qed.

Lemma wkey_removelast_prefix : forall pfx p,
  comps p <> [] -> key_prefixb (kp pfx) (removelast (wkey pfx p)) = true.
Proof. intros pfx p H. rewrite wkey_removelast by exact H. apply key_prefixb_app. Qed.

(** the parent of a view path, as a view path *)
Definition vparent (p : str) : str := kpath (removelast (comps p)).

Lemma vparent_abs_cleaned : forall p, is_abs p = true -> abs_cleaned (vparent p).
Proof.
  intros p Ha. apply kpath_good_abs_cleaned. apply good_key_removelast. apply good_key_comps. exact Ha.
Qed.

Lemma comps_vparent : forall p, is_abs p = true -> comps (vparent p) = removelast (comps p).
Proof.
  intros p Ha. apply comps_kpath_good. apply good_key_removelast. apply good_key_comps. exact Ha.
Qed.

Lemma wkey_vparent : forall pfx p,
  is_abs p = true -> comps p <> [] -> wkey pfx (vparent p) = removelast (wkey pfx p).
Proof.
  intros pfx p Ha Hne. unfold wkey at 1. rewrite (comps_vparent p Ha).
  symmetry. apply wkey_removelast. exact Hne.
Qed.

(** B1 *)
Lemma wpath_root : forall pfx, prefix_ok pfx -> wpath pfx s_root = pfx.
Proof. intros pfx H. unfold wpath. rewrite wkey_root. apply kpath_kp. exact H. Qed.

Lemma wpath_app : forall pfx p,
  prefix_ok pfx -> abs_cleaned p -> p <> s_root -> wpath pfx p = pfx ++ p.
Proof.
  intros pfx p Hp Hac Hne. unfold wpath, wkey, kpath. rewrite render_abs.
  assert (Hc : comps p <> []).
  { intro E. apply Hne. apply (abs_cleaned_comps_nil p Hac). exact E. }
  rewrite join_sep_app by (try exact Hc; apply kp_nonnil; exact Hp).
  rewrite (abs_cleaned_eq pfx (prefix_ok_abs_cleaned pfx Hp)) at 2.
  rewrite (abs_cleaned_eq p Hac) at 2. reflexivity.
Qed.

Lemma wpath_abs_cleaned : forall pfx p,
  prefix_ok pfx -> is_abs p = true -> abs_cleaned (wpath pfx p).
Proof. intros pfx p Hp Ha. apply kpath_good_abs_cleaned. apply wkey_good; assumption. Qed.

Lemma comps_wpath : forall pfx p,
  prefix_ok pfx -> is_abs p = true -> comps (wpath pfx p) = wkey pfx p.
Proof. intros pfx p Hp Ha. apply comps_kpath_good. apply wkey_good; assumption. Qed.

Lemma wpath_nonempty : forall pfx p, wpath pfx p <> [].
Proof. intros pfx p. unfold wpath, kpath. rewrite render_abs. discriminate. Qed.

Lemma wpath_eq_pfx_iff : forall pfx p,
  prefix_ok pfx -> abs_cleaned p -> (wpath pfx p = pfx <-> p = s_root).
Proof.
  intros pfx p Hp Hac. split.
  - intros E. apply (wkey_eq_kp_iff pfx p Hac).
    rewrite <- (comps_wpath pfx p Hp (proj2 Hac)). rewrite E. reflexivity.
  - intros E. subst p. apply wpath_root. exact Hp.
Qed.

Lemma wpath_inj : forall pfx p q,
  prefix_ok pfx -> abs_cleaned p -> abs_cleaned q -> wpath pfx p = wpath pfx q -> p = q.
Proof.
  intros pfx p q Hp Hac Hq E. apply (wkey_inj pfx p q Hac Hq).
  rewrite <- (comps_wpath pfx p Hp (proj2 Hac)), <- (comps_wpath pfx q Hp (proj2 Hq)), E. reflexivity.
Qed.

Lemma wpath_length : forall pfx p,
  prefix_ok pfx -> abs_cleaned p -> length (wpath pfx p) <= length pfx + length p.
Proof.
  intros pfx p Hp Hac. destruct (str_eq_dec p s_root) as [E|E].
  - subst p. rewrite wpath_root by exact Hp. lia.
  - rewrite wpath_app by assumption. rewrite app_length. lia.
Qed.

(** B2 *)
Lemma join2_wpath : forall pfx p,
  prefix_ok pfx -> is_abs p = true -> join2 pfx (clean p) = wpath pfx p.
Proof.
  intros pfx p Hp Ha. pose proof (prefix_ok_nonempty pfx Hp) as Hne.
  destruct Hp as [[Hc Hpa] Hnr].
  rewrite (cleaned_eq _ (cleaned_join2 pfx (clean p) Hne)).
  rewrite (is_abs_join2 pfx (clean p) Hne), Hpa.
  rewrite (comps_join2_abs pfx p Hc Hpa Ha). reflexivity.
Qed.

Lemma join2_wpath_cleaned : forall pfx p,
  prefix_ok pfx -> abs_cleaned p -> join2 pfx p = wpath pfx p.
Proof.
  intros pfx p Hp [Hc Ha]. rewrite <- (join2_wpath pfx p Hp Ha). rewrite Hc. reflexivity.
Qed.

Lemma prefix_path_wpath : forall pfx p,
  prefix_ok pfx -> is_abs p = true -> prefix_path pfx p = Some (wpath pfx p).
Proof.
  intros pfx p Hp Ha. rewrite <- (join2_wpath pfx p Hp Ha).
  destruct Hp as [[Hc Hpa] _]. apply prefix_path_abs_total; assumption.
Qed.

Lemma within_wpath : forall pfx p, prefix_ok pfx -> is_abs p = true -> within pfx (wpath pfx p).
Proof.
  intros pfx p Hp Ha. split.
  - rewrite (proj2 (wpath_abs_cleaned pfx p Hp Ha)). apply prefix_ok_is_abs. exact Hp.
  - exists (comps p). split; [apply comps_wpath; assumption | apply abs_comps_no_dotdot; exact Ha].
Qed.

(** B3 *)
Lemma base_app_sep : forall a c, c <> [] -> nosep c -> base (a ++ sep :: c) = c.
Proof.
  intros a c Hne Hns. unfold base.
  destruct (a ++ sep :: c) as [|x r] eqn:E; [destruct a; discriminate E|]. rewrite <- E. clear E x r.
  rewrite rev_app_distr. simpl rev. rewrite <- app_assoc. simpl app.
  assert (Hr : rev c <> []).
  { intro E. apply Hne. rewrite <- (rev_involutive c), E. reflexivity. }
  assert (Hnsr : nosep (rev c)).
  { intro H. apply in_rev in H. exact (Hns H). }
  destruct (rev c) as [|y rc] eqn:Erc; [contradiction|].
  apply nosep_cons in Hnsr. destruct Hnsr as [Hy Hrc].
  assert (Eys : N.eqb y sep = false) by (apply N.eqb_neq; exact Hy).
  assert (Ht : forall l tl, nosep l -> take_until_sep (l ++ sep :: tl) = l).
  { induction l as [|z l IH]; intros tl Hl; simpl.
    - reflexivity.
    - apply nosep_cons in Hl. destruct Hl as [Hz Hl].
      destruct (N.eqb_spec z sep) as [Ez|Ez]; [contradiction|]. rewrite IH by exact Hl. reflexivity. }
  simpl. rewrite Eys. simpl. rewrite Eys. rewrite (Ht rc (rev a) Hrc).
  rewrite <- Erc. apply rev_involutive.
Qed.

Lemma base_kpath : forall k, good_key k -> k <> [] -> base (kpath k) = last k [].
Proof.
  intros k [Hg _] Hne. rewrite <- (removelast_last_snoc _ k [] Hne) at 1.
  set (c := last k []).
  assert (Hc : good_comp c).
  { rewrite List.Forall_forall in Hg. apply Hg.
    rewrite <- (removelast_last_snoc _ k [] Hne). apply in_or_app. right. left. reflexivity. }
  destruct Hc as [Hc1 [_ Hc3]].
  unfold kpath. rewrite render_abs.
  destruct (removelast k) as [|x r] eqn:Er.
  - simpl. apply (base_app_sep [] c Hc1 Hc3).
  - rewrite join_sep_snoc by discriminate.
    apply (base_app_sep (sep :: join_sep (x :: r)) c Hc1 Hc3).
Qed.

Lemma base_abs_cleaned : forall p, abs_cleaned p -> p <> s_root -> base p = last (comps p) [].
Proof.
  intros p Hac Hne. rewrite <- (kpath_comps p Hac) at 1.
  apply base_kpath; [apply good_key_comps; exact (proj2 Hac)|].
  intro E. apply Hne. apply (abs_cleaned_comps_nil p Hac). exact E.
Qed.

Lemma base_wpath : forall pfx p,
  prefix_ok pfx -> abs_cleaned p -> p <> s_root -> base (wpath pfx p) = base p.
Proof.
  intros pfx p Hp Hac Hne.
  assert (Hc : comps p <> []).
  { intro E. apply Hne. apply (abs_cleaned_comps_nil p Hac). exact E. }
  unfold wpath. rewrite base_kpath; [| apply wkey_good; [exact Hp | exact (proj2 Hac)] | apply wkey_nonnil; exact Hp].
  rewrite (wkey_last pfx p [] Hc). symmetry. apply base_abs_cleaned; assumption.
Qed.

Lemma base_root : base s_root = s_root.
Proof. reflexivity. Qed.

Lemma info_name_wpath : forall pfx p,
  prefix_ok pfx -> abs_cleaned p ->
  prefix_info_reported_name pfx (wpath pfx p) (base (wpath pfx p)) = base p.
Proof.
  intros pfx p Hp Hac.
  pose proof (prefixfs_info_name_spec pfx (wpath pfx p) (proj1 (proj1 Hp)) (proj2 (proj1 Hp))
                (proj1 (wpath_abs_cleaned pfx p Hp (proj2 Hac))) (within_wpath pfx p Hp (proj2 Hac))) as E.
  unfold prefixfs_info_name in E. rewrite E. clear E.
  destruct (str_eqb (wpath pfx p) pfx) eqn:Eq.
  - apply str_eqb_eq in Eq. apply (wpath_eq_pfx_iff pfx p Hp Hac) in Eq. subst p. reflexivity.
  - apply base_wpath; try assumption. intro E. subst p.
    rewrite (wpath_root pfx Hp), str_eqb_refl in Eq. discriminate Eq.
Qed.

Lemma file_name_wpath : forall pfx p,
  prefix_ok pfx -> abs_cleaned p ->
  prefix_file_reported_name pfx (wpath pfx p) (wpath pfx p) = p.
Proof.
  intros pfx p Hp Hac.
  pose proof (wpath_abs_cleaned pfx p Hp (proj2 Hac)) as [Hwc Hwa].
  pose proof (prefixfs_file_name_spec_abs pfx (wpath pfx p) (comps p) (proj1 (proj1 Hp))
                (proj2 (proj1 Hp)) Hwc Hwa (comps_wpath pfx p Hp (proj2 Hac))) as E.
  unfold prefixfs_file_name in E. rewrite E. apply (kpath_comps p Hac).
Qed.

(** B4 *)
Lemma prefixes_from_kprefixes : forall k : key, [] :: prefixes_from [] k = kprefixes k ++ [k].
Proof.
  induction k as [|c r IH]; [reflexivity|].
  rewrite prefixes_from_nil_cons. simpl kprefixes. simpl app. f_equal.
  change ([c] :: map (cons c) (prefixes_from [] r)) with (map (cons c) ([] :: prefixes_from [] r)).
  rewrite IH, map_app. reflexivity.
Qed.

Lemma cands_kprefixes : forall p,
  abs_cleaned p -> cands p = map kpath (kprefixes (comps p)) ++ [p].
Proof.
  intros p Hac. destruct Hac as [Hc Ha].
  rewrite (cands_chain p Hc), chain_pchain, Ha, pchain_abs, prefixes_from_kprefixes, map_app.
  change (map kpath (kprefixes (comps p)) ++ [kpath (comps p)] =
          map kpath (kprefixes (comps p)) ++ [p]).
  rewrite (kpath_comps p (conj Hc Ha)). reflexivity.
Qed.

Lemma ancestors_kprefixes : forall p,
  abs_cleaned p -> ancestors p = map kpath (kprefixes (comps p)).
Proof.
  intros p Hac. unfold ancestors. rewrite (cands_kprefixes p Hac). apply removelast_last.
Qed.

Lemma ancestors_In : forall p a,
  abs_cleaned p ->
  (In a (ancestors p) <-> exists k', In k' (kprefixes (comps p)) /\ a = kpath k').
Proof.
  intros p a Hac. rewrite (ancestors_kprefixes p Hac), in_map_iff. split.
  - intros [k' [E H]]. exists k'. split; [exact H | symmetry; exact E].
  - intros [k' [H E]]. exists k'. split; [symmetry; exact E | exact H].
Qed.

Lemma kprefixes_good : forall k k', good_key k -> In k' (kprefixes k) -> good_key k'.
Proof.
  intros k k' Hk Hin. apply kprefixes_In in Hin. destruct Hin as [r [_ E]]. subst k.
  apply good_key_app in Hk. tauto.
Qed.

Lemma ancestors_abs_cleaned : forall p a, abs_cleaned p -> In a (ancestors p) -> abs_cleaned a.
Proof.
  intros p a Hac Hin. apply (ancestors_In p a Hac) in Hin. destruct Hin as [k' [Hk' E]]. subst a.
  apply kpath_good_abs_cleaned. eapply kprefixes_good; [|exact Hk'].
  apply good_key_comps. exact (proj2 Hac).
Qed.

(** the parent is the last ancestor *)
Lemma vparent_ancestor : forall p, abs_cleaned p -> p <> s_root -> In (vparent p) (ancestors p).
Proof.
  intros p Hac Hne. apply (ancestors_In p _ Hac). exists (removelast (comps p)). split; [|reflexivity].
  apply kprefixes_removelast_In. intro E. apply Hne. apply (abs_cleaned_comps_nil p Hac). exact E.
Qed.

Lemma vparent_ne : forall p, abs_cleaned p -> p <> s_root -> vparent p <> p.
Proof.
  intros p Hac Hne E.
  assert (Hc : comps p <> []).
  { intro E'. apply Hne. apply (abs_cleaned_comps_nil p Hac). exact E'. }
  apply (removelast_neq _ (comps p) Hc). rewrite <- (comps_vparent p (proj2 Hac)), E. reflexivity.
Qed.

(* ------------------------------------------------------------------ *)
(** * C. The view *)

(** ** C.0 [vnode] *)

Lemma vnode_meta : forall pfx n, node_meta (vnode pfx n) = node_meta n.
Proof. intros pfx [m|m c|m t]; reflexivity. Qed.

Lemma vnode_kind : forall pfx n, node_kind (vnode pfx n) = node_kind n.
Proof. intros pfx [m|m c|m t]; reflexivity. Qed.

Lemma vnode_dir : forall pfx m, vnode pfx (Dir m) = Dir m.
Proof. reflexivity. Qed.

Lemma vnode_file : forall pfx m c, vnode pfx (File m c) = File m c.
Proof. reflexivity. Qed.

Lemma vnode_link : forall pfx m t, vnode pfx (Link m t) = Link m (vtarget pfx t).
Proof. reflexivity. Qed.

Lemma vnode_dir_inv : forall pfx n m, vnode pfx n = Dir m -> n = Dir m.
Proof. intros pfx [m'|m' c|m' t] m H; simpl in H; try discriminate H. exact H. Qed.

Lemma vnode_file_inv : forall pfx n m c, vnode pfx n = File m c -> n = File m c.
Proof. intros pfx [m'|m' c'|m' t] m c H; simpl in H; try discriminate H. exact H. Qed.

Lemma vnode_link_inv : forall pfx n m t,
  vnode pfx n = Link m t -> exists t0, n = Link m t0 /\ t = vtarget pfx t0.
Proof.
  intros pfx [m'|m' c'|m' t'] m t H; simpl in H; try discriminate H.
  injection H as E1 E2. subst. exists t'. split; reflexivity.
Qed.

Lemma vnode_perm12 : forall pfx n, perm12 (vnode pfx n) <-> perm12 n.
Proof. intros pfx n. unfold perm12. rewrite vnode_meta. tauto. Qed.

Lemma vnode_set_meta : forall pfx n m, vnode pfx (set_meta n m) = set_meta (vnode pfx n) m.
Proof. intros pfx [m'|m' c|m' t] m; reflexivity. Qed.

Lemma vnode_with_meta : forall pfx n g, vnode pfx (with_meta n g) = with_meta (vnode pfx n) g.
Proof. intros pfx n g. unfold with_meta. rewrite vnode_set_meta, vnode_meta. reflexivity. Qed.

Lemma vnode_chown_node : forall pfx n u g,
  vnode pfx (chown_node n u g) = chown_node (vnode pfx n) u g.
Proof. intros pfx [m'|m' c|m' t] u g; reflexivity. Qed.

Lemma vnode_is_dir : forall pfx n, is_dir (vnode pfx n) = is_dir n.
Proof. intros pfx [m|m c|m t]; reflexivity. Qed.

Lemma vnode_is_link : forall pfx n, is_link (vnode pfx n) <-> is_link n.
Proof.
  intros pfx n. unfold is_link. split.
  - intros [m [t H]]. apply vnode_link_inv in H. destruct H as [t0 [H _]]. exists m, t0. exact H.
  - intros [m [t H]]. subst n. exists m, (vtarget pfx t). reflexivity.
Qed.

Lemma info_matches_vnode : forall pfx fi n, info_matches fi (vnode pfx n) <-> info_matches fi n.
Proof. intros pfx fi n. unfold info_matches. rewrite vnode_kind, vnode_meta. tauto. Qed.

(** node equivalence of the world (directories up to mtime) gives view equivalence *)
Lemma meta_eq_nomt_refl : forall m, meta_eq_nomt m m.
Proof. intros m. repeat split. Qed.

Lemma snode_eqv_refl : forall n, snode_eqv n n.
Proof.
  intros [m|m c|m t]; simpl; [apply meta_eq_nomt_refl | split; reflexivity |
                               split; [apply meta_eq_nomt_refl | reflexivity]].
Qed.

Lemma sonode_eqv_refl : forall o, sonode_eqv o o.
Proof. intros [n|]; simpl; [apply snode_eqv_refl | exact I]. Qed.

Lemma node_eqv_refl : forall n, node_eqv n n.
Proof. intros [m|m c|m t]; simpl; [apply meta_eq_nomt_refl | reflexivity | reflexivity]. Qed.

Lemma onode_eqv_refl : forall o, onode_eqv o o.
Proof. intros [n|]; simpl; [apply node_eqv_refl | exact I]. Qed.

Lemma node_eqv_vnode : forall pfx a b, node_eqv a b -> snode_eqv (vnode pfx a) (vnode pfx b).
Proof.
  intros pfx a b H. destruct a as [ma|ma ca|ma ta], b as [mb|mb cb|mb tb]; simpl in H; try discriminate H.
  - exact H.
  - injection H as E1 E2. subst. apply snode_eqv_refl.
  - injection H as E1 E2. subst. apply snode_eqv_refl.
Qed.

Lemma onode_eqv_vnode : forall pfx a b,
  onode_eqv a b -> sonode_eqv (option_map (vnode pfx) a) (option_map (vnode pfx) b).
Proof.
  intros pfx [a|] [b|] H; simpl in *; try exact H. apply node_eqv_vnode. exact H.
Qed.

(** ** C.1 lookup in the view *)

Lemma NoDup_fst_omap : forall (A B C D : Type) (g : A * B -> option (C * D)) (l : list (A * B)),
  base.NoDup l.*1 ->
  (forall kv kv' y y', kv ∈ l -> kv' ∈ l -> g kv = Some y -> g kv' = Some y' ->
                       y.1 = y'.1 -> kv.1 = kv'.1) ->
  base.NoDup (omap g l).*1.
Proof.
  intros A B C D g l. induction l as [|kv l IH]; intros Hnd Hinj.
  - simpl. constructor.
  - simpl in Hnd. apply list.NoDup_cons in Hnd. destruct Hnd as [Hnin Hnd].
    assert (IH' : base.NoDup (omap g l).*1).
    { apply IH; [exact Hnd|]. intros kv1 kv2 y y' H1 H2.
      apply Hinj; apply elem_of_list_further; assumption. }
    simpl. destruct (g kv) as [y|] eqn:Eg; [|exact IH'].
    simpl. apply list.NoDup_cons. split; [|exact IH'].
    intros Hin. apply elem_of_list_fmap in Hin. destruct Hin as [y' [Ey Hy']].
    apply elem_of_list_omap in Hy'. destruct Hy' as [kv' [Hkv' Eg']].
    apply Hnin. apply elem_of_list_fmap. exists kv'. split; [|exact Hkv'].
    apply (Hinj kv kv' y y'); [apply elem_of_list_here | apply elem_of_list_further; exact Hkv'
                               | exact Eg | exact Eg' | exact Ey].
Qed.

Lemma view_entry_Some : forall pfx k nd p n,
  view_entry pfx (k, nd) = Some (p, n) <->
  exists r, k = kp pfx ++ r /\ p = kpath r /\ n = vnode pfx nd.
Proof.
  intros pfx k nd p n. unfold view_entry. simpl fst. simpl snd. split.
  - destruct (key_prefixb (kp pfx) k) eqn:E; [|intro H; discriminate H].
    intro H. injection H as E1 E2. apply key_prefixb_iff in E. destruct E as [r E]. subst k.
    rewrite skipn_length_app in E1. exists r. split; [reflexivity | split; symmetry; assumption].
  - intros [r [E1 [E2 E3]]]. subst. rewrite key_prefixb_app, skipn_length_app. reflexivity.
Qed.

Lemma view_NoDup : forall pfx (f : fs),
  keys_good f -> base.NoDup (omap (view_entry pfx) (entries f)).*1.
Proof.
  intros pfx f Hg. unfold entries. change (gmap_to_list f) with (map_to_list f).
  apply NoDup_fst_omap; [apply NoDup_fst_map_to_list|].
  intros [k nd] [k' nd'] [p n] [p' n'] H1 H2 E1 E2 Ep. simpl in Ep. subst p'. simpl.
  apply elem_of_map_to_list in H1. apply elem_of_map_to_list in H2.
  apply view_entry_Some in E1. destruct E1 as [r [Ek [Er _]]].
  apply view_entry_Some in E2. destruct E2 as [r' [Ek' [Er' _]]].
  pose proof (Hg k nd H1) as G. pose proof (Hg k' nd' H2) as G'. subst k k'.
  apply good_key_app in G. apply good_key_app in G'.
  f_equal. apply kpath_inj_good; [tauto | tauto | congruence].
Qed.

(** the entries of the view, exactly *)
Lemma view_lookup_Some : forall pfx (f : fs) p n,
  keys_good f ->
  (view_of pfx f !! p = Some n <->
   exists r nd, f !! (kp pfx ++ r) = Some nd /\ p = kpath r /\ n = vnode pfx nd).
Proof.
  intros pfx f p n Hg. unfold view_of.
  rewrite <- (elem_of_list_to_map (omap (view_entry pfx) (entries f)) p n (view_NoDup pfx f Hg)).
  rewrite elem_of_list_omap. split.
  - intros [[k nd] [Hin E]]. apply view_entry_Some in E. destruct E as [r [Ek [Ep En]]]. subst k.
    exists r, nd. split; [|split; assumption].
    apply entries_In. apply In_elem_of. exact Hin.
  - intros [r [nd [Hl [Ep En]]]]. exists (kp pfx ++ r, nd). split.
    + apply In_elem_of. apply entries_In. exact Hl.
    + apply view_entry_Some. exists r. split; [reflexivity | split; assumption].
Qed.

(** C1 *)
Lemma view_lookup_ac : forall pfx (f : fs) p,
  keys_good f -> abs_cleaned p ->
  view_of pfx f !! p = option_map (vnode pfx) (f !! wkey pfx p).
Proof.
  intros pfx f p Hg Hac. destruct (f !! wkey pfx p) as [nd|] eqn:E; simpl.
  - apply (view_lookup_Some pfx f p _ Hg). exists (comps p), nd.
    split; [exact E | split; [symmetry; apply kpath_comps; exact Hac | reflexivity]].
  - destruct (view_of pfx f !! p) as [n|] eqn:Ev; [|reflexivity]. exfalso.
    apply (view_lookup_Some pfx f p n Hg) in Ev. destruct Ev as [r [nd [Hl [Ep _]]]].
    pose proof (Hg _ _ Hl) as G. apply good_key_app in G. destruct G as [_ G].
    assert (Er : comps p = r) by (rewrite Ep; apply comps_kpath_good; exact G).
    unfold wkey in E. rewrite Er in E. norm_keys. congruence.
Qed.

Lemma view_lookup : forall pfx (f : fs) p,
  world_okb pfx f = true -> abs_cleaned p ->
  view_of pfx f !! p = option_map (vnode pfx) (f !! wkey pfx p).
Proof. intros pfx f p H. apply view_lookup_ac. exact (world_okb_keys_good _ _ H). Qed.

Lemma view_key_abs_cleaned_gk : forall pfx (f : fs) p n,
  keys_good f -> view_of pfx f !! p = Some n -> abs_cleaned p.
Proof.
  intros pfx f p n Hg H. apply (view_lookup_Some pfx f p n Hg) in H.
  destruct H as [r [nd [Hl [Ep _]]]]. subst p. apply kpath_good_abs_cleaned.
  pose proof (Hg _ _ Hl) as G. apply good_key_app in G. tauto.
Qed.

Lemma view_key_abs_cleaned : forall pfx (f : fs) p n,
  world_okb pfx f = true -> view_of pfx f !! p = Some n -> abs_cleaned p.
Proof. intros pfx f p n H. apply view_key_abs_cleaned_gk. exact (world_okb_keys_good _ _ H). Qed.

Lemma view_lookup_not_ac : forall pfx (f : fs) p,
  keys_good f -> ~ abs_cleaned p -> view_of pfx f !! p = None.
Proof.
  intros pfx f p Hg Hn. destruct (view_of pfx f !! p) as [n|] eqn:E; [|reflexivity].
  exfalso. apply Hn. exact (view_key_abs_cleaned_gk pfx f p n Hg E).
Qed.

(** inversion forms *)
Lemma view_lookup_Some_inv : forall pfx (f : fs) p n,
  world_okb pfx f = true -> view_of pfx f !! p = Some n ->
  abs_cleaned p /\ exists nd, f !! wkey pfx p = Some nd /\ n = vnode pfx nd.
Proof.
  intros pfx f p n H Hv. pose proof (view_key_abs_cleaned pfx f p n H Hv) as Hac.
  split; [exact Hac|]. rewrite (view_lookup pfx f p H Hac) in Hv.
  destruct (f !! wkey pfx p) as [nd|]; [|discriminate Hv]. simpl in Hv. injection Hv as E.
  exists nd. split; [reflexivity | symmetry; exact E].
Qed.

Lemma view_lookup_None_inv : forall pfx (f : fs) p,
  world_okb pfx f = true -> abs_cleaned p -> view_of pfx f !! p = None -> f !! wkey pfx p = None.
Proof.
  intros pfx f p H Hac Hv. rewrite (view_lookup pfx f p H Hac) in Hv.
  destruct (f !! wkey pfx p); [discriminate Hv | reflexivity].
Qed.

(** ** C.2 [Vp] *)

Lemma Vp_ok : forall pfx w,
  world_okb pfx (st_fs (w_st w)) = true -> Vp pfx w = view_of pfx (st_fs (w_st w)).
Proof. intros pfx w H. unfold Vp. rewrite H. reflexivity. Qed.

Lemma Vp_not_ok : forall pfx w, world_okb pfx (st_fs (w_st w)) = false -> Vp pfx w = ∅.
Proof. intros pfx w H. unfold Vp. rewrite H. reflexivity. Qed.

Lemma Vp_st : forall pfx w w', w_st w' = w_st w -> Vp pfx w' = Vp pfx w.
Proof. intros pfx w w' E. unfold Vp. rewrite E. reflexivity. Qed.

Lemma Vp_lookup : forall pfx w p,
  world_okb pfx (st_fs (w_st w)) = true -> abs_cleaned p ->
  Vp pfx w !! p = option_map (vnode pfx) (st_fs (w_st w) !! wkey pfx p).
Proof. intros pfx w p H Hac. rewrite (Vp_ok pfx w H). apply view_lookup; assumption. Qed.

Lemma swf_not_empty : ~ swf (∅ : store).
Proof. intros [[m H] _]. rewrite lookup_empty in H. discriminate H. Qed.

Lemma swf_Vp_world_okb : forall pfx w, swf (Vp pfx w) -> world_okb pfx (st_fs (w_st w)) = true.
Proof.
  intros pfx w H. destruct (world_okb pfx (st_fs (w_st w))) eqn:E; [reflexivity|].
  rewrite (Vp_not_ok pfx w E) in H. exfalso. exact (swf_not_empty H).
Qed.

Lemma Vp_lookup_Some_ok : forall pfx w p n,
  Vp pfx w !! p = Some n -> world_okb pfx (st_fs (w_st w)) = true.
Proof.
  intros pfx w p n H. destruct (world_okb pfx (st_fs (w_st w))) eqn:E; [reflexivity|].
  rewrite (Vp_not_ok pfx w E), lookup_empty in H. discriminate H.
Qed.

Lemma Vp_lookup_Some_inv : forall pfx w p n,
  Vp pfx w !! p = Some n ->
  world_okb pfx (st_fs (w_st w)) = true /\ abs_cleaned p /\
  exists nd, st_fs (w_st w) !! wkey pfx p = Some nd /\ n = vnode pfx nd.
Proof.
  intros pfx w p n H. pose proof (Vp_lookup_Some_ok pfx w p n H) as Hok.
  split; [exact Hok|]. rewrite (Vp_ok pfx w Hok) in H. exact (view_lookup_Some_inv pfx _ p n Hok H).
Qed.

(** ** C.3 bridging predicates *)

Lemma sdir_view : forall pfx (f : fs) a,
  keys_good f -> abs_cleaned a ->
  (sdir (view_of pfx f) a <-> is_dir_at f (wkey pfx a)).
Proof.
  intros pfx f a Hg Hac. unfold sdir, is_dir_at. rewrite (view_lookup_ac pfx f a Hg Hac). split.
  - intros [m H]. destruct (f !! wkey pfx a) as [nd|]; [|discriminate H]. simpl in H.
    injection H as H. apply vnode_dir_inv in H. subst nd. exists m. reflexivity.
  - intros [m H]. rewrite H. exists m. reflexivity.
Qed.

Lemma snotlink_view : forall pfx (f : fs) a,
  keys_good f -> abs_cleaned a ->
  (snotlink (view_of pfx f) a <-> not_link_at f (wkey pfx a)).
Proof.
  intros pfx f a Hg Hac. unfold snotlink, not_link_at. rewrite (view_lookup_ac pfx f a Hg Hac). split.
  - intros H m t E. rewrite E in H. exact (H m (vtarget pfx t) eq_refl).
  - intros H m t E. destruct (f !! wkey pfx a) as [nd|]; [|discriminate E]. simpl in E.
    injection E as E. apply vnode_link_inv in E. destruct E as [t0 [E _]]. subst nd.
    exact (H m t0 eq_refl).
Qed.

(** a path that is not resolved is not in the view at all *)
Lemma snotlink_view_not_ac : forall pfx (f : fs) a,
  keys_good f -> ~ abs_cleaned a -> snotlink (view_of pfx f) a.
Proof.
  intros pfx f a Hg Hn m t E. rewrite (view_lookup_not_ac pfx f a Hg Hn) in E. discriminate E.
Qed.

Lemma Forall_ancestors : forall (P : str -> Prop) p,
  abs_cleaned p ->
  (Forall P (ancestors p) <-> forall k', In k' (kprefixes (comps p)) -> P (kpath k')).
Proof.
  intros P p Hac. rewrite List.Forall_forall. split.
  - intros H k' Hk'. apply H. apply (ancestors_In p _ Hac). exists k'. split; [exact Hk' | reflexivity].
  - intros H a Ha. apply (ancestors_In p a Hac) in Ha. destruct Ha as [k' [Hk' E]]. subst a. exact (H k' Hk').
Qed.

Lemma Forall_kprefixes_wkey : forall (P : key -> Prop) pfx p,
  Forall P (kprefixes (wkey pfx p)) <->
  Forall P (kprefixes (kp pfx)) /\ forall k', In k' (kprefixes (comps p)) -> P (kp pfx ++ k').
Proof.
  intros P pfx p. unfold wkey. rewrite kprefixes_app, List.Forall_app.
  assert (H : Forall P (map (app (kp pfx)) (kprefixes (comps p))) <->
              forall k', In k' (kprefixes (comps p)) -> P (kp pfx ++ k')).
  { rewrite List.Forall_forall. split.
    - intros H k' Hk'. apply H. apply in_map_iff. exists k'. split; [reflexivity | exact Hk'].
    - intros H x Hx. apply in_map_iff in Hx. destruct Hx as [k' [E Hk']]. subst x. exact (H k' Hk'). }
  rewrite H. tauto.
Qed.

Lemma wkey_kpath_prefix : forall pfx p k',
  is_abs p = true -> In k' (kprefixes (comps p)) -> wkey pfx (kpath k') = kp pfx ++ k'.
Proof.
  intros pfx p k' Ha Hk'. unfold wkey. rewrite comps_kpath_good; [reflexivity|].
  eapply kprefixes_good; [|exact Hk']. apply good_key_comps. exact Ha.
Qed.

Lemma sdirect_view : forall pfx (f : fs) p,
  prefix_ok pfx -> world_okb pfx f = true -> abs_cleaned p ->
  (sdirect (view_of pfx f) p <-> direct f (wpath pfx p)).
Proof.
  intros pfx f p Hp Hok Hac. pose proof (world_okb_keys_good _ _ Hok) as Hg.
  unfold sdirect, direct. rewrite (comps_wpath pfx p Hp (proj2 Hac)).
  rewrite (Forall_ancestors _ p Hac), Forall_kprefixes_wkey.
  assert (Hpre : Forall (is_dir_at f) (kprefixes (kp pfx))).
  { apply wf_prefix_dirs; [exact (world_okb_wf _ _ Hok) | exact (world_okb_prefix_dir _ _ Hok)]. }
  pose proof (wpath_abs_cleaned pfx p Hp (proj2 Hac)) as Hwac.
  assert (Heq : forall k', In k' (kprefixes (comps p)) ->
                (sdir (view_of pfx f) (kpath k') <-> is_dir_at f (kp pfx ++ k'))).
  { intros k' Hk'. rewrite <- (wkey_kpath_prefix pfx p k' (proj2 Hac) Hk').
    apply sdir_view; [exact Hg|]. apply kpath_good_abs_cleaned.
    eapply kprefixes_good; [|exact Hk']. apply good_key_comps. exact (proj2 Hac). }
  split.
  - intros [_ H]. split; [exact Hwac|]. split; [exact Hpre|].
    intros k' Hk'. apply (Heq k' Hk'). exact (H k' Hk').
  - intros [_ [_ H]]. split; [exact Hac|]. intros k' Hk'. apply (Heq k' Hk'). exact (H k' Hk').
Qed.

Lemma snolinkpar_view : forall pfx (f : fs) p,
  prefix_ok pfx -> world_okb pfx f = true -> abs_cleaned p ->
  (snolinkpar (view_of pfx f) p <-> nolinkpar f (wpath pfx p)).
Proof.
  intros pfx f p Hp Hok Hac. pose proof (world_okb_keys_good _ _ Hok) as Hg.
  unfold snolinkpar, nolinkpar. rewrite (comps_wpath pfx p Hp (proj2 Hac)).
  rewrite (Forall_ancestors _ p Hac), Forall_kprefixes_wkey.
  assert (Hpre : Forall (not_link_at f) (kprefixes (kp pfx))).
  { eapply List.Forall_impl; [intros k Hk; apply is_dir_not_link; exact Hk|].
    apply wf_prefix_dirs; [exact (world_okb_wf _ _ Hok) | exact (world_okb_prefix_dir _ _ Hok)]. }
  pose proof (wpath_abs_cleaned pfx p Hp (proj2 Hac)) as Hwac.
  assert (Heq : forall k', In k' (kprefixes (comps p)) ->
                (snotlink (view_of pfx f) (kpath k') <-> not_link_at f (kp pfx ++ k'))).
  { intros k' Hk'. rewrite <- (wkey_kpath_prefix pfx p k' (proj2 Hac) Hk').
    apply snotlink_view; [exact Hg|]. apply kpath_good_abs_cleaned.
    eapply kprefixes_good; [|exact Hk']. apply good_key_comps. exact (proj2 Hac). }
  split.
  - intros [_ H]. split; [exact Hwac|]. split; [exact Hpre|].
    intros k' Hk'. apply (Heq k' Hk'). exact (H k' Hk').
  - intros [_ [_ H]]. split; [exact Hac|]. intros k' Hk'. apply (Heq k' Hk'). exact (H k' Hk').
Qed.

(** the [Vp] forms (the hypotheses of the laws) *)
Lemma sdir_Vp : forall pfx w a,
  world_okb pfx (st_fs (w_st w)) = true -> abs_cleaned a ->
  (sdir (Vp pfx w) a <-> is_dir_at (st_fs (w_st w)) (wkey pfx a)).
Proof.
  intros pfx w a H Hac. rewrite (Vp_ok pfx w H). apply sdir_view; [|exact Hac].
  exact (world_okb_keys_good _ _ H).
Qed.

Lemma snotlink_Vp : forall pfx w a,
  world_okb pfx (st_fs (w_st w)) = true -> abs_cleaned a ->
  (snotlink (Vp pfx w) a <-> not_link_at (st_fs (w_st w)) (wkey pfx a)).
Proof.
  intros pfx w a H Hac. rewrite (Vp_ok pfx w H). apply snotlink_view; [|exact Hac].
  exact (world_okb_keys_good _ _ H).
Qed.

Lemma sdirect_Vp : forall pfx w p,
  prefix_ok pfx -> world_okb pfx (st_fs (w_st w)) = true -> sdirect (Vp pfx w) p ->
  abs_cleaned p /\ direct (st_fs (w_st w)) (wpath pfx p).
Proof.
  intros pfx w p Hp H Hd. pose proof (proj1 Hd) as Hac. split; [exact Hac|].
  rewrite (Vp_ok pfx w H) in Hd. apply (sdirect_view pfx _ p Hp H Hac). exact Hd.
Qed.

Lemma snolinkpar_Vp : forall pfx w p,
  prefix_ok pfx -> world_okb pfx (st_fs (w_st w)) = true -> snolinkpar (Vp pfx w) p ->
  abs_cleaned p /\ nolinkpar (st_fs (w_st w)) (wpath pfx p).
Proof.
  intros pfx w p Hp H Hd. pose proof (proj1 Hd) as Hac. split; [exact Hac|].
  rewrite (Vp_ok pfx w H) in Hd. apply (snolinkpar_view pfx _ p Hp H Hac). exact Hd.
Qed.

(** a present entry is addressable directly *)
Lemma present_direct : forall pfx (f : fs) p n,
  prefix_ok pfx -> world_okb pfx f = true -> is_abs p = true ->
  f !! wkey pfx p = Some n -> direct f (wpath pfx p).
Proof.
  intros pfx f p n Hp Hok Ha Hl. apply (wf_present_direct f (wpath pfx p) n).
  - exact (world_okb_wf _ _ Hok).
  - apply wpath_abs_cleaned; assumption.
  - rewrite (comps_wpath pfx p Hp Ha). exact Hl.
Qed.

(** under [snolinkpar], an entry that is not addressable directly is absent *)
Lemma nolinkpar_direct_or_absent : forall pfx (f : fs) p,
  prefix_ok pfx -> world_okb pfx f = true -> is_abs p = true ->
  direct f (wpath pfx p) \/ (~ direct f (wpath pfx p) /\ f !! wkey pfx p = None).
Proof.
  intros pfx f p Hp Hok Ha.
  destruct (direct_decidable f (wpath pfx p) (wpath_abs_cleaned pfx p Hp Ha)) as [H|H]; [left; exact H|].
  right. split; [exact H|]. destruct (f !! wkey pfx p) as [n|] eqn:E; [|reflexivity].
  exfalso. apply H. exact (present_direct pfx f p n Hp Hok Ha E).
Qed.

(** ** C.4 the view of a good world is well formed *)

Lemma swf_view : forall pfx (f : fs),
  prefix_ok pfx -> world_okb pfx f = true -> swf (view_of pfx f).
Proof.
  intros pfx f Hp Hok. pose proof (world_okb_keys_good _ _ Hok) as Hg. split.
  - apply (sdir_view pfx f s_root Hg abs_cleaned_root_ac). rewrite wkey_root.
    exact (world_okb_prefix_dir _ _ Hok).
  - intros p n Hv. destruct (view_lookup_Some_inv pfx f p n Hok Hv) as [Hac [nd [Hl En]]]. split.
    + apply (sdirect_view pfx f p Hp Hok Hac). exact (present_direct pfx f p nd Hp Hok (proj2 Hac) Hl).
    + subst n. apply vnode_perm12. exact (world_okb_perm12 pfx f _ nd Hok Hl).
Qed.

Lemma swf_Vp_iff : forall pfx w,
  prefix_ok pfx -> (swf (Vp pfx w) <-> world_okb pfx (st_fs (w_st w)) = true).
Proof.
  intros pfx w Hp. split; [apply swf_Vp_world_okb|].
  intros H. rewrite (Vp_ok pfx w H). apply swf_view; assumption.
Qed.

(* ------------------------------------------------------------------ *)
(** ** C.5 frames *)

Lemma abs_cleaned_dec : forall p, abs_cleaned p \/ ~ abs_cleaned p.
Proof.
  intros p. unfold abs_cleaned, cleaned. destruct (str_eq_dec (clean p) p) as [E|E].
  - destruct (is_abs p); [left; split; [exact E | reflexivity] | right; intros [_ H]; discriminate H].
  - right. intros [H _]. exact (E H).
Qed.

Lemma keys_good_insert : forall (f : fs) k n, keys_good f -> good_key k -> keys_good (<[k := n]> f).
Proof.
  intros f k n Hg Hk k' n' H. destruct (list_eq_dec str_eq_dec k' k) as [E|E].
  - subst k'. exact Hk.
  - rewrite lookup_insert_ne in H by congruence. exact (Hg k' n' H).
Qed.

Lemma keys_good_delete : forall (f : fs) k, keys_good f -> keys_good (base.delete k f).
Proof.
  intros f k Hg k' n' H. apply lookup_delete_Some in H. destruct H as [_ H]. exact (Hg k' n' H).
Qed.

(** the view depends only on the keys below the prefix directory *)
Lemma view_of_agree : forall pfx (f f' : fs),
  keys_good f -> keys_good f' ->
  (forall k, key_prefixb (kp pfx) k = true -> f' !! k = f !! k) ->
  view_of pfx f' = view_of pfx f.
Proof.
  intros pfx f f' Hg Hg' Hag. apply map_eq. intros p. apply option_eq. intros n.
  rewrite (view_lookup_Some pfx f' p n Hg'), (view_lookup_Some pfx f p n Hg).
  split; intros [r [nd [Hl H]]]; exists r, nd; (split; [|exact H]).
  - rewrite <- Hl. symmetry. apply Hag. apply key_prefixb_app.
  - rewrite <- Hl. apply Hag. apply key_prefixb_app.
Qed.

(** [f'] agrees with [f] on every key that is not at or below the directory of [pa] *)
Definition same_outside (pa : str) (f' f : fs) : Prop :=
  forall k, key_prefixb (kp pa) k = false -> f' !! k = f !! k.

Lemma same_outside_refl : forall pa f, same_outside pa f f.
Proof. intros pa f k _. reflexivity. Qed.

Lemma same_outside_trans : forall pa f1 f2 f3,
  same_outside pa f1 f2 -> same_outside pa f2 f3 -> same_outside pa f1 f3.
Proof. intros pa f1 f2 f3 H1 H2 k Hk. rewrite (H1 k Hk). exact (H2 k Hk). Qed.

Lemma disjoint_prefixes_sym : forall pa pb, disjoint_prefixes pa pb -> disjoint_prefixes pb pa.
Proof. intros pa pb [H1 H2]. split; assumption. Qed.

Lemma disjoint_prefix_key : forall pa pb k,
  disjoint_prefixes pa pb -> key_prefixb (kp pb) k = true -> key_prefixb (kp pa) k = false.
Proof.
  intros pa pb k [H1 H2] Hb. apply key_prefixb_false_iff. intros [ra Ea].
  apply key_prefixb_iff in Hb. destruct Hb as [rb Eb]. rewrite Ea in Eb.
  destruct (app_eq_app_prefix _ _ _ _ _ Eb) as [[x Hx]|[x Hx]].
  - apply key_prefixb_false_iff in H1. apply H1. exists x. exact Hx.
  - apply key_prefixb_false_iff in H2. apply H2. exists x. exact Hx.
Qed.

Lemma disjoint_prefix_kp : forall pa pb,
  disjoint_prefixes pa pb -> key_prefixb (kp pa) (kp pb) = false.
Proof. intros pa pb H. apply (disjoint_prefix_key pa pb _ H). apply key_prefixb_refl. Qed.

Lemma view_frame : forall pa pb (f f' : fs),
  disjoint_prefixes pa pb -> keys_good f -> keys_good f' -> same_outside pa f' f ->
  view_of pb f' = view_of pb f.
Proof.
  intros pa pb f f' Hd Hg Hg' Hso. apply view_of_agree; try assumption.
  intros k Hk. apply Hso. exact (disjoint_prefix_key pa pb k Hd Hk).
Qed.

Lemma world_okb_is_dirb : forall pa pb f, world_okb pa f = true -> world_okb pb f = is_dirb f (kp pb).
Proof.
  intros pa pb f H. destruct (is_dirb f (kp pb)) eqn:E.
  - apply (world_okb_other pa pb f H). apply is_dirb_spec. exact E.
  - destruct (world_okb pb f) eqn:E'; [|reflexivity].
    apply world_okb_prefix_dir in E'. apply is_dirb_spec in E'. congruence.
Qed.

(** C5: a change below [pa] does not show in the view of a disjoint prefix *)
Lemma Vp_frame : forall pa pb w w',
  disjoint_prefixes pa pb ->
  world_okb pa (st_fs (w_st w)) = true -> world_okb pa (st_fs (w_st w')) = true ->
  same_outside pa (st_fs (w_st w')) (st_fs (w_st w)) ->
  Vp pb w' = Vp pb w.
Proof.
  intros pa pb w w' Hd H H' Hso. unfold Vp.
  rewrite (world_okb_is_dirb pa pb _ H), (world_okb_is_dirb pa pb _ H').
  unfold is_dirb. rewrite (Hso _ (disjoint_prefix_kp pa pb Hd)).
  destruct (st_fs (w_st w) !! kp pb) as [[m|m c|m t]|]; try reflexivity.
  apply (view_frame pa pb); try assumption; eapply world_okb_keys_good; eassumption.
Qed.

(** the three state changes at a key below [kp pa] *)
Lemma same_outside_update_node : forall pa s k n,
  key_prefixb (kp pa) k = true -> same_outside pa (st_fs (update_node s k n)) (st_fs s).
Proof.
  intros pa s k n Hk k' Hk'. apply update_node_lookup_ne. intro E. subst k'. congruence.
Qed.

Lemma same_outside_add_entry : forall pa s par name mk,
  key_prefixb (kp pa) par = true ->
  same_outside pa (st_fs (add_entry s par name mk)) (st_fs s).
Proof.
  intros pa s par name mk Hk k' Hk'. apply add_entry_lookup_other.
  - intro E. subst k'. apply key_prefixb_iff in Hk. destruct Hk as [r Hr].
    rewrite Hr, <- app_assoc, key_prefixb_app in Hk'. discriminate Hk'.
  - intro E. subst k'. congruence.
Qed.

Lemma same_outside_remove_entry : forall pa s k,
  key_prefixb (kp pa) (removelast k) = true -> k <> [] ->
  same_outside pa (st_fs (remove_entry s k)) (st_fs s).
Proof.
  intros pa s k Hk Hne k' Hk'. apply remove_entry_lookup_other.
  - intro E. subst k'. apply key_prefixb_iff in Hk. destruct Hk as [r Hr].
    rewrite <- (removelast_last_snoc _ k [] Hne), Hr, <- app_assoc, key_prefixb_app in Hk'.
    discriminate Hk'.
  - intro E. subst k'. congruence.
Qed.

Lemma same_outside_touch_dir : forall pa (f : fs) k t,
  key_prefixb (kp pa) k = true -> same_outside pa (touch_dir f k t) f.
Proof.
  intros pa f k t Hk k' Hk'. apply touch_dir_lookup_ne. intro E. subst k'. congruence.
Qed.

Lemma same_outside_delete_subtree : forall pa (f : fs) k,
  key_prefixb (kp pa) k = true -> same_outside pa (delete_subtree f k) f.
Proof.
  intros pa f k Hk k' Hk'. rewrite delete_subtree_lookup.
  destruct (key_prefixb k k') eqn:E; [|reflexivity]. exfalso.
  apply key_prefixb_iff in Hk. destruct Hk as [r Hr]. apply key_prefixb_iff in E. destruct E as [r' Hr'].
  rewrite Hr', Hr, <- app_assoc, key_prefixb_app in Hk'. discriminate Hk'.
Qed.

(** in terms of view paths *)
Lemma same_outside_update_node_wkey : forall pa s p n,
  same_outside pa (st_fs (update_node s (wkey pa p) n)) (st_fs s).
Proof. intros pa s p n. apply same_outside_update_node. apply wkey_prefix. Qed.

Lemma same_outside_add_entry_wkey : forall pa s p mk,
  comps p <> [] ->
  same_outside pa (st_fs (add_entry s (removelast (wkey pa p)) (last (wkey pa p) []) mk)) (st_fs s).
Proof. intros pa s p mk H. apply same_outside_add_entry. apply wkey_removelast_prefix. exact H. Qed.

Lemma same_outside_remove_entry_wkey : forall pa s p,
  comps p <> [] -> same_outside pa (st_fs (remove_entry s (wkey pa p))) (st_fs s).
Proof.
  intros pa s p H. apply same_outside_remove_entry; [apply wkey_removelast_prefix; exact H|].
  intro E. apply app_eq_nil in E. destruct E as [_ E]. exact (H E).
Qed.

(** *** the view of the same prefix *)

Lemma view_insert : forall pfx (f : fs) p n,
  prefix_ok pfx -> keys_good f -> abs_cleaned p ->
  view_of pfx (<[wkey pfx p := n]> f) = <[p := vnode pfx n]> (view_of pfx f).
Proof.
  intros pfx f p n Hp Hg Hac.
  assert (Hg' : keys_good (<[wkey pfx p := n]> f)).
  { apply keys_good_insert; [exact Hg | apply wkey_good; [exact Hp | exact (proj2 Hac)]]. }
  apply map_eq. intros q. destruct (str_eq_dec q p) as [E|E].
  - subst q. rewrite lookup_insert, (view_lookup_ac pfx _ p Hg' Hac), lookup_insert. reflexivity.
  - rewrite lookup_insert_ne by congruence. destruct (abs_cleaned_dec q) as [Hq|Hq].
    + rewrite (view_lookup_ac pfx _ q Hg' Hq), (view_lookup_ac pfx _ q Hg Hq).
      rewrite lookup_insert_ne; [reflexivity|]. intro E'. apply E. symmetry.
      exact (wkey_inj pfx p q Hac Hq E').
    + rewrite (view_lookup_not_ac pfx _ q Hg' Hq), (view_lookup_not_ac pfx _ q Hg Hq). reflexivity.
Qed.

Lemma view_delete : forall pfx (f : fs) p,
  keys_good f -> abs_cleaned p ->
  view_of pfx (base.delete (wkey pfx p) f) = base.delete p (view_of pfx f).
Proof.
  intros pfx f p Hg Hac.
  pose proof (keys_good_delete f (wkey pfx p) Hg) as Hg'.
  apply map_eq. intros q. destruct (str_eq_dec q p) as [E|E].
  - subst q. rewrite lookup_delete, (view_lookup_ac pfx _ p Hg' Hac), lookup_delete. reflexivity.
  - rewrite lookup_delete_ne by congruence. destruct (abs_cleaned_dec q) as [Hq|Hq].
    + rewrite (view_lookup_ac pfx _ q Hg' Hq), (view_lookup_ac pfx _ q Hg Hq).
      rewrite lookup_delete_ne; [reflexivity|]. intro E'. apply E. symmetry.
      exact (wkey_inj pfx p q Hac Hq E').
    + rewrite (view_lookup_not_ac pfx _ q Hg' Hq), (view_lookup_not_ac pfx _ q Hg Hq). reflexivity.
Qed.

(** world nodes equivalent outside the keys of [ps]: views equivalent outside [ps] *)
Lemma view_eqv_except : forall pfx (f f' : fs) ps,
  keys_good f -> keys_good f' -> Forall abs_cleaned ps ->
  (forall k, key_prefixb (kp pfx) k = true -> (forall q, In q ps -> k <> wkey pfx q) ->
             onode_eqv (f' !! k) (f !! k)) ->
  store_eqv_except ps (view_of pfx f') (view_of pfx f).
Proof.
  intros pfx f f' ps Hg Hg' Hps H q Hq. destruct (abs_cleaned_dec q) as [Hac|Hac].
  - rewrite (view_lookup_ac pfx _ q Hg' Hac), (view_lookup_ac pfx _ q Hg Hac).
    apply onode_eqv_vnode. apply H; [apply wkey_prefix|]. intros q' Hq' E. apply Hq.
    rewrite List.Forall_forall in Hps.
    rewrite (wkey_inj pfx q q' Hac (Hps q' Hq') E). exact Hq'.
  - rewrite (view_lookup_not_ac pfx _ q Hg' Hac), (view_lookup_not_ac pfx _ q Hg Hac). exact I.
Qed.

Lemma touch_dir_dir : forall (f : fs) k t m,
  f !! k = Some (Dir m) -> touch_dir f k t = <[k := Dir (mkMeta (m_perm m) (m_uid m) (m_gid m) t)]> f.
Proof. intros f k t m H. unfold touch_dir. rewrite H. reflexivity. Qed.

Lemma touch_dir_onode_eqv : forall (f : fs) k t k', onode_eqv (touch_dir f k t !! k') (f !! k').
Proof.
  intros f k t k'. destruct (list_eq_dec str_eq_dec k' k) as [E|E].
  - subst k'. rewrite touch_dir_lookup_eq. destruct (f !! k) as [[m|m c|m x]|]; simpl; try reflexivity; try exact I.
    repeat split.
  - rewrite touch_dir_lookup_ne by exact E. apply onode_eqv_refl.
Qed.

Lemma add_entry_onode_eqv : forall s par name mk k,
  k <> par ++ [name] -> onode_eqv (st_fs (add_entry s par name mk) !! k) (st_fs s !! k).
Proof.
  intros s par name mk k Hk. rewrite add_entry_fs.
  pose proof (touch_dir_onode_eqv (<[par ++ [name] := mk (Now (st_clock s)) (new_gid (st_fs s) par)]> (st_fs s))
                par (Now (st_clock s)) k) as H.
  rewrite lookup_insert_ne in H by congruence. exact H.
Qed.

Lemma remove_entry_onode_eqv : forall s k0 k,
  k <> k0 -> onode_eqv (st_fs (remove_entry s k0) !! k) (st_fs s !! k).
Proof.
  intros s k0 k Hk. rewrite remove_entry_fs.
  pose proof (touch_dir_onode_eqv (base.delete k0 (st_fs s)) (removelast k0) (Now (st_clock s)) k) as H.
  rewrite lookup_delete_ne in H by congruence. exact H.
Qed.

Lemma update_node_onode_eqv : forall s k0 n k,
  k <> k0 -> onode_eqv (st_fs (update_node s k0 n) !! k) (st_fs s !! k).
Proof. intros s k0 n k Hk. rewrite update_node_lookup_ne by exact Hk. apply onode_eqv_refl. Qed.

Lemma add_entry_fs_dir : forall s par name mk m,
  st_fs s !! par = Some (Dir m) ->
  st_fs (add_entry s par name mk) =
    <[par := Dir (mkMeta (m_perm m) (m_uid m) (m_gid m) (Now (st_clock s)))]>
      (<[par ++ [name] := mk (Now (st_clock s)) (new_gid (st_fs s) par)]> (st_fs s)).
Proof.
  intros s par name mk m H. rewrite add_entry_fs. apply touch_dir_dir.
  rewrite lookup_insert_ne; [exact H|]. apply snoc_neq.
Qed.

Lemma remove_entry_fs_dir : forall s (k : key) m,
  k <> [] -> st_fs s !! removelast k = Some (Dir m) ->
  st_fs (remove_entry s k) =
    <[removelast k := Dir (mkMeta (m_perm m) (m_uid m) (m_gid m) (Now (st_clock s)))]>
      (base.delete k (st_fs s)).
Proof.
  intros s k m Hne H. rewrite remove_entry_fs. apply touch_dir_dir.
  rewrite lookup_delete_ne; [exact H|]. intro E. exact (removelast_neq _ k Hne (eq_sym E)).
Qed.

Lemma wkey_split : forall pfx p,
  prefix_ok pfx -> removelast (wkey pfx p) ++ [last (wkey pfx p) []] = wkey pfx p.
Proof. intros pfx p Hp. apply removelast_last_snoc. apply wkey_nonnil. exact Hp. Qed.

(** the view after the three state changes, exactly *)
Lemma view_update_node : forall pfx s p n,
  prefix_ok pfx -> keys_good (st_fs s) -> abs_cleaned p ->
  view_of pfx (st_fs (update_node s (wkey pfx p) n)) = <[p := vnode pfx n]> (view_of pfx (st_fs s)).
Proof. intros pfx s p n Hp Hg Hac. rewrite update_node_fs. apply view_insert; assumption. Qed.

Lemma view_add_entry : forall pfx s p mk m,
  prefix_ok pfx -> keys_good (st_fs s) -> abs_cleaned p -> p <> s_root ->
  st_fs s !! removelast (wkey pfx p) = Some (Dir m) ->
  view_of pfx (st_fs (add_entry s (removelast (wkey pfx p)) (last (wkey pfx p) []) mk)) =
    <[vparent p := Dir (mkMeta (m_perm m) (m_uid m) (m_gid m) (Now (st_clock s)))]>
      (<[p := vnode pfx (mk (Now (st_clock s)) (new_gid (st_fs s) (removelast (wkey pfx p))))]>
         (view_of pfx (st_fs s))).
Proof.
  intros pfx s p mk m Hp Hg Hac Hne Hpar.
  assert (Hc : comps p <> []).
  { intro E. apply Hne. apply (abs_cleaned_comps_nil p Hac). exact E. }
  rewrite (add_entry_fs_dir s _ _ mk m Hpar), (wkey_split pfx p Hp).
  rewrite <- (wkey_vparent pfx p (proj2 Hac) Hc).
  rewrite (view_insert pfx _ (vparent p) _ Hp).
  - rewrite (view_insert pfx _ p _ Hp Hg Hac). reflexivity.
  - apply keys_good_insert; [exact Hg | apply wkey_good; [exact Hp | exact (proj2 Hac)]].
  - apply vparent_abs_cleaned. exact (proj2 Hac).
Qed.

Lemma view_remove_entry : forall pfx s p m,
  prefix_ok pfx -> keys_good (st_fs s) -> abs_cleaned p -> p <> s_root ->
  st_fs s !! removelast (wkey pfx p) = Some (Dir m) ->
  view_of pfx (st_fs (remove_entry s (wkey pfx p))) =
    <[vparent p := Dir (mkMeta (m_perm m) (m_uid m) (m_gid m) (Now (st_clock s)))]>
      (base.delete p (view_of pfx (st_fs s))).
Proof.
  intros pfx s p m Hp Hg Hac Hne Hpar.
  assert (Hc : comps p <> []).
  { intro E. apply Hne. apply (abs_cleaned_comps_nil p Hac). exact E. }
  rewrite (remove_entry_fs_dir s _ m (wkey_nonnil pfx p Hp) Hpar).
  rewrite <- (wkey_vparent pfx p (proj2 Hac) Hc).
  rewrite (view_insert pfx _ (vparent p) _ Hp).
  - rewrite (view_delete pfx _ p Hg Hac). reflexivity.
  - apply keys_good_delete. exact Hg.
  - apply vparent_abs_cleaned. exact (proj2 Hac).
Qed.

(** ... and up to directory timestamps: only [p] changes *)
Lemma view_add_entry_eqv : forall pfx s p mk f',
  f' = st_fs (add_entry s (removelast (wkey pfx p)) (last (wkey pfx p) []) mk) ->
  prefix_ok pfx -> keys_good (st_fs s) -> keys_good f' -> abs_cleaned p ->
  store_eqv_except [p] (view_of pfx f') (view_of pfx (st_fs s)).
Proof.
  intros pfx s p mk f' Ef Hp Hg Hg' Hac. subst f'.
  apply view_eqv_except; try assumption; [constructor; [exact Hac | constructor]|].
  intros k _ Hk. apply add_entry_onode_eqv. rewrite (wkey_split pfx p Hp).
  apply Hk. left. reflexivity.
Qed.

Lemma view_remove_entry_eqv : forall pfx s p f',
  f' = st_fs (remove_entry s (wkey pfx p)) ->
  keys_good (st_fs s) -> keys_good f' -> abs_cleaned p ->
  store_eqv_except [p] (view_of pfx f') (view_of pfx (st_fs s)).
Proof.
  intros pfx s p f' Ef Hg Hg' Hac. subst f'.
  apply view_eqv_except; try assumption; [constructor; [exact Hac | constructor]|].
  intros k _ Hk. apply remove_entry_onode_eqv. apply Hk. left. reflexivity.
Qed.

Lemma view_update_node_eqv : forall pfx s p n f',
  f' = st_fs (update_node s (wkey pfx p) n) ->
  keys_good (st_fs s) -> keys_good f' -> abs_cleaned p ->
  store_eqv_except [p] (view_of pfx f') (view_of pfx (st_fs s)).
Proof.
  intros pfx s p n f' Ef Hg Hg' Hac. subst f'.
  apply view_eqv_except; try assumption; [constructor; [exact Hac | constructor]|].
  intros k _ Hk. apply update_node_onode_eqv. apply Hk. left. reflexivity.
Qed.

Lemma store_eqv_except_refl : forall ps s, store_eqv_except ps s s.
Proof. intros ps s p _. apply sonode_eqv_refl. Qed.

(* ------------------------------------------------------------------ *)
(** ** C.6 preservation of [world_okb] *)

Lemma is_dir_true_inv : forall n, is_dir n = true -> exists m, n = Dir m.
Proof. intros [m|m c|m t] H; try discriminate H. exists m. reflexivity. Qed.

Lemma perm12_Dir_mt : forall m t,
  perm12 (Dir m) -> perm12 (Dir (mkMeta (m_perm m) (m_uid m) (m_gid m) t)).
Proof. intros m t H. exact H. Qed.

Lemma perm12_land : forall n p, m_perm (node_meta n) = N.land p 4095 -> perm12 n.
Proof.
  intros n p H. unfold perm12. rewrite H. rewrite <- N.land_assoc. reflexivity.
Qed.

Lemma perm12_mkdir : forall perm (b : bool) g t,
  perm12 (Dir (mkMeta (N.lor (N.land perm 1023) (if b then sgid_bit else 0)) 0 g t)).
Proof.
  intros perm b g t. unfold perm12. simpl.
  rewrite N.land_lor_distr_l, <- N.land_assoc.
  change (N.land 1023 4095) with 1023%N. destruct b; reflexivity.
Qed.

Lemma perm12_newfile : forall perm g t c, perm12 (File (mkMeta (N.land perm 4095) 0 g t) c).
Proof. intros perm g t c. apply (perm12_land _ perm). reflexivity. Qed.

Lemma perm12_newlink : forall g t target, perm12 (Link (mkMeta 511 0 g t) target).
Proof. intros g t target. reflexivity. Qed.

Lemma land_ldiff_keep : forall p k x, N.land p k = p -> N.land (N.ldiff p x) k = N.ldiff p x.
Proof.
  intros p k x H. apply N.bits_inj. intro i. rewrite N.land_spec, N.ldiff_spec.
  assert (E : N.testbit p i = N.testbit p i && N.testbit k i) by (rewrite <- N.land_spec, H; reflexivity).
  destruct (N.testbit p i), (N.testbit k i), (N.testbit x i); try reflexivity; discriminate E.
Qed.

Lemma perm12_chown_node : forall n u g, perm12 n -> perm12 (chown_node n u g).
Proof.
  intros n u g H. unfold perm12 in *. destruct n as [m|m c|m t]; simpl in *; try exact H.
  unfold suid_bit, sgid_bit.
  destruct (N.testbit (m_perm m) 3); repeat apply land_ldiff_keep; exact H.
Qed.

Lemma perm12_set_perm : forall n mode, perm12 (with_meta n (set_perm mode)).
Proof. intros n mode. apply (perm12_land _ mode). destruct n; reflexivity. Qed.

Lemma perm12_set_mt : forall n t, perm12 n -> perm12 (with_meta n (set_mt t)).
Proof. intros n t H. destruct n; exact H. Qed.

Lemma is_dir_set_meta : forall n m, is_dir (set_meta n m) = is_dir n.
Proof. intros [m'|m' c|m' t] m; reflexivity. Qed.

Lemma is_dir_chown_node : forall n u g, is_dir (chown_node n u g) = is_dir n.
Proof. intros [m'|m' c|m' t] u g; reflexivity. Qed.

(** the forms in which FsFacts writes the updated nodes *)
Lemma with_meta_set_perm_eq : forall n mode,
  set_meta n (mkMeta (N.land mode 4095) (m_uid (node_meta n)) (m_gid (node_meta n)) (m_mt (node_meta n))) =
  with_meta n (set_perm mode).
Proof. reflexivity. Qed.

Lemma with_meta_set_mt_eq : forall n t,
  set_meta n (mkMeta (m_perm (node_meta n)) (m_uid (node_meta n)) (m_gid (node_meta n)) t) =
  with_meta n (set_mt t).
Proof. reflexivity. Qed.

(** replace the node at an existing key; a directory stays a directory *)
Lemma world_okb_insert_existing : forall pfx (f : fs) k n0 n,
  world_okb pfx f = true -> f !! k = Some n0 ->
  (is_dir n0 = true -> is_dir n = true) -> perm12 n ->
  world_okb pfx (<[k := n]> f) = true.
Proof.
  intros pfx f k n0 n Hok Hk Hdir Hperm.
  apply world_okb_spec in Hok. destruct Hok as ([Hroot Hpar] & Hg & Hp12 & Hkp).
  assert (Hd : forall x, is_dir_at f x -> is_dir_at (<[k := n]> f) x).
  { intros x [m Hm]. destruct (list_eq_dec str_eq_dec x k) as [E|E].
    - subst x. rewrite Hk in Hm. injection Hm as Hm. subst n0.
      destruct (is_dir_true_inv n (Hdir eq_refl)) as [m' Hm']. subst n.
      exists m'. apply lookup_insert.
    - exists m. rewrite lookup_insert_ne by congruence. exact Hm. }
  apply world_okb_spec. split; [split|split; [|split]].
  - apply Hd. exact Hroot.
  - intros k' n' Hl Hne. apply Hd. destruct (list_eq_dec str_eq_dec k' k) as [E|E].
    + subst k'. exact (Hpar k n0 Hk Hne).
    + rewrite lookup_insert_ne in Hl by congruence. exact (Hpar k' n' Hl Hne).
  - apply keys_good_insert; [exact Hg | exact (Hg k n0 Hk)].
  - intros k' n' Hl. destruct (list_eq_dec str_eq_dec k' k) as [E|E].
    + subst k'. rewrite lookup_insert in Hl. injection Hl as Hl. subst n'. exact Hperm.
    + rewrite lookup_insert_ne in Hl by congruence. exact (Hp12 k' n' Hl).
  - apply Hd. exact Hkp.
Qed.

(** a new entry with a proper name below an existing directory *)
Lemma world_okb_insert_new : forall pfx (f : fs) par name n,
  world_okb pfx f = true -> is_dir_at f par -> f !! (par ++ [name]) = None ->
  good_compb name = true -> perm12 n ->
  world_okb pfx (<[par ++ [name] := n]> f) = true.
Proof.
  intros pfx f par name n Hok Hpd Hnew Hname Hperm.
  apply world_okb_spec in Hok. destruct Hok as ([Hroot Hpar] & Hg & Hp12 & Hkp).
  assert (Hd : forall x, is_dir_at f x -> is_dir_at (<[par ++ [name] := n]> f) x).
  { intros x [m Hm]. exists m. rewrite lookup_insert_ne; [exact Hm|]. intro E. subst x.
    norm_keys. congruence. }
  apply world_okb_spec. split; [split|split; [|split]].
  - apply Hd. exact Hroot.
  - intros k' n' Hl Hne. apply Hd. destruct (list_eq_dec str_eq_dec k' (par ++ [name])) as [E|E].
    + subst k'. rewrite removelast_last. exact Hpd.
    + rewrite lookup_insert_ne in Hl by congruence. exact (Hpar k' n' Hl Hne).
  - apply keys_good_insert; [exact Hg|]. apply good_key_app. split.
    + destruct Hpd as [m Hm]. exact (Hg par _ Hm).
    + apply forallb_good_compb_spec. simpl. rewrite Hname. reflexivity.
  - intros k' n' Hl. destruct (list_eq_dec str_eq_dec k' (par ++ [name])) as [E|E].
    + subst k'. rewrite lookup_insert in Hl. injection Hl as Hl. subst n'. exact Hperm.
    + rewrite lookup_insert_ne in Hl by congruence. exact (Hp12 k' n' Hl).
  - apply Hd. exact Hkp.
Qed.

(** remove an entry without children (not the root, not the prefix directory) *)
Lemma world_okb_delete : forall pfx (f : fs) k,
  world_okb pfx f = true -> k <> [] -> k <> kp pfx ->
  (forall r, r <> [] -> f !! (k ++ r) = None) ->
  world_okb pfx (base.delete k f) = true.
Proof.
  intros pfx f k Hok Hne Hnkp Hnc.
  apply world_okb_spec in Hok. destruct Hok as ([Hroot Hpar] & Hg & Hp12 & Hkp).
  assert (Hd : forall x, x <> k -> is_dir_at f x -> is_dir_at (base.delete k f) x).
  { intros x Hx [m Hm]. exists m. rewrite lookup_delete_ne by congruence. exact Hm. }
  apply world_okb_spec. split; [split|split; [|split]].
  - apply Hd; [congruence | exact Hroot].
  - intros k' n' Hl Hne'. apply lookup_delete_Some in Hl. destruct Hl as [Hkk Hl].
    apply Hd; [|exact (Hpar k' n' Hl Hne')].
    intro E. rewrite <- (removelast_last_snoc _ k' [] Hne'), E in Hl.
    rewrite (Hnc [last k' []]) in Hl; [discriminate Hl | discriminate].
  - apply keys_good_delete. exact Hg.
  - intros k' n' Hl. apply lookup_delete_Some in Hl. destruct Hl as [_ Hl]. exact (Hp12 k' n' Hl).
  - apply Hd; [congruence | exact Hkp].
Qed.

Lemma world_okb_touch_dir : forall pfx (f : fs) k t,
  world_okb pfx f = true -> world_okb pfx (touch_dir f k t) = true.
Proof.
  intros pfx f k t Hok. unfold touch_dir. destruct (f !! k) as [[m|m c|m x]|] eqn:E; try exact Hok.
  apply (world_okb_insert_existing pfx f k (Dir m)); [exact Hok | exact E | reflexivity|].
  exact (world_okb_perm12 pfx f k (Dir m) Hok E).
Qed.

Lemma world_okb_update_node : forall pfx s k n0 n,
  world_okb pfx (st_fs s) = true -> st_fs s !! k = Some n0 ->
  (is_dir n0 = true -> is_dir n = true) -> perm12 n ->
  world_okb pfx (st_fs (update_node s k n)) = true.
Proof. intros pfx s k n0 n. rewrite update_node_fs. apply world_okb_insert_existing. Qed.

Lemma world_okb_add_entry : forall pfx s par name mk,
  world_okb pfx (st_fs s) = true -> is_dir_at (st_fs s) par -> st_fs s !! (par ++ [name]) = None ->
  good_compb name = true -> (forall t g, perm12 (mk t g)) ->
  world_okb pfx (st_fs (add_entry s par name mk)) = true.
Proof.
  intros pfx s par name mk Hok Hpd Hnew Hname Hperm. rewrite add_entry_fs.
  apply world_okb_touch_dir. apply world_okb_insert_new; try assumption. apply Hperm.
Qed.

Lemma world_okb_remove_entry : forall pfx s k,
  world_okb pfx (st_fs s) = true -> k <> [] -> k <> kp pfx ->
  has_children (st_fs s) k = false ->
  world_okb pfx (st_fs (remove_entry s k)) = true.
Proof.
  intros pfx s k Hok Hne Hnkp Hnc. rewrite remove_entry_fs. apply world_okb_touch_dir.
  apply world_okb_delete; try assumption. apply has_children_false_iff. exact Hnc.
Qed.

(** a non-directory has no children in a well-formed tree *)
Lemma wf_nondir_no_children : forall (f : fs) k n,
  wf f -> f !! k = Some n -> is_dir n = false -> has_children f k = false.
Proof.
  intros f k n Hwf Hk Hn. apply has_children_false_iff. intros r Hr.
  destruct (f !! (k ++ r)) as [n'|] eqn:E; [|reflexivity]. exfalso.
  destruct (wf_prefix_dir f k r n' Hwf Hr E) as [m Hm]. rewrite Hk in Hm. injection Hm as Hm.
  subst n. discriminate Hn.
Qed.

(** the name and the parent of a non-root view path *)
Lemma wkey_last_good : forall pfx p,
  is_abs p = true -> comps p <> [] -> good_compb (last (wkey pfx p) []) = true.
Proof.
  intros pfx p Ha Hne. rewrite (wkey_last pfx p [] Hne).
  pose proof (good_key_comps p Ha) as G. apply forallb_good_compb_spec in G.
  rewrite forallb_forall in G. apply G.
  rewrite <- (removelast_last_snoc _ (comps p) [] Hne) at 2. apply in_or_app. right. left. reflexivity.
Qed.

Lemma wkey_ne_kp : forall pfx p, abs_cleaned p -> p <> s_root -> wkey pfx p <> kp pfx.
Proof. intros pfx p Hac Hne E. apply Hne. apply (wkey_eq_kp_iff pfx p Hac). exact E. Qed.

(** in terms of view paths *)
Lemma world_okb_add_entry_wkey : forall pfx s p mk,
  prefix_ok pfx -> world_okb pfx (st_fs s) = true -> abs_cleaned p -> p <> s_root ->
  is_dir_at (st_fs s) (removelast (wkey pfx p)) -> st_fs s !! wkey pfx p = None ->
  (forall t g, perm12 (mk t g)) ->
  world_okb pfx (st_fs (add_entry s (removelast (wkey pfx p)) (last (wkey pfx p) []) mk)) = true.
Proof.
  intros pfx s p mk Hp Hok Hac Hne Hpd Hnew Hperm.
  apply world_okb_add_entry; try assumption.
  - rewrite (wkey_split pfx p Hp). exact Hnew.
  - apply wkey_last_good; [exact (proj2 Hac)|]. intro E. apply Hne.
    apply (abs_cleaned_comps_nil p Hac). exact E.
Qed.

Lemma world_okb_remove_entry_wkey : forall pfx s p,
  prefix_ok pfx -> world_okb pfx (st_fs s) = true -> abs_cleaned p -> p <> s_root ->
  has_children (st_fs s) (wkey pfx p) = false ->
  world_okb pfx (st_fs (remove_entry s (wkey pfx p))) = true.
Proof.
  intros pfx s p Hp Hok Hac Hne Hnc. apply world_okb_remove_entry; try assumption.
  - apply wkey_nonnil. exact Hp.
  - apply wkey_ne_kp; assumption.
Qed.

(** [no_children] of the view is [has_children = false] of the world *)
Lemma no_children_view : forall pfx (f : fs) p,
  prefix_ok pfx -> keys_good f -> abs_cleaned p ->
  (no_children (view_of pfx f) p <-> has_children f (wkey pfx p) = false).
Proof.
  intros pfx f p Hp Hg Hac. rewrite has_children_false_iff. unfold no_children. split.
  - intros H r Hr. destruct (f !! (wkey pfx p ++ r)) as [n|] eqn:E; [|reflexivity]. exfalso.
    pose proof (Hg _ _ E) as G. unfold wkey in G. rewrite <- app_assoc in G.
    apply good_key_app in G. destruct G as [_ G].
    assert (Hq : abs_cleaned (kpath (comps p ++ r))) by (apply kpath_good_abs_cleaned; exact G).
    assert (Hcq : comps (kpath (comps p ++ r)) = comps p ++ r) by (apply comps_kpath_good; exact G).
    apply (H (kpath (comps p ++ r)) (vnode pfx n)).
    + rewrite (view_lookup_ac pfx f _ Hg Hq). unfold wkey. rewrite Hcq, app_assoc.
      unfold wkey in E. norm_keys. rewrite E. reflexivity.
    + intro Eq. rewrite <- (kpath_comps p Hac) in Eq at 2.
      apply kpath_inj_good in Eq; [| exact G | apply good_key_comps; exact (proj2 Hac)].
      rewrite <- (app_nil_r (comps p)) in Eq at 2. apply app_inv_head in Eq. exact (Hr Eq).
    + apply (ancestors_In _ p Hq). exists (comps p). split; [|symmetry; apply kpath_comps; exact Hac].
      rewrite Hcq. apply kprefixes_In. exists r. split; [exact Hr | reflexivity].
  - intros H q n Hq Hne Hin.
    pose proof (view_key_abs_cleaned_gk pfx f q n Hg Hq) as Hqac.
    apply (ancestors_In q p Hqac) in Hin. destruct Hin as [k' [Hk' Ek']].
    pose proof Hk' as Hk''. apply kprefixes_In in Hk''. destruct Hk'' as [r [Hr Er]].
    assert (Ek : comps p = k').
    { rewrite Ek'. apply comps_kpath_good. eapply kprefixes_good; [|exact Hk'].
      apply good_key_comps. exact (proj2 Hqac). }
    rewrite (view_lookup_ac pfx f q Hg Hqac) in Hq. unfold wkey in Hq. rewrite Er, <- Ek, app_assoc in Hq.
    unfold wkey in H. pose proof (H r Hr) as Hn. norm_keys. rewrite Hn in Hq. discriminate Hq.
Qed.

(* ------------------------------------------------------------------ *)
(** * D. Unfolding the API *)

(** ** D.1 the spy on quiet worlds; [fs_get] / [fs_upd] *)

Definition tickw (w : world) : world :=
  mkWorld (w_st w) (w_trace w) (N.succ (w_ticks w)) (w_crash w) (w_faults w) (w_infos w).

Definition set_st (w : world) (s : fstate) : world :=
  mkWorld s (w_trace w) (w_ticks w) (w_crash w) (w_faults w) (w_infos w).

Definition mres_of {A} (r : res A) : mres A :=
  match r with Ok a => MOk a | Err e => MErr e end.

Definition mres_map {A B} (h : A -> B) (r : mres A) : mres B :=
  match r with MOk a => MOk (h a) | MErr e => MErr e | MHalt => MHalt end.

Definition err_of {A} (r : mres A) : option errno :=
  match r with MErr e => Some e | _ => None end.

Lemma faulted_nil : forall w t m p, w_faults w = [] -> faulted w t m p = false.
Proof. intros w t m p H. unfold faulted. rewrite H. reflexivity. Qed.

Lemma spied_quiet : forall (A : Type) t m p p2 (op : M A) w,
  quiet w ->
  spied t m p p2 op w =
    match op (tickw w) with
    | (MOk a, w2) => (MOk a, record (mkTcall t m p p2 None) w2)
    | (MErr e, w2) => (MErr e, record (mkTcall t m p p2 (Some e)) w2)
    | (MHalt, w2) => (MHalt, w2)
    end.
Proof.
  intros A t m p p2 op w [Hc Hf]. unfold spied. fold (tickw w). rewrite Hc.
  rewrite (faulted_nil (tickw w) t m p) by exact Hf. reflexivity.
Qed.

(** the same, for an operation that does not halt *)
Lemma spied_quiet_run : forall (A : Type) t m p p2 (op : M A) w r w2,
  quiet w -> op (tickw w) = (r, w2) -> r <> MHalt ->
  spied t m p p2 op w = (r, record (mkTcall t m p p2 (err_of r)) w2).
Proof.
  intros A t m p p2 op w r w2 Hq Hop Hr. rewrite (spied_quiet A t m p p2 op w Hq), Hop.
  destruct r as [a|e|]; [reflexivity | reflexivity | contradiction].
Qed.

(** operations that agree pointwise are spied alike *)
Lemma spied_ext : forall (A : Type) t m p p2 (op op' : M A),
  (forall w, op w = op' w) -> forall w, spied t m p p2 op w = spied t m p p2 op' w.
Proof.
  intros A t m p p2 op op' H w. unfold spied. rewrite !H. reflexivity.
Qed.

Lemma bind_ext : forall (A B : Type) (m m' : M A) (k k' : A -> M B),
  (forall w, m w = m' w) -> (forall a w, k a w = k' a w) -> forall w, bind m k w = bind m' k' w.
Proof.
  intros A B m m' k k' Hm Hk w. unfold bind. rewrite Hm. destruct (m' w) as [[a|e|] w1]; [apply Hk | reflexivity | reflexivity].
Qed.

Lemma bind_assoc_run : forall (A B C : Type) (m : M A) (k : A -> M B) (k2 : B -> M C) w,
  bind (bind m k) k2 w = bind m (fun a => bind (k a) k2) w.
Proof.
  intros A B C m k k2 w. unfold bind. destruct (m w) as [[a|e|] w1]; reflexivity.
Qed.

Lemma bind_ret_l_run : forall (A B : Type) (a : A) (k : A -> M B) w, bind (ret a) k w = k a w.
Proof. reflexivity. Qed.

Lemma bind_ret_run : forall (A B : Type) (m : M A) (h : A -> B) w,
  bind m (fun x => ret (h x)) w = (mres_map h (fst (m w)), snd (m w)).
Proof. intros A B m h w. unfold bind, ret. destruct (m w) as [[a|e|] w1]; reflexivity. Qed.

(** post-processing of a result, as a named combinator (so that the equations
    below rewrite first-order): [mapM h m = x <- m ;; ret (h x)] *)
Definition mapM {A B} (h : A -> B) (m : M A) : M B := x <- m ;; ret (h x).

Lemma mapM_eq : forall (A B : Type) (h : A -> B) (m : M A), mapM h m = (x <- m ;; ret (h x)).
Proof. reflexivity. Qed.

Lemma mapM_run : forall (A B : Type) (h : A -> B) (m : M A) w,
  mapM h m w = (mres_map h (fst (m w)), snd (m w)).
Proof. intros A B h m w. apply bind_ret_run. Qed.

Lemma fs_get_run : forall (A : Type) (g : fstate -> res A) w,
  fs_get g w = (mres_of (g (w_st w)), w).
Proof. intros A g w. unfold fs_get. destruct (g (w_st w)); reflexivity. Qed.

Lemma fs_upd_run : forall (A : Type) (g : fstate -> res A * fstate) w,
  fs_upd g w = (mres_of (fst (g (w_st w))), set_st w (snd (g (w_st w)))).
Proof. intros A g w. unfold fs_upd. destruct (g (w_st w)) as [[a|e] s']; reflexivity. Qed.

Lemma mres_of_not_halt : forall (A : Type) (r : res A), mres_of r <> MHalt.
Proof. intros A [a|e]; discriminate. Qed.

Lemma mres_map_not_halt : forall (A B : Type) (h : A -> B) r, r <> MHalt -> mres_map h r <> MHalt.
Proof. intros A B h [a|e|] H; try discriminate. contradiction. Qed.

Lemma fs_get_not_halt : forall (A : Type) (g : fstate -> res A) w, fst (fs_get g w) <> MHalt.
Proof. intros A g w. rewrite fs_get_run. apply mres_of_not_halt. Qed.

Lemma fs_upd_not_halt : forall (A : Type) (g : fstate -> res A * fstate) w, fst (fs_upd g w) <> MHalt.
Proof. intros A g w. rewrite fs_upd_run. apply mres_of_not_halt. Qed.

(** what [record], [tickw], [set_st] leave alone (all by computation) *)
Lemma w_st_record : forall c w, w_st (record c w) = w_st w.            Proof. reflexivity. Qed.
Lemma w_infos_record : forall c w, w_infos (record c w) = w_infos w.   Proof. reflexivity. Qed.
Lemma w_crash_record : forall c w, w_crash (record c w) = w_crash w.   Proof. reflexivity. Qed.
Lemma w_faults_record : forall c w, w_faults (record c w) = w_faults w. Proof. reflexivity. Qed.
Lemma w_ticks_record : forall c w, w_ticks (record c w) = w_ticks w.   Proof. reflexivity. Qed.
Lemma w_trace_record : forall c w, w_trace (record c w) = c :: w_trace w. Proof. reflexivity. Qed.
Lemma w_st_tickw : forall w, w_st (tickw w) = w_st w.                  Proof. reflexivity. Qed.
Lemma w_infos_tickw : forall w, w_infos (tickw w) = w_infos w.         Proof. reflexivity. Qed.
Lemma w_crash_tickw : forall w, w_crash (tickw w) = w_crash w.         Proof. reflexivity. Qed.
Lemma w_faults_tickw : forall w, w_faults (tickw w) = w_faults w.      Proof. reflexivity. Qed.
Lemma w_trace_tickw : forall w, w_trace (tickw w) = w_trace w.         Proof. reflexivity. Qed.
Lemma w_ticks_tickw : forall w, w_ticks (tickw w) = N.succ (w_ticks w). Proof. reflexivity. Qed.
Lemma w_st_set_st : forall w s, w_st (set_st w s) = s.                 Proof. reflexivity. Qed.
Lemma w_infos_set_st : forall w s, w_infos (set_st w s) = w_infos w.   Proof. reflexivity. Qed.
Lemma w_crash_set_st : forall w s, w_crash (set_st w s) = w_crash w.   Proof. reflexivity. Qed.
Lemma w_faults_set_st : forall w s, w_faults (set_st w s) = w_faults w. Proof. reflexivity. Qed.
Lemma w_trace_set_st : forall w s, w_trace (set_st w s) = w_trace w.   Proof. reflexivity. Qed.
Lemma w_ticks_set_st : forall w s, w_ticks (set_st w s) = w_ticks w.   Proof. reflexivity. Qed.
Lemma set_st_same : forall w, set_st w (w_st w) = w.
Proof. intros [s tr ti c fa i]. reflexivity. Qed.

Lemma set_st_tickw_same : forall w, set_st (tickw w) (w_st w) = tickw w.
Proof. intros [s tr ti c fa i]. reflexivity. Qed.

Lemma Vp_record : forall pfx c w, Vp pfx (record c w) = Vp pfx w.
Proof. reflexivity. Qed.
Lemma Vp_tickw : forall pfx w, Vp pfx (tickw w) = Vp pfx w.
Proof. reflexivity. Qed.
Lemma Vp_with_infos : forall pfx w i, Vp pfx (with_infos w i) = Vp pfx w.
Proof. reflexivity. Qed.
Lemma Vp_set_st : forall pfx w s,
  Vp pfx (set_st w s) = if world_okb pfx (st_fs s) then view_of pfx (st_fs s) else ∅.
Proof. reflexivity. Qed.
Lemma Vp_set_st_ok : forall pfx w s,
  world_okb pfx (st_fs s) = true -> Vp pfx (set_st w s) = view_of pfx (st_fs s).
Proof. intros pfx w s H. rewrite Vp_set_st, H. reflexivity. Qed.

Lemma quiet_record : forall c w, quiet (record c w) <-> quiet w.
Proof. intros c w. unfold quiet. tauto. Qed.
Lemma quiet_tickw : forall w, quiet (tickw w) <-> quiet w.
Proof. intros w. unfold quiet. tauto. Qed.
Lemma quiet_set_st : forall w s, quiet (set_st w s) <-> quiet w.
Proof. intros w s. unfold quiet. tauto. Qed.

(** [fs_get] / [fs_upd] keep trace, ticks, crash point, fault plan and infos *)
Lemma fs_get_world : forall (A : Type) (g : fstate -> res A) w, snd (fs_get g w) = w.
Proof. intros A g w. rewrite fs_get_run. reflexivity. Qed.

Lemma fs_upd_world : forall (A : Type) (g : fstate -> res A * fstate) w,
  snd (fs_upd g w) = set_st w (snd (g (w_st w))).
Proof. intros A g w. rewrite fs_upd_run. reflexivity. Qed.

(** the spied primitives on a quiet world, in one step *)
Definition after (t : fstag) (m : pmeth) (p p2 : str) (e : option errno) (w : world) (s : fstate) : world :=
  record (mkTcall t m p p2 e) (set_st (tickw w) s).

Lemma spied_fs_upd_quiet : forall (A : Type) t m p p2 (g : fstate -> res A * fstate) w,
  quiet w ->
  spied t m p p2 (fs_upd g) w =
    (mres_of (fst (g (w_st w))),
     after t m p p2 (err_of (mres_of (fst (g (w_st w))))) w (snd (g (w_st w)))).
Proof.
  intros A t m p p2 g w Hq.
  apply (spied_quiet_run A t m p p2 (fs_upd g) w _ _ Hq); [|apply mres_of_not_halt].
  rewrite fs_upd_run. reflexivity.
Qed.

Lemma spied_fs_get_quiet : forall (A : Type) t m p p2 (g : fstate -> res A) w,
  quiet w ->
  spied t m p p2 (fs_get g) w =
    (mres_of (g (w_st w)), after t m p p2 (err_of (mres_of (g (w_st w)))) w (w_st w)).
Proof.
  intros A t m p p2 g w Hq.
  rewrite (spied_quiet_run A t m p p2 (fs_get g) w (mres_of (g (w_st w))) (tickw w) Hq);
    [| rewrite fs_get_run; reflexivity | apply mres_of_not_halt].
  unfold after. rewrite set_st_tickw_same. reflexivity.
Qed.

Lemma err_of_mres_map : forall (A B : Type) (h : A -> B) r, err_of (mres_map h r) = err_of r.
Proof. intros A B h [a|e|]; reflexivity. Qed.

Lemma spied_fs_upd_map_quiet : forall (A B : Type) t m p p2 (g : fstate -> res A * fstate) (h : A -> B) w,
  quiet w ->
  spied t m p p2 (mapM h (fs_upd g)) w =
    (mres_map h (mres_of (fst (g (w_st w)))),
     after t m p p2 (err_of (mres_of (fst (g (w_st w))))) w (snd (g (w_st w)))).
Proof.
  intros A B t m p p2 g h w Hq.
  rewrite (spied_quiet_run B t m p p2 _ w (mres_map h (mres_of (fst (g (w_st w)))))
             (set_st (tickw w) (snd (g (w_st w)))) Hq).
  - rewrite err_of_mres_map. reflexivity.
  - rewrite mapM_run, fs_upd_run. reflexivity.
  - apply mres_map_not_halt. apply mres_of_not_halt.
Qed.

Lemma spied_fs_get_map_quiet : forall (A B : Type) t m p p2 (g : fstate -> res A) (h : A -> B) w,
  quiet w ->
  spied t m p p2 (mapM h (fs_get g)) w =
    (mres_map h (mres_of (g (w_st w))), after t m p p2 (err_of (mres_of (g (w_st w)))) w (w_st w)).
Proof.
  intros A B t m p p2 g h w Hq.
  rewrite (spied_quiet_run B t m p p2 _ w (mres_map h (mres_of (g (w_st w)))) (tickw w) Hq).
  - rewrite err_of_mres_map. unfold after. rewrite set_st_tickw_same. reflexivity.
  - rewrite mapM_run, fs_get_run. reflexivity.
  - apply mres_map_not_halt. apply mres_of_not_halt.
Qed.

(** the world [after] a spied call *)
Lemma w_st_after : forall t m p p2 e w s, w_st (after t m p p2 e w s) = s.            Proof. reflexivity. Qed.
Lemma w_infos_after : forall t m p p2 e w s, w_infos (after t m p p2 e w s) = w_infos w. Proof. reflexivity. Qed.
Lemma w_crash_after : forall t m p p2 e w s, w_crash (after t m p p2 e w s) = w_crash w. Proof. reflexivity. Qed.
Lemma w_faults_after : forall t m p p2 e w s, w_faults (after t m p p2 e w s) = w_faults w. Proof. reflexivity. Qed.
Lemma quiet_after : forall t m p p2 e w s, quiet (after t m p p2 e w s) <-> quiet w.
Proof. intros t m p p2 e w s. unfold quiet. tauto. Qed.
Lemma Vp_after : forall pfx t m p p2 e w s,
  Vp pfx (after t m p p2 e w s) = if world_okb pfx (st_fs s) then view_of pfx (st_fs s) else ∅.
Proof. reflexivity. Qed.
Lemma Vp_after_same : forall pfx t m p p2 e w, Vp pfx (after t m p p2 e w (w_st w)) = Vp pfx w.
Proof. reflexivity. Qed.
Lemma Vp_after_ok : forall pfx t m p p2 e w s,
  world_okb pfx (st_fs s) = true -> Vp pfx (after t m p p2 e w s) = view_of pfx (st_fs s).
Proof. intros pfx t m p p2 e w s H. rewrite Vp_after, H. reflexivity. Qed.

(** [same_rest] for the view of a disjoint prefix after a change below [pa] *)
Lemma same_rest_after : forall pa pb t m p p2 e w s,
  disjoint_prefixes pa pb ->
  world_okb pa (st_fs (w_st w)) = true -> world_okb pa (st_fs s) = true ->
  same_outside pa (st_fs s) (st_fs (w_st w)) ->
  same_rest (Vp pb) w (after t m p p2 e w s).
Proof.
  intros pa pb t m p p2 e w s Hd H H' Hso. split; [|split; [|split]]; try reflexivity.
  apply (Vp_frame pa pb w _ Hd H); [exact H' | exact Hso].
Qed.

(** ... and after a call that did not change the state *)
Lemma same_rest_after_same : forall pb t m p p2 e w,
  same_rest (Vp pb) w (after t m p p2 e w (w_st w)).
Proof. intros pb t m p p2 e w. split; [|split; [|split]]; reflexivity. Qed.

(* ------------------------------------------------------------------ *)
(** ** D.2 every method of [the_api], unfolded to the OS primitive *)

Lemma prefixfs_call_single : forall pfx m p aux,
  prefix_ok pfx -> is_abs p = true -> two_paths m = false ->
  prefixfs_call pfx (mkCall m p [] aux) = Fwd (mkCall m (wpath pfx p) [] aux).
Proof.
  intros pfx m p aux Hp Ha Hm. rewrite <- (join2_wpath pfx p Hp Ha).
  apply prefixfs_refines_single; [exact (proj1 (proj1 Hp)) | exact Hm |].
  rewrite (join2_wpath pfx p Hp Ha). apply within_wpath; assumption.
Qed.

Lemma prefixfs_call_rename : forall pfx po pn aux,
  prefix_ok pfx -> is_abs po = true -> is_abs pn = true ->
  prefixfs_call pfx (mkCall MRename po pn aux) = Fwd (mkCall MRename (wpath pfx po) (wpath pfx pn) aux).
Proof.
  intros pfx po pn aux Hp Ho Hn.
  rewrite <- (join2_wpath pfx po Hp Ho), <- (join2_wpath pfx pn Hp Hn).
  apply prefixfs_refines_rename; [exact (proj1 (proj1 Hp)) | |].
  - rewrite (join2_wpath pfx po Hp Ho). apply within_wpath; assumption.
  - rewrite (join2_wpath pfx pn Hp Hn). apply within_wpath; assumption.
Qed.

(** Symlink: the acceptance test and the target handed to the OS *)
Definition sym_accb (pfx t p : str) : bool :=
  is_abs t || has_path_prefix (join2 (dir (wpath pfx p)) t) pfx.

Definition sym_target (pfx t : str) : str := if is_abs t then wpath pfx t else t.

Lemma prefixfs_call_symlink : forall pfx t p aux,
  prefix_ok pfx -> is_abs p = true ->
  prefixfs_call pfx (mkCall MSymlink t p aux) =
    if sym_accb pfx t p then Fwd (mkCall MSymlink (sym_target pfx t) (wpath pfx p) aux) else Rej EPERM.
Proof.
  intros pfx t p aux Hp Ha. unfold prefixfs_call, sym_accb, sym_target. cbn [c_meth c_a c_b c_aux].
  rewrite (prefix_path_wpath pfx p Hp Ha). destruct (is_abs t) eqn:Et.
  - rewrite (prefix_path_wpath pfx t Hp Et). reflexivity.
  - simpl. destruct (has_path_prefix (join2 (dir (wpath pfx p)) t) pfx); reflexivity.
Qed.

Lemma acc_p_iff : forall pfx t p,
  prefix_ok pfx -> is_abs p = true -> (acc_p pfx t p <-> sym_accb pfx t p = true).
Proof.
  intros pfx t p Hp Ha. unfold acc_p. rewrite (prefixfs_call_symlink pfx t p [] Hp Ha).
  destruct (sym_accb pfx t p); split; intro H; try reflexivity.
  - eexists. reflexivity.
  - destruct H as [c' H]. discriminate H.
  - discriminate H.
Qed.

Lemma acc_p_abs : forall pfx t p,
  prefix_ok pfx -> is_abs p = true -> is_abs t = true -> acc_p pfx t p.
Proof.
  intros pfx t p Hp Ha Ht. apply (acc_p_iff pfx t p Hp Ha). unfold sym_accb. rewrite Ht. reflexivity.
Qed.

(** what [Readlink] reports for the target [Symlink] stored *)
Lemma vtarget_sym_target : forall pfx t p,
  prefix_ok pfx -> is_abs p = true -> sym_accb pfx t p = true ->
  vtarget pfx (sym_target pfx t) = clean t.
Proof.
  intros pfx t p Hp Ha Hacc. unfold vtarget.
  pose proof (prefixfs_call_symlink pfx t p [] Hp Ha) as E. rewrite Hacc in E.
  exact (prefixfs_symlink_readlink pfx t p [] _ (proj1 (proj1 Hp)) (proj2 (proj1 Hp)) E).
Qed.

Lemma sym_target_nonempty : forall pfx t, t <> [] -> sym_target pfx t <> [].
Proof.
  intros pfx t Ht. unfold sym_target. destruct (is_abs t); [apply wpath_nonempty | exact Ht].
Qed.

Lemma z_to_mtime_to_z : forall t, z_to_mtime (mtime_to_z t) = t.
Proof.
  intros [n|i]; unfold z_to_mtime, mtime_to_z.
  - assert (H : (Z.of_N n <? 0)%Z = false) by (apply Z.ltb_ge; apply N2Z.is_nonneg).
    rewrite H, N2Z.id. reflexivity.
  - assert (H : (- Z.of_N i - 1 <? 0)%Z = true) by (apply Z.ltb_lt; pose proof (N2Z.is_nonneg i); lia).
    rewrite H. replace (- (- Z.of_N i - 1) - 1)%Z with (Z.of_N i) by lia. rewrite N2Z.id. reflexivity.
Qed.

(** the handle [Open]/[OpenFile]/[Create] of [the_api] return for the OS handle [h] *)
Definition the_handle (tag : fstag) (pfx p : str) (h : handle) : fhandle :=
  mkFh h (prefix_file_reported_name pfx (wpath pfx p) (wpath pfx p)) (Some (tag, p)) None.

Lemma the_handle_eq : forall tag pfx p h,
  prefix_ok pfx -> abs_cleaned p -> the_handle tag pfx p h = mkFh h p (Some (tag, p)) None.
Proof. intros tag pfx p h Hp Hac. unfold the_handle. rewrite (file_name_wpath pfx p Hp Hac). reflexivity. Qed.

Section Unfold.
  Variable tag : fstag.
  Variable pfx : str.
  Hypothesis Hp : prefix_ok pfx.

  Ltac unfold_api :=
    unfold the_api, prefixfs; rewrite (prefix_ok_cleaned pfx Hp);
    unfold spy, layered, layered_with;
    cbn [a_lstat a_stat a_readlink a_open a_openfile a_create a_mkdir a_mkdirall a_remove
         a_removeall a_rename a_chmod a_chown a_lchown a_chtimes a_symlink
         prefix_layer l_call l_info l_handle l_link l_multi].

  Lemma the_api_lstat : forall p, is_abs p = true ->
    a_lstat (the_api tag pfx) p =
    spied tag (PM MLstat) p []
      (mapM (fun fi => set_info_name fi (prefix_info_reported_name pfx (wpath pfx p) (fi_name fi)))
            (fs_get (fun s => fs_lstat s (wpath pfx p)))).
  Proof.
    intros p Ha. unfold_api.
    rewrite (prefixfs_call_single pfx MLstat p [] Hp Ha eq_refl).
    cbn [with_outcome dispatch_info c_meth c_a osfs a_lstat a_stat a_readlink]. unfold mapM. reflexivity.
  Qed.

  Lemma the_api_stat : forall p, is_abs p = true ->
    a_stat (the_api tag pfx) p =
    spied tag (PM MStat) p []
      (mapM (fun fi => set_info_name fi (prefix_info_reported_name pfx (wpath pfx p) (fi_name fi)))
            (fs_get (fun s => fs_stat s (wpath pfx p)))).
  Proof.
    intros p Ha. unfold_api.
    rewrite (prefixfs_call_single pfx MStat p [] Hp Ha eq_refl).
    cbn [with_outcome dispatch_info c_meth c_a osfs a_lstat a_stat a_readlink]. unfold mapM. reflexivity.
  Qed.

  Lemma the_api_readlink : forall p, is_abs p = true ->
    a_readlink (the_api tag pfx) p =
    spied tag (PM MReadlink) p []
      (mapM (vtarget pfx) (fs_get (fun s => fs_readlink s (wpath pfx p)))).
  Proof.
    intros p Ha. unfold_api.
    rewrite (prefixfs_call_single pfx MReadlink p [] Hp Ha eq_refl).
    cbn [with_outcome dispatch_info c_meth c_a osfs a_lstat a_stat a_readlink]. unfold mapM. reflexivity.
  Qed.

  Lemma the_api_mkdir : forall p perm, is_abs p = true ->
    a_mkdir (the_api tag pfx) p perm =
    spied tag (PM MMkdir) p [] (fs_upd (fun s => fs_mkdir s (wpath pfx p) perm)).
  Proof.
    intros p perm Ha. unfold_api.
    rewrite (prefixfs_call_single pfx MMkdir p _ Hp Ha eq_refl).
    cbn [with_outcome dispatch_unit c_meth c_a osfs a_mkdir aux0 c_aux nth].
    rewrite N2Z.id. reflexivity.
  Qed.

  Lemma the_api_mkdirall : forall p perm, is_abs p = true ->
    a_mkdirall (the_api tag pfx) p perm =
    spied tag (PM MMkdirAll) p [] (fs_upd (fun s => fs_mkdirall s (wpath pfx p) perm)).
  Proof.
    intros p perm Ha. unfold_api.
    rewrite (prefixfs_call_single pfx MMkdirAll p _ Hp Ha eq_refl).
    cbn [with_outcome dispatch_unit c_meth c_a osfs a_mkdirall aux0 c_aux nth].
    rewrite N2Z.id. reflexivity.
  Qed.

  Lemma the_api_remove : forall p, is_abs p = true ->
    a_remove (the_api tag pfx) p =
    spied tag (PM MRemove) p [] (fs_upd (fun s => fs_remove s (wpath pfx p))).
  Proof.
    intros p Ha. unfold_api.
    rewrite (prefixfs_call_single pfx MRemove p _ Hp Ha eq_refl). reflexivity.
  Qed.

  Lemma the_api_removeall : forall p, is_abs p = true ->
    a_removeall (the_api tag pfx) p =
    spied tag (PM MRemoveAll) p [] (fs_upd (fun s => fs_removeall s (wpath pfx p))).
  Proof.
    intros p Ha. unfold_api.
    rewrite (prefixfs_call_single pfx MRemoveAll p _ Hp Ha eq_refl). reflexivity.
  Qed.

  Lemma the_api_rename : forall po pn, is_abs po = true -> is_abs pn = true ->
    a_rename (the_api tag pfx) po pn =
    spied tag (PM MRename) po pn (fs_upd (fun s => fs_rename s (wpath pfx po) (wpath pfx pn))).
  Proof.
    intros po pn Ho Hn. unfold_api.
    rewrite (prefixfs_call_rename pfx po pn [] Hp Ho Hn). reflexivity.
  Qed.

  Lemma the_api_chmod : forall p mode, is_abs p = true ->
    a_chmod (the_api tag pfx) p mode =
    spied tag (PM MChmod) p [] (fs_upd (fun s => fs_chmod s (wpath pfx p) mode)).
  Proof.
    intros p mode Ha. unfold_api.
    rewrite (prefixfs_call_single pfx MChmod p _ Hp Ha eq_refl).
    cbn [with_outcome dispatch_unit c_meth c_a osfs a_chmod aux0 c_aux nth].
    rewrite N2Z.id. reflexivity.
  Qed.

  Lemma the_api_chown : forall p u g, is_abs p = true ->
    a_chown (the_api tag pfx) p u g =
    spied tag (PM MChown) p [] (fs_upd (fun s => fs_chown s (wpath pfx p) u g)).
  Proof.
    intros p u g Ha. unfold_api.
    rewrite (prefixfs_call_single pfx MChown p _ Hp Ha eq_refl). reflexivity.
  Qed.

  Lemma the_api_lchown : forall p u g, is_abs p = true ->
    a_lchown (the_api tag pfx) p u g =
    spied tag (PM MLchown) p [] (fs_upd (fun s => fs_lchown s (wpath pfx p) u g)).
  Proof.
    intros p u g Ha. unfold_api.
    rewrite (prefixfs_call_single pfx MLchown p _ Hp Ha eq_refl). reflexivity.
  Qed.

  Lemma the_api_chtimes : forall p t, is_abs p = true ->
    a_chtimes (the_api tag pfx) p t =
    spied tag (PM MChtimes) p [] (fs_upd (fun s => fs_chtimes s (wpath pfx p) t)).
  Proof.
    intros p t Ha. unfold_api.
    rewrite (prefixfs_call_single pfx MChtimes p _ Hp Ha eq_refl).
    cbn [with_outcome dispatch_unit c_meth c_a osfs a_chtimes aux0 c_aux nth].
    rewrite z_to_mtime_to_z. reflexivity.
  Qed.

  Lemma the_api_symlink : forall t p, is_abs p = true ->
    a_symlink (the_api tag pfx) t p =
    spied tag (PM MSymlink) p t
      (if sym_accb pfx t p
       then fs_upd (fun s => fs_symlink s (sym_target pfx t) (wpath pfx p))
       else fail (ELayer EPERM)).
  Proof.
    intros t p Ha. unfold_api.
    rewrite (prefixfs_call_symlink pfx t p [] Hp Ha).
    destruct (sym_accb pfx t p); reflexivity.
  Qed.

  Lemma the_api_symlink_acc : forall t p, is_abs p = true -> acc_p pfx t p ->
    a_symlink (the_api tag pfx) t p =
    spied tag (PM MSymlink) p t (fs_upd (fun s => fs_symlink s (sym_target pfx t) (wpath pfx p))).
  Proof.
    intros t p Ha Hacc. rewrite (the_api_symlink t p Ha).
    apply (acc_p_iff pfx t p Hp Ha) in Hacc. rewrite Hacc. reflexivity.
  Qed.

  (** the handle-returning methods (pointwise: three nested binds are flattened) *)
  Lemma the_api_openfile : forall p fl perm w, is_abs p = true ->
    a_openfile (the_api tag pfx) p fl perm w =
    spied tag (PM MOpenFile) p []
      (mapM (the_handle tag pfx p) (fs_upd (fun s => fs_open s (wpath pfx p) fl perm))) w.
  Proof.
    intros p fl perm w Ha. unfold_api.
    rewrite (prefixfs_call_single pfx MOpenFile p _ Hp Ha eq_refl).
    cbn [with_outcome dispatch_handle c_meth c_a osfs a_openfile aux0 aux1 c_aux nth].
    rewrite !N2Z.id. apply spied_ext. intros w1. unfold mapM, os_openfile, bind, ret.
    destruct (fs_upd (fun s => fs_open s (wpath pfx p) fl perm) w1) as [[h|e|] w2]; reflexivity.
  Qed.

  Lemma the_api_open : forall p w, is_abs p = true ->
    a_open (the_api tag pfx) p w =
    spied tag (PM MOpen) p []
      (mapM (the_handle tag pfx p) (fs_upd (fun s => fs_open s (wpath pfx p) 0 0))) w.
  Proof.
    intros p w Ha. unfold_api.
    rewrite (prefixfs_call_single pfx MOpen p _ Hp Ha eq_refl).
    cbn [with_outcome dispatch_handle c_meth c_a osfs a_open].
    apply spied_ext. intros w1. unfold mapM, os_openfile, bind, ret.
    destruct (fs_upd (fun s => fs_open s (wpath pfx p) 0 0) w1) as [[h|e|] w2]; reflexivity.
  Qed.

  Lemma the_api_create : forall p w, is_abs p = true ->
    a_create (the_api tag pfx) p w =
    spied tag (PM MCreate) p []
      (mapM (the_handle tag pfx p) (fs_upd (fun s => fs_open s (wpath pfx p) 578 438))) w.
  Proof.
    intros p w Ha. unfold_api.
    rewrite (prefixfs_call_single pfx MCreate p _ Hp Ha eq_refl).
    cbn [with_outcome dispatch_handle c_meth c_a osfs a_create].
    apply spied_ext. intros w1. unfold mapM, os_openfile, bind, ret.
    destruct (fs_upd (fun s => fs_open s (wpath pfx p) 578 438) w1) as [[h|e|] w2]; reflexivity.
  Qed.
End Unfold.

(* ------------------------------------------------------------------ *)
(** ** D.3 operations on the handles of [the_api] *)

Lemma spy_h_spied : forall (A : Type) h tag p m (op : M A),
  fh_spy h = Some (tag, p) -> spy_h h m op = spied tag m p [] op.
Proof. intros A h tag p m op H. unfold spy_h. rewrite H. reflexivity. Qed.

(** the OS handle after reading / writing [n] bytes *)
Definition advance_h (h : handle) (n : nat) : handle :=
  mkHandle (h_key h) (h_pos h + N.of_nat n) (h_write h) (h_read h) (h_append h) (h_dir h) (h_name h).

Definition seek_h (h : handle) (pos : nat) : handle :=
  mkHandle (h_key h) (N.of_nat pos) (h_write h) (h_read h) (h_append h) (h_dir h) (h_name h).

Lemma rh_p_spy : forall tag pfx h p pos, rh_p tag pfx h p pos -> fh_spy h = Some (tag, p).
Proof. intros tag pfx h p pos H. exact (proj1 H). Qed.

Lemma wh_p_spy : forall tag pfx h p pos, wh_p tag pfx h p pos -> fh_spy h = Some (tag, p).
Proof. intros tag pfx h p pos H. exact (proj1 H). Qed.

Lemma rh_p_advance : forall tag pfx h p pos n,
  rh_p tag pfx h p pos -> rh_p tag pfx (set_fh h (advance_h (fh h) n)) p (pos + n).
Proof.
  intros tag pfx h p pos n (H1 & H2 & H3 & H4 & H5 & H6).
  unfold rh_p, set_fh, advance_h. simpl. rewrite H3, Nat2N.inj_add. repeat split; assumption.
Qed.

Lemma rh_p_same : forall tag pfx h p pos, rh_p tag pfx h p pos -> rh_p tag pfx (set_fh h (fh h)) p pos.
Proof. intros tag pfx h p pos H. exact H. Qed.

Lemma wh_p_seek : forall tag pfx h p pos pos',
  wh_p tag pfx h p pos -> wh_p tag pfx (set_fh h (seek_h (fh h) pos')) p pos'.
Proof.
  intros tag pfx h p pos pos' (H1 & H2 & H3 & H4 & H5 & H6).
  unfold wh_p, set_fh, seek_h. simpl. repeat split; assumption.
Qed.

(** the handle the API returns is a read / write handle *)
Lemma the_handle_rh : forall tag pfx p hname,
  rh_p tag pfx (the_handle tag pfx p (mkHandle (wkey pfx p) 0 false true false false hname)) p 0.
Proof. intros tag pfx p hname. unfold rh_p, the_handle. simpl. repeat split. Qed.

Lemma the_handle_wh : forall tag pfx p rd hname,
  wh_p tag pfx (the_handle tag pfx p (mkHandle (wkey pfx p) 0 true rd false false hname)) p 0.
Proof. intros tag pfx p rd hname. unfold wh_p, the_handle. simpl. repeat split. Qed.

Lemma fs_read_rh : forall tag pfx h p pos s m c,
  rh_p tag pfx h p pos -> st_fs s !! wkey pfx p = Some (File m c) ->
  fs_read s (fh h) =
    match skipn pos c with
    | [] => (Ok None, fh h)
    | rest => (Ok (Some (firstn chunk_size rest)),
               advance_h (fh h) (length (firstn chunk_size rest)))
    end.
Proof.
  intros tag pfx h p pos s m c (H1 & H2 & H3 & H4 & H5 & H6) Hl.
  unfold fs_read, advance_h. rewrite H4, H5, H2, Hl, H3, Nat2N.id. simpl negb. simpl orb. cbv iota.
  destruct (skipn pos c); reflexivity.
Qed.

Lemma fs_write_wh : forall tag pfx h p pos s m c data,
  wh_p tag pfx h p pos -> st_fs s !! wkey pfx p = Some (File m c) ->
  fs_write s (fh h) data =
    (Ok tt,
     (update_node (mkFstate (st_fs s) (N.succ (st_clock s))) (wkey pfx p)
        (File (mkMeta (m_perm m) (m_uid m) (m_gid m) (Now (st_clock s)))
              (firstn pos c ++ data ++ skipn (pos + length data) c)),
      seek_h (fh h) (pos + length data))).
Proof.
  intros tag pfx h p pos s m c data (H1 & H2 & H3 & H4 & H5 & H6) Hl.
  unfold fs_write, seek_h. rewrite H4, H2, Hl, H5, H3, Nat2N.id. reflexivity.
Qed.

Lemma write_at_end : forall (c data : list N) pos,
  length c = pos -> firstn pos c ++ data ++ skipn (pos + length data) c = c ++ data.
Proof.
  intros c data pos H. subst pos. rewrite firstn_all, skipn_all2 by lia. rewrite app_nil_r. reflexivity.
Qed.

Lemma fs_hstat_key : forall s h n,
  st_fs s !! h_key h = Some n -> fs_hstat s h = Ok (info_of (base (h_name h)) n).
Proof. intros s h n H. unfold fs_hstat. rewrite H. reflexivity. Qed.

Section Handles.
  Variable tag : fstag.
  Variable pfx : str.

  Lemma hread_quiet : forall h p pos w m c,
    quiet w -> rh_p tag pfx h p pos -> st_fs (w_st w) !! wkey pfx p = Some (File m c) ->
    hread h w =
      match skipn pos c with
      | [] => (MOk (None, set_fh h (fh h)), after tag PRead p [] None w (w_st w))
      | rest => (MOk (Some (firstn chunk_size rest),
                      set_fh h (advance_h (fh h) (length (firstn chunk_size rest)))),
                 after tag PRead p [] None w (w_st w))
      end.
  Proof.
    intros h p pos w m c Hq Hrh Hl. unfold hread.
    rewrite (spy_h_spied _ h tag p PRead _ (rh_p_spy _ _ _ _ _ Hrh)).
    pose proof (fs_read_rh tag pfx h p pos (w_st w) m c Hrh Hl) as E.
    destruct (skipn pos c) as [|x rest] eqn:Es.
    - rewrite (spied_quiet_run _ tag PRead p [] _ w (MOk (None, set_fh h (fh h))) (tickw w) Hq).
      + unfold after. rewrite set_st_tickw_same. reflexivity.
      + rewrite w_st_tickw, E. reflexivity.
      + discriminate.
    - rewrite (spied_quiet_run _ tag PRead p [] _ w
                 (MOk (Some (firstn chunk_size (x :: rest)),
                       set_fh h (advance_h (fh h) (length (firstn chunk_size (x :: rest))))))
                 (tickw w) Hq).
      + unfold after. rewrite set_st_tickw_same. reflexivity.
      + rewrite w_st_tickw, E. reflexivity.
      + discriminate.
  Qed.

  Lemma hwrite_quiet : forall h p pos w m c data,
    quiet w -> wh_p tag pfx h p pos -> st_fs (w_st w) !! wkey pfx p = Some (File m c) ->
    hwrite h data w =
      (MOk (set_fh h (seek_h (fh h) (pos + length data))),
       after tag PWrite p [] None w
         (update_node (mkFstate (st_fs (w_st w)) (N.succ (st_clock (w_st w)))) (wkey pfx p)
            (File (mkMeta (m_perm m) (m_uid m) (m_gid m) (Now (st_clock (w_st w))))
                  (firstn pos c ++ data ++ skipn (pos + length data) c)))).
  Proof.
    intros h p pos w m c data Hq Hwh Hl. unfold hwrite.
    rewrite (spy_h_spied _ h tag p PWrite _ (wh_p_spy _ _ _ _ _ Hwh)).
    pose proof (fs_write_wh tag pfx h p pos (w_st w) m c data Hwh Hl) as E.
    rewrite (spied_quiet_run _ tag PWrite p [] _ w
               (MOk (set_fh h (seek_h (fh h) (pos + length data))))
               (set_st (tickw w)
                  (update_node (mkFstate (st_fs (w_st w)) (N.succ (st_clock (w_st w)))) (wkey pfx p)
                     (File (mkMeta (m_perm m) (m_uid m) (m_gid m) (Now (st_clock (w_st w))))
                           (firstn pos c ++ data ++ skipn (pos + length data) c)))) Hq).
    - reflexivity.
    - rewrite w_st_tickw, E. reflexivity.
    - discriminate.
  Qed.

  Lemma hclose_quiet : forall h p w,
    quiet w -> fh_spy h = Some (tag, p) ->
    hclose h w = (MOk tt, after tag PClose p [] None w (w_st w)).
  Proof.
    intros h p w Hq Hs. unfold hclose. rewrite (spy_h_spied _ h tag p PClose _ Hs).
    rewrite (spied_quiet_run _ tag PClose p [] (ret tt) w (MOk tt) (tickw w) Hq);
      [| reflexivity | discriminate].
    unfold after. rewrite set_st_tickw_same. reflexivity.
  Qed.

  Lemma hstat_quiet : forall h p w n,
    quiet w -> fh_spy h = Some (tag, p) -> h_key (fh h) = wkey pfx p ->
    st_fs (w_st w) !! wkey pfx p = Some n ->
    hstat h w = (MOk (info_of (base (h_name (fh h))) n), after tag PHStat p [] None w (w_st w)).
  Proof.
    intros h p w n Hq Hs Hk Hl. unfold hstat. rewrite (spy_h_spied _ h tag p PHStat _ Hs).
    rewrite (spied_fs_get_quiet _ tag PHStat p [] _ w Hq).
    rewrite (fs_hstat_key (w_st w) (fh h) n) by (rewrite Hk; exact Hl). reflexivity.
  Qed.
End Handles.

(* ------------------------------------------------------------------ *)
(** * E. Primitives on a path whose parents do not resolve

    Under [snolinkpar] a path is either addressable directly ([direct], the
    master equations of Proofs/FsFacts.v apply) or the walk stops with a
    not-found error ([resolve_nolinkpar_notfound]); then every primitive fails
    and leaves the state alone.  ([fs_mkdirall] is not covered: it creates the
    missing ancestors.) *)

Definition unresolvable (f : fs) (q : str) : Prop :=
  forall follow, exists e, resolve f q follow = WErr e /\ is_not_found e = true.

Lemma nolinkpar_unresolvable : forall f q,
  wf f -> nolinkpar f q -> ~ direct f q -> unresolvable f q.
Proof. intros f q Hwf Hnl Hnd follow. apply resolve_nolinkpar_notfound; assumption. Qed.

(** the world path of a view path under [snolinkpar]: direct or unresolvable *)
Lemma wpath_direct_or_unresolvable : forall pfx (f : fs) p,
  prefix_ok pfx -> world_okb pfx f = true -> abs_cleaned p ->
  snolinkpar (view_of pfx f) p ->
  direct f (wpath pfx p) \/ (unresolvable f (wpath pfx p) /\ f !! wkey pfx p = None).
Proof.
  intros pfx f p Hp Hok Hac Hnl.
  destruct (nolinkpar_direct_or_absent pfx f p Hp Hok (proj2 Hac)) as [H|[H Hn]]; [left; exact H|].
  right. split; [|exact Hn]. apply nolinkpar_unresolvable.
  - exact (world_okb_wf _ _ Hok).
  - apply (snolinkpar_view pfx f p Hp Hok Hac). exact Hnl.
  - exact H.
Qed.

Section Unresolvable.
  Variable s : fstate.
  Variable q : str.
  Hypothesis Hac : abs_cleaned q.
  Hypothesis Hun : unresolvable (st_fs s) q.

  Lemma fs_lstat_unresolvable : exists e, fs_lstat s q = Err e /\ is_not_found e = true.
  Proof.
    unfold fs_lstat. destruct (Hun false) as [e [E Hnf]]. rewrite E. exists e. split; [reflexivity | exact Hnf].
  Qed.

  Lemma fs_stat_unresolvable : exists e, fs_stat s q = Err e /\ is_not_found e = true.
  Proof.
    unfold fs_stat. destruct (Hun true) as [e [E Hnf]]. rewrite E. exists e. split; [reflexivity | exact Hnf].
  Qed.

  Lemma fs_readlink_unresolvable : exists e, fs_readlink s q = Err e /\ is_not_found e = true.
  Proof.
    unfold fs_readlink. destruct (Hun false) as [e [E Hnf]]. rewrite E. exists e. split; [reflexivity | exact Hnf].
  Qed.

  Lemma fs_mkdir_unresolvable : forall perm,
    exists e, fs_mkdir s q perm = (Err e, s) /\ is_not_found e = true.
  Proof.
    intros perm. unfold fs_mkdir. rewrite (strip_or_self_abs_cleaned q Hac).
    destruct (Hun false) as [e [E Hnf]]. rewrite E. exists e. split; [reflexivity | exact Hnf].
  Qed.

  Lemma fs_unlink_unresolvable : exists e, fs_unlink s q = (Err e, s) /\ is_not_found e = true.
  Proof.
    unfold fs_unlink. rewrite (slashed_link_abs_cleaned s q Hac).
    destruct (Hun false) as [e [E Hnf]]. rewrite E. exists e. split; [reflexivity | exact Hnf].
  Qed.

  Lemma fs_rmdir_unresolvable : exists e, fs_rmdir s q = (Err e, s) /\ is_not_found e = true.
  Proof.
    unfold fs_rmdir. rewrite (slashed_link_abs_cleaned s q Hac).
    destruct (Hun false) as [e [E Hnf]]. rewrite E. exists e. split; [reflexivity | exact Hnf].
  Qed.

  Lemma fs_remove_unresolvable : exists e, fs_remove s q = (Err e, s) /\ is_not_found e = true.
  Proof.
    unfold fs_remove. destruct fs_unlink_unresolvable as [e [E Hnf]].
    destruct fs_rmdir_unresolvable as [e1 [E1 Hnf1]]. rewrite E, E1.
    exists (if errno_eqb e1 ENOTDIR then e else e1). split; [reflexivity|].
    destruct (errno_eqb e1 ENOTDIR); assumption.
  Qed.

  Lemma fs_removeall_unresolvable : exists r, fs_removeall s q = (r, s).
  Proof.
    unfold fs_removeall. destruct (Hun false) as [e [E Hnf]]. rewrite E.
    destruct q; [eexists; reflexivity|]. destruct e; eexists; reflexivity.
  Qed.

  Lemma fs_chmod_unresolvable : forall mode,
    exists e, fs_chmod s q mode = (Err e, s) /\ is_not_found e = true.
  Proof.
    intros mode. unfold fs_chmod. destruct (Hun true) as [e [E Hnf]]. rewrite E.
    exists e. split; [reflexivity | exact Hnf].
  Qed.

  Lemma fs_chown_gen_unresolvable : forall follow u g,
    exists e, fs_chown_gen follow s q u g = (Err e, s) /\ is_not_found e = true.
  Proof.
    intros follow u g. unfold fs_chown_gen. destruct (Hun follow) as [e [E Hnf]]. rewrite E.
    exists e. split; [reflexivity | exact Hnf].
  Qed.

  Lemma fs_chown_unresolvable : forall u g,
    exists e, fs_chown s q u g = (Err e, s) /\ is_not_found e = true.
  Proof. intros u g. apply fs_chown_gen_unresolvable. Qed.

  Lemma fs_lchown_unresolvable : forall u g,
    exists e, fs_lchown s q u g = (Err e, s) /\ is_not_found e = true.
  Proof. intros u g. apply fs_chown_gen_unresolvable. Qed.

  Lemma fs_chtimes_unresolvable : forall t,
    exists e, fs_chtimes s q t = (Err e, s) /\ is_not_found e = true.
  Proof.
    intros t. unfold fs_chtimes. destruct (Hun true) as [e [E Hnf]]. rewrite E.
    exists e. split; [reflexivity | exact Hnf].
  Qed.

  Lemma fs_symlink_unresolvable : forall target,
    exists e, fs_symlink s target q = (Err e, s) /\ is_not_found e = true.
  Proof.
    intros target. unfold fs_symlink. destruct target as [|x t]; [exists ENOENT; split; reflexivity|].
    rewrite (strip_or_self_abs_cleaned q Hac).
    destruct (Hun false) as [e [E Hnf]]. rewrite E. exists e. split; [reflexivity | exact Hnf].
  Qed.

  Lemma fs_open_unresolvable : forall fl perm,
    exists e, fs_open s q fl perm = (Err e, s) /\ is_not_found e = true.
  Proof.
    intros fl perm. unfold fs_open. cbv zeta. rewrite (open_slash_guard q (o_creat fl) Hac).
    destruct (Hun (negb (o_creat fl && o_excl fl))) as [e [E Hnf]]. rewrite E.
    exists e. split; [reflexivity | exact Hnf].
  Qed.

  (** [Rename]: an unresolvable old or new name *)
  Lemma fs_rename_unresolvable_old : forall pn, exists e, fs_rename s q pn = (Err e, s).
  Proof.
    intros pn. unfold fs_rename. destruct (Hun false) as [e [E _]]. rewrite E. exists e. reflexivity.
  Qed.

  Lemma fs_rename_unresolvable_new : forall po, exists e, fs_rename s po q = (Err e, s).
  Proof.
    intros po. unfold fs_rename. rewrite (strip_or_self_abs_cleaned q Hac).
    destruct (Hun false) as [e [E _]]. rewrite E.
    destruct (resolve (st_fs s) po false) as [ko no|pk name sl|e0].
    - destruct ko; eexists; reflexivity.
    - eexists; reflexivity.
    - eexists; reflexivity.
  Qed.
End Unresolvable.

(* ------------------------------------------------------------------ *)
(** * F. One-step equations for [the_api] on a quiet world

    [a_X (the_api tag pfx) p args w] for a view path [p] whose world path is
    addressable directly, as one [match] on [st_fs (w_st w) !! wkey pfx p]:
    the composition of D.2, D.1 and the master equations of Proofs/FsFacts.v,
    stated with the keys of the view ([wkey]) so that no conversion between
    [comps (wpath pfx p)] and [wkey pfx p] is left to the user. *)

(** result and world after a spied primitive that returned [R] *)
Definition fin {A} (t : fstag) (m : pmeth) (p p2 : str) (w : world) (R : res A * fstate) : mres A * world :=
  (mres_of (fst R), after t m p p2 (err_of (mres_of (fst R))) w (snd R)).

Lemma fin_ok : forall (A : Type) t m p p2 w (a : A) s,
  fin t m p p2 w (Ok a, s) = (MOk a, after t m p p2 None w s).
Proof. reflexivity. Qed.

Lemma fin_err : forall (A : Type) t m p p2 w e s,
  @fin A t m p p2 w (Err e, s) = (MErr e, after t m p p2 (Some e) w s).
Proof. reflexivity. Qed.

Lemma fin_not_halt : forall (A : Type) t m p p2 w (R : res A * fstate), fst (fin t m p p2 w R) <> MHalt.
Proof. intros A t m p p2 w R. apply mres_of_not_halt. Qed.

Lemma fin_st : forall (A : Type) t m p p2 w (R : res A * fstate), w_st (snd (fin t m p p2 w R)) = snd R.
Proof. reflexivity. Qed.

Lemma spied_fs_upd_fin : forall (A : Type) t m p p2 (g : fstate -> res A * fstate) w,
  quiet w -> spied t m p p2 (fs_upd g) w = fin t m p p2 w (g (w_st w)).
Proof. intros A t m p p2 g w Hq. apply spied_fs_upd_quiet. exact Hq. Qed.

Lemma spied_fs_get_fin : forall (A : Type) t m p p2 (g : fstate -> res A) w,
  quiet w -> spied t m p p2 (fs_get g) w = fin t m p p2 w (g (w_st w), w_st w).
Proof. intros A t m p p2 g w Hq. apply spied_fs_get_quiet. exact Hq. Qed.

Definition finmap {A B} (h : A -> B) (t : fstag) (m : pmeth) (p p2 : str) (w : world)
           (R : res A * fstate) : mres B * world :=
  (mres_map h (mres_of (fst R)), after t m p p2 (err_of (mres_of (fst R))) w (snd R)).

Lemma finmap_ok : forall (A B : Type) (h : A -> B) t m p p2 w (a : A) s,
  finmap h t m p p2 w (Ok a, s) = (MOk (h a), after t m p p2 None w s).
Proof. reflexivity. Qed.

Lemma finmap_err : forall (A B : Type) (h : A -> B) t m p p2 w e s,
  finmap h t m p p2 w (Err e, s) = (MErr e, after t m p p2 (Some e) w s).
Proof. reflexivity. Qed.

Lemma finmap_not_halt : forall (A B : Type) (h : A -> B) t m p p2 w (R : res A * fstate),
  fst (finmap h t m p p2 w R) <> MHalt.
Proof. intros A B h t m p p2 w R. apply mres_map_not_halt. apply mres_of_not_halt. Qed.

Lemma spied_fs_upd_finmap : forall (A B : Type) (h : A -> B) t m p p2 (g : fstate -> res A * fstate) w,
  quiet w -> spied t m p p2 (mapM h (fs_upd g)) w = finmap h t m p p2 w (g (w_st w)).
Proof. intros A B h t m p p2 g w Hq. apply spied_fs_upd_map_quiet. exact Hq. Qed.

Lemma set_info_name_info_of : forall a b n, set_info_name (info_of a n) b = info_of b n.
Proof. reflexivity. Qed.

(** [st_fs s !! wkey pfx p] is written with the key type [key] here and with
    [list str] in Proofs/FsFacts.v; the two do not match syntactically.
    [dlook pfx p as pat] normalises ([norm_keys]) and destructs the lookup at
    [wkey pfx p] that occurs in the goal. *)
Tactic Notation "dlook" constr(pfx) constr(p) "as" simple_intropattern(pat) :=
  norm_keys;
  match goal with
  | |- context [@lookup ?K ?V ?Mp ?I (wkey pfx p) ?f] =>
      destruct (@lookup K V Mp I (wkey pfx p) f) as pat
  end.

Tactic Notation "dlook" constr(pfx) constr(p) "as" simple_intropattern(pat) "eqn" ":" ident(H) :=
  norm_keys;
  match goal with
  | |- context [@lookup ?K ?V ?Mp ?I (wkey pfx p) ?f] =>
      destruct (@lookup K V Mp I (wkey pfx p) f) as pat eqn:H
  end.

Section Run.
  Variable tag : fstag.
  Variable pfx : str.
  Hypothesis Hp : prefix_ok pfx.
  Variable w : world.
  Hypothesis Hq : quiet w.
  Variable p : str.
  Hypothesis Hac : abs_cleaned p.

  Ltac run_setup Hp Hac :=
    let CW := fresh "CW" in
    pose proof (comps_wpath _ _ Hp (proj2 Hac)) as CW.

  Section Direct.
  Hypothesis Hdir : direct (st_fs (w_st w)) (wpath pfx p).

  Lemma run_lstat :
    a_lstat (the_api tag pfx) p w =
    fin tag (PM MLstat) p [] w
      (match st_fs (w_st w) !! wkey pfx p with
       | Some n => Ok (info_of (base p) n)
       | None => Err ENOENT
       end, w_st w).
  Proof.
    run_setup Hp Hac.
    rewrite (the_api_lstat tag pfx Hp p (proj2 Hac)).
    rewrite (spied_fs_get_map_quiet _ _ tag (PM MLstat) p [] _ _ w Hq).
    rewrite (fs_lstat_direct (w_st w) (wpath pfx p) Hdir), CW. unfold fin. dlook pfx p as [n|]; [|reflexivity].
    cbn [fst snd mres_of mres_map err_of fi_name info_of]. rewrite set_info_name_info_of.
    rewrite (info_name_wpath pfx p Hp Hac). reflexivity.
  Qed.

  Lemma run_stat :
    not_link_at (st_fs (w_st w)) (wkey pfx p) ->
    a_stat (the_api tag pfx) p w =
    fin tag (PM MStat) p [] w
      (match st_fs (w_st w) !! wkey pfx p with
       | Some n => Ok (info_of (base p) n)
       | None => Err ENOENT
       end, w_st w).
  Proof.
    run_setup Hp Hac.
    intros Hnl. rewrite <- CW in Hnl.
    rewrite (the_api_stat tag pfx Hp p (proj2 Hac)).
    rewrite (spied_fs_get_map_quiet _ _ tag (PM MStat) p [] _ _ w Hq).
    rewrite (fs_stat_direct (w_st w) (wpath pfx p) Hdir Hnl), CW. unfold fin. dlook pfx p as [n|]; [|reflexivity].
    cbn [fst snd mres_of mres_map err_of fi_name info_of]. rewrite set_info_name_info_of.
    rewrite (info_name_wpath pfx p Hp Hac). reflexivity.
  Qed.

  Lemma run_readlink :
    a_readlink (the_api tag pfx) p w =
    fin tag (PM MReadlink) p [] w
      (match st_fs (w_st w) !! wkey pfx p with
       | Some (Link _ t) => Ok (vtarget pfx t)
       | Some _ => Err EINVAL
       | None => Err ENOENT
       end, w_st w).
  Proof.
    run_setup Hp Hac.
    rewrite (the_api_readlink tag pfx Hp p (proj2 Hac)).
    rewrite (spied_fs_get_map_quiet _ _ tag (PM MReadlink) p [] _ _ w Hq).
    rewrite (fs_readlink_direct_gen (w_st w) (wpath pfx p) Hdir), CW. unfold fin. dlook pfx p as [[m|m c|m t]|]; reflexivity.
  Qed.

  Lemma run_mkdir : forall perm,
    a_mkdir (the_api tag pfx) p perm w =
    fin tag (PM MMkdir) p [] w
      (match st_fs (w_st w) !! wkey pfx p with
       | Some _ => (Err EEXIST, w_st w)
       | None =>
           (Ok tt,
            add_entry (w_st w) (removelast (wkey pfx p)) (last (wkey pfx p) [])
              (fun t g => Dir (mkMeta (N.lor (N.land perm 1023%N)
                                         (if parent_sgid (st_fs (w_st w)) (removelast (wkey pfx p))
                                          then sgid_bit else 0%N)) 0%N g t)))
       end).
  Proof.
    run_setup Hp Hac.
    intros perm. rewrite (the_api_mkdir tag pfx Hp p perm (proj2 Hac)).
    rewrite (spied_fs_upd_fin _ tag (PM MMkdir) p [] _ w Hq).
    rewrite (fs_mkdir_direct (w_st w) (wpath pfx p) perm Hdir), CW. dlook pfx p as [n|]; [reflexivity|].
    destruct (wkey pfx p) eqn:E; [exfalso; exact (wkey_nonnil pfx p Hp E) | reflexivity].
  Qed.

  Lemma run_mkdirall : forall perm,
    not_link_at (st_fs (w_st w)) (wkey pfx p) ->
    a_mkdirall (the_api tag pfx) p perm w =
    fin tag (PM MMkdirAll) p [] w
      (match st_fs (w_st w) !! wkey pfx p with
       | Some (Dir _) => (Ok tt, w_st w)
       | Some _ => (Err ENOTDIR, w_st w)
       | None =>
           (Ok tt,
            add_entry (w_st w) (removelast (wkey pfx p)) (last (wkey pfx p) [])
              (fun t g => Dir (mkMeta (N.lor (N.land perm 1023%N)
                                         (if parent_sgid (st_fs (w_st w)) (removelast (wkey pfx p))
                                          then sgid_bit else 0%N)) 0%N g t)))
       end).
  Proof.
    run_setup Hp Hac.
    intros perm Hnl. rewrite (the_api_mkdirall tag pfx Hp p perm (proj2 Hac)).
    rewrite (spied_fs_upd_fin _ tag (PM MMkdirAll) p [] _ w Hq).
    assert (Hc : comps (wpath pfx p) <> []) by (rewrite CW; apply wkey_nonnil; exact Hp).
    dlook pfx p as [[m|m c|m t]|] eqn:E.
    - rewrite (fs_mkdirall_direct_dir (w_st w) (wpath pfx p) perm m Hdir); [reflexivity|].
      rewrite CW. exact E.
    - rewrite (fs_mkdirall_direct_file (w_st w) (wpath pfx p) perm m c Hdir); [reflexivity|].
      rewrite CW. exact E.
    - exfalso. exact (Hnl m t E).
    - rewrite (fs_mkdirall_direct_missing_eq (w_st w) (wpath pfx p) perm Hdir Hc);
        [| rewrite CW; exact E].
      rewrite CW. reflexivity.
  Qed.

  Lemma run_remove :
    a_remove (the_api tag pfx) p w =
    fin tag (PM MRemove) p [] w
      (match st_fs (w_st w) !! wkey pfx p with
       | Some (Dir _) =>
           if has_children (st_fs (w_st w)) (wkey pfx p) then (Err ENOTEMPTY, w_st w)
           else (Ok tt, remove_entry (w_st w) (wkey pfx p))
       | Some _ => (Ok tt, remove_entry (w_st w) (wkey pfx p))
       | None => (Err ENOENT, w_st w)
       end).
  Proof.
    run_setup Hp Hac.
    rewrite (the_api_remove tag pfx Hp p (proj2 Hac)).
    rewrite (spied_fs_upd_fin _ tag (PM MRemove) p [] _ w Hq).
    rewrite (fs_remove_direct (w_st w) (wpath pfx p) Hdir), CW. dlook pfx p as [[m|m c|m t]|]; try reflexivity.
    destruct (wkey pfx p) eqn:E; [exfalso; exact (wkey_nonnil pfx p Hp E) | reflexivity].
  Qed.

  Lemma run_removeall :
    a_removeall (the_api tag pfx) p w =
    fin tag (PM MRemoveAll) p [] w
      (match st_fs (w_st w) !! wkey pfx p with
       | Some _ =>
           (Ok tt,
            mkFstate (touch_dir (delete_subtree (st_fs (w_st w)) (wkey pfx p))
                                (removelast (wkey pfx p)) (Now (st_clock (w_st w))))
                     (N.succ (st_clock (w_st w))))
       | None => (Ok tt, w_st w)
       end).
  Proof.
    run_setup Hp Hac.
    rewrite (the_api_removeall tag pfx Hp p (proj2 Hac)).
    rewrite (spied_fs_upd_fin _ tag (PM MRemoveAll) p [] _ w Hq).
    rewrite (fs_removeall_direct (w_st w) (wpath pfx p) Hdir), CW. dlook pfx p as [n|]; [|reflexivity].
    destruct (wkey pfx p) eqn:E; [exfalso; exact (wkey_nonnil pfx p Hp E) | reflexivity].
  Qed.

  Lemma run_chmod : forall mode,
    not_link_at (st_fs (w_st w)) (wkey pfx p) ->
    a_chmod (the_api tag pfx) p mode w =
    fin tag (PM MChmod) p [] w
      (match st_fs (w_st w) !! wkey pfx p with
       | Some n => (Ok tt, update_node (w_st w) (wkey pfx p) (with_meta n (set_perm mode)))
       | None => (Err ENOENT, w_st w)
       end).
  Proof.
    run_setup Hp Hac.
    intros mode Hnl. rewrite <- CW in Hnl.
    rewrite (the_api_chmod tag pfx Hp p mode (proj2 Hac)).
    rewrite (spied_fs_upd_fin _ tag (PM MChmod) p [] _ w Hq).
    rewrite (fs_chmod_direct (w_st w) (wpath pfx p) mode Hdir Hnl), CW. reflexivity.
  Qed.

  Lemma run_chtimes : forall t,
    not_link_at (st_fs (w_st w)) (wkey pfx p) ->
    a_chtimes (the_api tag pfx) p t w =
    fin tag (PM MChtimes) p [] w
      (match st_fs (w_st w) !! wkey pfx p with
       | Some n => (Ok tt, update_node (w_st w) (wkey pfx p) (with_meta n (set_mt t)))
       | None => (Err ENOENT, w_st w)
       end).
  Proof.
    run_setup Hp Hac.
    intros t Hnl. rewrite <- CW in Hnl.
    rewrite (the_api_chtimes tag pfx Hp p t (proj2 Hac)).
    rewrite (spied_fs_upd_fin _ tag (PM MChtimes) p [] _ w Hq).
    rewrite (fs_chtimes_direct (w_st w) (wpath pfx p) t Hdir Hnl), CW. reflexivity.
  Qed.

  Lemma run_chown : forall u g,
    not_link_at (st_fs (w_st w)) (wkey pfx p) ->
    a_chown (the_api tag pfx) p u g w =
    fin tag (PM MChown) p [] w
      (match st_fs (w_st w) !! wkey pfx p with
       | Some n => (Ok tt, update_node (w_st w) (wkey pfx p) (chown_node n u g))
       | None => (Err ENOENT, w_st w)
       end).
  Proof.
    run_setup Hp Hac.
    intros u g Hnl. rewrite <- CW in Hnl.
    rewrite (the_api_chown tag pfx Hp p u g (proj2 Hac)).
    rewrite (spied_fs_upd_fin _ tag (PM MChown) p [] _ w Hq).
    rewrite (fs_chown_direct (w_st w) (wpath pfx p) u g Hdir Hnl), CW. reflexivity.
  Qed.

  Lemma run_lchown : forall u g,
    a_lchown (the_api tag pfx) p u g w =
    fin tag (PM MLchown) p [] w
      (match st_fs (w_st w) !! wkey pfx p with
       | Some n => (Ok tt, update_node (w_st w) (wkey pfx p) (chown_node n u g))
       | None => (Err ENOENT, w_st w)
       end).
  Proof.
    run_setup Hp Hac.
    intros u g.
    rewrite (the_api_lchown tag pfx Hp p u g (proj2 Hac)).
    rewrite (spied_fs_upd_fin _ tag (PM MLchown) p [] _ w Hq).
    rewrite (fs_lchown_direct (w_st w) (wpath pfx p) u g Hdir), CW. reflexivity.
  Qed.

  Lemma run_symlink : forall t,
    t <> [] ->
    a_symlink (the_api tag pfx) t p w =
    fin tag (PM MSymlink) p t w
      (if sym_accb pfx t p then
         match st_fs (w_st w) !! wkey pfx p with
         | Some _ => (Err EEXIST, w_st w)
         | None =>
             (Ok tt,
              add_entry (w_st w) (removelast (wkey pfx p)) (last (wkey pfx p) [])
                (fun t0 g => Link (mkMeta 511%N 0%N g t0) (sym_target pfx t)))
         end
       else (Err (ELayer EPERM), w_st w)).
  Proof.
    run_setup Hp Hac.
    intros t Ht. rewrite (the_api_symlink tag pfx Hp t p (proj2 Hac)).
    destruct (sym_accb pfx t p).
    - rewrite (spied_fs_upd_fin _ tag (PM MSymlink) p t _ w Hq).
      rewrite (fs_symlink_direct (w_st w) (sym_target pfx t) (wpath pfx p) Hdir
                 (sym_target_nonempty pfx t Ht)), CW. dlook pfx p as [n|]; [reflexivity|].
      destruct (wkey pfx p) eqn:E; [exfalso; exact (wkey_nonnil pfx p Hp E) | reflexivity].
    - rewrite (spied_quiet_run _ tag (PM MSymlink) p t _ w (MErr (ELayer EPERM)) (tickw w) Hq);
        [| reflexivity | discriminate].
      unfold fin, after. cbn [fst snd mres_of err_of]. rewrite set_st_tickw_same. reflexivity.
  Qed.

  (** the handle-returning methods; the OS handle is on [wkey pfx p] and carries the world path *)
  Lemma run_openfile : forall fl perm,
    (o_creat fl && o_excl fl = true \/ not_link_at (st_fs (w_st w)) (wkey pfx p)) ->
    a_openfile (the_api tag pfx) p fl perm w =
    finmap (the_handle tag pfx p) tag (PM MOpenFile) p [] w
      (match st_fs (w_st w) !! wkey pfx p with
       | Some n =>
           if o_creat fl && o_excl fl then (Err EEXIST, w_st w)
           else
             match n with
             | Dir _ =>
                 if o_wronly fl || o_rdwr fl || o_creat fl || o_trunc fl then (Err EISDIR, w_st w)
                 else (Ok (mkHandle (wkey pfx p) 0%N false true false true (wpath pfx p)), w_st w)
             | File m c =>
                 if o_trunc fl then
                   (Ok (mkHandle (wkey pfx p) 0%N (o_wronly fl || o_rdwr fl) (negb (o_wronly fl))
                                 (o_append fl) false (wpath pfx p)),
                    update_node (mkFstate (st_fs (w_st w)) (N.succ (st_clock (w_st w)))) (wkey pfx p)
                      (File (mkMeta (m_perm m) (m_uid m) (m_gid m) (Now (st_clock (w_st w)))) []))
                 else
                   (Ok (mkHandle (wkey pfx p) 0%N (o_wronly fl || o_rdwr fl) (negb (o_wronly fl))
                                 (o_append fl) false (wpath pfx p)), w_st w)
             | Link _ _ => (Err ELOOP, w_st w)
             end
       | None =>
           if o_creat fl then
             (Ok (mkHandle (wkey pfx p) 0%N (o_wronly fl || o_rdwr fl) (negb (o_wronly fl))
                           (o_append fl) false (wpath pfx p)),
              add_entry (w_st w) (removelast (wkey pfx p)) (last (wkey pfx p) [])
                (fun t g => File (mkMeta (N.land perm 4095%N) 0%N g t) []))
           else (Err ENOENT, w_st w)
       end).
  Proof.
    run_setup Hp Hac.
    intros fl perm Hside. rewrite <- CW in Hside.
    rewrite (the_api_openfile tag pfx Hp p fl perm w (proj2 Hac)).
    rewrite (spied_fs_upd_finmap _ _ _ tag (PM MOpenFile) p [] _ w Hq).
    rewrite (fs_open_direct (w_st w) (wpath pfx p) fl perm Hdir Hside), CW.
    dlook pfx p as [n|]; [reflexivity|].
    destruct (wkey pfx p) eqn:E; [exfalso; exact (wkey_nonnil pfx p Hp E) | reflexivity].
  Qed.

  (** O_RDWR|O_CREATE|O_TRUNC *)
  Lemma run_openfile_create : forall perm,
    not_link_at (st_fs (w_st w)) (wkey pfx p) ->
    a_openfile (the_api tag pfx) p 578 perm w =
    finmap (the_handle tag pfx p) tag (PM MOpenFile) p [] w
      (match st_fs (w_st w) !! wkey pfx p with
       | Some (Dir _) => (Err EISDIR, w_st w)
       | Some (File m c) =>
           (Ok (mkHandle (wkey pfx p) 0%N true true false false (wpath pfx p)),
            update_node (mkFstate (st_fs (w_st w)) (N.succ (st_clock (w_st w)))) (wkey pfx p)
              (File (mkMeta (m_perm m) (m_uid m) (m_gid m) (Now (st_clock (w_st w)))) []))
       | Some (Link _ _) => (Err ELOOP, w_st w)
       | None =>
           (Ok (mkHandle (wkey pfx p) 0%N true true false false (wpath pfx p)),
            add_entry (w_st w) (removelast (wkey pfx p)) (last (wkey pfx p) [])
              (fun t g => File (mkMeta (N.land perm 4095%N) 0%N g t) []))
       end).
  Proof.
    intros perm Hnl. rewrite (run_openfile 578 perm (or_intror Hnl)).
    dlook pfx p as [[m|m c|m t]|]; reflexivity.
  Qed.

  Lemma run_create :
    not_link_at (st_fs (w_st w)) (wkey pfx p) ->
    a_create (the_api tag pfx) p w =
    finmap (the_handle tag pfx p) tag (PM MCreate) p [] w
      (match st_fs (w_st w) !! wkey pfx p with
       | Some (Dir _) => (Err EISDIR, w_st w)
       | Some (File m c) =>
           (Ok (mkHandle (wkey pfx p) 0%N true true false false (wpath pfx p)),
            update_node (mkFstate (st_fs (w_st w)) (N.succ (st_clock (w_st w)))) (wkey pfx p)
              (File (mkMeta (m_perm m) (m_uid m) (m_gid m) (Now (st_clock (w_st w)))) []))
       | Some (Link _ _) => (Err ELOOP, w_st w)
       | None =>
           (Ok (mkHandle (wkey pfx p) 0%N true true false false (wpath pfx p)),
            add_entry (w_st w) (removelast (wkey pfx p)) (last (wkey pfx p) [])
              (fun t g => File (mkMeta (N.land 438 4095%N) 0%N g t) []))
       end).
  Proof.
    run_setup Hp Hac.
    intros Hnl. rewrite <- CW in Hnl.
    rewrite (the_api_create tag pfx Hp p w (proj2 Hac)).
    rewrite (spied_fs_upd_finmap _ _ _ tag (PM MCreate) p [] _ w Hq).
    rewrite (fs_open_direct (w_st w) (wpath pfx p) 578 438 Hdir (or_intror Hnl)), CW.
    dlook pfx p as [[m|m c|m t]|]; try reflexivity.
    destruct (wkey pfx p) eqn:E; [exfalso; exact (wkey_nonnil pfx p Hp E) | reflexivity].
  Qed.

  (** O_RDONLY *)
  Lemma run_open :
    not_link_at (st_fs (w_st w)) (wkey pfx p) ->
    a_open (the_api tag pfx) p w =
    finmap (the_handle tag pfx p) tag (PM MOpen) p [] w
      (match st_fs (w_st w) !! wkey pfx p with
       | Some (Dir _) => (Ok (mkHandle (wkey pfx p) 0%N false true false true (wpath pfx p)), w_st w)
       | Some (File m c) => (Ok (mkHandle (wkey pfx p) 0%N false true false false (wpath pfx p)), w_st w)
       | Some (Link _ _) => (Err ELOOP, w_st w)
       | None => (Err ENOENT, w_st w)
       end).
  Proof.
    run_setup Hp Hac.
    intros Hnl. rewrite <- CW in Hnl.
    rewrite (the_api_open tag pfx Hp p w (proj2 Hac)).
    rewrite (spied_fs_upd_finmap _ _ _ tag (PM MOpen) p [] _ w Hq).
    rewrite (fs_open_direct (w_st w) (wpath pfx p) 0 0 Hdir (or_intror Hnl)), CW.
    dlook pfx p as [[m|m c|m t]|]; try reflexivity.
    destruct (wkey pfx p) eqn:E; [exfalso; exact (wkey_nonnil pfx p Hp E) | reflexivity].
  Qed.
  End Direct.

  (** the parents of the world path do not resolve: every call fails, nothing changes *)
  Section NotDirect.
  Hypothesis Hun : unresolvable (st_fs (w_st w)) (wpath pfx p).

  Let WAC := wpath_abs_cleaned pfx p Hp (proj2 Hac).

  Lemma run_lstat_unresolvable : exists e,
    a_lstat (the_api tag pfx) p w = (MErr e, after tag (PM MLstat) p [] (Some e) w (w_st w)) /\
    is_not_found e = true.
  Proof.
    destruct (fs_lstat_unresolvable (w_st w) (wpath pfx p) Hun) as [e [E Hnf]]. exists e. split; [|exact Hnf].
    rewrite (the_api_lstat tag pfx Hp p (proj2 Hac)).
    rewrite (spied_fs_get_map_quiet _ _ tag (PM MLstat) p [] _ _ w Hq), E. reflexivity.
  Qed.

  Lemma run_stat_unresolvable : exists e,
    a_stat (the_api tag pfx) p w = (MErr e, after tag (PM MStat) p [] (Some e) w (w_st w)) /\
    is_not_found e = true.
  Proof.
    destruct (fs_stat_unresolvable (w_st w) (wpath pfx p) Hun) as [e [E Hnf]]. exists e. split; [|exact Hnf].
    rewrite (the_api_stat tag pfx Hp p (proj2 Hac)).
    rewrite (spied_fs_get_map_quiet _ _ tag (PM MStat) p [] _ _ w Hq), E. reflexivity.
  Qed.

  Lemma run_readlink_unresolvable : exists e,
    a_readlink (the_api tag pfx) p w = (MErr e, after tag (PM MReadlink) p [] (Some e) w (w_st w)) /\
    is_not_found e = true.
  Proof.
    destruct (fs_readlink_unresolvable (w_st w) (wpath pfx p) Hun) as [e [E Hnf]]. exists e. split; [|exact Hnf].
    rewrite (the_api_readlink tag pfx Hp p (proj2 Hac)).
    rewrite (spied_fs_get_map_quiet _ _ tag (PM MReadlink) p [] _ _ w Hq), E. reflexivity.
  Qed.

  Lemma run_mkdir_unresolvable : forall perm, exists e,
    a_mkdir (the_api tag pfx) p perm w = (MErr e, after tag (PM MMkdir) p [] (Some e) w (w_st w)) /\
    is_not_found e = true.
  Proof.
    intros perm.
    destruct (fs_mkdir_unresolvable (w_st w) (wpath pfx p) WAC Hun perm) as [e [E Hnf]]. exists e. split; [|exact Hnf].
    rewrite (the_api_mkdir tag pfx Hp p perm (proj2 Hac)).
    rewrite (spied_fs_upd_fin _ tag (PM MMkdir) p [] _ w Hq), E. reflexivity.
  Qed.

  Lemma run_remove_unresolvable : exists e,
    a_remove (the_api tag pfx) p w = (MErr e, after tag (PM MRemove) p [] (Some e) w (w_st w)) /\
    is_not_found e = true.
  Proof.
    destruct (fs_remove_unresolvable (w_st w) (wpath pfx p) WAC Hun) as [e [E Hnf]]. exists e. split; [|exact Hnf].
    rewrite (the_api_remove tag pfx Hp p (proj2 Hac)).
    rewrite (spied_fs_upd_fin _ tag (PM MRemove) p [] _ w Hq), E. reflexivity.
  Qed.

  Lemma run_removeall_unresolvable : exists r,
    a_removeall (the_api tag pfx) p w = (r, after tag (PM MRemoveAll) p [] (err_of r) w (w_st w)) /\
    r <> MHalt.
  Proof.
    destruct (fs_removeall_unresolvable (w_st w) (wpath pfx p) WAC Hun) as [r E]. exists (mres_of r).
    split; [|apply mres_of_not_halt].
    rewrite (the_api_removeall tag pfx Hp p (proj2 Hac)).
    rewrite (spied_fs_upd_fin _ tag (PM MRemoveAll) p [] _ w Hq), E. reflexivity.
  Qed.

  Lemma run_chmod_unresolvable : forall mode, exists e,
    a_chmod (the_api tag pfx) p mode w = (MErr e, after tag (PM MChmod) p [] (Some e) w (w_st w)) /\
    is_not_found e = true.
  Proof.
    intros mode.
    destruct (fs_chmod_unresolvable (w_st w) (wpath pfx p) Hun mode) as [e [E Hnf]]. exists e. split; [|exact Hnf].
    rewrite (the_api_chmod tag pfx Hp p mode (proj2 Hac)).
    rewrite (spied_fs_upd_fin _ tag (PM MChmod) p [] _ w Hq), E. reflexivity.
  Qed.

  Lemma run_chown_unresolvable : forall u g, exists e,
    a_chown (the_api tag pfx) p u g w = (MErr e, after tag (PM MChown) p [] (Some e) w (w_st w)) /\
    is_not_found e = true.
  Proof.
    intros u g.
    destruct (fs_chown_unresolvable (w_st w) (wpath pfx p) Hun u g) as [e [E Hnf]]. exists e. split; [|exact Hnf].
    rewrite (the_api_chown tag pfx Hp p u g (proj2 Hac)).
    rewrite (spied_fs_upd_fin _ tag (PM MChown) p [] _ w Hq), E. reflexivity.
  Qed.

  Lemma run_lchown_unresolvable : forall u g, exists e,
    a_lchown (the_api tag pfx) p u g w = (MErr e, after tag (PM MLchown) p [] (Some e) w (w_st w)) /\
    is_not_found e = true.
  Proof.
    intros u g.
    destruct (fs_lchown_unresolvable (w_st w) (wpath pfx p) Hun u g) as [e [E Hnf]]. exists e. split; [|exact Hnf].
    rewrite (the_api_lchown tag pfx Hp p u g (proj2 Hac)).
    rewrite (spied_fs_upd_fin _ tag (PM MLchown) p [] _ w Hq), E. reflexivity.
  Qed.

  Lemma run_chtimes_unresolvable : forall t, exists e,
    a_chtimes (the_api tag pfx) p t w = (MErr e, after tag (PM MChtimes) p [] (Some e) w (w_st w)) /\
    is_not_found e = true.
  Proof.
    intros t.
    destruct (fs_chtimes_unresolvable (w_st w) (wpath pfx p) Hun t) as [e [E Hnf]]. exists e. split; [|exact Hnf].
    rewrite (the_api_chtimes tag pfx Hp p t (proj2 Hac)).
    rewrite (spied_fs_upd_fin _ tag (PM MChtimes) p [] _ w Hq), E. reflexivity.
  Qed.

  Lemma run_symlink_unresolvable : forall t, exists e,
    a_symlink (the_api tag pfx) t p w = (MErr e, after tag (PM MSymlink) p t (Some e) w (w_st w)).
  Proof.
    intros t. rewrite (the_api_symlink tag pfx Hp t p (proj2 Hac)). destruct (sym_accb pfx t p).
    - destruct (fs_symlink_unresolvable (w_st w) (wpath pfx p) WAC Hun (sym_target pfx t)) as [e [E _]]. exists e.
      rewrite (spied_fs_upd_fin _ tag (PM MSymlink) p t _ w Hq), E. reflexivity.
    - exists (ELayer EPERM).
      rewrite (spied_quiet_run _ tag (PM MSymlink) p t _ w (MErr (ELayer EPERM)) (tickw w) Hq);
        [| reflexivity | discriminate].
      unfold after. cbn [err_of]. rewrite set_st_tickw_same. reflexivity.
  Qed.

  Lemma run_openfile_unresolvable : forall fl perm, exists e,
    a_openfile (the_api tag pfx) p fl perm w = (MErr e, after tag (PM MOpenFile) p [] (Some e) w (w_st w)) /\
    is_not_found e = true.
  Proof.
    intros fl perm.
    destruct (fs_open_unresolvable (w_st w) (wpath pfx p) WAC Hun fl perm) as [e [E Hnf]]. exists e. split; [|exact Hnf].
    rewrite (the_api_openfile tag pfx Hp p fl perm w (proj2 Hac)).
    rewrite (spied_fs_upd_finmap _ _ _ tag (PM MOpenFile) p [] _ w Hq), E. reflexivity.
  Qed.

  Lemma run_open_unresolvable : exists e,
    a_open (the_api tag pfx) p w = (MErr e, after tag (PM MOpen) p [] (Some e) w (w_st w)) /\
    is_not_found e = true.
  Proof.
    destruct (fs_open_unresolvable (w_st w) (wpath pfx p) WAC Hun 0%N 0%N) as [e [E Hnf]]. exists e. split; [|exact Hnf].
    rewrite (the_api_open tag pfx Hp p w (proj2 Hac)).
    rewrite (spied_fs_upd_finmap _ _ _ tag (PM MOpen) p [] _ w Hq), E. reflexivity.
  Qed.

  Lemma run_create_unresolvable : exists e,
    a_create (the_api tag pfx) p w = (MErr e, after tag (PM MCreate) p [] (Some e) w (w_st w)) /\
    is_not_found e = true.
  Proof.
    destruct (fs_open_unresolvable (w_st w) (wpath pfx p) WAC Hun 578%N 438%N) as [e [E Hnf]]. exists e. split; [|exact Hnf].
    rewrite (the_api_create tag pfx Hp p w (proj2 Hac)).
    rewrite (spied_fs_upd_finmap _ _ _ tag (PM MCreate) p [] _ w Hq), E. reflexivity.
  Qed.
  End NotDirect.
End Run.

(** [Rename] with an old or a new name whose parents do not resolve *)
Lemma run_rename_unresolvable : forall tag pfx w po pn,
  prefix_ok pfx -> quiet w -> abs_cleaned po -> abs_cleaned pn ->
  unresolvable (st_fs (w_st w)) (wpath pfx po) \/ unresolvable (st_fs (w_st w)) (wpath pfx pn) ->
  exists e, a_rename (the_api tag pfx) po pn w =
            (MErr e, after tag (PM MRename) po pn (Some e) w (w_st w)).
Proof.
  intros tag pfx w po pn Hp Hq Ho Hn Hun.
  rewrite (the_api_rename tag pfx Hp po pn (proj2 Ho) (proj2 Hn)).
  rewrite (spied_fs_upd_fin _ tag (PM MRename) po pn _ w Hq).
  destruct Hun as [Hun|Hun].
  - destruct (fs_rename_unresolvable_old (w_st w) (wpath pfx po) Hun (wpath pfx pn)) as [e E].
    exists e. rewrite E. reflexivity.
  - destruct (fs_rename_unresolvable_new (w_st w) (wpath pfx pn) (wpath_abs_cleaned pfx pn Hp (proj2 Hn)) Hun (wpath pfx po)) as [e E].
    exists e. rewrite E. reflexivity.
Qed.

(* ------------------------------------------------------------------ *)
(** * G. [Rename] of an entry without children, both names addressable directly *)

Lemma delete_subtree_leaf : forall (f : fs) k,
  (forall r, r <> [] -> f !! (k ++ r) = None) -> delete_subtree f k = base.delete k f.
Proof.
  intros f k Hnc. apply map_eq. intros k'. rewrite delete_subtree_lookup.
  destruct (key_prefixb k k') eqn:E.
  - apply key_prefixb_iff in E. destruct E as [r Er]. subst k'.
    destruct (list_eq_dec str_eq_dec r []) as [Hr|Hr].
    + subst r. rewrite app_nil_r, lookup_delete. reflexivity.
    + rewrite lookup_delete_ne.
      * symmetry. exact (Hnc r Hr).
      * intro E. rewrite <- (app_nil_r k) in E at 1. apply app_inv_head in E. apply Hr. symmetry. exact E.
  - rewrite lookup_delete_ne; [reflexivity|]. intro E'. subst k'. rewrite key_prefixb_refl in E. discriminate E.
Qed.

Lemma list_all_eq_singleton : forall (A : Type) (l : list A) a,
  List.NoDup l -> (forall x, In x l -> x = a) -> In a l -> l = [a].
Proof.
  intros A l a Hnd Hall Hin. destruct l as [|x l]; [contradiction|].
  assert (Ex : x = a) by (apply Hall; left; reflexivity). subst x.
  destruct l as [|y l]; [reflexivity|]. exfalso.
  assert (Ey : y = a) by (apply Hall; right; left; reflexivity). subst y.
  inversion Hnd as [|? ? Hn _]. apply Hn. left. reflexivity.
Qed.

Lemma move_subtree_leaf : forall (f : fs) ko kn no,
  f !! ko = Some no -> (forall r, r <> [] -> f !! (ko ++ r) = None) ->
  move_subtree f ko kn = <[kn := no]> (base.delete ko f).
Proof.
  intros f ko kn no Hko Hnc. unfold move_subtree.
  assert (E : List.filter (fun kv : key * node => key_prefixb ko (fst kv)) (entries f) = [(ko, no)]).
  { apply list_all_eq_singleton.
    - apply List.NoDup_filter. unfold entries. change (gmap_to_list f) with (map_to_list f).
      apply NoDup_ListNoDup. apply NoDup_map_to_list.
    - intros [k' n'] Hin. apply filter_In in Hin. destruct Hin as [Hin Hpre]. simpl in Hpre.
      apply entries_In in Hin. apply key_prefixb_iff in Hpre. destruct Hpre as [r Er]. subst k'.
      destruct (list_eq_dec str_eq_dec r []) as [Hr|Hr].
      + subst r. rewrite app_nil_r in *. norm_keys. congruence.
      + pose proof (Hnc r Hr) as Hn. norm_keys. congruence.
    - apply filter_In. split; [apply entries_In; exact Hko | simpl; apply key_prefixb_refl]. }
  rewrite E. simpl. rewrite skipn_all, app_nil_r. rewrite (delete_subtree_leaf f ko Hnc). reflexivity.
Qed.

Lemma wf_missing_no_children : forall (f : fs) k,
  wf f -> f !! k = None -> forall r, r <> [] -> f !! (k ++ r) = None.
Proof.
  intros f k Hwf Hk r Hr. destruct (f !! (k ++ r)) as [n|] eqn:E; [|reflexivity]. exfalso.
  destruct (wf_prefix_dir f k r n Hwf Hr E) as [m Hm]. norm_keys. congruence.
Qed.

(** the state after moving the leaf [no] from [ko] to [kn] *)
Definition moved_leaf (s : fstate) (ko kn : key) (no : node) : fstate :=
  mkFstate (touch_dir (touch_dir (<[kn := no]> (base.delete ko (base.delete kn (st_fs s))))
                                 (removelast ko) (Now (st_clock s)))
                      (removelast kn) (Now (st_clock s)))
           (N.succ (st_clock s)).

Lemma fs_rename_direct_leaf : forall s po pn,
  wf (st_fs s) ->
  direct (st_fs s) po ->
  direct (st_fs s) pn ->
  comps po <> [] -> comps pn <> [] ->
  has_children (st_fs s) (comps po) = false ->
  fs_rename s po pn =
    match st_fs s !! comps po with
    | None => (Err ENOENT, s)
    | Some no =>
        match st_fs s !! comps pn with
        | Some nn =>
            if is_dir nn then
              if key_eqb (comps po) (comps pn) && negb (str_eqb po pn) then (Ok tt, s) else (Err EEXIST, s)
            else if key_eqb (comps po) (comps pn) then (Ok tt, s)
            else if is_dir no then
              if key_prefixb (comps po) (comps pn) then (Err EINVAL, s) else (Err ENOTDIR, s)
            else (Ok tt, moved_leaf s (comps po) (comps pn) no)
        | None =>
            if is_dir no && key_prefixb (comps po) (comps pn) then (Err EINVAL, s)
            else (Ok tt, moved_leaf s (comps po) (comps pn) no)
        end
    end.
Proof.
  intros s po pn Hwf Hdo Hdn Hco Hcn Hnc. unfold fs_rename.
  rewrite (strip_or_self_abs_cleaned pn (proj1 Hdn)).
  rewrite (resolve_direct _ po false Hdo (or_introl eq_refl)).
  rewrite (resolve_direct _ pn false Hdn (or_introl eq_refl)).
  pose proof (proj1 (has_children_false_iff (st_fs s) (comps po)) Hnc) as Hnc'. clear Hnc. rename Hnc' into Hnc.
  destruct (st_fs s !! comps po) as [no|] eqn:Eo.
  2:{ destruct (comps po) as [|c r] eqn:Ek; [contradiction|].
      destruct (st_fs s !! comps pn); [reflexivity|]. destruct (comps pn); [contradiction | reflexivity]. }
  destruct (comps po) as [|co ro] eqn:Eko; [contradiction|].
  cbv beta iota zeta. set (ko := co :: ro) in *.
  assert (Hmove : forall f1 : fs,
            f1 !! ko = Some no -> (forall r, r <> [] -> f1 !! (ko ++ r) = None) ->
            move_subtree f1 ko (comps pn) = <[comps pn := no]> (base.delete ko f1)).
  { intros f1 H1 H2. apply move_subtree_leaf; assumption. }
  destruct (st_fs s !! comps pn) as [nn|] eqn:En.
  - destruct (is_dir nn) eqn:Edn; [reflexivity|].
    destruct (key_eqb ko (comps pn)) eqn:Eeq; [reflexivity|].
    destruct (is_dir no) eqn:Edo; [reflexivity|].
    apply key_eqb_neq in Eeq.
    assert (Hncn : forall r, r <> [] -> st_fs s !! (comps pn ++ r) = None).
    { apply has_children_false_iff. exact (wf_nondir_no_children _ _ nn Hwf En Edn). }
    unfold moved_leaf. rewrite tick_clock_eq. cbn [st_fs st_clock].
    rewrite (delete_subtree_leaf _ _ Hncn). rewrite Hmove.
    + reflexivity.
    + rewrite lookup_delete_ne by congruence. exact Eo.
    + intros r Hr. rewrite lookup_delete_None. right. exact (Hnc r Hr).
  - destruct (comps pn) as [|cn rn] eqn:Ekn; [contradiction|]. set (kn := cn :: rn) in *.
    rewrite (removelast_last_snoc _ kn []) by exact Hcn.
    assert (Hncn : forall r, r <> [] -> st_fs s !! (kn ++ r) = None).
    { apply wf_missing_no_children; assumption. }
    assert (Emv : (let '(t, s1) := tick_clock s in
                   (Ok tt,
                    mkFstate (touch_dir (touch_dir (move_subtree (delete_subtree (st_fs s1) kn) ko kn)
                                                   (parent_key ko) t)
                                        (parent_key kn) t) (st_clock s1))) =
                  (Ok tt, moved_leaf s ko kn no)).
    { unfold moved_leaf. rewrite tick_clock_eq. cbn [st_fs st_clock].
      rewrite (delete_subtree_leaf _ _ Hncn). rewrite Hmove.
      - reflexivity.
      - rewrite lookup_delete_ne; [exact Eo|]. intro E. norm_keys. rewrite <- E in Eo. congruence.
      - intros r Hr. rewrite lookup_delete_None. right. exact (Hnc r Hr). }
    destruct (is_dir no) eqn:Edo.
    + cbn [andb]. destruct (key_prefixb ko kn) eqn:Epre; [reflexivity|]. exact Emv.
    + cbn [andb]. exact Emv.
Qed.

Lemma onode_eqv_trans : forall a b c, onode_eqv a b -> onode_eqv b c -> onode_eqv a c.
Proof.
  intros [a|] [b|] [c|] H1 H2; simpl in *; try contradiction; try exact I.
  destruct a as [ma|ma ca|ma ta], b as [mb|mb cb|mb tb]; simpl in H1; try discriminate H1;
    destruct c as [mc|mc cc|mc tc]; simpl in H2; try discriminate H2; simpl.
  - destruct H1 as (A1 & A2 & A3), H2 as (B1 & B2 & B3). repeat split; congruence.
  - congruence.
  - congruence.
Qed.

Lemma moved_leaf_onode_eqv : forall s ko kn no k,
  k <> ko -> k <> kn -> onode_eqv (st_fs (moved_leaf s ko kn no) !! k) (st_fs s !! k).
Proof.
  intros s ko kn no k H1 H2. unfold moved_leaf. cbn [st_fs].
  eapply onode_eqv_trans; [apply touch_dir_onode_eqv|].
  eapply onode_eqv_trans; [apply touch_dir_onode_eqv|].
  rewrite lookup_insert_ne by congruence. rewrite !lookup_delete_ne by congruence. apply onode_eqv_refl.
Qed.

Lemma moved_leaf_lookup_old : forall s ko kn no,
  ko <> kn -> removelast ko <> ko -> removelast kn <> ko ->
  st_fs (moved_leaf s ko kn no) !! ko = None.
Proof.
  intros s ko kn no H1 H2 H3. unfold moved_leaf. cbn [st_fs].
  rewrite touch_dir_lookup_ne by congruence. rewrite touch_dir_lookup_ne by congruence.
  rewrite lookup_insert_ne by congruence. apply lookup_delete.
Qed.

Lemma same_outside_moved_leaf : forall pa s ko kn no,
  key_prefixb (kp pa) (removelast ko) = true -> ko <> [] ->
  key_prefixb (kp pa) (removelast kn) = true -> kn <> [] ->
  same_outside pa (st_fs (moved_leaf s ko kn no)) (st_fs s).
Proof.
  intros pa s ko kn no Ho Hone Hn Hnne k Hk. unfold moved_leaf. cbn [st_fs].
  assert (Hbelow : forall x, x <> [] -> key_prefixb (kp pa) (removelast x) = true -> k <> x /\ k <> removelast x).
  { intros x Hx Hpx. split; intro E; subst k.
    - apply key_prefixb_iff in Hpx. destruct Hpx as [r Hr].
      rewrite <- (removelast_last_snoc _ x [] Hx), Hr, <- app_assoc, key_prefixb_app in Hk. discriminate Hk.
    - congruence. }
  destruct (Hbelow ko Hone Ho) as [A1 A2]. destruct (Hbelow kn Hnne Hn) as [B1 B2].
  rewrite touch_dir_lookup_ne by exact B2. rewrite touch_dir_lookup_ne by exact A2.
  rewrite lookup_insert_ne by congruence. rewrite !lookup_delete_ne by congruence. reflexivity.
Qed.

Lemma world_okb_moved_leaf : forall pfx s ko kn no,
  world_okb pfx (st_fs s) = true ->
  st_fs s !! ko = Some no -> has_children (st_fs s) ko = false ->
  ko <> [] -> ko <> kp pfx -> ko <> kn -> key_prefixb ko kn = false ->
  (st_fs s !! kn = None \/ exists nn, st_fs s !! kn = Some nn /\ is_dir nn = false) ->
  kn <> [] -> is_dir_at (st_fs s) (removelast kn) -> good_compb (last kn []) = true ->
  world_okb pfx (st_fs (moved_leaf s ko kn no)) = true.
Proof.
  intros pfx s ko kn no Hok Hko Hnc Hone Hokp Hne Hpre Hkn Hnne Hpar Hname.
  unfold moved_leaf. cbn [st_fs]. apply world_okb_touch_dir. apply world_okb_touch_dir.
  pose proof (world_okb_wf _ _ Hok) as Hwf.
  set (f := st_fs s) in *.
  assert (Hok1 : world_okb pfx (base.delete kn f) = true).
  { destruct Hkn as [Hn|[nn [Hn Hd]]].
    - rewrite delete_notin by exact Hn. exact Hok.
    - apply world_okb_delete; [exact Hok | exact Hnne | | ].
      + intro E. destruct (world_okb_prefix_dir _ _ Hok) as [m Hm]. rewrite <- E in Hm.
        norm_keys. rewrite Hn in Hm. injection Hm as Hm. subst nn. discriminate Hd.
      + apply has_children_false_iff. exact (wf_nondir_no_children f kn nn Hwf Hn Hd). }
  assert (Hok2 : world_okb pfx (base.delete ko (base.delete kn f)) = true).
  { apply world_okb_delete; [exact Hok1 | exact Hone | exact Hokp |].
    intros r Hr. rewrite lookup_delete_None. right. apply has_children_false_iff; assumption. }
  assert (Ekn : removelast kn ++ [last kn []] = kn) by (apply removelast_last_snoc; exact Hnne).
  assert (Hp2 : is_dir_at (base.delete ko (base.delete kn f)) (removelast kn)).
  { destruct Hpar as [m Hm]. exists m.
    rewrite lookup_delete_ne.
    - rewrite lookup_delete_ne; [exact Hm|]. intro E. exact (removelast_neq _ kn Hnne (eq_sym E)).
    - intro E. apply key_prefixb_false_iff in Hpre. apply Hpre. exists [last kn []].
      rewrite E. symmetry. exact Ekn. }
  assert (Hn2 : base.delete ko (base.delete kn f) !! (removelast kn ++ [last kn []]) = None).
  { rewrite Ekn. rewrite lookup_delete_ne by congruence. apply lookup_delete. }
  pose proof (world_okb_insert_new pfx _ (removelast kn) (last kn []) no Hok2 Hp2 Hn2 Hname
                (world_okb_perm12 pfx f ko no Hok Hko)) as H.
  rewrite Ekn in H. exact H.
Qed.

Lemma key_eqb_wkey : forall pfx po pn,
  abs_cleaned po -> abs_cleaned pn -> key_eqb (wkey pfx po) (wkey pfx pn) = str_eqb po pn.
Proof.
  intros pfx po pn Ho Hn. destruct (str_eqb po pn) eqn:E.
  - apply str_eqb_eq in E. subst pn. apply key_eqb_refl.
  - apply key_eqb_neq. intro E'. apply (wkey_inj pfx po pn Ho Hn) in E'. subst pn.
    rewrite str_eqb_refl in E. discriminate E.
Qed.

Lemma run_rename_leaf : forall tag pfx w po pn,
  prefix_ok pfx -> quiet w -> world_okb pfx (st_fs (w_st w)) = true ->
  abs_cleaned po -> abs_cleaned pn ->
  direct (st_fs (w_st w)) (wpath pfx po) -> direct (st_fs (w_st w)) (wpath pfx pn) ->
  has_children (st_fs (w_st w)) (wkey pfx po) = false ->
  a_rename (the_api tag pfx) po pn w =
  fin tag (PM MRename) po pn w
    (match st_fs (w_st w) !! wkey pfx po with
     | None => (Err ENOENT, w_st w)
     | Some no =>
         match st_fs (w_st w) !! wkey pfx pn with
         | Some nn =>
             if is_dir nn then (Err EEXIST, w_st w)
             else if str_eqb po pn then (Ok tt, w_st w)
             else if is_dir no then
               if key_prefixb (wkey pfx po) (wkey pfx pn) then (Err EINVAL, w_st w) else (Err ENOTDIR, w_st w)
             else (Ok tt, moved_leaf (w_st w) (wkey pfx po) (wkey pfx pn) no)
         | None =>
             if is_dir no && key_prefixb (wkey pfx po) (wkey pfx pn) then (Err EINVAL, w_st w)
             else (Ok tt, moved_leaf (w_st w) (wkey pfx po) (wkey pfx pn) no)
         end
     end).
Proof.
  intros tag pfx w po pn Hp Hq Hok Ho Hn Hdo Hdn Hnc.
  pose proof (comps_wpath pfx po Hp (proj2 Ho)) as CO.
  pose proof (comps_wpath pfx pn Hp (proj2 Hn)) as CN.
  rewrite (the_api_rename tag pfx Hp po pn (proj2 Ho) (proj2 Hn)).
  rewrite (spied_fs_upd_fin _ tag (PM MRename) po pn _ w Hq).
  rewrite (fs_rename_direct_leaf (w_st w) (wpath pfx po) (wpath pfx pn) (world_okb_wf _ _ Hok)
             Hdo Hdn).
  - rewrite CO, CN, (key_eqb_wkey pfx po pn Ho Hn).
    assert (E : str_eqb (wpath pfx po) (wpath pfx pn) = str_eqb po pn).
    { destruct (str_eqb po pn) eqn:E.
      - apply str_eqb_eq in E. subst pn. apply str_eqb_refl.
      - apply str_eqb_neq. intro E'. apply (wpath_inj pfx po pn Hp Ho Hn) in E'. subst pn.
        rewrite str_eqb_refl in E. discriminate E. }
    rewrite E.
    dlook pfx po as [no|]; [|reflexivity].
    dlook pfx pn as [nn|]; [|reflexivity].
    destruct (is_dir nn); [|reflexivity].
    destruct (str_eqb po pn); reflexivity.
  - rewrite CO. apply wkey_nonnil. exact Hp.
  - rewrite CN. apply wkey_nonnil. exact Hp.
  - rewrite CO. exact Hnc.
Qed.

(* ------------------------------------------------------------------ *)
(** * H. Writing through an arbitrary handle of [the_api] (for the frame of
      the user's own handles) *)

Lemma fh_spy_the_handle : forall tag pfx p h, fh_spy (the_handle tag pfx p h) = Some (tag, p).
Proof. reflexivity. Qed.

Lemma fh_the_handle : forall tag pfx p h, fh (the_handle tag pfx p h) = h.
Proof. reflexivity. Qed.

Lemma fs_write_cases : forall s h data,
  (exists e, fs_write s h data = (Err e, (s, h))) \/
  (exists m c c' pos',
     st_fs s !! h_key h = Some (File m c) /\
     fs_write s h data =
       (Ok tt,
        (update_node (mkFstate (st_fs s) (N.succ (st_clock s))) (h_key h)
           (File (mkMeta (m_perm m) (m_uid m) (m_gid m) (Now (st_clock s))) c'),
         mkHandle (h_key h) pos' (h_write h) (h_read h) (h_append h) (h_dir h) (h_name h)))).
Proof.
  intros s h data. unfold fs_write. destruct (negb (h_write h)); [left; eexists; reflexivity|].
  destruct (st_fs s !! h_key h) as [[m|m c|m t]|] eqn:E; try (left; eexists; reflexivity).
  right. exists m, c. eexists. eexists. split; [reflexivity|]. reflexivity.
Qed.

Lemma hwrite_quiet_gen : forall tag h p w data,
  quiet w -> fh_spy h = Some (tag, p) ->
  (exists e, hwrite h data w = (MErr e, after tag PWrite p [] (Some e) w (w_st w))) \/
  (exists m c c' h',
     st_fs (w_st w) !! h_key (fh h) = Some (File m c) /\
     fh_spy h' = fh_spy h /\ h_key (fh h') = h_key (fh h) /\
     hwrite h data w =
       (MOk h',
        after tag PWrite p [] None w
          (update_node (mkFstate (st_fs (w_st w)) (N.succ (st_clock (w_st w)))) (h_key (fh h))
             (File (mkMeta (m_perm m) (m_uid m) (m_gid m) (Now (st_clock (w_st w)))) c')))).
Proof.
  intros tag h p w data Hq Hs. unfold hwrite. rewrite (spy_h_spied _ h tag p PWrite _ Hs).
  destruct (fs_write_cases (w_st w) (fh h) data) as [[e E]|(m & c & c' & pos' & Hl & E)].
  - left. exists e.
    rewrite (spied_quiet_run _ tag PWrite p [] _ w (MErr e) (tickw w) Hq).
    + unfold after. cbn [err_of]. rewrite set_st_tickw_same. reflexivity.
    + rewrite w_st_tickw, E. reflexivity.
    + discriminate.
  - right. exists m, c, c'.
    exists (set_fh h (mkHandle (h_key (fh h)) pos' (h_write (fh h)) (h_read (fh h)) (h_append (fh h))
                               (h_dir (fh h)) (h_name (fh h)))).
    split; [exact Hl|]. split; [reflexivity|]. split; [reflexivity|].
    rewrite (spied_quiet_run _ tag PWrite p [] _ w
               (MOk (set_fh h (mkHandle (h_key (fh h)) pos' (h_write (fh h)) (h_read (fh h))
                                        (h_append (fh h)) (h_dir (fh h)) (h_name (fh h)))))
               (set_st (tickw w)
                  (update_node (mkFstate (st_fs (w_st w)) (N.succ (st_clock (w_st w)))) (h_key (fh h))
                     (File (mkMeta (m_perm m) (m_uid m) (m_gid m) (Now (st_clock (w_st w)))) c'))) Hq).
    + reflexivity.
    + rewrite w_st_tickw, E. reflexivity.
    + discriminate.
Qed.

(* ------------------------------------------------------------------ *)
(** * I. Reading handles in general, read-only handles, directory listings
      (for the laws about calls that change nothing) *)

Lemma fs_read_cases : forall s h,
  (exists e, fs_read s h = (Err e, h)) \/
  (fs_read s h = (Ok None, h)) \/
  (exists ch n, fs_read s h = (Ok (Some ch), advance_h h n)).
Proof.
  intros s h. unfold fs_read. destruct (negb (h_read h) || h_dir h); [left; eexists; reflexivity|].
  destruct (st_fs s !! h_key h) as [[m|m c|m t]|]; try (left; eexists; reflexivity).
  destruct (skipn (N.to_nat (h_pos h)) c) as [|x rest]; [right; left; reflexivity|].
  right. right. eexists. eexists. reflexivity.
Qed.

(** [hread] never changes the state; the handle keeps its spy tag, its
    hidden-list, its key and its mode *)
Lemma hread_quiet_gen : forall tag h p w,
  quiet w -> fh_spy h = Some (tag, p) ->
  exists r, hread h w = (r, after tag PRead p [] (err_of r) w (w_st w)) /\ r <> MHalt /\
    forall d h', r = MOk (d, h') ->
      fh_spy h' = fh_spy h /\ fh_hidden h' = fh_hidden h /\ fh_name h' = fh_name h /\
      h_key (fh h') = h_key (fh h) /\ h_write (fh h') = h_write (fh h) /\
      h_read (fh h') = h_read (fh h) /\ h_dir (fh h') = h_dir (fh h) /\
      h_append (fh h') = h_append (fh h).
Proof.
  intros tag h p w Hq Hs. unfold hread. rewrite (spy_h_spied _ h tag p PRead _ Hs).
  destruct (fs_read_cases (w_st w) (fh h)) as [[e E]|[E|[ch [n E]]]].
  - exists (MErr e). split; [|split; [discriminate | intros d h' H; discriminate H]].
    rewrite (spied_quiet_run _ tag PRead p [] _ w (MErr e) (tickw w) Hq).
    + unfold after. rewrite set_st_tickw_same. reflexivity.
    + rewrite w_st_tickw, E. reflexivity.
    + discriminate.
  - exists (MOk (None, set_fh h (fh h))). split; [|split; [discriminate|]].
    + rewrite (spied_quiet_run _ tag PRead p [] _ w (MOk (None, set_fh h (fh h))) (tickw w) Hq).
      * unfold after. rewrite set_st_tickw_same. reflexivity.
      * rewrite w_st_tickw, E. reflexivity.
      * discriminate.
    + intros d h' H. injection H as _ H. subst h'. repeat split.
  - exists (MOk (Some ch, set_fh h (advance_h (fh h) n))). split; [|split; [discriminate|]].
    + rewrite (spied_quiet_run _ tag PRead p [] _ w (MOk (Some ch, set_fh h (advance_h (fh h) n))) (tickw w) Hq).
      * unfold after. rewrite set_st_tickw_same. reflexivity.
      * rewrite w_st_tickw, E. reflexivity.
      * discriminate.
    + intros d h' H. injection H as _ H. subst h'. repeat split.
Qed.

(** writing through a handle that was not opened for writing fails *)
Lemma hwrite_readonly : forall tag h p w data,
  quiet w -> fh_spy h = Some (tag, p) -> h_write (fh h) = false ->
  hwrite h data w = (MErr EBADF, after tag PWrite p [] (Some EBADF) w (w_st w)).
Proof.
  intros tag h p w data Hq Hs Hw. unfold hwrite. rewrite (spy_h_spied _ h tag p PWrite _ Hs).
  rewrite (spied_quiet_run _ tag PWrite p [] _ w (MErr EBADF) (tickw w) Hq).
  - unfold after. cbn [err_of]. rewrite set_st_tickw_same. reflexivity.
  - unfold fs_write. rewrite Hw. reflexivity.
  - discriminate.
Qed.

(** [Readdirnames(-1)] on a handle without hidden-list *)
Lemma hreaddirnames_quiet : forall tag h p w,
  quiet w -> fh_spy h = Some (tag, p) -> fh_hidden h = None ->
  hreaddirnames h w =
    fin tag PReaddirnames p [] w (fs_readdirnames (w_st w) (fh h), w_st w).
Proof.
  intros tag h p w Hq Hs Hh. unfold hreaddirnames. rewrite (spy_h_spied _ h tag p PReaddirnames _ Hs).
  rewrite Hh.
  rewrite (spied_ext _ tag PReaddirnames p [] _ (fs_get (fun s => fs_readdirnames s (fh h)))).
  - apply spied_fs_get_quiet. exact Hq.
  - intros w1. unfold bind, ret. rewrite fs_get_run.
    destruct (fs_readdirnames (w_st w1) (fh h)); reflexivity.
Qed.

Lemma fs_readdirnames_eq : forall s h,
  fs_readdirnames s h = if h_dir h then Ok (child_names (st_fs s) (h_key h)) else Err ENOTDIR.
Proof. reflexivity. Qed.

(** the names a directory listing reports are the direct children *)
Lemma child_names_In : forall (f : fs) k c,
  In c (child_names f k) <-> exists n, f !! (k ++ [c]) = Some n.
Proof.
  intros f k c. unfold child_names.
  assert (H : forall l : list (key * node),
            In c (fold_right (fun kv acc =>
                                if key_prefixb k (fst kv) && Nat.eqb (length (fst kv)) (S (length k))
                                then last (fst kv) [] :: acc else acc) [] l) <->
            exists kv, In kv l /\ key_prefixb k (fst kv) = true /\
                       length (fst kv) = S (length k) /\ c = last (fst kv) []).
  { induction l as [|kv l IH]; simpl.
    - split; [intros [] | intros [kv [[] _]]].
    - destruct (key_prefixb k (fst kv) && Nat.eqb (length (fst kv)) (S (length k))) eqn:E.
      + simpl. rewrite IH. split.
        * intros [Hc|[kv' [Hin H]]].
          -- exists kv. apply andb_true_iff in E. destruct E as [E1 E2]. apply Nat.eqb_eq in E2.
             split; [left; reflexivity | split; [exact E1 | split; [exact E2 | symmetry; exact Hc]]].
          -- exists kv'. split; [right; exact Hin | exact H].
        * intros [kv' [[Heq|Hin] H]].
          -- subst kv'. left. symmetry. exact (proj2 (proj2 H)).
          -- right. exists kv'. split; assumption.
      + rewrite IH. split.
        * intros [kv' [Hin H]]. exists kv'. split; [right; exact Hin | exact H].
        * intros [kv' [[Heq|Hin] (H1 & H2 & H3)]].
          -- subst kv'. rewrite H1, H2, Nat.eqb_refl in E. discriminate E.
          -- exists kv'. split; [exact Hin | split; [exact H1 | split; [exact H2 | exact H3]]]. }
  rewrite H. split.
  - intros [[k' n] (Hin & H1 & H2 & H3)]. simpl in *. apply entries_In in Hin.
    apply key_prefixb_iff in H1. destruct H1 as [r Hr]. subst k'.
    rewrite app_length in H2.
    destruct r as [|x [|y r]]; simpl in H2; try lia.
    rewrite last_last in H3. subst x. exists n. exact Hin.
  - intros [n Hn]. exists (k ++ [c], n). simpl. split; [apply entries_In; exact Hn|].
    split; [apply key_prefixb_app|]. split; [rewrite app_length; simpl; lia | symmetry; apply last_last].
Qed.

(** the view path of a child *)
Lemma comps_join2_child : forall p c,
  abs_cleaned p -> good_compb c = true -> comps (join2 p c) = comps p ++ [c].
Proof.
  intros p c Hac Hc. apply good_compb_spec in Hc. destruct Hc as [[Hc1 [Hc2 Hc3]] Hc4].
  pose proof (abs_cleaned_nonempty p Hac) as Hne.
  rewrite (join2_eq p c Hne), comps_clean, (comps_app_sep p c Hne), (proj2 Hac).
  rewrite (split_sep_nosep_id c Hc3), norm_cons.
  assert (E1 : str_eqb c [] || str_eqb c s_dot = false).
  { apply orb_false_iff. split; apply str_eqb_neq; assumption. }
  assert (E2 : str_eqb c s_dotdot = false) by (apply str_eqb_neq; exact Hc4).
  rewrite E1, E2. simpl. rewrite rev_involutive. reflexivity.
Qed.

Lemma join2_child : forall p c,
  abs_cleaned p -> good_compb c = true -> join2 p c = kpath (comps p ++ [c]).
Proof.
  intros p c Hac Hc. pose proof (abs_cleaned_nonempty p Hac) as Hne.
  rewrite (cleaned_eq _ (cleaned_join2 p c Hne)), (is_abs_join2 p c Hne), (proj2 Hac).
  rewrite (comps_join2_child p c Hac Hc). reflexivity.
Qed.

Lemma join2_child_abs_cleaned : forall p c,
  abs_cleaned p -> good_compb c = true -> abs_cleaned (join2 p c).
Proof.
  intros p c Hac Hc. pose proof (abs_cleaned_nonempty p Hac) as Hne.
  split; [apply cleaned_join2; exact Hne | rewrite (is_abs_join2 p c Hne); exact (proj2 Hac)].
Qed.

Lemma wkey_join2_child : forall pfx p c,
  abs_cleaned p -> good_compb c = true -> wkey pfx (join2 p c) = wkey pfx p ++ [c].
Proof.
  intros pfx p c Hac Hc. unfold wkey. rewrite (comps_join2_child p c Hac Hc). apply app_assoc.
Qed.

Lemma ancestors_join2_child : forall p c,
  abs_cleaned p -> good_compb c = true -> In p (ancestors (join2 p c)).
Proof.
  intros p c Hac Hc. apply (ancestors_In _ p (join2_child_abs_cleaned p c Hac Hc)).
  exists (comps p). split; [|symmetry; apply kpath_comps; exact Hac].
  rewrite (comps_join2_child p c Hac Hc), kprefixes_snoc. apply in_or_app. right. left. reflexivity.
Qed.

(** a name listed in the directory of [p] is an entry of the view below [p] *)
Lemma child_names_view : forall pfx (f : fs) p c,
  prefix_ok pfx -> world_okb pfx f = true -> abs_cleaned p ->
  In c (child_names f (wkey pfx p)) ->
  good_compb c = true /\ view_of pfx f !! join2 p c <> None /\ In p (ancestors (join2 p c)).
Proof.
  intros pfx f p c Hp Hok Hac Hin. apply child_names_In in Hin. destruct Hin as [n Hn].
  assert (Hc : good_compb c = true).
  { pose proof (world_okb_keys_good _ _ Hok _ _ Hn) as G. apply good_key_app in G. destruct G as [_ G].
    apply forallb_good_compb_spec in G. simpl in G. rewrite andb_true_r in G. exact G. }
  split; [exact Hc|]. split; [|apply ancestors_join2_child; assumption].
  rewrite (view_lookup pfx f _ Hok (join2_child_abs_cleaned p c Hac Hc)).
  rewrite (wkey_join2_child pfx p c Hac Hc). norm_keys. rewrite Hn. discriminate.
Qed.

(* ------------------------------------------------------------------ *)
(** * Z. Worked examples: some laws of Spec/Laws.v for [the_api tag pa] with
      the view [Vp pa] and the other view [Vp pb], with exactly the
      hypotheses of the corresponding fields of [api_laws] (no budget
      hypothesis: see the remark on the walk budget at the top).  They show how the lemmas above combine; the proofs of the
      remaining laws follow the same pattern. *)

Section Examples.
  Variable tag : fstag.
  Variables pa pb : str.
  Hypothesis Ha : prefix_ok pa.
  Hypothesis Hb : prefix_ok pb.
  Hypothesis Hd : disjoint_prefixes pa pb.
  Notation A := (the_api tag pa).
  Notation V := (Vp pa).
  Notation V' := (Vp pb).

  Lemma ex_law_lstat_some : forall w p n, quiet w -> swf (V w) -> snolinkpar (V w) p -> V w !! p = Some n ->
    exists fi, ok_step V V' (a_lstat A p) w fi (V w) /\ info_matches fi n /\ fi_mt fi = m_mt (node_meta n) /\
               fi_name fi = GoPath.base p.
  Proof.
    intros w p n Hq Hwf Hnl Hl. unfold ok_step.
    destruct (Vp_lookup_Some_inv pa w p n Hl) as (Hok & Hac & nd & Hnd & En).
    pose proof (present_direct pa _ p nd Ha Hok (proj2 Hac) Hnd) as Hdir.
    rewrite (the_api_lstat tag pa Ha p (proj2 Hac)).
    rewrite (spied_fs_get_map_quiet _ _ tag (PM MLstat) p [] _ _ w Hq).
    rewrite (fs_lstat_direct (w_st w) (wpath pa p) Hdir).
    rewrite (comps_wpath pa p Ha (proj2 Hac)). norm_keys. rewrite Hnd. cbn [mres_of mres_map err_of].
    eexists. split; [|split; [|split]].
    - eexists. split; [reflexivity|]. split; [reflexivity | apply same_rest_after_same].
    - subst n. apply info_matches_vnode. unfold info_matches, set_info_name, info_of. simpl. tauto.
    - subst n. rewrite vnode_meta. reflexivity.
    - simpl. apply (info_name_wpath pa p Ha Hac).
  Qed.

  Lemma ex_law_lstat_none : forall w p, quiet w -> swf (V w) -> snolinkpar (V w) p -> V w !! p = None ->
    err_step V V' (a_lstat A p) w not_found.
  Proof.
    intros w p Hq Hwf Hnl Hl. unfold err_step.
    pose proof (swf_Vp_world_okb pa w Hwf) as Hok.
    destruct (snolinkpar_Vp pa w p Ha Hok Hnl) as [Hac Hnlp].
    rewrite (Vp_lookup pa w p Hok Hac) in Hl.
    assert (Hnone : st_fs (w_st w) !! wkey pa p = None).
    { destruct (st_fs (w_st w) !! wkey pa p); [discriminate Hl | reflexivity]. }
    rewrite (the_api_lstat tag pa Ha p (proj2 Hac)).
    rewrite (spied_fs_get_map_quiet _ _ tag (PM MLstat) p [] _ _ w Hq).
    pose proof (fs_lstat_nolinkpar (w_st w) (wpath pa p) (world_okb_wf _ _ Hok)
                  Hnlp) as E.
    rewrite (comps_wpath pa p Ha (proj2 Hac)) in E. norm_keys. rewrite Hnone in E. destruct E as [e [E Hnf]].
    rewrite E. cbn [mres_of mres_map err_of].
    exists e. eexists. split; [reflexivity|]. split; [exact Hnf|].
    split; [reflexivity | apply same_rest_after_same].
  Qed.

  Lemma ex_law_chmod : forall w p mode n, quiet w -> swf (V w) -> snolinkpar (V w) p -> V w !! p = Some n -> ~ is_link n ->
    ok_step V V' (a_chmod A p mode) w tt (<[ p := with_meta n (set_perm mode) ]> (V w)).
  Proof.
    intros w p mode n Hq Hwf Hnl Hl Hnlk. unfold ok_step.
    destruct (Vp_lookup_Some_inv pa w p n Hl) as (Hok & Hac & nd & Hnd & En).
    pose proof (present_direct pa _ p nd Ha Hok (proj2 Hac) Hnd) as Hdir.
    assert (Hnl' : not_link_at (st_fs (w_st w)) (comps (wpath pa p))).
    { rewrite (comps_wpath pa p Ha (proj2 Hac)). intros m t E. rewrite Hnd in E. injection E as E.
      apply Hnlk. subst n nd. exists m, (vtarget pa t). reflexivity. }
    rewrite (the_api_chmod tag pa Ha p mode (proj2 Hac)).
    rewrite (spied_fs_upd_quiet _ tag (PM MChmod) p [] _ w Hq).
    rewrite (fs_chmod_direct (w_st w) (wpath pa p) mode Hdir Hnl').
    rewrite (comps_wpath pa p Ha (proj2 Hac)). norm_keys. rewrite Hnd. cbn [fst snd mres_of err_of].
    set (n' := set_meta nd _).
    assert (Hok' : world_okb pa (st_fs (update_node (w_st w) (wkey pa p) n')) = true).
    { apply (world_okb_update_node pa (w_st w) _ nd n' Hok Hnd).
      - destruct nd; simpl; intro H; try discriminate H; reflexivity.
      - unfold n'. apply (perm12_land _ mode). destruct nd; reflexivity. }
    eexists. split; [reflexivity|]. split.
    - rewrite (Vp_after_ok pa _ _ _ _ _ _ _ Hok').
      rewrite (view_update_node pa (w_st w) p n' Ha (world_okb_keys_good _ _ Hok) Hac).
      rewrite (Vp_ok pa w Hok). subst n. unfold n'. rewrite vnode_set_meta.
      unfold with_meta, set_perm. rewrite vnode_meta. reflexivity.
    - apply (same_rest_after pa pb); try assumption. apply same_outside_update_node_wkey.
  Qed.

  Lemma ex_law_mkdirall_new : forall w p perm, quiet w -> swf (V w) -> sdirect (V w) p -> V w !! p = None ->
    exists m' s', ok_step V V' (a_mkdirall A p perm) w tt s' /\ s' !! p = Some (Dir m') /\
                  store_eqv_except [p] s' (V w) /\ swf s'.
  Proof.
    intros w p perm Hq Hwf Hsd Hl. unfold ok_step.
    pose proof (swf_Vp_world_okb pa w Hwf) as Hok.
    destruct (sdirect_Vp pa w p Ha Hok Hsd) as [Hac Hdir].
    rewrite (Vp_lookup pa w p Hok Hac) in Hl.
    assert (Hnone : st_fs (w_st w) !! wkey pa p = None).
    { destruct (st_fs (w_st w) !! wkey pa p); [discriminate Hl | reflexivity]. }
    assert (Hne : p <> s_root).
    { intro E. subst p. rewrite wkey_root in Hnone. destruct (world_okb_prefix_dir _ _ Hok) as [m Hm].
      rewrite Hm in Hnone. discriminate Hnone. }
    assert (Hc : comps (wpath pa p) <> []).
    { rewrite (comps_wpath pa p Ha (proj2 Hac)). apply wkey_nonnil. exact Ha. }
    pose proof (direct_parent_dir _ _ Hdir Hc) as Hpd.
    rewrite (the_api_mkdirall tag pa Ha p perm (proj2 Hac)).
    rewrite (spied_fs_upd_quiet _ tag (PM MMkdirAll) p [] _ w Hq).
    rewrite (fs_mkdirall_direct_missing_eq (w_st w) (wpath pa p) perm Hdir
               Hc)
      by (rewrite (comps_wpath pa p Ha (proj2 Hac)); exact Hnone).
    rewrite (comps_wpath pa p Ha (proj2 Hac)) in *. cbn [fst snd mres_of err_of].
    set (mk := fun (t : mtime) (g : N) => Dir _).
    assert (Hok' : world_okb pa (st_fs (add_entry (w_st w) (removelast (wkey pa p)) (last (wkey pa p) []) mk)) = true).
    { apply (world_okb_add_entry_wkey pa (w_st w) p mk Ha Hok Hac Hne Hpd Hnone).
      intros t g. unfold mk. apply perm12_mkdir. }
    destruct Hpd as [md Hmd].
    eexists. eexists. split; [|split; [|split]].
    - eexists. split; [reflexivity|]. split; [apply (Vp_after_ok pa _ _ _ _ _ _ _ Hok')|].
      apply (same_rest_after pa pb); try assumption. apply same_outside_add_entry_wkey.
      intro E. apply Hne. apply (abs_cleaned_comps_nil p Hac). exact E.
    - rewrite (view_add_entry pa (w_st w) p mk md Ha (world_okb_keys_good _ _ Hok) Hac Hne Hmd).
      rewrite lookup_insert_ne, lookup_insert; [reflexivity|].
      apply vparent_ne; assumption.
    - rewrite (Vp_ok pa w Hok).
      apply (view_add_entry_eqv pa (w_st w) p mk _ eq_refl Ha); try assumption;
        eapply world_okb_keys_good; eassumption.
    - apply swf_view; assumption.
  Qed.

  Lemma ex_law_symlink : forall w t p, quiet w -> swf (V w) -> sdirect (V w) p -> V w !! p = None ->
    t <> [] -> acc_p pa t p ->
    exists m' s', ok_step V V' (a_symlink A t p) w tt s' /\ s' !! p = Some (Link m' (clean t)) /\
                  m_perm m' = 511%N /\ store_eqv_except [p] s' (V w) /\ swf s'.
  Proof.
    intros w t p Hq Hwf Hsd Hl Ht Hacc. unfold ok_step.
    pose proof (swf_Vp_world_okb pa w Hwf) as Hok.
    destruct (sdirect_Vp pa w p Ha Hok Hsd) as [Hac Hdir].
    pose proof (view_lookup_None_inv pa _ p Hok Hac) as Hnone. rewrite <- (Vp_ok pa w Hok) in Hnone.
    specialize (Hnone Hl).
    assert (Hne : p <> s_root).
    { intro E. subst p. rewrite wkey_root in Hnone. destruct (world_okb_prefix_dir _ _ Hok) as [m Hm].
      norm_keys. rewrite Hm in Hnone. discriminate Hnone. }
    assert (Hc : comps (wpath pa p) <> []).
    { rewrite (comps_wpath pa p Ha (proj2 Hac)). apply wkey_nonnil. exact Ha. }
    pose proof (direct_parent_dir _ _ Hdir Hc) as Hpd.
    rewrite (the_api_symlink_acc tag pa Ha t p (proj2 Hac) Hacc).
    rewrite (spied_fs_upd_quiet _ tag (PM MSymlink) p t _ w Hq).
    rewrite (fs_symlink_direct_missing (w_st w) (sym_target pa t) (wpath pa p) Hdir (sym_target_nonempty pa t Ht) Hc)
      by (rewrite (comps_wpath pa p Ha (proj2 Hac)); exact Hnone).
    rewrite (comps_wpath pa p Ha (proj2 Hac)) in *. cbn [fst snd mres_of err_of].
    set (mk := fun (t0 : mtime) (g : N) => Link _ _).
    assert (Hok' : world_okb pa (st_fs (add_entry (w_st w) (removelast (wkey pa p)) (last (wkey pa p) []) mk)) = true).
    { apply (world_okb_add_entry_wkey pa (w_st w) p mk Ha Hok Hac Hne Hpd Hnone).
      intros t0 g. unfold mk. apply perm12_newlink. }
    destruct Hpd as [md Hmd].
    eexists. eexists. split; [|split; [|split; [|split]]].
    - eexists. split; [reflexivity|]. split; [apply (Vp_after_ok pa _ _ _ _ _ _ _ Hok')|].
      apply (same_rest_after pa pb); try assumption. apply same_outside_add_entry_wkey.
      intro E. apply Hne. apply (abs_cleaned_comps_nil p Hac). exact E.
    - rewrite (view_add_entry pa (w_st w) p mk md Ha (world_okb_keys_good _ _ Hok) Hac Hne Hmd).
      rewrite lookup_insert_ne, lookup_insert; [|apply vparent_ne; assumption].
      unfold mk. rewrite vnode_link.
      rewrite (vtarget_sym_target pa t p Ha (proj2 Hac) (proj1 (acc_p_iff pa t p Ha (proj2 Hac)) Hacc)).
      reflexivity.
    - reflexivity.
    - rewrite (Vp_ok pa w Hok).
      apply (view_add_entry_eqv pa (w_st w) p mk _ eq_refl Ha); try assumption;
        eapply world_okb_keys_good; eassumption.
    - apply swf_view; assumption.
  Qed.

  Lemma ex_law_hwrite : forall w h p pos m c data, quiet w -> wh_p tag pa h p pos -> V w !! p = Some (File m c) -> length c = pos ->
    exists h' t', ok_step V V' (hwrite h data) w h' (<[ p := File (set_mt t' m) (c ++ data) ]> (V w)) /\
                  wh_p tag pa h' p (pos + length data).
  Proof.
    intros w h p pos m c data Hq Hwh Hl Hlen. unfold ok_step.
    destruct (Vp_lookup_Some_inv pa w p _ Hl) as (Hok & Hac & nd & Hnd & En).
    symmetry in En. apply vnode_file_inv in En. subst nd.
    rewrite (hwrite_quiet tag pa h p pos w m c data Hq Hwh Hnd), (write_at_end c data pos Hlen).
    eexists. eexists. split; [|apply (wh_p_seek tag pa h p pos _ Hwh)].
    set (s1 := mkFstate (st_fs (w_st w)) (N.succ (st_clock (w_st w)))).
    set (n' := File _ (c ++ data)).
    assert (Hok' : world_okb pa (st_fs (update_node s1 (wkey pa p) n')) = true).
    { apply (world_okb_update_node pa s1 _ (File m c) n' Hok Hnd); [intro H; discriminate H|].
      exact (world_okb_perm12 pa _ _ _ Hok Hnd). }
    eexists. split; [reflexivity|]. split.
    - rewrite (Vp_after_ok pa _ _ _ _ _ _ _ Hok').
      rewrite (view_update_node pa s1 p n' Ha (world_okb_keys_good _ _ Hok) Hac).
      rewrite (Vp_ok pa w Hok). reflexivity.
    - apply (same_rest_after pa pb); try assumption. apply (same_outside_update_node_wkey pa s1).
  Qed.

  Lemma ex_law_remove_leaf : forall w p n, quiet w -> swf (V w) -> snolinkpar (V w) p -> V w !! p = Some n ->
    no_children (V w) p -> p <> s_root ->
    exists s', ok_step V V' (a_remove A p) w tt s' /\ s' !! p = None /\ store_eqv_except [p] s' (V w) /\ swf s'.
  Proof.
    intros w p n Hq Hwf Hnl Hl Hnc Hne. unfold ok_step.
    destruct (Vp_lookup_Some_inv pa w p n Hl) as (Hok & Hac & nd & Hnd & En).
    pose proof (world_okb_keys_good _ _ Hok) as Hg.
    pose proof (present_direct pa _ p nd Ha Hok (proj2 Hac) Hnd) as Hdir.
    rewrite (Vp_ok pa w Hok) in Hnc. apply (no_children_view pa _ p Ha Hg Hac) in Hnc.
    assert (Hc : comps (wpath pa p) <> []).
    { rewrite (comps_wpath pa p Ha (proj2 Hac)). apply wkey_nonnil. exact Ha. }
    pose proof (direct_parent_dir _ _ Hdir Hc) as [md Hmd].
    rewrite (comps_wpath pa p Ha (proj2 Hac)) in Hmd.
    rewrite (the_api_remove tag pa Ha p (proj2 Hac)).
    rewrite (spied_fs_upd_quiet _ tag (PM MRemove) p [] _ w Hq).
    assert (E : fs_remove (w_st w) (wpath pa p) = (Ok tt, remove_entry (w_st w) (wkey pa p))).
    { rewrite <- (comps_wpath pa p Ha (proj2 Hac)).
      rewrite <- (comps_wpath pa p Ha (proj2 Hac)) in Hnd, Hnc.
      destruct nd as [m|m c|m t].
      - apply (fs_remove_direct_emptydir _ _ m Hdir Hnd Hc Hnc).
      - apply (fs_remove_direct_nondir _ _ _ Hdir Hnd eq_refl).
      - apply (fs_remove_direct_nondir _ _ _ Hdir Hnd eq_refl). }
    rewrite E. cbn [fst snd mres_of err_of].
    assert (Hok' : world_okb pa (st_fs (remove_entry (w_st w) (wkey pa p))) = true).
    { apply world_okb_remove_entry_wkey; assumption. }
    eexists. split; [|split; [|split]].
    - eexists. split; [reflexivity|]. split; [apply (Vp_after_ok pa _ _ _ _ _ _ _ Hok')|].
      apply (same_rest_after pa pb); try assumption. apply same_outside_remove_entry_wkey.
      intro E'. apply Hne. apply (abs_cleaned_comps_nil p Hac). exact E'.
    - rewrite (view_remove_entry pa (w_st w) p md Ha Hg Hac Hne Hmd).
      rewrite lookup_insert_ne, lookup_delete; [reflexivity | apply vparent_ne; assumption].
    - rewrite (Vp_ok pa w Hok).
      apply (view_remove_entry_eqv pa (w_st w) p _ eq_refl); try assumption.
      eapply world_okb_keys_good; eassumption.
    - apply swf_view; assumption.
  Qed.

  Lemma ex_law_user_mkdir : forall w p perm, quiet w -> swf (V w) -> snolinkpar (V w) p ->
    framed V V' (a_mkdir A p perm) w [p].
  Proof.
    intros w p perm Hq Hwf Hnl. unfold framed.
    pose proof (swf_Vp_world_okb pa w Hwf) as Hok.
    pose proof (proj1 Hnl) as Hac.
    rewrite (Vp_ok pa w Hok) in Hnl.
    destruct (wpath_direct_or_unresolvable pa _ p Ha Hok Hac Hnl) as [Hdir|[Hun Hnone]].
    - rewrite (run_mkdir tag pa Ha w Hq p Hac Hdir perm).
      dlook pa p as [nd|] eqn:Hnd.
      + rewrite fin_err. eexists. eexists. split; [reflexivity|].
        split; [discriminate|]. split; [apply same_rest_after_same|].
        split; [exact Hwf | apply store_eqv_except_refl].
      + rewrite fin_ok.
        assert (Hne : p <> s_root).
        { intro E. subst p. rewrite wkey_root in Hnd. destruct (world_okb_prefix_dir _ _ Hok) as [m Hm].
          norm_keys. rewrite Hm in Hnd. discriminate Hnd. }
        assert (Hc : comps (wpath pa p) <> []).
        { rewrite (comps_wpath pa p Ha (proj2 Hac)). apply wkey_nonnil. exact Ha. }
        pose proof (direct_parent_dir _ _ Hdir Hc) as Hpd.
        rewrite (comps_wpath pa p Ha (proj2 Hac)) in Hpd.
        set (mk := fun (t : mtime) (g : N) => Dir _).
        assert (Hok' : world_okb pa (st_fs (add_entry (w_st w) (removelast (wkey pa p)) (last (wkey pa p) []) mk)) = true).
        { apply (world_okb_add_entry_wkey pa (w_st w) p mk Ha Hok Hac Hne Hpd Hnd).
          intros t g. unfold mk. apply perm12_mkdir. }
        eexists. eexists. split; [reflexivity|]. split; [discriminate|]. split; [|split].
        * apply (same_rest_after pa pb); try assumption. apply same_outside_add_entry_wkey.
          intro E. apply Hne. apply (abs_cleaned_comps_nil p Hac). exact E.
        * rewrite (Vp_after_ok pa _ _ _ _ _ _ _ Hok'). apply swf_view; assumption.
        * rewrite (Vp_after_ok pa _ _ _ _ _ _ _ Hok'), (Vp_ok pa w Hok).
          apply (view_add_entry_eqv pa (w_st w) p mk _ eq_refl Ha); try assumption;
            eapply world_okb_keys_good; eassumption.
    - destruct (run_mkdir_unresolvable tag pa Ha w Hq p Hac Hun perm) as [e [E _]]. rewrite E.
      eexists. eexists. split; [reflexivity|].
      split; [discriminate|]. split; [apply same_rest_after_same|].
      split; [exact Hwf | apply store_eqv_except_refl].
  Qed.

  Lemma ex_law_user_rename : forall w po pn, quiet w -> swf (V w) -> snolinkpar (V w) po -> snolinkpar (V w) pn ->
    no_children (V w) po -> framed V V' (a_rename A po pn) w [po; pn].
  Proof.
    intros w po pn Hq Hwf Hnlo Hnln Hnc. unfold framed.
    pose proof (swf_Vp_world_okb pa w Hwf) as Hok.
    pose proof (world_okb_keys_good _ _ Hok) as Hg.
    pose proof (world_okb_wf _ _ Hok) as Hwff.
    pose proof (proj1 Hnlo) as Ho. pose proof (proj1 Hnln) as Hn.
    rewrite (Vp_ok pa w Hok) in Hnlo, Hnln, Hnc.
    apply (no_children_view pa _ po Ha Hg Ho) in Hnc.
    assert (Hsame : forall e, exists r w', (@MErr unit e, after tag (PM MRename) po pn (Some e) w (w_st w)) = (r, w') /\
              r <> MHalt /\ same_rest V' w w' /\ swf (V w') /\ store_eqv_except [po; pn] (V w') (V w)).
    { intros e. eexists. eexists. split; [reflexivity|]. split; [discriminate|].
      split; [apply same_rest_after_same|]. split; [exact Hwf | apply store_eqv_except_refl]. }
    assert (Hsame' : exists r w', (MOk tt, after tag (PM MRename) po pn None w (w_st w)) = (r, w') /\
              r <> MHalt /\ same_rest V' w w' /\ swf (V w') /\ store_eqv_except [po; pn] (V w') (V w)).
    { eexists. eexists. split; [reflexivity|]. split; [discriminate|].
      split; [apply same_rest_after_same|]. split; [exact Hwf | apply store_eqv_except_refl]. }
    destruct (wpath_direct_or_unresolvable pa _ po Ha Hok Ho Hnlo) as [Hdo|[Huo _]].
    2:{ destruct (run_rename_unresolvable tag pa w po pn Ha Hq Ho Hn (or_introl Huo)) as [e E].
        rewrite E. apply Hsame. }
    destruct (wpath_direct_or_unresolvable pa _ pn Ha Hok Hn Hnln) as [Hdn|[Hun _]].
    2:{ destruct (run_rename_unresolvable tag pa w po pn Ha Hq Ho Hn (or_intror Hun)) as [e E].
        rewrite E. apply Hsame. }
    rewrite (run_rename_leaf tag pa w po pn Ha Hq Hok Ho Hn Hdo Hdn Hnc).
    dlook pa po as [no|] eqn:Eo; [|rewrite fin_err; apply Hsame].
    assert (Hmoved : key_prefixb (wkey pa po) (wkey pa pn) = false -> po <> pn ->
              (st_fs (w_st w) !! wkey pa pn = None \/
               exists nn, st_fs (w_st w) !! wkey pa pn = Some nn /\ is_dir nn = false) ->
              exists r w', (MOk tt, after tag (PM MRename) po pn None w
                                     (moved_leaf (w_st w) (wkey pa po) (wkey pa pn) no)) = (r, w') /\
              r <> MHalt /\ same_rest V' w w' /\ swf (V w') /\ store_eqv_except [po; pn] (V w') (V w)).
    { intros Hpre Hne Hkn.
      assert (Hpo : po <> s_root).
      { intro E. subst po. apply key_prefixb_false_iff in Hpre. apply Hpre.
        rewrite wkey_root. exists (comps pn). reflexivity. }
      assert (Hpn : pn <> s_root).
      { intro E. subst pn. rewrite wkey_root in Hkn. destruct (world_okb_prefix_dir _ _ Hok) as [m Hm].
        destruct Hkn as [Hk|[nn [Hk Hdd]]]; norm_keys; rewrite Hm in Hk; [discriminate Hk|].
        injection Hk as Hk. subst nn. discriminate Hdd. }
      assert (Hco : comps po <> []) by (intro E; apply Hpo; apply (abs_cleaned_comps_nil po Ho); exact E).
      assert (Hcn : comps pn <> []) by (intro E; apply Hpn; apply (abs_cleaned_comps_nil pn Hn); exact E).
      assert (Hcwn : comps (wpath pa pn) <> []) by (rewrite (comps_wpath pa pn Ha (proj2 Hn)); apply wkey_nonnil; exact Ha).
      pose proof (direct_parent_dir _ _ Hdn Hcwn) as Hpd. rewrite (comps_wpath pa pn Ha (proj2 Hn)) in Hpd.
      assert (Hok' : world_okb pa (st_fs (moved_leaf (w_st w) (wkey pa po) (wkey pa pn) no)) = true).
      { apply world_okb_moved_leaf; try assumption.
        - apply wkey_nonnil; exact Ha.
        - apply wkey_ne_kp; assumption.
        - intro E. apply Hne. exact (wkey_inj pa po pn Ho Hn E).
        - apply wkey_nonnil; exact Ha.
        - apply wkey_last_good; [exact (proj2 Hn) | exact Hcn]. }
      eexists. eexists. split; [reflexivity|]. split; [discriminate|]. split; [|split].
      - apply (same_rest_after pa pb); try assumption.
        apply same_outside_moved_leaf; try (apply wkey_removelast_prefix; assumption); apply wkey_nonnil; exact Ha.
      - rewrite (Vp_after_ok pa _ _ _ _ _ _ _ Hok'). apply swf_view; assumption.
      - rewrite (Vp_after_ok pa _ _ _ _ _ _ _ Hok'), (Vp_ok pa w Hok).
        apply view_eqv_except; try assumption; [eapply world_okb_keys_good; eassumption | |].
        + constructor; [exact Ho | constructor; [exact Hn | constructor]].
        + intros k _ Hk. apply moved_leaf_onode_eqv; apply Hk; [left | right; left]; reflexivity. }
    dlook pa pn as [nn|] eqn:En.
    - destruct (is_dir nn) eqn:Edn; [rewrite fin_err; apply Hsame|].
      destruct (str_eqb po pn) eqn:Eeq; [rewrite fin_ok; apply Hsame'|].
      destruct (is_dir no) eqn:Edo.
      + destruct (key_prefixb (wkey pa po) (wkey pa pn)); rewrite fin_err; apply Hsame.
      + rewrite fin_ok. apply str_eqb_neq in Eeq. apply Hmoved; [| exact Eeq | right; exists nn; split; [reflexivity | exact Edn]].
        apply key_prefixb_false_iff. intros [r Hr].
        destruct (list_eq_dec (list_eq_dec N.eq_dec) r []) as [E|E].
        * subst r. rewrite app_nil_r in Hr. apply Eeq. symmetry. exact (wkey_inj pa pn po Hn Ho Hr).
        * pose proof (wf_nondir_no_children _ _ no Hwff Eo Edo) as Hn0.
          pose proof (proj1 (has_children_false_iff _ _) Hn0 r E) as Hn1. norm_keys. rewrite <- Hr in Hn1. congruence.
    - destruct (is_dir no && key_prefixb (wkey pa po) (wkey pa pn)) eqn:Eb; [rewrite fin_err; apply Hsame|].
      rewrite fin_ok. apply Hmoved; [| | left; reflexivity].
      + apply key_prefixb_false_iff. intros [r Hr].
        destruct (list_eq_dec (list_eq_dec N.eq_dec) r []) as [E|E].
        * subst r. rewrite app_nil_r in Hr. norm_keys. rewrite Hr in En. congruence.
        * assert (Hdir : is_dir_at (st_fs (w_st w)) (wkey pa po)).
          { apply (direct_prefix_dir _ (wpath pa pn) (wkey pa po) r Hdn E).
            rewrite (comps_wpath pa pn Ha (proj2 Hn)). exact Hr. }
          destruct Hdir as [m Hm]. norm_keys. rewrite Hm in Eo. injection Eo as Eo. subst no.
          assert (Hk : key_prefixb (wkey pa po) (wkey pa pn) = true) by (apply key_prefixb_iff; exists r; exact Hr).
          rewrite Hk in Eb. discriminate Eb.
      + intro E. subst pn. norm_keys. congruence.
  Qed.
End Examples.
