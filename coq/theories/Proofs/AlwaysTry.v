(** At every instant of [tryBackup] and of every covered operation the
    originals are recoverable ([recoverable] of Spec/Always.v): the run with a
    crash point halts only in such states ([safe], [always]).

    The proofs walk the computations of Proofs/BackupCopy.v and
    Proofs/BackupTry.v once more: the lemmas there give the outcome of every
    sub-computation in the run without crash point; here the state before
    each primitive call is shown to be recoverable.

    - copying helpers ([copy_dir_safe], [copy_file_safe], [copy_symlink_safe]):
      while a copy is written to [p] only this filesystem changes, only at
      [p], and what is at [p] is a (possibly growing) copy ([mid]);
    - [try_backup_safe]: inside [tryBackup] the base is only read, the backup
      changes only at the one untracked path being copied ([rec_mid]);
    - the base call(s) of an operation touch tracked paths only ([rec_frame]);
    - [step_safe], [step_always], [run_always]. *)
From stdpp Require Import gmap.
From BFS Require Import Spec.Always.
From BFS Require Import Path.PathSpec.
From BFS Require Import Proofs.PathFacts Proofs.C19Facts Proofs.RollbackFacts Proofs.FsFacts
                        Proofs.BackupCopy Proofs.BackupTry Proofs.BackupC01 Proofs.AlwaysLib.

(* ------------------------------------------------------------------ *)
(** * While a copy is written *)

Section CopySafe.
  Variables a a' : fsapi.
  Variables V V' : world -> store.
  Variables tn tn' : str -> str.
  Variables acc acc' : str -> str -> Prop.
  Variables rh rh' wh wh' : fhandle -> str -> nat -> Prop.
  Variables hid hid' anc anc' : str -> Prop.
  Hypothesis HLa : api_laws a V V' tn acc rh wh hid anc.
  Hypothesis HLa' : api_laws a' V' V tn' acc' rh' wh' hid' anc'.
  Hypothesis HCa : api_crash_laws a V.
  Hypothesis HCa' : api_crash_laws a' V'.

  (** since [w] only this filesystem changed, only at [p], and what is at [p] satisfies [K] *)
  Definition mid (K : option node -> Prop) (w : world) (p : str) (wq : world) : Prop :=
    same_rest V' w wq /\ store_eqv_except [p] (V wq) (V w) /\ K (V wq !! p).

  Variable K : option node -> Prop.

  Lemma mid_refl (w : world) (p : str) : K (V w !! p) -> mid K w p w.
  Proof. intros HK. split; [apply same_rest_refl | split; [apply store_eqv_except_refl | exact HK]]. Qed.

  Lemma mid_read (w w1 w2 : world) (p : str) :
    mid K w p w1 -> same_rest V' w1 w2 -> V w2 = V w1 -> mid K w p w2.
  Proof.
    intros (Hs & He & HK) Hs2 HV. split; [eapply same_rest_trans; eassumption |].
    rewrite HV. split; assumption.
  Qed.

  Lemma mid_post (w w1 : world) (p : str) :
    step_post V V' w w1 [p] -> K (V w1 !! p) -> mid K w p w1.
  Proof. intros (Hs & _ & He) HK. split; [exact Hs | split; [exact He | exact HK]]. Qed.

  Lemma mid_trans (w w1 wq : world) (p : str) :
    same_rest V' w w1 -> store_eqv_except [p] (V w1) (V w) -> mid K w1 p wq -> mid K w p wq.
  Proof.
    intros Hs1 He1 (Hs & He & HK). split; [eapply same_rest_trans; eassumption |].
    split; [eapply store_eqv_except_trans; eassumption | exact HK].
  Qed.

  Lemma mid_upd (w w1 w2 : world) (p : str) (n' : node) :
    same_rest V' w w1 -> store_eqv_except [p] (V w1) (V w) -> upd_res V V' w1 w2 p n' ->
    K (Some n') -> mid K w p w2.
  Proof.
    intros Hs1 He1 [Hs2 HV2] HK. split; [eapply same_rest_trans; eassumption |]. rewrite HV2. split.
    - eapply store_eqv_except_trans; [apply store_eqv_except_insert | exact He1].
    - rewrite lookup_insert. exact HK.
  Qed.

  Lemma at_node_quiet (w : world) (p : str) (n : node) : at_node V w p n -> quiet w.
  Proof. intros (Hq & _). exact Hq. Qed.

  (** ** [chown from name fs] under [ignore_permission]: Lstat, perhaps Chown *)
  Lemma chown_to_safe (I : world -> Prop) (w : world) (p : str) (n : node) (info : finfo) :
    at_node V w p n -> I w -> (forall w1, same_rest V' w w1 -> V w1 = V w -> I w1) ->
    safe I (ignore_permission (chown_to a info p)) w.
  Proof.
    intros Hat HI Hread.
    destruct (lstat_step a V V' tn acc rh wh hid anc HLa w p n Hat) as (old & w1 & Hrun1 & Hsr1 & HV1 & _).
    apply safe_ignore_permission. unfold chown_to.
    eapply safe_bind_ok; [exact Hrun1 | |].
    - apply safe_call; [apply (claw_lstat _ _ HCa) | exact (at_node_quiet _ _ _ Hat) | exact HI].
    - apply safe_if_call; [apply (claw_chown _ _ HCa) | | exact (Hread w1 Hsr1 HV1)].
      exact (quiet_same_rest V' w w1 (at_node_quiet _ _ _ Hat) Hsr1).
  Qed.

  (** ** [copy_dir] *)
  Lemma copy_dir_safe (w : world) (p : str) (fi : finfo) :
    quiet w -> swf (V w) -> sdirect (V w) p -> p <> s_root -> fi_kind fi = KDir ->
    (0 <= fi_uid fi)%Z -> (0 <= fi_gid fi)%Z ->
    (V w !! p = None \/ sdir (V w) p) ->
    K (V w !! p) -> (forall m, K (Some (Dir m))) -> ~ hid p ->
    safe (mid K w p) (copy_dir a p fi) w.
  Proof.
    intros Hq Hwf Hdir Hne Hk Hu Hg Hcase HK0 HKd Hnh.
    destruct (mkdirall_step a V V' tn acc rh wh hid anc HLa w p (perm9 fi) Hq Hwf Hdir Hcase Hnh)
      as (w1 & m1 & Hrun1 & Hpost1 & Hp1).
    pose proof Hpost1 as (Hsr01 & Hwf1 & He01).
    assert (Hat1 : at_node V w1 p (Dir m1)).
    { split; [| split]; [| exact Hwf1 | exact Hp1]. eapply quiet_same_rest; eassumption. }
    destruct (lstat_step a V V' tn acc rh wh hid anc HLa w1 p (Dir m1) Hat1)
      as (nfi & w2 & Hrun2 & Hsr2 & HV2 & Him2 & Hmt2).
    pose proof (read_at_node V V' w1 w2 p _ Hat1 Hsr2 HV2) as Hat2.
    destruct Him2 as (_ & Hperm2 & _).
    destruct (fix_mode_step a V V' tn acc rh wh hid anc HLa w2 p (Dir m1) nfi fi Hat2 (not_is_link_dir m1) Hperm2)
      as (w3 & Hrun3 & Hupd3).
    set (n3 := with_meta (Dir m1) (set_perm (mode12 fi))) in *.
    assert (Hat3 : at_node V w3 p n3).
    { eapply upd_at_node; [exact Hat2 | exact Hupd3 | reflexivity |].
      unfold n3, perm12, mode12. simpl. rewrite !land4095_idem. reflexivity. }
    destruct (fix_mt_step a V V' tn acc rh wh hid anc HLa w3 p n3 nfi fi Hat3 (not_is_link_dir _) Hmt2)
      as (w4 & Hrun4 & Hupd4).
    set (n4 := with_meta n3 (set_mt (fi_mt fi))) in *.
    assert (Hat4 : at_node V w4 p n4).
    { eapply upd_at_node; [exact Hat3 | exact Hupd4 | reflexivity |].
      unfold n4, n3, perm12, mode12. simpl. rewrite !land4095_idem. reflexivity. }
    (* the states before each call *)
    assert (Hm1 : mid K w p w1) by (apply mid_post; [exact Hpost1 | rewrite Hp1; apply HKd]).
    assert (Hm2 : mid K w p w2) by (exact (mid_read w w1 w2 p Hm1 Hsr2 HV2)).
    assert (Hupd13 : upd_res V V' w1 w3 p n3).
    { eapply upd_res_trans; [| exact Hupd3]. apply upd_res_read; [exact Hp1 | exact Hsr2 | exact HV2]. }
    assert (Hm3 : mid K w p w3).
    { eapply (mid_upd w w1 w3 p n3); [exact Hsr01 | exact He01 | exact Hupd13 | apply HKd]. }
    assert (Hupd14 : upd_res V V' w1 w4 p n4) by (eapply upd_res_trans; eassumption).
    assert (Hm4 : mid K w p w4).
    { eapply (mid_upd w w1 w4 p n4); [exact Hsr01 | exact He01 | exact Hupd14 | apply HKd]. }
    rewrite (copy_dir_unfold a p fi Hk Hne). apply safe_wrap_other.
    eapply safe_bind_ok; [exact Hrun1 | |].
    { apply safe_call; [apply (claw_mkdirall _ _ HCa) | exact Hq | apply mid_refl; exact HK0]. }
    eapply safe_bind_ok; [exact Hrun2 | |].
    { apply safe_call; [apply (claw_lstat _ _ HCa) | exact (at_node_quiet _ _ _ Hat1) | exact Hm1]. }
    eapply safe_bind_ok; [exact Hrun3 | |].
    { apply safe_if_call; [apply (claw_chmod _ _ HCa) | exact (at_node_quiet _ _ _ Hat2) | exact Hm2]. }
    eapply safe_bind_ok; [exact Hrun4 | |].
    { destruct (negb (mtime_eqb (fi_mt nfi) (fi_mt fi))); [| apply safe_ret].
      apply safe_ignore_permission.
      apply safe_call; [apply (claw_chtimes _ _ HCa) | exact (at_node_quiet _ _ _ Hat3) | exact Hm3]. }
    apply (chown_to_safe _ w4 p n4 fi Hat4 Hm4).
    intros w5 Hsr5 HV5. exact (mid_read w w4 w5 p Hm4 Hsr5 HV5).
  Qed.

  (** ** the copy loop: the destination holds a prefix of the source content *)
  Definition copying (c : list N) (w : world) (p : str) (wq : world) : Prop :=
    same_rest V' w wq /\ exists m' pos', V wq = <[p := File m' (firstn pos' c)]> (V w).

  Lemma copying_trans (c : list N) (w w1 wq : world) (p : str) :
    copying c w p w1 -> copying c w1 p wq -> copying c w p wq.
  Proof.
    intros (Hs1 & m1 & pos1 & HV1) (Hs2 & m2 & pos2 & HV2).
    split; [eapply same_rest_trans; eassumption |]. exists m2, pos2.
    rewrite HV2, HV1. apply insert_insert.
  Qed.

  Lemma io_copy_safe : forall (fuel : nat) (w : world) (dst src : fhandle) (p ps : str)
                              (pos : nat) (m ms : meta) (c : list N),
    quiet w -> V w !! p = Some (File m (firstn pos c)) -> (pos <= length c)%nat ->
    wh dst p pos -> rh' src ps pos -> V' w !! ps = Some (File ms c) ->
    safe (copying c w p) (io_copy fuel dst src) w.
  Proof.
    induction fuel as [|fuel IH]; intros w dst src p ps pos m ms c Hq Hp Hpos Hwh Hrh Hps.
    { apply safe_fail. }
    assert (Hself : copying c w p w).
    { split; [apply same_rest_refl |]. exists m, pos. symmetry. apply insert_id. exact Hp. }
    simpl io_copy.
    pose proof (law_hread _ _ _ _ _ _ _ _ _ HLa' w src ps pos ms c Hq Hrh Hps) as Hread.
    destruct (skipn pos c) as [|x rest] eqn:Hskip.
    - destruct Hread as (h' & w1 & Hrun & HV'1 & Hsr1).
      eapply safe_bind_ok; [exact Hrun | |].
      + apply safe_call; [apply atomic_hread | exact Hq | exact Hself].
      + cbn [fst]. apply safe_ret.
    - destruct Hread as (h' & (w1 & Hrun & HV'1 & Hsr1) & Hrh').
      rewrite <- Hskip in *.
      set (data := firstn chunk_size (skipn pos c)) in *.
      destruct (same_rest_swap V V' w w1 HV'1 Hsr1) as [HV1 Hsr1'].
      pose proof (quiet_same_rest V' w w1 Hq Hsr1') as Hq1.
      assert (Hp1 : V w1 !! p = Some (File m (firstn pos c))) by (rewrite HV1; exact Hp).
      assert (Hlen : length (firstn pos c) = pos) by (apply firstn_length_le; exact Hpos).
      destruct (law_hwrite _ _ _ _ _ _ _ _ _ HLa w1 dst p pos m (firstn pos c) data Hq1 Hwh Hp1 Hlen)
        as (h2 & t' & (w2 & Hrun2 & HV2 & Hsr2) & Hwh2).
      pose proof (quiet_same_rest V' w1 w2 Hq1 Hsr2) as Hq2.
      assert (Hp2 : V w2 !! p = Some (File (set_mt t' m) (firstn (pos + length data) c))).
      { rewrite HV2, lookup_insert. unfold data. rewrite firstn_chunk_step. reflexivity. }
      assert (Hps2 : V' w2 !! ps = Some (File ms c)).
      { rewrite (proj1 Hsr2), HV'1. exact Hps. }
      assert (Hpos2 : (pos + length data <= length c)%nat).
      { unfold data. rewrite firstn_length, skipn_length. lia. }
      assert (Hc1 : copying c w p w1).
      { split; [exact Hsr1' |]. exists m, pos. rewrite HV1. symmetry. apply insert_id. exact Hp. }
      assert (Hc2 : copying c w p w2).
      { apply (copying_trans c w w1 w2 p Hc1). split; [exact Hsr2 |].
        exists (set_mt t' m), (pos + length data)%nat. rewrite HV2.
        unfold data. rewrite firstn_chunk_step. reflexivity. }
      eapply safe_bind_ok; [exact Hrun | |].
      + apply safe_call; [apply atomic_hread | exact Hq | exact Hself].
      + cbn [fst snd]. eapply safe_bind_ok; [exact Hrun2 | |].
        * apply safe_call; [apply atomic_hwrite | exact Hq1 | exact Hc1].
        * eapply safe_mono; [| exact (IH w2 h2 h' p ps (pos + length data)%nat (set_mt t' m) ms c
                                         Hq2 Hp2 Hpos2 Hwh2 Hrh' Hps2)].
          intros xq Hx. exact (copying_trans c w w2 xq p Hc2 Hx).
  Qed.

  Definition is_prefix (c' c : list N) : Prop := exists rest, c = c' ++ rest.

  Lemma firstn_is_prefix (n : nat) (c : list N) : is_prefix (firstn n c) c.
  Proof. exists (skipn n c). symmetry. apply firstn_skipn. Qed.

  Lemma is_prefix_refl (c : list N) : is_prefix c c.
  Proof. exists []. symmetry. apply app_nil_r. Qed.

  (** ** [write_file], [copy_file] *)
  Lemma write_file_safe (w : world) (p : str) (perm : N) (src : fhandle) (ps : str)
        (ms : meta) (c : list N) :
    quiet w -> swf (V w) -> sdirect (V w) p ->
    (V w !! p = None \/ exists m0 c0, V w !! p = Some (File m0 c0)) ->
    rh' src ps 0 -> V' w !! ps = Some (File ms c) -> small c ->
    K (V w !! p) -> (forall m' c', is_prefix c' c -> K (Some (File m' c'))) -> ~ hid p ->
    safe (mid K w p) (write_file a p perm src) w.
  Proof.
    intros Hq Hwf Hdir Hcase Hrh Hps Hsmall HK0 HKf Hnh.
    destruct (openfile_step a V V' tn acc rh wh hid anc HLa w p perm Hq Hwf Hdir Hcase Hnh)
      as (file & w1 & m1 & Hrun1 & Hwh & Hpost1 & Hp1).
    pose proof Hpost1 as (Hsr01 & Hwf1 & He01).
    assert (Hat1 : at_node V w1 p (File m1 [])).
    { split; [| split]; [| exact Hwf1 | exact Hp1]. eapply quiet_same_rest; eassumption. }
    assert (Hps1 : V' w1 !! ps = Some (File ms c)).
    { destruct Hpost1 as ((HV'1 & _) & _). rewrite HV'1. exact Hps. }
    assert (Hfuel1 : (1 <= tree_fuel)%nat) by (unfold tree_fuel; lia).
    assert (Hfuel2 : (length c - 0 <= chunk_size * (tree_fuel - 1))%nat).
    { unfold small in Hsmall.
      assert (Hmono : (chunk_size * (tree_fuel - 2) <= chunk_size * (tree_fuel - 1))%nat).
      { apply Nat.mul_le_mono_l. lia. }
      lia. }
    destruct (io_copy_spec a a' V V' tn tn' acc acc' rh rh' wh wh' hid hid' anc anc' HLa HLa'
                tree_fuel w1 file src p ps 0 m1 ms c (proj1 Hat1) Hp1
                ltac:(lia) Hwh Hrh Hps1 Hfuel1 Hfuel2)
      as (w2 & m2 & Hrun2 & Hsr2 & HV2 & Hperm2).
    assert (Hupd2 : upd_res V V' w1 w2 p (File m2 c)) by (split; [exact Hsr2 | exact HV2]).
    pose proof (quiet_same_rest V' w1 w2 (proj1 Hat1) Hsr2) as Hq2.
    assert (Hcopy : forall wq, copying c w1 p wq -> mid K w p wq).
    { intros wq (Hs & m' & pos' & HVq).
      eapply (mid_upd w w1 wq p (File m' (firstn pos' c))); [exact Hsr01 | exact He01 | split; assumption |].
      apply HKf. apply firstn_is_prefix. }
    unfold write_file.
    eapply safe_bind_ok; [exact Hrun1 | |].
    { apply safe_call; [apply (claw_openfile _ _ HCa) | exact Hq | apply mid_refl; exact HK0]. }
    eapply safe_bind_ok; [exact (try_ok _ w1 w2 tt Hrun2) | |].
    { apply safe_try. eapply safe_mono; [exact Hcopy |].
      exact (io_copy_safe tree_fuel w1 file src p ps 0 m1 ms c (proj1 Hat1) Hp1 ltac:(lia) Hwh Hrh Hps1). }
    apply safe_bind_silent.
    - apply safe_try. apply safe_call; [apply atomic_hclose | exact Hq2 |].
      eapply (mid_upd w w1 w2 p (File m2 c)); [exact Hsr01 | exact He01 | exact Hupd2 |].
      apply HKf. apply is_prefix_refl.
    - intros [x | e]; [apply silent_ret | apply silent_fail].
  Qed.

  Lemma copy_file_safe (w : world) (p : str) (fi : finfo) (src : fhandle) (ps : str)
        (ms : meta) (c : list N) :
    quiet w -> swf (V w) -> swf (V' w) -> sdirect (V w) p -> fi_kind fi = KFile ->
    (0 <= fi_uid fi)%Z -> (0 <= fi_gid fi)%Z ->
    (V w !! p = None \/ exists m0 c0, V w !! p = Some (File m0 c0)) ->
    rh' src ps 0 -> V' w !! ps = Some (File ms c) -> small c ->
    K (V w !! p) -> (forall m' c', is_prefix c' c -> K (Some (File m' c'))) -> ~ hid p ->
    safe (mid K w p) (copy_file a p fi src) w.
  Proof.
    intros Hq Hwf Hwf' Hdir Hk Hu Hg Hcase Hrh Hps Hsmall HK0 HKf Hnh.
    assert (HKc : forall m', K (Some (File m' c))) by (intros m'; apply HKf; apply is_prefix_refl).
    destruct (write_file_spec a a' V V' tn tn' acc acc' rh rh' wh wh' hid hid' anc anc' HLa HLa'
                w p (perm9 fi) src ps ms c Hq Hwf Hdir Hcase Hrh Hps Hsmall Hnh)
      as (w1 & m1 & Hrun1 & Hpost1 & Hat1).
    pose proof Hpost1 as (Hsr01 & Hwf1 & He01).
    destruct (chown_to_step a V V' tn acc rh wh hid anc HLa w1 p (File m1 c) fi Hat1 (not_is_link_file _ _) Hu Hg)
      as (w2 & n2 & Hrun2 & Hupd2 & Hn2 & Huid2 & Hgid2).
    assert (Hn2' : exists m2, n2 = File m2 c /\ perm12 n2).
    { pose proof (swf_lookup_perm12 _ _ _ (proj1 (proj2 Hat1)) (proj2 (proj2 Hat1))) as H12.
      destruct Hn2 as [-> | ->].
      - exists m1. split; [reflexivity | exact H12].
      - eexists. split; [reflexivity |]. apply (chown_node_perm12 (File m1 c)). exact H12. }
    destruct Hn2' as (m2 & -> & H12).
    pose proof (upd_at_node V V' w1 w2 p _ _ Hat1 Hupd2 eq_refl H12) as Hat2.
    destruct (lstat_step a V V' tn acc rh wh hid anc HLa w2 p (File m2 c) Hat2)
      as (nfi & w3 & Hrun3 & Hsr3 & HV3 & Him3 & Hmt3).
    pose proof (read_at_node V V' w2 w3 p _ Hat2 Hsr3 HV3) as Hat3.
    destruct Him3 as (_ & Hperm3 & _).
    destruct (fix_mode_step a V V' tn acc rh wh hid anc HLa w3 p (File m2 c) nfi fi Hat3 (not_is_link_file _ _) Hperm3)
      as (w4 & Hrun4 & Hupd4).
    set (n4 := with_meta (File m2 c) (set_perm (mode12 fi))) in *.
    assert (H12_4 : perm12 n4).
    { unfold n4, perm12, mode12. simpl. rewrite !land4095_idem. reflexivity. }
    pose proof (upd_at_node V V' w3 w4 p _ _ Hat3 Hupd4 eq_refl H12_4) as Hat4.
    (* the states before each call *)
    assert (Hm1 : mid K w p w1).
    { apply mid_post; [exact Hpost1 |]. rewrite (proj2 (proj2 Hat1)). apply HKc. }
    assert (Hm2 : mid K w p w2).
    { eapply (mid_upd w w1 w2 p (File m2 c)); [exact Hsr01 | exact He01 | exact Hupd2 | apply HKc]. }
    assert (Hm3 : mid K w p w3) by (exact (mid_read w w2 w3 p Hm2 Hsr3 HV3)).
    assert (Hupd14 : upd_res V V' w1 w4 p n4).
    { eapply upd_res_trans; [| exact Hupd4]. eapply upd_res_trans; [exact Hupd2 |].
      apply upd_res_read; [exact (proj2 (proj2 Hat2)) | exact Hsr3 | exact HV3]. }
    assert (Hm4 : mid K w p w4).
    { eapply (mid_upd w w1 w4 p n4); [exact Hsr01 | exact He01 | exact Hupd14 |]. unfold n4. simpl. apply HKc. }
    unfold copy_file. rewrite Hk. apply safe_wrap_other.
    eapply safe_bind_ok; [exact Hrun1 | |].
    { exact (write_file_safe w p (perm9 fi) src ps ms c Hq Hwf Hdir Hcase Hrh Hps Hsmall HK0 HKf Hnh). }
    eapply safe_bind_ok; [exact Hrun2 | |].
    { apply (chown_to_safe _ w1 p (File m1 c) fi Hat1 Hm1).
      intros w' Hsr' HV'. exact (mid_read w w1 w' p Hm1 Hsr' HV'). }
    eapply safe_bind_ok; [exact Hrun3 | |].
    { apply safe_call; [apply (claw_lstat _ _ HCa) | exact (at_node_quiet _ _ _ Hat2) | exact Hm2]. }
    eapply safe_bind_ok; [exact Hrun4 | |].
    { apply safe_if_call; [apply (claw_chmod _ _ HCa) | exact (at_node_quiet _ _ _ Hat3) | exact Hm3]. }
    destruct (negb (mtime_eqb (fi_mt nfi) (fi_mt fi))); [| apply safe_ret].
    apply safe_ignore_permission.
    apply safe_call; [apply (claw_chtimes _ _ HCa) | exact (at_node_quiet _ _ _ Hat4) | exact Hm4].
  Qed.

  (** ** [copy_symlink] *)
  Lemma copy_symlink_safe (w : world) (p : str) (fi : finfo) (ms : meta) (t : str) :
    quiet w -> swf (V w) -> swf (V' w) -> snolinkpar (V' w) p -> V' w !! p = Some (Link ms t) ->
    sdirect (V w) p -> V w !! p = None -> fi_kind fi = KLink ->
    t <> [] -> acc t p ->
    K None -> (forall m', K (Some (Link m' (tn t)))) -> ~ hid p ->
    safe (mid K w p) (copy_symlink a' a p fi) w.
  Proof.
    intros Hq Hwf Hwf' Hnlp' Hlink Hdir Hnone Hk Htne Hacc HK0 HKl Hnh.
    destruct (law_readlink _ _ _ _ _ _ _ _ _ HLa' w p ms t Hq Hwf' Hnlp' Hlink)
      as (w1 & Hrun1 & HV'1 & Hsr1).
    destruct (same_rest_swap V V' w w1 HV'1 Hsr1) as [HV1 Hsr1'].
    pose proof (quiet_same_rest V' w w1 Hq Hsr1') as Hq1.
    assert (Hwf1 : swf (V w1)) by (rewrite HV1; exact Hwf).
    assert (Hdir1 : sdirect (V w1) p) by (rewrite HV1; exact Hdir).
    assert (Hnone1 : V w1 !! p = None) by (rewrite HV1; exact Hnone).
    destruct (law_symlink _ _ _ _ _ _ _ _ _ HLa w1 t p Hq1 Hwf1 Hdir1 Hnone1 Htne Hacc Hnh)
      as (m2 & s2 & (w2 & Hrun2 & HV2 & Hsr2) & Hp2 & Hperm2 & Heqv2 & Hwf2).
    subst s2.
    pose proof (quiet_same_rest V' w1 w2 Hq1 Hsr2) as Hq2.
    assert (Hm0 : mid K w p w) by (apply mid_refl; rewrite Hnone; exact HK0).
    assert (Hm1 : mid K w p w1) by (exact (mid_read w w w1 p Hm0 Hsr1' HV1)).
    assert (Hm2 : mid K w p w2).
    { split; [eapply same_rest_trans; eassumption |]. split.
      - rewrite <- HV1. exact Heqv2.
      - rewrite Hp2. apply HKl. }
    unfold copy_symlink. rewrite Hk. apply safe_wrap_other.
    eapply safe_bind_ok; [exact Hrun1 | |].
    { apply safe_call; [apply (claw_readlink _ _ HCa') | exact Hq | exact Hm0]. }
    eapply safe_bind_ok; [exact Hrun2 | |].
    { apply safe_call; [apply (claw_symlink _ _ HCa) | exact Hq1 | exact Hm1]. }
    apply safe_ignore_permission.
    apply safe_call; [apply (claw_lchown _ _ HCa) | exact Hq2 | exact Hm2].
  Qed.
End CopySafe.

(* ------------------------------------------------------------------ *)
(** * [real_path] on a resolved name: only reading calls *)

Section RealPathSafe.
  Variable a : fsapi.
  Variables V V' : world -> store.
  Variable tn : str -> str.
  Variable acc : str -> str -> Prop.
  Variables rh wh : fhandle -> str -> nat -> Prop.
  Variables hid anc : str -> Prop.
  Hypothesis HLa : api_laws a V V' tn acc rh wh hid anc.
  Hypothesis HCa : api_crash_laws a V.

  (** since [w] nothing changed but traces and tick counters *)
  Definition rd (w wq : world) : Prop := V wq = V w /\ same_rest V' w wq.

  Lemma rd_refl (w : world) : rd w w.
  Proof. split; [reflexivity | apply same_rest_refl]. Qed.

  Lemma rd_trans (w w1 w2 : world) : rd w w1 -> rd w1 w2 -> rd w w2.
  Proof. intros [H1 S1] [H2 S2]. split; [congruence | eapply same_rest_trans; eassumption]. Qed.

  Lemma resolve_loop_safe (n : str) : forall (l : list str) (w : world),
    l <> [] -> last l [] = n ->
    (forall q, In q l -> snolinkpar (V w) q) ->
    (forall q, In q (removelast l) -> snotlink (V w) q) ->
    quiet w -> swf (V w) ->
    safe (rd w) (resolve_loop a l (fun x => x) n) w.
  Proof.
    induction l as [|q rest IH]; intros w Hne Hlast Hnlp Hnl Hq Hwf.
    - contradiction Hne. reflexivity.
    - cbn [resolve_loop].
      pose proof (Hnlp q (in_eq q rest)) as Hnlpq.
      destruct (V w !! q) as [nd|] eqn:Hsq.
      + destruct (law_lstat_some _ _ _ _ _ _ _ _ _ HLa w q nd Hq Hwf Hnlpq Hsq)
          as (fi & (w1 & Hrun1 & HV1 & Hsr1) & (Hkind & _) & _).
        pose proof (quiet_same_rest V' w w1 Hq Hsr1) as Hq1.
        assert (Hrd1 : rd w w1) by (split; assumption).
        eapply safe_bind_ok; [exact (try_ok _ w w1 fi Hrun1) | |].
        { apply safe_try. apply safe_call; [apply (claw_lstat _ _ HCa) | exact Hq | apply rd_refl]. }
        destruct rest as [|q2 rest'].
        * simpl in Hlast. subst q.
          destruct nd as [m | m c | m t]; simpl in Hkind; rewrite Hkind.
          -- apply safe_ret.
          -- apply safe_ret.
          -- assert (Hwf1 : swf (V w1)) by (rewrite HV1; exact Hwf).
             assert (Hnlp1 : snolinkpar (V w1) n) by (rewrite HV1; exact Hnlpq).
             assert (Hs1 : V w1 !! n = Some (Link m t)) by (rewrite HV1; exact Hsq).
             apply safe_bind_silent; [| intros x; apply silent_ret].
             apply safe_call; [apply (claw_readlink _ _ HCa) | exact Hq1 | exact Hrd1].
        * change (removelast (q :: q2 :: rest')) with (q :: removelast (q2 :: rest')) in Hnl.
          change (last (q :: q2 :: rest') []) with (last (q2 :: rest') []) in Hlast.
          assert (Hk : fi_kind fi <> KLink).
          { intros E. rewrite Hkind in E. destruct nd as [m | m c | m t]; try discriminate E.
            exact (Hnl q (in_eq _ _) m t Hsq). }
          assert (Hrec : safe (rd w) (resolve_loop a (q2 :: rest') (fun x => x) n) w1).
          { eapply safe_mono; [| apply (IH w1)].
            - intros x Hx. exact (rd_trans w w1 x Hrd1 Hx).
            - discriminate.
            - exact Hlast.
            - intros r Hr. rewrite HV1. apply Hnlp. right. exact Hr.
            - intros r Hr. rewrite HV1. apply Hnl. right. exact Hr.
            - exact Hq1.
            - rewrite HV1. exact Hwf. }
          destruct (fi_kind fi); [exact Hrec | exact Hrec | contradiction Hk; reflexivity].
      + destruct (law_lstat_none _ _ _ _ _ _ _ _ _ HLa w q Hq Hwf Hnlpq Hsq)
          as (e & w1 & Hrun1 & Hnf & HV1 & Hsr1).
        eapply safe_bind_ok; [exact (try_err _ w w1 e Hrun1) | |].
        { apply safe_try. apply safe_call; [apply (claw_lstat _ _ HCa) | exact Hq | apply rd_refl]. }
        cbv beta iota. unfold not_found in Hnf. rewrite Hnf. apply safe_ret.
  Qed.

  Lemma real_path_safe (w : world) (n : str) :
    quiet w -> swf (V w) -> snolinkpar (V w) n -> safe (rd w) (real_path a n) w.
  Proof.
    intros Hq Hwf Hnlp. pose proof Hnlp as [[Hc Habs] Hf].
    assert (Hne : n <> []) by (apply cleaned_nonempty; exact Hc).
    unfold real_path. unfold cleaned in Hc. rewrite Hc. unfold resolve_path_with_info.
    destruct n as [|x n']; [contradiction Hne; reflexivity |].
    apply safe_bind_silent; [| intros r; apply silent_ret].
    apply (resolve_loop_safe (x :: n') (cands (x :: n')) w).
    - rewrite (cands_last _ Hc). intros E. apply app_eq_nil in E. destruct E as [_ E]. discriminate E.
    - rewrite (cands_last _ Hc). apply last_last.
    - intros q Hin. eapply snolinkpar_cands; eassumption.
    - intros q Hin. rewrite Forall_forall in Hf. apply Hf. exact Hin.
    - exact Hq.
    - exact Hwf.
  Qed.
End RealPathSafe.

(* ------------------------------------------------------------------ *)
(** * Computations that make no call *)

Lemma silent_wrap_other (m : M unit) : silent m -> silent (wrap_other m).
Proof.
  intros Hm. unfold wrap_other. apply silent_bind; [apply silent_try; exact Hm |].
  intros [x | e]; [apply silent_ret | apply silent_fail].
Qed.

Lemma copy_dir_root_silent (a : fsapi) (fi : finfo) : fi_kind fi = KDir -> silent (copy_dir a s_root fi).
Proof.
  intros Hk. unfold copy_dir, is_dir_info. rewrite Hk. cbn [negb].
  replace (str_eqb s_root s_root) with true by (vm_compute; reflexivity).
  apply silent_wrap_other. apply silent_ret.
Qed.

Lemma copy_dir_badinfo_silent (a : fsapi) (p : str) (fi : finfo) :
  fi_kind fi <> KDir -> silent (copy_dir a p fi).
Proof.
  intros Hk. unfold copy_dir, is_dir_info.
  destruct (fi_kind fi); [contradiction Hk; reflexivity | |]; apply silent_wrap_other; apply silent_fail.
Qed.

(* ------------------------------------------------------------------ *)
(** * [try_backup] *)

Section TrySafe.
  Variables base backup : fsapi.
  Variables Vb Vk : world -> store.
  Variables tnb tnk : str -> str.
  Variables accb acck : str -> str -> Prop.
  Variables rhb rhk whb whk : fhandle -> str -> nat -> Prop.
  Variables hid anc : str -> Prop.
  Variable B0 : store.

  Hypothesis HLb : base_laws base Vb Vk tnb accb rhb whb hid anc.
  Hypothesis HLk : backup_laws backup Vb Vk tnk acck rhk whk.
  Hypothesis HCb : api_crash_laws base Vb.
  Hypothesis HCk : api_crash_laws backup Vk.
  Hypothesis Hlinks : links_ok tnb tnk accb acck B0.
  Hypothesis Hsmall : all_small B0.
  Hypothesis HwfB0 : swf B0.

  Let Lb : api_laws base Vb Vk tnb accb rhb whb hid anc := HLb.
  Let Lk : api_laws backup Vk Vb tnk acck rhk whk nohid nohid := HLk.

  Local Notation recov := (recoverable Vb Vk B0).
  Local Notation inv := (Inv Vb Vk B0).

  (** ** the semantic content *)

  (** base calls that touched tracked paths only, the backup as it was *)
  Lemma rec_frame (w wq : world) (l : list str) :
    inv w -> Vk wq = Vk w -> store_eqv_except l (Vb wq) (Vb w) -> Forall (tracked w) l -> recov wq.
  Proof.
    intros HI HVk Heqv Htl. split.
    - intros p n0 Hp Hne. destruct (w_infos w !! p) as [[fi|]|] eqn:E.
      + destruct (inv_some _ _ _ _ HI p fi E) as (n0' & Hn0' & _ & [Hr | (nk & Hk & Hc)]); [contradiction |].
        rewrite Hp in Hn0'. injection Hn0' as <-. right. exists nk. rewrite HVk. split; assumption.
      + pose proof (inv_none _ _ _ _ HI p E) as Hn. rewrite Hp in Hn. discriminate Hn.
      + left. pose proof (inv_untracked _ _ _ _ HI p E) as H. rewrite Hp in H.
        eapply sonode_eqv_trans; [| exact H]. apply Heqv. intros Hin.
        rewrite List.Forall_forall in Htl. exact (Htl p Hin E).
    - exists s_root. intros p nk Hne Hk. rewrite HVk in Hk.
      destruct (inv_backup_only _ _ _ _ HI p Hne) as (fi & E); [rewrite Hk; discriminate |].
      destruct (inv_some _ _ _ _ HI p fi E) as (n0 & Hn0 & _ & [Hr | (nk' & Hk' & Hc)]); [contradiction |].
      rewrite Hk in Hk'. injection Hk' as <-. exists n0. split; [exact Hn0 | left; exact Hc].
  Qed.

  Lemma Inv_rec (w : world) : inv w -> recov w.
  Proof.
    intros HI. apply (rec_frame w w []); [exact HI | reflexivity | apply store_eqv_except_refl | constructor].
  Qed.

  Lemma same_all_rec (w wq : world) : inv w -> same_all Vb Vk w wq -> recov wq.
  Proof.
    intros HI (HVb & HVk & _). apply (rec_frame w wq []); [exact HI | exact HVk | | constructor].
    rewrite HVb. apply store_eqv_except_refl.
  Qed.

  Lemma rd_rec (w wq : world) : inv w -> rd Vb Vk w wq -> recov wq.
  Proof. intros HI [HV Hs]. apply (same_all_rec w wq HI). apply same_all_base; assumption. Qed.

  (** the backup is being written at the untracked path [p] of an original *)
  Lemma rec_mid (w wq : world) (p : str) (n0 : node) :
    inv w -> w_infos w !! p = None -> p <> s_root -> Vb wq = Vb w ->
    store_eqv_except [p] (Vk wq) (Vk w) -> B0 !! p = Some n0 ->
    (Vk wq !! p = None \/ exists nk, Vk wq !! p = Some nk /\ growing_copy n0 nk) -> recov wq.
  Proof.
    intros HI Hun Hne HVb Heqv Hp0 Hgrow.
    assert (Hother : forall q, q <> p -> sonode_eqv (Vk wq !! q) (Vk w !! q)).
    { intros q Hq. apply Heqv. intros [E | []]. apply Hq. symmetry. exact E. }
    split.
    - intros q m0 Hq Hqne. destruct (w_infos w !! q) as [[fi|]|] eqn:E.
      + destruct (inv_some _ _ _ _ HI q fi E) as (n0' & Hn0' & _ & [Hr | (nk & Hk & Hc)]); [contradiction |].
        rewrite Hq in Hn0'. injection Hn0' as <-. right.
        assert (Hqp : q <> p) by (intros ->; rewrite Hun in E; discriminate E).
        pose proof (Hother q Hqp) as He. rewrite Hk in He.
        destruct (Vk wq !! q) as [nk'|]; [| contradiction He]. simpl in He.
        exists nk'. split; [reflexivity | eapply copy_of_eqv_r; eassumption].
      + pose proof (inv_none _ _ _ _ HI q E) as Hn. rewrite Hq in Hn. discriminate Hn.
      + left. rewrite HVb. pose proof (inv_untracked _ _ _ _ HI q E) as H. rewrite Hq in H. exact H.
    - exists p. intros q nk Hqne Hk. destruct (str_eq_dec q p) as [-> | Hqp].
      + exists n0. split; [exact Hp0 |]. right. split; [reflexivity |].
        destruct Hgrow as [Hn | (nk' & Hk' & Hg)]; [rewrite Hn in Hk; discriminate Hk |].
        rewrite Hk in Hk'. injection Hk' as <-. exact Hg.
      + pose proof (Hother q Hqp) as He. rewrite Hk in He.
        destruct (Vk w !! q) as [nk0|] eqn:Ek; [| contradiction He]. simpl in He.
        destruct (inv_backup_only _ _ _ _ HI q Hqne) as (fi & E); [rewrite Ek; discriminate |].
        destruct (inv_some _ _ _ _ HI q fi E) as (n0' & Hn0' & _ & [Hr | (nk' & Hk' & Hc)]); [contradiction |].
        rewrite Ek in Hk'. injection Hk' as <-. exists n0'. split; [exact Hn0' | left].
        eapply copy_of_eqv_r; eassumption.
  Qed.

  Lemma untracked_orig (w : world) (p : str) (n : node) :
    inv w -> w_infos w !! p = None -> Vb w !! p = Some n ->
    exists n0, B0 !! p = Some n0 /\ snode_eqv n n0.
  Proof.
    intros HI Hun Hb. pose proof (inv_untracked _ _ _ _ HI p Hun) as He. rewrite Hb in He.
    destruct (B0 !! p) as [n0|]; [| contradiction He]. exists n0. split; [reflexivity | exact He].
  Qed.

  Lemma not_root_of (w : world) (p : str) (n : node) :
    inv w -> Vb w !! p = Some n -> node_kind n <> KDir -> p <> s_root.
  Proof.
    intros HI Hb Hk ->. destruct (swf_root_dir _ (inv_wf_b _ _ _ _ HI)) as [mr Hmr].
    rewrite Hmr in Hb. injection Hb as <-. apply Hk. reflexivity.
  Qed.

  (** ** [backup_required]: at most one Lstat on the base *)
  Lemma backup_required_safe (I : world -> Prop) (w : world) (p : str) :
    quiet w -> I w -> safe I (backup_required base p) w.
  Proof.
    intros Hq HI. unfold backup_required.
    apply safe_silent_bind; [apply silent_already_seen |].
    intros seen w1 Hseen. unfold already_seen, bind, get_infos, ret in Hseen. injection Hseen as <- <-.
    destruct (w_infos w !! p) as [info|]; [apply safe_ret |].
    apply safe_bind_silent.
    - apply safe_try. apply safe_call; [apply (claw_lstat _ _ HCb) | exact Hq | exact HI].
    - intros [fi | e]; [apply silent_ret |].
      destruct (is_not_found e); [| apply silent_fail].
      apply silent_bind; [apply silent_set_info_if_new | intros _; apply silent_ret].
  Qed.

  Definition Kdir (o : option node) : Prop := o = None \/ exists md, o = Some (Dir md).
  Definition Kfile (c : list N) (o : option node) : Prop :=
    o = None \/ exists m' c', o = Some (File m' c') /\ is_prefix c' c.
  Definition Klink (t : str) (o : option node) : Prop := o = None \/ exists m', o = Some (Link m' t).

  (** ** one round of [backup_dirs] *)
  Lemma bd_body_safe (w : world) (sub : str) :
    inv w -> snolinkpar (Vb w) sub -> Forall (tracked w) (ancestors sub) ->
    (w_infos w !! sub = None -> snotlink (Vb w) sub) ->
    safe recov (bd_body base backup sub) w.
  Proof.
    intros HI Hnlp Hanc Hnl. unfold bd_body.
    pose proof (inv_quiet _ _ _ _ HI) as Hq.
    assert (Hreq : safe recov (backup_required base sub) w).
    { apply backup_required_safe; [exact Hq | exact (Inv_rec w HI)]. }
    destruct (w_infos w !! sub) as [info|] eqn:Hi.
    { eapply safe_bind_ok; [exact (backup_required_seen base w sub info Hi) | exact Hreq |].
      cbv beta iota. destruct info; apply safe_ret. }
    specialize (Hnl eq_refl).
    destruct (Vb w !! sub) as [n|] eqn:Hb.
    2:{ destruct (backup_required_none base backup Vb Vk tnb tnk accb acck rhb rhk whb whk hid anc B0 HLb HLk
                    w sub HI Hnlp Hi Hb) as (w' & Hrun & _).
        eapply safe_bind_ok; [exact Hrun | exact Hreq | apply safe_ret]. }
    destruct (backup_required_some base Vb Vk tnb accb rhb whb hid anc B0 HLb w sub n HI Hnlp Hi Hb)
      as (fi & w1 & Hrun1 & Hsa1 & Him).
    pose proof (Inv_transfer Vb Vk B0 w w1 HI Hsa1) as HI1.
    pose proof Hsa1 as (HVb1 & HVk1 & Hi1 & Hc1 & Hf1).
    assert (Hun1 : w_infos w1 !! sub = None) by (rewrite Hi1; exact Hi).
    assert (Hb1 : Vb w1 !! sub = Some n) by (rewrite HVb1; exact Hb).
    pose proof (inv_quiet _ _ _ _ HI1) as Hq1.
    eapply safe_bind_ok; [exact Hrun1 | exact Hreq |]. cbv beta iota.
    destruct n as [m | m c | m t].
    - assert (Hk : fi_kind fi = KDir) by (exact (proj1 Him)).
      destruct (str_eq_dec sub s_root) as [-> | Hne].
      + eapply safe_bind_ok; [exact (try_ok _ w1 w1 tt (copy_dir_root_spec backup w1 fi Hk)) | |].
        * apply safe_try. apply silent_safe. apply copy_dir_root_silent. exact Hk.
        * apply silent_safe. apply silent_set_info_if_new.
      + destruct (info_matches_nonneg fi _ Him) as [Hu Hg].
        assert (Hdir1 : sdirect (Vk w1) sub).
        { rewrite HVk1. eapply backup_sdirect; eassumption. }
        assert (Hnone1 : Vk w1 !! sub = None).
        { apply (untracked_backup_none Vb Vk B0); assumption. }
        destruct (copy_dir_spec backup Vk Vb tnk acck rhk whk nohid nohid Lk w1 sub fi
                    Hq1 (inv_wf_k _ _ _ _ HI1) Hdir1 Hne Hk Hu Hg (or_introl Hnone1) (not_nohid _))
          as (w2 & m' & Hrun2 & _).
        eapply safe_bind_ok; [exact (try_ok _ w1 w2 tt Hrun2) | |].
        * apply safe_try. eapply safe_mono;
            [| exact (copy_dir_safe backup Vk Vb tnk acck rhk whk nohid nohid Lk HCk Kdir w1 sub fi
                        Hq1 (inv_wf_k _ _ _ _ HI1) Hdir1 Hne Hk Hu Hg (or_introl Hnone1)
                        (or_introl Hnone1) (fun md => or_intror (ex_intro _ md eq_refl)) (not_nohid _))].
          intros wq (Hsr & Heqv & HK).
          destruct (untracked_orig w1 sub (Dir m) HI1 Hun1 Hb1) as (n0 & Hn0 & He).
          apply (rec_mid w1 wq sub n0 HI1 Hun1 Hne (proj1 Hsr) Heqv Hn0).
          destruct HK as [HN | (md & HS)]; [left; exact HN | right].
          exists (Dir md). split; [exact HS |].
          destruct n0; simpl in He; try contradiction. exact I.
        * apply silent_safe. apply silent_set_info_if_new.
    - assert (Hk : fi_kind fi <> KDir) by (rewrite (proj1 Him); discriminate).
      destruct (copy_dir_badinfo_spec backup w1 sub fi Hk) as [e Hrun2].
      eapply safe_bind_ok; [exact (try_err _ w1 w1 e Hrun2) | |].
      + apply safe_try. apply silent_safe. apply copy_dir_badinfo_silent. exact Hk.
      + cbv beta iota. apply safe_bind_silent; [| intros x; apply silent_fail].
        apply safe_try. apply safe_call; [apply (claw_remove _ _ HCk) | exact Hq1 | exact (Inv_rec w1 HI1)].
    - exfalso. exact (Hnl m t Hb).
  Qed.

  (** ** the loop of [backup_dirs] *)
  Lemma bd_loop_safe (dp : str) : cleaned dp -> forall (l pre : list str) (w : world),
    pre ++ l = cands dp -> inv w -> Forall (tracked w) pre ->
    (forall sub, In sub l ->
       snolinkpar (Vb w) sub /\ (w_infos w !! sub = None -> snotlink (Vb w) sub)) ->
    safe recov (miter (bd_body base backup) l) w.
  Proof.
    intros Hc. induction l as [|sub rest IH]; intros pre w E HI Hpre Hl.
    - apply safe_ret.
    - destruct (Hl sub (in_eq _ _)) as [Hnlp Hnl].
      assert (Hanc : Forall (tracked w) (ancestors sub)).
      { apply List.Forall_forall. intros q Hq. rewrite List.Forall_forall in Hpre. apply Hpre.
        exact (cands_split_ancestors dp pre rest sub q Hc (eq_sym E) Hq). }
      destruct (bd_body_spec base backup Vb Vk tnb tnk accb acck rhb rhk whb whk hid anc B0 HLb HLk HwfB0
                  w sub HI Hnlp Hanc Hnl)
        as (r1 & w1 & Hrun1 & Hnh1 & HI1 & Hext1 & Htr1 & Hok1).
      cbn [miter].
      eapply safe_bind_run; [exact Hrun1 | exact (bd_body_safe w sub HI Hnlp Hanc Hnl) |].
      intros [] ->. pose proof Hext1 as (HVb1 & Hm1 & _).
      apply (IH (pre ++ [sub]) w1).
      + rewrite <- app_assoc. exact E.
      + exact HI1.
      + apply Forall_app. split.
        * eapply List.Forall_impl; [| exact Hpre]. intros q Hq. exact (ext_tracked _ _ _ _ _ Hext1 Hq).
        * constructor; [exact (Htr1 eq_refl) | constructor].
      + intros s Hs. destruct (Hl s (in_cons _ _ _ Hs)) as [H1 H2]. rewrite HVb1.
        split; [exact H1 |]. intros Hn. apply H2.
        destruct (w_infos w !! s) eqn:Es; [| reflexivity].
        rewrite Hm1 in Hn by (rewrite Es; discriminate). rewrite Es in Hn. discriminate Hn.
  Qed.

  Lemma backup_dirs_safe (w : world) (dp : str) :
    inv w -> snolinkpar (Vb w) dp -> (w_infos w !! dp = None -> snotlink (Vb w) dp) ->
    safe recov (backup_dirs base backup dp) w.
  Proof.
    intros HI Hnlp Hnl. rewrite backup_dirs_eq.
    pose proof Hnlp as [[Hc Habs] Hf].
    apply (bd_loop_safe dp Hc (cands dp) [] w eq_refl HI (Forall_nil _)).
    intros sub Hs. split; [eapply snolinkpar_cands; eassumption |].
    intros Hun. rewrite (cands_last dp Hc) in Hs. apply in_app_or in Hs.
    destruct Hs as [Hs | [<- | []]].
    - rewrite List.Forall_forall in Hf. exact (Hf sub Hs).
    - exact (Hnl Hun).
  Qed.

  (** the [backup_dirs] phase of [try_backup] *)
  Lemma dirs_phase_safe (w : world) (p dp : str) :
    inv w -> snolinkpar (Vb w) p ->
    (dp = p /\ (forall n, Vb w !! p = Some n -> node_kind n = KDir)) \/ dp = dir p ->
    safe recov (backup_dirs base backup dp) w.
  Proof.
    intros HI Hnlp Hcase. pose proof Hnlp as [[Hc Habs] Hf].
    assert (Hcase' : (dp = p /\ (forall n, Vb w !! p = Some n -> node_kind n = KDir)) \/
                     (dp = dir p /\ p <> s_root)).
    { destruct Hcase as [H | H]; [left; exact H |].
      destruct (str_eq_dec p s_root) as [-> | Hne]; [left | right; split; assumption].
      split; [rewrite H; apply dir_root |]. intros n Hn.
      destruct (swf_root_dir _ (inv_wf_b _ _ _ _ HI)) as [m Hm]. rewrite Hm in Hn.
      injection Hn as <-. reflexivity. }
    clear Hcase. destruct Hcase' as [[-> Hpd] | [-> Hne]].
    - apply (backup_dirs_safe w p HI Hnlp).
      intros _ m t Hl. specialize (Hpd _ Hl). discriminate Hpd.
    - pose proof (dir_in_ancestors p (conj Hc Habs) Hne) as Hin.
      assert (Hincands : In (dir p) (cands p)).
      { rewrite (cands_last p Hc). apply in_or_app. left. exact Hin. }
      apply (backup_dirs_safe w (dir p) HI (snolinkpar_cands _ _ _ Hnlp Hincands)).
      intros _. rewrite List.Forall_forall in Hf. exact (Hf _ Hin).
  Qed.

  (** ** the final phase of [try_backup]: a regular file *)
  Lemma tb_file_safe (w : world) (p : str) (fi : finfo) (m : meta) (c : list N) :
    inv w -> snolinkpar (Vb w) p -> w_infos w !! p = None ->
    Vb w !! p = Some (File m c) -> info_matches fi (File m c) ->
    Forall (tracked w) (ancestors p) ->
    safe recov (tb_file base backup p fi) w.
  Proof.
    intros HI Hnlp Hun Hb Him Hanc. unfold tb_file.
    destruct (law_open_file _ _ _ _ _ _ _ _ _ Lb w p m c (inv_quiet _ _ _ _ HI) (inv_wf_b _ _ _ _ HI) Hnlp Hb)
      as (sf & (w1 & Hrun1 & HVb1 & Hsr1) & Hrh).
    pose proof (same_all_base Vb Vk w w1 HVb1 Hsr1) as Hsa1.
    pose proof (Inv_transfer Vb Vk B0 w w1 HI Hsa1) as HI1.
    pose proof Hsa1 as (_ & HVk1 & Hi1 & Hc1 & Hf1).
    assert (Hun1 : w_infos w1 !! p = None) by (rewrite Hi1; exact Hun).
    assert (Hb1 : Vb w1 !! p = Some (File m c)) by (rewrite HVb1; exact Hb).
    assert (Hanc1 : Forall (tracked w1) (ancestors p)).
    { eapply List.Forall_impl; [| exact Hanc]. intros q Hq. unfold tracked in *. rewrite Hi1. exact Hq. }
    assert (Hne : p <> s_root) by (apply (not_root_of w p _ HI Hb); discriminate).
    destruct (info_matches_nonneg fi _ Him) as [Hu Hg].
    destruct (untracked_orig w1 p _ HI1 Hun1 Hb1) as (n0 & Hn0 & He0).
    assert (Hsm : small c).
    { destruct n0 as [m0 | m0 c0 | m0 t0]; simpl in He0; try contradiction.
      destruct He0 as [_ <-]. exact (Hsmall p m0 c Hn0). }
    pose proof (backup_sdirect Vb Vk B0 HwfB0 w1 p _ HI1 Hun1 Hb1 Hanc1) as Hdir1.
    pose proof (untracked_backup_none Vb Vk B0 w1 p HI1 Hun1 Hne) as Hnone1.
    destruct (copy_file_spec backup base Vk Vb tnk tnb acck accb rhk rhb whk whb nohid hid nohid anc Lk Lb
                w1 p fi sf p m c (inv_quiet _ _ _ _ HI1) (inv_wf_k _ _ _ _ HI1) (inv_wf_b _ _ _ _ HI1)
                Hdir1 (proj1 Him) Hu Hg (or_introl Hnone1) Hrh Hb1 Hsm (not_nohid _))
      as (w2 & m' & Hrun2 & (Hsr2 & Hwf2 & Heqv2) & Hk2 & Hmeta & Hmt).
    pose proof Hsr2 as (HVb2 & Hi2 & Hc2 & Hf2).
    assert (Hun2 : w_infos w2 !! p = None) by (rewrite Hi2; exact Hun1).
    set (w3 := with_infos w2 (<[p := Some fi]> (w_infos w2))).
    assert (HVb3 : Vb w3 = Vb w1).
    { unfold w3. rewrite (law_infos_indep _ _ _ _ _ _ _ _ _ Lb). exact HVb2. }
    assert (HVk3 : Vk w3 = Vk w2) by (unfold w3; apply (law_infos_indep _ _ _ _ _ _ _ _ _ Lk)).
    assert (Hi3 : w_infos w3 = <[p := Some fi]> (w_infos w1)) by (unfold w3; simpl; rewrite Hi2; reflexivity).
    assert (HI3 : inv w3).
    { apply (Inv_track Vb Vk B0 w1 w3 p (Some fi) HI1 Hun1 Hi3 HVb3).
      - simpl. exact Hc2.
      - simpl. exact Hf2.
      - rewrite HVk3. exact Hwf2.
      - rewrite HVk3. exact Heqv2.
      - rewrite HVb1. exact Hnlp.
      - exists (File m c). split; [exact Hb1 | split; [exact Him | split; [exact Hanc1 | right]]].
        exists (File m' c). split; [rewrite HVk3; exact Hk2 |].
        simpl. split; [| reflexivity].
        eapply file_meta_eq; [exact Him | | exact Hmeta | exact Hmt].
        exact (swf_lookup_perm12 _ _ _ (inv_wf_b _ _ _ _ HI) Hb). }
    eapply safe_bind_ok; [exact Hrun1 | |].
    { apply safe_call; [apply (claw_open _ _ HCb) | exact (inv_quiet _ _ _ _ HI) | exact (Inv_rec w HI)]. }
    eapply safe_bind_ok; [exact (try_ok _ w1 w2 tt Hrun2) | |].
    { apply safe_try. eapply safe_mono;
        [| exact (copy_file_safe backup base Vk Vb tnk tnb acck accb rhk rhb whk whb nohid hid nohid anc Lk Lb HCk (Kfile c)
                    w1 p fi sf p m c (inv_quiet _ _ _ _ HI1) (inv_wf_k _ _ _ _ HI1) (inv_wf_b _ _ _ _ HI1)
                    Hdir1 (proj1 Him) Hu Hg (or_introl Hnone1) Hrh Hb1 Hsm (or_introl Hnone1)
                    (fun m1 c1 Hpre => or_intror (ex_intro _ m1 (ex_intro _ c1 (conj eq_refl Hpre))))
                    (not_nohid _))].
      intros wq (Hsr & Heqv & HK).
      apply (rec_mid w1 wq p n0 HI1 Hun1 Hne (proj1 Hsr) Heqv Hn0).
      destruct HK as [HN | (m1 & c1 & HS & Hpre)]; [left; exact HN | right].
      exists (File m1 c1). split; [exact HS |].
      destruct n0 as [m0 | m0 c0 | m0 t0]; simpl in He0; try contradiction.
      destruct He0 as [_ <-]. exact Hpre. }
    cbv beta iota.
    eapply safe_bind_ok; [exact (set_info_new p (Some fi) w2 Hun2) | apply silent_safe; apply silent_set_info_if_new |].
    apply safe_bind_silent; [| intros x; apply silent_ret].
    apply safe_try. apply safe_call; [apply atomic_hclose | exact (inv_quiet _ _ _ _ HI3) | exact (Inv_rec w3 HI3)].
  Qed.

  (** ** ... a symlink *)
  Lemma tb_link_safe (w : world) (p : str) (fi : finfo) (m : meta) (t : str) :
    inv w -> snolinkpar (Vb w) p -> w_infos w !! p = None ->
    Vb w !! p = Some (Link m t) -> info_matches fi (Link m t) ->
    Forall (tracked w) (ancestors p) ->
    safe recov (tb_link base backup p fi) w.
  Proof.
    intros HI Hnlp Hun Hb Him Hanc. unfold tb_link.
    assert (Hne : p <> s_root) by (apply (not_root_of w p _ HI Hb); discriminate).
    destruct (info_matches_nonneg fi _ Him) as [Hu Hg].
    destruct (untracked_orig w p _ HI Hun Hb) as (n0 & Hn0 & He0).
    destruct n0 as [m0 | m0 c0 | m0 t0]; simpl in He0; try contradiction.
    destruct He0 as [Hm0 <-].
    destruct (Hlinks p m0 t Hn0) as (_ & Htnk & Htne & _ & Hacc & Hperm0).
    pose proof (backup_sdirect Vb Vk B0 HwfB0 w p _ HI Hun Hb Hanc) as Hdir.
    pose proof (untracked_backup_none Vb Vk B0 w p HI Hun Hne) as Hnone.
    destruct (copy_symlink_spec backup base Vk Vb tnk tnb acck accb rhk rhb whk whb nohid hid nohid anc Lk Lb
                w p fi m t (inv_quiet _ _ _ _ HI) (inv_wf_k _ _ _ _ HI) (inv_wf_b _ _ _ _ HI) Hnlp Hb
                Hdir Hnone (proj1 Him) Hu Hg Htne Hacc (not_nohid _))
      as (w2 & m' & Hrun2 & _).
    eapply safe_bind_ok; [exact (try_ok _ w w2 tt Hrun2) | |].
    { apply safe_try. eapply safe_mono;
        [| exact (copy_symlink_safe backup base Vk Vb tnk tnb acck accb rhk rhb whk whb nohid hid nohid anc Lk Lb HCk HCb (Klink (tnk t))
                    w p fi m t (inv_quiet _ _ _ _ HI) (inv_wf_k _ _ _ _ HI) (inv_wf_b _ _ _ _ HI) Hnlp Hb
                    Hdir Hnone (proj1 Him) Htne Hacc (or_introl eq_refl)
                    (fun m1 => or_intror (ex_intro _ m1 eq_refl)) (not_nohid _))].
      intros wq (Hsr & Heqv & HK).
      apply (rec_mid w wq p (Link m0 t) HI Hun Hne (proj1 Hsr) Heqv Hn0).
      destruct HK as [HN | (m1 & HS)]; [left; exact HN | right].
      rewrite Htnk in HS. exists (Link m1 t). split; [exact HS | reflexivity]. }
    apply silent_safe. apply silent_set_info_if_new.
  Qed.

  (** ** at every instant of [try_backup] *)
  Lemma try_backup_safe (w : world) (p : str) :
    inv w -> snolinkpar (Vb w) p -> safe recov (try_backup base backup p) w.
  Proof.
    intros HI Hnlp. pose proof Hnlp as [[Hc Habs] Hf].
    pose proof (inv_quiet _ _ _ _ HI) as Hq.
    assert (Hreq : safe recov (backup_required base p) w).
    { apply backup_required_safe; [exact Hq | exact (Inv_rec w HI)]. }
    apply (safe_ext _ _ _ w (try_backup_eq base backup p)).
    destruct (w_infos w !! p) as [info|] eqn:Hi.
    { (* already tracked: only the directories *)
      eapply safe_bind_ok; [exact (backup_required_seen base w p info Hi) | exact Hreq |]. cbn [fst snd].
      apply safe_bind_silent; [| intros x; unfold tb_tail; cbn [negb]; apply silent_ret].
      apply (dirs_phase_safe w p (tb_dirpath p info) HI Hnlp).
      unfold tb_dirpath. destruct info as [fi|]; [| right; reflexivity].
      destruct (is_dir_info fi) eqn:Ed; [left | right; reflexivity].
      split; [reflexivity |]. intros n Hn. rewrite (inv_kind _ _ _ _ HI p fi n Hi Hn).
      unfold is_dir_info in Ed. destruct (fi_kind fi); [reflexivity | discriminate Ed | discriminate Ed]. }
    destruct (Vb w !! p) as [n|] eqn:Hb.
    2:{ (* did not exist *)
      destruct (backup_required_none base backup Vb Vk tnb tnk accb acck rhb rhk whb whk hid anc B0 HLb HLk
                  w p HI Hnlp Hi Hb) as (w1 & Hrun1 & HI1 & Hext1 & Htr1).
      pose proof Hext1 as (HVb1 & _ & _).
      assert (Hnlp1 : snolinkpar (Vb w1) p) by (rewrite HVb1; exact Hnlp).
      eapply safe_bind_ok; [exact Hrun1 | exact Hreq |]. cbn [fst snd].
      apply safe_bind_silent; [| intros x; unfold tb_tail; cbn [negb]; apply silent_ret].
      exact (dirs_phase_safe w1 p (tb_dirpath p None) HI1 Hnlp1 (or_intror eq_refl)). }
    (* exists and is not yet tracked *)
    destruct (backup_required_some base Vb Vk tnb accb rhb whb hid anc B0 HLb w p n HI Hnlp Hi Hb)
      as (fi & w1 & Hrun1 & Hsa1 & Him).
    pose proof (Inv_transfer Vb Vk B0 w w1 HI Hsa1) as HI1.
    pose proof Hsa1 as (HVb1 & HVk1 & Hi1 & Hc1 & Hf1).
    assert (Hnlp1 : snolinkpar (Vb w1) p) by (rewrite HVb1; exact Hnlp).
    assert (Hun1 : w_infos w1 !! p = None) by (rewrite Hi1; exact Hi).
    assert (Hb1 : Vb w1 !! p = Some n) by (rewrite HVb1; exact Hb).
    assert (Hcase : (tb_dirpath p (Some fi) = p /\ (forall n', Vb w1 !! p = Some n' -> node_kind n' = KDir)) \/
                    tb_dirpath p (Some fi) = dir p).
    { unfold tb_dirpath. destruct (is_dir_info fi) eqn:Ed; [left | right; reflexivity].
      split; [reflexivity |]. intros n' Hn'. rewrite Hb1 in Hn'. injection Hn' as <-.
      rewrite <- (proj1 Him). unfold is_dir_info in Ed.
      destruct (fi_kind fi); [reflexivity | discriminate Ed | discriminate Ed]. }
    destruct (dirs_phase base backup Vb Vk tnb tnk accb acck rhb rhk whb whk hid anc B0 HLb HLk HwfB0
                w1 p (tb_dirpath p (Some fi)) HI1 Hnlp1 Hcase)
      as (r & w2 & Hrun2 & Hnh & HI2 & Hext2 & Htr2 & Hkeep & Hok).
    eapply safe_bind_ok; [exact Hrun1 | exact Hreq |]. cbn [fst snd].
    eapply safe_bind_run; [exact Hrun2 | exact (dirs_phase_safe w1 p _ HI1 Hnlp1 Hcase) |].
    intros [] ->.
    destruct (Htr2 eq_refl) as [Hanc2 Hself2].
    pose proof Hext2 as (HVb2 & _ & _).
    assert (Hne : node_kind n <> KDir -> p <> s_root).
    { intros Hk. exact (not_root_of w p n HI Hb Hk). }
    assert (Hdp : node_kind n <> KDir -> tb_dirpath p (Some fi) <> p).
    { intros Hk. unfold tb_dirpath, is_dir_info. rewrite (proj1 Him).
      destruct (node_kind n) eqn:Ek; [contradiction Hk; reflexivity | |]; intros E;
        pose proof (dir_in_ancestors p (conj Hc Habs) (Hne Hk)) as Hin; rewrite E in Hin;
        exact (ancestors_not_self p Hc Hin). }
    unfold tb_tail. cbn [negb].
    destruct n as [m | m c | m t].
    - assert (Hk : fi_kind fi = KDir) by exact (proj1 Him). rewrite Hk. apply safe_ret.
    - assert (Hk : fi_kind fi = KFile) by exact (proj1 Him). rewrite Hk.
      apply (tb_file_safe w2 p fi m c HI2).
      + rewrite HVb2. exact Hnlp1.
      + apply (Hkeep (Hdp ltac:(discriminate)) Hun1).
      + rewrite HVb2. exact Hb1.
      + exact Him.
      + exact Hanc2.
    - assert (Hk : fi_kind fi = KLink) by exact (proj1 Him). rewrite Hk.
      apply (tb_link_safe w2 p fi m t HI2).
      + rewrite HVb2. exact Hnlp1.
      + apply (Hkeep (Hdp ltac:(discriminate)) Hun1).
      + rewrite HVb2. exact Hb1.
      + exact Him.
      + exact Hanc2.
  Qed.
End TrySafe.

(* ------------------------------------------------------------------ *)
(** * Writing through a handle, then closing it *)

Lemma write_close_safe (I : world -> Prop) (h : fhandle) (d : list N) (w : world) :
  quiet w -> I w -> (d <> [] -> forall r1 w1, hwrite h d w = (r1, w1) -> I w1) ->
  safe I (write_close h d) w.
Proof.
  intros Hq HI HI1. unfold write_close.
  assert (Htail : forall (r : res fhandle) w1, quiet w1 -> I w1 ->
            safe I (c <- try_ (hclose h) ;;
                    match r, c with
                    | Err e, _ => fail e
                    | Ok _, Err e => fail e
                    | Ok _, Ok _ => ret tt
                    end) w1).
  { intros r w1 Hq1 HIw1. apply safe_bind_silent.
    - apply safe_try. apply safe_call; [apply atomic_hclose | exact Hq1 | exact HIw1].
    - intros [u | e]; destruct r; try apply silent_ret; apply silent_fail. }
  destruct d as [|x d'].
  - eapply safe_bind_ok; [reflexivity | apply safe_try; apply safe_ret | apply Htail; assumption].
  - apply safe_bind; [apply safe_try; apply safe_call; [apply atomic_hwrite | exact Hq | exact HI] |].
    intros a w1 Hrun. cbv beta. unfold try_ in Hrun.
    pose proof (HI1 ltac:(discriminate)) as HI2. clear HI1.
    destruct (hwrite h (x :: d') w) as [[h' | e |] w1'] eqn:Hw; try discriminate Hrun;
      injection Hrun as <- <-.
    + apply (Htail (Ok h') w1');
        [exact (atomic_quiet _ _ _ _ (atomic_hwrite h (x :: d')) Hq Hw) | exact (HI2 _ _ eq_refl)].
    + apply (Htail (Err e) w1');
        [exact (atomic_quiet _ _ _ _ (atomic_hwrite h (x :: d')) Hq Hw) | exact (HI2 _ _ eq_refl)].
Qed.

(** the world between the write and the close *)
Lemma write_close_mid (h : fhandle) (d : list N) (w w4 : world) (r : mres unit)
      (r1 : mres fhandle) (w1 : world) :
  d <> [] -> write_close h d w = (r, w4) -> r <> MHalt -> hwrite h d w = (r1, w1) ->
  exists rc, hclose h w1 = (rc, w4).
Proof.
  intros Hd Hrun Hnh Hw. unfold write_close, bind, try_ in Hrun.
  destruct d as [|x d']; [contradiction Hd; reflexivity |]. rewrite Hw in Hrun.
  destruct r1 as [h' | e |]; cbv beta iota in Hrun;
    [ | | injection Hrun as Hr _; contradiction Hnh; symmetry; exact Hr];
    (destruct (hclose h w1) as [[u | e2 |] w5] eqn:Hc; cbv beta iota in Hrun;
     unfold ret, fail in Hrun; injection Hrun as Hr Hw4; subst;
     [eexists; reflexivity | eexists; reflexivity | contradiction Hnh; reflexivity]).
Qed.

(** the worlds inside [read_dir_names] *)
Lemma read_dir_names_mid (b : fsapi) (p : str) (w w' wa : world) (r : mres (list str)) (h : fhandle) :
  read_dir_names b p w = (r, w') -> r <> MHalt -> a_open b p w = (MOk h, wa) ->
  exists rb wb rc, hreaddirnames h wa = (rb, wb) /\ hclose h wb = (rc, w').
Proof.
  intros Hrun Hnh Ha. unfold read_dir_names, bind, try_ in Hrun. rewrite Ha in Hrun.
  destruct (hreaddirnames h wa) as [rb wb] eqn:Hb.
  destruct rb as [names | e |]; cbv beta iota in Hrun;
    [ | | injection Hrun as Hr _; contradiction Hnh; symmetry; exact Hr];
    (destruct (hclose h wb) as [[u | e2 |] wc] eqn:Hc; cbv beta iota in Hrun;
     unfold ret, fail in Hrun; injection Hrun as Hr Hw4; subst;
     [eexists _, _, _; split; [reflexivity | exact Hc] | eexists _, _, _; split; [reflexivity | exact Hc]
     | contradiction Hnh; reflexivity]).
Qed.

(* ------------------------------------------------------------------ *)
(** * The covered operations *)

Section OpsSafe.
  Variables base backup : fsapi.
  Variables Vb Vk : world -> store.
  Variables tnb tnk : str -> str.
  Variables accb acck : str -> str -> Prop.
  Variables rhb rhk whb whk : fhandle -> str -> nat -> Prop.
  Variables hid anc : str -> Prop.
  Variable B0 : store.

  Hypothesis HLb : base_laws base Vb Vk tnb accb rhb whb hid anc.
  Hypothesis HLb2 : base_laws2 base Vb Vk tnb accb rhb whb.
  Hypothesis HLk : backup_laws backup Vb Vk tnk acck rhk whk.
  Hypothesis HCb : api_crash_laws base Vb.
  Hypothesis HCk : api_crash_laws backup Vk.
  Hypothesis Hlinks : links_ok tnb tnk accb acck B0.
  Hypothesis Hsmall : all_small B0.
  Hypothesis HwfB0 : swf B0.

  Let Lb : api_laws base Vb Vk tnb accb rhb whb hid anc := HLb.
  Let Lb2 : api_laws2 base Vb Vk tnb accb rhb whb := HLb2.
  Let Lk : api_laws backup Vk Vb tnk acck rhk whk nohid nohid := HLk.

  Local Notation recov := (recoverable Vb Vk B0).
  Local Notation inv := (Inv Vb Vk B0).
  Local Notation tb_spec :=
    (try_backup_specS base backup Vb Vk tnb tnk accb acck rhb rhk whb whk hid anc B0 HLb HLk Hlinks Hsmall HwfB0).
  Local Notation tb_safe :=
    (try_backup_safe base backup Vb Vk tnb tnk accb acck rhb rhk whb whk hid anc B0 HLb HLk HCb HCk Hlinks Hsmall HwfB0).
  Local Notation rp_spec := (real_path_resolved_spec base Vb Vk tnb accb rhb whb hid anc Lb).
  Local Notation rp_safe := (real_path_safe base Vb Vk tnb accb rhb whb hid anc Lb HCb).
  Local Notation Irec := (Inv_rec Vb Vk B0).
  Local Notation iq := (inv_quiet Vb Vk B0).
  Local Notation iwb := (inv_wf_b Vb Vk B0).

  (** [recoverable] looks at the two views only *)
  Lemma recov_views (w1 w2 : world) : Vb w2 = Vb w1 -> Vk w2 = Vk w1 -> recov w1 -> recov w2.
  Proof. intros H1 H2 H. unfold recoverable in *. rewrite H1, H2. exact H. Qed.

  Lemma fr_rec (w w' : world) (l : list str) :
    inv w -> fr Vb Vk w w' l -> Forall (tracked w) l -> recov w'.
  Proof. intros HI ((HVk & _) & _ & Heqv) Htl. exact (rec_frame Vb Vk B0 w w' l HI HVk Heqv Htl). Qed.

  Lemma real_path_rec_safe (w : world) (n : str) :
    inv w -> snolinkpar (Vb w) n -> safe recov (real_path base n) w.
  Proof.
    intros HI Hnlp. eapply safe_mono; [| exact (rp_safe w n (iq w HI) (iwb w HI) Hnlp)].
    intros x Hx. exact (rd_rec Vb Vk B0 w x HI Hx).
  Qed.

  (** ** resolve, back up, one call on the base *)
  Lemma guarded_safe {A} (call : str -> M A) (w : world) (n : str) :
    inv w -> snolinkpar (Vb w) n -> atomic (call n) -> safe recov (guarded base backup n call) w.
  Proof.
    intros HI Hnlp Hat. unfold guarded.
    destruct (rp_spec w n (iq w HI) (iwb w HI) Hnlp) as (w1 & Hrun1 & HVb1 & Hsr1).
    pose proof (same_all_base Vb Vk w w1 HVb1 Hsr1) as Hsa1.
    pose proof (Inv_transfer Vb Vk B0 w w1 HI Hsa1) as HI1.
    assert (Hnlp1 : snolinkpar (Vb w1) n) by (rewrite HVb1; exact Hnlp).
    destruct (tb_spec w1 n HI1 Hnlp1) as (r2 & w2 & Hrun2 & Hnh2 & HI2 & _).
    eapply safe_bind_ok; [exact Hrun1 | exact (real_path_rec_safe w n HI Hnlp) |].
    eapply safe_bind_run; [exact Hrun2 | exact (tb_safe w1 n HI1 Hnlp1) |].
    intros [] ->. apply safe_call; [exact Hat | exact (iq w2 HI2) | exact (Irec w2 HI2)].
  Qed.

  Lemma unit_op_safe (call : str -> M unit) (w : world) (n : str) :
    inv w -> snolinkpar (Vb w) n -> atomic (call n) ->
    safe recov (guarded base backup n call ;;; ret ObUnit) w.
  Proof.
    intros HI Hnlp Hat. apply safe_bind_silent; [apply guarded_safe; assumption |].
    intros x. apply silent_ret.
  Qed.

  (** ** Create, OpenFile with a writing flag: the handle is written and closed *)
  Lemma handle_op_safe (call : str -> M fhandle) (w : world) (n : str) (d : list N) :
    inv w -> snolinkpar (Vb w) n -> snotlink (Vb w) n ->
    (forall w2, quiet w2 -> swf (Vb w2) -> Vb w2 = Vb w -> framed Vb Vk (call n) w2 [n]) ->
    (forall w2 r w', call n w2 = (r, w') ->
       (exists fl perm, a_openfile base n fl perm w2 = (r, w')) \/ a_create base n w2 = (r, w')) ->
    atomic (call n) ->
    safe recov (h <- guarded base backup n call ;; write_close h d ;;; ret ObUnit) w.
  Proof.
    intros HI Hnlp Hnl Hframe Hwhich Hat. pose proof Hnlp as [[Hc _] _].
    destruct (guarded_spec base backup Vb Vk tnb tnk accb acck rhb rhk whb whk hid anc B0 HLb HLk Hlinks Hsmall HwfB0
                call w n [n] HI Hnlp (incl_self_cands n Hc) Hframe)
      as (r & w' & w2 & Hrun & Hnh & HI2 & Hext & Hi & _ & Hcase).
    eapply safe_bind_run; [exact Hrun | apply guarded_safe; assumption |].
    intros h ->. destruct Hcase as [[[e He] _] | (Htl & Hcall & Hfr)]; [discriminate He |].
    pose proof Hext as (HVb2 & _ & _).
    assert (Hnlp2 : snolinkpar (Vb w2) n) by (rewrite HVb2; exact Hnlp).
    assert (Hnl2 : snotlink (Vb w2) n) by (rewrite HVb2; exact Hnl).
    pose proof Hfr as (_ & Hwf' & _).
    pose proof (fr_quiet Vb Vk w2 w' [n] (iq w2 HI2) Hfr) as Hq'.
    destruct (framed_fr Vb Vk _ _ _
                (law_user_handle _ _ _ _ _ _ _ _ _ Lb w2 n (MOk h) w' (iq w2 HI2) (iwb w2 HI2)
                   Hnlp2 Hnl2 (Hwhich w2 (MOk h) w' Hcall) h d eq_refl Hq' Hwf'))
      as (r4 & w4 & Hrun4 & Hnh4 & Hfr4).
    apply safe_bind_silent; [| intros x; apply silent_ret].
    apply write_close_safe; [exact Hq' | exact (fr_rec w2 w' [n] HI2 Hfr Htl) |].
    intros Hd r1 w1 Hw.
    destruct (write_close_mid h d w' w4 r4 r1 w1 Hd Hrun4 Hnh4 Hw) as [rc Hcl].
    pose proof (claw_hclose _ _ HCb h w1 rc w4 Hcl) as HVb4.
    pose proof (claw_hclose _ _ HCk h w1 rc w4 Hcl) as HVk4.
    apply (recov_views w4 w1); [symmetry; exact HVb4 | symmetry; exact HVk4 |].
    exact (fr_rec w2 w4 [n] HI2 (fr_trans Vb Vk w2 w' w4 [n] Hfr Hfr4) Htl).
  Qed.

  (** ** operations forwarded to the base without backup *)
  Lemma ro_call_safe {A B} (m : M A) (f : A -> B) (w : world) :
    inv w -> atomic m -> safe recov (x <- m ;; ret (f x)) w.
  Proof.
    intros HI Hat. apply safe_bind_silent; [| intros x; apply silent_ret].
    apply safe_call; [exact Hat | exact (iq w HI) | exact (Irec w HI)].
  Qed.

  Lemma ro_open_write_safe (w : world) (n : str) (d : list N) :
    inv w -> snolinkpar (Vb w) n ->
    safe recov (h <- a_openfile base n 0 0 ;; write_close h d ;;; ret ObUnit) w.
  Proof.
    intros HI Hnlp. pose proof (iq w HI) as Hq. pose proof (iwb w HI) as Hwf.
    destruct (framed_fr Vb Vk _ w [] (law2_open_ro _ _ _ _ _ _ _ Lb2 w n Hq Hwf Hnlp))
      as (r1 & w1 & Hrun1 & Hnh1 & Hfr1).
    eapply safe_bind_run; [exact Hrun1 | |].
    { apply safe_call; [apply (claw_openfile _ _ HCb) | exact Hq | exact (Irec w HI)]. }
    intros h ->.
    pose proof (fr_quiet Vb Vk w w1 [] Hq Hfr1) as Hq1. pose proof Hfr1 as (_ & Hwf1 & _).
    destruct (law2_ro_handle _ _ _ _ _ _ _ Lb2 w n h w1 Hq Hwf Hnlp Hrun1 w1 Hq1 Hwf1) as (_ & _ & _ & Hwr).
    destruct (framed_fr Vb Vk _ w1 [] (Hwr d)) as (r2 & w2 & Hrun2 & Hnh2 & Hfr2).
    apply safe_bind_silent; [| intros x; apply silent_ret].
    apply write_close_safe; [exact Hq1 | exact (fr_rec w w1 [] HI Hfr1 (Forall_nil _)) |].
    intros Hd r3 w3 Hw.
    destruct (write_close_mid h d w1 w2 r2 r3 w3 Hd Hrun2 Hnh2 Hw) as [rc Hcl].
    pose proof (claw_hclose _ _ HCb h w3 rc w2 Hcl) as HVb4.
    pose proof (claw_hclose _ _ HCk h w3 rc w2 Hcl) as HVk4.
    apply (recov_views w2 w3); [symmetry; exact HVb4 | symmetry; exact HVk4 |].
    exact (fr_rec w w2 [] HI (fr_trans Vb Vk w w1 w2 [] Hfr1 Hfr2) (Forall_nil _)).
  Qed.

  Lemma ro_handle_op_safe {A} (use : fhandle -> M A) (f : A -> obs) (w : world) (n : str) :
    inv w -> snolinkpar (Vb w) n ->
    (forall h w1, a_openfile base n 0 0 w = (MOk h, w1) ->
       forall w2, quiet w2 -> swf (Vb w2) -> framed Vb Vk (use h) w2 []) ->
    (forall h w2, quiet w2 -> recov w2 -> safe recov (use h) w2) ->
    safe recov (h <- a_openfile base n 0 0 ;;
                r <- try_ (use h) ;; _ <- try_ (hclose h) ;; x <- lift_res r ;; ret (f x)) w.
  Proof.
    intros HI Hnlp Huse Hsafe. pose proof (iq w HI) as Hq. pose proof (iwb w HI) as Hwf.
    destruct (framed_fr Vb Vk _ w [] (law2_open_ro _ _ _ _ _ _ _ Lb2 w n Hq Hwf Hnlp))
      as (r1 & w1 & Hrun1 & Hnh1 & Hfr1).
    eapply safe_bind_run; [exact Hrun1 | |].
    { apply safe_call; [apply (claw_openfile _ _ HCb) | exact Hq | exact (Irec w HI)]. }
    intros h ->.
    pose proof (fr_quiet Vb Vk w w1 [] Hq Hfr1) as Hq1. pose proof Hfr1 as (_ & Hwf1 & _).
    destruct (try_framed Vb Vk _ w1 [] (Huse h w1 Hrun1 w1 Hq1 Hwf1)) as (x2 & w2 & Hrun2 & Hfr2).
    pose proof (fr_trans Vb Vk w w1 w2 [] Hfr1 Hfr2) as Hfr02.
    eapply safe_bind_ok; [exact Hrun2 | |].
    { apply safe_try. apply Hsafe; [exact Hq1 | exact (fr_rec w w1 [] HI Hfr1 (Forall_nil _))]. }
    apply safe_bind_silent.
    - apply safe_try. apply safe_call; [apply atomic_hclose | exact (fr_quiet Vb Vk w w2 [] Hq Hfr02) |].
      exact (fr_rec w w2 [] HI Hfr02 (Forall_nil _)).
    - intros x. apply silent_bind; [apply silent_lift_res | intros y; apply silent_ret].
  Qed.

  Lemma read_all_safe : forall (fuel : nat) (h : fhandle) (acc : list N) (w : world),
    quiet w -> recov w -> safe recov (read_all fuel h acc) w.
  Proof.
    induction fuel as [|fuel IH]; intros h acc w Hq Hr; [apply safe_fail |].
    cbn [read_all]. apply safe_bind; [apply safe_call; [apply atomic_hread | exact Hq | exact Hr] |].
    intros [o h'] w1 Hrun. cbn [fst snd]. destruct o as [ch|]; [| apply safe_ret].
    apply IH; [exact (atomic_quiet _ _ _ _ (atomic_hread h) Hq Hrun) |].
    apply (recov_views w w1);
      [exact (claw_hread _ _ HCb _ _ _ _ Hrun) | exact (claw_hread _ _ HCk _ _ _ _ Hrun) | exact Hr].
  Qed.

  (** ** Rename: both names are backed up, then one call *)
  Lemma rename_safe (w : world) (o n : str) :
    inv w -> snolinkpar (Vb w) o -> snolinkpar (Vb w) n -> safe recov (b_rename base backup o n) w.
  Proof.
    intros HI Hnlo Hnln. unfold b_rename.
    destruct (rp_spec w o (iq w HI) (iwb w HI) Hnlo) as (w1 & Hrun1 & HVb1 & Hsr1).
    pose proof (same_all_base Vb Vk w w1 HVb1 Hsr1) as Hsa1.
    pose proof (Inv_transfer Vb Vk B0 w w1 HI Hsa1) as HI1.
    assert (Hnln1 : snolinkpar (Vb w1) n) by (rewrite HVb1; exact Hnln).
    destruct (rp_spec w1 n (iq w1 HI1) (iwb w1 HI1) Hnln1) as (w2 & Hrun2 & HVb2 & Hsr2).
    pose proof (same_all_trans Vb Vk w w1 w2 Hsa1 (same_all_base Vb Vk w1 w2 HVb2 Hsr2)) as Hsa2.
    pose proof (Inv_transfer Vb Vk B0 w w2 HI Hsa2) as HI2.
    pose proof Hsa2 as (HVb02 & _).
    assert (Hnln2 : snolinkpar (Vb w2) n) by (rewrite HVb02; exact Hnln).
    destruct (tb_spec w2 n HI2 Hnln2) as (r3 & w3 & Hrun3 & Hnh3 & HI3 & Hext3 & _).
    eapply safe_bind_ok; [exact Hrun1 | exact (real_path_rec_safe w o HI Hnlo) |].
    eapply safe_bind_ok; [exact Hrun2 | exact (real_path_rec_safe w1 n HI1 Hnln1) |].
    eapply safe_bind_run; [exact Hrun3 | exact (tb_safe w2 n HI2 Hnln2) |].
    intros [] ->.
    pose proof Hext3 as (HVb3 & _ & _).
    assert (Hnlo3 : snolinkpar (Vb w3) o) by (rewrite HVb3, HVb02; exact Hnlo).
    destruct (tb_spec w3 o HI3 Hnlo3) as (r4 & w4 & Hrun4 & Hnh4 & HI4 & _).
    eapply safe_bind_run; [exact Hrun4 | exact (tb_safe w3 o HI3 Hnlo3) |].
    intros [] ->.
    apply safe_call; [apply (claw_rename _ _ HCb) | exact (iq w4 HI4) | exact (Irec w4 HI4)].
  Qed.

  (** ** RemoveAll *)
  Lemma remove_safe (w : world) (d : str) :
    inv w -> snolinkpar (Vb w) d -> safe recov (b_remove base backup d) w.
  Proof.
    intros HI Hnlp. exact (guarded_safe (a_remove base) w d HI Hnlp (claw_remove _ _ HCb d)).
  Qed.

  Lemma read_dir_names_safe (w : world) (p : str) (m : meta) :
    inv w -> snolinkpar (Vb w) p -> Vb w !! p = Some (Dir m) ->
    safe recov (read_dir_names base p) w.
  Proof.
    intros HI Hnlp Hm. pose proof (iq w HI) as Hq.
    destruct (law2_readdir _ _ _ _ _ _ _ Lb2 w p m Hq (iwb w HI) Hnlp Hm)
      as (r2 & w2 & Hrun2 & Hnh2 & HV2 & Hsr2 & _).
    unfold read_dir_names.
    apply safe_bind; [apply safe_call; [apply (claw_open _ _ HCb) | exact Hq | exact (Irec w HI)] |].
    intros h wa Ha.
    destruct (read_dir_names_mid base p w w2 wa r2 h Hrun2 Hnh2 Ha) as (rb & wb & rc & Hb & Hc).
    pose proof (atomic_quiet _ _ _ _ (claw_open _ _ HCb p) Hq Ha) as Hqa.
    pose proof (atomic_quiet _ _ _ _ (atomic_hreaddirnames h) Hqa Hb) as Hqb.
    pose proof (claw_hclose _ _ HCb _ _ _ _ Hc) as E1. pose proof (claw_hclose _ _ HCk _ _ _ _ Hc) as E2.
    pose proof (claw_hreaddirnames _ _ HCb _ _ _ _ Hb) as E3.
    pose proof (claw_hreaddirnames _ _ HCk _ _ _ _ Hb) as E4.
    pose proof (proj1 Hsr2) as E5.
    assert (Hrb : recov wb) by (apply (recov_views w wb); [congruence | congruence | exact (Irec w HI)]).
    assert (Hra : recov wa) by (apply (recov_views w wa); [congruence | congruence | exact (Irec w HI)]).
    apply safe_bind;
      [apply safe_try; apply safe_call; [apply atomic_hreaddirnames | exact Hqa | exact Hra] |].
    intros x wb' Hrunb.
    assert (Ewb : wb' = wb).
    { unfold try_ in Hrunb. rewrite Hb in Hrunb. destruct rb; inversion Hrunb; reflexivity. }
    subst wb'.
    apply safe_bind_silent.
    - apply safe_try. apply safe_call; [apply atomic_hclose | exact Hqb | exact Hrb].
    - intros y. destruct x; [apply silent_ret | apply silent_fail].
  Qed.

  Local Notation okd' := (okd Vb).
  Local Notation wspec :=
    (walk_spec base backup Vb Vk tnb tnk accb acck rhb rhk whb whk hid anc B0 HLb HLk Hlinks Hsmall HwfB0 HLb2).
  Local Notation rm_under :=
    (remove_under base backup Vb Vk tnb tnk accb acck rhb rhk whb whk hid anc B0 HLb HLk Hlinks Hsmall HwfB0).

  Lemma walk_safe (n : str) : n <> s_root ->
    forall (fuel : nat) (path : str) (info : finfo) (acc : list str) (w : world),
    inv w -> okd' n w path -> (is_dir_info info = true -> sdir (Vb w) path) ->
    Forall (okd' n w) acc ->
    safe recov (walk_fold fuel base path info (ra_fn base backup) acc) w.
  Proof.
    intros Hnr. induction fuel as [|fuel IH]; intros path info acc w HI Hpath Hdir Hacc;
      [apply safe_fail |].
    cbn [walk_fold]. destruct (is_dir_info info) eqn:Ed.
    2:{ apply safe_bind_silent; [| intros x; apply silent_ret].
        unfold ra_fn. rewrite Ed. apply safe_bind_silent; [| intros x; apply silent_ret].
        destruct Hpath as [Hnlp _]. exact (remove_safe w path HI Hnlp). }
    assert (Hfn : ra_fn base backup acc path info w = (MOk (acc ++ [path]), w)).
    { unfold ra_fn. rewrite Ed. reflexivity. }
    eapply safe_bind_ok; [exact Hfn | unfold ra_fn; rewrite Ed; apply safe_ret |].
    destruct (Hdir eq_refl) as [m Hm]. destruct Hpath as [Hnlp Hun].
    destruct (law2_readdir _ _ _ _ _ _ _ Lb2 w path m (iq w HI) (iwb w HI) Hnlp Hm)
      as (r2 & w2 & Hrun2 & Hnh2 & HV2 & Hsr2 & Hnames).
    pose proof (same_all_base Vb Vk w w2 HV2 Hsr2) as Hsa2.
    eapply safe_bind_run; [exact Hrun2 | exact (read_dir_names_safe w path m HI Hnlp Hm) |].
    intros names ->.
    pose proof (Inv_transfer Vb Vk B0 w w2 HI Hsa2) as HI2.
    assert (Hacc2 : Forall (okd' n w2) (acc ++ [path])).
    { apply (okd_shrinks Vb n w w2); [apply shrinks_eq; exact HV2 |].
      apply Forall_app. split; [exact Hacc |]. constructor; [split; assumption | constructor]. }
    assert (Hnm2 : Forall (okd' n w2) (map (join2 path) names)).
    { specialize (Hnames names eq_refl). apply List.Forall_forall. intros f Hf.
      apply in_map_iff in Hf. destruct Hf as (nm & <- & Hnm).
      rewrite List.Forall_forall in Hnames. destruct (Hnames nm Hnm) as [Hex Hpar].
      destruct (Vb w !! join2 path nm) as [nd|] eqn:Hb; [| contradiction Hex; reflexivity].
      pose proof (swf_lookup_snolinkpar _ _ _ (iwb w HI) Hb) as Hnlf.
      split; [rewrite HV2; exact Hnlf |].
      exact (under_child n path _ (proj1 (proj1 Hnlf)) Hun Hpar). }
    clear Hrun2 Hnames Hnh2.
    revert Hnm2 Hacc2 HI2. generalize (acc ++ [path]) as acc0. generalize w2 as w0.
    induction names as [|nm rest IHl]; intros w0 acc0 Hl0 Hacc0 HI0; [apply safe_ret |].
    cbn [mfold]. cbn [map] in Hl0.
    pose proof (List.Forall_inv Hl0) as [Hnlf Hunf]. pose proof (List.Forall_inv_tail Hl0) as Hrest.
    pose proof (iq w0 HI0) as Hq0. pose proof (iwb w0 HI0) as Hwf0.
    assert (Hls : safe recov (a_lstat base (join2 path nm)) w0).
    { apply safe_call; [apply (claw_lstat _ _ HCb) | exact Hq0 | exact (Irec w0 HI0)]. }
    destruct (Vb w0 !! join2 path nm) as [nd|] eqn:Hb.
    2:{ destruct (law_lstat_none _ _ _ _ _ _ _ _ _ Lb w0 _ Hq0 Hwf0 Hnlf Hb) as (e & w1 & Hrun1 & _).
        assert (Hin : (fi <- a_lstat base (join2 path nm) ;;
                       walk_fold fuel base (join2 path nm) fi (ra_fn base backup) acc0) w0 = (MErr e, w1)).
        { rewrite (bind_err _ _ w0 w1 e Hrun1). reflexivity. }
        eapply safe_bind_run; [exact Hin | eapply safe_bind_err; [exact Hrun1 | exact Hls] |].
        intros a E. discriminate E. }
    destruct (law_lstat_some _ _ _ _ _ _ _ _ _ Lb w0 _ nd Hq0 Hwf0 Hnlf Hb)
      as (fi & (w1 & Hrun1 & HV1 & Hsr1) & Him & _).
    pose proof (same_all_base Vb Vk w0 w1 HV1 Hsr1) as Hsa1.
    pose proof (Inv_transfer Vb Vk B0 w0 w1 HI0 Hsa1) as HI1.
    assert (P1 : okd' n w1 (join2 path nm)) by (split; [rewrite HV1; exact Hnlf | exact Hunf]).
    assert (P2 : is_dir_info fi = true -> sdir (Vb w1) (join2 path nm)).
    { intros Edf. rewrite HV1. unfold is_dir_info in Edf. rewrite (proj1 Him) in Edf.
      destruct nd as [md | md cd | md td]; [exists md; exact Hb | discriminate Edf | discriminate Edf]. }
    assert (P3 : Forall (okd' n w1) acc0).
    { apply (okd_shrinks Vb n w0 w1); [apply shrinks_eq; exact HV1 | exact Hacc0]. }
    destruct (wspec n Hnr fuel (join2 path nm) fi acc0 w1 HI1 P1 P2 P3) as (r3 & w3 & Hrun3 & Hk3 & Hacc3).
    assert (Hk03 : kept Vb Vk B0 (below_chain n) w0 r3 w3).
    { eapply kept_trans; [| exact Hk3].
      apply (kept_same Vb Vk B0 _ w0 w1 (MOk tt)); [discriminate | exact HI0 | exact Hsa1]. }
    assert (Hin : (fi <- a_lstat base (join2 path nm) ;;
                   walk_fold fuel base (join2 path nm) fi (ra_fn base backup) acc0) w0 = (r3, w3)).
    { rewrite (bind_ok _ _ w0 w1 fi Hrun1). exact Hrun3. }
    eapply safe_bind_run; [exact Hin | |].
    { eapply safe_bind_ok; [exact Hrun1 | exact Hls | exact (IH (join2 path nm) fi acc0 w1 HI1 P1 P2 P3)]. }
    intros acc3 ->.
    pose proof Hk03 as (_ & HI3 & _ & Hsh03).
    exact (IHl w3 acc3 (okd_shrinks Vb n w0 w3 _ Hsh03 Hrest) (Hacc3 acc3 eq_refl) HI3).
  Qed.

  (** the collected directories, deepest first *)
  Lemma miter_remove_safe (n : str) : n <> s_root -> forall (l : list str) (w : world),
    inv w -> Forall (okd' n w) l -> safe recov (miter (b_remove base backup) l) w.
  Proof.
    intros Hnr. induction l as [|d rest IHl]; intros w HI Hl; [apply safe_ret |].
    cbn [miter].
    destruct (rm_under n w d Hnr HI (List.Forall_inv Hl)) as (r1 & w1 & Hrun1 & Hk1).
    eapply safe_bind_run; [exact Hrun1 | exact (remove_safe w d HI (proj1 (List.Forall_inv Hl))) |].
    intros [] ->. pose proof Hk1 as (_ & HI1 & _ & Hsh1).
    exact (IHl w1 HI1 (okd_shrinks Vb n w w1 rest Hsh1 (List.Forall_inv_tail Hl))).
  Qed.

  Lemma removeall_safe (w : world) (n : str) :
    inv w -> snolinkpar (Vb w) n -> n <> s_root -> safe recov (b_removeall base backup n) w.
  Proof.
    intros HI Hnlp Hnr. rewrite b_removeall_eq. pose proof Hnlp as [[Hc _] _].
    destruct (rp_spec w n (iq w HI) (iwb w HI) Hnlp) as (w1 & Hrun1 & HVb1 & Hsr1).
    pose proof (same_all_base Vb Vk w w1 HVb1 Hsr1) as Hsa1.
    pose proof (Inv_transfer Vb Vk B0 w w1 HI Hsa1) as HI1.
    assert (Hnlp1 : snolinkpar (Vb w1) n) by (rewrite HVb1; exact Hnlp).
    eapply safe_bind_ok; [exact Hrun1 | exact (real_path_rec_safe w n HI Hnlp) |].
    assert (Hls1 : safe recov (try_ (a_lstat base n)) w1).
    { apply safe_try. apply safe_call; [apply (claw_lstat _ _ HCb) | exact (iq w1 HI1) | exact (Irec w1 HI1)]. }
    destruct (Vb w !! n) as [nd|] eqn:Hb.
    2:{ assert (Hb1 : Vb w1 !! n = None) by (rewrite HVb1; exact Hb).
        destruct (law_lstat_none _ _ _ _ _ _ _ _ _ Lb w1 n (iq w1 HI1) (iwb w1 HI1) Hnlp1 Hb1)
          as (e & w2 & Hrun2 & Hnf & _).
        eapply safe_bind_ok; [exact (try_err _ w1 w2 e Hrun2) | exact Hls1 |]. cbv beta iota.
        unfold not_found in Hnf. rewrite Hnf. apply safe_ret. }
    assert (Hb1 : Vb w1 !! n = Some nd) by (rewrite HVb1; exact Hb).
    destruct (law_lstat_some _ _ _ _ _ _ _ _ _ Lb w1 n nd (iq w1 HI1) (iwb w1 HI1) Hnlp1 Hb1)
      as (fi & (w2 & Hrun2 & HV2 & Hsr2) & Him & _).
    pose proof (same_all_trans Vb Vk w w1 w2 Hsa1 (same_all_base Vb Vk w1 w2 HV2 Hsr2)) as Hsa2.
    pose proof (Inv_transfer Vb Vk B0 w w2 HI Hsa2) as HI2. pose proof Hsa2 as (HVb02 & _).
    eapply safe_bind_ok; [exact (try_ok _ w1 w2 fi Hrun2) | exact Hls1 |]. cbv beta iota.
    assert (Hnlp2 : snolinkpar (Vb w2) n) by (rewrite HVb02; exact Hnlp).
    destruct (is_dir_info fi) eqn:Ed; cbn [negb].
    2:{ exact (remove_safe w2 n HI2 Hnlp2). }
    assert (Hb2 : Vb w2 !! n = Some nd) by (rewrite HVb02; exact Hb).
    destruct (law_lstat_some _ _ _ _ _ _ _ _ _ Lb w2 n nd (iq w2 HI2) (iwb w2 HI2) Hnlp2 Hb2)
      as (fi' & (w3 & Hrun3 & HV3 & Hsr3) & Him' & _).
    pose proof (same_all_trans Vb Vk w w2 w3 Hsa2 (same_all_base Vb Vk w2 w3 HV3 Hsr3)) as Hsa3.
    pose proof (Inv_transfer Vb Vk B0 w w3 HI Hsa3) as HI3. pose proof Hsa3 as (HVb03 & _).
    assert (P1 : okd' n w3 n) by (split; [rewrite HVb03; exact Hnlp | left; reflexivity]).
    assert (P2 : is_dir_info fi' = true -> sdir (Vb w3) n).
    { intros Edf. rewrite HVb03. unfold is_dir_info in Edf. rewrite (proj1 Him') in Edf.
      destruct nd as [md | md cd | md td]; [exists md; exact Hb | discriminate Edf | discriminate Edf]. }
    destruct (wspec n Hnr tree_fuel n fi' [] w3 HI3 P1 P2 (Forall_nil _)) as (r4 & w4 & Hrun4 & Hk4 & Hacc4).
    assert (Hwalk : walk_m base n (ra_fn base backup) [] w2 = (r4, w4)).
    { unfold walk_m. rewrite (bind_ok _ _ w2 w3 fi' Hrun3). exact Hrun4. }
    eapply safe_bind_run; [exact Hwalk | |].
    { unfold walk_m. eapply safe_bind_ok; [exact Hrun3 | |].
      - apply safe_call; [apply (claw_lstat _ _ HCb) | exact (iq w2 HI2) | exact (Irec w2 HI2)].
      - exact (walk_safe n Hnr tree_fuel n fi' [] w3 HI3 P1 P2 (Forall_nil _)). }
    intros dirs ->.
    pose proof Hk4 as (_ & HI4 & _ & _).
    assert (Hsorted : Forall (okd' n w4) (sort_most dirs)).
    { specialize (Hacc4 dirs eq_refl). apply List.Forall_forall. intros d Hd.
      rewrite List.Forall_forall in Hacc4. apply Hacc4.
      unfold sort_most in Hd. exact (Permutation_in d (isort_perm most dirs) Hd). }
    exact (miter_remove_safe n Hnr (sort_most dirs) w4 HI4 Hsorted).
  Qed.

  (** ** at every instant of every covered operation *)
  Lemma step_safe (o : op) (w : world) :
    inv w -> covered Vb o w -> safe recov (step base backup o) w.
  Proof.
    intros HI (Hso & Hres & Hfol & Hren & Hrm).
    pose proof (iq w HI) as Hq. pose proof (iwb w HI) as Hwf.
    destruct Hso as [n d | n fl perm d | n perm | n perm | n | n | o n | t n | n m | n u g | n u g | n t
                     | n | n | n | n | n];
      cbn [op_names follows rename_source_leaf removeall_not_root] in *;
      pose proof (List.Forall_inv Hres) as Hn; unfold resolved in Hn; pose proof Hn as [[Hc _] _];
      cbn [step].
    - (* Create *)
      apply (handle_op_safe (a_create base) w n d HI Hn (List.Forall_inv (Hfol eq_refl))).
      + intros w2 Hq2 Hwf2 HVb2. apply (law_user_create _ _ _ _ _ _ _ _ _ Lb w2 n Hq2 Hwf2);
          rewrite HVb2; [exact Hn | exact (List.Forall_inv (Hfol eq_refl))].
      + intros w2 r w' Hcall. right. exact Hcall.
      + apply (claw_create _ _ HCb).
    - (* OpenFile, then write *)
      unfold b_openfile. destruct (N.eqb fl 0) eqn:Efl.
      + exact (ro_open_write_safe w n d HI Hn).
      + cbn [negb] in Hfol.
        apply (handle_op_safe (fun rn => a_openfile base rn fl perm) w n d HI Hn (List.Forall_inv (Hfol eq_refl))).
        * intros w2 Hq2 Hwf2 HVb2. apply (law_user_openfile _ _ _ _ _ _ _ _ _ Lb w2 n fl perm Hq2 Hwf2);
            rewrite HVb2; [exact Hn | exact (List.Forall_inv (Hfol eq_refl))].
        * intros w2 r w' Hcall. left. exists fl, perm. exact Hcall.
        * apply (claw_openfile _ _ HCb).
    - exact (unit_op_safe (fun rn => a_mkdir base rn perm) w n HI Hn (claw_mkdir _ _ HCb n perm)).
    - exact (unit_op_safe (fun rn => a_mkdirall base rn perm) w n HI Hn (claw_mkdirall _ _ HCb n perm)).
    - exact (unit_op_safe (fun rn => a_remove base rn) w n HI Hn (claw_remove _ _ HCb n)).
    - apply safe_bind_silent; [exact (removeall_safe w n HI Hn Hrm) | intros x; apply silent_ret].
    - pose proof (List.Forall_inv (List.Forall_inv_tail Hres)) as Hn2. unfold resolved in Hn2.
      apply safe_bind_silent; [exact (rename_safe w o n HI Hn Hn2) | intros x; apply silent_ret].
    - exact (unit_op_safe (fun rn => a_symlink base t rn) w n HI Hn (claw_symlink _ _ HCb t n)).
    - exact (unit_op_safe (fun rn => a_chmod base rn m) w n HI Hn (claw_chmod _ _ HCb n m)).
    - exact (unit_op_safe (fun rn => a_chown base rn u g) w n HI Hn (claw_chown _ _ HCb n u g)).
    - exact (unit_op_safe (fun rn => a_lchown base rn u g) w n HI Hn (claw_lchown _ _ HCb n u g)).
    - exact (unit_op_safe (fun rn => a_chtimes base rn (Preset t)) w n HI Hn (claw_chtimes _ _ HCb n (Preset t))).
    - exact (ro_call_safe (a_stat base n) ObInfo w HI (claw_stat _ _ HCb n)).
    - exact (ro_call_safe (a_lstat base n) ObInfo w HI (claw_lstat _ _ HCb n)).
    - exact (ro_call_safe (a_readlink base n) ObStr w HI (claw_readlink _ _ HCb n)).
    - (* Read *)
      change (b_open base backup n) with (a_openfile base n 0 0).
      apply (ro_handle_op_safe (fun h => read_all tree_fuel h []) ObData w n HI Hn).
      + intros h w1 Hopen w2 Hq2 Hwf2.
        destruct (law2_ro_handle _ _ _ _ _ _ _ Lb2 w n h w1 Hq Hwf Hn Hopen w2 Hq2 Hwf2) as (Hrd & _).
        exact (Hrd []).
      + intros h w2 Hq2 Hr2. exact (read_all_safe tree_fuel h [] w2 Hq2 Hr2).
    - (* Readdir *)
      change (b_open base backup n) with (a_openfile base n 0 0).
      apply (ro_handle_op_safe hreaddirnames (fun l => ObNames (sort_strings l)) w n HI Hn).
      + intros h w1 Hopen w2 Hq2 Hwf2.
        destruct (law2_ro_handle _ _ _ _ _ _ _ Lb2 w n h w1 Hq Hwf Hn Hopen w2 Hq2 Hwf2) as (_ & Hls & _).
        exact Hls.
      + intros h w2 Hq2 Hr2. apply safe_call; [apply atomic_hreaddirnames | exact Hq2 | exact Hr2].
  Qed.
End OpsSafe.

(* ------------------------------------------------------------------ *)
(** * The theorems, as stated in Spec/Always.v *)

Lemma recoverable_set_crash (base backup : fsapi) (Vb Vk : world -> store) (B0 : store) :
  api_crash_laws base Vb -> api_crash_laws backup Vk ->
  forall w c, recoverable Vb Vk B0 (set_crash w c) <-> recoverable Vb Vk B0 w.
Proof.
  intros HCb HCk w c. unfold recoverable.
  rewrite (claw_view _ _ HCb w c), (claw_view _ _ HCk w c). reflexivity.
Qed.

Theorem try_backup_always :
  forall base backup Vb Vk tnb tnk accb acck rhb rhk whb whk hid anc B0,
  try_backup_always_stmt base backup Vb Vk tnb tnk accb acck rhb rhk whb whk hid anc B0.
Proof.
  intros base backup Vb Vk tnb tnk accb acck rhb rhk whb whk hid anc B0.
  unfold try_backup_always_stmt. cbv zeta. intros HLb HLk HCb HCk Hlinks Hsmall HwfB0 w p HI Hnlp.
  apply (safe_always (recoverable Vb Vk B0) (recoverable Vb Vk B0) _ w
           (try_backup_safe base backup Vb Vk tnb tnk accb acck rhb rhk whb whk hid anc B0
              HLb HLk HCb HCk Hlinks Hsmall HwfB0 w p HI Hnlp)).
  - intros w1 E.
    destruct (try_backup_specS base backup Vb Vk tnb tnk accb acck rhb rhk whb whk hid anc B0
                HLb HLk Hlinks Hsmall HwfB0 w p HI Hnlp) as (r & w' & Hrun & Hnh & _).
    rewrite Hrun in E. injection E as Er _. exact (Hnh Er).
  - intros x Hx. exact (proj1 (recoverable_set_crash base backup Vb Vk B0 HCb HCk x None) Hx).
Qed.

Theorem step_always :
  forall base backup Vb Vk tnb tnk accb acck rhb rhk whb whk hid anc B0,
  step_always_stmt base backup Vb Vk tnb tnk accb acck rhb rhk whb whk hid anc B0.
Proof.
  intros base backup Vb Vk tnb tnk accb acck rhb rhk whb whk hid anc B0.
  unfold step_always_stmt. cbv zeta. intros HLb HLb2 HLk HCb HCk Hlinks Hsmall HwfB0 o w HI Hcov.
  apply (safe_always (recoverable Vb Vk B0) (recoverable Vb Vk B0) _ w
           (step_safe base backup Vb Vk tnb tnk accb acck rhb rhk whb whk hid anc B0
              HLb HLb2 HLk HCb HCk Hlinks Hsmall HwfB0 o w HI Hcov)).
  - intros w1 E.
    destruct (step_spec base backup Vb Vk tnb tnk accb acck rhb rhk whb whk hid anc B0
                HLb HLb2 HLk Hlinks Hsmall HwfB0 o w HI Hcov) as (r & w' & Hrun & Hnh & _).
    rewrite Hrun in E. injection E as Er _. exact (Hnh Er).
  - intros x Hx. exact (proj1 (recoverable_set_crash base backup Vb Vk B0 HCb HCk x None) Hx).
Qed.

(** along a history: wherever the run with a crash point stops *)
Lemma good_run_always :
  forall base backup Vb Vk tnb tnk accb acck rhb rhk whb whk hid anc B0,
  base_laws base Vb Vk tnb accb rhb whb hid anc -> base_laws2 base Vb Vk tnb accb rhb whb ->
  backup_laws backup Vb Vk tnk acck rhk whk ->
  api_crash_laws base Vb -> api_crash_laws backup Vk ->
  links_ok tnb tnk accb acck B0 -> all_small B0 -> swf B0 ->
  forall w ops w', good_run base backup Vb w ops w' -> Inv Vb Vk B0 w ->
  forall k outs wh, run_ops base backup ops (set_crash w (Some k)) = (outs, wh) ->
  recoverable Vb Vk B0 wh /\
  (~ In MHalt outs -> wh = set_crash w' (Some k)).
Proof.
  intros base backup Vb Vk tnb tnk accb acck rhb rhk whb whk hid anc B0 HLb HLb2 HLk HCb HCk Hlinks Hsmall HwfB
         w ops w' Hrun.
  induction Hrun as [w | w o ops r w1 w2 Hcov Hstep Hks Hrest IH]; intros HI k outs wh Hk.
  - cbn [run_ops] in Hk. injection Hk as <- <-. split; [| intros _; reflexivity].
    apply (proj2 (recoverable_set_crash base backup Vb Vk B0 HCb HCk w (Some k))).
    exact (Inv_rec Vb Vk B0 w HI).
  - destruct (step_spec base backup Vb Vk tnb tnk accb acck rhb rhk whb whk hid anc B0
                HLb HLb2 HLk Hlinks Hsmall HwfB o w HI Hcov) as (r' & w1' & Hstep' & Hnh & Hinv & _).
    rewrite Hstep in Hstep'. injection Hstep' as Er Ew. subst r' w1'.
    pose proof (Hinv Hks) as HI1.
    cbn [run_ops] in Hk.
    destruct (step base backup o (set_crash w (Some k))) as [rk wk] eqn:Hsk.
    destruct (step_safe base backup Vb Vk tnb tnk accb acck rhb rhk whb whk hid anc B0
                HLb HLb2 HLk HCb HCk Hlinks Hsmall HwfB o w HI Hcov k rk wk Hsk)
      as [[-> Hrec] | (w1' & Hq & ->)].
    + injection Hk as <- <-. split.
      * exact (proj1 (recoverable_set_crash base backup Vb Vk B0 HCb HCk wk None) Hrec).
      * intros Hn. contradiction Hn. left. reflexivity.
    + rewrite Hstep in Hq. injection Hq as <- <-.
      destruct (run_ops base backup ops (set_crash w1 (Some k))) as [xs w''] eqn:Hrest'.
      destruct (IH HI1 k xs w'' Hrest') as [Hrec Hend].
      destruct r as [a | e |]; [| | contradiction Hnh; reflexivity];
        injection Hk as <- <-; (split; [exact Hrec |]);
        intros Hn; apply Hend; intros Hin; apply Hn; right; exact Hin.
Qed.

Theorem run_always :
  forall base backup Vb Vk tnb tnk accb acck rhb rhk whb whk hid anc B0,
  run_always_stmt base backup Vb Vk tnb tnk accb acck rhb rhk whb whk hid anc B0.
Proof.
  intros base backup Vb Vk tnb tnk accb acck rhb rhk whb whk hid anc B0.
  unfold run_always_stmt. cbv zeta. intros HLb HLb2 HLk HCb HCk Hsmall w0 ops w Hinit Hrun k outs wh Hk.
  pose proof Hinit as (_ & _ & _ & HwfB & Hlinks & _ & _).
  pose proof (initial_inv_spec Vb Vk tnb tnk accb acck B0 w0 Hinit) as HI0.
  exact (proj1 (good_run_always base backup Vb Vk tnb tnk accb acck rhb rhk whb whk hid anc B0
                  HLb HLb2 HLk HCb HCk Hlinks Hsmall HwfB w0 ops w Hrun HI0 k outs wh Hk)).
Qed.

Print Assumptions try_backup_always.
Print Assumptions step_always.
Print Assumptions run_always.

(** the form without the bound on the number of incomplete copies *)
Lemma recoverable_weaken (Vb Vk : world -> store) (B0 : store) (w : world) :
  recoverable Vb Vk B0 w -> recoverable_weak Vb Vk B0 w.
Proof.
  intros [H1 (wp & H2)]. split; [exact H1 |]. intros p nk Hne Hp.
  destruct (H2 p nk Hne Hp) as (n0 & Hn0 & [Hc | [_ Hg]]); exists n0; (split; [exact Hn0 |]);
    [left; exact Hc | right; exact Hg].
Qed.

(** a complete copy is in particular a growing one *)
Lemma copy_of_growing (n0 nk : node) : copy_of n0 nk -> growing_copy n0 nk.
Proof.
  destruct n0 as [m0 | m0 c0 | m0 t0]; simpl.
  - intros (mk & -> & _). exact I.
  - destruct nk as [mk | mk ck | mk tk]; simpl; try contradiction.
    intros [_ ->]. exists []. symmetry. apply app_nil_r.
  - destruct nk as [mk | mk ck | mk tk]; simpl; try contradiction.
    intros [_ ->]. reflexivity.
Qed.
