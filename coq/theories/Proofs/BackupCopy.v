(** Specifications of the copying helpers of fs_utils.go ([copy_dir],
    [copy_file], [copy_symlink], [lexists]) and of [real_path] on resolved
    names, proved from the abstract filesystem laws of Spec/Laws.v alone.
    The statements are the [_stmt] definitions of Spec/CopySpecs.v. *)
From stdpp Require Import gmap.
From BFS Require Import Spec.CopySpecs.
From BFS Require Import Path.PathSpec.
From BFS Require Import Proofs.PathFacts Proofs.C19Facts Proofs.RollbackFacts.

(* ------------------------------------------------------------------ *)
(** * [same_rest], [quiet] *)

Lemma same_rest_refl (V' : world -> store) (w : world) : same_rest V' w w.
Proof. repeat split. Qed.

Lemma same_rest_trans (V' : world -> store) (w1 w2 w3 : world) :
  same_rest V' w1 w2 -> same_rest V' w2 w3 -> same_rest V' w1 w3.
Proof.
  intros (H1 & H2 & H3 & H4) (K1 & K2 & K3 & K4).
  repeat split; congruence.
Qed.

Lemma quiet_same_rest (V' : world -> store) (w w' : world) :
  quiet w -> same_rest V' w w' -> quiet w'.
Proof.
  intros [Hc Hf] (_ & _ & H3 & H4). split; congruence.
Qed.

(** a step of the *other* filesystem (law instance with the views swapped) seen from this side *)
Lemma same_rest_swap (V V' : world -> store) (w w' : world) :
  V' w' = V' w -> same_rest V w w' -> V w' = V w /\ same_rest V' w w'.
Proof.
  intros HV' (H1 & H2 & H3 & H4). split; [exact H1 |]. repeat split; assumption.
Qed.

(* ------------------------------------------------------------------ *)
(** * Equivalence of nodes and stores *)

Lemma meta_eq_nomt_refl (m : meta) : meta_eq_nomt m m.
Proof. repeat split. Qed.

Lemma meta_eq_nomt_trans (a b c : meta) :
  meta_eq_nomt a b -> meta_eq_nomt b c -> meta_eq_nomt a c.
Proof. intros (H1 & H2 & H3) (K1 & K2 & K3). repeat split; congruence. Qed.

Lemma snode_eqv_refl (n : node) : snode_eqv n n.
Proof.
  destruct n as [m | m c | m t]; simpl.
  - apply meta_eq_nomt_refl.
  - split; reflexivity.
  - split; [apply meta_eq_nomt_refl | reflexivity].
Qed.

Lemma snode_eqv_trans (a b c : node) : snode_eqv a b -> snode_eqv b c -> snode_eqv a c.
Proof.
  destruct a as [ma | ma ca | ma ta], b as [mb | mb cb | mb tb], c as [mc | mc cc | mc tc];
    simpl; try tauto.
  - apply meta_eq_nomt_trans.
  - intros [H1 H2] [K1 K2]. split; congruence.
  - intros [H1 H2] [K1 K2]. split; [eapply meta_eq_nomt_trans; eassumption | congruence].
Qed.

Lemma sonode_eqv_refl (o : option node) : sonode_eqv o o.
Proof. destruct o as [n|]; simpl; [apply snode_eqv_refl | exact I]. Qed.

Lemma sonode_eqv_trans (a b c : option node) :
  sonode_eqv a b -> sonode_eqv b c -> sonode_eqv a c.
Proof.
  destruct a as [x|], b as [y|], c as [z|]; simpl; try tauto.
  apply snode_eqv_trans.
Qed.

Lemma store_eqv_except_refl (t : list str) (s : store) : store_eqv_except t s s.
Proof. intros p _. apply sonode_eqv_refl. Qed.

Lemma store_eqv_except_trans (t : list str) (s1 s2 s3 : store) :
  store_eqv_except t s1 s2 -> store_eqv_except t s2 s3 -> store_eqv_except t s1 s3.
Proof.
  intros H1 H2 p Hp. eapply sonode_eqv_trans; [apply H1 | apply H2]; exact Hp.
Qed.

Lemma store_eqv_except_insert (s : store) (p : str) (n : node) :
  store_eqv_except [p] (<[p:=n]> s) s.
Proof.
  intros q Hq. rewrite lookup_insert_ne.
  - apply sonode_eqv_refl.
  - intros E. apply Hq. left. exact E.
Qed.

(** a directory at [q] in [s] is matched by a directory in any store equivalent at [q] *)
Lemma sonode_eqv_dir (s s' : store) (q : str) :
  sonode_eqv (s' !! q) (s !! q) -> sdir s q -> sdir s' q.
Proof.
  intros He [m Hm]. rewrite Hm in He.
  destruct (s' !! q) as [[m' | m' c' | m' t']|] eqn:Hq; simpl in He; try contradiction.
  exists m'. exact Hq.
Qed.

(* ------------------------------------------------------------------ *)
(** * Well-formed stores *)

Lemma sdirect_snolinkpar (s : store) (p : str) : sdirect s p -> snolinkpar s p.
Proof.
  intros [Ha Hf]. split; [exact Ha |].
  eapply List.Forall_impl; [| exact Hf].
  intros q [m Hm] m' t' Hl. rewrite Hm in Hl. discriminate Hl.
Qed.

Lemma swf_lookup_sdirect (s : store) (p : str) (n : node) :
  swf s -> s !! p = Some n -> sdirect s p.
Proof. intros [_ Hall] Hp. exact (proj1 (Hall p n Hp)). Qed.

Lemma swf_lookup_snolinkpar (s : store) (p : str) (n : node) :
  swf s -> s !! p = Some n -> snolinkpar s p.
Proof. intros Hwf Hp. apply sdirect_snolinkpar. eapply swf_lookup_sdirect; eassumption. Qed.

Lemma swf_lookup_perm12 (s : store) (p : str) (n : node) :
  swf s -> s !! p = Some n -> perm12 n.
Proof. intros [_ Hall] Hp. exact (proj2 (Hall p n Hp)). Qed.

Lemma sdir_insert (s : store) (p q : str) (n n' : node) :
  s !! p = Some n -> node_kind n' = node_kind n -> sdir s q -> sdir (<[p:=n']> s) q.
Proof.
  intros Hp Hk [m Hm]. unfold sdir. destruct (str_eq_dec q p) as [E | E].
  - subst q. rewrite lookup_insert. rewrite Hp in Hm. injection Hm as Hn. subst n.
    destruct n' as [m' | m' c' | m' t']; simpl in Hk; try discriminate Hk.
    exists m'. reflexivity.
  - rewrite lookup_insert_ne by congruence. exists m. exact Hm.
Qed.

(** replacing a node by one of the same type with a 12-bit permission word keeps [swf] *)
Lemma swf_insert (s : store) (p : str) (n n' : node) :
  swf s -> s !! p = Some n -> node_kind n' = node_kind n -> perm12 n' ->
  swf (<[p:=n']> s).
Proof.
  intros [Hroot Hall] Hp Hk Hperm. split.
  - eapply sdir_insert; eassumption.
  - intros q n0 Hq. destruct (str_eq_dec q p) as [E | E].
    + subst q. rewrite lookup_insert in Hq. injection Hq as Hn0. subst n0.
      destruct (Hall p n Hp) as [[Ha Hf] _]. split; [| exact Hperm].
      split; [exact Ha |].
      eapply List.Forall_impl; [| exact Hf]. intros r Hr. eapply sdir_insert; eassumption.
    + rewrite lookup_insert_ne in Hq by congruence.
      destruct (Hall q n0 Hq) as [[Ha Hf] Hp12]. split; [| exact Hp12].
      split; [exact Ha |].
      eapply List.Forall_impl; [| exact Hf]. intros r Hr. eapply sdir_insert; eassumption.
Qed.

(* ------------------------------------------------------------------ *)
(** * Arithmetic of permission words, owners and timestamps *)

Lemma land4095_idem (x : N) : N.land (N.land x 4095) 4095 = N.land x 4095.
Proof. rewrite <- N.land_assoc. reflexivity. Qed.

Lemma ldiff_perm12 (x b : N) : N.land x 4095 = x -> N.land (N.ldiff x b) 4095 = N.ldiff x b.
Proof.
  intros Hx. apply N.bits_inj. intros i.
  rewrite N.land_spec, !N.ldiff_spec.
  assert (Hi : N.testbit x i = N.testbit x i && N.testbit 4095 i).
  { rewrite <- N.land_spec. rewrite Hx. reflexivity. }
  destruct (N.testbit x i), (N.testbit b i), (N.testbit 4095 i); simpl in *; congruence.
Qed.

Lemma mtime_eqb_eq (x y : mtime) : mtime_eqb x y = true -> x = y.
Proof.
  destruct x as [x | x], y as [y | y]; simpl; intros H; try discriminate H;
    apply N.eqb_eq in H; congruence.
Qed.

Lemma pick_id_nonneg (old : N) (new : Z) : (0 <= new)%Z -> Z.of_N (pick_id old new) = new.
Proof.
  intros H. unfold pick_id. destruct (new <? 0)%Z eqn:E.
  - apply Z.ltb_lt in E. lia.
  - apply Z2N.id. exact H.
Qed.

Lemma chown_node_kind (n : node) (u g : Z) : node_kind (chown_node n u g) = node_kind n.
Proof. destruct n; reflexivity. Qed.

Lemma chown_node_perm12 (n : node) (u g : Z) : perm12 n -> perm12 (chown_node n u g).
Proof.
  unfold perm12. destruct n as [m | m c | m t]; simpl; intros H; try exact H.
  destruct (N.testbit (m_perm m) 3).
  - apply ldiff_perm12. apply ldiff_perm12. exact H.
  - apply ldiff_perm12. exact H.
Qed.

Lemma chown_node_ids (n : node) (u g : Z) : (0 <= u)%Z -> (0 <= g)%Z ->
  Z.of_N (m_uid (node_meta (chown_node n u g))) = u /\
  Z.of_N (m_gid (node_meta (chown_node n u g))) = g.
Proof.
  intros Hu Hg. destruct n as [m | m c | m t]; simpl; split; apply pick_id_nonneg; assumption.
Qed.

Lemma chown_node_mt (n : node) (u g : Z) :
  m_mt (node_meta (chown_node n u g)) = m_mt (node_meta n).
Proof. destruct n; reflexivity. Qed.

Lemma not_is_link_dir (m : meta) : ~ is_link (Dir m).
Proof. intros (m' & t' & H). discriminate H. Qed.

Lemma not_is_link_file (m : meta) (c : list N) : ~ is_link (File m c).
Proof. intros (m' & t' & H). discriminate H. Qed.

(* ------------------------------------------------------------------ *)
(** * Monad wrappers *)

Lemma ignore_permission_ok (m : M unit) (w w' : world) (x : unit) :
  m w = (MOk x, w') -> ignore_permission m w = (MOk tt, w').
Proof.
  intros H. unfold ignore_permission.
  rewrite (bind_ok _ _ w w' (Ok x) (try_ok _ w w' x H)). reflexivity.
Qed.

Lemma wrap_other_ok (m : M unit) (w w' : world) (x : unit) :
  m w = (MOk x, w') -> wrap_other m w = (MOk tt, w').
Proof.
  intros H. unfold wrap_other.
  rewrite (bind_ok _ _ w w' (Ok x) (try_ok _ w w' x H)). reflexivity.
Qed.

Lemma wrap_other_err (m : M unit) (w w' : world) (e : errno) :
  m w = (MErr e, w') -> wrap_other m w = (MErr EOther, w').
Proof.
  intros H. unfold wrap_other.
  rewrite (bind_ok _ _ w w' (Err e) (try_err _ w w' e H)). reflexivity.
Qed.

(* ------------------------------------------------------------------ *)
(** * List facts for the copy loop *)

Lemma firstn_length_firstn {A} (n : nat) (l : list A) :
  firstn (length (firstn n l)) l = firstn n l.
Proof.
  revert l. induction n as [|n IH]; intros [|x l]; simpl; try reflexivity.
  f_equal. apply IH.
Qed.

Lemma firstn_chunk_step {A} (pos k : nat) (c : list A) :
  firstn pos c ++ firstn k (skipn pos c) = firstn (pos + length (firstn k (skipn pos c))) c.
Proof.
  rewrite <- (firstn_length_firstn k (skipn pos c)) at 1.
  apply take_take_drop.
Qed.

Lemma skipn_nil_firstn {A} (pos : nat) (c : list A) :
  (pos <= length c)%nat -> skipn pos c = [] -> firstn pos c = c.
Proof.
  intros Hle Hs. pose proof (skipn_length pos c) as Hl. rewrite Hs in Hl. simpl in Hl.
  assert (E : pos = length c) by lia. rewrite E. apply firstn_all.
Qed.

Lemma fuel_arith (C L fuel d : nat) :
  (1 <= L)%nat -> (L <= C * fuel)%nat -> d = Nat.min C L ->
  (1 <= fuel)%nat /\ (L - d <= C * (fuel - 1))%nat.
Proof.
  intros H1 H2 Hd. destruct fuel as [|fuel].
  - rewrite Nat.mul_0_r in H2. lia.
  - split; [lia |]. replace (S fuel - 1)%nat with fuel by lia.
    rewrite Nat.mul_succ_r in H2. lia.
Qed.

(* ------------------------------------------------------------------ *)
(** * Steps on one node, from the laws *)

Section CopyProofs.
  Variables a a' : fsapi.
  Variables V V' : world -> store.
  Variables tn tn' : str -> str.
  Variables acc acc' : str -> str -> Prop.
  Variables rh rh' wh wh' : fhandle -> str -> nat -> Prop.
  Variables hid hid' anc anc' : str -> Prop.
  Hypothesis HLa : api_laws a V V' tn acc rh wh hid anc.
  Hypothesis HLa' : api_laws a' V' V tn' acc' rh' wh' hid' anc'.

  (** the world is quiet, the view well formed, and it has node [n] at [p] *)
  Definition at_node (w : world) (p : str) (n : node) : Prop :=
    quiet w /\ swf (V w) /\ V w !! p = Some n.

  (** from [w] to [w'] only this filesystem changed, and only by putting [n'] at [p] *)
  Definition upd_res (w w' : world) (p : str) (n' : node) : Prop :=
    same_rest V' w w' /\ V w' = <[p:=n']> (V w).

  Lemma at_node_nolinkpar (w : world) (p : str) (n : node) :
    at_node w p n -> snolinkpar (V w) p.
  Proof. intros (_ & Hwf & Hp). eapply swf_lookup_snolinkpar; eassumption. Qed.

  Lemma upd_res_read (w w' : world) (p : str) (n : node) :
    V w !! p = Some n -> same_rest V' w w' -> V w' = V w -> upd_res w w' p n.
  Proof.
    intros Hp Hsr HV. split; [exact Hsr |]. rewrite HV. symmetry. apply insert_id. exact Hp.
  Qed.

  Lemma upd_res_refl (w : world) (p : str) (n : node) : V w !! p = Some n -> upd_res w w p n.
  Proof. intros Hp. apply upd_res_read; [exact Hp | apply same_rest_refl | reflexivity]. Qed.

  Lemma upd_res_trans (w w1 w2 : world) (p : str) (n1 n2 : node) :
    upd_res w w1 p n1 -> upd_res w1 w2 p n2 -> upd_res w w2 p n2.
  Proof.
    intros [Hs1 HV1] [Hs2 HV2]. split.
    - eapply same_rest_trans; eassumption.
    - rewrite HV2, HV1. apply insert_insert.
  Qed.

  Lemma upd_res_lookup (w w' : world) (p : str) (n' : node) :
    upd_res w w' p n' -> V w' !! p = Some n'.
  Proof. intros [_ HV]. rewrite HV. apply lookup_insert. Qed.

  Lemma upd_at_node (w w' : world) (p : str) (n n' : node) :
    at_node w p n -> upd_res w w' p n' -> node_kind n' = node_kind n -> perm12 n' ->
    at_node w' p n'.
  Proof.
    intros (Hq & Hwf & Hp) [Hsr HV] Hk H12. split; [| split].
    - eapply quiet_same_rest; eassumption.
    - rewrite HV. eapply swf_insert; eassumption.
    - rewrite HV. apply lookup_insert.
  Qed.

  Lemma read_at_node (w w' : world) (p : str) (n : node) :
    at_node w p n -> same_rest V' w w' -> V w' = V w -> at_node w' p n.
  Proof.
    intros (Hq & Hwf & Hp) Hsr HV. split; [| split].
    - eapply quiet_same_rest; eassumption.
    - rewrite HV. exact Hwf.
    - rewrite HV. exact Hp.
  Qed.

  Lemma step_post_trans (w w1 w2 : world) (t : list str) :
    step_post V V' w w1 t -> step_post V V' w1 w2 t -> step_post V V' w w2 t.
  Proof.
    intros (Hs1 & _ & He1) (Hs2 & Hwf2 & He2). split; [| split].
    - eapply same_rest_trans; eassumption.
    - exact Hwf2.
    - eapply store_eqv_except_trans; eassumption.
  Qed.

  Lemma upd_step_post (w w' : world) (p : str) (n n' : node) :
    at_node w p n -> upd_res w w' p n' -> node_kind n' = node_kind n -> perm12 n' ->
    step_post V V' w w' [p].
  Proof.
    intros Hat Hupd Hk H12.
    destruct (upd_at_node w w' p n n' Hat Hupd Hk H12) as (_ & Hwf' & _).
    destruct Hupd as [Hsr HV]. split; [exact Hsr | split; [exact Hwf' |]].
    rewrite HV. apply store_eqv_except_insert.
  Qed.

  (** ** Lstat of an existing node *)
  Lemma lstat_step (w : world) (p : str) (n : node) :
    at_node w p n ->
    exists fi w', a_lstat a p w = (MOk fi, w') /\ same_rest V' w w' /\ V w' = V w /\
                  info_matches fi n /\ fi_mt fi = m_mt (node_meta n).
  Proof.
    intros Hat. pose proof (at_node_nolinkpar w p n Hat) as Hnl.
    destruct Hat as (Hq & Hwf & Hp).
    destruct (law_lstat_some _ _ _ _ _ _ _ _ _ HLa w p n Hq Hwf Hnl Hp)
      as (fi & (w' & Hrun & HV & Hsr) & Him & Hmt & _).
    exists fi, w'.
    split; [exact Hrun | split; [exact Hsr | split; [exact HV | split; [exact Him | exact Hmt]]]].
  Qed.

  (** ** the conditional Chmod *)
  Lemma fix_mode_step (w : world) (p : str) (n : node) (nfi info : finfo) :
    at_node w p n -> ~ is_link n -> fi_perm nfi = m_perm (node_meta n) ->
    exists w',
      (if negb (N.eqb (mode12 nfi) (mode12 info)) then a_chmod a p (mode12 info) else ret tt) w
        = (MOk tt, w') /\
      upd_res w w' p (with_meta n (set_perm (mode12 info))).
  Proof.
    intros Hat Hnl Hperm. pose proof (at_node_nolinkpar w p n Hat) as Hnlp.
    destruct Hat as (Hq & Hwf & Hp).
    destruct (N.eqb (mode12 nfi) (mode12 info)) eqn:E; simpl.
    - exists w. split; [reflexivity |].
      assert (Hsame : with_meta n (set_perm (mode12 info)) = n).
      { apply N.eqb_eq in E. pose proof (swf_lookup_perm12 _ _ _ Hwf Hp) as H12.
        unfold perm12 in H12. unfold mode12 in *. rewrite Hperm, H12 in E.
        unfold with_meta, set_perm. rewrite land4095_idem. rewrite <- E.
        destruct n as [m | m c | m t]; destruct m; reflexivity. }
      rewrite Hsame. apply upd_res_refl. exact Hp.
    - destruct (law_chmod _ _ _ _ _ _ _ _ _ HLa w p (mode12 info) n Hq Hwf Hnlp Hp Hnl)
        as (w' & Hrun & HV & Hsr).
      exists w'. split; [exact Hrun |]. split; [exact Hsr | exact HV].
  Qed.

  (** ** the conditional Chtimes *)
  Lemma fix_mt_step (w : world) (p : str) (n : node) (nfi info : finfo) :
    at_node w p n -> ~ is_link n -> fi_mt nfi = m_mt (node_meta n) ->
    exists w',
      (if negb (mtime_eqb (fi_mt nfi) (fi_mt info))
       then ignore_permission (a_chtimes a p (fi_mt info)) else ret tt) w = (MOk tt, w') /\
      upd_res w w' p (with_meta n (set_mt (fi_mt info))).
  Proof.
    intros Hat Hnl Hmt. pose proof (at_node_nolinkpar w p n Hat) as Hnlp.
    destruct Hat as (Hq & Hwf & Hp).
    destruct (mtime_eqb (fi_mt nfi) (fi_mt info)) eqn:E; simpl.
    - exists w. split; [reflexivity |].
      assert (Hsame : with_meta n (set_mt (fi_mt info)) = n).
      { apply mtime_eqb_eq in E. rewrite Hmt in E.
        unfold with_meta, set_mt. rewrite <- E.
        destruct n as [m | m c | m t]; destruct m; reflexivity. }
      rewrite Hsame. apply upd_res_refl. exact Hp.
    - destruct (law_chtimes _ _ _ _ _ _ _ _ _ HLa w p (fi_mt info) n Hq Hwf Hnlp Hp Hnl)
        as (w' & Hrun & HV & Hsr).
      exists w'. split; [exact (ignore_permission_ok _ w w' tt Hrun) |].
      split; [exact Hsr | exact HV].
  Qed.

  (** ** [chown from name fs] under [ignore_permission] *)
  Lemma chown_to_step (w : world) (p : str) (n : node) (info : finfo) :
    at_node w p n -> ~ is_link n -> (0 <= fi_uid info)%Z -> (0 <= fi_gid info)%Z ->
    exists w' n',
      ignore_permission (chown_to a info p) w = (MOk tt, w') /\ upd_res w w' p n' /\
      (n' = n \/ n' = chown_node n (fi_uid info) (fi_gid info)) /\
      Z.of_N (m_uid (node_meta n')) = fi_uid info /\
      Z.of_N (m_gid (node_meta n')) = fi_gid info.
  Proof.
    intros Hat Hnl Hu Hg.
    destruct (lstat_step w p n Hat) as (old & w1 & Hrun1 & Hsr1 & HV1 & Him & _).
    pose proof (read_at_node w w1 p n Hat Hsr1 HV1) as Hat1.
    pose proof (at_node_nolinkpar w1 p n Hat1) as Hnlp1.
    destruct Hat as (Hq & Hwf & Hp). destruct Hat1 as (Hq1 & Hwf1 & Hp1).
    destruct Him as (_ & _ & Huid & Hgid & _).
    destruct (negb (Z.eqb (fi_uid old) (fi_uid info)) || negb (Z.eqb (fi_gid old) (fi_gid info)))
      eqn:E.
    - destruct (law_chown _ _ _ _ _ _ _ _ _ HLa w1 p (fi_uid info) (fi_gid info) n Hq1 Hwf1 Hnlp1 Hp1 Hnl)
        as (w2 & Hrun2 & HV2 & Hsr2).
      exists w2, (chown_node n (fi_uid info) (fi_gid info)). split; [| split; [| split]].
      + apply (ignore_permission_ok _ w w2 tt). unfold chown_to.
        rewrite (bind_ok _ _ w w1 old Hrun1). rewrite E. exact Hrun2.
      + eapply upd_res_trans.
        * apply (upd_res_read w w1 p n Hp Hsr1 HV1).
        * split; [exact Hsr2 | exact HV2].
      + right. reflexivity.
      + apply chown_node_ids; assumption.
    - apply orb_false_elim in E. destruct E as [E1 E2].
      apply negb_false_iff in E1. apply negb_false_iff in E2.
      apply Z.eqb_eq in E1. apply Z.eqb_eq in E2.
      exists w1, n. split; [| split; [| split]].
      + apply (ignore_permission_ok _ w w1 tt). unfold chown_to.
        rewrite (bind_ok _ _ w w1 old Hrun1). rewrite E1, E2, !Z.eqb_refl. reflexivity.
      + apply (upd_res_read w w1 p n Hp Hsr1 HV1).
      + left. reflexivity.
      + split; congruence.
  Qed.

  (* ---------------------------------------------------------------- *)
  (** * [copy_dir] *)

  Lemma copy_dir_unfold (p : str) (fi : finfo) :
    fi_kind fi = KDir -> p <> s_root ->
    copy_dir a p fi =
    wrap_other (
      a_mkdirall a p (perm9 fi) ;;;
      nfi <- a_lstat a p ;;
      (if negb (N.eqb (mode12 nfi) (mode12 fi)) then a_chmod a p (mode12 fi) else ret tt) ;;;
      (if negb (mtime_eqb (fi_mt nfi) (fi_mt fi))
       then ignore_permission (a_chtimes a p (fi_mt fi)) else ret tt) ;;;
      ignore_permission (chown_to a fi p)).
  Proof.
    intros Hk Hne. unfold copy_dir, is_dir_info. rewrite Hk.
    apply str_eqb_neq in Hne. rewrite Hne. reflexivity.
  Qed.

  (** MkdirAll on a missing or existing directory whose ancestors are directories *)
  Lemma mkdirall_step (w : world) (p : str) (perm : N) :
    quiet w -> swf (V w) -> sdirect (V w) p -> (V w !! p = None \/ sdir (V w) p) -> ~ hid p ->
    exists w1 m1, a_mkdirall a p perm w = (MOk tt, w1) /\ step_post V V' w w1 [p] /\
                  V w1 !! p = Some (Dir m1).
  Proof.
    intros Hq Hwf Hdir [Hnone | [m Hm]] Hnh.
    - destruct (law_mkdirall_new _ _ _ _ _ _ _ _ _ HLa w p perm Hq Hwf Hdir Hnone Hnh)
        as (m' & s' & (w1 & Hrun & HV & Hsr) & Hp' & Heqv & Hwf').
      subst s'. exists w1, m'. split; [exact Hrun |]. split; [| exact Hp'].
      split; [exact Hsr | split; [exact Hwf' | exact Heqv]].
    - destruct (law_mkdirall_dir _ _ _ _ _ _ _ _ _ HLa w p perm m Hq Hwf Hdir Hm)
        as (w1 & Hrun & HV & Hsr).
      exists w1, m. split; [exact Hrun |]. unfold step_post. rewrite HV. split; [| exact Hm].
      split; [exact Hsr | split; [exact Hwf | apply store_eqv_except_refl]].
  Qed.

  Lemma copy_dir_spec_sec : copy_dir_stmt a V V' tn acc rh wh hid anc.
  Proof.
    intros _ w p fi Hq Hwf Hdir Hne Hk Hu Hg Hcase Hnh.
    (* MkdirAll *)
    destruct (mkdirall_step w p (perm9 fi) Hq Hwf Hdir Hcase Hnh) as (w1 & m1 & Hrun1 & Hpost1 & Hp1).
    assert (Hat1 : at_node w1 p (Dir m1)).
    { destruct Hpost1 as (Hsr1 & Hwf1 & _). split; [| split]; [| exact Hwf1 | exact Hp1].
      eapply quiet_same_rest; eassumption. }
    (* Lstat *)
    destruct (lstat_step w1 p (Dir m1) Hat1) as (nfi & w2 & Hrun2 & Hsr2 & HV2 & Him2 & Hmt2).
    pose proof (read_at_node w1 w2 p _ Hat1 Hsr2 HV2) as Hat2.
    destruct Him2 as (_ & Hperm2 & _).
    (* Chmod *)
    destruct (fix_mode_step w2 p (Dir m1) nfi fi Hat2 (not_is_link_dir m1) Hperm2)
      as (w3 & Hrun3 & Hupd3).
    set (n3 := with_meta (Dir m1) (set_perm (mode12 fi))) in *.
    assert (Hat3 : at_node w3 p n3).
    { eapply upd_at_node; [exact Hat2 | exact Hupd3 | reflexivity |].
      unfold n3, perm12, mode12. simpl. rewrite !land4095_idem. reflexivity. }
    (* Chtimes *)
    destruct (fix_mt_step w3 p n3 nfi fi Hat3 (not_is_link_dir _) Hmt2) as (w4 & Hrun4 & Hupd4).
    set (n4 := with_meta n3 (set_mt (fi_mt fi))) in *.
    assert (Hat4 : at_node w4 p n4).
    { eapply upd_at_node; [exact Hat3 | exact Hupd4 | reflexivity |].
      unfold n4, n3, perm12, mode12. simpl. rewrite !land4095_idem. reflexivity. }
    (* Chown *)
    destruct (chown_to_step w4 p n4 fi Hat4 (not_is_link_dir _) Hu Hg)
      as (w5 & n5 & Hrun5 & Hupd5 & Hn5 & Huid5 & Hgid5).
    assert (Hn5' : exists m5, n5 = Dir m5 /\ m_perm m5 = N.land (fi_perm fi) 4095).
    { destruct Hn5 as [-> | ->]; eexists; (split; [reflexivity |]);
        unfold mode12; simpl; apply land4095_idem. }
    destruct Hn5' as (m5 & -> & Hperm5).
    assert (Hupd15 : upd_res w1 w5 p (Dir m5)).
    { eapply upd_res_trans; [| exact Hupd5].
      eapply upd_res_trans; [| exact Hupd4].
      eapply upd_res_trans; [| exact Hupd3].
      apply upd_res_read; [exact (proj2 (proj2 Hat1)) | exact Hsr2 | exact HV2]. }
    assert (H12 : perm12 (Dir m5)).
    { unfold perm12. simpl. rewrite Hperm5. apply land4095_idem. }
    exists w5, m5. split; [| split; [| split]].
    - rewrite (copy_dir_unfold p fi Hk Hne). apply (wrap_other_ok _ w w5 tt).
      rewrite (bind_ok _ _ w w1 tt Hrun1).
      rewrite (bind_ok _ _ w1 w2 nfi Hrun2).
      rewrite (bind_ok _ _ w2 w3 tt Hrun3).
      rewrite (bind_ok _ _ w3 w4 tt Hrun4).
      exact Hrun5.
    - eapply step_post_trans; [exact Hpost1 |].
      eapply upd_step_post; [exact Hat1 | exact Hupd15 | reflexivity | exact H12].
    - exact (upd_res_lookup _ _ _ _ Hupd15).
    - split; [exact Hperm5 | split; [exact Huid5 | exact Hgid5]].
  Qed.

  (* ---------------------------------------------------------------- *)
  (** * The copy loop *)

  (** invariant: the destination holds the first [pos] bytes of the source
      content [c], both handles are at offset [pos]; the fuel covers the
      remaining [length c - pos] bytes in chunks of [chunk_size], plus the
      final read that reports EOF *)
  Lemma io_copy_spec : forall (fuel : nat) (w : world) (dst src : fhandle) (p ps : str)
                              (pos : nat) (m ms : meta) (c : list N),
    quiet w -> V w !! p = Some (File m (firstn pos c)) -> (pos <= length c)%nat ->
    wh dst p pos -> rh' src ps pos -> V' w !! ps = Some (File ms c) ->
    (1 <= fuel)%nat -> (length c - pos <= chunk_size * (fuel - 1))%nat ->
    exists w' m', io_copy fuel dst src w = (MOk tt, w') /\ same_rest V' w w' /\
                  V w' = <[p := File m' c]> (V w) /\ m_perm m' = m_perm m.
  Proof.
    induction fuel as [|fuel IH];
      intros w dst src p ps pos m ms c Hq Hp Hpos Hwh Hrh Hps Hf1 Hf2.
    - lia.
    - simpl io_copy.
      pose proof (law_hread _ _ _ _ _ _ _ _ _ HLa' w src ps pos ms c Hq Hrh Hps) as Hread.
      destruct (skipn pos c) as [|x rest] eqn:Hskip.
      + destruct Hread as (h' & w1 & Hrun & HV'1 & Hsr1).
        destruct (same_rest_swap V V' w w1 HV'1 Hsr1) as [HV1 Hsr1'].
        exists w1, m. split; [| split; [| split]].
        * rewrite (bind_ok _ _ w w1 _ Hrun). reflexivity.
        * exact Hsr1'.
        * rewrite HV1. symmetry. apply insert_id.
          rewrite Hp. rewrite (skipn_nil_firstn pos c Hpos Hskip). reflexivity.
        * reflexivity.
      + destruct Hread as (h' & (w1 & Hrun & HV'1 & Hsr1) & Hrh').
        rewrite <- Hskip in *.
        set (data := firstn chunk_size (skipn pos c)) in *.
        destruct (same_rest_swap V V' w w1 HV'1 Hsr1) as [HV1 Hsr1'].
        pose proof (quiet_same_rest V' w w1 Hq Hsr1') as Hq1.
        assert (Hp1 : V w1 !! p = Some (File m (firstn pos c))) by (rewrite HV1; exact Hp).
        assert (Hlen : length (firstn pos c) = pos) by (apply firstn_length_le; exact Hpos).
        destruct (law_hwrite _ _ _ _ _ _ _ _ _ HLa w1 dst p pos m (firstn pos c) data Hq1 Hwh Hp1 Hlen)
          as (h2 & t' & (w2 & Hrun2 & HV2 & Hsr2) & Hwh2).
        pose proof (quiet_same_rest V' w1 w2 Hq1 Hsr2) as Hq2.
        assert (Hdlen : length data = Nat.min chunk_size (length c - pos)).
        { unfold data. rewrite firstn_length, skipn_length. reflexivity. }
        assert (Hne : (1 <= length c - pos)%nat).
        { rewrite <- skipn_length. rewrite Hskip. simpl. lia. }
        replace (S fuel - 1)%nat with fuel in Hf2 by lia.
        destruct (fuel_arith chunk_size (length c - pos) fuel (length data) Hne Hf2 Hdlen)
          as [Hfuel1 Hfuel2].
        assert (Hp2 : V w2 !! p = Some (File (set_mt t' m) (firstn (pos + length data) c))).
        { rewrite HV2, lookup_insert. unfold data. rewrite firstn_chunk_step. reflexivity. }
        assert (Hps2 : V' w2 !! ps = Some (File ms c)).
        { rewrite (proj1 Hsr2), HV'1. exact Hps. }
        destruct (IH w2 h2 h' p ps (pos + length data)%nat (set_mt t' m) ms c Hq2 Hp2
                     ltac:(lia) Hwh2 Hrh' Hps2 Hfuel1 ltac:(lia))
          as (w3 & m3 & Hrun3 & Hsr3 & HV3 & Hperm3).
        exists w3, m3. split; [| split; [| split]].
        * rewrite (bind_ok _ _ w w1 _ Hrun). cbn [fst snd].
          rewrite (bind_ok _ _ w1 w2 _ Hrun2). exact Hrun3.
        * eapply same_rest_trans; [exact Hsr1' |].
          eapply same_rest_trans; [exact Hsr2 | exact Hsr3].
        * rewrite HV3, HV2, HV1. apply insert_insert.
        * rewrite Hperm3. reflexivity.
  Qed.

  (* ---------------------------------------------------------------- *)
  (** * [write_file], [copy_file] *)

  (** create or truncate for writing *)
  Lemma openfile_step (w : world) (p : str) (perm : N) :
    quiet w -> swf (V w) -> sdirect (V w) p ->
    (V w !! p = None \/ exists m0 c0, V w !! p = Some (File m0 c0)) -> ~ hid p ->
    exists h w1 m1, a_openfile a p 578 perm w = (MOk h, w1) /\ wh h p 0 /\
                    step_post V V' w w1 [p] /\ V w1 !! p = Some (File m1 []).
  Proof.
    intros Hq Hwf Hdir [Hnone | (m0 & c0 & Hm)] Hnh.
    - destruct (law_openfile_new _ _ _ _ _ _ _ _ _ HLa w p perm Hq Hwf Hdir Hnone Hnh)
        as (h & m' & s' & (w1 & Hrun & HV & Hsr) & Hwh & Hp' & Heqv & Hwf').
      subst s'. exists h, w1, m'. split; [exact Hrun | split; [exact Hwh | split; [| exact Hp']]].
      split; [exact Hsr | split; [exact Hwf' | exact Heqv]].
    - destruct (law_openfile_trunc _ _ _ _ _ _ _ _ _ HLa w p perm m0 c0 Hq Hwf
                  (sdirect_snolinkpar _ _ Hdir) Hm)
        as (h & t' & (w1 & Hrun & HV & Hsr) & Hwh).
      exists h, w1, (set_mt t' m0).
      split; [exact Hrun | split; [exact Hwh | split]].
      + eapply (upd_step_post w w1 p (File m0 c0) (File (set_mt t' m0) [])).
        * split; [exact Hq | split; [exact Hwf | exact Hm]].
        * split; [exact Hsr | exact HV].
        * reflexivity.
        * exact (swf_lookup_perm12 _ _ _ Hwf Hm).
      + rewrite HV. apply lookup_insert.
  Qed.

  Lemma write_file_spec (w : world) (p : str) (perm : N) (src : fhandle) (ps : str)
        (ms : meta) (c : list N) :
    quiet w -> swf (V w) -> sdirect (V w) p ->
    (V w !! p = None \/ exists m0 c0, V w !! p = Some (File m0 c0)) ->
    rh' src ps 0 -> V' w !! ps = Some (File ms c) -> small c -> ~ hid p ->
    exists w' m', write_file a p perm src w = (MOk tt, w') /\ step_post V V' w w' [p] /\
                  at_node w' p (File m' c).
  Proof.
    intros Hq Hwf Hdir Hcase Hrh Hps Hsmall Hnh.
    destruct (openfile_step w p perm Hq Hwf Hdir Hcase Hnh)
      as (file & w1 & m1 & Hrun1 & Hwh & Hpost1 & Hp1).
    assert (Hat1 : at_node w1 p (File m1 [])).
    { destruct Hpost1 as (Hsr1 & Hwf1 & _). split; [| split]; [| exact Hwf1 | exact Hp1].
      eapply quiet_same_rest; eassumption. }
    assert (Hps1 : V' w1 !! ps = Some (File ms c)).
    { destruct Hpost1 as ((HV'1 & _) & _). rewrite HV'1. exact Hps. }
    assert (Hfuel1 : (1 <= tree_fuel)%nat) by (unfold tree_fuel; lia).
    assert (Hfuel2 : (length c - 0 <= chunk_size * (tree_fuel - 1))%nat).
    { unfold small in Hsmall.
      assert (Hmono : (chunk_size * (tree_fuel - 2) <= chunk_size * (tree_fuel - 1))%nat).
      { apply Nat.mul_le_mono_l. lia. }
      lia. }
    destruct (io_copy_spec tree_fuel w1 file src p ps 0 m1 ms c (proj1 Hat1) Hp1
                ltac:(lia) Hwh Hrh Hps1 Hfuel1 Hfuel2)
      as (w2 & m2 & Hrun2 & Hsr2 & HV2 & Hperm2).
    assert (Hupd2 : upd_res w1 w2 p (File m2 c)) by (split; [exact Hsr2 | exact HV2]).
    assert (H12 : perm12 (File m2 c)).
    { pose proof (swf_lookup_perm12 _ _ _ (proj1 (proj2 Hat1)) Hp1) as H.
      unfold perm12 in H |- *. simpl in H |- *. rewrite Hperm2. exact H. }
    pose proof (upd_at_node w1 w2 p _ _ Hat1 Hupd2 eq_refl H12) as Hat2.
    destruct (law_hclose_w _ _ _ _ _ _ _ _ _ HLa w2 file p 0%nat (proj1 Hat2) Hwh)
      as (w3 & Hrun3 & HV3 & Hsr3).
    pose proof (read_at_node w2 w3 p _ Hat2 Hsr3 HV3) as Hat3.
    exists w3, m2. split; [| split; [| exact Hat3]].
    - unfold write_file.
      rewrite (bind_ok _ _ w w1 file Hrun1).
      rewrite (bind_ok _ _ w1 w2 (Ok tt) (try_ok _ w1 w2 tt Hrun2)).
      rewrite (bind_ok _ _ w2 w3 (Ok tt) (try_ok _ w2 w3 tt Hrun3)).
      reflexivity.
    - eapply step_post_trans; [exact Hpost1 |].
      eapply (upd_step_post w1 w3 p (File m1 []) (File m2 c)); [exact Hat1 | | reflexivity | exact H12].
      eapply upd_res_trans; [exact Hupd2 |].
      apply upd_res_read; [exact (proj2 (proj2 Hat2)) | exact Hsr3 | exact HV3].
  Qed.

  Lemma copy_file_spec_sec : copy_file_stmt a a' V V' tn tn' acc acc' rh rh' wh wh' hid hid' anc anc'.
  Proof.
    intros _ _ w p fi src ps ms c Hq Hwf Hwf' Hdir Hk Hu Hg Hcase Hrh Hps Hsmall Hnh.
    destruct (write_file_spec w p (perm9 fi) src ps ms c Hq Hwf Hdir Hcase Hrh Hps Hsmall Hnh)
      as (w1 & m1 & Hrun1 & Hpost1 & Hat1).
    (* Chown *)
    destruct (chown_to_step w1 p (File m1 c) fi Hat1 (not_is_link_file _ _) Hu Hg)
      as (w2 & n2 & Hrun2 & Hupd2 & Hn2 & Huid2 & Hgid2).
    assert (Hn2' : exists m2, n2 = File m2 c /\ perm12 n2).
    { pose proof (swf_lookup_perm12 _ _ _ (proj1 (proj2 Hat1)) (proj2 (proj2 Hat1))) as H12.
      destruct Hn2 as [-> | ->].
      - exists m1. split; [reflexivity | exact H12].
      - eexists. split; [reflexivity |]. apply (chown_node_perm12 (File m1 c)). exact H12. }
    destruct Hn2' as (m2 & -> & H12).
    pose proof (upd_at_node w1 w2 p _ _ Hat1 Hupd2 eq_refl H12) as Hat2.
    simpl in Huid2, Hgid2.
    (* Lstat *)
    destruct (lstat_step w2 p (File m2 c) Hat2) as (nfi & w3 & Hrun3 & Hsr3 & HV3 & Him3 & Hmt3).
    pose proof (read_at_node w2 w3 p _ Hat2 Hsr3 HV3) as Hat3.
    destruct Him3 as (_ & Hperm3 & _).
    (* Chmod *)
    destruct (fix_mode_step w3 p (File m2 c) nfi fi Hat3 (not_is_link_file _ _) Hperm3)
      as (w4 & Hrun4 & Hupd4).
    set (n4 := with_meta (File m2 c) (set_perm (mode12 fi))) in *.
    assert (H12_4 : perm12 n4).
    { unfold n4, perm12, mode12. simpl. rewrite !land4095_idem. reflexivity. }
    pose proof (upd_at_node w3 w4 p _ _ Hat3 Hupd4 eq_refl H12_4) as Hat4.
    (* Chtimes *)
    destruct (fix_mt_step w4 p n4 nfi fi Hat4 (not_is_link_file _ _) Hmt3) as (w5 & Hrun5 & Hupd5).
    set (n5 := with_meta n4 (set_mt (fi_mt fi))) in *.
    assert (H12_5 : perm12 n5).
    { unfold n5, n4, perm12, mode12. simpl. rewrite !land4095_idem. reflexivity. }
    assert (Hupd15 : upd_res w1 w5 p n5).
    { eapply upd_res_trans; [| exact Hupd5].
      eapply upd_res_trans; [| exact Hupd4].
      eapply upd_res_trans; [exact Hupd2 |].
      apply upd_res_read; [exact (proj2 (proj2 Hat2)) | exact Hsr3 | exact HV3]. }
    exists w5, (node_meta n5). split; [| split; [| split; [| split]]].
    - unfold copy_file. rewrite Hk. apply (wrap_other_ok _ w w5 tt).
      rewrite (bind_ok _ _ w w1 tt Hrun1).
      rewrite (bind_ok _ _ w1 w2 tt Hrun2).
      rewrite (bind_ok _ _ w2 w3 nfi Hrun3).
      rewrite (bind_ok _ _ w3 w4 tt Hrun4).
      exact Hrun5.
    - eapply step_post_trans; [exact Hpost1 |].
      eapply (upd_step_post w1 w5 p (File m1 c) n5); [exact Hat1 | exact Hupd15 | reflexivity | exact H12_5].
    - exact (upd_res_lookup _ _ _ _ Hupd15).
    - unfold n5, n4, mode12. simpl. split; [apply land4095_idem | split; assumption].
    - reflexivity.
  Qed.

  (* ---------------------------------------------------------------- *)
  (** * [copy_symlink] *)

  Lemma copy_symlink_spec_sec : copy_symlink_stmt a a' V V' tn tn' acc acc' rh rh' wh wh' hid hid' anc anc'.
  Proof.
    intros _ _ w p fi ms t Hq Hwf Hwf' Hnlp' Hlink Hdir Hnone Hk Hu Hg Htne Hacc Hnh.
    (* Readlink on the source *)
    destruct (law_readlink _ _ _ _ _ _ _ _ _ HLa' w p ms t Hq Hwf' Hnlp' Hlink)
      as (w1 & Hrun1 & HV'1 & Hsr1).
    destruct (same_rest_swap V V' w w1 HV'1 Hsr1) as [HV1 Hsr1'].
    pose proof (quiet_same_rest V' w w1 Hq Hsr1') as Hq1.
    (* Symlink *)
    assert (Hwf1 : swf (V w1)) by (rewrite HV1; exact Hwf).
    assert (Hdir1 : sdirect (V w1) p) by (rewrite HV1; exact Hdir).
    assert (Hnone1 : V w1 !! p = None) by (rewrite HV1; exact Hnone).
    destruct (law_symlink _ _ _ _ _ _ _ _ _ HLa w1 t p Hq1 Hwf1 Hdir1 Hnone1 Htne Hacc Hnh)
      as (m2 & s2 & (w2 & Hrun2 & HV2 & Hsr2) & Hp2 & Hperm2 & Heqv2 & Hwf2).
    subst s2.
    assert (Hat2 : at_node w2 p (Link m2 (tn t))).
    { split; [| split; [exact Hwf2 | exact Hp2]]. eapply quiet_same_rest; eassumption. }
    (* Lchown *)
    destruct (law_lchown _ _ _ _ _ _ _ _ _ HLa w2 p (fi_uid fi) (fi_gid fi) (Link m2 (tn t))
                (proj1 Hat2) Hwf2 (at_node_nolinkpar _ _ _ Hat2) Hp2)
      as (w3 & Hrun3 & HV3 & Hsr3).
    set (n3 := chown_node (Link m2 (tn t)) (fi_uid fi) (fi_gid fi)) in *.
    assert (Hupd3 : upd_res w2 w3 p n3) by (split; [exact Hsr3 | exact HV3]).
    assert (H12 : perm12 n3).
    { unfold n3, perm12. simpl. rewrite Hperm2. reflexivity. }
    destruct (chown_node_ids (Link m2 (tn t)) _ _ Hu Hg) as [Huid3 Hgid3].
    exists w3, (node_meta n3). split; [| split; [| split; [| split; [| split]]]].
    - unfold copy_symlink. rewrite Hk. apply (wrap_other_ok _ w w3 tt).
      rewrite (bind_ok _ _ w w1 t Hrun1).
      rewrite (bind_ok _ _ w1 w2 tt Hrun2).
      exact (ignore_permission_ok _ w2 w3 tt Hrun3).
    - apply (step_post_trans w w1 w3).
      { split; [exact Hsr1' | split; [exact Hwf1 |]]. rewrite HV1. apply store_eqv_except_refl. }
      apply (step_post_trans w1 w2 w3).
      { split; [exact Hsr2 | split; [exact Hwf2 | exact Heqv2]]. }
      eapply (upd_step_post w2 w3 p _ n3); [exact Hat2 | exact Hupd3 | reflexivity | exact H12].
    - exact (upd_res_lookup _ _ _ _ Hupd3).
    - simpl. exact Hperm2.
    - exact Huid3.
    - exact Hgid3.
  Qed.

  (* ---------------------------------------------------------------- *)
  (** * [lexists] *)

  Lemma lexists_spec_sec : lexists_stmt a V V' tn acc rh wh hid anc.
  Proof.
    intros _ w p Hq Hwf Hnlp. unfold lexists.
    destruct (V w !! p) as [n|] eqn:Hp.
    - destruct (law_lstat_some _ _ _ _ _ _ _ _ _ HLa w p n Hq Hwf Hnlp Hp)
        as (fi & (w' & Hrun & HV & Hsr) & _).
      exists w'. split; [| split; [exact HV | exact Hsr]].
      rewrite (bind_ok _ _ w w' (Ok fi) (try_ok _ w w' fi Hrun)). reflexivity.
    - destruct (law_lstat_none _ _ _ _ _ _ _ _ _ HLa w p Hq Hwf Hnlp Hp)
        as (e & w' & Hrun & Hnf & HV & Hsr).
      exists w'. split; [| split; [exact HV | exact Hsr]].
      rewrite (bind_ok _ _ w w' (Err e) (try_err _ w w' e Hrun)).
      unfold not_found in Hnf. rewrite Hnf. reflexivity.
  Qed.
End CopyProofs.

(* ------------------------------------------------------------------ *)
(** * The ancestor chain of a resolved path *)

Lemma cands_last (p : str) : cleaned p -> cands p = ancestors p ++ [p].
Proof.
  intros Hc. unfold ancestors.
  destruct (chain_spec p Hc) as (_ & Hlast & _ & Hin).
  rewrite (cands_chain p Hc).
  assert (Hne : chain p <> []).
  { intros E. assert (Hp : In p (chain p)) by (apply Hin; split; [exact Hc | left; reflexivity]).
    rewrite E in Hp. contradiction. }
  pose proof (@app_removelast_last _ (chain p) [] Hne) as E. rewrite Hlast in E. exact E.
Qed.

Lemma ancestors_not_self (p : str) : cleaned p -> ~ In p (ancestors p).
Proof.
  intros Hc. destruct (chain_spec p Hc) as (Hnd & _).
  rewrite <- (cands_chain p Hc), (cands_last p Hc) in Hnd.
  apply NoDup_remove_2 in Hnd. rewrite app_nil_r in Hnd. exact Hnd.
Qed.

Lemma ancestors_spec (p a : str) :
  cleaned p -> (In a (ancestors p) <-> cleaned a /\ ancestor a p).
Proof.
  intros Hc. destruct (chain_spec p Hc) as (_ & _ & _ & Hin).
  rewrite <- (cands_chain p Hc), (cands_last p Hc) in Hin. split.
  - intros Ha. destruct (proj1 (Hin a) (in_or_app _ _ _ (or_introl Ha))) as [Hca [E | Hanc]].
    + subst a. exfalso. exact (ancestors_not_self p Hc Ha).
    + split; assumption.
  - intros [Hca Hanc].
    destruct (in_app_or _ _ _ (proj2 (Hin a) (conj Hca (or_intror Hanc)))) as [Ha | [E | []]].
    + exact Ha.
    + exfalso. destruct Hanc as (Hne & _). apply Hne. symmetry. exact E.
Qed.

Lemma inside_antisym (b c : str) : cleaned b -> cleaned c -> inside b c -> inside c b -> b = c.
Proof.
  intros Hb Hc [Hab1 [r1 Hr1]] [Hab2 [r2 Hr2]].
  assert (E : r2 ++ r1 = []).
  { rewrite Hr2 in Hr1. rewrite <- app_assoc in Hr1.
    rewrite <- (app_nil_r (comps c)) in Hr1 at 1.
    apply app_inv_head in Hr1. symmetry. exact Hr1. }
  apply app_eq_nil in E. destruct E as [E2 E1]. subst r1 r2. rewrite app_nil_r in *.
  rewrite (cleaned_eq b Hb), (cleaned_eq c Hc). rewrite Hab1, Hr1. reflexivity.
Qed.

Lemma ancestor_trans (x y z : str) :
  cleaned x -> cleaned y -> ancestor x y -> ancestor y z -> ancestor x z.
Proof.
  intros Hx Hy (Hne1 & Hin1 & Hd1) (Hne2 & Hin2 & Hd2). split; [| split].
  - intros E. subst z. apply Hne1. apply inside_antisym; assumption.
  - eapply inside_trans; eassumption.
  - exact Hd1.
Qed.

(** every element of the chain of a resolved path is itself resolved *)
Lemma snolinkpar_cands (s : store) (n q : str) :
  snolinkpar s n -> In q (cands n) -> snolinkpar s q.
Proof.
  intros [[Hc Habs] Hf] Hq.
  destruct (chain_spec n Hc) as (_ & _ & _ & Hin).
  rewrite (cands_chain n Hc) in Hq. apply Hin in Hq. destruct Hq as [Hcq [E | Hanc]].
  - subst q. split; [split |]; assumption.
  - split.
    + split; [exact Hcq |]. destruct Hanc as (_ & [Hab _] & _). rewrite Hab. exact Habs.
    + apply Forall_forall. intros r Hr. apply (ancestors_spec q r Hcq) in Hr.
      destruct Hr as [Hcr Hancr].
      pose proof (ancestor_trans r q n Hcr Hcq Hancr Hanc) as Hrn.
      rewrite Forall_forall in Hf. apply Hf. apply (ancestors_spec n r Hc). split; assumption.
Qed.

(* ------------------------------------------------------------------ *)
(** * [real_path] on a resolved name *)

Section RealPath.
  Variable a : fsapi.
  Variables V V' : world -> store.
  Variable tn : str -> str.
  Variable acc : str -> str -> Prop.
  Variables rh wh : fhandle -> str -> nat -> Prop.
  Variables hid anc : str -> Prop.
  Hypothesis HLa : api_laws a V V' tn acc rh wh hid anc.

  Lemma resolve_loop_spec (n : str) : forall (l : list str) (w : world),
    l <> [] -> last l [] = n ->
    (forall q, In q l -> snolinkpar (V w) q) ->
    (forall q, In q (removelast l) -> snotlink (V w) q) ->
    quiet w -> swf (V w) ->
    exists w' o, resolve_loop a l (fun x => x) n w = (MOk (n, o), w') /\
                 V w' = V w /\ same_rest V' w w'.
  Proof.
    induction l as [|q rest IH]; intros w Hne Hlast Hnlp Hnl Hq Hwf.
    - contradiction Hne. reflexivity.
    - cbn [resolve_loop].
      pose proof (Hnlp q (in_eq q rest)) as Hnlpq.
      destruct (V w !! q) as [nd|] eqn:Hsq.
      + destruct (law_lstat_some _ _ _ _ _ _ _ _ _ HLa w q nd Hq Hwf Hnlpq Hsq)
          as (fi & (w1 & Hrun1 & HV1 & Hsr1) & (Hkind & _) & _).
        rewrite (bind_ok _ _ w w1 (Ok fi) (try_ok _ w w1 fi Hrun1)).
        pose proof (quiet_same_rest V' w w1 Hq Hsr1) as Hq1.
        destruct rest as [|q2 rest'].
        * simpl in Hlast. subst q.
          destruct nd as [m | m c | m t]; simpl in Hkind; rewrite Hkind.
          -- exists w1, (Some fi). split; [reflexivity | split; [exact HV1 | exact Hsr1]].
          -- exists w1, (Some fi). split; [reflexivity | split; [exact HV1 | exact Hsr1]].
          -- assert (Hwf1 : swf (V w1)) by (rewrite HV1; exact Hwf).
             assert (Hnlp1 : snolinkpar (V w1) n) by (rewrite HV1; exact Hnlpq).
             assert (Hs1 : V w1 !! n = Some (Link m t)) by (rewrite HV1; exact Hsq).
             destruct (law_readlink _ _ _ _ _ _ _ _ _ HLa w1 n m t Hq1 Hwf1 Hnlp1 Hs1)
               as (w2 & Hrun2 & HV2 & Hsr2).
             rewrite (bind_ok _ _ w1 w2 t Hrun2).
             exists w2, (Some fi). split; [reflexivity | split].
             ++ rewrite HV2. exact HV1.
             ++ eapply same_rest_trans; eassumption.
        * change (removelast (q :: q2 :: rest')) with (q :: removelast (q2 :: rest')) in Hnl.
          change (last (q :: q2 :: rest') []) with (last (q2 :: rest') []) in Hlast.
          assert (Hk : fi_kind fi <> KLink).
          { intros E. rewrite Hkind in E. destruct nd as [m | m c | m t]; try discriminate E.
            exact (Hnl q (in_eq _ _) m t Hsq). }
          destruct (IH w1) as (w2 & o & Hrun2 & HV2 & Hsr2).
          -- discriminate.
          -- exact Hlast.
          -- intros r Hr. rewrite HV1. apply Hnlp. right. exact Hr.
          -- intros r Hr. rewrite HV1. apply Hnl. right. exact Hr.
          -- exact Hq1.
          -- rewrite HV1. exact Hwf.
          -- exists w2, o. split; [| split].
             ++ destruct (fi_kind fi); [exact Hrun2 | exact Hrun2 | contradiction Hk; reflexivity].
             ++ rewrite HV2. exact HV1.
             ++ eapply same_rest_trans; eassumption.
      + destruct (law_lstat_none _ _ _ _ _ _ _ _ _ HLa w q Hq Hwf Hnlpq Hsq)
          as (e & w1 & Hrun1 & Hnf & HV1 & Hsr1).
        rewrite (bind_ok _ _ w w1 (Err e) (try_err _ w w1 e Hrun1)).
        unfold not_found in Hnf. rewrite Hnf.
        exists w1, None. split; [reflexivity | split; [exact HV1 | exact Hsr1]].
  Qed.

  Lemma real_path_resolved_spec_sec : real_path_resolved_stmt a V V' tn acc rh wh hid anc.
  Proof.
    unfold real_path_resolved_stmt. cbv zeta. intros _ w n Hq Hwf Hnlp.
    pose proof Hnlp as [[Hc Habs] Hf].
    assert (Hne : n <> []) by (apply cleaned_nonempty; exact Hc).
    destruct (resolve_loop_spec n (cands n) w) as (w' & o & Hrun & HV & Hsr).
    - rewrite (cands_last n Hc). intros E. apply app_eq_nil in E. destruct E as [_ E]. discriminate E.
    - rewrite (cands_last n Hc). apply last_last.
    - intros q Hin. eapply snolinkpar_cands; eassumption.
    - intros q Hin. rewrite Forall_forall in Hf. apply Hf. exact Hin.
    - exact Hq.
    - exact Hwf.
    - exists w'. split; [| split; [exact HV | exact Hsr]].
      unfold real_path. unfold cleaned in Hc. rewrite Hc.
      unfold resolve_path_with_info.
      destruct n as [|x n']; [contradiction Hne; reflexivity |].
      rewrite (bind_ok _ _ w w' (x :: n', o) Hrun). reflexivity.
  Qed.
End RealPath.

(* ------------------------------------------------------------------ *)
(** * The statements of Spec/CopySpecs.v *)

Lemma copy_dir_root_spec : forall a, copy_dir_root_stmt a.
Proof.
  intros a w fi Hk. unfold copy_dir, is_dir_info. rewrite Hk. reflexivity.
Qed.

Lemma copy_dir_badinfo_spec : forall a, copy_dir_badinfo_stmt a.
Proof.
  intros a w p fi Hk. exists EOther.
  apply (wrap_other_err _ w w EBadInfo).
  unfold is_dir_info. destruct (fi_kind fi); [contradiction Hk; reflexivity | reflexivity | reflexivity].
Qed.

Lemma copy_dir_spec : forall a V V' tn acc rh wh hid anc, copy_dir_stmt a V V' tn acc rh wh hid anc.
Proof.
  intros a V V' tn acc rh wh hid anc HLa. exact (copy_dir_spec_sec a V V' tn acc rh wh hid anc HLa HLa).
Qed.

Lemma copy_file_spec : forall a a' V V' tn tn' acc acc' rh rh' wh wh' hid hid' anc anc',
  copy_file_stmt a a' V V' tn tn' acc acc' rh rh' wh wh' hid hid' anc anc'.
Proof.
  intros a a' V V' tn tn' acc acc' rh rh' wh wh' hid hid' anc anc' HLa HLa'.
  exact (copy_file_spec_sec a a' V V' tn tn' acc acc' rh rh' wh wh' hid hid' anc anc' HLa HLa' HLa HLa').
Qed.

Lemma copy_symlink_spec : forall a a' V V' tn tn' acc acc' rh rh' wh wh' hid hid' anc anc',
  copy_symlink_stmt a a' V V' tn tn' acc acc' rh rh' wh wh' hid hid' anc anc'.
Proof.
  intros a a' V V' tn tn' acc acc' rh rh' wh wh' hid hid' anc anc' HLa HLa'.
  exact (copy_symlink_spec_sec a a' V V' tn tn' acc acc' rh rh' wh wh' hid hid' anc anc' HLa HLa' HLa HLa').
Qed.

Lemma lexists_spec : forall a V V' tn acc rh wh hid anc, lexists_stmt a V V' tn acc rh wh hid anc.
Proof.
  intros a V V' tn acc rh wh hid anc HLa. exact (lexists_spec_sec a V V' tn acc rh wh hid anc HLa HLa).
Qed.

Lemma real_path_resolved_spec : forall base Vb Vk tnb accb rhb whb hid anc,
  real_path_resolved_stmt base Vb Vk tnb accb rhb whb hid anc.
Proof.
  intros base Vb Vk tnb accb rhb whb hid anc HLb.
  exact (real_path_resolved_spec_sec base Vb Vk tnb accb rhb whb hid anc HLb HLb).
Qed.
