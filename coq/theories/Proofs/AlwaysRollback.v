(** At every instant of Rollback, started in any state satisfying the
    transaction invariant, the originals are recoverable
    ([rollback_always_stmt] of Spec/Always.v).

    Rollback first works on the base only (classification, removal of what
    did not exist, the three restoring passes): the backup is as it was and
    the base differs from what it was only at tracked paths - of which the
    originals have their copies in the backup ([IA], [recA]).  Only then
    does it remove the copies (passes 5-7): the base is back, the backup
    only loses entries ([IB], [recB]).

    The proof walks Proofs/BackupRollback.v once more, pass by pass, with the
    loop rule [collect_errs_safe]. *)
From stdpp Require Import gmap.
From BFS Require Import Spec.Always.
From BFS Require Import Path.PathSpec.
From BFS Require Import Proofs.PathFacts Proofs.C19Facts Proofs.RollbackFacts Proofs.BackupCopy
                        Proofs.BackupTry Proofs.BackupRollback Proofs.BackupC01
                        Proofs.AlwaysLib Proofs.AlwaysTry.

(* ------------------------------------------------------------------ *)
(** * The loop rule for [collect_errs] *)

Lemma collect_errs_safe_aux {A} (I : world -> Prop) (f : A -> M unit) (P : list A -> world -> Prop)
      (l : list A) :
  (forall done x todo w, l = done ++ x :: todo -> P done w ->
     (exists w', f x w = (MOk tt, w') /\ P (done ++ [x]) w') /\ safe I (f x) w) ->
  forall todo done w, l = done ++ todo -> P done w -> safe I (collect_errs f todo) w.
Proof.
  intros Hstep. induction todo as [|x todo IH]; intros done w Hl HP; [apply safe_ret |].
  destruct (Hstep done x todo w Hl HP) as [(w1 & Hrun & HP1) Hs].
  cbn [collect_errs].
  eapply safe_bind_ok; [exact (try_ok _ w w1 tt Hrun) | apply safe_try; exact Hs |].
  apply safe_bind_silent; [| intros es; apply silent_ret].
  apply (IH (done ++ [x]) w1); [rewrite <- app_assoc; exact Hl | exact HP1].
Qed.

Lemma collect_errs_safe {A} (I : world -> Prop) (f : A -> M unit) (P : list A -> world -> Prop)
      (l : list A) (w : world) :
  (forall done x todo w, l = done ++ x :: todo -> P done w ->
     (exists w', f x w = (MOk tt, w') /\ P (done ++ [x]) w') /\ safe I (f x) w) ->
  P [] w -> safe I (collect_errs f l) w.
Proof. intros Hstep HP. exact (collect_errs_safe_aux I f P l Hstep l [] w eq_refl HP). Qed.

Lemma lexists_safe (I : world -> Prop) (a : fsapi) (p : str) (w : world) :
  atomic (a_lstat a p) -> quiet w -> I w -> safe I (lexists a p) w.
Proof.
  intros Hat Hq HI. unfold lexists. apply safe_bind_silent.
  - apply safe_try. apply safe_call; assumption.
  - intros [fi | e]; [apply silent_ret |]. destruct (is_not_found e); [apply silent_ret | apply silent_fail].
Qed.

(* ------------------------------------------------------------------ *)
(** * A removal pass over one filesystem *)

Section RemovalSafe.
  Variable a : fsapi.
  Variables V V' : world -> store.
  Variable tn : str -> str.
  Variable acc : str -> str -> Prop.
  Variables rh wh : fhandle -> str -> nat -> Prop.
  Variables hid anc : str -> Prop.
  Hypothesis HLa : api_laws a V V' tn acc rh wh hid anc.
  Hypothesis HCa : api_crash_laws a V.

  Variable I : world -> Prop.

  Lemma try_rm_step_safe (s0 s' : store) (D : list str) (w : world) (p : str) :
    RInv V V' s0 s' D w -> snolinkpar s0 p ->
    (forall wq, RInv V V' s0 s' D wq -> I wq) -> safe I (try_rm a p) w.
  Proof.
    intros HR Hnlp HI.
    pose proof (RInv_snolinkpar V V' s0 s' D w p HR Hnlp) as Hnlp'.
    pose proof HR as (Hq & Hwf & _).
    destruct (lexists_spec a V V' tn acc rh wh hid anc HLa w p Hq Hwf Hnlp') as (w1 & Hrun1 & HV1 & Hsr1).
    pose proof (RInv_read V V' s0 s' D w w1 HR Hsr1 HV1) as HR1.
    unfold try_rm. eapply safe_bind_ok; [exact Hrun1 | |].
    - apply lexists_safe; [apply (claw_lstat _ _ HCa) | exact Hq | exact (HI w HR)].
    - apply safe_if_call; [apply (claw_remove _ _ HCa) | exact (proj1 HR1) | exact (HI w1 HR1)].
  Qed.

  Lemma remove_pass_safe (s0 s' : store) (D0 l : list str) (w : world) :
    RInv V V' s0 s' D0 w -> List.NoDup l ->
    (forall p, In p l -> p <> s_root /\ snolinkpar s0 p /\ s0 !! p <> None /\ ~ In p D0) ->
    (forall done p todo q n0, l = done ++ p :: todo -> s0 !! q = Some n0 ->
       In p (ancestors q) -> In q (D0 ++ done)) ->
    (forall p, In p l -> ~ anc p) ->
    (forall done wq, incl done l -> RInv V V' s0 s' (D0 ++ done) wq -> I wq) ->
    safe I (collect_errs (fun p => a_remove a p) l) w.
  Proof.
    intros HR Hnd Hl Hord Hna HI.
    apply (collect_errs_safe I (fun p => a_remove a p) (fun done w' => RInv V V' s0 s' (D0 ++ done) w') l w).
    - intros done p todo w1 El HR1.
      assert (Hin : In p l) by (rewrite El; apply in_or_app; right; left; reflexivity).
      assert (Hincl : incl done l) by (intros x Hx; rewrite El; apply in_or_app; left; exact Hx).
      destruct (Hl p Hin) as (Hne & Hnlp & Hex & HninD).
      assert (Hnin : ~ In p (D0 ++ done)).
      { intros Hi. apply in_app_or in Hi. destruct Hi as [Hi | Hi]; [exact (HninD Hi) |].
        rewrite El in Hnd. exact (nodup_mid_notin p done todo Hnd Hi). }
      assert (Hp : exists n, V w1 !! p = Some n).
      { destruct HR1 as (_ & _ & _ & Heqv & _). pose proof (Heqv p Hnin) as He.
        destruct (s0 !! p) as [n0|] eqn:Hs0; [| contradiction Hex; reflexivity].
        apply sonode_eqv_some_r in He. destruct He as (n' & Hn' & _). exists n'. exact Hn'. }
      destruct Hp as (n & Hp). split.
      + destruct (remove_step a V V' tn acc rh wh hid anc HLa s0 s' (D0 ++ done) w1 p n HR1 Hne Hnlp Hp)
          as (w2 & Hrun & HR2).
        * intros q n0 Hq Hanc. exact (Hord done p todo q n0 El Hq Hanc).
        * exact (Hna p Hin).
        * exists w2. split; [exact Hrun |]. rewrite app_assoc. exact HR2.
      + apply safe_call; [apply (claw_remove _ _ HCa) | exact (proj1 HR1) | exact (HI done w1 Hincl HR1)].
    - rewrite app_nil_r. exact HR.
  Qed.

  Lemma try_rm_pass_safe (s0 s' : store) (D0 l : list str) (w : world) :
    RInv V V' s0 s' D0 w ->
    (forall p, In p l -> p <> s_root /\ snolinkpar s0 p) ->
    (forall done p todo q n0, l = done ++ p :: todo -> s0 !! q = Some n0 ->
       In p (ancestors q) -> In q (D0 ++ done)) ->
    (forall p, In p l -> ~ anc p) ->
    (forall D wq, RInv V V' s0 s' D wq -> I wq) ->
    safe I (collect_errs (try_rm a) l) w.
  Proof.
    intros HR Hl Hord Hna HI.
    apply (collect_errs_safe I (try_rm a) (fun done w' => RInv V V' s0 s' (D0 ++ done) w') l w).
    - intros done p todo w1 El HR1.
      assert (Hin : In p l) by (rewrite El; apply in_or_app; right; left; reflexivity).
      destruct (Hl p Hin) as (Hne & Hnlp). split.
      + destruct (try_rm_step a V V' tn acc rh wh hid anc HLa s0 s' (D0 ++ done) w1 p HR1 Hne Hnlp) as (w2 & Hrun & HR2).
        * intros q n0 Hq Hanc. exact (Hord done p todo q n0 El Hq Hanc).
        * exact (Hna p Hin).
        * exists w2. split; [exact Hrun |]. rewrite app_assoc. exact HR2.
      + apply (try_rm_step_safe s0 s' (D0 ++ done) w1 p HR1 Hnlp). intros wq. apply HI.
    - rewrite app_nil_r. exact HR.
  Qed.
  (** [removeIfSymlink] where no link is: one Lstat *)
  Lemma remove_if_symlink_safe (w : world) (p : str) :
    quiet w -> swf (V w) -> snolinkpar (V w) p ->
    (forall n, V w !! p = Some n -> node_kind n <> KLink) -> I w ->
    safe I (remove_if_symlink a p) w.
  Proof.
    intros Hq Hwf Hnlp Hnl HI. unfold remove_if_symlink.
    assert (Hs : safe I (try_ (a_lstat a p)) w).
    { apply safe_try. apply safe_call; [apply (claw_lstat _ _ HCa) | exact Hq | exact HI]. }
    destruct (V w !! p) as [n|] eqn:Hp.
    - destruct (law_lstat_some _ _ _ _ _ _ _ _ _ HLa w p n Hq Hwf Hnlp Hp)
        as (fi & (w' & Hrun & HV & Hsr) & Him & _).
      eapply safe_bind_ok; [exact (try_ok _ w w' fi Hrun) | exact Hs |]. cbv beta iota.
      pose proof (Hnl n eq_refl) as Hk. rewrite <- (proj1 Him) in Hk.
      destruct (fi_kind fi); [apply safe_ret | apply safe_ret | contradiction Hk; reflexivity].
    - destruct (law_lstat_none _ _ _ _ _ _ _ _ _ HLa w p Hq Hwf Hnlp Hp)
        as (e & w' & Hrun & Hnf & HV & Hsr).
      eapply safe_bind_ok; [exact (try_err _ w w' e Hrun) | exact Hs |]. cbv beta iota.
      unfold not_found in Hnf. rewrite Hnf. apply safe_ret.
  Qed.
End RemovalSafe.

(* ------------------------------------------------------------------ *)
(** * Rollback *)

Section RollbackSafe.
  Variables base backup : fsapi.
  Variables Vb Vk : world -> store.
  Variables tnb tnk : str -> str.
  Variables accb acck : str -> str -> Prop.
  Variables rhb rhk whb whk : fhandle -> str -> nat -> Prop.
  Variables hid anc : str -> Prop.
  Variable B0 : store.
  Hypothesis HLb : api_laws base Vb Vk tnb accb rhb whb hid anc.
  Hypothesis HLk : api_laws backup Vk Vb tnk acck rhk whk nohid nohid.
  Hypothesis HCb : api_crash_laws base Vb.
  Hypothesis HCk : api_crash_laws backup Vk.
  Hypothesis Hlinks : links_ok tnb tnk accb acck B0.
  Hypothesis Hsmall : all_small B0.
  Hypothesis HwfB : swf B0.
  Hypothesis Hloc : loc_ok hid anc B0.

  Variable w0 : world.
  Hypothesis Hinv : Inv Vb Vk B0 w0.

  Local Notation infos := (w_infos w0).
  Local Notation recov := (recoverable Vb Vk B0).
  Local Notation lrm := (l_rm Vb w0).
  Local Notation lds := (l_ds w0).
  Local Notation lfs := (l_fs w0).
  Local Notation lls := (l_ls w0).

  (** the backup as it was, the base as it was at untracked paths *)
  Definition IA (wq : world) : Prop :=
    Vk wq = Vk w0 /\ forall p, infos !! p = None -> sonode_eqv (Vb wq !! p) (Vb w0 !! p).

  (** the base is back, the backup only lost entries *)
  Definition IB (wq : world) : Prop :=
    store_eqv (Vb wq) B0 /\ forall p, Vk wq !! p = None \/ sonode_eqv (Vk wq !! p) (Vk w0 !! p).

  Lemma recA (wq : world) : IA wq -> recov wq.
  Proof.
    intros [HVk Hun]. split.
    - intros p n0 Hp Hne. destruct (infos !! p) as [[fi|]|] eqn:E.
      + destruct (inv_some _ _ _ _ Hinv p fi E) as (n0' & Hn0' & _ & [Hr | (nk & Hk & Hc)]); [contradiction |].
        rewrite Hp in Hn0'. injection Hn0' as <-. right. exists nk. rewrite HVk. split; assumption.
      + pose proof (inv_none _ _ _ _ Hinv p E) as Hn. rewrite Hp in Hn. discriminate Hn.
      + left. pose proof (inv_untracked _ _ _ _ Hinv p E) as H. rewrite Hp in H.
        eapply sonode_eqv_trans; [exact (Hun p E) | exact H].
    - exists s_root. intros p nk Hne Hk. rewrite HVk in Hk.
      destruct (inv_backup_only _ _ _ _ Hinv p Hne) as (fi & E); [rewrite Hk; discriminate |].
      destruct (inv_some _ _ _ _ Hinv p fi E) as (n0 & Hn0 & _ & [Hr | (nk' & Hk' & Hc)]); [contradiction |].
      rewrite Hk in Hk'. injection Hk' as <-. exists n0. split; [exact Hn0 | left; exact Hc].
  Qed.

  Lemma recB (wq : world) : IB wq -> recov wq.
  Proof.
    intros [Hb Hk]. split.
    - intros p n0 Hp Hne. left. rewrite <- Hp. exact (Hb p Hne).
    - exists s_root. intros p nk Hne Hp. destruct (Hk p) as [Hn | He]; [rewrite Hn in Hp; discriminate Hp |].
      rewrite Hp in He. apply sonode_eqv_some_l in He. destruct He as (nk0 & Hk0 & He).
      destruct (inv_backup_only _ _ _ _ Hinv p Hne) as (fi & E); [rewrite Hk0; discriminate |].
      destruct (inv_some _ _ _ _ Hinv p fi E) as (n0 & Hn0 & _ & [Hr | (nk' & Hk' & Hc)]); [contradiction |].
      rewrite Hk0 in Hk'. injection Hk' as <-. exists n0. split; [exact Hn0 | left].
      eapply copy_of_eqv_r; eassumption.
  Qed.

  Lemma IA_views (w wq : world) : IA w -> Vb wq = Vb w -> Vk wq = Vk w -> IA wq.
  Proof. intros [H1 H2] E1 E2. split; [congruence | intros p Hp; rewrite E1; exact (H2 p Hp)]. Qed.

  (** the base changed at one tracked path *)
  Lemma IA_step (w wq : world) (p : str) :
    IA w -> infos !! p <> None -> Vk wq = Vk w -> store_eqv_except [p] (Vb wq) (Vb w) -> IA wq.
  Proof.
    intros [H1 H2] Hp E Heqv. split; [congruence |]. intros q Hq.
    eapply sonode_eqv_trans; [| exact (H2 q Hq)]. apply Heqv. intros [Eq | []]. subst q. exact (Hp Hq).
  Qed.

  Lemma IA_mid (w wq : world) (p : str) :
    IA w -> infos !! p <> None -> mid Vb Vk (fun _ => True) w p wq -> IA wq.
  Proof. intros HA Hp ((HVk & _) & Heqv & _). exact (IA_step w wq p HA Hp HVk Heqv). Qed.

  (** ** the classification: only Lstat on the base *)
  Lemma classify_safe : forall (l : list str) (w : world) (errs : list errno) (rm ds fs ls : list str),
    quiet w -> Vb w = Vb w0 -> Vk w = Vk w0 ->
    safe IA (mfold (classify_f base w0) l (errs, rm, ds, fs, ls)) w.
  Proof.
    induction l as [|p l IH]; intros w errs rm ds fs ls Hq HV HVk; [apply safe_ret |].
    destruct (classify_step base Vb Vk tnb accb rhb whb hid anc B0 HLb w0 Hinv p w errs rm ds fs ls Hq HV)
      as (w1 & Hrun1 & Hq1 & HV1 & HVk1).
    assert (HA : IA w).
    { split; [exact HVk | intros q _; rewrite HV; apply sonode_eqv_refl]. }
    cbn [mfold]. eapply safe_bind_ok; [exact Hrun1 | |].
    - unfold classify_f. destruct (infos !! p) as [[fi|]|].
      + destruct (str_eqb p s_root); [apply safe_ret |]. destruct (fi_kind fi); apply safe_ret.
      + apply safe_bind_silent.
        * apply safe_try. apply lexists_safe; [apply (claw_lstat _ _ HCb) | exact Hq | exact HA].
        * intros [[|] | e]; apply silent_ret.
      + apply safe_ret.
    - apply IH; [exact Hq1 | exact HV1 | congruence].
  Qed.

  (** ** the restoring passes *)
  Section RestoreSafe.
    Variable s1 : store.
    Hypothesis Hs1_keep : forall p, infos !! p <> Some None -> sonode_eqv (s1 !! p) (Vb w0 !! p).

    Local Notation prog := (Prog Vb Vk B0 w0 s1).

    Lemma Prog_IA (R : list str) (w : world) :
      (forall p, In p R -> infos !! p <> None) -> prog R w -> IA w.
    Proof.
      intros HR (_ & _ & HVk & _ & Hkeep). split; [exact HVk |]. intros p Hp.
      eapply sonode_eqv_trans; [apply Hkeep; intros Hin; exact (HR p Hin Hp) |].
      apply Hs1_keep. rewrite Hp. discriminate.
    Qed.

    Lemma dir_step_safe (R : list str) (w : world) (p : str) (fi : finfo) :
      prog R w -> infos !! p = Some (Some fi) -> p <> s_root -> fi_kind fi = KDir -> ~ In p R ->
      (forall a, In a (ancestors p) -> a <> s_root -> In a R) -> IA w ->
      safe IA (remove_if_symlink base p ;;; copy_dir base p fi) w.
    Proof.
      intros HP0 Hi Hne Hk Hnin Hanc HA0.
      destruct (some_orig Vb Vk B0 w0 Hinv p fi Hi) as (n0 & Hn0 & Him).
      destruct (info_ids_nonneg fi n0 Him) as [Hu Hg].
      (* removeIfSymlink: the entry, if there is one, is a directory *)
      pose proof HP0 as (Hq0 & Hwf0 & _ & _ & _).
      pose proof (sdirect_snolinkpar _ _ (prog_sdirect Vb Vk B0 HwfB w0 Hinv s1 R w p fi HP0 Hi Hanc)) as Hnlp0.
      assert (Hnl0 : forall n, Vb w !! p = Some n -> node_kind n <> KLink).
      { intros n Hp. rewrite (prog_kind Vb Vk B0 w0 Hinv s1 Hs1_keep R w p fi n HP0 Hnin Hi Hp), Hk. discriminate. }
      destruct (remove_if_symlink_nolink base Vb Vk tnb accb rhb whb hid anc HLb w p Hq0 Hwf0 Hnlp0 Hnl0)
        as (wr & Hris & HVr & Hsrr).
      eapply safe_bind_ok; [exact Hris | |].
      { exact (remove_if_symlink_safe base Vb Vk tnb accb rhb whb hid anc HLb HCb IA w p Hq0 Hwf0 Hnlp0 Hnl0 HA0). }
      pose proof (Prog_read Vb Vk B0 w0 s1 R w wr HP0 (quiet_same_rest Vk w wr Hq0 Hsrr) HVr (proj1 Hsrr)) as HP.
      pose proof (IA_views w wr HA0 HVr (proj1 Hsrr)) as HA.
      clear Hq0 Hwf0 Hnlp0 Hnl0 Hris HVr Hsrr HP0 HA0 w. rename wr into w.
      pose proof (prog_sdirect Vb Vk B0 HwfB w0 Hinv s1 R w p fi HP Hi Hanc) as Hdir.
      pose proof HP as (Hq & Hwf & HVk & _ & _).
      assert (Hcase : Vb w !! p = None \/ sdir (Vb w) p).
      { destruct (Vb w !! p) as [n|] eqn:Hp; [right | left; reflexivity].
        pose proof (prog_kind Vb Vk B0 w0 Hinv s1 Hs1_keep R w p fi n HP Hnin Hi Hp) as Hkn. rewrite Hk in Hkn.
        destruct n as [m | m c | m t]; simpl in Hkn; try discriminate Hkn.
        exists m. exact Hp. }
      eapply safe_mono;
        [| exact (copy_dir_safe base Vb Vk tnb accb rhb whb hid anc HLb HCb (fun _ => True) w p fi
                    Hq Hwf Hdir Hne Hk Hu Hg Hcase I (fun _ => I)
                    (orig_not_hid hid anc B0 Hloc p n0 Hn0))].
      intros wq Hm. apply (IA_mid w wq p HA); [rewrite Hi; discriminate | exact Hm].
    Qed.

    Lemma file_step_safe (R : list str) (w : world) (p : str) (fi : finfo) :
      prog R w -> infos !! p = Some (Some fi) -> p <> s_root -> fi_kind fi = KFile -> ~ In p R ->
      (forall a, In a (ancestors p) -> a <> s_root -> In a R) -> IA w ->
      safe IA (restore_file base backup p fi) w.
    Proof.
      intros HP Hi Hne Hk Hnin Hanc HA.
      assert (Htr : infos !! p <> None) by (rewrite Hi; discriminate).
      destruct (backup_node Vb Vk B0 w0 Hinv p fi Hi Hne) as (n0 & nk & Hn0 & Him & Hnk & Hcopy).
      destruct (info_ids_nonneg fi n0 Him) as [Hu Hg].
      assert (Hk0 : node_kind n0 = KFile) by (rewrite <- (proj1 Him); exact Hk).
      destruct n0 as [m0 | m0 c0 | m0 t0]; simpl in Hk0; try discriminate Hk0.
      simpl in Hcopy.
      destruct nk as [mk | mk ck | mk tk]; simpl in Hcopy; try contradiction.
      destruct Hcopy as [-> ->].
      pose proof HP as (Hq & Hwf & HVk & _ & _).
      pose proof (inv_wf_k Vb Vk B0 w0 Hinv) as Hwfk0.
      pose proof (swf_lookup_snolinkpar _ _ _ Hwfk0 Hnk) as Hnlpk0.
      assert (Hwfk : swf (Vk w)) by (rewrite HVk; exact Hwfk0).
      assert (Hpk : Vk w !! p = Some (File m0 c0)) by (rewrite HVk; exact Hnk).
      assert (Hnlpk : snolinkpar (Vk w) p) by (rewrite HVk; exact Hnlpk0).
      destruct (law_open_file _ _ _ _ _ _ _ _ _ HLk w p m0 c0 Hq Hwfk Hnlpk Hpk)
        as (h & (wa & Hopen & HVka & Hsra) & Hrh).
      pose proof (quiet_same_rest Vb w wa Hq Hsra) as Hqa.
      pose proof (Prog_read Vb Vk B0 w0 s1 R w wa HP Hqa (proj1 Hsra) HVka) as HPa.
      assert (Hpka : Vk wa !! p = Some (File m0 c0)) by (rewrite HVka; exact Hpk).
      destruct (law_hstat _ _ _ _ _ _ _ _ _ HLk wa h p 0%nat (File m0 c0) Hqa Hrh Hpka)
        as (fi2 & (wb & Hstat & HVkb & Hsrb) & Him2).
      pose proof (quiet_same_rest Vb wa wb Hqa Hsrb) as Hqb.
      pose proof (Prog_read Vb Vk B0 w0 s1 R wa wb HPa Hqb (proj1 Hsrb) HVkb) as HPb.
      assert (Hk2 : fi_kind fi2 = KFile) by exact (proj1 Him2).
      (* removeIfSymlink on the base: the entry, if there is one, is a regular file *)
      pose proof HPb as (_ & Hwfb1 & _ & _ & _).
      pose proof (sdirect_snolinkpar _ _ (prog_sdirect Vb Vk B0 HwfB w0 Hinv s1 R wb p fi HPb Hi Hanc)) as Hnlpb.
      assert (Hnlb : forall n, Vb wb !! p = Some n -> node_kind n <> KLink).
      { intros n Hp. rewrite (prog_kind Vb Vk B0 w0 Hinv s1 Hs1_keep R wb p fi n HPb Hnin Hi Hp), Hk. discriminate. }
      destruct (remove_if_symlink_nolink base Vb Vk tnb accb rhb whb hid anc HLb wb p Hqb Hwfb1 Hnlpb Hnlb)
        as (wr & Hris & HVr & Hsrr).
      pose proof (quiet_same_rest Vk wb wr Hqb Hsrr) as Hqr.
      pose proof (Prog_read Vb Vk B0 w0 s1 R wb wr HPb Hqr HVr (proj1 Hsrr)) as HPr.
      pose proof HPr as (_ & Hwfb & HVkb0 & _ & _).
      assert (Hwfkb : swf (Vk wr)) by (rewrite HVkb0; exact Hwfk0).
      assert (Hpkb : Vk wr !! p = Some (File m0 c0)) by (rewrite HVkb0; exact Hnk).
      pose proof (prog_sdirect Vb Vk B0 HwfB w0 Hinv s1 R wr p fi HPr Hi Hanc) as Hdir.
      assert (Hcase : Vb wr !! p = None \/ exists m1 c1, Vb wr !! p = Some (File m1 c1)).
      { destruct (Vb wr !! p) as [n|] eqn:Hp; [right | left; reflexivity].
        pose proof (prog_kind Vb Vk B0 w0 Hinv s1 Hs1_keep R wr p fi n HPr Hnin Hi Hp) as Hkn. rewrite Hk in Hkn.
        destruct n as [m | m c | m t]; simpl in Hkn; try discriminate Hkn.
        exists m, c. reflexivity. }
      destruct (copy_file_spec base backup Vb Vk tnb tnk accb acck rhb rhk whb whk hid nohid anc nohid HLb HLk
                  wr p fi h p m0 c0 Hqr Hwfb Hwfkb Hdir Hk Hu Hg Hcase Hrh Hpkb (Hsmall p m0 c0 Hn0)
                  (orig_not_hid hid anc B0 Hloc p _ Hn0))
        as (wc & m' & Hcp & (Hsrc & Hwfc & Heqvc) & Hpc & Hmeta & Hmt).
      pose proof (quiet_same_rest Vk wr wc Hqr Hsrc) as Hqc.
      (* the states before each call *)
      assert (HAa : IA wa) by (exact (IA_views w wa HA (proj1 Hsra) HVka)).
      assert (HAb : IA wb) by (exact (IA_views wa wb HAa (proj1 Hsrb) HVkb)).
      assert (HAr : IA wr) by (exact (IA_views wb wr HAb HVr (proj1 Hsrr))).
      assert (HAc : IA wc) by (exact (IA_step wr wc p HAr Htr (proj1 Hsrc) Heqvc)).
      unfold restore_file.
      eapply safe_bind_ok; [exact (try_ok _ w wa h Hopen) | |].
      { apply safe_try. apply safe_call; [apply (claw_open _ _ HCk) | exact Hq | exact HA]. }
      cbv beta iota.
      eapply safe_bind_ok; [exact (try_ok _ wa wb fi2 Hstat) | |].
      { apply safe_try. apply safe_call; [apply atomic_hstat | exact Hqa | exact HAa]. }
      cbv beta iota. rewrite Hk2.
      eapply safe_bind_ok; [reflexivity | apply safe_ret |]. cbv beta iota.
      eapply safe_bind_ok; [exact (try_ok _ wb wr tt Hris) | |].
      { apply safe_try.
        exact (remove_if_symlink_safe base Vb Vk tnb accb rhb whb hid anc HLb HCb IA wb p Hqb Hwfb1 Hnlpb Hnlb HAb). }
      cbv beta iota.
      eapply safe_bind_ok; [exact (try_ok _ wr wc tt Hcp) | |].
      { apply safe_try. eapply safe_mono;
          [| exact (copy_file_safe base backup Vb Vk tnb tnk accb acck rhb rhk whb whk hid nohid anc nohid HLb HLk HCb
                      (fun _ => True) wr p fi h p m0 c0 Hqr Hwfb Hwfkb Hdir Hk Hu Hg Hcase Hrh Hpkb
                      (Hsmall p m0 c0 Hn0) I (fun _ _ _ => I) (orig_not_hid hid anc B0 Hloc p _ Hn0))].
        intros wq Hm. exact (IA_mid wr wq p HAr Htr Hm). }
      apply safe_bind_silent; [| intros x; apply silent_lift_res].
      apply safe_try. apply safe_call; [apply atomic_hclose | exact Hqc | exact HAc].
    Qed.

    Lemma link_step_safe (R : list str) (w : world) (p : str) (fi : finfo) :
      prog R w -> infos !! p = Some (Some fi) -> p <> s_root -> fi_kind fi = KLink -> ~ In p R ->
      (forall a, In a (ancestors p) -> a <> s_root -> In a R) -> IA w ->
      safe IA (restore_symlink base backup p fi) w.
    Proof.
      intros HP Hi Hne Hk Hnin Hanc HA.
      assert (Htr : infos !! p <> None) by (rewrite Hi; discriminate).
      destruct (backup_node Vb Vk B0 w0 Hinv p fi Hi Hne) as (n0 & nk & Hn0 & Him & Hnk & Hcopy).
      destruct (info_ids_nonneg fi n0 Him) as [Hu Hg].
      assert (Hk0 : node_kind n0 = KLink) by (rewrite <- (proj1 Him); exact Hk).
      destruct n0 as [m0 | m0 c0 | m0 t0]; simpl in Hk0; try discriminate Hk0.
      simpl in Hcopy.
      destruct nk as [mk | mk ck | mk tk]; simpl in Hcopy; try contradiction.
      destruct Hcopy as [Hmk ->].
      destruct (Hlinks p m0 t0 Hn0) as (Htnb & _ & Htne & Haccb & _ & H511).
      pose proof HP as (Hq & Hwf & HVk & _ & _).
      pose proof (inv_wf_k Vb Vk B0 w0 Hinv) as Hwfk0.
      pose proof (swf_lookup_snolinkpar _ _ _ Hwfk0 Hnk) as Hnlpk0.
      assert (Hwfk : swf (Vk w)) by (rewrite HVk; exact Hwfk0).
      assert (Hnlpk : snolinkpar (Vk w) p) by (rewrite HVk; exact Hnlpk0).
      destruct (lexists_spec backup Vk Vb tnk acck rhk whk nohid nohid HLk w p Hq Hwfk Hnlpk)
        as (wa & Hex1 & HVka & Hsra).
      rewrite HVk, Hnk in Hex1.
      pose proof (quiet_same_rest Vb w wa Hq Hsra) as Hqa.
      pose proof (Prog_read Vb Vk B0 w0 s1 R w wa HP Hqa (proj1 Hsra) HVka) as HPa.
      pose proof (prog_sdirect Vb Vk B0 HwfB w0 Hinv s1 R wa p fi HPa Hi Hanc) as Hdira.
      pose proof HPa as (_ & Hwfa & HVka0 & _ & _).
      destruct (lexists_spec base Vb Vk tnb accb rhb whb hid anc HLb wa p Hqa Hwfa (sdirect_snolinkpar _ _ Hdira))
        as (wb & Hex2 & HVb & Hsrb).
      pose proof (quiet_same_rest Vk wa wb Hqa Hsrb) as Hqb.
      pose proof (Prog_read Vb Vk B0 w0 s1 R wa wb HPa Hqb HVb (proj1 Hsrb)) as HPb.
      pose proof HPb as (_ & Hwfb & HVkb0 & _ & _).
      pose proof (prog_sdirect Vb Vk B0 HwfB w0 Hinv s1 R wb p fi HPb Hi Hanc) as Hdirb.
      assert (Hrm : exists wc,
                 (if match Vb wa !! p with Some _ => true | None => false end
                  then a_removeall base p else ret tt) wb = (MOk tt, wc) /\
                 quiet wc /\ swf (Vb wc) /\ Vk wc = Vk w0 /\ Vb wc !! p = None /\
                 store_eqv_except [p] (Vb wc) (Vb wb)).
      { rewrite <- HVb. destruct (Vb wb !! p) as [n|] eqn:Hp.
        - pose proof (prog_kind Vb Vk B0 w0 Hinv s1 Hs1_keep R wb p fi n HPb Hnin Hi Hp) as Hkn.
          assert (Hnd : node_kind n <> KDir) by (rewrite Hkn, Hk; discriminate).
          destruct (law_removeall_leaf _ _ _ _ _ _ _ _ _ HLb wb p n Hqb Hwfb
                      (sdirect_snolinkpar _ _ Hdirb) Hp Hnd Hne)
            as (s2 & (wc & Hrun & HVc & Hsrc) & Hnone & Heqv & Hwfc).
          subst s2. exists wc. split; [exact Hrun |].
          split; [eapply quiet_same_rest; eassumption |].
          split; [exact Hwfc |].
          split; [rewrite (proj1 Hsrc); exact HVkb0 |].
          split; [exact Hnone | exact Heqv].
        - exists wb. split; [reflexivity |].
          split; [exact Hqb | split; [exact Hwfb | split; [exact HVkb0 | split; [exact Hp |]]]].
          apply store_eqv_except_refl. }
      destruct Hrm as (wc & Hrmrun & Hqc & Hwfc & HVkc & Hpc & Heqvc).
      assert (Hwfkc : swf (Vk wc)) by (rewrite HVkc; exact Hwfk0).
      assert (Hnlpkc : snolinkpar (Vk wc) p) by (rewrite HVkc; exact Hnlpk0).
      assert (Hpkc : Vk wc !! p = Some (Link mk t0)) by (rewrite HVkc; exact Hnk).
      pose proof (sdirect_eqv_except_self _ _ p Hdirb Heqvc) as Hdirc.
      (* the states before each call *)
      assert (HAa : IA wa) by (exact (IA_views w wa HA (proj1 Hsra) HVka)).
      assert (HAb : IA wb) by (exact (IA_views wa wb HAa HVb (proj1 Hsrb))).
      assert (HAc : IA wc) by (apply (IA_step wb wc p HAb Htr); [congruence | exact Heqvc]).
      unfold restore_symlink.
      eapply safe_bind_ok; [exact Hex1 | |].
      { apply lexists_safe; [apply (claw_lstat _ _ HCk) | exact Hq | exact HA]. }
      change (negb true) with false. cbv iota.
      eapply safe_bind_ok; [exact Hex2 | |].
      { apply lexists_safe; [apply (claw_lstat _ _ HCb) | exact Hqa | exact HAa]. }
      cbv beta.
      eapply safe_bind_ok; [exact Hrmrun | |].
      { apply safe_if_call; [apply (claw_removeall _ _ HCb) | exact Hqb | exact HAb]. }
      eapply safe_mono;
        [| exact (copy_symlink_safe base backup Vb Vk tnb tnk accb acck rhb rhk whb whk hid nohid anc nohid HLb HLk HCb HCk
                    (fun _ => True) wc p fi mk t0 Hqc Hwfc Hwfkc Hnlpkc Hpkc Hdirc Hpc Hk Htne Haccb
                    I (fun _ => I) (orig_not_hid hid anc B0 Hloc p _ Hn0))].
      intros wq Hm. exact (IA_mid wc wq p HAc Htr Hm).
    Qed.

    Lemma ds_tracked (p : str) : In p lds -> infos !! p <> None.
    Proof. intros Hp. apply in_k in Hp. destruct Hp as (fi & Hi & _). rewrite Hi. discriminate. Qed.
    Lemma fs_tracked (p : str) : In p lfs -> infos !! p <> None.
    Proof. intros Hp. apply in_k in Hp. destruct Hp as (fi & Hi & _). rewrite Hi. discriminate. Qed.
    Lemma ls_tracked (p : str) : In p lls -> infos !! p <> None.
    Proof. intros Hp. apply in_k in Hp. destruct Hp as (fi & Hi & _). rewrite Hi. discriminate. Qed.

    Lemma dirs_pass_safe (w : world) :
      prog [] w ->
      safe IA (collect_errs (fun p => match info_of_key infos p with
                                      | Some fi => remove_if_symlink base p ;;; copy_dir base p fi
                                      | None => fail EOther end) (sort_least lds)) w.
    Proof.
      intros HP.
      apply (collect_errs_safe IA _ (fun done w' => prog done w' /\ incl done lds) (sort_least lds) w).
      - intros done p todo w1 El [HP1 Hincl].
        assert (Hin : In p (sort_least lds)) by (rewrite El; apply in_or_app; right; left; reflexivity).
        apply isort_in in Hin. pose proof Hin as Hin'. apply in_k in Hin'.
        destruct Hin' as (fi & Hi & Hne & Hk).
        rewrite (info_of_key_some w0 p fi Hi).
        pose proof (isort_nodup least lds (l_k_nodup w0 KDir)) as Hnd.
        fold (sort_least lds) in Hnd. rewrite El in Hnd.
        assert (Hanc : forall a, In a (ancestors p) -> a <> s_root -> In a done).
        { intros a Ha Hane.
          apply (least_order lds done todo p a (l_k_nodup w0 KDir) (l_k_cleaned Vb Vk B0 w0 Hinv KDir) El Hin
                   (anc_in_ds Vb Vk B0 HwfB w0 Hinv p fi a Hi Ha Hane)).
          apply (ancestors_spec p a); [apply (tracked_cleaned Vb Vk B0 w0 Hinv); congruence | exact Ha]. }
        pose proof (nodup_mid_notin p done todo Hnd) as Hnin.
        assert (HA1 : IA w1).
        { apply (Prog_IA done w1); [| exact HP1]. intros q Hq. exact (ds_tracked q (Hincl q Hq)). }
        split.
        + destruct (dir_step base Vb Vk tnb accb rhb whb hid anc B0 HLb HwfB Hloc w0 Hinv s1 Hs1_keep
                      done w1 p fi HP1 Hi Hne Hk Hnin Hanc) as (w2 & Hrun & HP2).
          exists w2. split; [exact Hrun | split; [exact HP2 |]].
          intros q Hq. apply in_app_or in Hq. destruct Hq as [Hq | [<- | []]]; [exact (Hincl q Hq) | exact Hin].
        + exact (dir_step_safe done w1 p fi HP1 Hi Hne Hk Hnin Hanc HA1).
      - split; [exact HP | intros q []].
    Qed.

    Lemma files_pass_safe (w : world) :
      prog lds w ->
      safe IA (collect_errs (fun p => match info_of_key infos p with
                                      | Some fi => restore_file base backup p fi
                                      | None => fail EOther end) (sort_strings lfs)) w.
    Proof.
      intros HP.
      apply (collect_errs_safe IA _ (fun done w' => prog (lds ++ done) w' /\ incl done lfs)
               (sort_strings lfs) w).
      - intros done p todo w1 El [HP1 Hincl].
        assert (Hin : In p (sort_strings lfs)) by (rewrite El; apply in_or_app; right; left; reflexivity).
        apply isort_in in Hin. pose proof Hin as Hin'. apply in_k in Hin'.
        destruct Hin' as (fi & Hi & Hne & Hk).
        rewrite (info_of_key_some w0 p fi Hi).
        pose proof (isort_nodup str_ltb lfs (l_k_nodup w0 KFile)) as Hnd.
        fold (sort_strings lfs) in Hnd. rewrite El in Hnd.
        assert (Hnin : ~ In p (lds ++ done)).
        { intros Hc. apply in_app_or in Hc. destruct Hc as [Hc | Hc].
          - apply in_k in Hc. destruct Hc as (fi' & Hi' & _ & Hk'). congruence.
          - exact (nodup_mid_notin p done todo Hnd Hc). }
        assert (Hanc : forall a, In a (ancestors p) -> a <> s_root -> In a (lds ++ done)).
        { intros a Ha Hane. apply in_or_app. left. exact (anc_in_ds Vb Vk B0 HwfB w0 Hinv p fi a Hi Ha Hane). }
        assert (HA1 : IA w1).
        { apply (Prog_IA (lds ++ done) w1); [| exact HP1]. intros q Hq. apply in_app_or in Hq.
          destruct Hq as [Hq | Hq]; [exact (ds_tracked q Hq) | exact (fs_tracked q (Hincl q Hq))]. }
        split.
        + destruct (file_step base backup Vb Vk tnb tnk accb acck rhb rhk whb whk hid anc B0 HLb HLk Hsmall HwfB Hloc
                      w0 Hinv s1 Hs1_keep (lds ++ done) w1 p fi HP1 Hi Hne Hk Hnin Hanc) as (w2 & Hrun2 & HP2).
          exists w2. split; [exact Hrun2 | split; [rewrite app_assoc; exact HP2 |]].
          intros q Hq. apply in_app_or in Hq. destruct Hq as [Hq | [<- | []]]; [exact (Hincl q Hq) | exact Hin].
        + exact (file_step_safe (lds ++ done) w1 p fi HP1 Hi Hne Hk Hnin Hanc HA1).
      - split; [rewrite app_nil_r; exact HP | intros q []].
    Qed.

    Lemma links_pass_safe (w : world) :
      prog (lds ++ lfs) w ->
      safe IA (collect_errs (fun p => match info_of_key infos p with
                                      | Some fi => restore_symlink base backup p fi
                                      | None => fail EOther end) (sort_strings lls)) w.
    Proof.
      intros HP.
      apply (collect_errs_safe IA _ (fun done w' => prog ((lds ++ lfs) ++ done) w' /\ incl done lls)
               (sort_strings lls) w).
      - intros done p todo w1 El [HP1 Hincl].
        assert (Hin : In p (sort_strings lls)) by (rewrite El; apply in_or_app; right; left; reflexivity).
        apply isort_in in Hin. pose proof Hin as Hin'. apply in_k in Hin'.
        destruct Hin' as (fi & Hi & Hne & Hk).
        rewrite (info_of_key_some w0 p fi Hi).
        pose proof (isort_nodup str_ltb lls (l_k_nodup w0 KLink)) as Hnd.
        fold (sort_strings lls) in Hnd. rewrite El in Hnd.
        assert (Hnin : ~ In p ((lds ++ lfs) ++ done)).
        { intros Hc. apply in_app_or in Hc. destruct Hc as [Hc | Hc].
          - apply in_app_or in Hc. destruct Hc as [Hc | Hc];
              apply in_k in Hc; destruct Hc as (fi' & Hi' & _ & Hk'); congruence.
          - exact (nodup_mid_notin p done todo Hnd Hc). }
        assert (Hanc : forall a, In a (ancestors p) -> a <> s_root -> In a ((lds ++ lfs) ++ done)).
        { intros a Ha Hane. apply in_or_app. left. apply in_or_app. left.
          exact (anc_in_ds Vb Vk B0 HwfB w0 Hinv p fi a Hi Ha Hane). }
        assert (HA1 : IA w1).
        { apply (Prog_IA ((lds ++ lfs) ++ done) w1); [| exact HP1]. intros q Hq. apply in_app_or in Hq.
          destruct Hq as [Hq | Hq]; [| exact (ls_tracked q (Hincl q Hq))].
          apply in_app_or in Hq. destruct Hq as [Hq | Hq]; [exact (ds_tracked q Hq) | exact (fs_tracked q Hq)]. }
        split.
        + destruct (link_step base backup Vb Vk tnb tnk accb acck rhb rhk whb whk hid anc B0 HLb HLk Hlinks HwfB Hloc
                      w0 Hinv s1 Hs1_keep ((lds ++ lfs) ++ done) w1 p fi HP1 Hi Hne Hk Hnin Hanc)
            as (w2 & Hrun2 & HP2).
          exists w2. split; [exact Hrun2 | split; [rewrite app_assoc; exact HP2 |]].
          intros q Hq. apply in_app_or in Hq. destruct Hq as [Hq | [<- | []]]; [exact (Hincl q Hq) | exact Hin].
        + exact (link_step_safe ((lds ++ lfs) ++ done) w1 p fi HP1 Hi Hne Hk Hnin Hanc HA1).
      - split; [rewrite app_nil_r; exact HP | intros q []].
    Qed.
  End RestoreSafe.

  (** ** Assembly *)
  Lemma rollback_safe : safe recov (b_rollback base backup) w0.
  Proof.
    pose proof (inv_quiet Vb Vk B0 w0 Hinv) as Hq0.
    pose proof (inv_wf_b Vb Vk B0 w0 Hinv) as Hwfb0.
    pose proof (inv_wf_k Vb Vk B0 w0 Hinv) as Hwfk0.
    destruct (classify_spec base Vb Vk tnb accb rhb whb hid anc B0 HLb w0 Hinv (rkeys w0) w0 [] [] [] [] []
                Hq0 eq_refl) as (wc & Hcls & Hqc & HVc & HVkc).
    simpl app in Hcls. fold lrm lds lfs lls in Hcls.
    assert (HR0 : RInv Vb Vk (Vb w0) (Vk w0) [] wc).
    { split; [exact Hqc |]. rewrite HVc. split; [exact Hwfb0 |]. split; [exact HVkc |].
      split; [apply store_eqv_except_refl | intros p []]. }
    destruct (remove_pass base Vb Vk tnb accb rhb whb hid anc HLb (Vb w0) (Vk w0) [] (sort_most lrm) wc HR0
                (isort_nodup most lrm (l_rm_nodup Vb w0)) (rm_elem Vb Vk B0 HwfB w0 Hinv)
                (rm_order Vb Vk B0 HwfB w0 Hinv) (rm_not_anc Vb Vk hid anc B0 Hloc w0 Hinv))
      as (w1 & Hp1 & HR1).
    simpl app in HR1.
    pose proof HR1 as (Hq1 & Hwf1 & HVk1 & Heqv1 & Hnone1).
    assert (Hs1_none : forall p, infos !! p = Some None -> Vb w1 !! p = None).
    { intros p Hi. destruct (Vb w0 !! p) as [n|] eqn:Hp.
      - apply Hnone1. apply isort_in. apply in_rm. split; [exact Hi | congruence].
      - exact (RInv_none Vb Vk (Vb w0) (Vk w0) _ w1 p HR1 Hp). }
    assert (Hs1_keep : forall p, infos !! p <> Some None -> sonode_eqv (Vb w1 !! p) (Vb w0 !! p)).
    { intros p Hi. apply Heqv1. intros Hin. apply isort_in in Hin. apply in_rm in Hin.
      apply Hi. exact (proj1 Hin). }
    assert (HP1 : Prog Vb Vk B0 w0 (Vb w1) [] w1).
    { split; [exact Hq1 | split; [exact Hwf1 | split; [exact HVk1 | split]]].
      - intros p [].
      - intros p _. apply sonode_eqv_refl. }
    destruct (dirs_pass base Vb Vk tnb accb rhb whb hid anc B0 HLb HwfB Hloc w0 Hinv (Vb w1) Hs1_keep w1 HP1)
      as (w2 & Hp2 & HP2).
    destruct (files_pass base backup Vb Vk tnb tnk accb acck rhb rhk whb whk hid anc B0 HLb HLk Hsmall HwfB Hloc
                w0 Hinv (Vb w1) Hs1_keep w2 HP2) as (w3 & Hp3 & HP3).
    destruct (links_pass base backup Vb Vk tnb tnk accb acck rhb rhk whb whk hid anc B0 HLb HLk Hlinks HwfB Hloc
                w0 Hinv (Vb w1) Hs1_keep w3 HP3) as (w4 & Hp4 & HP4).
    pose proof (prog_final Vb Vk B0 w0 Hinv (Vb w1) Hs1_none Hs1_keep w4 HP4) as Hfinal.
    pose proof HP4 as (Hq4 & Hwf4 & HVk4 & _ & _).
    assert (HRk0 : RInv Vk Vb (Vk w0) (Vb w4) [] w4).
    { split; [exact Hq4 |]. rewrite HVk4. split; [exact Hwfk0 |]. split; [reflexivity |].
      split; [apply store_eqv_except_refl | intros p []]. }
    assert (HneL : KLink <> KDir) by discriminate.
    assert (HneF : KFile <> KDir) by discriminate.
    destruct (try_rm_pass backup Vk Vb tnk acck rhk whk nohid nohid HLk (Vk w0) (Vb w4) [] (sort_most lls) w4 HRk0
                (bk_elem Vb Vk B0 w0 Hinv KLink) (bk_leaf_order Vb Vk B0 w0 Hinv KLink [] HneL)
                (fun p _ => not_nohid p))
      as (w5 & Hp5 & HR5).
    apply (RInv_ext Vk Vb (Vk w0) (Vb w4) _ lls) in HR5;
      [| intros x; simpl; apply isort_in].
    destruct (try_rm_pass backup Vk Vb tnk acck rhk whk nohid nohid HLk (Vk w0) (Vb w4) lls (sort_most lfs) w5 HR5
                (bk_elem Vb Vk B0 w0 Hinv KFile) (bk_leaf_order Vb Vk B0 w0 Hinv KFile lls HneF)
                (fun p _ => not_nohid p))
      as (w6 & Hp6 & HR6).
    apply (RInv_ext Vk Vb (Vk w0) (Vb w4) _ (lls ++ lfs)) in HR6;
      [| intros x; rewrite !in_app_iff; unfold sort_most; rewrite isort_in; reflexivity].
    destruct (try_rm_pass backup Vk Vb tnk acck rhk whk nohid nohid HLk (Vk w0) (Vb w4) (lls ++ lfs)
                (sort_most lds) w6 HR6 (bk_elem Vb Vk B0 w0 Hinv KDir) (bk_dir_order Vb Vk B0 w0 Hinv)
                (fun p _ => not_nohid p))
      as (w7 & Hp7 & HR7).
    (* the states inside the passes *)
    assert (HIB : forall D wq, RInv Vk Vb (Vk w0) (Vb w4) D wq -> recov wq).
    { intros D wq HR. apply recB. pose proof HR as (_ & _ & HVbq & _). split.
      - rewrite HVbq. exact Hfinal.
      - exact (RInv_rel Vk Vb (Vk w0) (Vb w4) D wq HR). }
    assert (HIA1 : forall done wq, incl done (sort_most lrm) ->
                     RInv Vb Vk (Vb w0) (Vk w0) ([] ++ done) wq -> recov wq).
    { intros done wq Hincl (_ & _ & HVkq & Heqvq & _). apply recA. split; [exact HVkq |].
      intros p Hp. apply Heqvq. simpl. intros Hin. apply Hincl in Hin. apply isort_in in Hin.
      apply in_rm in Hin. destruct Hin as [Hi _]. rewrite Hi in Hp. discriminate Hp. }
    unfold b_rollback.
    eapply safe_bind_ok; [reflexivity | apply silent_safe; apply silent_get_infos |]. cbv beta zeta.
    eapply safe_bind_ok; [exact Hcls | |].
    { eapply safe_mono; [exact recA |].
      exact (classify_safe (rkeys w0) w0 [] [] [] [] [] Hq0 eq_refl eq_refl). }
    cbv beta iota zeta.
    eapply safe_bind_ok; [exact Hp1 | |].
    { exact (remove_pass_safe base Vb Vk tnb accb rhb whb hid anc HLb HCb recov (Vb w0) (Vk w0) [] (sort_most lrm) wc HR0
               (isort_nodup most lrm (l_rm_nodup Vb w0)) (rm_elem Vb Vk B0 HwfB w0 Hinv)
               (rm_order Vb Vk B0 HwfB w0 Hinv) (rm_not_anc Vb Vk hid anc B0 Hloc w0 Hinv) HIA1). }
    cbv beta iota zeta.
    eapply safe_bind_ok; [exact Hp2 | |].
    { eapply safe_mono; [exact recA | exact (dirs_pass_safe (Vb w1) Hs1_keep w1 HP1)]. }
    cbv beta iota zeta.
    eapply safe_bind_ok; [exact Hp3 | |].
    { eapply safe_mono; [exact recA | exact (files_pass_safe (Vb w1) Hs1_keep w2 HP2)]. }
    cbv beta iota zeta.
    eapply safe_bind_ok; [exact Hp4 | |].
    { eapply safe_mono; [exact recA | exact (links_pass_safe (Vb w1) Hs1_keep w3 HP3)]. }
    cbv beta iota zeta.
    unfold try_remove_backup_paths.
    eapply safe_bind_ok; [exact Hp5 | |].
    { exact (try_rm_pass_safe backup Vk Vb tnk acck rhk whk nohid nohid HLk HCk recov (Vk w0) (Vb w4) [] (sort_most lls) w4 HRk0
               (bk_elem Vb Vk B0 w0 Hinv KLink) (bk_leaf_order Vb Vk B0 w0 Hinv KLink [] HneL)
               (fun p _ => not_nohid p) HIB). }
    cbv beta iota zeta.
    eapply safe_bind_ok; [exact Hp6 | |].
    { exact (try_rm_pass_safe backup Vk Vb tnk acck rhk whk nohid nohid HLk HCk recov (Vk w0) (Vb w4) lls (sort_most lfs) w5 HR5
               (bk_elem Vb Vk B0 w0 Hinv KFile) (bk_leaf_order Vb Vk B0 w0 Hinv KFile lls HneF)
               (fun p _ => not_nohid p) HIB). }
    cbv beta iota zeta.
    eapply safe_bind_ok; [exact Hp7 | |].
    { exact (try_rm_pass_safe backup Vk Vb tnk acck rhk whk nohid nohid HLk HCk recov (Vk w0) (Vb w4) (lls ++ lfs)
               (sort_most lds) w6 HR6 (bk_elem Vb Vk B0 w0 Hinv KDir) (bk_dir_order Vb Vk B0 w0 Hinv)
               (fun p _ => not_nohid p) HIB). }
    cbv beta iota zeta.
    apply safe_bind_silent; [apply silent_safe; apply silent_put_infos |].
    intros x. apply silent_ret.
  Qed.
End RollbackSafe.

(* ------------------------------------------------------------------ *)
(** * The theorems, as stated in Spec/Always.v *)

Theorem rollback_always :
  forall base backup Vb Vk tnb tnk accb acck rhb rhk whb whk hid anc B0,
  rollback_always_stmt base backup Vb Vk tnb tnk accb acck rhb rhk whb whk hid anc B0.
Proof.
  intros base backup Vb Vk tnb tnk accb acck rhb rhk whb whk hid anc B0.
  unfold rollback_always_stmt. cbv zeta. intros HLb HLk HCb HCk Hlinks Hsmall HwfB Hloc w HI.
  apply (safe_always (recoverable Vb Vk B0) (recoverable Vb Vk B0) _ w
           (rollback_safe base backup Vb Vk tnb tnk accb acck rhb rhk whb whk hid anc B0
              HLb HLk HCb HCk Hlinks Hsmall HwfB Hloc w HI)).
  - intros w1 E.
    destruct (rollback_spec base backup Vb Vk tnb tnk accb acck rhb rhk whb whk hid anc B0
                HLb HLk Hlinks Hsmall HwfB Hloc w HI) as (w' & Hrun & _).
    rewrite Hrun in E. discriminate E.
  - intros x Hx. exact (proj1 (recoverable_set_crash base backup Vb Vk B0 HCb HCk x None) Hx).
Qed.

(** a history of covered operations followed by Rollback, started with a
    crash point: wherever it stops *)
Theorem run_rollback_always :
  forall base backup Vb Vk tnb tnk accb acck rhb rhk whb whk hid anc B0,
  run_rollback_always_stmt base backup Vb Vk tnb tnk accb acck rhb rhk whb whk hid anc B0.
Proof.
  intros base backup Vb Vk tnb tnk accb acck rhb rhk whb whk hid anc B0.
  unfold run_rollback_always_stmt. cbv zeta.
  intros HLb HLb2 HLk HCb HCk Hsmall w0 ops w Hinit Hrun k outs wh Hk.
  pose proof Hinit as (_ & _ & _ & HwfB & Hlinks & _ & _).
  pose proof (initial_inv_spec Vb Vk tnb tnk accb acck B0 w0 Hinit) as HI0.
  pose proof (initial_loc_ok base Vb Vk tnb tnk accb acck rhb whb hid anc B0 HLb w0 Hinit) as Hloc.
  pose proof (good_run_inv base backup Vb Vk tnb tnk accb acck rhb rhk whb whk hid anc B0
                HLb HLb2 HLk Hlinks Hsmall HwfB w0 ops w Hrun HI0) as HI.
  (* the run of [ops ++ [ORollback]] is the run of [ops], then Rollback *)
  assert (Happ : forall l wa, run_ops base backup (l ++ [ORollback]) wa =
            let '(xs, wb) := run_ops base backup l wa in
            if existsb (fun x => match x with MHalt => true | _ => false end) xs then (xs, wb)
            else match step base backup ORollback wb with
                 | (MHalt, w') => (xs ++ [MHalt], w')
                 | (x, w') => (xs ++ [x], w')
                 end).
  { induction l as [|o l IHl]; intros wa.
    - cbn [app run_ops existsb]. destruct (step base backup ORollback wa) as [[a | e |] w']; reflexivity.
    - cbn [app run_ops]. destruct (step base backup o wa) as [[a | e |] w1].
      + rewrite IHl. destruct (run_ops base backup l w1) as [xs wb]. cbn [existsb orb].
        destruct (existsb _ xs); [reflexivity |].
        destruct (step base backup ORollback wb) as [[a' | e' |] w']; reflexivity.
      + rewrite IHl. destruct (run_ops base backup l w1) as [xs wb]. cbn [existsb orb].
        destruct (existsb _ xs); [reflexivity |].
        destruct (step base backup ORollback wb) as [[a' | e' |] w']; reflexivity.
      + reflexivity. }
  rewrite Happ in Hk.
  destruct (run_ops base backup ops (set_crash w0 (Some k))) as [xs wb] eqn:Hxs.
  destruct (good_run_always base backup Vb Vk tnb tnk accb acck rhb rhk whb whk hid anc B0
              HLb HLb2 HLk HCb HCk Hlinks Hsmall HwfB w0 ops w Hrun HI0 k xs wb Hxs) as [Hrec Hend].
  destruct (existsb (fun x => match x with MHalt => true | _ => false end) xs) eqn:Eh.
  - injection Hk as _ <-. exact Hrec.
  - assert (Hnh : ~ In MHalt xs).
    { intros Hin. assert (Ht : existsb (fun x : mres obs => match x with MHalt => true | _ => false end) xs = true).
      { apply existsb_exists. exists MHalt. split; [exact Hin | reflexivity]. }
      rewrite Eh in Ht. discriminate Ht. }
    specialize (Hend Hnh). subst wb.
    assert (Hstep : step base backup ORollback = (b_rollback base backup ;;; ret ObUnit)) by reflexivity.
    rewrite Hstep in Hk.
    destruct (rollback_spec base backup Vb Vk tnb tnk accb acck rhb rhk whb whk hid anc B0
                HLb HLk Hlinks Hsmall HwfB Hloc w HI) as (w' & Hrb & Hq' & Hb' & Hk' & Hi').
    assert (Hs : safe (recoverable Vb Vk B0) (b_rollback base backup ;;; ret ObUnit) w).
    { apply safe_bind_silent; [| intros x; apply silent_ret].
      exact (rollback_safe base backup Vb Vk tnb tnk accb acck rhb rhk whb whk hid anc B0
               HLb HLk HCb HCk Hlinks Hsmall HwfB Hloc w HI). }
    destruct ((b_rollback base backup ;;; ret ObUnit) (set_crash w (Some k))) as [rk wk] eqn:Hrk.
    destruct (Hs k rk wk Hrk) as [[-> Hr] | (w1 & Hq1 & ->)].
    + injection Hk as _ <-.
      exact (proj1 (recoverable_set_crash base backup Vb Vk B0 HCb HCk wk None) Hr).
    + rewrite (bind_ok _ _ w w' tt Hrb) in Hq1. unfold ret in Hq1. injection Hq1 as <- <-.
      injection Hk as _ <-.
      apply (proj2 (recoverable_set_crash base backup Vb Vk B0 HCb HCk w' (Some k))).
      (* after Rollback: the base is back, the backup is empty *)
      split.
      * intros p n0 Hp Hne. left. rewrite <- Hp. exact (Hb' p Hne).
      * exists s_root. intros p nk Hne Hp. rewrite (Hk' p Hne) in Hp. discriminate Hp.
Qed.

Print Assumptions rollback_always.
Print Assumptions run_rollback_always.
