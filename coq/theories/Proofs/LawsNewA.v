(** The laws of Spec/Laws.v for the base filesystem of the layering of
    [New]/[NewWithFS]

      [hid_api0 tag h = spy tag (hiddenfs [h] osfs)]

    (HiddenFS directly over the OS filesystem, no PrefixFS) with the view
    [V0H h] (the view [V0] of the whole filesystem without the hidden location
    [h] and what lies below it), next to the backup filesystem rooted at the
    location, view [Vp h].  The counterpart of Proofs/LawsHiddenA.v: the
    transfer from the laws of [spy tag osfs] (Proofs/LawsRootA.v) through the
    method equations of Proofs/LawsNewApi.v, the filter lemmas of
    Proofs/LawsHiddenView.v and the footprints of Proofs/LawsRootFrame.v.

    Link targets are shown as stored ([tnorm] is the identity [tn_0]):
    without PrefixFS nothing cleans them. *)
From stdpp Require Import gmap.
From BFS Require Import Spec.CopySpecs Spec.ViewOsfs Spec.ViewHidden Spec.ViewRoot.
From BFS Require Import Proofs.LawsOsfsBase Proofs.LawsOsfsA Proofs.LawsOsfsB Proofs.LawsOsfs.
From BFS Require Import Proofs.HiddenFacts Proofs.SealedFacts Proofs.BackupCopy Proofs.AlwaysLib.
From BFS Require Import Proofs.LawsHiddenBase Proofs.LawsHiddenView Proofs.LawsHiddenFrame Proofs.LawsHiddenApi.
From BFS Require Import Proofs.LawsRootBase Proofs.LawsRootA Proofs.LawsRootFrame Proofs.LawsNewApi.
Local Open Scope nat_scope.

Lemma swf_V0H (h : str) (w : world) : swf (V0H h w) -> swf (V0 w) /\ sdir (V0 w) h.
Proof.
  intros Hwf. rewrite V0H_FH in Hwf. pose proof (swf_FH_inv h _ Hwf) as Hd. split; [| exact Hd].
  apply (swf_V0_iff w). destruct Hd as [m Hm]. exact (V0_lookup_Some_ok w h _ Hm).
Qed.

(** [nohid] is not inhabited (for the law arguments of [the_api]) *)
Lemma nnh (p : str) : ~ nohid p.
Proof. exact (not_nohid p). Qed.

Section Transfer.
  Variable tag : fstag.
  Variable h : str.
  Hypothesis Hh : hidden_ok h.

  Notation AH := (hid_api0 tag h).
  Notation TA := (spy tag osfs).
  Notation pk := h.
  Notation V := (V0H h).
  Notation V' := (Vp h).
  Notation V0' := Vnone.
  Notation shown := (fun p => shownb h p = true).

  Let Hhac : abs_cleaned h := proj1 Hh.
  Let L0 := root_api_laws tag.
  Let L02 := root_api_laws2 tag.

  (** ** the views depend on the filesystem state only *)
  Lemma VpH_st (w w' : world) : w_st w' = w_st w -> V w' = V w.
  Proof. intros E. rewrite !V0H_FH, (V0_st w w' E). reflexivity. Qed.

  Lemma same_rest_st (w w' : world) :
    w_st w' = w_st w -> w_infos w' = w_infos w -> w_crash w' = w_crash w -> w_faults w' = w_faults w ->
    same_rest V' w w'.
  Proof. intros E1 E2 E3 E4. split; [exact (Vp_st pk w w' E1) | split; [exact E2 | split; [exact E3 | exact E4]]]. Qed.

  (** ** what the hypotheses of a law give *)
  Lemma setup (w : world) : swf (V w) ->
    swf (V0 w) /\ sdir (V0 w) h /\ world_okb s_root (st_fs (w_st w)) = true.
  Proof.
    intros Hwf. destruct (swf_V0H h w Hwf) as [Hwf0 Hd].
    split; [exact Hwf0 | split; [exact Hd | exact (swf_V0_rok w Hwf0)]].
  Qed.

  Lemma sdir_okb (w : world) : sdir (V0 w) h -> world_okb s_root (st_fs (w_st w)) = true.
  Proof. intros [m Hm]. exact (V0_lookup_Some_ok w h _ Hm). Qed.

  (** ** the frame of a call whose footprint is at shown names *)
  Lemma frame_fp {X} (ps : list str) (m : M X) (w : world) :
    Forall abs_cleaned ps -> Forall shown ps -> world_okb s_root (st_fs (w_st w)) = true ->
    fpr s_root ps (m w) w ->
    forall r w', m w = (r, w') -> world_okb s_root (st_fs (w_st w')) = true -> V' w' = V' w.
  Proof.
    intros Hacs Hss Hok Hfp r w' E Hok'.
    apply (Vp_q_frame h Hh ps w w' Hacs Hss Hok Hok').
    exact (proj1 (fpr_run s_root ps m w r w' Hfp E)).
  Qed.

  Definition frame_of {X} (m : M X) (w : world) : Prop :=
    forall r w', m w = (r, w') -> world_okb s_root (st_fs (w_st w')) = true -> V' w' = V' w.

  Lemma frame1 {X} (p : str) (m : M X) (w : world) :
    abs_cleaned p -> shownb h p = true -> world_okb s_root (st_fs (w_st w)) = true ->
    fpr s_root [p] (m w) w -> frame_of m w.
  Proof.
    intros Hac Hs Hok Hfp. unfold frame_of.
    apply (frame_fp [p] m w); [constructor; [exact Hac | constructor] | constructor; [exact Hs | constructor] | exact Hok | exact Hfp].
  Qed.

  Lemma frame_st {X} (m : M X) (w : world) :
    (forall r w', m w = (r, w') -> w_st w' = w_st w) -> frame_of m w.
  Proof. intros H r w' E _. exact (Vp_st pk w w' (H r w' E)). Qed.

  (** ** transfer of the three judgements *)
  Lemma ok_transfer {X} (m : M X) (w : world) (x : X) (s' : store) :
    ok_step V0 V0' m w x s' -> sdir s' h -> frame_of m w -> ok_step V V' m w x (FH h s').
  Proof.
    intros (w' & E & HV & Hsr) Hd Hfr. exists w'. split; [exact E |].
    assert (Hok' : world_okb s_root (st_fs (w_st w')) = true) by (apply sdir_okb; rewrite HV; exact Hd).
    split; [rewrite V0H_FH, HV; reflexivity |].
    destruct Hsr as (_ & E2 & E3 & E4). split; [exact (Hfr _ _ E Hok') | split; [exact E2 | split; [exact E3 | exact E4]]].
  Qed.

  Lemma err_transfer {X} (m : M X) (w : world) (P : errno -> Prop) :
    err_step V0 V0' m w P -> sdir (V0 w) h -> frame_of m w -> err_step V V' m w P.
  Proof.
    intros (e & w' & E & HP & HV & Hsr) Hd Hfr. exists e, w'. split; [exact E | split; [exact HP |]].
    assert (Hok' : world_okb s_root (st_fs (w_st w')) = true) by (apply sdir_okb; rewrite HV; exact Hd).
    split; [rewrite !V0H_FH, HV; reflexivity |].
    destruct Hsr as (_ & E2 & E3 & E4). split; [exact (Hfr _ _ E Hok') | split; [exact E2 | split; [exact E3 | exact E4]]].
  Qed.

  Lemma framed_transfer {X} (m : M X) (w : world) (touched : list str) :
    framed V0 V0' m w touched -> sdir (V0 w) h -> ~ In h touched -> frame_of m w ->
    framed V V' m w touched.
  Proof.
    intros (r & w' & E & Hnh & Hsr & Hwf' & Heqv) Hd Hn Hfr. exists r, w'.
    split; [exact E | split; [exact Hnh |]].
    pose proof (swf_V0_rok w' Hwf') as Hok'.
    pose proof (sdir_eqv_except h touched _ _ Heqv Hn Hd) as Hd'.
    destruct Hsr as (_ & E2 & E3 & E4).
    split; [split; [exact (Hfr _ _ E Hok') | split; [exact E2 | split; [exact E3 | exact E4]]] |].
    rewrite !V0H_FH. split; [exact (swf_FH h Hh _ Hwf' Hd') | exact (FH_eqv_except h touched _ _ Heqv Hn Hd)].
  Qed.

  (** the same judgement for a computation that agrees with [m] in [w] *)
  Lemma ok_step_ext {X} (m1 m2 : M X) (w : world) (x : X) (s : store) :
    m1 w = m2 w -> ok_step V V' m2 w x s -> ok_step V V' m1 w x s.
  Proof. intros E (w' & E' & H). exists w'. split; [rewrite E; exact E' | exact H]. Qed.
  Lemma err_step_ext {X} (m1 m2 : M X) (w : world) (P : errno -> Prop) :
    m1 w = m2 w -> err_step V V' m2 w P -> err_step V V' m1 w P.
  Proof. intros E (e & w' & E' & H). exists e, w'. split; [rewrite E; exact E' | exact H]. Qed.
  Lemma framed_ext {X} (m1 m2 : M X) (w : world) (t : list str) :
    m1 w = m2 w -> framed V V' m2 w t -> framed V V' m1 w t.
  Proof. intros E (r & w' & E' & H). exists r, w'. split; [rewrite E; exact E' | exact H]. Qed.

  (** ... and for one that maps the result *)
  Lemma ok_step_map {X Y} (m1 : M Y) (m2 : M X) (k : X -> Y) (w : world) (x : X) (s : store) :
    m1 w = map_fst (mres_map k) (m2 w) -> ok_step V V' m2 w x s -> ok_step V V' m1 w (k x) s.
  Proof. intros E (w' & E' & H). exists w'. split; [rewrite E, E'; reflexivity | exact H]. Qed.
  Lemma err_step_map {X Y} (m1 : M Y) (m2 : M X) (k : X -> Y) (w : world) (P : errno -> Prop) :
    m1 w = map_fst (mres_map k) (m2 w) -> err_step V V' m2 w P -> err_step V V' m1 w P.
  Proof. intros E (e & w' & E' & H). exists e, w'. split; [rewrite E, E'; reflexivity | exact H]. Qed.
  Lemma framed_map {X Y} (m1 : M Y) (m2 : M X) (k : X -> Y) (w : world) (t : list str) :
    m1 w = map_fst (mres_map k) (m2 w) -> framed V V' m2 w t -> framed V V' m1 w t.
  Proof.
    intros E (r & w' & E' & Hnh & H). exists (mres_map k r), w'. split; [rewrite E, E'; reflexivity |].
    split; [| exact H]. destruct r; [discriminate | discriminate | contradiction Hnh; reflexivity].
  Qed.

  (** ** a rejected call *)
  Lemma rej_err {X} (m : M X) (pm : pmeth) (p p2 : str) (e : errno) (w : world) (P : errno -> Prop) :
    quiet w -> m w = spied tag pm p p2 (fail e) w -> P e -> err_step V V' m w P.
  Proof.
    intros Hq E HP. rewrite (spied_fail_quiet tag pm p p2 e w Hq) in E.
    exists e, (after tag pm p p2 (Some e) w (w_st w)). split; [exact E | split; [exact HP |]].
    split; [apply VpH_st; reflexivity | apply same_rest_st; reflexivity].
  Qed.

  Lemma rej_framed {X} (m : M X) (pm : pmeth) (p p2 : str) (e : errno) (w : world) (t : list str) :
    quiet w -> swf (V w) -> m w = spied tag pm p p2 (fail e) w -> framed V V' m w t.
  Proof.
    intros Hq Hwf E. rewrite (spied_fail_quiet tag pm p p2 e w Hq) in E.
    exists (MErr e), (after tag pm p p2 (Some e) w (w_st w)). split; [exact E | split; [discriminate |]].
    split; [apply same_rest_st; reflexivity |].
    assert (EV : V (after tag pm p p2 (Some e) w (w_st w)) = V w) by (apply VpH_st; reflexivity).
    rewrite EV. split; [exact Hwf | apply store_eqv_except_refl].
  Qed.

  (** ** the hypotheses about a shown name, in the underlying view *)
  Lemma V_lookup_Some (w : world) (p : str) (n : node) :
    V w !! p = Some n -> shownb h p = true /\ V0 w !! p = Some n /\ sdir (V0 w) h.
  Proof.
    rewrite V0H_FH. intros H. destruct (FH_lookup_Some h _ p n H) as (Hd & Hs & Hp).
    split; [exact Hs | split; [exact Hp | exact Hd]].
  Qed.

  Lemma V_lookup_shown (w : world) (p : str) : sdir (V0 w) h -> shownb h p = true -> V w !! p = V0 w !! p.
  Proof. intros Hd Hs. rewrite V0H_FH. exact (FH_lookup_shown h _ p Hd Hs). Qed.

  Lemma V_snolinkpar (w : world) (p : str) :
    sdir (V0 w) h -> shownb h p = true -> snolinkpar (V w) p -> snolinkpar (V0 w) p.
  Proof. intros Hd Hs. rewrite V0H_FH. exact (snolinkpar_FH h _ p Hd Hs). Qed.

  Lemma V_sdirect (w : world) (p : str) :
    sdir (V0 w) h -> shownb h p = true -> sdirect (V w) p -> sdirect (V0 w) p.
  Proof. intros Hd Hs. rewrite V0H_FH. exact (sdirect_FH h _ p Hd Hs). Qed.

  Lemma V_snotlink (w : world) (p : str) :
    sdir (V0 w) h -> shownb h p = true -> snotlink (V w) p -> snotlink (V0 w) p.
  Proof. intros Hd Hs. rewrite V0H_FH. exact (snotlink_FH h _ p Hd Hs). Qed.

  (** the cases of a resolved shown name, and that it is not a link in the world *)
  Lemma resolved_cases (w : world) (p : str) :
    swf (V0 w) -> snolinkpar (V0 w) p -> abs_cleaned p /\ rcase0 w p.
  Proof.
    intros Hwf0 Hnl0. destruct (snl_setup0 w p Hwf0 Hnl0) as (_ & Hac & Hc). split; [exact Hac | exact Hc].
  Qed.

  Lemma notlink_world (w : world) (p : str) :
    world_okb s_root (st_fs (w_st w)) = true -> abs_cleaned p -> snotlink (V0 w) p ->
    not_link_at (st_fs (w_st w)) (comps p).
  Proof. intros Hok Hac Hsl. exact (proj1 (snotlink_V0 w p Hok Hac) Hsl). Qed.

  Lemma snotlink_of_node (s : store) (p : str) (n : node) : s !! p = Some n -> ~ is_link n -> snotlink s p.
  Proof. intros Hp Hnl m t E. rewrite Hp in E. injection E as ->. apply Hnl. exists m, t. reflexivity. Qed.

  Lemma snotlink_of_none (s : store) (p : str) : s !! p = None -> snotlink s p.
  Proof. intros Hp m t E. rewrite Hp in E. discriminate E. Qed.

  (* ---------------------------------------------------------------- *)
  (** * The laws *)

  Ltac su w Hwf := destruct (setup w Hwf) as (Hwf0 & Hd & Hok).

  (** a present entry of the view is shown *)
  Ltac present w p n Hl Hnl :=
    destruct (V_lookup_Some w p n Hl) as (Hs & Hl0 & _);
    pose proof (proj1 Hnl) as Hac.

  Lemma n_law_infos_indep : forall w i, V (with_infos w i) = V w.
  Proof. intros w i. apply VpH_st. reflexivity. Qed.

  Lemma n_law_lstat_some : forall w p n, quiet w -> swf (V w) -> snolinkpar (V w) p -> V w !! p = Some n ->
    exists fi, ok_step V V' (a_lstat AH p) w fi (V w) /\ info_matches fi n /\ fi_mt fi = m_mt (node_meta n) /\
               fi_name fi = GoPath.base p.
  Proof.
    intros w p n Hq Hwf Hnl Hl. su w Hwf. present w p n Hl Hnl.
    pose proof (V_snolinkpar w p Hd Hs Hnl) as Hnl0.
    destruct (law_lstat_some _ _ _ _ _ _ _ _ _ L0 w p n Hq Hwf0 Hnl0 Hl0) as (fi & Hstep & Him & Hmt & Hname).
    exists fi. split; [| split; [exact Him | split; [exact Hmt | exact Hname]]].
    apply (ok_step_ext (a_lstat AH p) (a_lstat TA p)); [apply NH_lstat; assumption |].
    rewrite V0H_FH. apply ok_transfer; [exact Hstep | exact Hd |].
    apply (frame1 p); try assumption. apply fpr0_lstat; assumption.
  Qed.

  Lemma hidden_not_found : not_found (ELayer EHiddenNotExist).
  Proof. reflexivity. Qed.

  Lemma n_law_lstat_none : forall w p, quiet w -> swf (V w) -> snolinkpar (V w) p -> V w !! p = None ->
    err_step V V' (a_lstat AH p) w not_found.
  Proof.
    intros w p Hq Hwf Hnl Hl. su w Hwf. pose proof (proj1 Hnl) as Hac.
    destruct (shownb h p) eqn:Hs.
    - pose proof (V_snolinkpar w p Hd Hs Hnl) as Hnl0.
      rewrite (V_lookup_shown w p Hd Hs) in Hl.
      apply (err_step_ext (a_lstat AH p) (a_lstat TA p)); [apply NH_lstat; assumption |].
      apply err_transfer; [exact (law_lstat_none _ _ _ _ _ _ _ _ _ L0 w p Hq Hwf0 Hnl0 Hl) | exact Hd |].
      apply (frame1 p); try assumption. apply fpr0_lstat; assumption.
    - apply (rej_err (a_lstat AH p) (PM MLstat) p [] (ELayer EHiddenNotExist) w); [exact Hq | | exact hidden_not_found].
      apply NH_lstat_hid; assumption.
  Qed.

  Lemma n_law_readlink : forall w p m t, quiet w -> swf (V w) -> snolinkpar (V w) p -> V w !! p = Some (Link m t) ->
    ok_step V V' (a_readlink AH p) w t (V w).
  Proof.
    intros w p m t Hq Hwf Hnl Hl. su w Hwf. present w p (Link m t) Hl Hnl.
    pose proof (V_snolinkpar w p Hd Hs Hnl) as Hnl0.
    apply (ok_step_ext (a_readlink AH p) (a_readlink TA p)); [apply NH_readlink; assumption |].
    rewrite V0H_FH. apply ok_transfer; [exact (law_readlink _ _ _ _ _ _ _ _ _ L0 w p m t Hq Hwf0 Hnl0 Hl0) | exact Hd |].
    apply (frame1 p); try assumption. apply fpr0_readlink; assumption.
  Qed.

  (** ** handles *)
  Lemma unmark_mark (p : str) (hs : list str) (x : fhandle) : fh_hidden x = None -> unmark (mark p hs x) = x.
  Proof. destruct x as [f n s hd]. cbn. intros ->. reflexivity. Qed.

  Lemma rh_h_mark (p q : str) (hs : list str) (x : fhandle) (pos : nat) :
    rh_p tag s_root x q pos -> rh_0 tag (mark p hs x) q pos.
  Proof.
    intros Hr. unfold rh_0. rewrite (unmark_mark p hs x); [exact Hr |].
    destruct Hr as (_ & _ & _ & _ & _ & Hn). exact Hn.
  Qed.

  Lemma wh_h_mark (p q : str) (hs : list str) (x : fhandle) (pos : nat) :
    wh_p tag s_root x q pos -> wh_0 tag (mark p hs x) q pos.
  Proof. intros Hr. exact Hr. Qed.

  (** a handle with the mark of [x] *)
  Definition remark (x y : fhandle) : fhandle := mkFh (fh y) (fh_name y) (fh_spy y) (fh_hidden x).

  Definition hread_op (y : fhandle) : M (option (list N) * fhandle) :=
    fun w => let '(r, h') := fs_read (w_st w) (fh y) in
             match r with
             | Ok d => (MOk (d, set_fh y h'), w)
             | Err e => (MErr e, w)
             end.

  Lemma hread_unmark (x : fhandle) (w : world) :
    hread x w = map_fst (mres_map (fun dh : option (list N) * fhandle => (fst dh, remark x (snd dh))))
                        (hread (unmark x) w).
  Proof.
    set (k := fun dh : option (list N) * fhandle => (fst dh, remark x (snd dh))).
    assert (E : forall w0, hread_op x w0 = (r <- hread_op (unmark x) ;; ret (k r)) w0).
    { intros w0. unfold hread_op, bind, ret. cbn [unmark fh].
      destruct (fs_read (w_st w0) (fh x)) as [[d | e] h']; reflexivity. }
    change (hread x w) with (spy_h x PRead (hread_op x) w).
    change (hread (unmark x) w) with (spy_h x PRead (hread_op (unmark x)) w).
    unfold spy_h. destruct (fh_spy x) as [[t q] |].
    - rewrite (spied_ext t PRead q [] (hread_op x) _ E w). apply spied_map.
    - rewrite (E w). unfold bind, ret, map_fst. destruct (hread_op (unmark x) w) as [[a | e |] w2]; reflexivity.
  Qed.

  Lemma n_law_open_file : forall w p m c, quiet w -> swf (V w) -> snolinkpar (V w) p -> V w !! p = Some (File m c) ->
    exists x, ok_step V V' (a_open AH p) w x (V w) /\ rh_0 tag x p 0.
  Proof.
    intros w p m c Hq Hwf Hnl Hl. su w Hwf. present w p (File m c) Hl Hnl.
    pose proof (V_snolinkpar w p Hd Hs Hnl) as Hnl0.
    destruct (law_open_file _ _ _ _ _ _ _ _ _ L0 w p m c Hq Hwf0 Hnl0 Hl0) as (x0 & Hstep & Hrh).
    exists (mark p [h] x0). split; [| exact (rh_h_mark p p [h] x0 0 Hrh)].
    apply (ok_step_map (a_open AH p) (a_open TA p) (mark p [h])); [apply NH_open; assumption |].
    rewrite V0H_FH. apply ok_transfer; [exact Hstep | exact Hd |].
    destruct (resolved_cases w p Hwf0 Hnl0) as [_ Hrc].
    apply (frame1 p); try assumption. apply fpr0_open; try assumption.
    apply (notlink_world w p Hok Hac). apply (snotlink_of_node _ p (File m c) Hl0). intros (m1 & t1 & E). discriminate E.
  Qed.

  Lemma n_law_open_err : forall w p, quiet w -> swf (V w) -> snolinkpar (V w) p -> V w !! p = None ->
    err_step V V' (a_open AH p) w not_found.
  Proof.
    intros w p Hq Hwf Hnl Hl. su w Hwf. pose proof (proj1 Hnl) as Hac.
    destruct (shownb h p) eqn:Hs.
    - pose proof (V_snolinkpar w p Hd Hs Hnl) as Hnl0.
      rewrite (V_lookup_shown w p Hd Hs) in Hl.
      apply (err_step_map (a_open AH p) (a_open TA p) (mark p [h])); [apply NH_open; assumption |].
      apply err_transfer; [exact (law_open_err _ _ _ _ _ _ _ _ _ L0 w p Hq Hwf0 Hnl0 Hl) | exact Hd |].
      destruct (resolved_cases w p Hwf0 Hnl0) as [_ Hrc].
      apply (frame1 p); try assumption. apply fpr0_open; try assumption.
      apply (notlink_world w p Hok Hac). exact (snotlink_of_none _ p Hl).
    - apply (rej_err (a_open AH p) (PM MOpen) p [] (ELayer EHiddenNotExist) w); [exact Hq | | exact hidden_not_found].
      apply NH_open_hid; assumption.
  Qed.

  Lemma n_law_hread : forall w x p pos m c, quiet w -> rh_0 tag x p pos -> V w !! p = Some (File m c) ->
    match skipn pos c with
    | [] => exists x', ok_step V V' (hread x) w (None, x') (V w)
    | rest => exists x', ok_step V V' (hread x) w (Some (firstn chunk_size rest), x') (V w) /\
                          rh_0 tag x' p (pos + length (firstn chunk_size rest))
    end.
  Proof.
    intros w x p pos m c Hq Hrh Hl. destruct (V_lookup_Some w p _ Hl) as (Hs & Hl0 & Hd).
    pose proof (law_hread _ _ _ _ _ _ _ _ _ L0 w (unmark x) p pos m c Hq Hrh Hl0) as HT.
    assert (Hfr : frame_of (hread (unmark x)) w) by (apply frame_st; intros r w'; apply hread_st).
    set (k := fun dh : option (list N) * fhandle => (fst dh, remark x (snd dh))).
    destruct (skipn pos c) as [| b rest].
    - destruct HT as [x0 Hstep]. exists (remark x x0).
      apply (ok_step_map (hread x) (hread (unmark x)) k w (None, x0)); [apply hread_unmark |].
      rewrite V0H_FH. apply ok_transfer; [exact Hstep | exact Hd | exact Hfr].
    - destruct HT as (x0 & Hstep & Hrh0). exists (remark x x0). split.
      + apply (ok_step_map (hread x) (hread (unmark x)) k w (Some (firstn chunk_size (b :: rest)), x0));
          [apply hread_unmark |].
        rewrite V0H_FH. apply ok_transfer; [exact Hstep | exact Hd | exact Hfr].
      + destruct Hrh0 as (A1 & A2 & A3 & A4 & A5 & A6).
        unfold rh_0, rh_p. cbn [unmark remark fh fh_spy fh_hidden].
        split; [exact A1 | split; [exact A2 | split; [exact A3 | split; [exact A4 | split; [exact A5 | reflexivity]]]]].
  Qed.

  Lemma n_law_hstat : forall w x p pos n, quiet w -> rh_0 tag x p pos -> V w !! p = Some n ->
    exists fi, ok_step V V' (hstat x) w fi (V w) /\ info_matches fi n.
  Proof.
    intros w x p pos n Hq Hrh Hl. destruct (V_lookup_Some w p _ Hl) as (Hs & Hl0 & Hd).
    destruct (law_hstat _ _ _ _ _ _ _ _ _ L0 w (unmark x) p pos n Hq Hrh Hl0) as (fi & Hstep & Him).
    exists fi. split; [| exact Him]. change (hstat x) with (hstat (unmark x)).
    rewrite V0H_FH. apply ok_transfer; [exact Hstep | exact Hd |].
    apply frame_st. intros r w'. apply hstat_st.
  Qed.

  (** a step that leaves the filesystem state alone *)
  Lemma ok_transfer_st {X} (m : M X) (w : world) (x : X) :
    ok_step V0 V0' m w x (V0 w) -> (forall r w', m w = (r, w') -> w_st w' = w_st w) ->
    ok_step V V' m w x (V w).
  Proof.
    intros (w' & E & _ & (_ & E2 & E3 & E4)) Hst. exists w'. split; [exact E |].
    pose proof (Hst _ _ E) as Es. split; [exact (VpH_st w w' Es) | exact (same_rest_st w w' Es E2 E3 E4)].
  Qed.

  Lemma n_law_hclose_r : forall w x p pos, quiet w -> rh_0 tag x p pos -> ok_step V V' (hclose x) w tt (V w).
  Proof.
    intros w x p pos Hq Hrh. change (hclose x) with (hclose (unmark x)).
    apply ok_transfer_st; [exact (law_hclose_r _ _ _ _ _ _ _ _ _ L0 w (unmark x) p pos Hq Hrh) |].
    intros r w'. apply hclose_st.
  Qed.

  (** ** the calls copies are made of *)

  (** the frame of MkdirAll on a shown name *)
  Lemma frame_mkdirall (w : world) (p : str) (perm : N) :
    quiet w -> swf (V0 w) -> snolinkpar (V0 w) p -> shownb h p = true -> frame_of (a_mkdirall TA p perm) w.
  Proof.
    intros Hq Hwf0 Hnl0 Hs. pose proof (proj1 Hnl0) as Hac. unfold frame_of.
    apply (frame_fp (cands p) (a_mkdirall TA p perm) w).
    - exact (cands_abs_cleaned p Hac).
    - apply List.Forall_forall. intros q Hq'. exact (shownb_cands h p q Hac Hs Hq').
    - exact (swf_V0_rok w Hwf0).
    - apply fpr0_mkdirall; assumption.
  Qed.

  Lemma n_law_mkdirall_new : forall w p perm, quiet w -> swf (V w) -> sdirect (V w) p -> V w !! p = None ->
    ~ hid_h h p ->
    exists m' s', ok_step V V' (a_mkdirall AH p perm) w tt s' /\ s' !! p = Some (Dir m') /\
                  store_eqv_except [p] s' (V w) /\ swf s'.
  Proof.
    intros w p perm Hq Hwf Hsd Hl Hnh. su w Hwf. pose proof (proj1 Hsd) as Hac.
    pose proof (proj1 (not_hid_shownb h Hh p Hac) Hnh) as Hs.
    pose proof (V_sdirect w p Hd Hs Hsd) as Hsd0.
    rewrite (V_lookup_shown w p Hd Hs) in Hl.
    destruct (law_mkdirall_new _ _ _ _ _ _ _ _ _ L0 w p perm Hq Hwf0 Hsd0 Hl (nnh p))
      as (m' & s0 & Hstep & Hp & Heqv & Hswf).
    assert (Hn : ~ In h [p]) by (intros [E | []]; exact (shown_ne_h h p Hs E)).
    pose proof (sdir_eqv_except h [p] s0 _ Heqv Hn Hd) as Hds.
    exists m', (FH h s0). split; [| split; [| split]].
    - apply (ok_step_ext (a_mkdirall AH p perm) (a_mkdirall TA p perm)); [apply NH_mkdirall; assumption |].
      apply ok_transfer; [exact Hstep | exact Hds |].
      apply frame_mkdirall; try assumption. exact (sdirect_snolinkpar _ _ Hsd0).
    - rewrite (FH_lookup_shown h s0 p Hds Hs). exact Hp.
    - rewrite V0H_FH. exact (FH_eqv_except h [p] s0 _ Heqv Hn Hd).
    - exact (swf_FH h Hh s0 Hswf Hds).
  Qed.

  Lemma n_law_mkdirall_dir : forall w p perm m, quiet w -> swf (V w) -> sdirect (V w) p -> V w !! p = Some (Dir m) ->
    ok_step V V' (a_mkdirall AH p perm) w tt (V w).
  Proof.
    intros w p perm m Hq Hwf Hsd Hl. su w Hwf. present w p (Dir m) Hl Hsd.
    pose proof (V_sdirect w p Hd Hs Hsd) as Hsd0.
    apply (ok_step_ext (a_mkdirall AH p perm) (a_mkdirall TA p perm)); [apply NH_mkdirall; assumption |].
    rewrite V0H_FH. apply ok_transfer;
      [exact (law_mkdirall_dir _ _ _ _ _ _ _ _ _ L0 w p perm m Hq Hwf0 Hsd0 Hl0) | exact Hd |].
    apply frame_mkdirall; try assumption. exact (sdirect_snolinkpar _ _ Hsd0).
  Qed.

  (** an update of a present entry at a shown name *)
  Lemma upd_transfer {X} (m : M X) (w : world) (x : X) (p : str) (n' : node) :
    ok_step V0 V0' m w x (<[p := n']> (V0 w)) -> sdir (V0 w) h -> shownb h p = true -> frame_of m w ->
    ok_step V V' m w x (<[p := n']> (V w)).
  Proof.
    intros Hstep Hd Hs Hfr. rewrite V0H_FH, <- (FH_insert h _ p n' Hd Hs).
    apply ok_transfer; [exact Hstep | exact (sdir_insert_ne h _ p n' (shown_ne_h h p Hs) Hd) | exact Hfr].
  Qed.

  Lemma n_law_chmod : forall w p mode n, quiet w -> swf (V w) -> snolinkpar (V w) p -> V w !! p = Some n -> ~ is_link n ->
    ok_step V V' (a_chmod AH p mode) w tt (<[ p := with_meta n (set_perm mode) ]> (V w)).
  Proof.
    intros w p mode n Hq Hwf Hnl Hl Hnlk. su w Hwf. present w p n Hl Hnl.
    pose proof (V_snolinkpar w p Hd Hs Hnl) as Hnl0.
    apply (ok_step_ext (a_chmod AH p mode) (a_chmod TA p mode)); [apply NH_chmod; assumption |].
    apply upd_transfer; [exact (law_chmod _ _ _ _ _ _ _ _ _ L0 w p mode n Hq Hwf0 Hnl0 Hl0 Hnlk) | exact Hd | exact Hs |].
    destruct (resolved_cases w p Hwf0 Hnl0) as [_ Hrc].
    apply (frame1 p); try assumption. apply fpr0_chmod; try assumption.
    exact (notlink_world w p Hok Hac (snotlink_of_node _ p n Hl0 Hnlk)).
  Qed.

  Lemma n_law_chtimes : forall w p t n, quiet w -> swf (V w) -> snolinkpar (V w) p -> V w !! p = Some n -> ~ is_link n ->
    ok_step V V' (a_chtimes AH p t) w tt (<[ p := with_meta n (set_mt t) ]> (V w)).
  Proof.
    intros w p t n Hq Hwf Hnl Hl Hnlk. su w Hwf. present w p n Hl Hnl.
    pose proof (V_snolinkpar w p Hd Hs Hnl) as Hnl0.
    apply (ok_step_ext (a_chtimes AH p t) (a_chtimes TA p t)); [apply NH_chtimes; assumption |].
    apply upd_transfer; [exact (law_chtimes _ _ _ _ _ _ _ _ _ L0 w p t n Hq Hwf0 Hnl0 Hl0 Hnlk) | exact Hd | exact Hs |].
    destruct (resolved_cases w p Hwf0 Hnl0) as [_ Hrc].
    apply (frame1 p); try assumption. apply fpr0_chtimes; try assumption.
    exact (notlink_world w p Hok Hac (snotlink_of_node _ p n Hl0 Hnlk)).
  Qed.

  Lemma n_law_chown : forall w p u g n, quiet w -> swf (V w) -> snolinkpar (V w) p -> V w !! p = Some n -> ~ is_link n ->
    ok_step V V' (a_chown AH p u g) w tt (<[ p := chown_node n u g ]> (V w)).
  Proof.
    intros w p u g n Hq Hwf Hnl Hl Hnlk. su w Hwf. present w p n Hl Hnl.
    pose proof (V_snolinkpar w p Hd Hs Hnl) as Hnl0.
    apply (ok_step_ext (a_chown AH p u g) (a_chown TA p u g)); [apply NH_chown; assumption |].
    apply upd_transfer; [exact (law_chown _ _ _ _ _ _ _ _ _ L0 w p u g n Hq Hwf0 Hnl0 Hl0 Hnlk) | exact Hd | exact Hs |].
    destruct (resolved_cases w p Hwf0 Hnl0) as [_ Hrc].
    apply (frame1 p); try assumption. apply fpr0_chown; try assumption.
    exact (notlink_world w p Hok Hac (snotlink_of_node _ p n Hl0 Hnlk)).
  Qed.

  Lemma n_law_lchown : forall w p u g n, quiet w -> swf (V w) -> snolinkpar (V w) p -> V w !! p = Some n ->
    ok_step V V' (a_lchown AH p u g) w tt (<[ p := chown_node n u g ]> (V w)).
  Proof.
    intros w p u g n Hq Hwf Hnl Hl. su w Hwf. present w p n Hl Hnl.
    pose proof (V_snolinkpar w p Hd Hs Hnl) as Hnl0.
    apply (ok_step_ext (a_lchown AH p u g) (a_lchown TA p u g)); [apply NH_lchown; assumption |].
    apply upd_transfer; [exact (law_lchown _ _ _ _ _ _ _ _ _ L0 w p u g n Hq Hwf0 Hnl0 Hl0) | exact Hd | exact Hs |].
    destruct (resolved_cases w p Hwf0 Hnl0) as [_ Hrc].
    apply (frame1 p); try assumption. apply fpr0_lchown; assumption.
  Qed.

  (** a new entry at a shown name *)
  Lemma new_transfer {X} (m : M X) (w : world) (x : X) (p : str) (s0 : store) :
    ok_step V0 V0' m w x s0 -> store_eqv_except [p] s0 (V0 w) -> swf s0 ->
    sdir (V0 w) h -> shownb h p = true -> frame_of m w ->
    ok_step V V' m w x (FH h s0) /\ FH h s0 !! p = s0 !! p /\ store_eqv_except [p] (FH h s0) (V w) /\
    swf (FH h s0).
  Proof.
    intros Hstep Heqv Hswf Hd Hs Hfr.
    assert (Hn : ~ In h [p]) by (intros [E | []]; exact (shown_ne_h h p Hs E)).
    pose proof (sdir_eqv_except h [p] s0 _ Heqv Hn Hd) as Hds.
    split; [apply ok_transfer; assumption |]. split; [exact (FH_lookup_shown h s0 p Hds Hs) |].
    split; [rewrite V0H_FH; exact (FH_eqv_except h [p] s0 _ Heqv Hn Hd) | exact (swf_FH h Hh s0 Hswf Hds)].
  Qed.

  Lemma n_law_symlink : forall w t p, quiet w -> swf (V w) -> sdirect (V w) p -> V w !! p = None ->
    t <> [] -> acc_0 h t p -> ~ hid_h h p ->
    exists m' s', ok_step V V' (a_symlink AH t p) w tt s' /\ s' !! p = Some (Link m' (tn_0 t)) /\
                  m_perm m' = 511%N /\ store_eqv_except [p] s' (V w) /\ swf s'.
  Proof.
    intros w t p Hq Hwf Hsd Hl Ht Htgt Hnh. su w Hwf. pose proof (proj1 Hsd) as Hac.
    pose proof (proj1 (not_hid_shownb h Hh p Hac) Hnh) as Hs.
    pose proof (V_sdirect w p Hd Hs Hsd) as Hsd0.
    rewrite (V_lookup_shown w p Hd Hs) in Hl.
    destruct (law_symlink _ _ _ _ _ _ _ _ _ L0 w t p Hq Hwf0 Hsd0 Hl Ht I (nnh p))
      as (m' & s0 & Hstep & Hp & Hperm & Heqv & Hswf).
    pose proof (sdirect_snolinkpar _ _ Hsd0) as Hnl0.
    destruct (resolved_cases w p Hwf0 Hnl0) as [_ Hrc].
    assert (Hfr : frame_of (a_symlink TA t p) w).
    { apply (frame1 p); try assumption. apply fpr0_symlink; assumption. }
    destruct (new_transfer (a_symlink TA t p) w tt p s0 Hstep Heqv Hswf Hd Hs Hfr) as (H1 & H2 & H3 & H4).
    exists m', (FH h s0). split; [| split; [rewrite H2; exact Hp | split; [exact Hperm | split; [exact H3 | exact H4]]]].
    apply (ok_step_ext (a_symlink AH t p) (a_symlink TA t p)); [apply NH_symlink; assumption | exact H1].
  Qed.

  (** the frame from a footprint given without the part outside the prefix *)
  Lemma frame1_fp {X} (p : str) (m : M X) (w : world) :
    abs_cleaned p -> shownb h p = true -> world_okb s_root (st_fs (w_st w)) = true ->
    fp s_root [p] (w_st (snd (m w))) (w_st w) -> frame_of m w.
  Proof.
    intros Hac Hs Hok Hfp r w' E Hok'. rewrite E in Hfp. cbn [snd] in Hfp.
    apply (Vp_q_frame h Hh [p] w w'); try assumption; constructor; try assumption; constructor.
  Qed.

  Lemma n_law_openfile_new : forall w p perm, quiet w -> swf (V w) -> sdirect (V w) p -> V w !! p = None ->
    ~ hid_h h p ->
    exists x m' s', ok_step V V' (a_openfile AH p 578 perm) w x s' /\ wh_0 tag x p 0 /\
                    s' !! p = Some (File m' []) /\ store_eqv_except [p] s' (V w) /\ swf s'.
  Proof.
    intros w p perm Hq Hwf Hsd Hl Hnh. su w Hwf. pose proof (proj1 Hsd) as Hac.
    pose proof (proj1 (not_hid_shownb h Hh p Hac) Hnh) as Hs.
    pose proof (V_sdirect w p Hd Hs Hsd) as Hsd0.
    rewrite (V_lookup_shown w p Hd Hs) in Hl.
    destruct (law_openfile_new _ _ _ _ _ _ _ _ _ L0 w p perm Hq Hwf0 Hsd0 Hl (nnh p))
      as (x0 & m' & s0 & Hstep & Hwh & Hp & Heqv & Hswf).
    pose proof (sdirect_snolinkpar _ _ Hsd0) as Hnl0.
    destruct (resolved_cases w p Hwf0 Hnl0) as [_ Hrc].
    assert (Hfr : frame_of (a_openfile TA p 578 perm) w).
    { apply (frame1 p); try assumption. apply fpr0_openfile; try assumption. right.
      exact (notlink_world w p Hok Hac (snotlink_of_none _ p Hl)). }
    destruct (new_transfer (a_openfile TA p 578 perm) w x0 p s0 Hstep Heqv Hswf Hd Hs Hfr) as (H1 & H2 & H3 & H4).
    exists (mark p [h] x0), m', (FH h s0).
    split; [| split; [exact Hwh | split; [rewrite H2; exact Hp | split; [exact H3 | exact H4]]]].
    apply (ok_step_map (a_openfile AH p 578 perm) (a_openfile TA p 578 perm) (mark p [h]));
      [apply NH_openfile; assumption | exact H1].
  Qed.

  Lemma n_law_openfile_trunc : forall w p perm m c, quiet w -> swf (V w) -> snolinkpar (V w) p ->
    V w !! p = Some (File m c) ->
    exists x t', ok_step V V' (a_openfile AH p 578 perm) w x (<[ p := File (set_mt t' m) [] ]> (V w)) /\
                 wh_0 tag x p 0.
  Proof.
    intros w p perm m c Hq Hwf Hnl Hl. su w Hwf. present w p (File m c) Hl Hnl.
    pose proof (V_snolinkpar w p Hd Hs Hnl) as Hnl0.
    destruct (law_openfile_trunc _ _ _ _ _ _ _ _ _ L0 w p perm m c Hq Hwf0 Hnl0 Hl0) as (x0 & t' & Hstep & Hwh).
    destruct (resolved_cases w p Hwf0 Hnl0) as [_ Hrc].
    exists (mark p [h] x0), t'. split; [| exact Hwh].
    apply (ok_step_map (a_openfile AH p 578 perm) (a_openfile TA p 578 perm) (mark p [h]));
      [apply NH_openfile; assumption |].
    apply upd_transfer; [exact Hstep | exact Hd | exact Hs |].
    apply (frame1 p); try assumption. apply fpr0_openfile; try assumption. right.
    apply (notlink_world w p Hok Hac). apply (snotlink_of_node _ p (File m c) Hl0). intros (m1 & t1 & E). discriminate E.
  Qed.

  Lemma n_law_hwrite : forall w x p pos m c data, quiet w -> wh_0 tag x p pos -> V w !! p = Some (File m c) ->
    length c = pos ->
    exists x' t', ok_step V V' (hwrite x data) w x' (<[ p := File (set_mt t' m) (c ++ data) ]> (V w)) /\
                  wh_0 tag x' p (pos + length data).
  Proof.
    intros w x p pos m c data Hq Hwh Hl Hlen. destruct (V_lookup_Some w p _ Hl) as (Hs & Hl0 & Hd).
    assert (Hwh0 : wh_p tag s_root x p pos) by exact Hwh.
    destruct (law_hwrite _ _ _ _ _ _ _ _ _ L0 w x p pos m c data Hq Hwh0 Hl0 Hlen) as (x' & t' & Hstep & Hwh').
    exists x', t'. split; [| exact Hwh'].
    apply upd_transfer; [exact Hstep | exact Hd | exact Hs |].
    destruct Hwh0 as (Hspy & Hkey & _).
    pose proof (proj1 (proj2 (V0_lookup_Some_inv w p _ Hl0))) as Hac.
    apply (frame1 p); try assumption; [exact (sdir_okb w Hd) |]. apply (fpr0_hwrite tag x p w data); assumption.
  Qed.

  Lemma n_law_hclose_w : forall w x p pos, quiet w -> wh_0 tag x p pos -> ok_step V V' (hclose x) w tt (V w).
  Proof.
    intros w x p pos Hq Hwh. assert (Hwh0 : wh_p tag s_root x p pos) by exact Hwh.
    apply ok_transfer_st; [exact (law_hclose_w _ _ _ _ _ _ _ _ _ L0 w x p pos Hq Hwh0) |].
    intros r w'. apply hclose_st.
  Qed.

  (** ** removal *)
  Lemma n_law_remove_leaf : forall w p n, quiet w -> swf (V w) -> snolinkpar (V w) p -> V w !! p = Some n ->
    no_children (V w) p -> p <> s_root -> ~ anc_h h p ->
    exists s', ok_step V V' (a_remove AH p) w tt s' /\ s' !! p = None /\ store_eqv_except [p] s' (V w) /\ swf s'.
  Proof.
    intros w p n Hq Hwf Hnl Hl Hnc Hne Hna. su w Hwf. present w p n Hl Hnl.
    pose proof (V_snolinkpar w p Hd Hs Hnl) as Hnl0.
    rewrite V0H_FH in Hnc. pose proof (no_children_FH h Hh _ p Hwf0 Hd Hac Hs Hna Hnc) as Hnc0.
    destruct (law_remove_leaf _ _ _ _ _ _ _ _ _ L0 w p n Hq Hwf0 Hnl0 Hl0 Hnc0 Hne (nnh p))
      as (s0 & Hstep & Hp & Heqv & Hswf).
    destruct (resolved_cases w p Hwf0 Hnl0) as [_ Hrc].
    assert (Hfr : frame_of (a_remove TA p) w).
    { apply (frame1 p); try assumption. apply fpr0_remove; assumption. }
    destruct (new_transfer (a_remove TA p) w tt p s0 Hstep Heqv Hswf Hd Hs Hfr) as (H1 & H2 & H3 & H4).
    exists (FH h s0). split; [| split; [rewrite H2; exact Hp | split; [exact H3 | exact H4]]].
    apply (ok_step_ext (a_remove AH p) (a_remove TA p)); [apply NH_remove; assumption | exact H1].
  Qed.

  Lemma n_law_remove_none : forall w p, quiet w -> swf (V w) -> snolinkpar (V w) p -> V w !! p = None ->
    err_step V V' (a_remove AH p) w not_found.
  Proof.
    intros w p Hq Hwf Hnl Hl. su w Hwf. pose proof (proj1 Hnl) as Hac.
    destruct (shownb h p) eqn:Hs.
    - pose proof (V_snolinkpar w p Hd Hs Hnl) as Hnl0.
      rewrite (V_lookup_shown w p Hd Hs) in Hl.
      apply (err_step_ext (a_remove AH p) (a_remove TA p)); [apply NH_remove; assumption |].
      apply err_transfer; [exact (law_remove_none _ _ _ _ _ _ _ _ _ L0 w p Hq Hwf0 Hnl0 Hl) | exact Hd |].
      destruct (resolved_cases w p Hwf0 Hnl0) as [_ Hrc].
      apply (frame1 p); try assumption. apply fpr0_remove; assumption.
    - apply (rej_err (a_remove AH p) (PM MRemove) p [] (ELayer EHiddenNotExist) w); [exact Hq | | exact hidden_not_found].
      apply NH_remove_hid; assumption.
  Qed.

  Lemma n_law_remove_nonempty : forall w p n, quiet w -> swf (V w) -> snolinkpar (V w) p -> V w !! p = Some n ->
    ~ no_children (V w) p -> err_step V V' (a_remove AH p) w any_err.
  Proof.
    intros w p n Hq Hwf Hnl Hl Hnn. su w Hwf. present w p n Hl Hnl.
    pose proof (V_snolinkpar w p Hd Hs Hnl) as Hnl0.
    rewrite V0H_FH in Hnn. pose proof (has_children_FH h _ p Hd Hnn) as Hnn0.
    apply (err_step_ext (a_remove AH p) (a_remove TA p)); [apply NH_remove; assumption |].
    apply err_transfer; [exact (law_remove_nonempty _ _ _ _ _ _ _ _ _ L0 w p n Hq Hwf0 Hnl0 Hl0 Hnn0) | exact Hd |].
    destruct (resolved_cases w p Hwf0 Hnl0) as [_ Hrc].
    apply (frame1 p); try assumption. apply fpr0_remove; assumption.
  Qed.

  (** a proper ancestor of the location cannot be removed: the location is inside *)
  Lemma n_law_remove_anc : forall w p, quiet w -> swf (V w) -> anc_h h p -> err_step V V' (a_remove AH p) w any_err.
  Proof.
    intros w p Hq Hwf Han. su w Hwf.
    destruct (anc_spec h Hh p Han) as (Hac & Hs & _ & _).
    destruct (anc_sdir h _ p Hwf0 Hd Han) as [mp Hmp].
    pose proof (swf_lookup_snolinkpar _ _ _ Hwf0 Hmp) as Hnl0.
    apply (err_step_ext (a_remove AH p) (a_remove TA p)); [apply NH_remove; assumption |].
    apply err_transfer;
      [exact (law_remove_nonempty _ _ _ _ _ _ _ _ _ L0 w p (Dir mp) Hq Hwf0 Hnl0 Hmp (anc_has_child h Hh _ p Hd Han))
      | exact Hd |].
    destruct (resolved_cases w p Hwf0 Hnl0) as [_ Hrc].
    apply (frame1 p); try assumption. apply fpr0_remove; assumption.
  Qed.

  Lemma n_law_hid_absent : forall w p, hid_h h p -> V w !! p = None.
  Proof.
    intros w p Hhid. rewrite V0H_FH.
    destruct (FH h (V0 w) !! p) as [n|] eqn:E; [| reflexivity]. exfalso.
    destruct (FH_lookup_Some h _ p n E) as (_ & Hs & Hp).
    pose proof (proj1 (proj2 (V0_lookup_Some_inv w p n Hp))) as Hac.
    apply (hid_shownb h Hh p Hac) in Hhid. congruence.
  Qed.

  Lemma n_law_anc_dir : forall w p, anc_h h p -> swf (V w) -> sdir (V w) p.
  Proof.
    intros w p Han Hwf. su w Hwf. destruct (anc_spec h Hh p Han) as (_ & Hs & _ & _).
    rewrite V0H_FH. apply (sdir_FH h _ p Hd Hs). exact (anc_sdir h _ p Hwf0 Hd Han).
  Qed.

  (** ** RemoveAll of a non-directory: HiddenFS looks at the entry and removes it *)

  (** the same result, worlds that differ in the spy's bookkeeping only *)
  Definition wsim (w1 w2 : world) : Prop :=
    w_st w2 = w_st w1 /\ w_infos w2 = w_infos w1 /\ w_crash w2 = w_crash w1 /\ w_faults w2 = w_faults w1.

  Lemma ok_step_sim {X} (m1 m2 : M X) (w : world) (x : X) (s : store) :
    (forall r w1, m2 w = (r, w1) -> exists w2, m1 w = (r, w2) /\ wsim w1 w2) ->
    ok_step V V' m2 w x s -> ok_step V V' m1 w x s.
  Proof.
    intros Hsim (w1 & E & HV & (HV' & E2 & E3 & E4)).
    destruct (Hsim _ _ E) as (w2 & E' & (S1 & S2 & S3 & S4)). exists w2. split; [exact E' |].
    split; [rewrite (VpH_st w1 w2 S1); exact HV |].
    split; [rewrite (Vp_st pk w1 w2 S1); exact HV' | split; [congruence | split; congruence]].
  Qed.

  Lemma B_lstat_world (p : str) (w1 : world) (r : mres finfo) (w2 : world) :
    a_lstat osfs p w1 = (r, w2) -> w2 = w1.
  Proof.
    cbn [osfs a_lstat]. intros E. pose proof (fs_get_world _ (fun s => fs_lstat s p) w1) as Hw.
    rewrite E in Hw. exact Hw.
  Qed.

  Lemma removeall_leaf_sim (w : world) (p : str) (fi : finfo) (w0 : world) :
    quiet w -> abs_cleaned p -> shownb h p = true ->
    a_lstat TA p w = (MOk fi, w0) -> is_dir_info fi = false ->
    forall r w1, a_remove TA p w = (r, w1) -> exists w2, a_removeall AH p w = (r, w2) /\ wsim w1 w2.
  Proof.
    intros Hq Hac Hs Hl Hnd r w1 Hrm.
    assert (Hish : is_hidden p [h] = Some false) by (rewrite (is_hidden_ac h Hh p Hac), Hs; reflexivity).
    rewrite (NH_removeall tag h Hh p Hac Hs w).
    cbn [spy a_lstat a_remove] in Hl, Hrm.
    rewrite (LawsOsfsBase.spied_quiet _ tag (PM MLstat) p [] _ w Hq) in Hl.
    rewrite (LawsOsfsBase.spied_quiet _ tag (PM MRemove) p [] _ w Hq) in Hrm.
    rewrite (LawsOsfsBase.spied_quiet _ tag (PM MRemoveAll) p [] _ w Hq).
    destruct (a_lstat osfs p (tickw w)) as [[fi' | e |] wl] eqn:El; try discriminate Hl.
    injection Hl as -> _. pose proof (B_lstat_world p _ _ _ El) as ->.
    assert (Einner : hidden_removeall [h] osfs
                       (layered_with (hidden_layer [h]) osfs null_api) p (tickw w) =
                     a_remove osfs p (tickw w)).
    { unfold hidden_removeall. unfold bind at 1. unfold try_.
      change (a_lstat (layered_with (hidden_layer [h]) osfs null_api) p)
        with (a_lstat (layered (hidden_layer [h]) osfs) p).
      rewrite (sh_lstat [h] osfs p Hish (tickw w)), El. rewrite Hnd. cbn [negb].
      change (a_remove (layered_with (hidden_layer [h]) osfs null_api) p)
        with (a_remove (layered (hidden_layer [h]) osfs) p).
      exact (sh_remove [h] osfs p Hish (tickw w)). }
    rewrite Einner.
    destruct (a_remove osfs p (tickw w)) as [[a | e |] w3]; injection Hrm as <- <-;
      eexists; (split; [reflexivity | repeat split]).
  Qed.

  Lemma nondir_no_children (s : store) (p : str) (n : node) :
    swf s -> s !! p = Some n -> node_kind n <> KDir -> no_children s p.
  Proof.
    intros Hwf Hp Hk q nq Hq _ Hin.
    destruct (swf_lookup_sdirect _ _ _ Hwf Hq) as [_ Hf]. rewrite List.Forall_forall in Hf.
    destruct (Hf p Hin) as [m Hm]. rewrite Hm in Hp. injection Hp as <-. apply Hk. reflexivity.
  Qed.

  Lemma n_law_removeall_leaf : forall w p n, quiet w -> swf (V w) -> snolinkpar (V w) p -> V w !! p = Some n ->
    node_kind n <> KDir -> p <> s_root ->
    exists s', ok_step V V' (a_removeall AH p) w tt s' /\ s' !! p = None /\ store_eqv_except [p] s' (V w) /\ swf s'.
  Proof.
    intros w p n Hq Hwf Hnl Hl Hk Hne. su w Hwf. present w p n Hl Hnl.
    pose proof (V_snolinkpar w p Hd Hs Hnl) as Hnl0.
    destruct (law_lstat_some _ _ _ _ _ _ _ _ _ L0 w p n Hq Hwf0 Hnl0 Hl0) as (fi & (wl & Hlst & _) & Him & _).
    assert (Hfd : is_dir_info fi = false).
    { unfold is_dir_info. rewrite (proj1 Him). destruct (node_kind n); [contradiction Hk; reflexivity | reflexivity | reflexivity]. }
    destruct (law_remove_leaf _ _ _ _ _ _ _ _ _ L0 w p n Hq Hwf0 Hnl0 Hl0 (nondir_no_children _ p n Hwf0 Hl0 Hk) Hne (nnh p))
      as (s0 & Hstep & Hp & Heqv & Hswf).
    destruct (resolved_cases w p Hwf0 Hnl0) as [_ Hrc].
    assert (Hfr : frame_of (a_remove TA p) w).
    { apply (frame1 p); try assumption. apply fpr0_remove; assumption. }
    destruct (new_transfer (a_remove TA p) w tt p s0 Hstep Heqv Hswf Hd Hs Hfr) as (H1 & H2 & H3 & H4).
    exists (FH h s0). split; [| split; [rewrite H2; exact Hp | split; [exact H3 | exact H4]]].
    apply (ok_step_sim (a_removeall AH p) (a_remove TA p)); [| exact H1].
    exact (removeall_leaf_sim w p fi wl Hq Hac Hs Hlst Hfd).
  Qed.

  (* ---------------------------------------------------------------- *)
  (** ** the user's own mutations: frames *)

  Lemma not_in1 (p : str) : shownb h p = true -> ~ In h [p].
  Proof. intros Hs [E | []]. exact (shown_ne_h h p Hs E). Qed.

  Lemma n_law_user_create : forall w p, quiet w -> swf (V w) -> snolinkpar (V w) p -> snotlink (V w) p ->
    framed V V' (a_create AH p) w [p].
  Proof.
    intros w p Hq Hwf Hnl Hsl. su w Hwf. pose proof (proj1 Hnl) as Hac.
    destruct (shownb h p) eqn:Hs.
    - pose proof (V_snolinkpar w p Hd Hs Hnl) as Hnl0. pose proof (V_snotlink w p Hd Hs Hsl) as Hsl0.
      apply (framed_map (a_create AH p) (a_create TA p) (mark p [h])); [apply NH_create; assumption |].
      apply framed_transfer; [exact (law_user_create _ _ _ _ _ _ _ _ _ L0 w p Hq Hwf0 Hnl0 Hsl0) | exact Hd
                             | exact (not_in1 p Hs) |].
      destruct (resolved_cases w p Hwf0 Hnl0) as [_ Hrc].
      apply (frame1 p); try assumption. apply fpr0_create; try assumption. exact (notlink_world w p Hok Hac Hsl0).
    - apply (rej_framed (a_create AH p) (PM MCreate) p [] (ELayer EHiddenPerm) w); [exact Hq | exact Hwf |].
      apply NH_create_hid; assumption.
  Qed.

  Lemma n_law_user_openfile : forall w p fl perm, quiet w -> swf (V w) -> snolinkpar (V w) p -> snotlink (V w) p ->
    framed V V' (a_openfile AH p fl perm) w [p].
  Proof.
    intros w p fl perm Hq Hwf Hnl Hsl. su w Hwf. pose proof (proj1 Hnl) as Hac.
    destruct (shownb h p) eqn:Hs.
    - pose proof (V_snolinkpar w p Hd Hs Hnl) as Hnl0. pose proof (V_snotlink w p Hd Hs Hsl) as Hsl0.
      apply (framed_map (a_openfile AH p fl perm) (a_openfile TA p fl perm) (mark p [h])); [apply NH_openfile; assumption |].
      apply framed_transfer; [exact (law_user_openfile _ _ _ _ _ _ _ _ _ L0 w p fl perm Hq Hwf0 Hnl0 Hsl0) | exact Hd
                             | exact (not_in1 p Hs) |].
      destruct (resolved_cases w p Hwf0 Hnl0) as [_ Hrc].
      apply (frame1 p); try assumption. apply fpr0_openfile; try assumption. right. exact (notlink_world w p Hok Hac Hsl0).
    - destruct (NH_openfile_hid tag h Hh p Hac Hs fl perm w) as [e E].
      exact (rej_framed (a_openfile AH p fl perm) (PM MOpenFile) p [] e w [p] Hq Hwf E).
  Qed.

  Lemma map_fst_ok_inv {X Y} (k : X -> Y) (rw : mres X * world) (y : Y) (w1 : world) :
    map_fst (mres_map k) rw = (MOk y, w1) -> exists x, rw = (MOk x, w1) /\ y = k x.
  Proof.
    destruct rw as [[x | e |] w2]; unfold map_fst; cbn [fst snd mres_map]; intros E; try discriminate E.
    injection E as <- <-. exists x. split; reflexivity.
  Qed.

  Lemma n_law_user_handle : forall w p r w1, quiet w -> swf (V w) -> snolinkpar (V w) p -> snotlink (V w) p ->
    (exists fl perm, a_openfile AH p fl perm w = (r, w1)) \/ a_create AH p w = (r, w1) ->
    forall x data, r = MOk x -> quiet w1 -> swf (V w1) -> framed V V' (write_close x data) w1 [p].
  Proof.
    intros w p r w1 Hq Hwf Hnl Hsl Hopen x data Er Hq1 Hwf1. subst r. su w Hwf. pose proof (proj1 Hnl) as Hac.
    destruct (shownb h p) eqn:Hs.
    - pose proof (V_snolinkpar w p Hd Hs Hnl) as Hnl0. pose proof (V_snotlink w p Hd Hs Hsl) as Hsl0.
      assert (Hx : fh_spy x = Some (tag, p) /\ h_key (fh x) = comps p).
      { destruct Hopen as [(fl & perm & Hrun) | Hrun].
        - rewrite (NH_openfile tag h Hh p Hac Hs fl perm w) in Hrun.
          destruct (map_fst_ok_inv _ _ _ _ Hrun) as (x0 & Hrun0 & ->).
          exact (openfile_handle0 tag w p fl perm x0 w1 Hq Hwf0 Hnl0 Hsl0 Hrun0).
        - rewrite (NH_create tag h Hh p Hac Hs w) in Hrun.
          destruct (map_fst_ok_inv _ _ _ _ Hrun) as (x0 & Hrun0 & ->).
          exact (create_handle0 tag w p x0 w1 Hq Hwf0 Hnl0 Hsl0 Hrun0). }
      destruct Hx as [Hspy Hkey].
      destruct (setup w1 Hwf1) as (Hwf10 & Hd1 & Hok1).
      apply framed_transfer;
        [exact (write_close_framed0 tag x p data w1 Hq1 Hwf10 Hac Hspy Hkey) | exact Hd1 | exact (not_in1 p Hs) |].
      apply (frame1 p); try assumption. apply (fpr0_write_close tag x p w1 data); assumption.
    - exfalso. destruct Hopen as [(fl & perm & Hrun) | Hrun].
      + destruct (NH_openfile_hid tag h Hh p Hac Hs fl perm w) as [e E].
        rewrite E, (spied_fail_quiet tag (PM MOpenFile) p [] e w Hq) in Hrun. discriminate Hrun.
      + rewrite (NH_create_hid tag h Hh p Hac Hs w) in Hrun. unfold hfail in Hrun.
        rewrite (spied_fail_quiet tag (PM MCreate) p [] _ w Hq) in Hrun. discriminate Hrun.
  Qed.

  Lemma n_law_user_mkdir : forall w p perm, quiet w -> swf (V w) -> snolinkpar (V w) p ->
    framed V V' (a_mkdir AH p perm) w [p].
  Proof.
    intros w p perm Hq Hwf Hnl. su w Hwf. pose proof (proj1 Hnl) as Hac.
    destruct (shownb h p) eqn:Hs.
    - pose proof (V_snolinkpar w p Hd Hs Hnl) as Hnl0.
      apply (framed_ext (a_mkdir AH p perm) (a_mkdir TA p perm)); [apply NH_mkdir; assumption |].
      apply framed_transfer; [exact (law_user_mkdir _ _ _ _ _ _ _ _ _ L0 w p perm Hq Hwf0 Hnl0) | exact Hd
                             | exact (not_in1 p Hs) |].
      destruct (resolved_cases w p Hwf0 Hnl0) as [_ Hrc].
      apply (frame1 p); try assumption. apply fpr0_mkdir; assumption.
    - apply (rej_framed (a_mkdir AH p perm) (PM MMkdir) p [] (ELayer EHiddenPerm) w); [exact Hq | exact Hwf |].
      apply NH_mkdir_hid; assumption.
  Qed.

  Lemma n_law_user_mkdirall : forall w p perm, quiet w -> swf (V w) -> snolinkpar (V w) p ->
    framed V V' (a_mkdirall AH p perm) w (cands p).
  Proof.
    intros w p perm Hq Hwf Hnl. su w Hwf. pose proof (proj1 Hnl) as Hac.
    destruct (shownb h p) eqn:Hs.
    - pose proof (V_snolinkpar w p Hd Hs Hnl) as Hnl0.
      apply (framed_ext (a_mkdirall AH p perm) (a_mkdirall TA p perm)); [apply NH_mkdirall; assumption |].
      apply framed_transfer; [exact (law_user_mkdirall _ _ _ _ _ _ _ _ _ L0 w p perm Hq Hwf0 Hnl0) | exact Hd | |].
      + apply shown_not_in. apply List.Forall_forall. intros q Hq'. exact (shownb_cands h p q Hac Hs Hq').
      + apply frame_mkdirall; assumption.
    - apply (rej_framed (a_mkdirall AH p perm) (PM MMkdirAll) p [] (ELayer EHiddenPerm) w); [exact Hq | exact Hwf |].
      apply NH_mkdirall_hid; assumption.
  Qed.

  Lemma n_law_user_remove : forall w p, quiet w -> swf (V w) -> snolinkpar (V w) p -> p <> s_root ->
    framed V V' (a_remove AH p) w [p].
  Proof.
    intros w p Hq Hwf Hnl Hne. su w Hwf. pose proof (proj1 Hnl) as Hac.
    destruct (shownb h p) eqn:Hs.
    - pose proof (V_snolinkpar w p Hd Hs Hnl) as Hnl0.
      apply (framed_ext (a_remove AH p) (a_remove TA p)); [apply NH_remove; assumption |].
      apply framed_transfer; [exact (law_user_remove _ _ _ _ _ _ _ _ _ L0 w p Hq Hwf0 Hnl0 Hne) | exact Hd
                             | exact (not_in1 p Hs) |].
      destruct (resolved_cases w p Hwf0 Hnl0) as [_ Hrc].
      apply (frame1 p); try assumption. apply fpr0_remove; assumption.
    - apply (rej_framed (a_remove AH p) (PM MRemove) p [] (ELayer EHiddenNotExist) w); [exact Hq | exact Hwf |].
      apply NH_remove_hid; assumption.
  Qed.

  Lemma n_law_user_chmod : forall w p mode, quiet w -> swf (V w) -> snolinkpar (V w) p -> snotlink (V w) p ->
    framed V V' (a_chmod AH p mode) w [p].
  Proof.
    intros w p mode Hq Hwf Hnl Hsl. su w Hwf. pose proof (proj1 Hnl) as Hac.
    destruct (shownb h p) eqn:Hs.
    - pose proof (V_snolinkpar w p Hd Hs Hnl) as Hnl0. pose proof (V_snotlink w p Hd Hs Hsl) as Hsl0.
      apply (framed_ext (a_chmod AH p mode) (a_chmod TA p mode)); [apply NH_chmod; assumption |].
      apply framed_transfer; [exact (law_user_chmod _ _ _ _ _ _ _ _ _ L0 w p mode Hq Hwf0 Hnl0 Hsl0) | exact Hd
                             | exact (not_in1 p Hs) |].
      destruct (resolved_cases w p Hwf0 Hnl0) as [_ Hrc].
      apply (frame1 p); try assumption. apply fpr0_chmod; try assumption. exact (notlink_world w p Hok Hac Hsl0).
    - apply (rej_framed (a_chmod AH p mode) (PM MChmod) p [] (ELayer EHiddenNotExist) w); [exact Hq | exact Hwf |].
      apply NH_chmod_hid; assumption.
  Qed.

  Lemma n_law_user_chown : forall w p u g, quiet w -> swf (V w) -> snolinkpar (V w) p -> snotlink (V w) p ->
    framed V V' (a_chown AH p u g) w [p].
  Proof.
    intros w p u g Hq Hwf Hnl Hsl. su w Hwf. pose proof (proj1 Hnl) as Hac.
    destruct (shownb h p) eqn:Hs.
    - pose proof (V_snolinkpar w p Hd Hs Hnl) as Hnl0. pose proof (V_snotlink w p Hd Hs Hsl) as Hsl0.
      apply (framed_ext (a_chown AH p u g) (a_chown TA p u g)); [apply NH_chown; assumption |].
      apply framed_transfer; [exact (law_user_chown _ _ _ _ _ _ _ _ _ L0 w p u g Hq Hwf0 Hnl0 Hsl0) | exact Hd
                             | exact (not_in1 p Hs) |].
      destruct (resolved_cases w p Hwf0 Hnl0) as [_ Hrc].
      apply (frame1 p); try assumption. apply fpr0_chown; try assumption. exact (notlink_world w p Hok Hac Hsl0).
    - apply (rej_framed (a_chown AH p u g) (PM MChown) p [] (ELayer EHiddenNotExist) w); [exact Hq | exact Hwf |].
      apply NH_chown_hid; assumption.
  Qed.

  Lemma n_law_user_chtimes : forall w p t, quiet w -> swf (V w) -> snolinkpar (V w) p -> snotlink (V w) p ->
    framed V V' (a_chtimes AH p t) w [p].
  Proof.
    intros w p t Hq Hwf Hnl Hsl. su w Hwf. pose proof (proj1 Hnl) as Hac.
    destruct (shownb h p) eqn:Hs.
    - pose proof (V_snolinkpar w p Hd Hs Hnl) as Hnl0. pose proof (V_snotlink w p Hd Hs Hsl) as Hsl0.
      apply (framed_ext (a_chtimes AH p t) (a_chtimes TA p t)); [apply NH_chtimes; assumption |].
      apply framed_transfer; [exact (law_user_chtimes _ _ _ _ _ _ _ _ _ L0 w p t Hq Hwf0 Hnl0 Hsl0) | exact Hd
                             | exact (not_in1 p Hs) |].
      destruct (resolved_cases w p Hwf0 Hnl0) as [_ Hrc].
      apply (frame1 p); try assumption. apply fpr0_chtimes; try assumption. exact (notlink_world w p Hok Hac Hsl0).
    - apply (rej_framed (a_chtimes AH p t) (PM MChtimes) p [] (ELayer EHiddenNotExist) w); [exact Hq | exact Hwf |].
      apply NH_chtimes_hid; assumption.
  Qed.

  Lemma n_law_user_lchown : forall w p u g, quiet w -> swf (V w) -> snolinkpar (V w) p ->
    framed V V' (a_lchown AH p u g) w [p].
  Proof.
    intros w p u g Hq Hwf Hnl. su w Hwf. pose proof (proj1 Hnl) as Hac.
    destruct (shownb h p) eqn:Hs.
    - pose proof (V_snolinkpar w p Hd Hs Hnl) as Hnl0.
      apply (framed_ext (a_lchown AH p u g) (a_lchown TA p u g)); [apply NH_lchown; assumption |].
      apply framed_transfer; [exact (law_user_lchown _ _ _ _ _ _ _ _ _ L0 w p u g Hq Hwf0 Hnl0) | exact Hd
                             | exact (not_in1 p Hs) |].
      destruct (resolved_cases w p Hwf0 Hnl0) as [_ Hrc].
      apply (frame1 p); try assumption. apply fpr0_lchown; assumption.
    - apply (rej_framed (a_lchown AH p u g) (PM MLchown) p [] (ELayer EHiddenNotExist) w); [exact Hq | exact Hwf |].
      apply NH_lchown_hid; assumption.
  Qed.

  Lemma n_law_user_symlink : forall w t p, quiet w -> swf (V w) -> snolinkpar (V w) p ->
    framed V V' (a_symlink AH t p) w [p].
  Proof.
    intros w t p Hq Hwf Hnl. su w Hwf. pose proof (proj1 Hnl) as Hac.
    destruct (shownb h p) eqn:Hs.
    - destruct (is_hidden (to_abs_symlink t p) [h]) as [[|]|] eqn:Ht.
      + destruct (NH_symlink_rej tag h Hh t p w) as [e E]; [rewrite Ht; discriminate |].
        exact (rej_framed (a_symlink AH t p) (PM MSymlink) p t e w [p] Hq Hwf E).
      + pose proof (V_snolinkpar w p Hd Hs Hnl) as Hnl0.
        apply (framed_ext (a_symlink AH t p) (a_symlink TA t p)); [apply NH_symlink; assumption |].
        apply framed_transfer; [exact (law_user_symlink _ _ _ _ _ _ _ _ _ L0 w t p Hq Hwf0 Hnl0) | exact Hd
                               | exact (not_in1 p Hs) |].
        destruct (resolved_cases w p Hwf0 Hnl0) as [_ Hrc].
        apply (frame1 p); try assumption. apply fpr0_symlink; assumption.
      + destruct (NH_symlink_rej tag h Hh t p w) as [e E]; [rewrite Ht; discriminate |].
        exact (rej_framed (a_symlink AH t p) (PM MSymlink) p t e w [p] Hq Hwf E).
    - destruct (NH_symlink_hid tag h Hh p Hac Hs t w) as [e E].
      exact (rej_framed (a_symlink AH t p) (PM MSymlink) p t e w [p] Hq Hwf E).
  Qed.

  Lemma n_law_user_rename : forall w po pn, quiet w -> swf (V w) -> snolinkpar (V w) po -> snolinkpar (V w) pn ->
    no_children (V w) po -> framed V V' (a_rename AH po pn) w [po; pn].
  Proof.
    intros w po pn Hq Hwf Hnlo Hnln Hnc. su w Hwf.
    pose proof (proj1 Hnlo) as Haco. pose proof (proj1 Hnln) as Hacn.
    destruct (shownb h po) eqn:Hso.
    2:{ destruct (NH_rename_old_hid tag h Hh po Haco Hso pn w) as [e E].
        exact (rej_framed (a_rename AH po pn) (PM MRename) po pn e w _ Hq Hwf E). }
    destruct (shownb h pn) eqn:Hsn.
    2:{ destruct (NH_rename_new_hid tag h Hh pn Hacn Hsn po w) as [e E].
        exact (rej_framed (a_rename AH po pn) (PM MRename) po pn e w _ Hq Hwf E). }
    destruct (anc_dec h po) as [Han | Hna].
    { apply (rej_framed (a_rename AH po pn) (PM MRename) po pn (ELayer EHiddenPerm) w); [exact Hq | exact Hwf |].
      exact (NH_rename_anc tag h Hh po Haco Hso pn w Hacn Hsn Han). }
    pose proof (V_snolinkpar w po Hd Hso Hnlo) as Hnlo0. pose proof (V_snolinkpar w pn Hd Hsn Hnln) as Hnln0.
    rewrite V0H_FH in Hnc. pose proof (no_children_FH h Hh _ po Hwf0 Hd Haco Hso Hna Hnc) as Hnc0.
    apply (framed_ext (a_rename AH po pn) (a_rename TA po pn));
      [exact (NH_rename_shown tag h Hh po Haco Hso pn w Hacn Hsn Hna) |].
    apply framed_transfer; [exact (law_user_rename _ _ _ _ _ _ _ _ _ L0 w po pn Hq Hwf0 Hnlo0 Hnln0 Hnc0) | exact Hd | |].
    - intros [E | [E | []]]; [exact (shown_ne_h h po Hso E) | exact (shown_ne_h h pn Hsn E)].
    - destruct (resolved_cases w po Hwf0 Hnlo0) as [_ Hrco]. destruct (resolved_cases w pn Hwf0 Hnln0) as [_ Hrcn].
      unfold frame_of. apply (frame_fp [po; pn] (a_rename TA po pn) w).
      + constructor; [exact Haco | constructor; [exact Hacn | constructor]].
      + constructor; [exact Hso | constructor; [exact Hsn | constructor]].
      + exact Hok.
      + apply fpr0_rename; try assumption.
        exact (proj1 (no_children_V0 w po Hok Haco) Hnc0).
  Qed.

  Lemma n_law_tnorm_idem : forall t, tn_0 (tn_0 t) = tn_0 t.
  Proof. reflexivity. Qed.

  Lemma n_law_anc_dec : forall p, anc_h h p \/ ~ anc_h h p.
  Proof. intros p. apply anc_dec. Qed.

  (* ---------------------------------------------------------------- *)
  (** * The reading laws of Spec/Laws2.v *)

  Lemma framed_pure {X} (m : M X) (w : world) (r : mres X) (w' : world) (t : list str) :
    m w = (r, w') -> r <> MHalt -> swf (V w) -> pure_step w w' -> framed V V' m w t.
  Proof.
    intros E Hnh Hwf (S1 & S2 & S3 & S4). exists r, w'. split; [exact E | split; [exact Hnh |]].
    split; [exact (same_rest_st w w' S1 S2 S3 S4) |].
    rewrite (VpH_st w w' S1). split; [exact Hwf | apply store_eqv_except_refl].
  Qed.

  Lemma n_law2_stat : forall w p, quiet w -> swf (V w) -> snolinkpar (V w) p -> framed V V' (a_stat AH p) w [].
  Proof.
    intros w p Hq Hwf Hnl. su w Hwf. pose proof (proj1 Hnl) as Hac.
    destruct (shownb h p) eqn:Hs.
    - pose proof (V_snolinkpar w p Hd Hs Hnl) as Hnl0.
      apply (framed_ext (a_stat AH p) (a_stat TA p)); [apply NH_stat; assumption |].
      apply framed_transfer; [exact (law2_stat _ _ _ _ _ _ _ L02 w p Hq Hwf0 Hnl0) | exact Hd | intros [] |].
      apply (frame1 p); try assumption. apply fpr0_stat; assumption.
    - apply (rej_framed (a_stat AH p) (PM MStat) p [] (ELayer EHiddenNotExist) w); [exact Hq | exact Hwf |].
      apply NH_stat_hid; assumption.
  Qed.

  Lemma n_law2_readlink : forall w p, quiet w -> swf (V w) -> snolinkpar (V w) p -> framed V V' (a_readlink AH p) w [].
  Proof.
    intros w p Hq Hwf Hnl. su w Hwf. pose proof (proj1 Hnl) as Hac.
    destruct (shownb h p) eqn:Hs.
    - pose proof (V_snolinkpar w p Hd Hs Hnl) as Hnl0.
      apply (framed_ext (a_readlink AH p) (a_readlink TA p)); [apply NH_readlink; assumption |].
      apply framed_transfer; [exact (law2_readlink _ _ _ _ _ _ _ L02 w p Hq Hwf0 Hnl0) | exact Hd | intros [] |].
      apply (frame1 p); try assumption. apply fpr0_readlink; assumption.
    - apply (rej_framed (a_readlink AH p) (PM MReadlink) p [] (ELayer EHiddenNotExist) w); [exact Hq | exact Hwf |].
      apply NH_readlink_hid; assumption.
  Qed.

  Lemma frame_open_ro (w : world) (p : str) : quiet w -> abs_cleaned p -> frame_of (a_openfile TA p 0 0) w.
  Proof.
    intros Hq Hac. apply frame_st. intros r w' E. rewrite (run0_open_ro tag w p Hq) in E.
    injection E as _ <-. reflexivity.
  Qed.

  Lemma n_law2_open_ro : forall w p, quiet w -> swf (V w) -> snolinkpar (V w) p ->
    framed V V' (a_openfile AH p 0 0) w [].
  Proof.
    intros w p Hq Hwf Hnl. su w Hwf. pose proof (proj1 Hnl) as Hac.
    destruct (shownb h p) eqn:Hs.
    - pose proof (V_snolinkpar w p Hd Hs Hnl) as Hnl0.
      apply (framed_map (a_openfile AH p 0 0) (a_openfile TA p 0 0) (mark p [h])); [apply NH_openfile; assumption |].
      apply framed_transfer; [exact (law2_open_ro _ _ _ _ _ _ _ L02 w p Hq Hwf0 Hnl0) | exact Hd | intros [] |].
      exact (frame_open_ro w p Hq Hac).
    - destruct (NH_openfile_hid tag h Hh p Hac Hs 0%N 0%N w) as [e E].
      exact (rej_framed (a_openfile AH p 0 0) (PM MOpenFile) p [] e w [] Hq Hwf E).
  Qed.

  (** listing through a spied, marked handle *)
  Lemma hreaddirnames_marked (x : fhandle) (q dirp : str) (hs : list str) (w : world) :
    quiet w -> fh_spy x = Some (tag, q) -> fh_hidden x = Some (dirp, hs) ->
    exists r, hreaddirnames x w = (r, after tag PReaddirnames q [] (err_of r) w (w_st w)) /\ r <> MHalt /\
      forall l, r = MOk l -> exists names, fs_readdirnames (w_st w) (fh x) = Ok names /\
        l = List.filter (fun e => match is_hidden (join2 dirp e) hs with Some false => true | _ => false end) names.
  Proof.
    intros Hq Hspy Hhid. unfold hreaddirnames. rewrite (spy_h_spied _ x tag q PReaddirnames _ Hspy). rewrite Hhid.
    set (op := (names <- fs_get (fun s => fs_readdirnames s (fh x)) ;;
                match fst (hidden_list dirp hs (-1) names) with
                | LOk l | LEof l => ret l
                | LErr => fail (ELayer EHiddenCheck)
                end)).
    assert (Hop : exists r, op (tickw w) = (r, tickw w) /\ r <> MHalt /\
              forall l, r = MOk l -> exists names, fs_readdirnames (w_st w) (fh x) = Ok names /\
                l = List.filter (fun e => match is_hidden (join2 dirp e) hs with Some false => true | _ => false end) names).
    { unfold op, bind. rewrite fs_get_run. change (w_st (tickw w)) with (w_st w).
      destruct (fs_readdirnames (w_st w) (fh x)) as [names | e]; cbn [mres_of].
      - unfold hidden_list. change ((-1 <=? 0)%Z) with true. cbv iota.
        unfold take. change ((-1 <=? 0)%Z) with true. cbv iota beta.
        destruct (filter_visible dirp hs names) as [vis |] eqn:Ef; cbn [fst].
        + exists (MOk vis). split; [reflexivity | split; [discriminate |]].
          intros l E. injection E as <-. exists names. split; [reflexivity |].
          exact (proj1 (filter_visible_spec dirp hs names vis Ef)).
        + exists (MErr (ELayer EHiddenCheck)). split; [reflexivity | split; [discriminate |]]. intros l E. discriminate E.
      - exists (MErr e). split; [reflexivity | split; [discriminate |]]. intros l E. discriminate E. }
    destruct Hop as (r & Eop & Hnh & Hl). exists r. split; [| split; [exact Hnh | exact Hl]].
    rewrite (LawsOsfsBase.spied_quiet_run _ tag PReaddirnames q [] op w r (tickw w) Hq Eop Hnh).
    unfold after. rewrite set_st_tickw_same. reflexivity.
  Qed.

  Lemma n_law2_ro_handle : forall w p x w1, quiet w -> swf (V w) -> snolinkpar (V w) p ->
    a_openfile AH p 0 0 w = (MOk x, w1) ->
    forall w2, quiet w2 -> swf (V w2) ->
      (forall acc, framed V V' (read_all tree_fuel x acc) w2 []) /\
      framed V V' (hreaddirnames x) w2 [] /\
      framed V V' (hclose x) w2 [] /\
      (forall d, framed V V' (write_close x d) w2 []).
  Proof.
    intros w p x w1 Hq Hwf Hnl Hrun w2 Hq2 Hwf2. pose proof (proj1 Hnl) as Hac.
    destruct (shownb h p) eqn:Hs.
    2:{ exfalso. destruct (NH_openfile_hid tag h Hh p Hac Hs 0%N 0%N w) as [e E].
        rewrite E, (spied_fail_quiet tag (PM MOpenFile) p [] e w Hq) in Hrun. discriminate Hrun. }
    rewrite (NH_openfile tag h Hh p Hac Hs 0%N 0%N w) in Hrun.
    destruct (map_fst_ok_inv _ _ _ _ Hrun) as (x0 & Hrun0 & ->).
    rewrite (run0_open_ro tag w p Hq) in Hrun0.
    destruct (fs_open_ro (w_st w) p) as [_ Hw].
    destruct (fst (fs_open (w_st w) p 0 0)) as [hh | e] eqn:Ef;
      cbn [mres_of mres_map] in Hrun0; [| discriminate Hrun0].
    injection Hrun0 as <- _. specialize (Hw hh eq_refl).
    set (x := mark p [h] (the_handle0 tag p hh)).
    assert (Hspy : fh_spy x = Some (tag, p)) by reflexivity.
    split; [| split; [| split]].
    - intros acc. destruct (read_all_pure tag tree_fuel x p acc w2 Hq2 Hspy) as (r & w' & E & Hnh & Hps).
      exact (framed_pure (read_all tree_fuel x acc) w2 r w' [] E Hnh Hwf2 Hps).
    - destruct (hreaddirnames_marked x p p [h] w2 Hq2 Hspy eq_refl) as (r & E & Hnh & _).
      apply (framed_pure (hreaddirnames x) w2 r _ [] E Hnh Hwf2). apply pure_step_after.
    - apply (framed_pure (hclose x) w2 (MOk tt) _ [] (hclose_quiet tag x p w2 Hq2 Hspy)); [discriminate | exact Hwf2 |].
      apply pure_step_after.
    - intros d. destruct (write_close_ro_pure tag x p d w2 Hq2 Hspy Hw) as (r & w' & E & Hnh & Hps).
      exact (framed_pure (write_close x d) w2 r w' [] E Hnh Hwf2 Hps).
  Qed.

  Lemma n_law2_readdir : forall w p m, quiet w -> swf (V w) -> snolinkpar (V w) p -> V w !! p = Some (Dir m) ->
    exists r w', read_dir_names AH p w = (r, w') /\ r <> MHalt /\ V w' = V w /\ same_rest V' w w' /\
      forall names, r = MOk names ->
        Forall (fun nm => V w !! join2 p nm <> None /\ In p (ancestors (join2 p nm))) names.
  Proof.
    intros w p m Hq Hwf Hnl Hl. su w Hwf. present w p (Dir m) Hl Hnl.
    destruct (V0_lookup_Some_inv w p _ Hl0) as (_ & _ & Hnd).
    pose proof (present_direct0 _ p _ Hok Hac Hnd) as Hdir.
    assert (Hnlk : not_link_at (st_fs (w_st w)) (comps p)).
    { intros m' t' E. norm_keys. congruence. }
    pose proof (run0_open tag w Hq Hok p Hac Hdir Hnlk) as Hopen.
    revert Hopen. norm_keys. rewrite Hnd. rewrite finmap_ok. intros Hopen.
    unfold read_dir_names. unfold bind at 1.
    rewrite (NH_open tag h Hh p Hac Hs w), Hopen. unfold map_fst. cbn [fst snd mres_map].
    match type of Hopen with _ = (MOk ?hh, ?ww) => set (w1 := ww) end.
    match goal with |- context [hreaddirnames ?y] => set (x := y) end.
    assert (Hq1 : quiet w1) by (apply quiet_after; exact Hq).
    assert (Hspy : fh_spy x = Some (tag, p)) by reflexivity.
    destruct (hreaddirnames_marked x p p [h] w1 Hq1 Hspy eq_refl) as (r & E & Hnh & Hlist).
    unfold bind at 1. unfold try_ at 1. rewrite E.
    set (w2 := after tag PReaddirnames p [] (err_of r) w1 (w_st w1)) in *.
    assert (Hq2 : quiet w2) by (apply quiet_after; exact Hq1).
    assert (Hcl : hclose x w2 = (MOk tt, after tag PClose p [] None w2 (w_st w2))) by exact (hclose_quiet tag x p w2 Hq2 Hspy).
    assert (Hsame : forall w3, w3 = after tag PClose p [] None w2 (w_st w2) ->
              V w3 = V w /\ same_rest V' w w3).
    { intros w3 ->. split; [apply VpH_st; reflexivity | apply same_rest_st; reflexivity]. }
    destruct r as [l | e |]; [| | contradiction Hnh; reflexivity].
    - unfold bind at 1. unfold try_ at 1. rewrite Hcl. unfold ret.
      eexists. eexists. split; [reflexivity |]. split; [discriminate |].
      destruct (Hsame _ eq_refl) as [HV HS]. split; [exact HV | split; [exact HS |]].
      intros names E'. injection E' as <-.
      destruct (Hlist l eq_refl) as (names0 & Hn0 & ->).
      apply List.Forall_forall. intros nm Hin.
      apply (Permutation_in nm (isort_perm str_ltb _)) in Hin.
      apply filter_In in Hin. destruct Hin as [Hin Hvis].
      rewrite fs_readdirnames_eq in Hn0. change (h_dir (fh x)) with true in Hn0. cbv iota in Hn0.
      injection Hn0 as <-.
      change (h_key (fh x)) with (comps p) in Hin. change (w_st w1) with (w_st w) in Hin.
      destruct (child_names_rview _ p nm Hok Hac Hin) as (H1 & H2).
      split; [| exact H2]. rewrite <- (V0_ok w Hok) in H1.
      destruct (V0 w !! join2 p nm) as [nn |] eqn:Hnn; [| contradiction H1; reflexivity].
      pose proof (proj1 (proj2 (V0_lookup_Some_inv w _ _ Hnn))) as Hacj.
      assert (Hsj : shownb h (join2 p nm) = true).
      { pose proof (is_hidden_ac h Hh _ Hacj) as Hih.
        assert (Hv2 : match is_hidden (join2 p nm) (@cons str h (@nil str)) with Some false => true | _ => false end = true)
          by exact Hvis.
        rewrite Hih in Hv2. destruct (shownb h (join2 p nm)); [reflexivity | discriminate Hv2]. }
      intros Hc. pose proof (V_lookup_shown w (join2 p nm) Hd Hsj) as Hv.
      pose proof (eq_trans (eq_sym Hc) (eq_trans Hv Hnn)) as Hx. discriminate Hx.
    - unfold bind at 1. unfold try_ at 1. rewrite Hcl. unfold fail.
      eexists. eexists. split; [reflexivity |]. split; [discriminate |].
      destruct (Hsame _ eq_refl) as [HV HS]. split; [exact HV | split; [exact HS |]].
      intros names E'. discriminate E'.
  Qed.

  (* ---------------------------------------------------------------- *)
  (** * The records *)

  Lemma hid_api0_laws_aux :
    api_laws AH V V' tn_0 (acc_0 h) (rh_0 tag) (wh_0 tag) (hid_h h) (anc_h h).
  Proof.
    constructor.
    - exact n_law_infos_indep.
    - exact n_law_lstat_some.
    - exact n_law_lstat_none.
    - exact n_law_readlink.
    - exact n_law_open_file.
    - exact n_law_open_err.
    - exact n_law_hread.
    - exact n_law_hstat.
    - exact n_law_hclose_r.
    - exact n_law_mkdirall_new.
    - exact n_law_mkdirall_dir.
    - exact n_law_chmod.
    - exact n_law_chtimes.
    - exact n_law_chown.
    - exact n_law_lchown.
    - exact n_law_symlink.
    - exact n_law_openfile_new.
    - exact n_law_openfile_trunc.
    - exact n_law_hwrite.
    - exact n_law_hclose_w.
    - exact n_law_remove_leaf.
    - exact n_law_removeall_leaf.
    - exact n_law_remove_none.
    - exact n_law_remove_nonempty.
    - exact n_law_user_create.
    - exact n_law_user_openfile.
    - exact n_law_user_handle.
    - exact n_law_user_mkdir.
    - exact n_law_user_mkdirall.
    - exact n_law_user_remove.
    - exact n_law_user_rename.
    - exact n_law_user_chmod.
    - exact n_law_user_chown.
    - exact n_law_user_chtimes.
    - exact n_law_user_lchown.
    - exact n_law_user_symlink.
    - exact n_law_tnorm_idem.
    - exact n_law_hid_absent.
    - exact n_law_anc_dir.
    - exact n_law_remove_anc.
    - exact n_law_anc_dec.
  Qed.

  Lemma hid_api0_laws2_aux :
    api_laws2 AH V V' tn_0 (acc_0 h) (rh_0 tag) (wh_0 tag).
  Proof.
    constructor.
    - exact n_law2_stat.
    - exact n_law2_readlink.
    - exact n_law2_open_ro.
    - exact n_law2_ro_handle.
    - exact n_law2_readdir.
  Qed.
End Transfer.
