(** Foundation for the laws of [spy tag osfs] - the OS filesystem itself,
    no PrefixFS - with the view [V0] of the whole filesystem
    (Spec/ViewRoot.v): the counterpart of sections C and F of
    Proofs/LawsOsfsBase.v for "the root as prefix".  The view path of an entry
    is its absolute cleaned path, its key [comps p]; link targets are shown as
    stored.

    - 1. the view: lookup, bridging predicates, [swf], frames, preservation of
      [world_okb s_root];
    - 2. one-step equations [run0_*] for every method of [spy tag osfs] on a
      quiet world (from the master equations of Proofs/FsFacts.v). *)
From stdpp Require Import gmap.
From BFS Require Import Spec.CopySpecs Spec.ViewOsfs Spec.ViewRoot.
From BFS Require Import Proofs.LawsOsfsBase Proofs.BackupCopy.
Local Open Scope nat_scope.

Notation rok f := (world_okb s_root f = true).

(* ------------------------------------------------------------------ *)
(** * 1. The view *)

Lemma rview_entry_Some (k : key) (nd : node) (p : str) (n : node) :
  rview_entry (k, nd) = Some (p, n) <-> p = kpath k /\ n = nd.
Proof.
  unfold rview_entry. cbn [fst snd]. split.
  - intros E. injection E as <- <-. split; reflexivity.
  - intros [-> ->]. reflexivity.
Qed.

Lemma rview_NoDup (f : fs) : keys_good f -> base.NoDup (omap rview_entry (entries f)).*1.
Proof.
  intros Hg. unfold entries. change (gmap_to_list f) with (map_to_list f).
  apply NoDup_fst_omap; [apply NoDup_fst_map_to_list |].
  intros [k nd] [k' nd'] [p n] [p' n'] H1 H2 E1 E2 Ep. simpl in Ep. subst p'. simpl.
  apply elem_of_map_to_list in H1. apply elem_of_map_to_list in H2.
  apply rview_entry_Some in E1. destruct E1 as [E1 _]. apply rview_entry_Some in E2. destruct E2 as [E2 _].
  apply kpath_inj_good; [exact (Hg k nd H1) | exact (Hg k' nd' H2) | congruence].
Qed.

Lemma rview_lookup_Some (f : fs) (p : str) (n : node) :
  keys_good f -> (rview f !! p = Some n <-> exists k, f !! k = Some n /\ p = kpath k).
Proof.
  intros Hg. unfold rview.
  rewrite <- (elem_of_list_to_map (omap rview_entry (entries f)) p n (rview_NoDup f Hg)).
  rewrite elem_of_list_omap. split.
  - intros [[k nd] [Hin E]]. apply rview_entry_Some in E. destruct E as [-> ->].
    exists k. split; [| reflexivity]. apply entries_In. apply In_elem_of. exact Hin.
  - intros (k & Hl & ->). exists (k, n). split; [apply In_elem_of; apply entries_In; exact Hl |].
    apply rview_entry_Some. split; reflexivity.
Qed.

Lemma rview_lookup_ac (f : fs) (p : str) : keys_good f -> abs_cleaned p -> rview f !! p = f !! comps p.
Proof.
  intros Hg Hac. destruct (f !! comps p) as [nd |] eqn:E.
  - apply (rview_lookup_Some f p nd Hg). exists (comps p). split; [exact E | symmetry; apply kpath_comps; exact Hac].
  - destruct (rview f !! p) as [n |] eqn:Ev; [| reflexivity]. exfalso.
    apply (rview_lookup_Some f p n Hg) in Ev. destruct Ev as (k & Hl & ->).
    rewrite (comps_kpath_good k (Hg k n Hl)) in E. norm_keys. congruence.
Qed.

Lemma rview_key_ac (f : fs) (p : str) (n : node) : keys_good f -> rview f !! p = Some n -> abs_cleaned p.
Proof.
  intros Hg H. apply (rview_lookup_Some f p n Hg) in H. destruct H as (k & Hl & ->).
  apply kpath_good_abs_cleaned. exact (Hg k n Hl).
Qed.

Lemma rview_lookup_not_ac (f : fs) (p : str) : keys_good f -> ~ abs_cleaned p -> rview f !! p = None.
Proof.
  intros Hg Hn. destruct (rview f !! p) as [n |] eqn:E; [| reflexivity].
  exfalso. apply Hn. exact (rview_key_ac f p n Hg E).
Qed.

(** ** [V0] *)
Lemma V0_ok (w : world) : rok (st_fs (w_st w)) -> V0 w = rview (st_fs (w_st w)).
Proof. intros H. unfold V0. rewrite H. reflexivity. Qed.

Lemma V0_not_ok (w : world) : world_okb s_root (st_fs (w_st w)) = false -> V0 w = ∅.
Proof. intros H. unfold V0. rewrite H. reflexivity. Qed.

Lemma V0_st (w w' : world) : w_st w' = w_st w -> V0 w' = V0 w.
Proof. intros E. unfold V0. rewrite E. reflexivity. Qed.

Lemma rok_keys_good (f : fs) : rok f -> keys_good f.
Proof. apply world_okb_keys_good. Qed.

Lemma V0_lookup (w : world) (p : str) :
  rok (st_fs (w_st w)) -> abs_cleaned p -> V0 w !! p = st_fs (w_st w) !! comps p.
Proof. intros H Hac. rewrite (V0_ok w H). apply rview_lookup_ac; [apply rok_keys_good; exact H | exact Hac]. Qed.

Lemma swf_V0_rok (w : world) : swf (V0 w) -> rok (st_fs (w_st w)).
Proof.
  intros H. destruct (world_okb s_root (st_fs (w_st w))) eqn:E; [reflexivity |].
  rewrite (V0_not_ok w E) in H. exfalso. exact (swf_not_empty H).
Qed.

Lemma V0_lookup_Some_ok (w : world) (p : str) (n : node) : V0 w !! p = Some n -> rok (st_fs (w_st w)).
Proof.
  intros H. destruct (world_okb s_root (st_fs (w_st w))) eqn:E; [reflexivity |].
  rewrite (V0_not_ok w E), lookup_empty in H. discriminate H.
Qed.

Lemma V0_lookup_Some_inv (w : world) (p : str) (n : node) :
  V0 w !! p = Some n -> rok (st_fs (w_st w)) /\ abs_cleaned p /\ st_fs (w_st w) !! comps p = Some n.
Proof.
  intros H. pose proof (V0_lookup_Some_ok w p n H) as Hok. split; [exact Hok |].
  rewrite (V0_ok w Hok) in H. pose proof (rview_key_ac _ p n (rok_keys_good _ Hok) H) as Hac.
  split; [exact Hac |]. rewrite (rview_lookup_ac _ p (rok_keys_good _ Hok) Hac) in H. exact H.
Qed.

(** ** bridging predicates *)
Lemma sdir_rview (f : fs) (a : str) :
  keys_good f -> abs_cleaned a -> (sdir (rview f) a <-> is_dir_at f (comps a)).
Proof. intros Hg Hac. unfold sdir, is_dir_at. rewrite (rview_lookup_ac f a Hg Hac). reflexivity. Qed.

Lemma snotlink_rview (f : fs) (a : str) :
  keys_good f -> abs_cleaned a -> (snotlink (rview f) a <-> not_link_at f (comps a)).
Proof. intros Hg Hac. unfold snotlink, not_link_at. rewrite (rview_lookup_ac f a Hg Hac). reflexivity. Qed.

Lemma kprefix_ac (p : str) (k' : key) : abs_cleaned p -> In k' (kprefixes (comps p)) ->
  abs_cleaned (kpath k') /\ comps (kpath k') = k'.
Proof.
  intros Hac Hk'. pose proof (kprefixes_good _ _ (good_key_comps p (proj2 Hac)) Hk') as G.
  split; [exact (kpath_good_abs_cleaned k' G) | exact (comps_kpath_good k' G)].
Qed.

Lemma sdirect_rview (f : fs) (p : str) :
  keys_good f -> abs_cleaned p -> (sdirect (rview f) p <-> direct f p).
Proof.
  intros Hg Hac. unfold sdirect, direct. rewrite (Forall_ancestors _ p Hac), Forall_kprefixes.
  assert (Heq : forall k', In k' (kprefixes (comps p)) -> (sdir (rview f) (kpath k') <-> is_dir_at f k')).
  { intros k' Hk'. destruct (kprefix_ac p k' Hac Hk') as [Hkac Ec]. rewrite (sdir_rview f _ Hg Hkac), Ec. reflexivity. }
  split.
  - intros [_ H]. split; [exact Hac |]. intros pre r Hr E. apply (Heq pre); [| apply H];
      apply kprefixes_In; exists r; (split; [exact Hr | exact E]).
  - intros [_ H]. split; [exact Hac |]. intros k' Hk'. apply (Heq k' Hk').
    apply kprefixes_In in Hk'. destruct Hk' as (r & Hr & E). exact (H k' r Hr E).
Qed.

Lemma snolinkpar_rview (f : fs) (p : str) :
  keys_good f -> abs_cleaned p -> (snolinkpar (rview f) p <-> nolinkpar f p).
Proof.
  intros Hg Hac. unfold snolinkpar, nolinkpar. rewrite (Forall_ancestors _ p Hac), Forall_kprefixes.
  assert (Heq : forall k', In k' (kprefixes (comps p)) -> (snotlink (rview f) (kpath k') <-> not_link_at f k')).
  { intros k' Hk'. destruct (kprefix_ac p k' Hac Hk') as [Hkac Ec]. rewrite (snotlink_rview f _ Hg Hkac), Ec. reflexivity. }
  split.
  - intros [_ H]. split; [exact Hac |]. intros pre r Hr E. apply (Heq pre); [| apply H];
      apply kprefixes_In; exists r; (split; [exact Hr | exact E]).
  - intros [_ H]. split; [exact Hac |]. intros k' Hk'. apply (Heq k' Hk').
    apply kprefixes_In in Hk'. destruct Hk' as (r & Hr & E). exact (H k' r Hr E).
Qed.

Lemma snotlink_V0 (w : world) (a : str) :
  rok (st_fs (w_st w)) -> abs_cleaned a -> (snotlink (V0 w) a <-> not_link_at (st_fs (w_st w)) (comps a)).
Proof. intros H Hac. rewrite (V0_ok w H). apply snotlink_rview; [apply rok_keys_good; exact H | exact Hac]. Qed.

Lemma present_direct0 (f : fs) (p : str) (n : node) :
  rok f -> abs_cleaned p -> f !! comps p = Some n -> direct f p.
Proof. intros Hok Hac Hl. exact (wf_present_direct f p n (world_okb_wf _ _ Hok) Hac Hl). Qed.

(** the two cases of a resolved name *)
Definition rcase0 (w : world) (p : str) : Prop :=
  direct (st_fs (w_st w)) p \/ (unresolvable (st_fs (w_st w)) p /\ st_fs (w_st w) !! comps p = None).

Lemma snl_setup0 (w : world) (p : str) : swf (V0 w) -> snolinkpar (V0 w) p ->
  rok (st_fs (w_st w)) /\ abs_cleaned p /\ rcase0 w p.
Proof.
  intros Hwf Hnl. pose proof (swf_V0_rok w Hwf) as Hok. pose proof (proj1 Hnl) as Hac.
  split; [exact Hok | split; [exact Hac |]].
  rewrite (V0_ok w Hok) in Hnl. apply (snolinkpar_rview _ p (rok_keys_good _ Hok) Hac) in Hnl.
  destruct (direct_decidable (st_fs (w_st w)) p Hac) as [H | H]; [left; exact H |].
  right. split.
  - exact (nolinkpar_unresolvable _ _ (world_okb_wf _ _ Hok) Hnl H).
  - destruct (st_fs (w_st w) !! comps p) as [n |] eqn:E; [| reflexivity].
    exfalso. apply H. exact (present_direct0 _ p n Hok Hac E).
Qed.

Lemma sdirect_V0 (w : world) (p : str) :
  rok (st_fs (w_st w)) -> sdirect (V0 w) p -> abs_cleaned p /\ direct (st_fs (w_st w)) p.
Proof.
  intros H Hd. pose proof (proj1 Hd) as Hac. split; [exact Hac |].
  rewrite (V0_ok w H) in Hd. exact (proj1 (sdirect_rview _ p (rok_keys_good _ H) Hac) Hd).
Qed.

(** ** the view of a good world is well formed *)
Lemma swf_rview (f : fs) : rok f -> swf (rview f).
Proof.
  intros Hok. pose proof (rok_keys_good _ Hok) as Hg. split.
  - apply (sdir_rview f s_root Hg abs_cleaned_root_ac). rewrite comps_root.
    exact (world_okb_prefix_dir _ _ Hok).
  - intros p n Hv. pose proof (rview_key_ac f p n Hg Hv) as Hac.
    rewrite (rview_lookup_ac f p Hg Hac) in Hv. split.
    + apply (sdirect_rview f p Hg Hac). exact (present_direct0 f p n Hok Hac Hv).
    + exact (world_okb_perm12 s_root f _ n Hok Hv).
Qed.

Lemma swf_V0_iff (w : world) : swf (V0 w) <-> rok (st_fs (w_st w)).
Proof. split; [apply swf_V0_rok |]. intros H. rewrite (V0_ok w H). apply swf_rview. exact H. Qed.

(** ** updates *)
Lemma comps_inj_ac (p q : str) : abs_cleaned p -> abs_cleaned q -> comps p = comps q -> p = q.
Proof. apply abs_cleaned_comps_inj. Qed.

Lemma rview_insert (f : fs) (p : str) (n : node) :
  keys_good f -> abs_cleaned p -> rview (<[comps p := n]> f) = <[p := n]> (rview f).
Proof.
  intros Hg Hac.
  assert (Hg' : keys_good (<[comps p := n]> f)).
  { apply keys_good_insert; [exact Hg | apply good_key_comps; exact (proj2 Hac)]. }
  apply map_eq. intros q. destruct (str_eq_dec q p) as [E | E].
  - subst q. rewrite lookup_insert, (rview_lookup_ac _ p Hg' Hac), lookup_insert. reflexivity.
  - rewrite lookup_insert_ne by congruence. destruct (abs_cleaned_dec q) as [Hq | Hq].
    + rewrite (rview_lookup_ac _ q Hg' Hq), (rview_lookup_ac _ q Hg Hq).
      rewrite lookup_insert_ne; [reflexivity |]. intro E'. apply E. symmetry. exact (comps_inj_ac p q Hac Hq E').
    + rewrite (rview_lookup_not_ac _ q Hg' Hq), (rview_lookup_not_ac _ q Hg Hq). reflexivity.
Qed.

Lemma node_eqv_snode (a b : node) : node_eqv a b -> snode_eqv a b.
Proof.
  intros H. destruct a as [ma | ma ca | ma ta], b as [mb | mb cb | mb tb]; simpl in H; try discriminate H.
  - exact H.
  - injection H as E1 E2. subst. apply snode_eqv_refl.
  - injection H as E1 E2. subst. apply snode_eqv_refl.
Qed.

Lemma onode_eqv_sonode (a b : option node) : onode_eqv a b -> sonode_eqv a b.
Proof. destruct a as [a |], b as [b |]; simpl; intros H; try exact H. apply node_eqv_snode. exact H. Qed.

(** world nodes equivalent outside the keys of [ps]: views equivalent outside [ps] *)
Lemma rview_eqv_except (f f' : fs) (ps : list str) :
  keys_good f -> keys_good f' -> Forall abs_cleaned ps ->
  (forall k, (forall q, In q ps -> k <> comps q) -> onode_eqv (f' !! k) (f !! k)) ->
  store_eqv_except ps (rview f') (rview f).
Proof.
  intros Hg Hg' Hps H q Hq. destruct (abs_cleaned_dec q) as [Hac | Hac].
  - rewrite (rview_lookup_ac _ q Hg' Hac), (rview_lookup_ac _ q Hg Hac).
    apply onode_eqv_sonode. apply H. intros q' Hq' E. apply Hq.
    rewrite List.Forall_forall in Hps. rewrite (comps_inj_ac q q' Hac (Hps q' Hq') E). exact Hq'.
  - rewrite (rview_lookup_not_ac _ q Hg' Hac), (rview_lookup_not_ac _ q Hg Hac). exact I.
Qed.

Lemma comps_ne_root (p : str) : abs_cleaned p -> p <> s_root -> comps p <> [].
Proof. intros Hac Hne E. apply Hne. apply (abs_cleaned_comps_nil p Hac). exact E. Qed.

Lemma comps_split (p : str) : comps p <> [] -> removelast (comps p) ++ [last (comps p) []] = comps p.
Proof. apply removelast_last_snoc. Qed.

(** ** [no_children] and listings *)
Lemma no_children_rview (f : fs) (p : str) :
  keys_good f -> abs_cleaned p -> (no_children (rview f) p <-> has_children f (comps p) = false).
Proof.
  intros Hg Hac. rewrite has_children_false_iff. unfold no_children. split.
  - intros H r Hr. destruct (f !! (comps p ++ r)) as [n |] eqn:E; [| reflexivity]. exfalso.
    pose proof (Hg _ _ E) as G.
    assert (Hq : abs_cleaned (kpath (comps p ++ r))) by (apply kpath_good_abs_cleaned; exact G).
    assert (Hcq : comps (kpath (comps p ++ r)) = comps p ++ r) by (apply comps_kpath_good; exact G).
    apply (H (kpath (comps p ++ r)) n).
    + rewrite (rview_lookup_ac f _ Hg Hq), Hcq. exact E.
    + intro Eq. rewrite <- (kpath_comps p Hac) in Eq at 2.
      apply kpath_inj_good in Eq; [| exact G | apply good_key_comps; exact (proj2 Hac)].
      rewrite <- (app_nil_r (comps p)) in Eq at 2. apply app_inv_head in Eq. exact (Hr Eq).
    + apply (ancestors_In _ p Hq). exists (comps p). split; [| symmetry; apply kpath_comps; exact Hac].
      rewrite Hcq. apply kprefixes_In. exists r. split; [exact Hr | reflexivity].
  - intros H q n Hq Hne Hin.
    pose proof (rview_key_ac f q n Hg Hq) as Hqac.
    apply (ancestors_In q p Hqac) in Hin. destruct Hin as [k' [Hk' Ek']].
    pose proof Hk' as Hk''. apply kprefixes_In in Hk''. destruct Hk'' as [r [Hr Er]].
    assert (Ek : comps p = k').
    { rewrite Ek'. apply comps_kpath_good. eapply kprefixes_good; [| exact Hk'].
      apply good_key_comps. exact (proj2 Hqac). }
    rewrite (rview_lookup_ac f q Hg Hqac) in Hq. rewrite Er, <- Ek in Hq.
    pose proof (H r Hr) as Hn. norm_keys. rewrite Hn in Hq. discriminate Hq.
Qed.

Lemma child_names_rview (f : fs) (p c : str) :
  rok f -> abs_cleaned p -> In c (child_names f (comps p)) ->
  rview f !! join2 p c <> None /\ In p (ancestors (join2 p c)).
Proof.
  intros Hok Hac Hin. pose proof (rok_keys_good _ Hok) as Hg.
  apply child_names_In in Hin. destruct Hin as [n Hn].
  pose proof (Hg _ _ Hn) as G.
  assert (Gc : good_compb c = true).
  { apply forallb_good_compb_spec in G. rewrite forallb_app in G. apply andb_true_iff in G.
    destruct G as [_ G]. cbn [forallb] in G. rewrite andb_true_r in G. exact G. }
  pose proof (join2_child_abs_cleaned p c Hac Gc) as Hjac.
  pose proof (comps_join2_child p c Hac Gc) as Hjc.
  split.
  - rewrite (rview_lookup_ac f _ Hg Hjac), Hjc, Hn. discriminate.
  - exact (ancestors_join2_child p c Hac Gc).
Qed.

(** ** preservation of [world_okb s_root] *)
Lemma rok_add_entry (s : fstate) (p : str) mk :
  rok (st_fs s) -> abs_cleaned p -> p <> s_root ->
  is_dir_at (st_fs s) (removelast (comps p)) -> st_fs s !! comps p = None ->
  (forall t g, perm12 (mk t g)) ->
  rok (st_fs (add_entry s (removelast (comps p)) (last (comps p) []) mk)).
Proof.
  intros Hok Hac Hne Hpd Hnew Hperm. pose proof (comps_ne_root p Hac Hne) as Hc.
  apply world_okb_add_entry; try assumption.
  - rewrite (comps_split p Hc). exact Hnew.
  - pose proof (good_key_comps p (proj2 Hac)) as G. apply forallb_good_compb_spec in G.
    rewrite forallb_forall in G. apply G.
    rewrite <- (comps_split p Hc) at 2. apply in_or_app. right. left. reflexivity.
Qed.

Lemma rok_remove_entry (s : fstate) (p : str) :
  rok (st_fs s) -> abs_cleaned p -> p <> s_root -> has_children (st_fs s) (comps p) = false ->
  rok (st_fs (remove_entry s (comps p))).
Proof.
  intros Hok Hac Hne Hnc. pose proof (comps_ne_root p Hac Hne) as Hc.
  apply world_okb_remove_entry; assumption.
Qed.

(* ------------------------------------------------------------------ *)
(** * 2. One-step equations for [spy tag osfs] on a quiet world *)

(** the handle [Open]/[OpenFile]/[Create] return for the OS handle [hh] *)
Definition the_handle0 (tag : fstag) (p : str) (hh : handle) : fhandle := mkFh hh p (Some (tag, p)) None.

Tactic Notation "dl0" constr(p) "as" simple_intropattern(pat) :=
  norm_keys;
  match goal with
  | |- context [@lookup ?K ?V ?Mp ?I (comps p) ?f] =>
      destruct (@lookup K V Mp I (comps p) f) as pat
  end.

Tactic Notation "dl0" constr(p) "as" simple_intropattern(pat) "eqn" ":" ident(H) :=
  norm_keys;
  match goal with
  | |- context [@lookup ?K ?V ?Mp ?I (comps p) ?f] =>
      destruct (@lookup K V Mp I (comps p) f) as pat eqn:H
  end.

Lemma none_comps_ne (f : fs) (k : key) : rok f -> f !! k = None -> k <> [].
Proof.
  intros Hok Hn E. subst k. destruct (world_okb_prefix_dir _ _ Hok) as [m Hm].
  unfold kp in Hm. rewrite comps_root in Hm. norm_keys. congruence.
Qed.

Section Run0.
  Variable tag : fstag.
  Notation A0 := (spy tag osfs).
  Variable w : world.
  Hypothesis Hq : quiet w.
  Hypothesis Hok : rok (st_fs (w_st w)).
  Variable p : str.
  Hypothesis Hac : abs_cleaned p.

  Lemma A0_openfile_eq (fl perm : N) (w1 : world) :
    a_openfile A0 p fl perm w1 =
    spied tag (PM MOpenFile) p [] (mapM (the_handle0 tag p) (fs_upd (fun s => fs_open s p fl perm))) w1.
  Proof.
    cbn [spy osfs a_openfile]. apply LawsOsfsBase.spied_ext. intros w2. unfold mapM, os_openfile, bind, ret.
    destruct (fs_upd (fun s => fs_open s p fl perm) w2) as [[h | e |] w3]; reflexivity.
  Qed.

  Lemma A0_open_eq (w1 : world) :
    a_open A0 p w1 =
    spied tag (PM MOpen) p [] (mapM (the_handle0 tag p) (fs_upd (fun s => fs_open s p 0 0))) w1.
  Proof.
    cbn [spy osfs a_open]. apply LawsOsfsBase.spied_ext. intros w2. unfold mapM, os_openfile, bind, ret.
    destruct (fs_upd (fun s => fs_open s p 0 0) w2) as [[h | e |] w3]; reflexivity.
  Qed.

  Lemma A0_create_eq (w1 : world) :
    a_create A0 p w1 =
    spied tag (PM MCreate) p [] (mapM (the_handle0 tag p) (fs_upd (fun s => fs_open s p 578 438))) w1.
  Proof.
    cbn [spy osfs a_create]. apply LawsOsfsBase.spied_ext. intros w2. unfold mapM, os_openfile, bind, ret.
    destruct (fs_upd (fun s => fs_open s p 578 438) w2) as [[h | e |] w3]; reflexivity.
  Qed.

  Set Default Proof Using "Hq Hok Hac".

  (** reading never changes the state *)
  Lemma run0_lstat_gen : a_lstat A0 p w = fin tag (PM MLstat) p [] w (fs_lstat (w_st w) p, w_st w).
  Proof. cbn [spy osfs a_lstat]. apply spied_fs_get_fin. exact Hq. Qed.
  Lemma run0_stat_gen : a_stat A0 p w = fin tag (PM MStat) p [] w (fs_stat (w_st w) p, w_st w).
  Proof. cbn [spy osfs a_stat]. apply spied_fs_get_fin. exact Hq. Qed.
  Lemma run0_readlink_gen : a_readlink A0 p w = fin tag (PM MReadlink) p [] w (fs_readlink (w_st w) p, w_st w).
  Proof. cbn [spy osfs a_readlink]. apply spied_fs_get_fin. exact Hq. Qed.

  Section Direct0.
  Hypothesis Hdir : direct (st_fs (w_st w)) p.
  Set Default Proof Using "Hq Hok Hac Hdir".

  Lemma run0_lstat :
    a_lstat A0 p w =
    fin tag (PM MLstat) p [] w
      (match st_fs (w_st w) !! comps p with
       | Some n => Ok (info_of (base p) n)
       | None => Err ENOENT
       end, w_st w).
  Proof. rewrite run0_lstat_gen, (fs_lstat_direct (w_st w) p Hdir). reflexivity. Qed.

  Lemma run0_readlink :
    a_readlink A0 p w =
    fin tag (PM MReadlink) p [] w
      (match st_fs (w_st w) !! comps p with
       | Some (Link _ t) => Ok t
       | Some _ => Err EINVAL
       | None => Err ENOENT
       end, w_st w).
  Proof. rewrite run0_readlink_gen, (fs_readlink_direct_gen (w_st w) p Hdir). reflexivity. Qed.

  Notation mkdir_node perm :=
    (fun (t : mtime) (g : N) => Dir (mkMeta (N.lor (N.land perm 1023%N)
                                   (if parent_sgid (st_fs (w_st w)) (removelast (comps p))
                                    then sgid_bit else 0%N)) 0%N g t)).

  Lemma run0_mkdir (perm : N) :
    a_mkdir A0 p perm w =
    fin tag (PM MMkdir) p [] w
      (match st_fs (w_st w) !! comps p with
       | Some _ => (Err EEXIST, w_st w)
       | None => (Ok tt, add_entry (w_st w) (removelast (comps p)) (last (comps p) []) (mkdir_node perm))
       end).
  Proof.
    cbn [spy osfs a_mkdir]. rewrite (spied_fs_upd_fin _ tag (PM MMkdir) p [] _ w Hq).
    rewrite (fs_mkdir_direct (w_st w) p perm Hdir). dl0 p as [n |] eqn:E; [reflexivity |].
    pose proof (none_comps_ne _ _ Hok E) as Hc. destruct (comps p); [contradiction Hc; reflexivity | reflexivity].
  Qed.

  Lemma run0_mkdirall (perm : N) : not_link_at (st_fs (w_st w)) (comps p) ->
    a_mkdirall A0 p perm w =
    fin tag (PM MMkdirAll) p [] w
      (match st_fs (w_st w) !! comps p with
       | Some (Dir _) => (Ok tt, w_st w)
       | Some _ => (Err ENOTDIR, w_st w)
       | None => (Ok tt, add_entry (w_st w) (removelast (comps p)) (last (comps p) []) (mkdir_node perm))
       end).
  Proof.
    intros Hnl. cbn [spy osfs a_mkdirall]. rewrite (spied_fs_upd_fin _ tag (PM MMkdirAll) p [] _ w Hq).
    dl0 p as [[m | m c | m t] |] eqn:E.
    - rewrite (fs_mkdirall_direct_dir (w_st w) p perm m Hdir E). reflexivity.
    - rewrite (fs_mkdirall_direct_file (w_st w) p perm m c Hdir E). reflexivity.
    - exfalso. exact (Hnl m t E).
    - rewrite (fs_mkdirall_direct_missing_eq (w_st w) p perm Hdir (none_comps_ne _ _ Hok E) E). reflexivity.
  Qed.

  (** Remove of anything but the root *)
  Lemma run0_remove : comps p <> [] ->
    a_remove A0 p w =
    fin tag (PM MRemove) p [] w
      (match st_fs (w_st w) !! comps p with
       | Some (Dir _) =>
           if has_children (st_fs (w_st w)) (comps p) then (Err ENOTEMPTY, w_st w)
           else (Ok tt, remove_entry (w_st w) (comps p))
       | Some _ => (Ok tt, remove_entry (w_st w) (comps p))
       | None => (Err ENOENT, w_st w)
       end).
  Proof.
    intros Hc. cbn [spy osfs a_remove]. rewrite (spied_fs_upd_fin _ tag (PM MRemove) p [] _ w Hq).
    rewrite (fs_remove_direct (w_st w) p Hdir). dl0 p as [[m | m c | m t] |]; try reflexivity.
    destruct (comps p); [contradiction Hc; reflexivity | reflexivity].
  Qed.

  Lemma run0_removeall : comps p <> [] ->
    a_removeall A0 p w =
    fin tag (PM MRemoveAll) p [] w
      (match st_fs (w_st w) !! comps p with
       | Some _ =>
           (Ok tt,
            mkFstate (touch_dir (delete_subtree (st_fs (w_st w)) (comps p))
                                (removelast (comps p)) (Now (st_clock (w_st w))))
                     (N.succ (st_clock (w_st w))))
       | None => (Ok tt, w_st w)
       end).
  Proof.
    intros Hc. cbn [spy osfs a_removeall]. rewrite (spied_fs_upd_fin _ tag (PM MRemoveAll) p [] _ w Hq).
    rewrite (fs_removeall_direct (w_st w) p Hdir). dl0 p as [n |]; [| reflexivity].
    destruct (comps p); [contradiction Hc; reflexivity | reflexivity].
  Qed.

  Lemma run0_chmod (mode : N) : not_link_at (st_fs (w_st w)) (comps p) ->
    a_chmod A0 p mode w =
    fin tag (PM MChmod) p [] w
      (match st_fs (w_st w) !! comps p with
       | Some n => (Ok tt, update_node (w_st w) (comps p) (with_meta n (set_perm mode)))
       | None => (Err ENOENT, w_st w)
       end).
  Proof.
    intros Hnl. cbn [spy osfs a_chmod]. rewrite (spied_fs_upd_fin _ tag (PM MChmod) p [] _ w Hq).
    rewrite (fs_chmod_direct (w_st w) p mode Hdir Hnl). reflexivity.
  Qed.

  Lemma run0_chtimes (t : mtime) : not_link_at (st_fs (w_st w)) (comps p) ->
    a_chtimes A0 p t w =
    fin tag (PM MChtimes) p [] w
      (match st_fs (w_st w) !! comps p with
       | Some n => (Ok tt, update_node (w_st w) (comps p) (with_meta n (set_mt t)))
       | None => (Err ENOENT, w_st w)
       end).
  Proof.
    intros Hnl. cbn [spy osfs a_chtimes]. rewrite (spied_fs_upd_fin _ tag (PM MChtimes) p [] _ w Hq).
    rewrite (fs_chtimes_direct (w_st w) p t Hdir Hnl). reflexivity.
  Qed.

  Lemma run0_chown (u g : Z) : not_link_at (st_fs (w_st w)) (comps p) ->
    a_chown A0 p u g w =
    fin tag (PM MChown) p [] w
      (match st_fs (w_st w) !! comps p with
       | Some n => (Ok tt, update_node (w_st w) (comps p) (chown_node n u g))
       | None => (Err ENOENT, w_st w)
       end).
  Proof.
    intros Hnl. cbn [spy osfs a_chown]. rewrite (spied_fs_upd_fin _ tag (PM MChown) p [] _ w Hq).
    rewrite (fs_chown_direct (w_st w) p u g Hdir Hnl). reflexivity.
  Qed.

  Lemma run0_lchown (u g : Z) :
    a_lchown A0 p u g w =
    fin tag (PM MLchown) p [] w
      (match st_fs (w_st w) !! comps p with
       | Some n => (Ok tt, update_node (w_st w) (comps p) (chown_node n u g))
       | None => (Err ENOENT, w_st w)
       end).
  Proof.
    cbn [spy osfs a_lchown]. rewrite (spied_fs_upd_fin _ tag (PM MLchown) p [] _ w Hq).
    rewrite (fs_lchown_direct (w_st w) p u g Hdir). reflexivity.
  Qed.

  Lemma run0_symlink (t : str) : t <> [] ->
    a_symlink A0 t p w =
    fin tag (PM MSymlink) p t w
      (match st_fs (w_st w) !! comps p with
       | Some _ => (Err EEXIST, w_st w)
       | None =>
           (Ok tt, add_entry (w_st w) (removelast (comps p)) (last (comps p) [])
                     (fun t0 g => Link (mkMeta 511%N 0%N g t0) t))
       end).
  Proof.
    intros Ht. cbn [spy osfs a_symlink]. rewrite (spied_fs_upd_fin _ tag (PM MSymlink) p t _ w Hq).
    rewrite (fs_symlink_direct (w_st w) t p Hdir Ht). dl0 p as [n |] eqn:E; [reflexivity |].
    pose proof (none_comps_ne _ _ Hok E) as Hc. destruct (comps p); [contradiction Hc; reflexivity | reflexivity].
  Qed.

  Lemma run0_openfile (fl perm : N) :
    (o_creat fl && o_excl fl = true \/ not_link_at (st_fs (w_st w)) (comps p)) ->
    a_openfile A0 p fl perm w =
    finmap (the_handle0 tag p) tag (PM MOpenFile) p [] w
      (match st_fs (w_st w) !! comps p with
       | Some n =>
           if o_creat fl && o_excl fl then (Err EEXIST, w_st w)
           else
             match n with
             | Dir _ =>
                 if o_wronly fl || o_rdwr fl || o_creat fl || o_trunc fl then (Err EISDIR, w_st w)
                 else (Ok (mkHandle (comps p) 0%N false true false true p), w_st w)
             | File m c =>
                 if o_trunc fl then
                   (Ok (mkHandle (comps p) 0%N (o_wronly fl || o_rdwr fl) (negb (o_wronly fl))
                                 (o_append fl) false p),
                    update_node (mkFstate (st_fs (w_st w)) (N.succ (st_clock (w_st w)))) (comps p)
                      (File (mkMeta (m_perm m) (m_uid m) (m_gid m) (Now (st_clock (w_st w)))) []))
                 else
                   (Ok (mkHandle (comps p) 0%N (o_wronly fl || o_rdwr fl) (negb (o_wronly fl))
                                 (o_append fl) false p), w_st w)
             | Link _ _ => (Err ELOOP, w_st w)
             end
       | None =>
           if o_creat fl then
             (Ok (mkHandle (comps p) 0%N (o_wronly fl || o_rdwr fl) (negb (o_wronly fl))
                           (o_append fl) false p),
              add_entry (w_st w) (removelast (comps p)) (last (comps p) [])
                (fun t g => File (mkMeta (N.land perm 4095%N) 0%N g t) []))
           else (Err ENOENT, w_st w)
       end).
  Proof.
    intros Hside. rewrite A0_openfile_eq.
    rewrite (spied_fs_upd_finmap _ _ _ tag (PM MOpenFile) p [] _ w Hq).
    rewrite (fs_open_direct (w_st w) p fl perm Hdir Hside).
    dl0 p as [n |] eqn:E; [reflexivity |].
    pose proof (none_comps_ne _ _ Hok E) as Hc. destruct (comps p); [contradiction Hc; reflexivity | reflexivity].
  Qed.

  Lemma run0_openfile_create (perm : N) : not_link_at (st_fs (w_st w)) (comps p) ->
    a_openfile A0 p 578 perm w =
    finmap (the_handle0 tag p) tag (PM MOpenFile) p [] w
      (match st_fs (w_st w) !! comps p with
       | Some (Dir _) => (Err EISDIR, w_st w)
       | Some (File m c) =>
           (Ok (mkHandle (comps p) 0%N true true false false p),
            update_node (mkFstate (st_fs (w_st w)) (N.succ (st_clock (w_st w)))) (comps p)
              (File (mkMeta (m_perm m) (m_uid m) (m_gid m) (Now (st_clock (w_st w)))) []))
       | Some (Link _ _) => (Err ELOOP, w_st w)
       | None =>
           (Ok (mkHandle (comps p) 0%N true true false false p),
            add_entry (w_st w) (removelast (comps p)) (last (comps p) [])
              (fun t g => File (mkMeta (N.land perm 4095%N) 0%N g t) []))
       end).
  Proof.
    intros Hnl. rewrite (run0_openfile 578 perm (or_intror Hnl)).
    dl0 p as [[m | m c | m t] |]; reflexivity.
  Qed.

  Lemma run0_create : not_link_at (st_fs (w_st w)) (comps p) ->
    a_create A0 p w =
    finmap (the_handle0 tag p) tag (PM MCreate) p [] w
      (match st_fs (w_st w) !! comps p with
       | Some (Dir _) => (Err EISDIR, w_st w)
       | Some (File m c) =>
           (Ok (mkHandle (comps p) 0%N true true false false p),
            update_node (mkFstate (st_fs (w_st w)) (N.succ (st_clock (w_st w)))) (comps p)
              (File (mkMeta (m_perm m) (m_uid m) (m_gid m) (Now (st_clock (w_st w)))) []))
       | Some (Link _ _) => (Err ELOOP, w_st w)
       | None =>
           (Ok (mkHandle (comps p) 0%N true true false false p),
            add_entry (w_st w) (removelast (comps p)) (last (comps p) [])
              (fun t g => File (mkMeta (N.land 438 4095%N) 0%N g t) []))
       end).
  Proof.
    intros Hnl. rewrite A0_create_eq.
    rewrite (spied_fs_upd_finmap _ _ _ tag (PM MCreate) p [] _ w Hq).
    rewrite (fs_open_direct (w_st w) p 578 438 Hdir (or_intror Hnl)).
    dl0 p as [[m | m c | m t] |] eqn:E; try reflexivity.
    pose proof (none_comps_ne _ _ Hok E) as Hc. destruct (comps p); [contradiction Hc; reflexivity | reflexivity].
  Qed.

  Lemma run0_open : not_link_at (st_fs (w_st w)) (comps p) ->
    a_open A0 p w =
    finmap (the_handle0 tag p) tag (PM MOpen) p [] w
      (match st_fs (w_st w) !! comps p with
       | Some (Dir _) => (Ok (mkHandle (comps p) 0%N false true false true p), w_st w)
       | Some (File m c) => (Ok (mkHandle (comps p) 0%N false true false false p), w_st w)
       | Some (Link _ _) => (Err ELOOP, w_st w)
       | None => (Err ENOENT, w_st w)
       end).
  Proof.
    intros Hnl. rewrite A0_open_eq.
    rewrite (spied_fs_upd_finmap _ _ _ tag (PM MOpen) p [] _ w Hq).
    rewrite (fs_open_direct (w_st w) p 0 0 Hdir (or_intror Hnl)).
    dl0 p as [[m | m c | m t] |] eqn:E; try reflexivity.
    pose proof (none_comps_ne _ _ Hok E) as Hc. destruct (comps p); [contradiction Hc; reflexivity | reflexivity].
  Qed.
  End Direct0.
  Set Default Proof Using "Hq Hok Hac".

  (** the parents do not resolve: every call fails, nothing changes *)
  Section NotDirect0.
  Hypothesis Hun : unresolvable (st_fs (w_st w)) p.
  Set Default Proof Using "Hq Hok Hac Hun".

  Lemma run0_lstat_un : exists e,
    a_lstat A0 p w = (MErr e, after tag (PM MLstat) p [] (Some e) w (w_st w)) /\ is_not_found e = true.
  Proof.
    destruct (fs_lstat_unresolvable (w_st w) p Hun) as (e & E & Hnf). exists e. split; [| exact Hnf].
    rewrite run0_lstat_gen, E. reflexivity.
  Qed.
  Lemma run0_mkdir_un (perm : N) : exists e,
    a_mkdir A0 p perm w = (MErr e, after tag (PM MMkdir) p [] (Some e) w (w_st w)).
  Proof.
    destruct (fs_mkdir_unresolvable (w_st w) p Hac Hun perm) as (e & E & _). exists e.
    cbn [spy osfs a_mkdir]. rewrite (spied_fs_upd_fin _ tag (PM MMkdir) p [] _ w Hq), E. reflexivity.
  Qed.
  Lemma run0_remove_un : exists e,
    a_remove A0 p w = (MErr e, after tag (PM MRemove) p [] (Some e) w (w_st w)) /\ is_not_found e = true.
  Proof.
    destruct (fs_remove_unresolvable (w_st w) p Hac Hun) as (e & E & Hnf). exists e. split; [| exact Hnf].
    cbn [spy osfs a_remove]. rewrite (spied_fs_upd_fin _ tag (PM MRemove) p [] _ w Hq), E. reflexivity.
  Qed.
  Lemma run0_chmod_un (mode : N) : exists e,
    a_chmod A0 p mode w = (MErr e, after tag (PM MChmod) p [] (Some e) w (w_st w)).
  Proof.
    destruct (fs_chmod_unresolvable (w_st w) p Hun mode) as (e & E & _). exists e.
    cbn [spy osfs a_chmod]. rewrite (spied_fs_upd_fin _ tag (PM MChmod) p [] _ w Hq), E. reflexivity.
  Qed.
  Lemma run0_chown_un (u g : Z) : exists e,
    a_chown A0 p u g w = (MErr e, after tag (PM MChown) p [] (Some e) w (w_st w)).
  Proof.
    destruct (fs_chown_unresolvable (w_st w) p Hun u g) as (e & E & _). exists e.
    cbn [spy osfs a_chown]. rewrite (spied_fs_upd_fin _ tag (PM MChown) p [] _ w Hq), E. reflexivity.
  Qed.
  Lemma run0_lchown_un (u g : Z) : exists e,
    a_lchown A0 p u g w = (MErr e, after tag (PM MLchown) p [] (Some e) w (w_st w)).
  Proof.
    destruct (fs_lchown_unresolvable (w_st w) p Hun u g) as (e & E & _). exists e.
    cbn [spy osfs a_lchown]. rewrite (spied_fs_upd_fin _ tag (PM MLchown) p [] _ w Hq), E. reflexivity.
  Qed.
  Lemma run0_chtimes_un (t : mtime) : exists e,
    a_chtimes A0 p t w = (MErr e, after tag (PM MChtimes) p [] (Some e) w (w_st w)).
  Proof.
    destruct (fs_chtimes_unresolvable (w_st w) p Hun t) as (e & E & _). exists e.
    cbn [spy osfs a_chtimes]. rewrite (spied_fs_upd_fin _ tag (PM MChtimes) p [] _ w Hq), E. reflexivity.
  Qed.
  Lemma run0_symlink_un (t : str) : exists e,
    a_symlink A0 t p w = (MErr e, after tag (PM MSymlink) p t (Some e) w (w_st w)).
  Proof.
    destruct (fs_symlink_unresolvable (w_st w) p Hac Hun t) as (e & E & _). exists e.
    cbn [spy osfs a_symlink]. rewrite (spied_fs_upd_fin _ tag (PM MSymlink) p t _ w Hq), E. reflexivity.
  Qed.
  Lemma run0_openfile_un (fl perm : N) : exists e,
    a_openfile A0 p fl perm w = (MErr e, after tag (PM MOpenFile) p [] (Some e) w (w_st w)) /\
    is_not_found e = true.
  Proof.
    destruct (fs_open_unresolvable (w_st w) p Hac Hun fl perm) as (e & E & Hnf). exists e. split; [| exact Hnf].
    rewrite A0_openfile_eq, (spied_fs_upd_finmap _ _ _ tag (PM MOpenFile) p [] _ w Hq), E. reflexivity.
  Qed.
  Lemma run0_open_un : exists e,
    a_open A0 p w = (MErr e, after tag (PM MOpen) p [] (Some e) w (w_st w)) /\ is_not_found e = true.
  Proof.
    destruct (fs_open_unresolvable (w_st w) p Hac Hun 0%N 0%N) as (e & E & Hnf). exists e. split; [| exact Hnf].
    rewrite A0_open_eq, (spied_fs_upd_finmap _ _ _ tag (PM MOpen) p [] _ w Hq), E. reflexivity.
  Qed.
  Lemma run0_create_un : exists e,
    a_create A0 p w = (MErr e, after tag (PM MCreate) p [] (Some e) w (w_st w)).
  Proof.
    destruct (fs_open_unresolvable (w_st w) p Hac Hun 578%N 438%N) as (e & E & _). exists e.
    rewrite A0_create_eq, (spied_fs_upd_finmap _ _ _ tag (PM MCreate) p [] _ w Hq), E. reflexivity.
  Qed.
  End NotDirect0.
End Run0.
Unset Default Proof Using.

(* ------------------------------------------------------------------ *)
(** * 3. The view after a state change *)

Lemma V0_after_same (t : fstag) (m : pmeth) (p p2 : str) (e : option errno) (w : world) :
  V0 (after t m p p2 e w (w_st w)) = V0 w.
Proof. reflexivity. Qed.

Lemma V0_after_ok (t : fstag) (m : pmeth) (p p2 : str) (e : option errno) (w : world) (s : fstate) :
  rok (st_fs s) -> V0 (after t m p p2 e w s) = rview (st_fs s).
Proof. intros H. apply (V0_ok (after t m p p2 e w s)). exact H. Qed.

Lemma V0_with_infos (w : world) i : V0 (with_infos w i) = V0 w.
Proof. reflexivity. Qed.

Lemma rview_update_node (s : fstate) (p : str) (n : node) :
  keys_good (st_fs s) -> abs_cleaned p ->
  rview (st_fs (update_node s (comps p) n)) = <[p := n]> (rview (st_fs s)).
Proof. intros Hg Hac. rewrite update_node_fs. apply rview_insert; assumption. Qed.

Lemma rview_update_node_eqv (s : fstate) (p : str) (n : node) :
  keys_good (st_fs s) -> keys_good (st_fs (update_node s (comps p) n)) -> abs_cleaned p ->
  store_eqv_except [p] (rview (st_fs (update_node s (comps p) n))) (rview (st_fs s)).
Proof.
  intros Hg Hg' Hac. apply rview_eqv_except; try assumption; [constructor; [exact Hac | constructor] |].
  intros k Hk. apply update_node_onode_eqv. apply Hk. left. reflexivity.
Qed.

Lemma rview_add_entry_eqv (s : fstate) (p : str) mk :
  keys_good (st_fs s) ->
  keys_good (st_fs (add_entry s (removelast (comps p)) (last (comps p) []) mk)) ->
  abs_cleaned p -> comps p <> [] ->
  store_eqv_except [p] (rview (st_fs (add_entry s (removelast (comps p)) (last (comps p) []) mk)))
                   (rview (st_fs s)).
Proof.
  intros Hg Hg' Hac Hc. apply rview_eqv_except; try assumption; [constructor; [exact Hac | constructor] |].
  intros k Hk. apply add_entry_onode_eqv. rewrite (comps_split p Hc). apply Hk. left. reflexivity.
Qed.

Lemma rview_remove_entry_eqv (s : fstate) (p : str) :
  keys_good (st_fs s) -> keys_good (st_fs (remove_entry s (comps p))) -> abs_cleaned p ->
  store_eqv_except [p] (rview (st_fs (remove_entry s (comps p)))) (rview (st_fs s)).
Proof.
  intros Hg Hg' Hac. apply rview_eqv_except; try assumption; [constructor; [exact Hac | constructor] |].
  intros k Hk. apply remove_entry_onode_eqv. apply Hk. left. reflexivity.
Qed.

Lemma direct_root (f : fs) : rok f -> direct f s_root.
Proof.
  intros Hok. apply (wf_dir_direct f s_root (world_okb_wf _ _ Hok) abs_cleaned_root_ac).
  rewrite comps_root. exact (world_okb_prefix_dir _ _ Hok).
Qed.

Lemma root_dir (f : fs) : rok f -> exists m, f !! ([] : key) = Some (Dir m).
Proof. intros Hok. exact (world_okb_prefix_dir _ _ Hok). Qed.

(* ------------------------------------------------------------------ *)
(** * 4. Rename *)

(** the root cannot be renamed, and nothing can be renamed onto it *)
Lemma fs_rename_root_src (s : fstate) (pn : str) : rok (st_fs s) -> fs_rename s s_root pn = (Err EBUSY, s).
Proof.
  intros Hok. destruct (root_dir _ Hok) as [m Hm]. unfold fs_rename.
  rewrite (resolve_direct _ s_root false (direct_root _ Hok) (or_introl eq_refl)).
  rewrite comps_root. norm_keys. rewrite Hm. reflexivity.
Qed.

Lemma fs_rename_root_dst (s : fstate) (po : str) :
  rok (st_fs s) -> direct (st_fs s) po -> comps po <> [] -> exists e, fs_rename s po s_root = (Err e, s).
Proof.
  intros Hok Hdo Hc. destruct (root_dir _ Hok) as [m Hm]. unfold fs_rename.
  rewrite (strip_or_self_abs_cleaned s_root abs_cleaned_root_ac).
  rewrite (resolve_direct _ po false Hdo (or_introl eq_refl)).
  rewrite (resolve_direct _ s_root false (direct_root _ Hok) (or_introl eq_refl)).
  rewrite comps_root. norm_keys. rewrite Hm.
  destruct (comps po) as [| c r]; [contradiction Hc; reflexivity |].
  match goal with
  | |- context [@lookup ?K ?V ?Mp ?I (c :: r) ?f] => destruct (@lookup K V Mp I (c :: r) f) as [no |]
  end; [exists EEXIST | exists ENOENT]; reflexivity.
Qed.

Section Rename0.
  Variable tag : fstag.
  Notation A0 := (spy tag osfs).
  Variable w : world.
  Hypothesis Hq : quiet w.
  Hypothesis Hok : rok (st_fs (w_st w)).
  Variables po pn : str.
  Hypothesis Hao : abs_cleaned po.
  Hypothesis Han : abs_cleaned pn.
  Set Default Proof Using "Hq Hok Hao Han".

  Lemma run0_rename_gen :
    a_rename A0 po pn w = fin tag (PM MRename) po pn w (fs_rename (w_st w) po pn).
  Proof. cbn [spy osfs a_rename]. apply spied_fs_upd_fin. exact Hq. Qed.

  Lemma run0_rename_un :
    unresolvable (st_fs (w_st w)) po \/ unresolvable (st_fs (w_st w)) pn ->
    exists e, a_rename A0 po pn w = (MErr e, after tag (PM MRename) po pn (Some e) w (w_st w)).
  Proof.
    intros [H | H]; rewrite run0_rename_gen.
    - destruct (fs_rename_unresolvable_old (w_st w) po H pn) as [e E]. exists e. rewrite E. reflexivity.
    - destruct (fs_rename_unresolvable_new (w_st w) pn Han H po) as [e E]. exists e. rewrite E. reflexivity.
  Qed.

  Lemma run0_rename_root :
    direct (st_fs (w_st w)) po -> (comps po = [] \/ comps pn = []) ->
    exists e, a_rename A0 po pn w = (MErr e, after tag (PM MRename) po pn (Some e) w (w_st w)).
  Proof.
    intros Hdo Hr. rewrite run0_rename_gen.
    destruct (list_eq_dec str_eq_dec (comps po) []) as [Eo | Eo].
    - apply (abs_cleaned_comps_nil po Hao) in Eo. subst po.
      rewrite (fs_rename_root_src (w_st w) pn Hok). exists EBUSY. reflexivity.
    - destruct Hr as [E | En]; [contradiction |].
      apply (abs_cleaned_comps_nil pn Han) in En. subst pn.
      destruct (fs_rename_root_dst (w_st w) po Hok Hdo Eo) as [e E]. exists e. rewrite E. reflexivity.
  Qed.

  Lemma key_eqb_comps : key_eqb (comps po) (comps pn) = str_eqb po pn.
  Proof. exact (key_eqb_wkey s_root po pn Hao Han). Qed.

  Lemma run0_rename_leaf :
    direct (st_fs (w_st w)) po -> direct (st_fs (w_st w)) pn ->
    comps po <> [] -> comps pn <> [] ->
    has_children (st_fs (w_st w)) (comps po) = false ->
    a_rename A0 po pn w =
    fin tag (PM MRename) po pn w
      (match st_fs (w_st w) !! comps po with
       | None => (Err ENOENT, w_st w)
       | Some no =>
           match st_fs (w_st w) !! comps pn with
           | Some nn =>
               if is_dir nn then (Err EEXIST, w_st w)
               else if str_eqb po pn then (Ok tt, w_st w)
               else if is_dir no then
                 if key_prefixb (comps po) (comps pn) then (Err EINVAL, w_st w) else (Err ENOTDIR, w_st w)
               else (Ok tt, moved_leaf (w_st w) (comps po) (comps pn) no)
           | None =>
               if is_dir no && key_prefixb (comps po) (comps pn) then (Err EINVAL, w_st w)
               else (Ok tt, moved_leaf (w_st w) (comps po) (comps pn) no)
           end
       end).
  Proof.
    intros Hdo Hdn Hco Hcn Hnc. rewrite run0_rename_gen.
    rewrite (fs_rename_direct_leaf (w_st w) po pn (world_okb_wf _ _ Hok) Hdo Hdn Hco Hcn Hnc).
    rewrite key_eqb_comps.
    dl0 po as [no |]; [| reflexivity]. dl0 pn as [nn |]; [| reflexivity].
    destruct (is_dir nn); [| reflexivity]. destruct (str_eqb po pn); reflexivity.
  Qed.
End Rename0.
Unset Default Proof Using.
