(** Rules for worlds with a fault plan (Spec/Faults.v): [set_faults], [spent],
    operations that do not look at the plan ([fplain]), the spy around a
    primitive call ([spied_fcall]), the operations on handles, and two
    judgements for composite computations:
    - [fstrict T I m wq fl]: run in the quiet world [wq] with the plan [fl]
      added, [m] either is executed exactly as without plan, or returns an
      error because a call was refused, in a world that has - traces and
      counters aside - a state satisfying [I];
    - [sclean m]: once the plan is spent, [m] is executed exactly as without. *)
From stdpp Require Import gmap.
From BFS Require Import Spec.Faults.
From BFS Require Import Proofs.PathFacts Proofs.RollbackFacts Proofs.AlwaysLib.

(* ------------------------------------------------------------------ *)
(** * [set_faults] *)

Lemma set_faults_same w : set_faults w (w_faults w) = w.
Proof. destruct w; reflexivity. Qed.

Lemma set_faults_twice w fl fl' : set_faults (set_faults w fl) fl' = set_faults w fl'.
Proof. reflexivity. Qed.

Lemma set_faults_with_faults w fl : set_faults w fl = with_faults w fl.
Proof. reflexivity. Qed.

Lemma unfault_lift w1 fl : w_faults w1 = [] -> unfault (set_faults w1 fl) = w1.
Proof. intros H. unfold unfault. rewrite set_faults_twice, <- H. apply set_faults_same. Qed.

Lemma quiet_unfault w : w_crash w = None -> quiet (unfault w).
Proof. intros H. split; [exact H | reflexivity]. Qed.

Lemma lift_unfault w : set_faults (unfault w) (w_faults w) = w.
Proof. unfold unfault. rewrite set_faults_twice. apply set_faults_same. Qed.

Lemma sim_refl w : sim w w.
Proof. split; reflexivity. Qed.

Lemma sim_trans w1 w2 w3 : sim w1 w2 -> sim w2 w3 -> sim w1 w3.
Proof. intros [A1 A2] [C1 C2]. split; congruence. Qed.

Lemma sim_lift w fl : sim w (set_faults w fl).
Proof. split; reflexivity. Qed.

Lemma sim_unfault w : sim w (unfault w).
Proof. split; reflexivity. Qed.

(* ------------------------------------------------------------------ *)
(** * [spent] *)

Lemma spent_nil w : w_faults w = [] -> spent w.
Proof. intros H. unfold spent. rewrite H. constructor. Qed.

Lemma spent_eq w w' : w_trace w' = w_trace w -> w_faults w' = w_faults w -> (spent w' <-> spent w).
Proof. intros H1 H2. unfold spent. rewrite H1, H2. reflexivity. Qed.

Lemma spent_with_infos w i : spent (with_infos w i) <-> spent w.
Proof. apply spent_eq; reflexivity. Qed.

(* ------------------------------------------------------------------ *)
(** * Sites *)

Lemma fstag_eqb_eq (a b : fstag) : fstag_eqb a b = true <-> a = b.
Proof. destruct a, b; simpl; split; intros H; try reflexivity; discriminate H. Qed.

Lemma meth_pm_eq (x y : meth) : pmeth_eqb (PM x) (PM y) = true -> x = y.
Proof. destruct x, y; simpl; intros H; try reflexivity; discriminate H. Qed.

Lemma pmeth_eqb_eq (a b : pmeth) : pmeth_eqb a b = true <-> a = b.
Proof.
  split.
  - destruct a as [x | | | | |], b as [y | | | | |]; try (simpl; intros H; discriminate H);
      try (intros _; reflexivity).
    intros H. f_equal. exact (meth_pm_eq x y H).
  - intros ->. destruct b as [y | | | | |]; try reflexivity. destruct y; reflexivity.
Qed.

(** the entry [f] is for the site [(t, m, p)] *)
Definition at_site (t : fstag) (m : pmeth) (p : str) (f : fault) : Prop :=
  f_fs f = t /\ f_meth f = m /\ f_path f = p.

Lemma site_match_iff (t : fstag) (m : pmeth) (p : str) (f : fault) :
  fstag_eqb t (f_fs f) && pmeth_eqb m (f_meth f) && str_eqb p (f_path f) = true <-> at_site t m p f.
Proof.
  unfold at_site. rewrite !andb_true_iff, fstag_eqb_eq, pmeth_eqb_eq. split.
  - intros [[H1 H2] H3]. apply str_eqb_eq in H3. repeat split; congruence.
  - intros (H1 & H2 & H3). repeat split; try congruence. rewrite H3. apply str_eqb_refl.
Qed.

Lemma same_site_call (t : fstag) (m : pmeth) (p p2 : str) (e : option errno) (f : fault) :
  same_site (f_fs f) (f_meth f) (f_path f) (mkTcall t m p p2 e) = true <-> at_site t m p f.
Proof.
  unfold same_site, at_site. cbn [t_fs t_meth t_path].
  rewrite !andb_true_iff, fstag_eqb_eq, pmeth_eqb_eq. split.
  - intros [[H1 H2] H3]. apply str_eqb_eq in H3. repeat split; congruence.
  - intros (H1 & H2 & H3). repeat split; try congruence. rewrite H3. apply str_eqb_refl.
Qed.

Lemma occurrences_cons (t : fstag) (m : pmeth) (p : str) (c : tcall) (tr : list tcall) :
  occurrences t m p (c :: tr) =
  (if same_site t m p c then N.succ (occurrences t m p tr) else occurrences t m p tr).
Proof.
  unfold occurrences. cbn [List.filter]. destruct (same_site t m p c); [| reflexivity].
  cbn [length]. rewrite Nat2N.inj_succ. reflexivity.
Qed.

Lemma faulted_true_iff (w : world) (t : fstag) (m : pmeth) (p : str) :
  faulted w t m p = true <->
  exists f, In f (w_faults w) /\ at_site t m p f /\ f_occ f = occurrences t m p (w_trace w).
Proof.
  unfold faulted. rewrite existsb_exists. split.
  - intros (f & Hin & H). apply andb_true_iff in H. destruct H as [Hs Ho].
    apply site_match_iff in Hs. apply N.eqb_eq in Ho. exists f. split; [exact Hin | split; [exact Hs | exact Ho]].
  - intros (f & Hin & Hs & Ho). exists f. split; [exact Hin |]. apply andb_true_iff. split.
    + apply site_match_iff. exact Hs.
    + apply N.eqb_eq. exact Ho.
Qed.

(** recording a call that was not refused changes the status of no entry *)
Lemma fault_spent_record_not_faulted (w : world) (t : fstag) (m : pmeth) (p p2 : str)
      (e : option errno) (f : fault) :
  faulted w t m p = false -> In f (w_faults w) ->
  (fault_spent (mkTcall t m p p2 e :: w_trace w) f <-> fault_spent (w_trace w) f).
Proof.
  intros Hnf Hin. unfold fault_spent. rewrite occurrences_cons.
  destruct (same_site (f_fs f) (f_meth f) (f_path f) (mkTcall t m p p2 e)) eqn:Es; [| reflexivity].
  apply same_site_call in Es.
  assert (Hne : f_occ f <> occurrences (f_fs f) (f_meth f) (f_path f) (w_trace w)).
  { intros Ho. assert (Ht : faulted w t m p = true).
    { apply faulted_true_iff. exists f. split; [exact Hin | split; [exact Es |]].
      destruct Es as (E1 & E2 & E3). rewrite <- E1, <- E2, <- E3. exact Ho. }
    rewrite Hnf in Ht. discriminate Ht. }
  lia.
Qed.

(** recording the refused call spends the entry that refused it *)
Lemma fault_spent_record_faulted (tr : list tcall) (t : fstag) (m : pmeth) (p p2 : str)
      (e : option errno) (f : fault) :
  at_site t m p f -> f_occ f = occurrences t m p tr ->
  fault_spent (mkTcall t m p p2 e :: tr) f.
Proof.
  intros Hs Ho. unfold fault_spent. rewrite occurrences_cons.
  rewrite (proj2 (same_site_call t m p p2 e f) Hs).
  destruct Hs as (E1 & E2 & E3). rewrite E1, E2, E3. lia.
Qed.

(* ------------------------------------------------------------------ *)
(** * Operations that do not look at the fault plan *)

Definition fplain {A} (op : M A) : Prop :=
  forall w r w', op w = (r, w') ->
    r <> MHalt /\ w_crash w' = w_crash w /\ w_trace w' = w_trace w /\ w_faults w' = w_faults w /\
    forall fl, op (set_faults w fl) = (r, set_faults w' fl).

Lemma fplain_ret {A} (a : A) : fplain (ret a).
Proof.
  intros w r w' Hrun. unfold ret in Hrun. injection Hrun as <- <-.
  split; [discriminate | repeat split].
Qed.

Lemma fplain_fail {A} (e : errno) : fplain (@fail A e).
Proof.
  intros w r w' Hrun. unfold fail in Hrun. injection Hrun as <- <-.
  split; [discriminate | repeat split].
Qed.

Lemma fplain_bind {A B} (m : M A) (f : A -> M B) : fplain m -> (forall a, fplain (f a)) -> fplain (bind m f).
Proof.
  intros Hm Hf w r w' Hrun. unfold bind in Hrun |- *.
  destruct (m w) as [[a | e |] w1] eqn:Hmw; destruct (Hm w _ w1 Hmw) as (Hn1 & Hc1 & Ht1 & Hf1 & Hi1).
  - destruct (Hf a w1 r w' Hrun) as (Hn2 & Hc2 & Ht2 & Hf2 & Hi2).
    split; [exact Hn2 | split; [congruence | split; [congruence | split; [congruence |]]]].
    intros fl. rewrite Hi1. apply Hi2.
  - injection Hrun as <- <-.
    split; [discriminate | split; [exact Hc1 | split; [exact Ht1 | split; [exact Hf1 |]]]].
    intros fl. rewrite Hi1. reflexivity.
  - contradiction Hn1. reflexivity.
Qed.

Lemma fplain_try {A} (m : M A) : fplain m -> fplain (try_ m).
Proof.
  intros Hm w r w' Hrun. unfold try_ in Hrun |- *.
  destruct (m w) as [[a | e |] w1] eqn:Hmw; destruct (Hm w _ w1 Hmw) as (Hn1 & Hc1 & Ht1 & Hf1 & Hi1);
    [| | contradiction Hn1; reflexivity];
    injection Hrun as <- <-;
    (split; [discriminate | split; [exact Hc1 | split; [exact Ht1 | split; [exact Hf1 |]]]]);
    intros fl; rewrite Hi1; reflexivity.
Qed.

Lemma fplain_lift_res {A} (r : res A) : fplain (lift_res r).
Proof. destruct r; [apply fplain_ret | apply fplain_fail]. Qed.

Lemma fplain_fs_get {A} (f : fstate -> res A) : fplain (fs_get f).
Proof.
  intros w r w' Hrun. unfold fs_get in *.
  destruct (f (w_st w)) eqn:Ef; cbn in Hrun; injection Hrun as <- <-;
    (split; [discriminate | repeat split]);
    intros fl; cbn [w_st set_faults]; rewrite Ef; reflexivity.
Qed.

Lemma fplain_fs_upd {A} (f : fstate -> res A * fstate) : fplain (fs_upd f).
Proof.
  intros w r w' Hrun. unfold fs_upd in *.
  destruct (f (w_st w)) as [[a | e] s'] eqn:Ef; cbn in Hrun; injection Hrun as <- <-;
    (split; [discriminate | repeat split]);
    intros fl; cbn [w_st set_faults]; rewrite Ef; reflexivity.
Qed.

Lemma fplain_get_infos : fplain get_infos.
Proof.
  intros w r w' Hrun. unfold get_infos in Hrun. injection Hrun as <- <-.
  split; [discriminate | repeat split].
Qed.

Lemma fplain_put_infos (i : infomap) : fplain (put_infos i).
Proof.
  intros w r w' Hrun. unfold put_infos in Hrun. injection Hrun as <- <-.
  split; [discriminate | repeat split].
Qed.

Lemma fplain_set_info_if_new (p : str) (fi : option finfo) : fplain (set_info_if_new p fi).
Proof.
  unfold set_info_if_new. apply fplain_bind; [apply fplain_get_infos |].
  intros i. destruct (i !! p); [apply fplain_ret | apply fplain_put_infos].
Qed.

Lemma fplain_already_seen (p : str) : fplain (already_seen p).
Proof.
  unfold already_seen. apply fplain_bind; [apply fplain_get_infos | intros i; apply fplain_ret].
Qed.

(** executed as without plan *)
Lemma fplain_run {A} (op : M A) (w : world) :
  fplain op -> w_crash w = None ->
  exists r w1, op (unfault w) = (r, w1) /\ r <> MHalt /\ quiet w1 /\
               op w = (r, set_faults w1 (w_faults w)) /\
               (spent (set_faults w1 (w_faults w)) <-> spent w).
Proof.
  intros Hp Hc. destruct (op (unfault w)) as [r w1] eqn:Hrun. exists r, w1.
  destruct (Hp _ _ _ Hrun) as (Hn & Hc1 & Ht1 & Hf1 & Hi).
  split; [reflexivity | split; [exact Hn | split; [| split]]].
  - split; [rewrite Hc1; exact Hc | rewrite Hf1; reflexivity].
  - specialize (Hi (w_faults w)). rewrite lift_unfault in Hi. exact Hi.
  - apply spent_eq; [cbn; rewrite Ht1; reflexivity | reflexivity].
Qed.

Lemma fplain_fcall {A} (T : fstag -> Prop) (op : M A) : fplain op -> fcall T op.
Proof. intros Hp w Hc. left. exact (fplain_run op w Hp Hc). Qed.

(* ------------------------------------------------------------------ *)
(** * The spy around a primitive call *)

Lemma spied_nocrash_run {A} t pm p p2 (op : M A) (w : world) :
  w_crash w = None ->
  spied t pm p p2 op w =
  if faulted (tick w) t pm p then (MErr EIO, record (mkTcall t pm p p2 (Some EIO)) (tick w))
  else match op (tick w) with
       | (MOk a, w2) => (MOk a, record (mkTcall t pm p p2 None) w2)
       | (MErr e, w2) => (MErr e, record (mkTcall t pm p p2 (Some e)) w2)
       | (MHalt, w2) => (MHalt, w2)
       end.
Proof. intros Hc. unfold spied, tick. rewrite Hc. reflexivity. Qed.

Lemma spent_record_not_faulted (w w2 : world) t pm p p2 e :
  faulted (tick w) t pm p = false -> w_trace w2 = w_trace w -> w_faults w2 = w_faults w ->
  (spent (record (mkTcall t pm p p2 e) w2) <-> spent w).
Proof.
  intros Hnf Ht Hf. unfold spent. cbn [record w_trace w_faults]. rewrite Ht, Hf.
  assert (Hiff : forall f, In f (w_faults w) ->
            (fault_spent (mkTcall t pm p p2 e :: w_trace w) f <-> fault_spent (w_trace w) f)).
  { intros f Hin. exact (fault_spent_record_not_faulted (tick w) t pm p p2 e f Hnf Hin). }
  rewrite !List.Forall_forall. split; intros H f Hin.
  - apply (proj1 (Hiff f Hin)). exact (H f Hin).
  - apply (proj2 (Hiff f Hin)). exact (H f Hin).
Qed.

Lemma spied_fcall {A} t pm p p2 (op : M A) : fplain op -> fcall (eq t) (spied t pm p p2 op).
Proof.
  intros Hp w Hc. rewrite (spied_nocrash_run t pm p p2 op w Hc).
  destruct (faulted (tick w) t pm p) eqn:Hft.
  - right. eexists. split; [reflexivity |]. repeat split; try exact Hc.
    + apply faulted_true_iff in Hft. destruct Hft as (f & Hin & Hs & Ho).
      intros Hsp. unfold spent in Hsp. rewrite List.Forall_forall in Hsp.
      specialize (Hsp f Hin). unfold fault_spent in Hsp.
      destruct Hs as (E1 & E2 & E3). rewrite E1, E2, E3 in Hsp. cbn [tick w_trace] in Ho. lia.
    + intros Hsingle. apply faulted_true_iff in Hft. destruct Hft as (f & Hin & Hs & Ho).
      cbn [tick w_faults w_trace] in Hin, Ho.
      unfold spent. cbn [record tick w_trace w_faults].
      destruct (w_faults w) as [|f0 [|f1 rest]].
      * contradiction Hin.
      * destruct Hin as [<- | []]. constructor; [| constructor].
        exact (fault_spent_record_faulted (w_trace w) t pm p p2 (Some EIO) f0 Hs Ho).
      * unfold single in Hsingle. cbn [length] in Hsingle. lia.
    + apply faulted_true_iff in Hft. destruct Hft as (f & Hin & Hs & _).
      exists f. split; [exact Hin | symmetry; exact (proj1 Hs)].
  - left.
    assert (Hqu : w_crash (unfault w) = None) by exact Hc.
    rewrite (spied_nocrash_run t pm p p2 op (unfault w) Hqu).
    assert (Hfq : faulted (tick (unfault w)) t pm p = false) by (apply faulted_quiet; reflexivity).
    rewrite Hfq.
    destruct (op (tick w)) as [r w2] eqn:Hrun.
    destruct (Hp _ _ _ Hrun) as (Hn & Hc2 & Ht2 & Hf2 & Hi).
    change (w_crash (tick w)) with (w_crash w) in Hc2.
    change (w_trace (tick w)) with (w_trace w) in Ht2.
    change (w_faults (tick w)) with (w_faults w) in Hf2.
    change (tick (unfault w)) with (set_faults (tick w) []). rewrite (Hi []).
    destruct r as [a | e |]; [| | contradiction Hn; reflexivity].
    + eexists _, _. split; [reflexivity |]. split; [discriminate |].
      split; [split; [cbn; rewrite Hc2; exact Hc | reflexivity] |].
      split.
      * f_equal. destruct w2 as [s2 tr2 tk2 cr2 fl2 inf2]. cbn in Hf2 |- *. rewrite Hf2. reflexivity.
      * cbn [record set_faults w_st w_trace w_ticks w_crash w_infos w_faults].
        apply (spent_record_not_faulted w (set_faults w2 (w_faults w)) t pm p p2 None Hft);
          [exact Ht2 | reflexivity].
    + eexists _, _. split; [reflexivity |]. split; [discriminate |].
      split; [split; [cbn; rewrite Hc2; exact Hc | reflexivity] |].
      split.
      * f_equal. destruct w2 as [s2 tr2 tk2 cr2 fl2 inf2]. cbn in Hf2 |- *. rewrite Hf2. reflexivity.
      * cbn [record set_faults w_st w_trace w_ticks w_crash w_infos w_faults].
        apply (spent_record_not_faulted w (set_faults w2 (w_faults w)) t pm p p2 (Some e) Hft);
          [exact Ht2 | reflexivity].
Qed.

Lemma fcall_weaken {A} (T T' : fstag -> Prop) (m : M A) :
  (forall t, T t -> T' t) -> fcall T m -> fcall T' m.
Proof.
  intros HT Hm w Hc. destruct (Hm w Hc) as [Hex | (w' & H1 & H2 & H3 & H4 & H5 & H6 & H7 & f & Hin & Hf)].
  - left. exact Hex.
  - right. exists w'. repeat (split; [assumption |]). exists f. split; [exact Hin | exact (HT _ Hf)].
Qed.

(* ------------------------------------------------------------------ *)
(** * Operations on handles *)

Lemma spy_h_fcall {A} (T : fstag -> Prop) (h : fhandle) (pm : pmeth) (op : M A) :
  (forall t q, fh_spy h = Some (t, q) -> T t) -> fplain op -> fcall T (spy_h h pm op).
Proof.
  intros HT Hp. unfold spy_h. destruct (fh_spy h) as [[t p]|] eqn:Es.
  - apply (fcall_weaken (eq t)); [intros t' <-; exact (HT t p eq_refl) |].
    apply spied_fcall. exact Hp.
  - apply fplain_fcall. exact Hp.
Qed.

Lemma fplain_hread_op (h : fhandle) :
  fplain (fun w => let '(r, h') := fs_read (w_st w) (fh h) in
                   match r with
                   | Ok d => (MOk (d, set_fh h h'), w)
                   | Err e => (MErr e, w)
                   end).
Proof.
  intros w r w' Hrun. cbv beta in *.
  destruct (fs_read (w_st w) (fh h)) as [[d | e] h'] eqn:Ef; injection Hrun as <- <-;
    (split; [discriminate | repeat split]);
    intros fl; cbn [w_st set_faults]; rewrite Ef; reflexivity.
Qed.

Lemma fplain_hwrite_op (h : fhandle) (data : list N) :
  fplain (fun w => let '(r, (s', h')) := fs_write (w_st w) (fh h) data in
                   match r with
                   | Ok _ => (MOk (set_fh h h'), mkWorld s' (w_trace w) (w_ticks w) (w_crash w) (w_faults w) (w_infos w))
                   | Err e => (MErr e, w)
                   end).
Proof.
  intros w r w' Hrun. cbv beta in *.
  destruct (fs_write (w_st w) (fh h) data) as [[x | e] [s' h']] eqn:Ef; injection Hrun as <- <-;
    (split; [discriminate | repeat split]);
    intros fl; cbn [w_st set_faults]; rewrite Ef; reflexivity.
Qed.

Lemma fplain_hreaddirnames_op (h : fhandle) :
  fplain (names <- fs_get (fun s => fs_readdirnames s (fh h)) ;;
          match fh_hidden h with
          | None => ret names
          | Some (dirp, hs) =>
              match fst (hidden_list dirp hs (-1) names) with
              | LOk l | LEof l => ret l
              | LErr => fail (ELayer EHiddenCheck)
              end
          end).
Proof.
  apply fplain_bind; [apply fplain_fs_get |]. intros names.
  destruct (fh_hidden h) as [[dirp hs]|]; [| apply fplain_ret].
  destruct (fst (hidden_list dirp hs (-1) names)); [apply fplain_ret | apply fplain_ret | apply fplain_fail].
Qed.

Section HandleCalls.
  Variable T : fstag -> Prop.
  Variable h : fhandle.
  Hypothesis HT : forall t q, fh_spy h = Some (t, q) -> T t.

  Lemma fcall_hread : fcall T (hread h).
  Proof. unfold hread. apply spy_h_fcall; [exact HT | apply fplain_hread_op]. Qed.
  Lemma fcall_hwrite (data : list N) : fcall T (hwrite h data).
  Proof. unfold hwrite. apply spy_h_fcall; [exact HT | apply fplain_hwrite_op]. Qed.
  Lemma fcall_hclose : fcall T (hclose h).
  Proof. unfold hclose. apply spy_h_fcall; [exact HT | apply fplain_ret]. Qed.
  Lemma fcall_hstat : fcall T (hstat h).
  Proof. unfold hstat. apply spy_h_fcall; [exact HT | apply fplain_fs_get]. Qed.
  Lemma fcall_hreaddirnames : fcall T (hreaddirnames h).
  Proof. unfold hreaddirnames. apply spy_h_fcall; [exact HT | apply fplain_hreaddirnames_op]. Qed.
End HandleCalls.

Lemma any_tag (h : fhandle) : forall t q, fh_spy h = Some (t, q) -> (fun _ : fstag => True) t.
Proof. intros t q _. exact I. Qed.

Lemma handle_tag_T (tag : fstag) (h : fhandle) :
  handle_tag tag h -> forall t q, fh_spy h = Some (t, q) -> eq tag t.
Proof. intros Hh t q Hs. symmetry. exact (Hh t q Hs). Qed.

(** a new OS object behind the same handle *)
Lemma handle_tag_set_fh (tag : fstag) (h : fhandle) (h' : FsModel.handle) :
  handle_tag tag h -> handle_tag tag (set_fh h h').
Proof. intros Hh t q Hs. exact (Hh t q Hs). Qed.

(* ------------------------------------------------------------------ *)
(** * [fstrict] *)

(** errors that are neither "permission" nor "not found" (what [EIO] is) *)
Definition hard (e : errno) : Prop := is_permission e = false /\ is_not_found e = false.

Lemma hard_EIO : hard EIO. Proof. split; reflexivity. Qed.
Lemma hard_EOther : hard EOther. Proof. split; reflexivity. Qed.

Section Strict.
  Variable T : fstag -> Prop.

  Definition fstrict {A} (I : world -> Prop) (m : M A) (wq : world) (fl : list fault) : Prop :=
    (exists r w1, m wq = (r, w1) /\ r <> MHalt /\ quiet w1 /\
                  m (set_faults wq fl) = (r, set_faults w1 fl) /\
                  (spent (set_faults w1 fl) <-> spent (set_faults wq fl)))
    \/
    (exists e w', m (set_faults wq fl) = (MErr e, w') /\ hard e /\
                  w_crash w' = None /\ w_faults w' = fl /\
                  ~ spent (set_faults wq fl) /\ (single fl -> spent w') /\
                  (exists f, In f fl /\ T (f_fs f)) /\
                  exists ws, I ws /\ quiet ws /\ sim ws w').

  Lemma fstrict_mono {A} (I J : world -> Prop) (m : M A) wq fl :
    (forall x, I x -> J x) -> fstrict I m wq fl -> fstrict J m wq fl.
  Proof.
    intros HIJ [Hc | (e & w' & H1 & H2 & H3 & H4 & H5 & H6 & H7 & ws & HI & Hq & Hs)]; [left; exact Hc | right].
    exists e, w'. repeat (split; [assumption |]). exists ws. split; [exact (HIJ _ HI) | split; assumption].
  Qed.

  (** one call *)
  Lemma fstrict_call {A} (I : world -> Prop) (m : M A) wq fl :
    fcall T m -> quiet wq -> I wq -> fstrict I m wq fl.
  Proof.
    intros Hm Hq HI. pose proof Hq as [Hc Hf].
    destruct (Hm (set_faults wq fl) Hc) as [(r & w1 & Hrun & Hn & Hq1 & Hrunf & Hsp) | (w' & Hrun & Hst & Hi & Hc' & Hf' & Hns & Hs1 & Hex)].
    - left. rewrite (unfault_lift wq fl Hf) in Hrun. exists r, w1.
      split; [exact Hrun | split; [exact Hn | split; [exact Hq1 | split; [exact Hrunf | exact Hsp]]]].
    - right. exists EIO, w'. split; [exact Hrun |]. split; [exact hard_EIO |].
      split; [exact Hc' |]. split; [exact Hf' |]. split; [exact Hns |]. split; [exact Hs1 |].
      split; [exact Hex |]. exists wq. split; [exact HI | split; [exact Hq |]].
      split; [exact Hst | exact Hi].
  Qed.

  (** a computation that does not look at the plan *)
  Lemma fstrict_plain {A} (I : world -> Prop) (m : M A) wq fl :
    fplain m -> quiet wq -> fstrict I m wq fl.
  Proof.
    intros Hp [Hc Hf]. left.
    destruct (fplain_run m (set_faults wq fl) Hp Hc) as (r & w1 & Hrun & Hn & Hq1 & Hrunf & Hsp).
    rewrite (unfault_lift wq fl Hf) in Hrun. exists r, w1.
    split; [exact Hrun | split; [exact Hn | split; [exact Hq1 | split; [exact Hrunf | exact Hsp]]]].
  Qed.

  Lemma fstrict_ret {A} (I : world -> Prop) (a : A) wq fl : quiet wq -> fstrict I (ret a) wq fl.
  Proof. apply fstrict_plain. apply fplain_ret. Qed.

  Lemma fstrict_fail {A} (I : world -> Prop) (e : errno) wq fl : quiet wq -> fstrict I (@fail A e) wq fl.
  Proof. apply fstrict_plain. apply fplain_fail. Qed.

  Lemma fstrict_bind {A B} (I : world -> Prop) (m : M A) (f : A -> M B) wq fl :
    fstrict I m wq fl ->
    (forall a w1, m wq = (MOk a, w1) -> fstrict I (f a) w1 fl) ->
    fstrict I (bind m f) wq fl.
  Proof.
    intros [(r & w1 & Hrun & Hn & Hq1 & Hrunf & Hsp) | (e & w' & Hrun & Hrest)] Hf.
    - destruct r as [a | e |]; [| | contradiction Hn; reflexivity].
      + destruct (Hf a w1 Hrun) as [(r2 & w2 & Hrun2 & Hn2 & Hq2 & Hrunf2 & Hsp2)
                                   | (e & w' & Hrun2 & Hh & Hc' & Hf' & Hns & Hs1 & Hex)].
        * left. exists r2, w2. unfold bind. rewrite Hrun, Hrunf.
          split; [exact Hrun2 | split; [exact Hn2 | split; [exact Hq2 | split; [exact Hrunf2 |]]]].
          rewrite Hsp2. exact Hsp.
        * right. exists e, w'. unfold bind. rewrite Hrunf. split; [exact Hrun2 |].
          split; [exact Hh | split; [exact Hc' | split; [exact Hf' | split; [| split; [exact Hs1 | exact Hex]]]]].
          intros Hs. apply Hns. apply Hsp. exact Hs.
      + left. exists (MErr e), w1. unfold bind. rewrite Hrun, Hrunf.
        split; [reflexivity | split; [discriminate | split; [exact Hq1 | split; [reflexivity | exact Hsp]]]].
    - right. exists e, w'. unfold bind. rewrite Hrun. split; [reflexivity | exact Hrest].
  Qed.

  Lemma fstrict_bind_run {A B} (I : world -> Prop) (m : M A) (f : A -> M B) wq w1 fl (r : mres A) :
    m wq = (r, w1) -> fstrict I m wq fl ->
    (forall a, r = MOk a -> fstrict I (f a) w1 fl) ->
    fstrict I (bind m f) wq fl.
  Proof.
    intros Hrun Hm Hf. apply fstrict_bind; [exact Hm |].
    intros a w1' Hq. rewrite Hrun in Hq. injection Hq as -> <-. apply Hf. reflexivity.
  Qed.

  Lemma fstrict_bind_ok {A B} (I : world -> Prop) (m : M A) (f : A -> M B) wq w1 fl (a : A) :
    m wq = (MOk a, w1) -> fstrict I m wq fl -> fstrict I (f a) w1 fl -> fstrict I (bind m f) wq fl.
  Proof.
    intros Hrun Hm Hf. apply (fstrict_bind_run I m f wq w1 fl (MOk a) Hrun Hm).
    intros a' E. injection E as <-. exact Hf.
  Qed.

  Lemma fstrict_bind_err {A B} (I : world -> Prop) (m : M A) (f : A -> M B) wq w1 fl (e : errno) :
    m wq = (MErr e, w1) -> fstrict I m wq fl -> fstrict I (bind m f) wq fl.
  Proof.
    intros Hrun Hm. apply (fstrict_bind_run I m f wq w1 fl (MErr e) Hrun Hm).
    intros a' E. discriminate E.
  Qed.

  (** a continuation that does not look at the plan *)
  Lemma fstrict_bind_plain {A B} (I : world -> Prop) (m : M A) (f : A -> M B) wq fl :
    fstrict I m wq fl -> (forall a, fplain (f a)) -> fstrict I (bind m f) wq fl.
  Proof.
    intros [(r & w1 & Hrun & Hn & Hq1 & Hrunf & Hsp) | (e & w' & Hrun & Hrest)] Hf.
    - apply fstrict_bind; [left; exists r, w1; repeat (split; [assumption |]); exact Hsp |].
      intros a w1' Hq. rewrite Hrun in Hq. injection Hq as -> <-.
      apply fstrict_plain; [apply Hf | exact Hq1].
    - right. exists e, w'. unfold bind. rewrite Hrun. split; [reflexivity | exact Hrest].
  Qed.

  Lemma fstrict_ext {A} (I : world -> Prop) (m m' : M A) wq fl :
    (forall x, m x = m' x) -> fstrict I m' wq fl -> fstrict I m wq fl.
  Proof.
    intros E [(r & w1 & Hrun & Hrest) | (e & w' & Hrun & Hrest)].
    - left. exists r, w1. rewrite !E. split; [exact Hrun | exact Hrest].
    - right. exists e, w'. rewrite E. split; [exact Hrun | exact Hrest].
  Qed.

  (** [ignore_permission]: a refusal is not a permission error *)
  Lemma fstrict_ignore_permission (I : world -> Prop) (m : M unit) wq fl :
    fstrict I m wq fl -> fstrict I (ignore_permission m) wq fl.
  Proof.
    intros [(r & w1 & Hrun & Hn & Hq1 & Hrunf & Hsp) | (e & w' & Hrun & Hh & Hrest)].
    - left. unfold ignore_permission, bind, try_. rewrite Hrun, Hrunf.
      destruct r as [[] | e |]; [| | contradiction Hn; reflexivity].
      + exists (MOk tt), w1. split; [reflexivity | split; [discriminate | split; [exact Hq1 | split; [reflexivity | exact Hsp]]]].
      + destruct (is_permission e).
        * exists (MOk tt), w1. split; [reflexivity | split; [discriminate | split; [exact Hq1 | split; [reflexivity | exact Hsp]]]].
        * exists (MErr e), w1. split; [reflexivity | split; [discriminate | split; [exact Hq1 | split; [reflexivity | exact Hsp]]]].
    - right. exists e, w'. unfold ignore_permission, bind, try_. rewrite Hrun.
      rewrite (proj1 Hh). split; [reflexivity |]. split; [exact Hh | exact Hrest].
  Qed.

  Lemma fstrict_wrap_other (I : world -> Prop) (m : M unit) wq fl :
    fstrict I m wq fl -> fstrict I (wrap_other m) wq fl.
  Proof.
    intros [(r & w1 & Hrun & Hn & Hq1 & Hrunf & Hsp) | (e & w' & Hrun & Hh & Hrest)].
    - left. unfold wrap_other, bind, try_. rewrite Hrun, Hrunf.
      destruct r as [[] | e |]; [| | contradiction Hn; reflexivity].
      + exists (MOk tt), w1. split; [reflexivity | split; [discriminate | split; [exact Hq1 | split; [reflexivity | exact Hsp]]]].
      + exists (MErr EOther), w1. split; [reflexivity | split; [discriminate | split; [exact Hq1 | split; [reflexivity | exact Hsp]]]].
    - right. exists EOther, w'. unfold wrap_other, bind, try_. rewrite Hrun.
      split; [reflexivity |]. split; [exact hard_EOther | exact Hrest].
  Qed.

  Lemma fstrict_if_call (I : world -> Prop) (b : bool) (m : M unit) wq fl :
    fcall T m -> quiet wq -> I wq -> fstrict I (if b then m else ret tt) wq fl.
  Proof. intros Hm Hq HI. destruct b; [apply fstrict_call; assumption | apply fstrict_ret; exact Hq]. Qed.

  (** a spent plan: executed as without *)
  Lemma fstrict_spent {A} (I : world -> Prop) (m : M A) wq fl :
    fstrict I m wq fl -> spent (set_faults wq fl) ->
    exists r w1, m wq = (r, w1) /\ r <> MHalt /\ quiet w1 /\
                 m (set_faults wq fl) = (r, set_faults w1 fl) /\ spent (set_faults w1 fl).
  Proof.
    intros [(r & w1 & Hrun & Hn & Hq1 & Hrunf & Hsp) | (e & w' & _ & _ & _ & _ & Hns & _)] Hs.
    - exists r, w1. repeat (split; [assumption |]). apply Hsp. exact Hs.
    - contradiction.
  Qed.
End Strict.

Lemma fstrict_weaken {A} (T T' : fstag -> Prop) (I : world -> Prop) (m : M A) wq fl :
  (forall t, T t -> T' t) -> fstrict T I m wq fl -> fstrict T' I m wq fl.
Proof.
  intros HT [Hc | (e & w' & H1 & H2 & H3 & H4 & H5 & H6 & (f & Hin & Hf) & Hws)]; [left; exact Hc | right].
  exists e, w'. repeat (split; [assumption |]). split; [| exact Hws].
  exists f. split; [exact Hin | exact (HT _ Hf)].
Qed.

(* ------------------------------------------------------------------ *)
(** * [sclean]: once the plan is spent *)

Definition sclean {A} (m : M A) : Prop :=
  forall w, w_crash w = None -> spent w ->
    exists r w1, m (unfault w) = (r, w1) /\ r <> MHalt /\ quiet w1 /\
                 m w = (r, set_faults w1 (w_faults w)) /\ spent (set_faults w1 (w_faults w)).

Lemma sclean_fcall {A} (T : fstag -> Prop) (m : M A) : fcall T m -> sclean m.
Proof.
  intros Hm w Hc Hs. destruct (Hm w Hc) as [(r & w1 & Hrun & Hn & Hq1 & Hrunf & Hsp) | (w' & _ & _ & _ & _ & _ & Hns & _)].
  - exists r, w1. repeat (split; [assumption |]). apply Hsp. exact Hs.
  - contradiction.
Qed.

Lemma sclean_plain {A} (m : M A) : fplain m -> sclean m.
Proof. intros Hp. apply (sclean_fcall (fun _ => True)). apply fplain_fcall. exact Hp. Qed.

Lemma sclean_ret {A} (a : A) : sclean (ret a).
Proof. apply sclean_plain. apply fplain_ret. Qed.

Lemma sclean_fail {A} (e : errno) : sclean (@fail A e).
Proof. apply sclean_plain. apply fplain_fail. Qed.

Lemma sclean_bind {A B} (m : M A) (f : A -> M B) :
  sclean m -> (forall a, sclean (f a)) -> sclean (bind m f).
Proof.
  intros Hm Hf w Hc Hs. destruct (Hm w Hc Hs) as (r & w1 & Hrun & Hn & Hq1 & Hrunf & Hsp).
  destruct r as [a | e |]; [| | contradiction Hn; reflexivity].
  - destruct (Hf a (set_faults w1 (w_faults w)) (proj1 Hq1) Hsp) as (r2 & w2 & Hrun2 & Hn2 & Hq2 & Hrunf2 & Hsp2).
    rewrite (unfault_lift w1 _ (proj2 Hq1)) in Hrun2. cbn [set_faults w_faults] in Hrunf2, Hsp2.
    exists r2, w2. unfold bind. rewrite Hrun, Hrunf.
    split; [exact Hrun2 | split; [exact Hn2 | split; [exact Hq2 | split; [exact Hrunf2 | exact Hsp2]]]].
  - exists (MErr e), w1. unfold bind. rewrite Hrun, Hrunf.
    split; [reflexivity | split; [discriminate | split; [exact Hq1 | split; [reflexivity | exact Hsp]]]].
Qed.

Lemma sclean_try {A} (m : M A) : sclean m -> sclean (try_ m).
Proof.
  intros Hm w Hc Hs. destruct (Hm w Hc Hs) as (r & w1 & Hrun & Hn & Hq1 & Hrunf & Hsp).
  unfold try_. rewrite Hrun, Hrunf.
  destruct r as [a | e |]; [| | contradiction Hn; reflexivity].
  - exists (MOk (Ok a)), w1. split; [reflexivity | split; [discriminate | split; [exact Hq1 | split; [reflexivity | exact Hsp]]]].
  - exists (MOk (Err e)), w1. split; [reflexivity | split; [discriminate | split; [exact Hq1 | split; [reflexivity | exact Hsp]]]].
Qed.

Lemma sclean_ext {A} (m m' : M A) : (forall x, m x = m' x) -> sclean m' -> sclean m.
Proof.
  intros E Hm w Hc Hs. destruct (Hm w Hc Hs) as (r & w1 & Hrun & Hrest).
  exists r, w1. rewrite !E. split; [exact Hrun | exact Hrest].
Qed.

Lemma sclean_mfold {A B} (f : B -> A -> M B) (l : list A) :
  (forall b x, sclean (f b x)) -> forall b, sclean (mfold f l b).
Proof.
  intros Hf. induction l as [|x r IH]; intros b; [apply sclean_ret |].
  cbn [mfold]. apply sclean_bind; [apply Hf | intros b'; apply IH].
Qed.

Lemma sclean_miter {A} (f : A -> M unit) (l : list A) : (forall x, sclean (f x)) -> sclean (miter f l).
Proof.
  intros Hf. induction l as [|x r IH]; [apply sclean_ret |].
  cbn [miter]. apply sclean_bind; [apply Hf | intros _; exact IH].
Qed.

Lemma sclean_collect_errs {A} (f : A -> M unit) (l : list A) :
  (forall x, sclean (f x)) -> sclean (collect_errs f l).
Proof.
  intros Hf. induction l as [|x r IH]; [apply sclean_ret |].
  cbn [collect_errs]. apply sclean_bind; [apply sclean_try; apply Hf |].
  intros e. apply sclean_bind; [exact IH | intros es; apply sclean_ret].
Qed.

(* ------------------------------------------------------------------ *)
(** * What every call leaves alone *)

Lemma fcall_any {A} (T : fstag -> Prop) (m : M A) (w : world) :
  fcall T m -> w_crash w = None ->
  exists r w', m w = (r, w') /\ r <> MHalt /\ w_crash w' = None /\ w_faults w' = w_faults w /\
               (spent w -> spent w').
Proof.
  intros Hm Hc. destruct (Hm w Hc) as [(r & w1 & Hrun & Hn & Hq1 & Hrunf & Hsp)
                                       | (w' & Hrun & _ & _ & Hc' & Hf' & Hns & _)].
  - exists r, (set_faults w1 (w_faults w)). split; [exact Hrunf |]. split; [exact Hn |].
    split; [exact (proj1 Hq1) |]. split; [reflexivity |]. intros Hs. apply Hsp. exact Hs.
  - exists (MErr EIO), w'. split; [exact Hrun |]. split; [discriminate |].
    split; [exact Hc' |]. split; [exact Hf' |]. intros Hs. contradiction.
Qed.

(** the spy leaves the bookkeeping alone, and the filesystem state if the operation does *)
Lemma spied_sim {A} t pm p p2 (op : M A) :
  (forall w r w', op w = (r, w') -> sim w w') ->
  forall w r w', spied t pm p p2 op w = (r, w') -> sim w w'.
Proof.
  intros Hop w r w' Hrun. unfold spied in Hrun.
  set (w1 := mkWorld (w_st w) (w_trace w) (N.succ (w_ticks w)) (w_crash w) (w_faults w) (w_infos w)) in *.
  assert (Hbody : forall r w',
            (if faulted w1 t pm p then (MErr EIO, record (mkTcall t pm p p2 (Some EIO)) w1)
             else match op w1 with
                  | (MOk a, w2) => (MOk a, record (mkTcall t pm p p2 None) w2)
                  | (MErr e, w2) => (MErr e, record (mkTcall t pm p p2 (Some e)) w2)
                  | (MHalt, w2) => (MHalt, w2)
                  end) = (r, w') -> sim w w').
  { intros r0 w0 H. destruct (faulted w1 t pm p).
    - injection H as <- <-. split; reflexivity.
    - destruct (op w1) as [[a | e |] w2] eqn:Hop1; injection H as <- <-;
        exact (Hop _ _ _ Hop1). }
  destruct (w_crash w) as [k|].
  - destruct (N.leb k (w_ticks w)); [injection Hrun as <- <-; apply sim_refl | exact (Hbody _ _ Hrun)].
  - exact (Hbody _ _ Hrun).
Qed.

Lemma spy_h_sim {A} (h : fhandle) (pm : pmeth) (op : M A) :
  (forall w r w', op w = (r, w') -> sim w w') ->
  forall w r w', spy_h h pm op w = (r, w') -> sim w w'.
Proof.
  intros Hop. unfold spy_h. destruct (fh_spy h) as [[t p]|]; [apply spied_sim; exact Hop | exact Hop].
Qed.

Lemma hread_sim (h : fhandle) w r w' : hread h w = (r, w') -> sim w w'.
Proof.
  unfold hread. apply spy_h_sim. clear. intros w r w' Hrun. cbv beta in Hrun.
  destruct (fs_read (w_st w) (fh h)) as [[d | e] h']; injection Hrun as <- <-; apply sim_refl.
Qed.

Lemma hclose_sim (h : fhandle) w r w' : hclose h w = (r, w') -> sim w w'.
Proof.
  unfold hclose. apply spy_h_sim. clear. intros w r w' Hrun. injection Hrun as <- <-. apply sim_refl.
Qed.

Lemma hstat_sim (h : fhandle) w r w' : hstat h w = (r, w') -> sim w w'.
Proof.
  unfold hstat. apply spy_h_sim. clear. intros w r w' Hrun. unfold fs_get, lift_res, ret, fail in Hrun.
  destruct (fs_hstat (w_st w) (fh h)); injection Hrun as <- <-; apply sim_refl.
Qed.

Lemma hreaddirnames_sim (h : fhandle) w r w' : hreaddirnames h w = (r, w') -> sim w w'.
Proof.
  unfold hreaddirnames. apply spy_h_sim. clear. intros w r w' Hrun.
  unfold bind, fs_get, lift_res, ret, fail in Hrun.
  destruct (fs_readdirnames (w_st w) (fh h)) as [names | e].
  - destruct (fh_hidden h) as [[dirp hs]|].
    + destruct (fst (hidden_list dirp hs (-1) names)); injection Hrun as <- <-; apply sim_refl.
    + injection Hrun as <- <-. apply sim_refl.
  - injection Hrun as <- <-. apply sim_refl.
Qed.

(** closing a handle, whatever happens: the state stays, the result is not a halt *)
Lemma try_hclose_any (h : fhandle) (w : world) :
  w_crash w = None ->
  exists x w', try_ (hclose h) w = (MOk x, w') /\ sim w w' /\ w_crash w' = None /\
               w_faults w' = w_faults w /\ (spent w -> spent w').
Proof.
  intros Hc.
  destruct (fcall_any (fun _ => True) (hclose h) w (fcall_hclose _ h (any_tag h)) Hc)
    as (r & w' & Hrun & Hn & Hc' & Hf' & Hs).
  pose proof (hclose_sim h w r w' Hrun) as Hsim.
  destruct r as [a | e |]; [| | contradiction Hn; reflexivity].
  - exists (Ok a), w'. split; [exact (try_ok _ w w' a Hrun) | repeat (split; [assumption |]); exact Hs].
  - exists (Err e), w'. split; [exact (try_err _ w w' e Hrun) | repeat (split; [assumption |]); exact Hs].
Qed.

(* ------------------------------------------------------------------ *)
(** * [cleanrun]: executed exactly as without plan (the first case of [fstrict]) *)

Definition cleanrun {A} (m : M A) (wq : world) (fl : list fault) : Prop :=
  exists r w1, m wq = (r, w1) /\ r <> MHalt /\ quiet w1 /\
               m (set_faults wq fl) = (r, set_faults w1 fl) /\
               (spent (set_faults w1 fl) <-> spent (set_faults wq fl)).

Lemma fstrict_cases {A} (T : fstag -> Prop) (I : world -> Prop) (m : M A) wq fl :
  fstrict T I m wq fl ->
  cleanrun m wq fl \/
  (exists e w', m (set_faults wq fl) = (MErr e, w') /\ hard e /\
                w_crash w' = None /\ w_faults w' = fl /\
                ~ spent (set_faults wq fl) /\ (single fl -> spent w') /\
                (exists f, In f fl /\ T (f_fs f)) /\
                exists ws, I ws /\ quiet ws /\ sim ws w').
Proof. intros H. exact H. Qed.

Lemma cleanrun_fstrict {A} (T : fstag -> Prop) (I : world -> Prop) (m : M A) wq fl :
  cleanrun m wq fl -> fstrict T I m wq fl.
Proof. intros H. left. exact H. Qed.

Lemma cleanrun_plain {A} (m : M A) wq fl : fplain m -> quiet wq -> cleanrun m wq fl.
Proof.
  intros Hp Hq.
  destruct (fplain_run m (set_faults wq fl) Hp (proj1 Hq)) as (r & w1 & Hrun & Hn & Hq1 & Hrunf & Hsp).
  rewrite (unfault_lift wq fl (proj2 Hq)) in Hrun. exists r, w1.
  split; [exact Hrun | split; [exact Hn | split; [exact Hq1 | split; [exact Hrunf | exact Hsp]]]].
Qed.

Lemma cleanrun_bind {A B} (m : M A) (f : A -> M B) wq fl :
  cleanrun m wq fl -> (forall a w1, m wq = (MOk a, w1) -> cleanrun (f a) w1 fl) ->
  cleanrun (bind m f) wq fl.
Proof.
  intros (r & w1 & Hrun & Hn & Hq1 & Hrunf & Hsp) Hf.
  destruct r as [a | e |]; [| | contradiction Hn; reflexivity].
  - destruct (Hf a w1 Hrun) as (r2 & w2 & Hrun2 & Hn2 & Hq2 & Hrunf2 & Hsp2).
    exists r2, w2. unfold bind. rewrite Hrun, Hrunf.
    split; [exact Hrun2 | split; [exact Hn2 | split; [exact Hq2 | split; [exact Hrunf2 |]]]].
    rewrite Hsp2. exact Hsp.
  - exists (MErr e), w1. unfold bind. rewrite Hrun, Hrunf.
    split; [reflexivity | split; [discriminate | split; [exact Hq1 | split; [reflexivity | exact Hsp]]]].
Qed.

Lemma cleanrun_bind_ok {A B} (m : M A) (f : A -> M B) wq w1 fl (a : A) :
  m wq = (MOk a, w1) -> cleanrun m wq fl -> cleanrun (f a) w1 fl -> cleanrun (bind m f) wq fl.
Proof.
  intros Hrun Hm Hf. apply cleanrun_bind; [exact Hm |].
  intros a' w1' Hq. rewrite Hrun in Hq. injection Hq as <- <-. exact Hf.
Qed.

Lemma cleanrun_try {A} (m : M A) wq fl : cleanrun m wq fl -> cleanrun (try_ m) wq fl.
Proof.
  intros (r & w1 & Hrun & Hn & Hq1 & Hrunf & Hsp). unfold cleanrun, try_. rewrite Hrun, Hrunf.
  destruct r as [a | e |]; [| | contradiction Hn; reflexivity].
  - exists (MOk (Ok a)), w1. split; [reflexivity | split; [discriminate | split; [exact Hq1 | split; [reflexivity | exact Hsp]]]].
  - exists (MOk (Err e)), w1. split; [reflexivity | split; [discriminate | split; [exact Hq1 | split; [reflexivity | exact Hsp]]]].
Qed.

Lemma cleanrun_ext {A} (m m' : M A) wq fl : (forall x, m x = m' x) -> cleanrun m' wq fl -> cleanrun m wq fl.
Proof.
  intros E (r & w1 & Hrun & Hrest). exists r, w1. rewrite !E. split; [exact Hrun | exact Hrest].
Qed.

(** the result of a clean run, given the result of the run without plan *)
Lemma cleanrun_result {A} (m : M A) wq fl (r : mres A) (w1 : world) :
  cleanrun m wq fl -> m wq = (r, w1) ->
  r <> MHalt /\ quiet w1 /\ m (set_faults wq fl) = (r, set_faults w1 fl) /\
  (spent (set_faults w1 fl) <-> spent (set_faults wq fl)).
Proof.
  intros (r' & w1' & Hrun & Hn & Hq1 & Hrunf & Hsp) Hr. rewrite Hr in Hrun. injection Hrun as <- <-.
  split; [exact Hn | split; [exact Hq1 | split; [exact Hrunf | exact Hsp]]].
Qed.

(** one executed call *)
Lemma fcall_cases {A} (T : fstag -> Prop) (m : M A) wq fl :
  fcall T m -> quiet wq ->
  cleanrun m wq fl \/
  (exists w', m (set_faults wq fl) = (MErr EIO, w') /\ sim wq w' /\
              w_crash w' = None /\ w_faults w' = fl /\
              ~ spent (set_faults wq fl) /\ (single fl -> spent w') /\
              exists f, In f fl /\ T (f_fs f)).
Proof.
  intros Hm Hq. pose proof Hq as [Hc Hf].
  destruct (Hm (set_faults wq fl) Hc) as [(r & w1 & Hrun & Hn & Hq1 & Hrunf & Hsp) | (w' & Hrun & Hst & Hi & Hc' & Hf' & Hns & Hs1 & Hex)].
  - left. rewrite (unfault_lift wq fl Hf) in Hrun. exists r, w1.
    split; [exact Hrun | split; [exact Hn | split; [exact Hq1 | split; [exact Hrunf | exact Hsp]]]].
  - right. exists w'. split; [exact Hrun |]. split; [split; [exact Hst | exact Hi] |].
    split; [exact Hc' | split; [exact Hf' | split; [exact Hns | split; [exact Hs1 | exact Hex]]]].
Qed.

Lemma classic_spent (w : world) : spent w \/ ~ spent w.
Proof.
  unfold spent. induction (w_faults w) as [|f l IH]; [left; constructor |].
  destruct IH as [IH | IH].
  - destruct (N.lt_ge_cases (f_occ f) (occurrences (f_fs f) (f_meth f) (f_path f) (w_trace w))) as [Hlt | Hge].
    + left. constructor; [exact Hlt | exact IH].
    + right. intros H. inversion H as [| x l' Hx Hl]; subst. unfold fault_spent in Hx. lia.
  - right. intros H. inversion H as [| x l' Hx Hl]; subst. exact (IH Hl).
Qed.

(* ------------------------------------------------------------------ *)
(** * [nohalt]: without crash point nothing halts (and the plan is carried along) *)

Definition nohalt {A} (m : M A) : Prop :=
  forall w r w', w_crash w = None -> m w = (r, w') ->
    r <> MHalt /\ w_crash w' = None /\ w_faults w' = w_faults w /\ (spent w -> spent w').

Lemma nohalt_fcall {A} (T : fstag -> Prop) (m : M A) : fcall T m -> nohalt m.
Proof.
  intros Hm w r w' Hc Hrun. destruct (fcall_any T m w Hm Hc) as (r0 & w0 & Hrun0 & Hn & Hc' & Hf' & Hs).
  rewrite Hrun in Hrun0. injection Hrun0 as <- <-. split; [exact Hn | split; [exact Hc' | split; [exact Hf' | exact Hs]]].
Qed.

Lemma nohalt_plain {A} (m : M A) : fplain m -> nohalt m.
Proof. intros Hp. apply (nohalt_fcall (fun _ => True)). apply fplain_fcall. exact Hp. Qed.

Lemma nohalt_ret {A} (a : A) : nohalt (ret a).
Proof. apply nohalt_plain. apply fplain_ret. Qed.

Lemma nohalt_fail {A} (e : errno) : nohalt (@fail A e).
Proof. apply nohalt_plain. apply fplain_fail. Qed.

Lemma nohalt_bind {A B} (m : M A) (f : A -> M B) : nohalt m -> (forall a, nohalt (f a)) -> nohalt (bind m f).
Proof.
  intros Hm Hf w r w' Hc Hrun. unfold bind in Hrun.
  destruct (m w) as [[a | e |] w1] eqn:Hmw; destruct (Hm w _ w1 Hc Hmw) as (Hn1 & Hc1 & Hf1 & Hs1).
  - destruct (Hf a w1 r w' Hc1 Hrun) as (Hn2 & Hc2 & Hf2 & Hs2).
    split; [exact Hn2 | split; [exact Hc2 | split; [congruence | intros Hs; exact (Hs2 (Hs1 Hs))]]].
  - injection Hrun as <- <-. split; [discriminate | split; [exact Hc1 | split; [exact Hf1 | exact Hs1]]].
  - contradiction Hn1. reflexivity.
Qed.

Lemma nohalt_try {A} (m : M A) : nohalt m -> nohalt (try_ m).
Proof.
  intros Hm w r w' Hc Hrun. unfold try_ in Hrun.
  destruct (m w) as [[a | e |] w1] eqn:Hmw; destruct (Hm w _ w1 Hc Hmw) as (Hn1 & Hc1 & Hf1 & Hs1);
    [| | contradiction Hn1; reflexivity]; injection Hrun as <- <-;
    (split; [discriminate | split; [exact Hc1 | split; [exact Hf1 | exact Hs1]]]).
Qed.

Lemma nohalt_ext {A} (m m' : M A) : (forall x, m x = m' x) -> nohalt m' -> nohalt m.
Proof. intros E Hm w r w' Hc Hrun. rewrite E in Hrun. exact (Hm w r w' Hc Hrun). Qed.

Lemma nohalt_mfold {A B} (f : B -> A -> M B) (l : list A) :
  (forall b x, nohalt (f b x)) -> forall b, nohalt (mfold f l b).
Proof.
  intros Hf. induction l as [|x r IH]; intros b; [apply nohalt_ret |].
  cbn [mfold]. apply nohalt_bind; [apply Hf | intros b'; apply IH].
Qed.

Lemma nohalt_collect_errs {A} (f : A -> M unit) (l : list A) :
  (forall x, nohalt (f x)) -> nohalt (collect_errs f l).
Proof.
  intros Hf. induction l as [|x r IH]; [apply nohalt_ret |].
  cbn [collect_errs]. apply nohalt_bind; [apply nohalt_try; apply Hf |].
  intros e. apply nohalt_bind; [exact IH | intros es; apply nohalt_ret].
Qed.

Lemma nohalt_ignore_permission (m : M unit) : nohalt m -> nohalt (ignore_permission m).
Proof.
  intros Hm. unfold ignore_permission. apply nohalt_bind; [apply nohalt_try; exact Hm |].
  intros [x | e]; [apply nohalt_ret |]. destruct (is_permission e); [apply nohalt_ret | apply nohalt_fail].
Qed.

Lemma nohalt_wrap_other (m : M unit) : nohalt m -> nohalt (wrap_other m).
Proof.
  intros Hm. unfold wrap_other. apply nohalt_bind; [apply nohalt_try; exact Hm |].
  intros [x | e]; [apply nohalt_ret | apply nohalt_fail].
Qed.

(** [collect_errs] returns a list of errors *)
Lemma collect_errs_run {A} (f : A -> M unit) (l : list A) (w : world) :
  (forall x, nohalt (f x)) -> w_crash w = None ->
  exists es w', collect_errs f l w = (MOk es, w') /\ w_crash w' = None /\ w_faults w' = w_faults w /\
                (spent w -> spent w').
Proof.
  intros Hf. revert w. induction l as [|x r IH]; intros w Hc.
  - exists [], w. split; [reflexivity | split; [exact Hc | split; [reflexivity | intros Hs; exact Hs]]].
  - cbn [collect_errs]. destruct (try_ (f x) w) as [rt w1] eqn:Ht.
    destruct (nohalt_try _ (Hf x) w rt w1 Hc Ht) as (Hn1 & Hc1 & Hf1 & Hs1).
    assert (Hx : exists e, rt = MOk e).
    { destruct (try_inv _ _ _ _ Ht) as [Hh | Hx]; [contradiction | exact Hx]. }
    destruct Hx as (e & ->).
    destruct (IH w1 Hc1) as (es & w' & Hrun & Hc' & Hf' & Hs').
    exists (match e with Ok _ => es | Err er => er :: es end), w'.
    split; [| split; [exact Hc' | split; [congruence | intros Hs; exact (Hs' (Hs1 Hs))]]].
    rewrite (bind_ok _ _ w w1 e Ht). rewrite (bind_ok _ _ w1 w' es Hrun). reflexivity.
Qed.

(** no error collected: every element succeeded, an invariant indexed by the
    processed prefix was carried through *)
Lemma collect_errs_nilF {A} (f : A -> M unit) (P : list A -> world -> Prop) (l : list A) :
  (forall x, nohalt (f x)) ->
  (forall done x todo w w', l = done ++ x :: todo -> P done w -> w_crash w = None ->
     f x w = (MOk tt, w') -> P (done ++ [x]) w') ->
  forall todo done w w', l = done ++ todo -> P done w -> w_crash w = None ->
    collect_errs f todo w = (MOk [], w') -> P l w'.
Proof.
  intros Hf Hstep. induction todo as [|x todo IH]; intros done w w' Hl HP Hc Hrun.
  - cbn [collect_errs] in Hrun. unfold ret in Hrun. injection Hrun as <-. rewrite Hl, app_nil_r. exact HP.
  - cbn [collect_errs] in Hrun. destruct (try_ (f x) w) as [rt w1] eqn:Ht.
    destruct (nohalt_try _ (Hf x) w rt w1 Hc Ht) as (Hn1 & Hc1 & Hf1 & _).
    destruct (try_inv _ _ _ _ Ht) as [Hh | (e & ->)]; [contradiction |].
    rewrite (bind_ok _ _ w w1 e Ht) in Hrun.
    destruct (collect_errs_run f todo w1 Hf Hc1) as (es & w2 & Hrun2 & _).
    rewrite (bind_ok _ _ w1 w2 es Hrun2) in Hrun. unfold ret in Hrun. injection Hrun as Hes <-.
    destruct e as [[] | er]; [| discriminate Hes]. subst es.
    assert (Hfx : f x w = (MOk tt, w1)).
    { unfold try_ in Ht. destruct (f x w) as [[[] | e0 |] wz]; try discriminate Ht; injection Ht as <-; reflexivity. }
    apply (IH (done ++ [x]) w1 w2); [rewrite <- app_assoc; exact Hl | | exact Hc1 | exact Hrun2].
    exact (Hstep done x todo w w1 Hl HP Hc Hfx).
Qed.

(** a strict computation that succeeded was executed as without plan *)
Lemma strict_ok {A} (T : fstag -> Prop) (I : world -> Prop) (m : M A) wq fl (a : A) (w' : world) :
  fstrict T I m wq fl -> m (set_faults wq fl) = (MOk a, w') ->
  exists w1, m wq = (MOk a, w1) /\ quiet w1 /\ w' = set_faults w1 fl /\
             (spent (set_faults w1 fl) <-> spent (set_faults wq fl)).
Proof.
  intros [(r & w1 & Hrun & Hn & Hq1 & Hrunf & Hsp) | (e & wx & Hrun & _)] Hok.
  - rewrite Hok in Hrunf. injection Hrunf as <- ->. exists w1.
    split; [exact Hrun | split; [exact Hq1 | split; [reflexivity | exact Hsp]]].
  - rewrite Hok in Hrun. discriminate Hrun.
Qed.

(** [lexists]: Lstat; a refusal is not "not found" *)
Lemma lexists_strict (T : fstag -> Prop) (I : world -> Prop) (a : fsapi) (p : str) wq fl :
  fcall T (a_lstat a p) -> quiet wq -> I wq -> fstrict T I (lexists a p) wq fl.
Proof.
  intros Hm Hq HI. unfold lexists.
  assert (Htb : forall (g : res finfo -> M bool),
            (forall e w, hard e -> g (Err e) w = (MErr e, w)) -> (forall x, fplain (g x)) ->
            fstrict T I (r <- try_ (a_lstat a p) ;; g r) wq fl).
  { intros g Hg Hp.
    destruct (fstrict_call T I (a_lstat a p) wq fl Hm Hq HI) as [(r & w1 & Hrun & Hn & Hq1 & Hrunf & Hsp) | (e & w' & Hrun & Hh & Hrest)].
    - assert (Htry : exists x, try_ (a_lstat a p) wq = (MOk x, w1) /\ try_ (a_lstat a p) (set_faults wq fl) = (MOk x, set_faults w1 fl)).
      { unfold try_. rewrite Hrun, Hrunf. destruct r as [a0 | e |]; [| | contradiction Hn; reflexivity];
          eexists; split; reflexivity. }
      destruct Htry as (x & Htq & Htf).
      apply fstrict_bind_ok with (w1 := w1) (a := x); [exact Htq | | apply fstrict_plain; [apply Hp | exact Hq1]].
      left. exists (MOk x), w1. split; [exact Htq | split; [discriminate | split; [exact Hq1 | split; [exact Htf | exact Hsp]]]].
    - right. exists e, w'. unfold bind, try_. rewrite Hrun. rewrite (Hg e w' Hh). split; [reflexivity | split; [exact Hh | exact Hrest]]. }
  apply Htb.
  - intros e w [_ Hnf]. rewrite Hnf. reflexivity.
  - intros [fi | e]; [apply fplain_ret |]. destruct (is_not_found e); [apply fplain_ret | apply fplain_fail].
Qed.
