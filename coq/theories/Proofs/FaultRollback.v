(** Rollback in a world with a single fault (property C09): it never halts,
    and it returns nil only if every pass went through - then the base view
    is restored, the backup view is empty and nothing is tracked any more
    ([rollback_nil_restored]).  Once the plan is spent Rollback behaves
    exactly as without plan ([rollback_spent]).

    The proof follows Proofs/BackupRollback.v pass by pass: an element of a
    pass that returns nil under the plan was executed as without plan (a
    refused call makes it fail), except for the final Close of restoreFile,
    whose error is dropped - after the copy is complete. *)
From stdpp Require Import gmap.
From BFS Require Import Spec.Faults.
From BFS Require Import Path.PathSpec.
From BFS Require Import Proofs.PathFacts Proofs.C19Facts Proofs.RollbackFacts Proofs.BackupCopy
                        Proofs.BackupTry Proofs.BackupRollback Proofs.BackupC01
                        Proofs.AlwaysLib Proofs.AlwaysTry Proofs.FaultLib Proofs.FaultTry.

(* ------------------------------------------------------------------ *)
(** * Nothing halts *)

Ltac nhcall :=
  eapply nohalt_fcall;
  first [ eapply flaw_lstat | eapply flaw_stat | eapply flaw_readlink | eapply flaw_open
        | eapply flaw_openfile | eapply flaw_create | eapply flaw_mkdir | eapply flaw_mkdirall
        | eapply flaw_remove | eapply flaw_removeall | eapply flaw_rename | eapply flaw_chmod
        | eapply flaw_chown | eapply flaw_lchown | eapply flaw_chtimes | eapply flaw_symlink ];
  eassumption.

Ltac nhhandle :=
  apply (nohalt_fcall Tany);
  first [ apply fcall_hread | apply fcall_hwrite | apply fcall_hclose | apply fcall_hstat
        | apply fcall_hreaddirnames ]; apply any_tag.

Lemma nohalt_lexists_any (a : fsapi) (V : world -> store) (tag : fstag)
      (rh wh : fhandle -> str -> nat -> Prop) (p : str) :
  fault_laws a V tag rh wh -> nohalt (lexists a p).
Proof.
  intros HFa. unfold lexists. apply nohalt_bind; [apply nohalt_try; nhcall |].
  intros [fi | e]; [apply nohalt_ret |]. destruct (is_not_found e); [apply nohalt_ret | apply nohalt_fail].
Qed.

Ltac nh :=
  repeat match goal with
    | |- nohalt (ret _) => apply nohalt_ret
    | |- nohalt (fail _) => apply nohalt_fail
    | |- nohalt (try_ _) => apply nohalt_try
    | |- nohalt (ignore_permission _) => apply nohalt_ignore_permission
    | |- nohalt (wrap_other _) => apply nohalt_wrap_other
    | |- nohalt (bind _ _) => apply nohalt_bind; [| intros ?]
    | |- nohalt (lift_res ?r) => destruct r; cbn [lift_res]
    | |- nohalt (match ?x with Ok _ => _ | Err _ => _ end) => destruct x
    | |- nohalt (if ?b then _ else _) => destruct b
    | |- nohalt (match ?x with KDir => _ | KFile => _ | KLink => _ end) => destruct x
    | |- nohalt (match ?x with Some _ => _ | None => _ end) => destruct x
    | |- nohalt (lexists _ _) => first [eapply nohalt_lexists_any; eassumption]
    | |- nohalt (hread _) => nhhandle
    | |- nohalt (hwrite _ _) => nhhandle
    | |- nohalt (hclose _) => nhhandle
    | |- nohalt (hstat _) => nhhandle
    | |- nohalt (hreaddirnames _) => nhhandle
    | |- nohalt (a_lstat _ _) => nhcall
    | |- nohalt (a_stat _ _) => nhcall
    | |- nohalt (a_readlink _ _) => nhcall
    | |- nohalt (a_open _ _) => nhcall
    | |- nohalt (a_openfile _ _ _ _) => nhcall
    | |- nohalt (a_create _ _) => nhcall
    | |- nohalt (a_mkdir _ _ _) => nhcall
    | |- nohalt (a_mkdirall _ _ _) => nhcall
    | |- nohalt (a_remove _ _) => nhcall
    | |- nohalt (a_removeall _ _) => nhcall
    | |- nohalt (a_rename _ _ _) => nhcall
    | |- nohalt (a_chmod _ _ _) => nhcall
    | |- nohalt (a_chown _ _ _ _) => nhcall
    | |- nohalt (a_lchown _ _ _ _) => nhcall
    | |- nohalt (a_chtimes _ _ _) => nhcall
    | |- nohalt (a_symlink _ _ _) => nhcall
    end.

Section NoHalt.
  Variables a a' : fsapi.
  Variables V V' : world -> store.
  Variables tag tag' : fstag.
  Variables rh rh' wh wh' : fhandle -> str -> nat -> Prop.
  Variables hid hid' anc anc' : str -> Prop.
  Hypothesis HFa : fault_laws a V tag rh wh.
  Hypothesis HFa' : fault_laws a' V' tag' rh' wh'.

  Lemma nohalt_lexists (p : str) : nohalt (lexists a p).
  Proof. exact (nohalt_lexists_any a V tag rh wh p HFa). Qed.

  Lemma nohalt_remove_if_symlink (p : str) : nohalt (remove_if_symlink a p).
  Proof. unfold remove_if_symlink. nh. Qed.

  Lemma nohalt_chown_to (info : finfo) (p : str) : nohalt (chown_to a info p).
  Proof. unfold chown_to. nh. Qed.

  Lemma nohalt_copy_dir (p : str) (info : finfo) : nohalt (copy_dir a p info).
  Proof.
    unfold copy_dir. pose proof nohalt_chown_to as Hc.
    nh; match goal with |- nohalt (chown_to _ _ _) => apply Hc end.
  Qed.

  Lemma nohalt_io_copy : forall (fuel : nat) (dst src : fhandle), nohalt (io_copy fuel dst src).
  Proof.
    induction fuel as [|fuel IH]; intros dst src; [apply nohalt_fail |].
    cbn [io_copy]. apply nohalt_bind; [nhhandle |]. intros [o h']. cbn [fst snd].
    destruct o as [ch|]; [| apply nohalt_ret]. apply nohalt_bind; [nhhandle | intros d; apply IH].
  Qed.

  Lemma nohalt_write_file (p : str) (perm : N) (src : fhandle) : nohalt (write_file a p perm src).
  Proof.
    unfold write_file. pose proof nohalt_io_copy as Hc.
    apply nohalt_bind; [nhcall | intros file].
    apply nohalt_bind; [apply nohalt_try; apply Hc | intros r].
    apply nohalt_bind; [apply nohalt_try; nhhandle | intros c].
    destruct r, c; first [apply nohalt_ret | apply nohalt_fail].
  Qed.

  Lemma nohalt_copy_file (p : str) (info : finfo) (src : fhandle) : nohalt (copy_file a p info src).
  Proof.
    unfold copy_file. pose proof nohalt_write_file as Hw. pose proof nohalt_chown_to as Hc.
    apply nohalt_wrap_other. destruct (fi_kind info); try apply nohalt_fail.
    apply nohalt_bind; [apply Hw | intros u1].
    apply nohalt_bind; [apply nohalt_ignore_permission; apply Hc | intros u2].
    nh.
  Qed.

  Lemma nohalt_copy_symlink (p : str) (info : finfo) : nohalt (copy_symlink a' a p info).
  Proof. unfold copy_symlink. apply nohalt_wrap_other. destruct (fi_kind info); try apply nohalt_fail. nh. Qed.
End NoHalt.

(* ------------------------------------------------------------------ *)
(** * A removal pass over one filesystem *)

Section FRemoval.
  Variable a : fsapi.
  Variables V V' : world -> store.
  Variable tn : str -> str.
  Variable acc : str -> str -> Prop.
  Variables rh wh : fhandle -> str -> nat -> Prop.
  Variables hid anc : str -> Prop.
  Variable tag : fstag.
  Hypothesis HLa : api_laws a V V' tn acc rh wh hid anc.
  Hypothesis HFa : fault_laws a V tag rh wh.
  Variable fl : list fault.

  (** the invariant of a removal pass, on the state without its plan *)
  Definition RInvF (s0 s' : store) (D : list str) (w : world) : Prop :=
    w_crash w = None /\ w_faults w = fl /\ RInv V V' s0 s' D (unfault w).

  Lemma RInvF_lift (s0 s' : store) (D : list str) (w1 : world) :
    RInv V V' s0 s' D w1 -> RInvF s0 s' D (set_faults w1 fl).
  Proof.
    intros HR. pose proof HR as (Hq & _). split; [exact (proj1 Hq) | split; [reflexivity |]].
    rewrite (unfault_lift w1 fl (proj2 Hq)). exact HR.
  Qed.

  Lemma remove_stepF (s0 s' : store) (D : list str) (w w' : world) (p : str) (n : node) :
    RInvF s0 s' D w -> p <> s_root -> snolinkpar s0 p -> V (unfault w) !! p = Some n -> ~ anc p ->
    (forall q n0, s0 !! q = Some n0 -> In p (ancestors q) -> In q D) ->
    a_remove a p w = (MOk tt, w') -> RInvF s0 s' (D ++ [p]) w'.
  Proof.
    intros (Hc & Hf & HR) Hne Hnlp Hp Hnanc Hbelow Hrun.
    destruct (remove_step a V V' tn acc rh wh hid anc HLa s0 s' D (unfault w) p n HR Hne Hnlp Hp Hbelow Hnanc) as (w2 & Hrun2 & HR2).
    pose proof HR as (Hq & _).
    assert (Hst : fstrict (eq tag) (fun _ => True) (a_remove a p) (unfault w) fl).
    { apply fstrict_call; [apply (flaw_remove _ _ _ _ _ HFa) | exact Hq | exact I]. }
    assert (Hlw : set_faults (unfault w) fl = w) by (rewrite <- Hf; apply lift_unfault).
    destruct (strict_ok _ _ _ _ _ tt w' Hst ltac:(rewrite Hlw; exact Hrun)) as (w1 & Hq1 & _ & -> & _).
    rewrite Hrun2 in Hq1. injection Hq1 as <-. exact (RInvF_lift s0 s' _ w2 HR2).
  Qed.

  Lemma try_rm_stepF (s0 s' : store) (D : list str) (w w' : world) (p : str) :
    RInvF s0 s' D w -> p <> s_root -> snolinkpar s0 p -> ~ anc p ->
    (forall q n0, s0 !! q = Some n0 -> In p (ancestors q) -> In q D) ->
    try_rm a p w = (MOk tt, w') -> RInvF s0 s' (D ++ [p]) w'.
  Proof.
    intros (Hc & Hf & HR) Hne Hnlp Hnanc Hbelow Hrun.
    destruct (try_rm_step a V V' tn acc rh wh hid anc HLa s0 s' D (unfault w) p HR Hne Hnlp Hbelow Hnanc) as (w2 & Hrun2 & HR2).
    pose proof HR as (Hq & Hwf & _).
    pose proof (RInv_snolinkpar V V' s0 s' D (unfault w) p HR Hnlp) as Hnlp'.
    destruct (lexists_spec a V V' tn acc rh wh hid anc HLa (unfault w) p Hq Hwf Hnlp') as (w1 & Hrun1 & HV1 & Hsr1).
    assert (Hst : fstrict (eq tag) (fun _ => True) (try_rm a p) (unfault w) fl).
    { unfold try_rm. eapply fstrict_bind_ok; [exact Hrun1 | |].
      - apply lexists_strict; [apply (flaw_lstat _ _ _ _ _ HFa) | exact Hq | exact I].
      - apply fstrict_if_call; [apply (flaw_remove _ _ _ _ _ HFa) | exact (quiet_same_rest V' _ w1 Hq Hsr1) | exact I]. }
    assert (Hlw : set_faults (unfault w) fl = w) by (rewrite <- Hf; apply lift_unfault).
    destruct (strict_ok _ _ _ _ _ tt w' Hst ltac:(rewrite Hlw; exact Hrun)) as (w3 & Hq3 & _ & -> & _).
    rewrite Hrun2 in Hq3. injection Hq3 as <-. exact (RInvF_lift s0 s' _ w2 HR2).
  Qed.

  Lemma nohalt_try_rm (p : str) : nohalt (try_rm a p).
  Proof.
    unfold try_rm. apply nohalt_bind; [exact (nohalt_lexists_any a V tag rh wh p HFa) | intros found].
    destruct found; nh.
  Qed.

  Lemma nohalt_remove (p : str) : nohalt (a_remove a p).
  Proof. nh. Qed.

  Lemma remove_passF (s0 s' : store) (D0 l : list str) (w w' : world) :
    RInvF s0 s' D0 w -> List.NoDup l ->
    (forall p, In p l -> p <> s_root /\ snolinkpar s0 p /\ s0 !! p <> None /\ ~ In p D0) ->
    (forall done p todo q n0, l = done ++ p :: todo -> s0 !! q = Some n0 ->
       In p (ancestors q) -> In q (D0 ++ done)) ->
    (forall p, In p l -> ~ anc p) ->
    collect_errs (fun p => a_remove a p) l w = (MOk [], w') -> RInvF s0 s' (D0 ++ l) w'.
  Proof.
    intros HR Hnd Hl Hord Hna Hrun.
    apply (collect_errs_nilF (fun p => a_remove a p) (fun done wx => RInvF s0 s' (D0 ++ done) wx) l
             nohalt_remove) with (todo := l) (done := []) (w := w); [| reflexivity | rewrite app_nil_r; exact HR | exact (proj1 HR) | exact Hrun].
    intros done p todo w1 w2 El HR1 _ Hrun1.
    assert (Hin : In p l) by (rewrite El; apply in_or_app; right; left; reflexivity).
    destruct (Hl p Hin) as (Hne & Hnlp & Hex & HninD).
    assert (Hnin : ~ In p (D0 ++ done)).
    { intros Hi. apply in_app_or in Hi. destruct Hi as [Hi | Hi]; [exact (HninD Hi) |].
      rewrite El in Hnd. exact (nodup_mid_notin p done todo Hnd Hi). }
    assert (Hp : exists n, V (unfault w1) !! p = Some n).
    { destruct HR1 as (_ & _ & (_ & _ & _ & Heqv & _)). pose proof (Heqv p Hnin) as He.
      destruct (s0 !! p) as [n0|] eqn:Hs0; [| contradiction Hex; reflexivity].
      apply sonode_eqv_some_r in He. destruct He as (n' & Hn' & _). exists n'. exact Hn'. }
    destruct Hp as (n & Hp). rewrite app_assoc.
    apply (remove_stepF s0 s' (D0 ++ done) w1 w2 p n HR1 Hne Hnlp Hp (Hna p Hin)); [| exact Hrun1].
    intros q n0 Hq Hanc. exact (Hord done p todo q n0 El Hq Hanc).
  Qed.

  Lemma try_rm_passF (s0 s' : store) (D0 l : list str) (w w' : world) :
    RInvF s0 s' D0 w ->
    (forall p, In p l -> p <> s_root /\ snolinkpar s0 p) ->
    (forall done p todo q n0, l = done ++ p :: todo -> s0 !! q = Some n0 ->
       In p (ancestors q) -> In q (D0 ++ done)) ->
    (forall p, In p l -> ~ anc p) ->
    collect_errs (try_rm a) l w = (MOk [], w') -> RInvF s0 s' (D0 ++ l) w'.
  Proof.
    intros HR Hl Hord Hna Hrun.
    apply (collect_errs_nilF (try_rm a) (fun done wx => RInvF s0 s' (D0 ++ done) wx) l
             nohalt_try_rm) with (todo := l) (done := []) (w := w); [| reflexivity | rewrite app_nil_r; exact HR | exact (proj1 HR) | exact Hrun].
    intros done p todo w1 w2 El HR1 _ Hrun1.
    assert (Hin : In p l) by (rewrite El; apply in_or_app; right; left; reflexivity).
    destruct (Hl p Hin) as (Hne & Hnlp). rewrite app_assoc.
    apply (try_rm_stepF s0 s' (D0 ++ done) w1 w2 p HR1 Hne Hnlp (Hna p Hin)); [| exact Hrun1].
    intros q n0 Hq Hanc. exact (Hord done p todo q n0 El Hq Hanc).
  Qed.
  (** [removeIfSymlink] where no link is: one Lstat; a refusal is not "not found" *)
  Lemma remove_if_symlink_strict (T : fstag -> Prop) (I : world -> Prop) (wq : world) (p : str) :
    fcall T (a_lstat a p) -> quiet wq -> swf (V wq) -> snolinkpar (V wq) p ->
    (forall n, V wq !! p = Some n -> node_kind n <> KLink) -> I wq ->
    fstrict T I (remove_if_symlink a p) wq fl.
  Proof.
    intros Hm Hq Hwf Hnlp Hnl HI. unfold remove_if_symlink.
    destruct (fstrict_call T I (a_lstat a p) wq fl Hm Hq HI)
      as [(r & w1 & Hrun & Hn & Hq1 & Hrunf & Hsp) | (e & w' & Hrun & Hh & Hrest)].
    - assert (Htry : exists x, try_ (a_lstat a p) wq = (MOk x, w1) /\
                               try_ (a_lstat a p) (set_faults wq fl) = (MOk x, set_faults w1 fl) /\
                               match x with
                               | Ok fi => fi_kind fi <> KLink
                               | Err e => is_not_found e = true
                               end).
      { unfold try_. rewrite Hrun, Hrunf. destruct (V wq !! p) as [n|] eqn:Hp.
        - destruct (law_lstat_some _ _ _ _ _ _ _ _ _ HLa wq p n Hq Hwf Hnlp Hp)
            as (fi & (w2 & Hrun2 & _) & Him & _).
          rewrite Hrun in Hrun2. injection Hrun2 as -> _.
          exists (Ok fi). split; [reflexivity | split; [reflexivity |]].
          rewrite (proj1 Him). exact (Hnl n eq_refl).
        - destruct (law_lstat_none _ _ _ _ _ _ _ _ _ HLa wq p Hq Hwf Hnlp Hp)
            as (e & w2 & Hrun2 & Hnf & _).
          rewrite Hrun in Hrun2. injection Hrun2 as -> _.
          exists (Err e). split; [reflexivity | split; [reflexivity | exact Hnf]]. }
      destruct Htry as (x & Htq & Htf & Hx).
      apply fstrict_bind_ok with (w1 := w1) (a := x); [exact Htq | |].
      + left. exists (MOk x), w1.
        split; [exact Htq | split; [discriminate | split; [exact Hq1 | split; [exact Htf | exact Hsp]]]].
      + destruct x as [fi | e].
        * destruct (fi_kind fi); [apply fstrict_ret; exact Hq1 | apply fstrict_ret; exact Hq1 |
                                  contradiction Hx; reflexivity].
        * rewrite Hx. apply fstrict_ret. exact Hq1.
    - right. exists e, w'. unfold bind, try_. rewrite Hrun. rewrite (proj2 Hh).
      split; [reflexivity | split; [exact Hh | exact Hrest]].
  Qed.
End FRemoval.

(* ------------------------------------------------------------------ *)
(** * Rollback *)

Section FRollback.
  Variables base backup : fsapi.
  Variables Vb Vk : world -> store.
  Variables tnb tnk : str -> str.
  Variables accb acck : str -> str -> Prop.
  Variables rhb rhk whb whk : fhandle -> str -> nat -> Prop.
  Variables hid anc : str -> Prop.
  Variable B0 : store.
  Variables tagb tagk : fstag.
  Hypothesis HLb : api_laws base Vb Vk tnb accb rhb whb hid anc.
  Hypothesis HLk : api_laws backup Vk Vb tnk acck rhk whk nohid nohid.
  Hypothesis HFb : fault_laws base Vb tagb rhb whb.
  Hypothesis HFk : fault_laws backup Vk tagk rhk whk.
  Hypothesis Hlinks : links_ok tnb tnk accb acck B0.
  Hypothesis Hsmall : all_small B0.
  Hypothesis HwfB : swf B0.
  Hypothesis Hloc : loc_ok hid anc B0.

  Variable fl : list fault.

  (** the state without plan in which Rollback starts *)
  Variable w0 : world.
  Hypothesis Hinv : Inv Vb Vk B0 w0.

  Local Notation infos := (w_infos w0).
  Local Notation lrm := (l_rm Vb w0).
  Local Notation lds := (l_ds w0).
  Local Notation lfs := (l_fs w0).
  Local Notation lls := (l_ls w0).
  Local Notation lwf := (fun x => set_faults x fl).

  Lemma Vbst (w w' : world) : sim w w' -> Vb w' = Vb w.
  Proof. intros [H _]. exact (flaw_st _ _ _ _ _ HFb w w' H). Qed.
  Lemma Vkst (w w' : world) : sim w w' -> Vk w' = Vk w.
  Proof. intros [H _]. exact (flaw_st _ _ _ _ _ HFk w w' H). Qed.

  Lemma nohalt_restore_file (p : str) (fi : finfo) : nohalt (restore_file base backup p fi).
  Proof.
    unfold restore_file. pose proof (nohalt_copy_file base Vb tagb rhb whb HFb) as Hcf.
    apply nohalt_bind; [apply nohalt_try; nhcall | intros r].
    destruct r as [f | e]; [| destruct (is_not_found e); [apply nohalt_ret | apply nohalt_fail]].
    apply nohalt_bind; [apply nohalt_try; nhhandle | intros r2].
    destruct r2 as [fi0 | e]; [| nh].
    apply nohalt_bind; [destruct (fi_kind fi0); nh | intros r3].
    destruct r3 as [u | e]; [| nh].
    apply nohalt_bind; [apply nohalt_try; apply (nohalt_remove_if_symlink base Vb tagb rhb whb HFb) | intros r3b].
    destruct r3b as [u2 | e]; [| nh].
    apply nohalt_bind; [apply nohalt_try; apply Hcf | intros r4]. nh.
  Qed.

  Lemma nohalt_restore_symlink (p : str) (fi : finfo) : nohalt (restore_symlink base backup p fi).
  Proof.
    unfold restore_symlink.
    pose proof (nohalt_copy_symlink base backup Vb Vk tagb tagk rhb rhk whb whk HFb HFk) as Hcs.
    apply nohalt_bind; [exact (nohalt_lexists_any backup Vk tagk rhk whk p HFk) | intros ex].
    destruct (negb ex); [apply nohalt_ret |].
    apply nohalt_bind; [exact (nohalt_lexists_any base Vb tagb rhb whb p HFb) | intros ex2].
    apply nohalt_bind; [destruct ex2; nh | intros u]. apply Hcs.
  Qed.

  (** ** the restoring passes *)
  Section FRestore.
    Variable s1 : store.
    Hypothesis Hs1_keep : forall p, infos !! p <> Some None -> sonode_eqv (s1 !! p) (Vb w0 !! p).

    Local Notation prog := (Prog Vb Vk B0 w0 s1).

    Definition ProgF (R : list str) (w : world) : Prop :=
      w_crash w = None /\ w_faults w = fl /\ prog R (unfault w).

    Lemma ProgF_lift (R : list str) (w1 : world) : prog R w1 -> ProgF R (set_faults w1 fl).
    Proof.
      intros HP. pose proof HP as (Hq & _). split; [exact (proj1 Hq) | split; [reflexivity |]].
      rewrite (unfault_lift w1 fl (proj2 Hq)). exact HP.
    Qed.

    Lemma Prog_sim (R : list str) (w w' : world) : prog R w -> quiet w' -> sim w w' -> prog R w'.
    Proof.
      intros HP Hq Hs. exact (Prog_read Vb Vk B0 w0 s1 R w w' HP Hq (Vbst w w' Hs) (Vkst w w' Hs)).
    Qed.

    Lemma lw_of (w : world) : w_faults w = fl -> set_faults (unfault w) fl = w.
    Proof. intros <-. apply lift_unfault. Qed.

    (** *** directories *)
    Lemma dir_stepF (R : list str) (w w' : world) (p : str) (fi : finfo) :
      ProgF R w -> infos !! p = Some (Some fi) -> p <> s_root -> fi_kind fi = KDir -> ~ In p R ->
      (forall a, In a (ancestors p) -> a <> s_root -> In a R) ->
      (remove_if_symlink base p ;;; copy_dir base p fi) w = (MOk tt, w') -> ProgF (R ++ [p]) w'.
    Proof.
      intros (Hc & Hf & HP0) Hi Hne Hk Hnin Hanc Hrun.
      destruct (dir_step base Vb Vk tnb accb rhb whb hid anc B0 HLb HwfB Hloc w0 Hinv s1 Hs1_keep
                  R (unfault w) p fi HP0 Hi Hne Hk Hnin Hanc) as (w2 & Hrun2 & HP2).
      destruct (some_orig Vb Vk B0 w0 Hinv p fi Hi) as (n0 & Hn0 & Him).
      destruct (info_ids_nonneg fi n0 Him) as [Hu Hg].
      (* removeIfSymlink: the entry, if there is one, is a directory *)
      pose proof HP0 as (Hq0 & Hwf0 & _ & _ & _).
      pose proof (sdirect_snolinkpar _ _ (prog_sdirect Vb Vk B0 HwfB w0 Hinv s1 R (unfault w) p fi HP0 Hi Hanc)) as Hnlp0.
      assert (Hnl0 : forall n, Vb (unfault w) !! p = Some n -> node_kind n <> KLink).
      { intros n Hp. rewrite (prog_kind Vb Vk B0 w0 Hinv s1 Hs1_keep R (unfault w) p fi n HP0 Hnin Hi Hp), Hk. discriminate. }
      destruct (remove_if_symlink_nolink base Vb Vk tnb accb rhb whb hid anc HLb (unfault w) p Hq0 Hwf0 Hnlp0 Hnl0)
        as (wr & Hris & HVr & Hsrr).
      pose proof (Prog_read Vb Vk B0 w0 s1 R (unfault w) wr HP0 (quiet_same_rest Vk _ wr Hq0 Hsrr) HVr (proj1 Hsrr)) as HP.
      pose proof (prog_sdirect Vb Vk B0 HwfB w0 Hinv s1 R wr p fi HP Hi Hanc) as Hdir.
      pose proof HP as (Hq & Hwf & HVk & _ & _).
      assert (Hcase : Vb wr !! p = None \/ sdir (Vb wr) p).
      { destruct (Vb wr !! p) as [n|] eqn:Hp; [right | left; reflexivity].
        pose proof (prog_kind Vb Vk B0 w0 Hinv s1 Hs1_keep R wr p fi n HP Hnin Hi Hp) as Hkn. rewrite Hk in Hkn.
        destruct n as [m | m c | m t]; simpl in Hkn; try discriminate Hkn.
        exists m. exact Hp. }
      assert (Hst : fstrict Tany (fun _ => True) (remove_if_symlink base p ;;; copy_dir base p fi) (unfault w) fl).
      { eapply fstrict_bind_ok; [exact Hris | |].
        - exact (remove_if_symlink_strict base Vb Vk tnb accb rhb whb hid anc HLb fl Tany (fun _ => True) (unfault w) p
                   (fcall_any_tag tagb _ (flaw_lstat _ _ _ _ _ HFb p)) Hq0 Hwf0 Hnlp0 Hnl0 I).
        - eapply fstrict_mono;
            [| exact (copy_dir_strict base Vb Vk tnb accb rhb whb hid anc tagb HLb HFb fl (fun _ => True) wr p fi
                        Hq Hwf Hdir Hne Hk Hu Hg Hcase I (fun _ => I)
                        (orig_not_hid hid anc B0 Hloc p n0 Hn0))].
          intros x _. exact I. }
      destruct (strict_ok _ _ _ _ _ tt w' Hst ltac:(rewrite (lw_of w Hf); exact Hrun)) as (w3 & Hq3 & _ & -> & _).
      rewrite Hrun2 in Hq3. injection Hq3 as <-. exact (ProgF_lift _ w2 HP2).
    Qed.

    (** *** regular files *)
    Lemma file_stepF (R : list str) (w w' : world) (p : str) (fi : finfo) :
      ProgF R w -> infos !! p = Some (Some fi) -> p <> s_root -> fi_kind fi = KFile -> ~ In p R ->
      (forall a, In a (ancestors p) -> a <> s_root -> In a R) ->
      restore_file base backup p fi w = (MOk tt, w') -> ProgF (R ++ [p]) w'.
    Proof.
      intros (Hc & Hf & HP) Hi Hne Hk Hnin Hanc Hrun.
      destruct (file_step base backup Vb Vk tnb tnk accb acck rhb rhk whb whk hid anc B0 HLb HLk Hsmall HwfB Hloc
                  w0 Hinv s1 Hs1_keep R (unfault w) p fi HP Hi Hne Hk Hnin Hanc) as (wd & Hrund & HPd).
      set (wq := unfault w) in *.
      destruct (backup_node Vb Vk B0 w0 Hinv p fi Hi Hne) as (n0 & nk & Hn0 & Him & Hnk & Hcopy).
      destruct (info_ids_nonneg fi n0 Him) as [Hu Hg].
      assert (Hk0 : node_kind n0 = KFile) by (rewrite <- (proj1 Him); exact Hk).
      destruct n0 as [m0 | m0 c0 | m0 t0]; simpl in Hk0; try discriminate Hk0.
      simpl in Hcopy.
      destruct nk as [mk | mk ck | mk tk]; simpl in Hcopy; try contradiction.
      destruct Hcopy as [-> ->].
      pose proof HP as (Hq & Hwf & HVk & _ & _).
      pose proof (inv_wf_k Vb Vk B0 w0 Hinv) as Hwfk0.
      pose proof (swf_lookup_snolinkpar _ _ _ Hwfk0 Hnk) as Hnlpk0.
      assert (Hwfk : swf (Vk wq)) by (rewrite HVk; exact Hwfk0).
      assert (Hpk : Vk wq !! p = Some (File m0 c0)) by (rewrite HVk; exact Hnk).
      assert (Hnlpk : snolinkpar (Vk wq) p) by (rewrite HVk; exact Hnlpk0).
      destruct (law_open_file _ _ _ _ _ _ _ _ _ HLk wq p m0 c0 Hq Hwfk Hnlpk Hpk)
        as (h & (wa & Hopen & HVka & Hsra) & Hrh).
      pose proof (quiet_same_rest Vb wq wa Hq Hsra) as Hqa.
      pose proof (Prog_read Vb Vk B0 w0 s1 R wq wa HP Hqa (proj1 Hsra) HVka) as HPa.
      assert (Hpka : Vk wa !! p = Some (File m0 c0)) by (rewrite HVka; exact Hpk).
      destruct (law_hstat _ _ _ _ _ _ _ _ _ HLk wa h p 0%nat (File m0 c0) Hqa Hrh Hpka)
        as (fi2 & (wb & Hstat & HVkb & Hsrb) & Him2).
      pose proof (quiet_same_rest Vb wa wb Hqa Hsrb) as Hqb.
      pose proof (Prog_read Vb Vk B0 w0 s1 R wa wb HPa Hqb (proj1 Hsrb) HVkb) as HPb.
      assert (Hk2 : fi_kind fi2 = KFile) by exact (proj1 Him2).
      (* removeIfSymlink on the base: the entry, if there is one, is a regular file *)
      pose proof HPb as (_ & Hwfb1 & _ & _ & _).
      pose proof (sdirect_snolinkpar _ _ (prog_sdirect Vb Vk B0 HwfB w0 Hinv s1 R wb p fi HPb Hi Hanc)) as Hnlpb.
      assert (Hnlb : forall n, Vb wb !! p = Some n -> node_kind n <> KLink).
      { intros n Hp. rewrite (prog_kind Vb Vk B0 w0 Hinv s1 Hs1_keep R wb p fi n HPb Hnin Hi Hp), Hk. discriminate. }
      destruct (remove_if_symlink_nolink base Vb Vk tnb accb rhb whb hid anc HLb wb p Hqb Hwfb1 Hnlpb Hnlb)
        as (wr & Hris & HVr & Hsrr).
      pose proof (quiet_same_rest Vk wb wr Hqb Hsrr) as Hqr.
      pose proof (Prog_read Vb Vk B0 w0 s1 R wb wr HPb Hqr HVr (proj1 Hsrr)) as HPr.
      pose proof HPr as (_ & Hwfb & HVkb0 & _ & _).
      assert (Hwfkb : swf (Vk wr)) by (rewrite HVkb0; exact Hwfk0).
      assert (Hpkb : Vk wr !! p = Some (File m0 c0)) by (rewrite HVkb0; exact Hnk).
      pose proof (prog_sdirect Vb Vk B0 HwfB w0 Hinv s1 R wr p fi HPr Hi Hanc) as Hdir.
      assert (Hcase : Vb wr !! p = None \/ exists m1 c1, Vb wr !! p = Some (File m1 c1)).
      { destruct (Vb wr !! p) as [n|] eqn:Hp; [right | left; reflexivity].
        pose proof (prog_kind Vb Vk B0 w0 Hinv s1 Hs1_keep R wr p fi n HPr Hnin Hi Hp) as Hkn. rewrite Hk in Hkn.
        destruct n as [m | m c | m t]; simpl in Hkn; try discriminate Hkn.
        exists m, c. reflexivity. }
      destruct (copy_file_spec base backup Vb Vk tnb tnk accb acck rhb rhk whb whk hid nohid anc nohid HLb HLk
                  wr p fi h p m0 c0 Hqr Hwfb Hwfkb Hdir Hk Hu Hg Hcase Hrh Hpkb (Hsmall p m0 c0 Hn0)
                  (orig_not_hid hid anc B0 Hloc p _ Hn0))
        as (wc & m' & Hcp & (Hsrc & Hwfc & Heqvc) & Hpc & Hmeta & Hmt).
      pose proof (quiet_same_rest Vk wr wc Hqr Hsrc) as Hqc.
      destruct (law_hclose_r _ _ _ _ _ _ _ _ _ HLk wc h p 0%nat Hqc Hrh) as (wd' & Hclose & HVkd & Hsrd).
      (* the run without plan ends in [wd'] *)
      assert (Ewd : wd' = wd).
      { assert (E : restore_file base backup p fi wq = (MOk tt, wd')).
        { unfold restore_file.
          rewrite (bind_ok _ _ wq wa (Ok h) (try_ok _ wq wa h Hopen)). cbv beta iota.
          rewrite (bind_ok _ _ wa wb (Ok fi2) (try_ok _ wa wb fi2 Hstat)). cbv beta iota.
          rewrite Hk2.
          rewrite (bind_ok _ _ wb wb (Ok tt) eq_refl). cbv beta iota.
          rewrite (bind_ok _ _ wb wr (Ok tt) (try_ok _ wb wr tt Hris)). cbv beta iota.
          rewrite (bind_ok _ _ wr wc (Ok tt) (try_ok _ wr wc tt Hcp)).
          rewrite (bind_ok _ _ wc wd' (Ok tt) (try_ok _ wc wd' tt Hclose)).
          reflexivity. }
        rewrite Hrund in E. injection E as ->. reflexivity. }
      subst wd'.
      (* with the plan *)
      rewrite <- (lw_of w Hf) in Hrun. fold wq in Hrun. unfold restore_file in Hrun.
      destruct (fcall_cases (eq tagk) (a_open backup p) wq fl (flaw_open _ _ _ _ _ HFk p) Hq)
        as [Hc1 | (wx & Hrunf & _)].
      2:{ rewrite (bind_ok _ _ _ _ (Err EIO) (try_err _ _ _ EIO Hrunf)) in Hrun. cbv beta iota in Hrun.
          change (is_not_found EIO) with false in Hrun. cbv iota in Hrun. discriminate Hrun. }
      destruct (cleanrun_result _ wq fl _ wa Hc1 Hopen) as (_ & _ & Hrunf1 & _).
      rewrite (bind_ok _ _ _ _ (Ok h) (try_ok _ _ _ h Hrunf1)) in Hrun. cbv beta iota in Hrun.
      destruct (fcall_cases Tany (hstat h) wa fl (fcall_hstat _ h (any_tag h)) Hqa)
        as [Hc2 | (wx & Hrunf & _ & Hcx & _)].
      2:{ rewrite (bind_ok _ _ _ _ (Err EIO) (try_err _ _ _ EIO Hrunf)) in Hrun. cbv beta iota in Hrun.
          destruct (try_hclose_any h wx Hcx) as (y & wy & Hcl & _).
          rewrite (bind_ok _ _ _ _ y Hcl) in Hrun. discriminate Hrun. }
      destruct (cleanrun_result _ wa fl _ wb Hc2 Hstat) as (_ & _ & Hrunf2 & _).
      rewrite (bind_ok _ _ _ _ (Ok fi2) (try_ok _ _ _ fi2 Hrunf2)) in Hrun. cbv beta iota in Hrun.
      rewrite Hk2 in Hrun. rewrite (bind_ok _ _ (set_faults wb fl) (set_faults wb fl) (Ok tt) eq_refl) in Hrun.
      cbv beta iota in Hrun.
      destruct (fstrict_cases _ _ _ _ _
                  (remove_if_symlink_strict base Vb Vk tnb accb rhb whb hid anc HLb fl Tany (fun _ => True) wb p
                     (fcall_any_tag tagb _ (flaw_lstat _ _ _ _ _ HFb p)) Hqb Hwfb1 Hnlpb Hnlb I))
        as [Hc2b | (e & wx & Hrunf & _ & Hcx & _)].
      2:{ rewrite (bind_ok _ _ _ _ (Err e) (try_err _ _ _ e Hrunf)) in Hrun. cbv beta iota in Hrun.
          destruct (try_hclose_any h wx Hcx) as (y & wy & Hcl & _).
          rewrite (bind_ok _ _ _ _ y Hcl) in Hrun. discriminate Hrun. }
      destruct (cleanrun_result _ wb fl _ wr Hc2b Hris) as (_ & _ & Hrunf2b & _).
      rewrite (bind_ok _ _ _ _ (Ok tt) (try_ok _ _ _ tt Hrunf2b)) in Hrun. cbv beta iota in Hrun.
      destruct (fstrict_cases _ _ _ _ _
                  (copy_file_strict base backup Vb Vk tnb tnk accb acck rhb rhk whb whk hid nohid anc nohid tagb HLb HLk HFb fl
                     (fun _ => True) wr p fi h p m0 c0 Hqr Hwfb Hwfkb Hdir Hk Hu Hg Hcase Hrh Hpkb
                     (Hsmall p m0 c0 Hn0) I (fun _ _ _ => I) (orig_not_hid hid anc B0 Hloc p _ Hn0)))
        as [Hc3 | (e & wx & Hrunf & _ & Hcx & _)].
      2:{ rewrite (bind_ok _ _ _ _ (Err e) (try_err _ _ _ e Hrunf)) in Hrun.
          destruct (try_hclose_any h wx Hcx) as (y & wy & Hcl & _).
          rewrite (bind_ok _ _ _ _ y Hcl) in Hrun. discriminate Hrun. }
      destruct (cleanrun_result _ wr fl _ wc Hc3 Hcp) as (_ & _ & Hrunf3 & _).
      rewrite (bind_ok _ _ _ _ (Ok tt) (try_ok _ _ _ tt Hrunf3)) in Hrun.
      destruct (try_hclose_any h (set_faults wc fl) (proj1 Hqc)) as (y & wy & Hcl & Hsimy & Hcy & Hfy & _).
      rewrite (bind_ok _ _ _ _ y Hcl) in Hrun. cbn [lift_res] in Hrun. unfold ret in Hrun. injection Hrun as <-.
      (* the state is the one the run without plan ends in *)
      split; [exact Hcy | split; [exact Hfy |]].
      apply (Prog_sim (R ++ [p]) wd (unfault wy) HPd (quiet_unfault wy Hcy)).
      pose proof (hclose_sim h wc _ wd Hclose) as Hs1.
      apply (sim_trans wd wc (unfault wy)); [split; symmetry; [exact (proj1 Hs1) | exact (proj2 Hs1)] |].
      exact (sim_trans wc (set_faults wc fl) (unfault wy) (sim_lift wc fl) (sim_trans _ _ _ Hsimy (sim_unfault wy))).
    Qed.

    (** *** symbolic links *)
    Lemma link_stepF (R : list str) (w w' : world) (p : str) (fi : finfo) :
      ProgF R w -> infos !! p = Some (Some fi) -> p <> s_root -> fi_kind fi = KLink -> ~ In p R ->
      (forall a, In a (ancestors p) -> a <> s_root -> In a R) ->
      restore_symlink base backup p fi w = (MOk tt, w') -> ProgF (R ++ [p]) w'.
    Proof.
      intros (Hc & Hf & HP) Hi Hne Hk Hnin Hanc Hrun.
      destruct (link_step base backup Vb Vk tnb tnk accb acck rhb rhk whb whk hid anc B0 HLb HLk Hlinks HwfB Hloc
                  w0 Hinv s1 Hs1_keep R (unfault w) p fi HP Hi Hne Hk Hnin Hanc) as (wd & Hrund & HPd).
      set (wq := unfault w) in *.
      destruct (backup_node Vb Vk B0 w0 Hinv p fi Hi Hne) as (n0 & nk & Hn0 & Him & Hnk & Hcopy).
      destruct (info_ids_nonneg fi n0 Him) as [Hu Hg].
      assert (Hk0 : node_kind n0 = KLink) by (rewrite <- (proj1 Him); exact Hk).
      destruct n0 as [m0 | m0 c0 | m0 t0]; simpl in Hk0; try discriminate Hk0.
      simpl in Hcopy.
      destruct nk as [mk | mk ck | mk tk]; simpl in Hcopy; try contradiction.
      destruct Hcopy as [Hmk ->].
      destruct (Hlinks p m0 t0 Hn0) as (Htnb & _ & Htne & Haccb & _ & H511).
      pose proof HP as (Hq & Hwf & HVk & _ & _).
      pose proof (inv_wf_k Vb Vk B0 w0 Hinv) as Hwfk0.
      pose proof (swf_lookup_snolinkpar _ _ _ Hwfk0 Hnk) as Hnlpk0.
      assert (Hwfk : swf (Vk wq)) by (rewrite HVk; exact Hwfk0).
      assert (Hnlpk : snolinkpar (Vk wq) p) by (rewrite HVk; exact Hnlpk0).
      destruct (lexists_spec backup Vk Vb tnk acck rhk whk nohid nohid HLk wq p Hq Hwfk Hnlpk)
        as (wa & Hex1 & HVka & Hsra).
      rewrite HVk, Hnk in Hex1.
      pose proof (quiet_same_rest Vb wq wa Hq Hsra) as Hqa.
      pose proof (Prog_read Vb Vk B0 w0 s1 R wq wa HP Hqa (proj1 Hsra) HVka) as HPa.
      pose proof (prog_sdirect Vb Vk B0 HwfB w0 Hinv s1 R wa p fi HPa Hi Hanc) as Hdira.
      pose proof HPa as (_ & Hwfa & HVka0 & _ & _).
      destruct (lexists_spec base Vb Vk tnb accb rhb whb hid anc HLb wa p Hqa Hwfa (sdirect_snolinkpar _ _ Hdira))
        as (wb & Hex2 & HVb & Hsrb).
      pose proof (quiet_same_rest Vk wa wb Hqa Hsrb) as Hqb.
      pose proof (Prog_read Vb Vk B0 w0 s1 R wa wb HPa Hqb HVb (proj1 Hsrb)) as HPb.
      pose proof HPb as (_ & Hwfb & HVkb0 & _ & _).
      pose proof (prog_sdirect Vb Vk B0 HwfB w0 Hinv s1 R wb p fi HPb Hi Hanc) as Hdirb.
      assert (Hrm : exists wc,
                 (if match Vb wa !! p with Some _ => true | None => false end
                  then a_removeall base p else ret tt) wb = (MOk tt, wc) /\
                 quiet wc /\ swf (Vb wc) /\ Vk wc = Vk w0 /\ Vb wc !! p = None /\
                 store_eqv_except [p] (Vb wc) (Vb wb)).
      { rewrite <- HVb. destruct (Vb wb !! p) as [n|] eqn:Hp.
        - pose proof (prog_kind Vb Vk B0 w0 Hinv s1 Hs1_keep R wb p fi n HPb Hnin Hi Hp) as Hkn.
          assert (Hnd : node_kind n <> KDir) by (rewrite Hkn, Hk; discriminate).
          destruct (law_removeall_leaf _ _ _ _ _ _ _ _ _ HLb wb p n Hqb Hwfb
                      (sdirect_snolinkpar _ _ Hdirb) Hp Hnd Hne)
            as (s2 & (wc & Hrunc & HVc & Hsrc) & Hnone & Heqv & Hwfc).
          subst s2. exists wc. split; [exact Hrunc |].
          split; [eapply quiet_same_rest; eassumption |].
          split; [exact Hwfc |].
          split; [rewrite (proj1 Hsrc); exact HVkb0 |].
          split; [exact Hnone | exact Heqv].
        - exists wb. split; [reflexivity |].
          split; [exact Hqb | split; [exact Hwfb | split; [exact HVkb0 | split; [exact Hp |]]]].
          apply store_eqv_except_refl. }
      destruct Hrm as (wc & Hrmrun & Hqc & Hwfc & HVkc & Hpc & Heqvc).
      assert (Hwfkc : swf (Vk wc)) by (rewrite HVkc; exact Hwfk0).
      assert (Hnlpkc : snolinkpar (Vk wc) p) by (rewrite HVkc; exact Hnlpk0).
      assert (Hpkc : Vk wc !! p = Some (Link mk t0)) by (rewrite HVkc; exact Hnk).
      pose proof (sdirect_eqv_except_self _ _ p Hdirb Heqvc) as Hdirc.
      assert (Hst : fstrict Tany (fun _ => True) (restore_symlink base backup p fi) wq fl).
      { unfold restore_symlink.
        eapply fstrict_bind_ok; [exact Hex1 | |].
        { apply lexists_strict; [apply (fcall_any_tag tagk); apply (flaw_lstat _ _ _ _ _ HFk) | exact Hq | exact I]. }
        change (negb true) with false. cbv iota.
        eapply fstrict_bind_ok; [exact Hex2 | |].
        { apply lexists_strict; [apply (fcall_any_tag tagb); apply (flaw_lstat _ _ _ _ _ HFb) | exact Hqa | exact I]. }
        cbv beta.
        eapply fstrict_bind_ok; [exact Hrmrun | |].
        { apply fstrict_if_call; [apply (fcall_any_tag tagb); apply (flaw_removeall _ _ _ _ _ HFb) | exact Hqb | exact I]. }
        eapply fstrict_mono; [| exact (copy_symlink_strict base backup Vb Vk tnb tnk accb acck rhb rhk whb whk hid nohid anc nohid tagb tagk
                                         HLb HLk HFb HFk fl (fun _ => True) wc p fi mk t0 Hqc Hwfc Hwfkc Hnlpkc Hpkc
                                         Hdirc Hpc Hk Htne Haccb I (fun _ => I)
                                         (orig_not_hid hid anc B0 Hloc p _ Hn0))].
        intros x _. exact I. }
      destruct (strict_ok _ _ _ _ _ tt w' Hst ltac:(unfold wq; rewrite (lw_of w Hf); exact Hrun)) as (w3 & Hq3 & _ & -> & _).
      fold wq in Hrund. rewrite Hrund in Hq3. injection Hq3 as <-. exact (ProgF_lift _ wd HPd).
    Qed.

    (** *** the three passes: no error collected, every tracked original of the kind is restored *)
    Lemma dirs_passF (w w' : world) :
      ProgF [] w ->
      collect_errs (fun p => match info_of_key infos p with
                             | Some fi => remove_if_symlink base p ;;; copy_dir base p fi
                             | None => fail EOther end) (sort_least lds) w = (MOk [], w') ->
      ProgF lds w'.
    Proof.
      intros HP Hrun.
      assert (HP' : ProgF (sort_least lds) w').
      { apply (collect_errs_nilF (fun p => match info_of_key infos p with Some fi => remove_if_symlink base p ;;; copy_dir base p fi | None => fail EOther end)
                 (fun done wx => ProgF done wx) (sort_least lds))
          with (todo := sort_least lds) (done := []) (w := w); [| | reflexivity | exact HP | exact (proj1 HP) | exact Hrun].
        - intros p. destruct (info_of_key infos p); [| apply nohalt_fail].
          apply nohalt_bind; [apply (nohalt_remove_if_symlink base Vb tagb rhb whb HFb) | intros u].
          apply (nohalt_copy_dir base Vb tagb rhb whb HFb).
        - intros done p todo w1 w2 El HP1 _ Hrun1.
          assert (Hin : In p (sort_least lds)) by (rewrite El; apply in_or_app; right; left; reflexivity).
          apply isort_in in Hin. pose proof Hin as Hin'. apply in_k in Hin'.
          destruct Hin' as (fi & Hi & Hne & Hk).
          rewrite (info_of_key_some w0 p fi Hi) in Hrun1.
          pose proof (isort_nodup least lds (l_k_nodup w0 KDir)) as Hnd.
          fold (sort_least lds) in Hnd. rewrite El in Hnd.
          apply (dir_stepF done w1 w2 p fi HP1 Hi Hne Hk (nodup_mid_notin p done todo Hnd)); [| exact Hrun1].
          intros a Ha Hane.
          apply (least_order lds done todo p a (l_k_nodup w0 KDir) (l_k_cleaned Vb Vk B0 w0 Hinv KDir) El Hin
                   (anc_in_ds Vb Vk B0 HwfB w0 Hinv p fi a Hi Ha Hane)).
          apply (ancestors_spec p a); [apply (tracked_cleaned Vb Vk B0 w0 Hinv); congruence | exact Ha]. }
      destruct HP' as (Hc & Hf & HPq). split; [exact Hc | split; [exact Hf |]].
      apply (Prog_ext Vb Vk B0 w0 s1 (sort_least lds) lds _); [| exact HPq]. intros x. apply isort_in.
    Qed.

    Lemma files_passF (w w' : world) :
      ProgF lds w ->
      collect_errs (fun p => match info_of_key infos p with
                             | Some fi => restore_file base backup p fi
                             | None => fail EOther end) (sort_strings lfs) w = (MOk [], w') ->
      ProgF (lds ++ lfs) w'.
    Proof.
      intros HP Hrun.
      assert (HP' : ProgF (lds ++ sort_strings lfs) w').
      { apply (collect_errs_nilF (fun p => match info_of_key infos p with Some fi => restore_file base backup p fi | None => fail EOther end)
                 (fun done wx => ProgF (lds ++ done) wx) (sort_strings lfs))
          with (todo := sort_strings lfs) (done := []) (w := w); [| | reflexivity | rewrite app_nil_r; exact HP | exact (proj1 HP) | exact Hrun].
        - intros p. destruct (info_of_key infos p); [apply nohalt_restore_file | apply nohalt_fail].
        - intros done p todo w1 w2 El HP1 _ Hrun1.
          assert (Hin : In p (sort_strings lfs)) by (rewrite El; apply in_or_app; right; left; reflexivity).
          apply isort_in in Hin. pose proof Hin as Hin'. apply in_k in Hin'.
          destruct Hin' as (fi & Hi & Hne & Hk).
          rewrite (info_of_key_some w0 p fi Hi) in Hrun1.
          pose proof (isort_nodup str_ltb lfs (l_k_nodup w0 KFile)) as Hnd.
          fold (sort_strings lfs) in Hnd. rewrite El in Hnd.
          rewrite app_assoc.
          apply (file_stepF (lds ++ done) w1 w2 p fi HP1 Hi Hne Hk); [| | exact Hrun1].
          + intros Hcc. apply in_app_or in Hcc. destruct Hcc as [Hcc | Hcc].
            * apply in_k in Hcc. destruct Hcc as (fi' & Hi' & _ & Hk'). congruence.
            * exact (nodup_mid_notin p done todo Hnd Hcc).
          + intros a Ha Hane. apply in_or_app. left. exact (anc_in_ds Vb Vk B0 HwfB w0 Hinv p fi a Hi Ha Hane). }
      destruct HP' as (Hc & Hf & HPq). split; [exact Hc | split; [exact Hf |]].
      apply (Prog_ext Vb Vk B0 w0 s1 (lds ++ sort_strings lfs) (lds ++ lfs) _); [| exact HPq].
      intros x. rewrite !in_app_iff. unfold sort_strings. rewrite isort_in. reflexivity.
    Qed.

    Lemma links_passF (w w' : world) :
      ProgF (lds ++ lfs) w ->
      collect_errs (fun p => match info_of_key infos p with
                             | Some fi => restore_symlink base backup p fi
                             | None => fail EOther end) (sort_strings lls) w = (MOk [], w') ->
      ProgF ((lds ++ lfs) ++ lls) w'.
    Proof.
      intros HP Hrun.
      assert (HP' : ProgF ((lds ++ lfs) ++ sort_strings lls) w').
      { apply (collect_errs_nilF (fun p => match info_of_key infos p with Some fi => restore_symlink base backup p fi | None => fail EOther end)
                 (fun done wx => ProgF ((lds ++ lfs) ++ done) wx) (sort_strings lls))
          with (todo := sort_strings lls) (done := []) (w := w); [| | reflexivity | rewrite app_nil_r; exact HP | exact (proj1 HP) | exact Hrun].
        - intros p. destruct (info_of_key infos p); [apply nohalt_restore_symlink | apply nohalt_fail].
        - intros done p todo w1 w2 El HP1 _ Hrun1.
          assert (Hin : In p (sort_strings lls)) by (rewrite El; apply in_or_app; right; left; reflexivity).
          apply isort_in in Hin. pose proof Hin as Hin'. apply in_k in Hin'.
          destruct Hin' as (fi & Hi & Hne & Hk).
          rewrite (info_of_key_some w0 p fi Hi) in Hrun1.
          pose proof (isort_nodup str_ltb lls (l_k_nodup w0 KLink)) as Hnd.
          fold (sort_strings lls) in Hnd. rewrite El in Hnd.
          rewrite app_assoc.
          apply (link_stepF ((lds ++ lfs) ++ done) w1 w2 p fi HP1 Hi Hne Hk); [| | exact Hrun1].
          + intros Hcc. apply in_app_or in Hcc. destruct Hcc as [Hcc | Hcc].
            * apply in_app_or in Hcc. destruct Hcc as [Hcc | Hcc];
                apply in_k in Hcc; destruct Hcc as (fi' & Hi' & _ & Hk'); congruence.
            * exact (nodup_mid_notin p done todo Hnd Hcc).
          + intros a Ha Hane. apply in_or_app. left. apply in_or_app. left.
            exact (anc_in_ds Vb Vk B0 HwfB w0 Hinv p fi a Hi Ha Hane). }
      destruct HP' as (Hc & Hf & HPq). split; [exact Hc | split; [exact Hf |]].
      apply (Prog_ext Vb Vk B0 w0 s1 ((lds ++ lfs) ++ sort_strings lls) ((lds ++ lfs) ++ lls) _); [| exact HPq].
      intros x. rewrite !in_app_iff. unfold sort_strings. rewrite isort_in. reflexivity.
    Qed.
  End FRestore.

  (** ** the classification: an Lstat that is refused is an error collected *)
  Definition viewsF (w : world) : Prop :=
    w_crash w = None /\ w_faults w = fl /\ Vb w = Vb w0 /\ Vk w = Vk w0.

  Lemma viewsF_sim (w w' : world) : viewsF w -> sim w w' -> w_crash w' = None -> w_faults w' = fl -> viewsF w'.
  Proof.
    intros (_ & _ & H3 & H4) Hs Hc Hf. split; [exact Hc | split; [exact Hf | split]].
    - rewrite (Vbst w w' Hs). exact H3.
    - rewrite (Vkst w w' Hs). exact H4.
  Qed.

  Lemma classify_stepF (p : str) (w : world) (errs : list errno) (rm ds fs ls : list str) :
    viewsF w ->
    exists acc' w', classify_f base w0 (errs, rm, ds, fs, ls) p w = (MOk acc', w') /\ viewsF w' /\
      (acc' = (errs, rm ++ opt1 (is_rm w0 (Vb w0) p) p, ds ++ opt1 (is_k w0 KDir p) p,
               fs ++ opt1 (is_k w0 KFile p) p, ls ++ opt1 (is_k w0 KLink p) p) \/
       exists e, acc' = (errs ++ [e], rm, ds, fs, ls)).
  Proof.
    intros Hv. pose proof Hv as (Hc & Hf & HVb & HVk). unfold classify_f, is_rm, is_k.
    destruct (infos !! p) as [[fi|]|] eqn:Hip.
    - destruct (str_eqb p s_root) eqn:Er; simpl.
      + eexists _, w. split; [reflexivity | split; [exact Hv | left]]. rewrite !app_nil_r. reflexivity.
      + destruct (fi_kind fi); simpl; eexists _, w; (split; [reflexivity | split; [exact Hv | left]]);
          rewrite !app_nil_r; reflexivity.
    - set (wq := unfault w).
      assert (Hq : quiet wq) by (exact (quiet_unfault w Hc)).
      assert (HVq : Vb wq = Vb w0) by (unfold wq; rewrite (Vbst w (unfault w) (sim_unfault w)); exact HVb).
      assert (Hwf : swf (Vb wq)) by (rewrite HVq; exact (inv_wf_b Vb Vk B0 w0 Hinv)).
      assert (Hnlp : snolinkpar (Vb wq) p).
      { rewrite HVq. apply (inv_nolink Vb Vk B0 w0 Hinv). unfold tracked. rewrite Hip. discriminate. }
      destruct (lexists_spec base Vb Vk tnb accb rhb whb hid anc HLb wq p Hq Hwf Hnlp) as (w1 & Hrun1 & HV1 & Hsr1).
      destruct (fstrict_cases _ _ _ _ _
                  (lexists_strict (eq tagb) (fun x => sim wq x) base p wq fl (flaw_lstat _ _ _ _ _ HFb p) Hq (sim_refl wq)))
        as [Hc1 | (e & wx & Hrunf & _ & Hcx & Hfx & _ & _ & _ & ws & Hsws & _ & Hsim)].
      + destruct (cleanrun_result _ wq fl _ w1 Hc1 Hrun1) as (_ & Hq1 & Hrunf & _).
        rewrite <- Hf in Hrunf at 1. unfold wq in Hrunf at 1. rewrite lift_unfault in Hrunf.
        rewrite (bind_ok _ _ _ _ _ (try_ok _ _ _ _ Hrunf)). rewrite HVq.
        assert (Hv1 : viewsF (set_faults w1 fl)).
        { split; [exact (proj1 Hq1) | split; [reflexivity | split]].
          - rewrite (Vbst w1 _ (sim_lift w1 fl)), HV1. exact HVq.
          - rewrite (Vkst w1 _ (sim_lift w1 fl)), (proj1 Hsr1). unfold wq.
            rewrite (Vkst w (unfault w) (sim_unfault w)). exact HVk. }
        destruct (Vb w0 !! p) as [nd0|]; cbv beta iota;
          (eexists _, (set_faults w1 fl); split; [reflexivity | split; [exact Hv1 | left]]);
          simpl; rewrite !app_nil_r; reflexivity.
      + rewrite <- Hf in Hrunf at 1. unfold wq in Hrunf at 1. rewrite lift_unfault in Hrunf.
        rewrite (bind_ok _ _ _ _ _ (try_err _ _ _ _ Hrunf)).
        eexists _, wx. split; [reflexivity | split; [| right; exists e; reflexivity]].
        apply (viewsF_sim w wx Hv); [| exact Hcx | exact Hfx].
        exact (sim_trans w wq wx (sim_unfault w) (sim_trans wq ws wx Hsws Hsim)).
    - simpl. eexists _, w. split; [reflexivity | split; [exact Hv | left]]. rewrite !app_nil_r. reflexivity.
  Qed.

  Lemma classifyF : forall (l : list str) (w : world) (errs : list errno) (rm ds fs ls : list str),
    viewsF w ->
    exists errs' rm' ds' fs' ls' w',
      mfold (classify_f base w0) l (errs, rm, ds, fs, ls) w = (MOk (errs', rm', ds', fs', ls'), w') /\ viewsF w' /\
      exists extra, errs' = errs ++ extra /\
        (extra = [] -> rm' = rm ++ List.filter (is_rm w0 (Vb w0)) l /\ ds' = ds ++ List.filter (is_k w0 KDir) l /\
                       fs' = fs ++ List.filter (is_k w0 KFile) l /\ ls' = ls ++ List.filter (is_k w0 KLink) l).
  Proof.
    induction l as [|p l IH]; intros w errs rm ds fs ls Hv.
    - exists errs, rm, ds, fs, ls, w. split; [reflexivity | split; [exact Hv |]].
      exists []. split; [rewrite app_nil_r; reflexivity | intros _; simpl; rewrite !app_nil_r; repeat split].
    - destruct (classify_stepF p w errs rm ds fs ls Hv) as (acc' & w1 & Hrun1 & Hv1 & Hcase).
      cbn [mfold]. rewrite (bind_ok _ _ _ _ _ Hrun1).
      destruct Hcase as [-> | [e ->]].
      + destruct (IH w1 errs (rm ++ opt1 (is_rm w0 (Vb w0) p) p) (ds ++ opt1 (is_k w0 KDir p) p)
                     (fs ++ opt1 (is_k w0 KFile p) p) (ls ++ opt1 (is_k w0 KLink p) p) Hv1)
          as (errs' & rm' & ds' & fs' & ls' & w' & Hrun & Hv' & extra & He & Hq).
        exists errs', rm', ds', fs', ls', w'. split; [exact Hrun | split; [exact Hv' |]].
        exists extra. split; [exact He |]. intros Hx. destruct (Hq Hx) as (-> & -> & -> & ->).
        rewrite !filter_cons_app. unfold opt1. rewrite <- !app_assoc. repeat split.
      + destruct (IH w1 (errs ++ [e]) rm ds fs ls Hv1)
          as (errs' & rm' & ds' & fs' & ls' & w' & Hrun & Hv' & extra & He & _).
        exists errs', rm', ds', fs', ls', w'. split; [exact Hrun | split; [exact Hv' |]].
        exists (e :: extra). split; [rewrite He, <- app_assoc; reflexivity | intros D; discriminate D].
  Qed.

  Lemma nohalt_classify (acc0 : list errno * list str * list str * list str * list str) (p : str) :
    nohalt (classify_f base w0 acc0 p).
  Proof.
    destruct acc0 as [[[[errs rm] ds] fs] ls]. unfold classify_f.
    destruct (infos !! p) as [[fi|]|].
    - destruct (str_eqb p s_root); [apply nohalt_ret |]. destruct (fi_kind fi); apply nohalt_ret.
    - apply nohalt_bind; [apply nohalt_try; exact (nohalt_lexists_any base Vb tagb rhb whb p HFb) |].
      intros [[|] | e]; apply nohalt_ret.
    - apply nohalt_ret.
  Qed.

  (** ** Assembly: nil only if everything was restored *)
  Theorem rollback_nil_core (w : world) (r : mres unit) (w' : world) :
    w_crash w = None -> w_faults w = fl -> unfault w = w0 ->
    b_rollback base backup w = (r, w') ->
    r <> MHalt /\ w_crash w' = None /\
    (r = MOk tt -> store_eqv (Vb w') B0 /\ (forall p, p <> s_root -> Vk w' !! p = None) /\ w_infos w' = ∅).
  Proof.
    intros Hc Hf Hw0 Hrun.
    pose proof (inv_quiet Vb Vk B0 w0 Hinv) as Hq0.
    pose proof (inv_wf_b Vb Vk B0 w0 Hinv) as Hwfb0.
    pose proof (inv_wf_k Vb Vk B0 w0 Hinv) as Hwfk0.
    assert (Ei : w_infos w = infos) by (rewrite <- Hw0; reflexivity).
    assert (Hv0 : viewsF w).
    { split; [exact Hc | split; [exact Hf | split]]; rewrite <- Hw0.
      - symmetry. exact (Vbst w (unfault w) (sim_unfault w)).
      - symmetry. exact (Vkst w (unfault w) (sim_unfault w)). }
    destruct (classifyF (rkeys w0) w [] [] [] [] [] Hv0)
      as (errs0 & rm & ds & fs & ls & wc & Hcls & Hvc & extra & He0 & Hquiet).
    simpl app in He0. subst errs0.
    pose proof Hvc as (Hcc & Hfc & HVc & HVkc).
    set (frm := fun p : str => a_remove base p).
    set (fds := fun p : str => match info_of_key infos p with Some fi => remove_if_symlink base p ;;; copy_dir base p fi | None => fail EOther end).
    set (ffs := fun p : str => match info_of_key infos p with Some fi => restore_file base backup p fi | None => fail EOther end).
    set (fls := fun p : str => match info_of_key infos p with Some fi => restore_symlink base backup p fi | None => fail EOther end).
    assert (Nrm : forall x, nohalt (frm x)) by (intros x; unfold frm; nh).
    assert (Nds : forall x, nohalt (fds x)).
    { intros x. unfold fds. destruct (info_of_key infos x); [| apply nohalt_fail].
      apply nohalt_bind; [apply (nohalt_remove_if_symlink base Vb tagb rhb whb HFb) | intros u].
      apply (nohalt_copy_dir base Vb tagb rhb whb HFb). }
    assert (Nfs : forall x, nohalt (ffs x)).
    { intros x. unfold ffs. destruct (info_of_key infos x); [apply nohalt_restore_file | apply nohalt_fail]. }
    assert (Nls : forall x, nohalt (fls x)).
    { intros x. unfold fls. destruct (info_of_key infos x); [apply nohalt_restore_symlink | apply nohalt_fail]. }
    assert (Nrk : forall x, nohalt (try_rm backup x)).
    { intros x. unfold try_rm. apply nohalt_bind; [exact (nohalt_lexists_any backup Vk tagk rhk whk x HFk) | intros found].
      destruct found; nh. }
    destruct (collect_errs_run frm (sort_most rm) wc Nrm Hcc) as (e1 & w1 & Hp1 & Hc1 & Hf1 & _).
    destruct (collect_errs_run fds (sort_least ds) w1 Nds Hc1) as (e2 & w2 & Hp2 & Hc2 & Hf2 & _).
    destruct (collect_errs_run ffs (sort_strings fs) w2 Nfs Hc2) as (e3 & w3 & Hp3 & Hc3 & Hf3 & _).
    destruct (collect_errs_run fls (sort_strings ls) w3 Nls Hc3) as (e4 & w4 & Hp4 & Hc4 & Hf4 & _).
    destruct (collect_errs_run (try_rm backup) (sort_most ls) w4 Nrk Hc4) as (e5 & w5 & Hp5 & Hc5 & Hf5 & _).
    destruct (collect_errs_run (try_rm backup) (sort_most fs) w5 Nrk Hc5) as (e6 & w6 & Hp6 & Hc6 & Hf6 & _).
    destruct (collect_errs_run (try_rm backup) (sort_most ds) w6 Nrk Hc6) as (e7 & w7 & Hp7 & Hc7 & Hf7 & _).
    (* the run, pass by pass *)
    assert (Hfinal : b_rollback base backup w =
              (match (match e1 with [] => extra | _ => e1 end) ++ e2 ++ e3 ++ e4 ++ e5 ++ e6 ++ e7 with
               | [] => MOk tt | _ => MErr ERollback end, with_infos w7 ∅)).
    { unfold b_rollback.
      rewrite (bind_ok get_infos _ w w (w_infos w) eq_refl). cbv beta zeta. rewrite Ei.
      rewrite (bind_ok _ _ w wc _ Hcls). cbv beta iota zeta.
      fold frm. rewrite (bind_ok _ _ wc w1 e1 Hp1). cbv beta iota zeta.
      fold fds. rewrite (bind_ok _ _ w1 w2 e2 Hp2). cbv beta iota zeta.
      fold ffs. rewrite (bind_ok _ _ w2 w3 e3 Hp3). cbv beta iota zeta.
      fold fls. rewrite (bind_ok _ _ w3 w4 e4 Hp4). cbv beta iota zeta.
      unfold try_remove_backup_paths. fold (try_rm backup).
      rewrite (bind_ok _ _ w4 w5 e5 Hp5). cbv beta iota zeta.
      rewrite (bind_ok _ _ w5 w6 e6 Hp6). cbv beta iota zeta.
      rewrite (bind_ok _ _ w6 w7 e7 Hp7). cbv beta iota zeta.
      rewrite (bind_ok (put_infos ∅) _ w7 (with_infos w7 ∅) tt eq_refl).
      destruct ((match e1 with [] => extra | _ => e1 end) ++ e2 ++ e3 ++ e4 ++ e5 ++ e6 ++ e7); reflexivity. }
    rewrite Hrun in Hfinal. pose proof (f_equal fst Hfinal) as Hr. pose proof (f_equal snd Hfinal) as Hw'.
    cbn [fst snd] in Hr, Hw'. clear Hfinal.
    remember ((match e1 with [] => extra | _ => e1 end) ++ e2 ++ e3 ++ e4 ++ e5 ++ e6 ++ e7) as L eqn:Eall.
    split; [rewrite Hr; destruct L; discriminate | split; [rewrite Hw'; exact Hc7 |]].
    intros Hok. rewrite Hok in Hr.
    destruct L as [|x0 L0]; [| discriminate Hr]. symmetry in Eall.
    apply app_eq_nil in Eall. destruct Eall as [E1 Eall].
    apply app_eq_nil in Eall. destruct Eall as [-> Eall].
    apply app_eq_nil in Eall. destruct Eall as [-> Eall].
    apply app_eq_nil in Eall. destruct Eall as [-> Eall].
    apply app_eq_nil in Eall. destruct Eall as [-> Eall].
    apply app_eq_nil in Eall. destruct Eall as [-> ->].
    assert (E1' : e1 = [] /\ extra = []) by (destruct e1; [split; [reflexivity | exact E1] | discriminate E1]).
    destruct E1' as [-> ->].
    destruct (Hquiet eq_refl) as (-> & -> & -> & ->). simpl app in *.
    fold lrm lds lfs lls in *.
    (* pass 1 *)
    assert (HR0 : RInvF Vb Vk fl (Vb w0) (Vk w0) [] wc).
    { split; [exact Hcc | split; [exact Hfc |]].
      split; [exact (quiet_unfault wc Hcc) |].
      rewrite (Vbst wc _ (sim_unfault wc)), (Vkst wc _ (sim_unfault wc)), HVc.
      split; [exact Hwfb0 | split; [exact HVkc | split; [apply store_eqv_except_refl | intros p []]]]. }
    pose proof (remove_passF base Vb Vk tnb accb rhb whb hid anc tagb HLb HFb fl (Vb w0) (Vk w0) [] (sort_most lrm) wc w1 HR0
                  (isort_nodup most lrm (l_rm_nodup Vb w0)) (rm_elem Vb Vk B0 HwfB w0 Hinv)
                  (rm_order Vb Vk B0 HwfB w0 Hinv) (rm_not_anc Vb Vk hid anc B0 Hloc w0 Hinv) Hp1) as HR1F.
    simpl app in HR1F. destruct HR1F as (_ & _ & HR1).
    set (u1 := unfault w1) in *.
    pose proof HR1 as (Hq1 & Hwf1 & HVk1 & Heqv1 & Hnone1).
    assert (Hs1_none : forall p, infos !! p = Some None -> Vb u1 !! p = None).
    { intros p Hi. destruct (Vb w0 !! p) as [n|] eqn:Hp.
      - apply Hnone1. apply isort_in. apply in_rm. split; [exact Hi | congruence].
      - exact (RInv_none Vb Vk (Vb w0) (Vk w0) _ u1 p HR1 Hp). }
    assert (Hs1_keep : forall p, infos !! p <> Some None -> sonode_eqv (Vb u1 !! p) (Vb w0 !! p)).
    { intros p Hi. apply Heqv1. intros Hin. apply isort_in in Hin. apply in_rm in Hin.
      apply Hi. exact (proj1 Hin). }
    assert (HP1 : ProgF (Vb u1) [] w1).
    { split; [exact Hc1 | split; [congruence |]].
      split; [exact Hq1 | split; [exact Hwf1 | split; [exact HVk1 | split]]].
      - intros p [].
      - intros p _. apply sonode_eqv_refl. }
    (* passes 2-4 *)
    pose proof (dirs_passF (Vb u1) Hs1_keep w1 w2 HP1 Hp2) as HP2.
    pose proof (files_passF (Vb u1) Hs1_keep w2 w3 HP2 Hp3) as HP3.
    pose proof (links_passF (Vb u1) Hs1_keep w3 w4 HP3 Hp4) as HP4.
    destruct HP4 as (_ & _ & HP4).
    pose proof (prog_final Vb Vk B0 w0 Hinv (Vb u1) Hs1_none Hs1_keep (unfault w4) HP4) as Hfin4.
    pose proof HP4 as (Hq4 & Hwf4 & HVk4 & _ & _).
    (* passes 5-7 *)
    assert (HRk0 : RInvF Vk Vb fl (Vk w0) (Vb (unfault w4)) [] w4).
    { split; [exact Hc4 | split; [congruence |]].
      split; [exact Hq4 |]. rewrite HVk4. split; [exact Hwfk0 | split; [reflexivity |]].
      split; [apply store_eqv_except_refl | intros p []]. }
    assert (HneL : KLink <> KDir) by discriminate.
    assert (HneF : KFile <> KDir) by discriminate.
    pose proof (try_rm_passF backup Vk Vb tnk acck rhk whk nohid nohid tagk HLk HFk fl (Vk w0) (Vb (unfault w4)) [] (sort_most lls) w4 w5 HRk0
                  (bk_elem Vb Vk B0 w0 Hinv KLink) (bk_leaf_order Vb Vk B0 w0 Hinv KLink [] HneL)
                  (fun p _ => not_nohid p) Hp5) as HR5.
    destruct HR5 as (X1 & X2 & HR5).
    apply (RInv_ext Vk Vb (Vk w0) (Vb (unfault w4)) _ lls) in HR5; [| intros x; simpl; apply isort_in].
    pose proof (try_rm_passF backup Vk Vb tnk acck rhk whk nohid nohid tagk HLk HFk fl (Vk w0) (Vb (unfault w4)) lls (sort_most lfs) w5 w6
                  (conj X1 (conj X2 HR5)) (bk_elem Vb Vk B0 w0 Hinv KFile) (bk_leaf_order Vb Vk B0 w0 Hinv KFile lls HneF)
                  (fun p _ => not_nohid p) Hp6) as HR6.
    destruct HR6 as (Y1 & Y2 & HR6).
    apply (RInv_ext Vk Vb (Vk w0) (Vb (unfault w4)) _ (lls ++ lfs)) in HR6;
      [| intros x; rewrite !in_app_iff; unfold sort_most; rewrite isort_in; reflexivity].
    pose proof (try_rm_passF backup Vk Vb tnk acck rhk whk nohid nohid tagk HLk HFk fl (Vk w0) (Vb (unfault w4)) (lls ++ lfs)
                  (sort_most lds) w6 w7 (conj Y1 (conj Y2 HR6)) (bk_elem Vb Vk B0 w0 Hinv KDir)
                  (bk_dir_order Vb Vk B0 w0 Hinv) (fun p _ => not_nohid p) Hp7) as HR7.
    destruct HR7 as (_ & _ & HR7).
    pose proof HR7 as (Hq7 & _ & HVb7 & Heqv7 & Hnone7).
    subst w'.
    assert (Ev : forall x, sim w7 x -> Vb x = Vb (unfault w7) /\ Vk x = Vk (unfault w7)).
    { intros x Hs. split.
      - rewrite (Vbst w7 x Hs). symmetry. exact (Vbst w7 _ (sim_unfault w7)).
      - rewrite (Vkst w7 x Hs). symmetry. exact (Vkst w7 _ (sim_unfault w7)). }
    assert (Hsi : w_st (with_infos w7 ∅) = w_st w7) by reflexivity.
    split; [| split; [| reflexivity]].
    - rewrite (flaw_st _ _ _ _ _ HFb w7 (with_infos w7 ∅) Hsi), <- (Vbst w7 _ (sim_unfault w7)), HVb7. exact Hfin4.
    - intros p Hne. rewrite (flaw_st _ _ _ _ _ HFk w7 (with_infos w7 ∅) Hsi), <- (Vkst w7 _ (sim_unfault w7)).
      destruct (Vk w0 !! p) as [n|] eqn:Hp.
      + apply Hnone7.
        destruct (inv_backup_only Vb Vk B0 w0 Hinv p Hne) as (fi & Hi); [congruence |].
        rewrite !in_app_iff. unfold sort_most. rewrite isort_in.
        destruct (some_classified w0 p fi Hi Hne) as [H | [H | H]]; tauto.
      + exact (RInv_none Vk Vb (Vk w0) (Vb (unfault w4)) _ (unfault w7) p HR7 Hp).
  Qed.
End FRollback.

(* ------------------------------------------------------------------ *)
(** * Once the plan is spent, Rollback is executed exactly as without plan *)

Ltac sccall :=
  eapply sclean_fcall;
  first [ eapply flaw_lstat | eapply flaw_stat | eapply flaw_readlink | eapply flaw_open
        | eapply flaw_openfile | eapply flaw_create | eapply flaw_mkdir | eapply flaw_mkdirall
        | eapply flaw_remove | eapply flaw_removeall | eapply flaw_rename | eapply flaw_chmod
        | eapply flaw_chown | eapply flaw_lchown | eapply flaw_chtimes | eapply flaw_symlink ];
  eassumption.

Ltac schandle :=
  apply (sclean_fcall Tany);
  first [ apply fcall_hread | apply fcall_hwrite | apply fcall_hclose | apply fcall_hstat
        | apply fcall_hreaddirnames ]; apply any_tag.

Lemma sclean_ignore_permission (m : M unit) : sclean m -> sclean (ignore_permission m).
Proof.
  intros Hm. unfold ignore_permission. apply sclean_bind; [apply sclean_try; exact Hm |].
  intros [x | e]; [apply sclean_ret |]. destruct (is_permission e); [apply sclean_ret | apply sclean_fail].
Qed.

Lemma sclean_wrap_other (m : M unit) : sclean m -> sclean (wrap_other m).
Proof.
  intros Hm. unfold wrap_other. apply sclean_bind; [apply sclean_try; exact Hm |].
  intros [x | e]; [apply sclean_ret | apply sclean_fail].
Qed.

Ltac sc :=
  repeat match goal with
    | |- sclean (ret _) => apply sclean_ret
    | |- sclean (fail _) => apply sclean_fail
    | |- sclean (try_ _) => apply sclean_try
    | |- sclean (ignore_permission _) => apply sclean_ignore_permission
    | |- sclean (wrap_other _) => apply sclean_wrap_other
    | |- sclean (bind _ _) => apply sclean_bind; [| intros ?]
    | |- sclean (lift_res ?r) => destruct r; cbn [lift_res]
    | |- sclean (match ?x with Ok _ => _ | Err _ => _ end) => destruct x
    | |- sclean (if ?b then _ else _) => destruct b
    | |- sclean (match ?x with KDir => _ | KFile => _ | KLink => _ end) => destruct x
    | |- sclean (match ?x with Some _ => _ | None => _ end) => destruct x
    | |- sclean (hread _) => schandle
    | |- sclean (hwrite _ _) => schandle
    | |- sclean (hclose _) => schandle
    | |- sclean (hstat _) => schandle
    | |- sclean (hreaddirnames _) => schandle
    | |- sclean (a_lstat _ _) => sccall
    | |- sclean (a_readlink _ _) => sccall
    | |- sclean (a_open _ _) => sccall
    | |- sclean (a_openfile _ _ _ _) => sccall
    | |- sclean (a_mkdirall _ _ _) => sccall
    | |- sclean (a_remove _ _) => sccall
    | |- sclean (a_removeall _ _) => sccall
    | |- sclean (a_chmod _ _ _) => sccall
    | |- sclean (a_chown _ _ _ _) => sccall
    | |- sclean (a_lchown _ _ _ _) => sccall
    | |- sclean (a_chtimes _ _ _) => sccall
    | |- sclean (a_symlink _ _ _) => sccall
    end.

Section SClean.
  Variables a a' : fsapi.
  Variables V V' : world -> store.
  Variables tag tag' : fstag.
  Variables rh rh' wh wh' : fhandle -> str -> nat -> Prop.
  Variables hid hid' anc anc' : str -> Prop.
  Hypothesis HFa : fault_laws a V tag rh wh.
  Hypothesis HFa' : fault_laws a' V' tag' rh' wh'.

  Lemma sclean_lexists (p : str) : sclean (lexists a p).
  Proof.
    unfold lexists. apply sclean_bind; [apply sclean_try; sccall |].
    intros [fi | e]; [apply sclean_ret |]. destruct (is_not_found e); [apply sclean_ret | apply sclean_fail].
  Qed.

  Lemma sclean_remove_if_symlink (p : str) : sclean (remove_if_symlink a p).
  Proof. unfold remove_if_symlink. sc. Qed.

  Lemma sclean_chown_to (info : finfo) (p : str) : sclean (chown_to a info p).
  Proof. unfold chown_to. sc. Qed.

  Lemma sclean_copy_dir (p : str) (info : finfo) : sclean (copy_dir a p info).
  Proof.
    unfold copy_dir. pose proof sclean_chown_to as Hc.
    sc; match goal with |- sclean (chown_to _ _ _) => apply Hc end.
  Qed.

  Lemma sclean_io_copy : forall (fuel : nat) (dst src : fhandle), sclean (io_copy fuel dst src).
  Proof.
    induction fuel as [|fuel IH]; intros dst src; [apply sclean_fail |].
    cbn [io_copy]. apply sclean_bind; [schandle |]. intros [o h']. cbn [fst snd].
    destruct o as [ch|]; [| apply sclean_ret]. apply sclean_bind; [schandle | intros d; apply IH].
  Qed.

  Lemma sclean_write_file (p : str) (perm : N) (src : fhandle) : sclean (write_file a p perm src).
  Proof.
    unfold write_file. pose proof sclean_io_copy as Hc.
    apply sclean_bind; [sccall | intros file].
    apply sclean_bind; [apply sclean_try; apply Hc | intros r].
    apply sclean_bind; [apply sclean_try; schandle | intros c].
    destruct r, c; first [apply sclean_ret | apply sclean_fail].
  Qed.

  Lemma sclean_copy_file (p : str) (info : finfo) (src : fhandle) : sclean (copy_file a p info src).
  Proof.
    unfold copy_file. pose proof sclean_write_file as Hw. pose proof sclean_chown_to as Hc.
    apply sclean_wrap_other. destruct (fi_kind info); try apply sclean_fail.
    apply sclean_bind; [apply Hw | intros u1].
    apply sclean_bind; [apply sclean_ignore_permission; apply Hc | intros u2].
    sc.
  Qed.

  Lemma sclean_copy_symlink (p : str) (info : finfo) : sclean (copy_symlink a' a p info).
  Proof. unfold copy_symlink. apply sclean_wrap_other. destruct (fi_kind info); try apply sclean_fail. sc. Qed.
End SClean.

Section SCleanRollback.
  Variables base backup : fsapi.
  Variables Vb Vk : world -> store.
  Variables tagb tagk : fstag.
  Variables rhb rhk whb whk : fhandle -> str -> nat -> Prop.
  Variables hid anc : str -> Prop.
  Hypothesis HFb : fault_laws base Vb tagb rhb whb.
  Hypothesis HFk : fault_laws backup Vk tagk rhk whk.

  Lemma sclean_restore_file (p : str) (fi : finfo) : sclean (restore_file base backup p fi).
  Proof.
    unfold restore_file. pose proof (sclean_copy_file base Vb tagb rhb whb HFb) as Hcf.
    apply sclean_bind; [apply sclean_try; sccall | intros r].
    destruct r as [f | e]; [| destruct (is_not_found e); [apply sclean_ret | apply sclean_fail]].
    apply sclean_bind; [apply sclean_try; schandle | intros r2].
    destruct r2 as [fi0 | e]; [| sc].
    apply sclean_bind; [destruct (fi_kind fi0); sc | intros r3].
    destruct r3 as [u | e]; [| sc].
    apply sclean_bind; [apply sclean_try; apply (sclean_remove_if_symlink base Vb tagb rhb whb HFb) | intros r3b].
    destruct r3b as [u2 | e]; [| sc].
    apply sclean_bind; [apply sclean_try; apply Hcf | intros r4]. sc.
  Qed.

  Lemma sclean_restore_symlink (p : str) (fi : finfo) : sclean (restore_symlink base backup p fi).
  Proof.
    unfold restore_symlink.
    pose proof (sclean_copy_symlink base backup Vb Vk tagb tagk rhb rhk whb whk HFb HFk) as Hcs.
    apply sclean_bind; [exact (sclean_lexists backup Vk tagk rhk whk HFk p) | intros ex].
    destruct (negb ex); [apply sclean_ret |].
    apply sclean_bind; [exact (sclean_lexists base Vb tagb rhb whb HFb p) | intros ex2].
    apply sclean_bind; [destruct ex2; sc | intros u]. apply Hcs.
  Qed.

  Lemma sclean_rollback : sclean (b_rollback base backup).
  Proof.
    unfold b_rollback. apply sclean_bind; [apply sclean_plain; apply fplain_get_infos | intros infos].
    cbv zeta.
    apply sclean_bind.
    { apply sclean_mfold. intros [[[[errs rm] ds] fs] ls] p.
      destruct (infos !! p) as [[fi|]|].
      - destruct (str_eqb p s_root); [apply sclean_ret |]. destruct (fi_kind fi); apply sclean_ret.
      - apply sclean_bind; [apply sclean_try; exact (sclean_lexists base Vb tagb rhb whb HFb p) |].
        intros [[|] | e]; apply sclean_ret.
      - apply sclean_ret. }
    intros [[[[errs0 rm] ds] fs] ls].
    apply sclean_bind; [apply sclean_collect_errs; intros p; sc | intros e1].
    apply sclean_bind.
    { apply sclean_collect_errs. intros p. destruct (info_of_key infos p); [| apply sclean_fail].
      apply sclean_bind; [apply (sclean_remove_if_symlink base Vb tagb rhb whb HFb) | intros u].
      apply (sclean_copy_dir base Vb tagb rhb whb HFb). }
    intros e2. apply sclean_bind.
    { apply sclean_collect_errs. intros p. destruct (info_of_key infos p);
        [apply sclean_restore_file | apply sclean_fail]. }
    intros e3. apply sclean_bind.
    { apply sclean_collect_errs. intros p. destruct (info_of_key infos p);
        [apply sclean_restore_symlink | apply sclean_fail]. }
    intros e4.
    assert (Hrm : forall paths, sclean (try_remove_backup_paths backup paths)).
    { intros paths. unfold try_remove_backup_paths. apply sclean_collect_errs. intros p.
      apply sclean_bind; [exact (sclean_lexists backup Vk tagk rhk whk HFk p) | intros found].
      destruct found; sc. }
    apply sclean_bind; [apply Hrm | intros e5].
    apply sclean_bind; [apply Hrm | intros e6].
    apply sclean_bind; [apply Hrm | intros e7].
    apply sclean_bind; [apply sclean_plain; apply fplain_put_infos | intros u].
    destruct (_ ++ _); [apply sclean_ret | apply sclean_fail].
  Qed.
End SCleanRollback.

(* ------------------------------------------------------------------ *)
(** * The theorems, as stated in Spec/Faults.v *)

Theorem rollback_fault :
  forall base backup Vb Vk tnb tnk accb acck rhb rhk whb whk hid anc B0 tagb tagk,
  rollback_fault_stmt base backup Vb Vk tnb tnk accb acck rhb rhk whb whk hid anc B0 tagb tagk.
Proof.
  intros base backup Vb Vk tnb tnk accb acck rhb rhk whb whk hid anc B0 tagb tagk.
  unfold rollback_fault_stmt. cbv zeta. intros HLb HLk HFb HFk Hlinks Hsmall HwfB Hloc w [Hc HI] Hsingle.
  destruct (b_rollback base backup w) as [r w'] eqn:Hrun.
  destruct (rollback_nil_core base backup Vb Vk tnb tnk accb acck rhb rhk whb whk hid anc B0 tagb tagk
              HLb HLk HFb HFk Hlinks Hsmall HwfB Hloc (w_faults w) (unfault w) HI w r w' Hc eq_refl eq_refl Hrun)
    as (Hn & Hc' & Hnil).
  exists r, w'. split; [reflexivity | split; [exact Hn | split; [exact Hc' | split; [exact Hnil |]]]].
  intros Hs.
  destruct (sclean_rollback base backup Vb Vk tagb tagk rhb rhk whb whk HFb HFk w Hc Hs)
    as (rq & w1 & Hrunq & _ & _ & Hrunf & _).
  destruct (rollback_spec base backup Vb Vk tnb tnk accb acck rhb rhk whb whk hid anc B0
              HLb HLk Hlinks Hsmall HwfB Hloc (unfault w) HI) as (wq' & Hrb & _).
  rewrite Hrb in Hrunq. injection Hrunq as <- _. rewrite Hrun in Hrunf. injection Hrunf as -> _. reflexivity.
Qed.

Theorem rollback_nil_restored :
  forall base backup Vb Vk tnb tnk accb acck rhb rhk whb whk hid anc B0 tagb tagk,
  rollback_nil_stmt base backup Vb Vk tnb tnk accb acck rhb rhk whb whk hid anc B0 tagb tagk.
Proof.
  intros base backup Vb Vk tnb tnk accb acck rhb rhk whb whk hid anc B0 tagb tagk.
  unfold rollback_nil_stmt. cbv zeta. intros HLb HLk HFb HFk Hlinks Hsmall HwfB Hloc w r w' [Hc HI] Hrun.
  destruct (rollback_nil_core base backup Vb Vk tnb tnk accb acck rhb rhk whb whk hid anc B0 tagb tagk
              HLb HLk HFb HFk Hlinks Hsmall HwfB Hloc (w_faults w) (unfault w) HI w r w' Hc eq_refl eq_refl Hrun)
    as (Hn & _ & Hnil).
  split; [exact Hn | exact Hnil].
Qed.

Theorem run_fault :
  forall base backup Vb Vk tnb tnk accb acck rhb rhk whb whk hid anc B0 tagb tagk,
  run_fault_stmt base backup Vb Vk tnb tnk accb acck rhb rhk whb whk hid anc B0 tagb tagk.
Proof.
  intros base backup Vb Vk tnb tnk accb acck rhb rhk whb whk hid anc B0 tagb tagk.
  unfold run_fault_stmt. cbv zeta. intros HLb HLb2 HLk HFb HFk Hsmall w0 ops w (Hc0 & Hsingle0 & Hinit) Hrun.
  pose proof Hinit as (_ & _ & _ & HwfB & Hlinks & _ & _).
  pose proof (initial_inv_spec Vb Vk tnb tnk accb acck B0 (unfault w0) Hinit) as HI0.
  pose proof (initial_loc_ok base Vb Vk tnb tnk accb acck rhb whb hid anc B0 HLb (unfault w0) Hinit) as Hloc.
  destruct (good_run_fault_inv base backup Vb Vk tnb tnk accb acck rhb rhk whb whk hid anc B0 tagb tagk
              HLb HLb2 HLk HFb HFk Hlinks Hsmall HwfB w0 ops w Hrun (conj Hc0 HI0) Hsingle0)
    as (HI & Hf & _).
  split; [exact HI |]. split; [exact (InvF_recoverable base backup Vb Vk B0 tagb tagk rhb rhk whb whk HFb HFk w HI) |].
  destruct (rollback_fault base backup Vb Vk tnb tnk accb acck rhb rhk whb whk hid anc B0 tagb tagk
              HLb HLk HFb HFk Hlinks Hsmall HwfB Hloc w HI ltac:(rewrite Hf; exact Hsingle0))
    as (r & w' & Hrb & Hn & _ & Hnil & Hsp).
  exists r, w'. split; [exact Hrb | split; [exact Hn | split; [exact Hnil | exact Hsp]]].
Qed.

Print Assumptions rollback_fault.
Print Assumptions rollback_nil_restored.
Print Assumptions run_fault.
